import PseudoModel.Eval
import Properties.C02Parse
/-!
# C02 (value half) — the tree the parser builds evaluates to the documented value

`Properties/C02Parse.lean` proves the *grouping* half of C02: the text `render k e` parses to `denote e`.
This file adds the *value* half for the INTEGER / BOOLEAN fragment of `PExpr`:

* `evalP : PExpr → Option Val` — a reference semantics written by structural recursion on the position-free
  tree, with 64-bit two's-complement (`wrap64`) arithmetic;
* `C02_eval_denote` — whenever `evalP e = some v`, the model's evaluator `evalExpr` run on `denote e`
  (enough fuel, a state in which type names can be resolved) returns exactly `v` and leaves the state unchanged;
* `C02_text_value` — composition with `C02_parseEval_render`: the text `render 0 e` parses to a tree that
  evaluates to `evalP e`.

The fragment: integer and boolean literals, `+ - *`, `DIV` / `MOD` with a non-zero divisor, the six
comparisons on integers, `=` / `<>` on booleans, `AND` / `OR` / `NOT`, unary minus.  Outside the fragment
(`/` — it yields a REAL —, `&`, strings, variables, operands of the wrong type, a zero divisor) `evalP` is
`none` and nothing is claimed.

Facts of the evaluator (`PseudoModel/Eval.lean`, `PseudoModel/Numeric.lean`) that `evalP` mirrors:

* `+ - *` and `DIV` wrap to 64 bits; `MOD` is the truncated remainder (sign of the dividend), not wrapped;
  `DIV` truncates towards zero; unary minus is `wrap64 (n * -1)` (so `-(-2^63) = -2^63`);
* an integer *literal* is not wrapped (the parser only accepts literals `< 2^63`, `PExpr.InRange`);
* `AND` short-circuits on a FALSE left operand (the right operand is then not evaluated at all, so it may be
  anything — a string, a division by zero, an undefined variable);
* `OR` does NOT short-circuit, and neither does `AND` on a TRUE left operand: the right operand is always
  evaluated and must be a BOOLEAN (see the examples at the end: `TRUE OR (1 DIV 0 = 1)` is a run-time error).
-/
namespace Pseudo

/-! ## the reference semantics -/

/-- INTEGER ⊕ INTEGER -/
def intBinP (op : BinOpTok) (a b : Int) : Option Val :=
  match op with
  | .add => some (.int (wrap64 (a + b)))
  | .sub => some (.int (wrap64 (a - b)))
  | .mul => some (.int (wrap64 (a * b)))
  | .idiv => if b = 0 then none else some (.int (wrap64 (Int.tdiv a b)))
  | .mod => if b = 0 then none else some (.int (Int.tmod a b))
  | .eq => some (.bool (a == b))
  | .ne => some (.bool (a != b))
  | .lt => some (.bool (decide (a < b)))
  | .le => some (.bool (decide (a ≤ b)))
  | .gt => some (.bool (decide (a > b)))
  | .ge => some (.bool (decide (a ≥ b)))
  | .div | .concat | .and | .or => none

/-- BOOLEAN ⊕ BOOLEAN -/
def boolBinP (op : BinOpTok) (a b : Bool) : Option Val :=
  match op with
  | .and => some (.bool (a && b))
  | .or => some (.bool (a || b))
  | .eq => some (.bool (a == b))
  | .ne => some (.bool (a != b))
  | _ => none

/-- a binary operator on two evaluated operands of the fragment -/
def evalBinP (op : BinOpTok) (l r : Val) : Option Val :=
  match l, r with
  | .int a, .int b => intBinP op a b
  | .bool a, .bool b => boolBinP op a b
  | _, _ => none

/-- the only short circuit of the evaluator: `FALSE AND …` -/
def shortP : BinOpTok → Val → Bool
  | .and, .bool false => true
  | _, _ => false

/-- Reference value of an expression tree of the INTEGER / BOOLEAN fragment (`none` = outside the fragment,
    or a run-time error such as a zero divisor or an operand of the wrong type). -/
def evalP : PExpr → Option Val
  | .int n => some (.int n)
  | .bool b => some (.bool b)
  | .str _ => none
  | .var _ => none
  | .neg e =>
    match evalP e with
    | some (.int n) => some (.int (wrap64 (n * -1)))
    | _ => none
  | .not e =>
    match evalP e with
    | some (.bool b) => some (.bool (!b))
    | _ => none
  | .bin op l r =>
    match evalP l with
    | none => none
    | some a =>
      if shortP op a then some (.bool false)
      else
        match evalP r with
        | none => none
        | some b => evalBinP op a b

/-- Type names can be resolved in `σ`: some activation is not a record's own context.  This is exactly what
    makes `scopeAct` (and then `globalAct`) succeed; the `arith` case of `evalExpr` reads both (for ENUM ± INTEGER)
    before it looks at the operands.  `St.init` and every state reached by running a program from it has the
    global activation `Program` with `isComp = false`. -/
def HasScope (σ : St) : Prop := ∃ a ∈ σ.acts, a.isComp = false

namespace C02Eval

/-! ## running `M` on a state

`PseudoProofs/EvalInv.lean` has these as `run_bind_ok` / `run_get`, but that module cannot be imported together
with `PseudoProofs/ParseLemmas.lean` (both declare `Pseudo.run_bind` and `Pseudo.run_pure`, for `M` and for the
parser monad `P`), and `C02_text_value` needs `C02Parse`; so the two lemmas are repeated here under other names. -/

theorem mrun_bind_ok {α β : Type} (m : M α) (f : α → M β) (σ σ' : St) (a : α) (h : m.run.run σ = (.ok a, σ')) :
    (m >>= f).run.run σ = (f a).run.run σ' := by
  simp only [bind, ExceptT.bind, ExceptT.mk, ExceptT.run, StateT.bind, ExceptT.bindCont, StateT.run] at h ⊢
  rw [h]

theorem mrun_get (σ : St) : (get : M St).run.run σ = (.ok σ, σ) := rfl

/-! ## one-round unfolding equations of `evalExpr` for the operator nodes -/

theorem evalExpr_intLit (f : Nat) (t : Tok) (v : Int) : evalExpr (f+1) (.intLit t v) = pure (.int v) := by
  rw [evalExpr.eq_def]

theorem evalExpr_boolLit (f : Nat) (t : Tok) (b : Bool) : evalExpr (f+1) (.boolLit t b) = pure (.bool b) := by
  rw [evalExpr.eq_def]

theorem evalExpr_neg (f : Nat) (t : Tok) (a : Expr) :
    evalExpr (f+1) (.neg t a) = (do
      let v ← evalExpr f a
      liftMsg t (evalNeg v)) := by
  rw [evalExpr.eq_def]

theorem evalExpr_not (f : Nat) (t : Tok) (a : Expr) :
    evalExpr (f+1) (.not t a) = (do
      let v ← evalExpr f a
      liftMsg t (evalNot v)) := by
  rw [evalExpr.eq_def]

theorem evalExpr_arith (f : Nat) (t : Tok) (op : ArOp) (l r : Expr) :
    evalExpr (f+1) (.arith t op l r) = (do
      let lv ← evalExpr f l
      let rv ← evalExpr f r
      let a ← scopeAct
      let g ← globalAct
      let size (n : Str) : Option Nat :=
        match a.enums.find? (·.1 == n) with
        | some (_, vals) => some vals.length
        | none => if a.id == g.id then none else (g.enums.find? (·.1 == n)).map (·.2.length)
      liftMsg t (evalArith size op lv rv)) := by
  rw [evalExpr.eq_def]; rfl

theorem evalExpr_cmp (f : Nat) (t : Tok) (op : CmpOp) (l r : Expr) :
    evalExpr (f+1) (.cmp t op l r) = (do
      let lv ← evalExpr f l
      let rv ← evalExpr f r
      liftMsg t (evalCmp op lv rv)) := by
  rw [evalExpr.eq_def]

theorem evalExpr_logic (f : Nat) (t : Tok) (op : LogOp) (l r : Expr) :
    evalExpr (f+1) (.logic t op l r) = (do
      let lv ← evalExpr f l
      match op, lv with
      | .and, .bool false => pure (.bool false)
      | _, _ =>
        let rv ← evalExpr f r
        liftMsg t (evalLogic op lv rv)) := by
  rw [evalExpr.eq_def]; rfl

/-! ## run lemmas for the operator nodes on evaluated operands -/

theorem run_scopeAct_ok (σ : St) (h : HasScope σ) : ∃ a, scopeAct.run.run σ = (.ok a, σ) := by
  unfold scopeAct
  rw [mrun_bind_ok _ _ _ _ _ (mrun_get σ)]
  cases hf : σ.acts.find? (fun a => !a.isComp) with
  | some a => exact ⟨a, rfl⟩
  | none =>
    exfalso
    obtain ⟨a, ha, hc⟩ := h
    have := List.find?_eq_none.mp hf a ha
    simp [hc] at this

theorem run_globalAct_ok (σ : St) (h : HasScope σ) : ∃ g, globalAct.run.run σ = (.ok g, σ) := by
  unfold globalAct
  rw [mrun_bind_ok _ _ _ _ _ (mrun_get σ)]
  cases hf : σ.acts.getLast? with
  | some g => exact ⟨g, rfl⟩
  | none =>
    exfalso
    obtain ⟨a, ha, _⟩ := h
    rw [List.getLast?_eq_none_iff] at hf
    rw [hf] at ha
    cases ha

theorem evalArith_int (sz : Str → Option Nat) (op : ArOp) (a b : Int) :
    evalArith sz op (.int a) (.int b) =
      if divides op && b == 0 then .error .divZero else .ok (intArith op a b) := rfl

variable {f : Nat} {σ : St} {l r : Expr}

/-- INTEGER ⊕ INTEGER with a divisor that is not zero: the value is `intArith`, the state is unchanged -/
theorem run_arith_int (t : Tok) (op : ArOp) {a b : Int}
    (hl : (evalExpr f l).run.run σ = (.ok (.int a), σ)) (hr : (evalExpr f r).run.run σ = (.ok (.int b), σ))
    (hs : HasScope σ) (hd : (divides op && b == 0) = false) :
    (evalExpr (f+1) (.arith t op l r)).run.run σ = (.ok (intArith op a b), σ) := by
  obtain ⟨sa, hsa⟩ := run_scopeAct_ok σ hs
  obtain ⟨g, hg⟩ := run_globalAct_ok σ hs
  rw [evalExpr_arith, mrun_bind_ok _ _ _ _ _ hl, mrun_bind_ok _ _ _ _ _ hr, mrun_bind_ok _ _ _ _ _ hsa,
    mrun_bind_ok _ _ _ _ _ hg]
  simp only [evalArith_int, hd, Bool.false_eq_true, if_false]
  rfl

theorem run_cmp_int (t : Tok) (op : CmpOp) {a b : Int}
    (hl : (evalExpr f l).run.run σ = (.ok (.int a), σ)) (hr : (evalExpr f r).run.run σ = (.ok (.int b), σ)) :
    (evalExpr (f+1) (.cmp t op l r)).run.run σ = (.ok (.bool (cmpInt op a b)), σ) := by
  rw [evalExpr_cmp, mrun_bind_ok _ _ _ _ _ hl, mrun_bind_ok _ _ _ _ _ hr]
  rfl

theorem run_cmp_bool_eq (t : Tok) {a b : Bool}
    (hl : (evalExpr f l).run.run σ = (.ok (.bool a), σ)) (hr : (evalExpr f r).run.run σ = (.ok (.bool b), σ)) :
    (evalExpr (f+1) (.cmp t .eq l r)).run.run σ = (.ok (.bool (a == b)), σ) := by
  rw [evalExpr_cmp, mrun_bind_ok _ _ _ _ _ hl, mrun_bind_ok _ _ _ _ _ hr]
  rfl

theorem run_cmp_bool_ne (t : Tok) {a b : Bool}
    (hl : (evalExpr f l).run.run σ = (.ok (.bool a), σ)) (hr : (evalExpr f r).run.run σ = (.ok (.bool b), σ)) :
    (evalExpr (f+1) (.cmp t .ne l r)).run.run σ = (.ok (.bool (a != b)), σ) := by
  rw [evalExpr_cmp, mrun_bind_ok _ _ _ _ _ hl, mrun_bind_ok _ _ _ _ _ hr]
  cases a <;> cases b <;> rfl

/-- `FALSE AND r`: the right operand is not evaluated -/
theorem run_and_short (t : Tok)
    (hl : (evalExpr f l).run.run σ = (.ok (.bool false), σ)) :
    (evalExpr (f+1) (.logic t .and l r)).run.run σ = (.ok (.bool false), σ) := by
  rw [evalExpr_logic, mrun_bind_ok _ _ _ _ _ hl]
  rfl

theorem run_and_true (t : Tok) {b : Bool}
    (hl : (evalExpr f l).run.run σ = (.ok (.bool true), σ)) (hr : (evalExpr f r).run.run σ = (.ok (.bool b), σ)) :
    (evalExpr (f+1) (.logic t .and l r)).run.run σ = (.ok (.bool b), σ) := by
  rw [evalExpr_logic, mrun_bind_ok _ _ _ _ _ hl]
  dsimp only
  rw [mrun_bind_ok _ _ _ _ _ hr]
  rfl

theorem run_or (t : Tok) {a b : Bool}
    (hl : (evalExpr f l).run.run σ = (.ok (.bool a), σ)) (hr : (evalExpr f r).run.run σ = (.ok (.bool b), σ)) :
    (evalExpr (f+1) (.logic t .or l r)).run.run σ = (.ok (.bool (a || b)), σ) := by
  rw [evalExpr_logic, mrun_bind_ok _ _ _ _ _ hl]
  dsimp only
  rw [mrun_bind_ok _ _ _ _ _ hr]
  rfl

theorem run_neg_int (t : Tok) {e : Expr} {n : Int}
    (h : (evalExpr f e).run.run σ = (.ok (.int n), σ)) :
    (evalExpr (f+1) (.neg t e)).run.run σ = (.ok (.int (wrap64 (n * -1))), σ) := by
  rw [evalExpr_neg, mrun_bind_ok _ _ _ _ _ h]
  rfl

theorem run_not_bool (t : Tok) {e : Expr} {b : Bool}
    (h : (evalExpr f e).run.run σ = (.ok (.bool b), σ)) :
    (evalExpr (f+1) (.not t e)).run.run σ = (.ok (.bool (!b)), σ) := by
  rw [evalExpr_not, mrun_bind_ok _ _ _ _ _ h]
  rfl

theorem size_pos (e : PExpr) : 0 < e.size := by cases e <;> simp [PExpr.size]

end C02Eval

open C02Eval

/-! ## the value half of C02 -/

/-- **C02 (value)**: if the reference semantics gives the tree `e` the value `v`, then the evaluator, run on the
    AST `denote e` the parser builds for `e`, with fuel `> e.size`, in any state `σ` in which type names can be
    resolved (`HasScope σ`: some activation with `isComp = false`), returns exactly `v` and leaves `σ` unchanged. -/
theorem C02_eval_denote (e : PExpr) : ∀ (v : Val) (fuel : Nat) (σ : St),
    evalP e = some v → fuel > e.size → HasScope σ →
    (evalExpr fuel (denote e)).run.run σ = (.ok v, σ) := by
  induction e with
  | int n =>
    intro v fuel σ h hf _
    obtain ⟨f, rfl⟩ : ∃ f, fuel = f + 1 := ⟨fuel - 1, by omega⟩
    simp only [evalP, Option.some.injEq] at h
    subst h
    simp only [denote, evalExpr_intLit]
    rfl
  | bool b =>
    intro v fuel σ h hf _
    obtain ⟨f, rfl⟩ : ∃ f, fuel = f + 1 := ⟨fuel - 1, by omega⟩
    simp only [evalP, Option.some.injEq] at h
    subst h
    simp only [denote, evalExpr_boolLit]
    rfl
  | str s => intro v fuel σ h; simp [evalP] at h
  | var x => intro v fuel σ h; simp [evalP] at h
  | neg e ih =>
    intro v fuel σ h hf hs
    simp only [PExpr.size] at hf
    obtain ⟨f, rfl⟩ : ∃ f, fuel = f + 1 := ⟨fuel - 1, by omega⟩
    simp only [evalP] at h
    cases he : evalP e with
    | none => simp [he] at h
    | some a =>
      rw [he] at h
      cases a <;> simp only [reduceCtorEq, Option.some.injEq] at h
      subst h
      exact run_neg_int _ (ih _ f σ he (by omega) hs)
  | not e ih =>
    intro v fuel σ h hf hs
    simp only [PExpr.size] at hf
    obtain ⟨f, rfl⟩ : ∃ f, fuel = f + 1 := ⟨fuel - 1, by omega⟩
    simp only [evalP] at h
    cases he : evalP e with
    | none => simp [he] at h
    | some a =>
      rw [he] at h
      cases a <;> simp only [reduceCtorEq, Option.some.injEq] at h
      subst h
      exact run_not_bool _ (ih _ f σ he (by omega) hs)
  | bin op l r ihl ihr =>
    intro v fuel σ h hf hs
    simp only [PExpr.size] at hf
    have := size_pos l
    have := size_pos r
    obtain ⟨f, rfl⟩ : ∃ f, fuel = f + 1 := ⟨fuel - 1, by omega⟩
    simp only [evalP] at h
    cases hl : evalP l with
    | none => simp [hl] at h
    | some a =>
      rw [hl] at h
      dsimp only at h
      have Hl := ihl a f σ hl (by omega) hs
      by_cases hsc : shortP op a = true
      · simp only [hsc, if_true, Option.some.injEq] at h
        subst h
        obtain ⟨rfl, rfl⟩ : op = .and ∧ a = .bool false := by
          unfold shortP at hsc
          split at hsc
          · exact ⟨rfl, rfl⟩
          · cases hsc
        exact run_and_short _ Hl
      · simp only [hsc, Bool.false_eq_true, if_false] at h
        cases hr : evalP r with
        | none => simp [hr] at h
        | some b =>
          rw [hr] at h
          dsimp only at h
          have Hr := ihr b f σ hr (by omega) hs
          cases a <;> cases b <;> simp only [evalBinP, reduceCtorEq] at h
          · -- INTEGER ⊕ INTEGER
            rename_i a b
            cases op with
            | add => simp only [intBinP, Option.some.injEq] at h; subst h; exact run_arith_int _ .add Hl Hr hs rfl
            | sub => simp only [intBinP, Option.some.injEq] at h; subst h; exact run_arith_int _ .sub Hl Hr hs rfl
            | mul => simp only [intBinP, Option.some.injEq] at h; subst h; exact run_arith_int _ .mul Hl Hr hs rfl
            | idiv =>
              by_cases hb : b = 0
              · simp [intBinP, hb] at h
              · simp only [intBinP, hb, if_false, Option.some.injEq] at h
                subst h
                exact run_arith_int _ .idiv Hl Hr hs (by simp [hb])
            | mod =>
              by_cases hb : b = 0
              · simp [intBinP, hb] at h
              · simp only [intBinP, hb, if_false, Option.some.injEq] at h
                subst h
                exact run_arith_int _ .mod Hl Hr hs (by simp [hb])
            | eq => simp only [intBinP, Option.some.injEq] at h; subst h; exact run_cmp_int _ .eq Hl Hr
            | ne => simp only [intBinP, Option.some.injEq] at h; subst h; exact run_cmp_int _ .ne Hl Hr
            | lt => simp only [intBinP, Option.some.injEq] at h; subst h; exact run_cmp_int _ .lt Hl Hr
            | le => simp only [intBinP, Option.some.injEq] at h; subst h; exact run_cmp_int _ .le Hl Hr
            | gt => simp only [intBinP, Option.some.injEq] at h; subst h; exact run_cmp_int _ .gt Hl Hr
            | ge => simp only [intBinP, Option.some.injEq] at h; subst h; exact run_cmp_int _ .ge Hl Hr
            | div | concat | and | or => simp [intBinP] at h
          · -- BOOLEAN ⊕ BOOLEAN
            rename_i a b
            cases op with
            | and =>
              simp only [boolBinP, Option.some.injEq] at h
              subst h
              cases a with
              | false => simp [shortP] at hsc
              | true => exact run_and_true _ Hl Hr
            | or => simp only [boolBinP, Option.some.injEq] at h; subst h; exact run_or _ Hl Hr
            | eq => simp only [boolBinP, Option.some.injEq] at h; subst h; exact run_cmp_bool_eq _ Hl Hr
            | ne => simp only [boolBinP, Option.some.injEq] at h; subst h; exact run_cmp_bool_ne _ Hl Hr
            | _ => simp [boolBinP] at h

/-- **C02 (text → value)**: grouping half and value half together.  For a tree `e` of the INTEGER / BOOLEAN
    fragment with reference value `v` (`evalP e = some v`; literals `< 2^63`), the token text `render 0 e` (minimal
    parentheses) followed by any `rest` that ends an expression is parsed by `parseEval` — with enough fuel — into
    an AST, leaving `rest` and the warnings `w` untouched, and that AST evaluates to `v` in every state with a
    scope, with any fuel `> e.size`, without changing the state.  So the value of the *text* is the value the
    documented precedence / associativity rules give it. -/
theorem C02_text_value (cfg : PCfg) (e : PExpr) (he : e.InRange) (v : Val) (hv : evalP e = some v)
    (rest : List Tok) (hrest : StopsAt 0 rest) (w : List Tok) :
    ∃ f₀, ∀ f ≥ f₀, ∃ ast,
      (parseEval cfg f).run.run ⟨render 0 e ++ rest, w⟩ = (.ok ast, ⟨rest, w⟩) ∧
      ∀ (σ : St) (fuel : Nat), HasScope σ → fuel > e.size → (evalExpr fuel ast).run.run σ = (.ok v, σ) := by
  obtain ⟨f₀, h⟩ := C02_parseEval_render cfg e he rest hrest w
  exact ⟨f₀, fun f hf => ⟨denote e, h f hf, fun σ fuel hσ hfuel => C02_eval_denote e v fuel σ hv hfuel hσ⟩⟩

/-- the initial state of every run has a scope (the global activation `Program`) -/
theorem HasScope_init (fs : List (Str × FsNode)) (stdin : Str) (pedantic repl : Bool) :
    HasScope (St.init fs stdin pedantic repl) := ⟨mkGlobal, List.mem_singleton.mpr rfl, rfl⟩

/-! ## non-vacuity: concrete trees, their reference values, and the evaluator run on them -/

section examples
private def σ0 : St := St.init [] [] false false
private def i (n : Nat) : PExpr := .int n
/-- `1 + 2 * 3` -/
private def e7 : PExpr := .bin .add (i 1) (.bin .mul (i 2) (i 3))
/-- `(1 + 2) * 3` -/
private def e9 : PExpr := .bin .mul (.bin .add (i 1) (i 2)) (i 3)
/-- `1 DIV 0 = 1` -/
private def eDiv0 : PExpr := .bin .eq (.bin .idiv (i 1) (i 0)) (i 1)
private def maxLong : Nat := 9223372036854775807

-- the reference values: precedence matters
example : evalP e7 = some (.int 7) := rfl
example : evalP e9 = some (.int 9) := rfl
-- left associativity matters: `10 - 4 - 3 = 3`, `10 - (4 - 3) = 9`; `100 DIV 10 DIV 5 = 2`
example : evalP (.bin .sub (.bin .sub (i 10) (i 4)) (i 3)) = some (.int 3) := rfl
example : evalP (.bin .sub (i 10) (.bin .sub (i 4) (i 3))) = some (.int 9) := rfl
example : evalP (.bin .idiv (.bin .idiv (i 100) (i 10)) (i 5)) = some (.int 2) := rfl
-- 64-bit wrap: `maxLong + 1 = -2^63`; `-(0 - maxLong - 1) = -2^63`; `maxLong * 2 = -2`
example : evalP (.bin .add (i maxLong) (i 1)) = some (.int (-9223372036854775808)) := rfl
example : evalP (.neg (.bin .sub (.bin .sub (i 0) (i maxLong)) (i 1))) = some (.int (-9223372036854775808)) := rfl
example : evalP (.bin .mul (i maxLong) (i 2)) = some (.int (-2)) := rfl
-- DIV truncates towards zero, MOD has the sign of the dividend: `-7 DIV 2 = -3`, `-7 MOD 2 = -1`
example : evalP (.bin .idiv (.neg (i 7)) (i 2)) = some (.int (-3)) := rfl
example : evalP (.bin .mod (.neg (i 7)) (i 2)) = some (.int (-1)) := rfl
-- comparisons and logic: `1 + 2 * 3 = 7 AND NOT 9 < 7`
example : evalP (.bin .and (.bin .eq e7 (i 7)) (.not (.bin .lt e9 (i 7)))) = some (.bool true) := rfl
-- outside the fragment / run-time errors
example : evalP (.bin .idiv (i 1) (i 0)) = none := rfl
example : evalP (.bin .div (i 1) (i 2)) = none := rfl
example : evalP (.bin .add (i 1) (.bool true)) = none := rfl
example : evalP (.bin .add (i 1) (.var "x".toList)) = none := rfl
-- `FALSE AND (1 DIV 0 = 1)` is FALSE (short circuit); `TRUE OR (1 DIV 0 = 1)` has no value (no short circuit)
example : evalP (.bin .and (.bool false) eDiv0) = some (.bool false) := rfl
example : evalP (.bin .and (.bool false) (.var "undefined".toList)) = some (.bool false) := rfl
example : evalP (.bin .or (.bool true) eDiv0) = none := rfl

-- the hypotheses of `C02_eval_denote` are satisfiable, and its conclusion on a concrete tree …
example : HasScope σ0 := HasScope_init _ _ _ _
example : (evalExpr 6 (denote e7)).run.run σ0 = (.ok (.int 7), σ0) :=
  C02_eval_denote e7 (.int 7) 6 σ0 rfl (by decide) (HasScope_init _ _ _ _)
example : (evalExpr 8 (denote (.bin .and (.bool false) eDiv0))).run.run σ0 = (.ok (.bool false), σ0) :=
  C02_eval_denote _ _ 8 σ0 rfl (by decide) (HasScope_init _ _ _ _)
-- … agrees with the evaluator actually run (kernel evaluation)
example : (evalExpr 6 (denote e7)).run.run σ0 = (.ok (.int 7), σ0) := rfl
example : (evalExpr 6 (denote e9)).run.run σ0 = (.ok (.int 9), σ0) := rfl

-- the text: `1 + 2 * 3` without parentheses, `(1 + 2) * 3` with; parser and evaluator actually run on it
example : render 0 e7 = [intT 1, tPLUS, intT 2, tSTAR, intT 3] := by decide
example : render 0 e9 = [lparenT, intT 1, tPLUS, intT 2, rparenT, tSTAR, intT 3] := by decide
private theorem lt63 (n : Nat) (h : n < 9223372036854775808 := by decide) : (i n).InRange := by
  show (n : Int) < two63
  unfold two63; omega
private theorem e7_inRange : e7.InRange := ⟨lt63 1, lt63 2, lt63 3⟩
private theorem e9_inRange : e9.InRange := ⟨⟨lt63 1, lt63 2⟩, lt63 3⟩
example : e7.InRange ∧ e9.InRange := ⟨e7_inRange, e9_inRange⟩
example : ∃ ast, (parseEval {} 40).run.run ⟨[intT 1, tPLUS, intT 2, tSTAR, intT 3, eofTok], []⟩ = (.ok ast, ⟨[eofTok], []⟩) ∧
    (evalExpr 6 ast).run.run σ0 = (.ok (.int 7), σ0) := ⟨denote e7, by rfl, by rfl⟩
example : ∃ ast, (parseEval {} 40).run.run ⟨[lparenT, intT 1, tPLUS, intT 2, rparenT, tSTAR, intT 3, eofTok], []⟩
      = (.ok ast, ⟨[eofTok], []⟩) ∧
    (evalExpr 6 ast).run.run σ0 = (.ok (.int 9), σ0) := ⟨denote e9, by rfl, by rfl⟩
-- `C02_text_value` instantiated
example : ∃ f₀, ∀ f ≥ f₀, ∃ ast,
    (parseEval {} f).run.run ⟨[intT 1, tPLUS, intT 2, tSTAR, intT 3] ++ [eofTok], []⟩ = (.ok ast, ⟨[eofTok], []⟩) ∧
    ∀ (σ : St) (fuel : Nat), HasScope σ → fuel > 5 → (evalExpr fuel ast).run.run σ = (.ok (.int 7), σ) :=
  C02_text_value {} e7 e7_inRange (.int 7) rfl [eofTok] (StopsAt.eof 0 []) []

/-! ### tests: behaviours of the evaluator (model = C++ `ArithmeticOperationNode` / `LogicNode` / `ComparisonNode`)
at the border of the statement -/

-- TEST: `HasScope` is needed, but only by the arithmetic operators: without any activation `1 + 2` ends in the
-- model's `noActivation` crash point, while `1 < 2` evaluates
example : ((evalExpr 5 (denote (.bin .add (i 1) (i 2)))).run.run { acts := [] }).1 = .error (.crash .noActivation) := rfl
example : ((evalExpr 5 (denote (.bin .lt (i 1) (i 2)))).run.run { acts := [] }).1 = .ok (.bool true) := rfl
-- TEST: the same with only a record's own context on the stack
example : ((evalExpr 5 (denote (.bin .add (i 1) (i 2)))).run.run
    { acts := [{ id := 0, name := [], isComp := true }] }).1 = .error (.crash .noActivation) := rfl
-- TEST: `OR` does not short-circuit: `TRUE OR (1 DIV 0 = 1)` is a division-by-zero error,
-- `TRUE OR 1` a type error; `FALSE AND 1` is FALSE
example : ∃ d, ((evalExpr 9 (denote (.bin .or (.bool true) eDiv0))).run.run σ0).1 = .error (.diag d) ∧ d.msg = .divZero :=
  ⟨_, rfl, rfl⟩
example : ∃ d, ((evalExpr 9 (denote (.bin .or (.bool true) (i 1)))).run.run σ0).1 = .error (.diag d) ∧ d.msg = .typeMismatch :=
  ⟨_, rfl, rfl⟩
example : ((evalExpr 9 (denote (.bin .and (.bool false) (i 1)))).run.run σ0).1 = .ok (.bool false) := rfl
-- TEST: `=` / `<>` between an INTEGER and a BOOLEAN is not a type error but FALSE / TRUE (outside `evalP`)
example : evalP (.bin .eq (i 1) (.bool true)) = none := rfl
example : ((evalExpr 5 (denote (.bin .eq (i 1) (.bool true)))).run.run σ0).1 = .ok (.bool false) := rfl
example : ((evalExpr 5 (denote (.bin .ne (i 1) (.bool true)))).run.run σ0).1 = .ok (.bool true) := rfl
-- TEST: fuel `e.size` is enough for literals only because of the `+1`; fuel 0 is `outOfFuel`
example : ((evalExpr 0 (denote (i 1))).run.run σ0).1 = .error .outOfFuel := rfl
-- TEST: an integer literal is not wrapped by the evaluator (the parser refuses literals ≥ 2^63: `PExpr.InRange`)
example : evalP (i (maxLong + 1)) = some (.int 9223372036854775808) := rfl
end examples

end Pseudo
