import PseudoModel.Lexer
import PseudoProofs.LexLemmas
/-!
# C10 — layout, comments and line endings never change what a program does (lexer level)
Model: `Pseudo.lex`, `Pseudo.lexLoop` (`PseudoModel/Lexer.lean`). Helper lemmas: `PseudoProofs/LexLemmas.lean`.
-/
namespace Pseudo

/-! ## 1. CRLF vs LF -/

/-- A source and the same source with every `'\r'` removed lex identically (CRLF ≡ LF). -/
theorem C10_crlf (cfg : LexCfg) (s : List Char) : lex cfg s = lex cfg (s.filter (· != '\r')) := by
  simp [lex, List.filter_filter]

/-- in particular: turning every LF into CRLF changes nothing -/
theorem C10_crlf_insert (cfg : LexCfg) (s : List Char) :
    lex cfg (s.flatMap fun c => if c = '\n' then ['\r', '\n'] else [c]) = lex cfg s := by
  rw [C10_crlf cfg (s.flatMap _), C10_crlf cfg s]
  congr 1
  induction s with
  | nil => rfl
  | cons c s ih =>
    by_cases h : c = '\n'
    · subst h; simp [ih]
    · by_cases h' : c = '\r' <;> simp [h, h', ih]

/-! ## 2. blanks -/

/-- One main-loop step on a blank (space or tab) followed by another character:
    no token is produced, only the column moves. -/
theorem C10_blank (cfg : LexCfg) (n : Nat) (c d : Char) (rest : List Char) (line col : Nat) (last : Char)
    (prev : Option Char) (acc : List Tok) (hc : c = ' ' ∨ c = '\t') :
    lexLoop cfg (n + 1) ⟨c :: d :: rest, line, col, last⟩ prev acc
      = lexLoop cfg n ⟨d :: rest, line, col + 1, d⟩ (some c) acc := by
  rcases hc with rfl | rfl <;>
    simp [lexLoop, Cur.adv_cons_cons, show isAlpha ' ' = false by decide,
      show isDigit ' ' = false by decide, show isAlpha '\t' = false by decide,
      show isDigit '\t' = false by decide]

/-- One main-loop step on a blank that is the last character of the input. -/
theorem C10_blank_last (cfg : LexCfg) (n : Nat) (c : Char) (line col : Nat) (last : Char)
    (prev : Option Char) (acc : List Tok) (hc : c = ' ' ∨ c = '\t') :
    lexLoop cfg (n + 1) ⟨[c], line, col, last⟩ prev acc
      = lexLoop cfg n ⟨[], line, col, c⟩ (some c) acc := by
  rcases hc with rfl | rfl <;>
    simp [lexLoop, Cur.adv_single, show isAlpha ' ' = false by decide,
      show isDigit ' ' = false by decide, show isAlpha '\t' = false by decide,
      show isDigit '\t' = false by decide]

/-- hence trailing blanks before the end of input produce nothing but the end marker -/
example : lex {} "A \t ".toList = .ok [⟨.IDENTIFIER, 1, 1, ['A']⟩, ⟨.EXPRESSION_END, 1, 4, []⟩] := by rfl

example : ∃ c : Char, c = ' ' ∨ c = '\t' := ⟨' ', Or.inl rfl⟩

/-! ## 3. comments -/

/-- One main-loop step on a comment `//t` that is ended by a line break: the comment text `t`
    (digits, quotes, keywords, anything but a line break) contributes no token, the loop goes on
    *at* the line break (which is therefore not swallowed), on the same line. -/
theorem C10_comment (cfg : LexCfg) (n : Nat) (t post : List Char) (line col : Nat) (last : Char)
    (prev : Option Char) (acc : List Tok) (ht : '\n' ∉ t) :
    lexLoop cfg (n + 1) ⟨'/' :: '/' :: t ++ '\n' :: post, line, col, last⟩ prev acc
      = lexLoop cfg n ⟨'\n' :: post, line, col + t.length + 2, '\n'⟩ (some '/') acc := by
  have hadv := advWhile_notnl_mid post ('/' :: t) (('/' :: t) ++ '\n' :: post).length line (col + 1) '/'
    (by simpa using ht) (by simp)
  have h1 : (Cur.mk ('/' :: '/' :: t ++ '\n' :: post) line col last).adv
      = Cur.mk (('/' :: t) ++ '\n' :: post) line (col + 1) '/' := by
    simp [Cur.adv_cons_cons]
  rw [show '/' :: '/' :: t ++ '\n' :: post = '/' :: '/' :: (t ++ '\n' :: post) from rfl]
  rw [show '/' :: '/' :: (t ++ '\n' :: post) = '/' :: '/' :: t ++ '\n' :: post from rfl] at *
  simp only [lexLoop]
  simp only [h1, hadv]
  simp [show col + 1 + (t.length + 1) = col + t.length + 2 by omega]

/-- The comment and everything in it is followed by exactly the LINE_END token of its line. -/
theorem C10_comment_then_line_end (cfg : LexCfg) (n : Nat) (t post : List Char) (line col : Nat) (last : Char)
    (prev : Option Char) (acc : List Tok) (ht : '\n' ∉ t) :
    lexLoop cfg (n + 2) ⟨'/' :: '/' :: t ++ '\n' :: post, line, col, last⟩ prev acc
      = lexLoop cfg n (Cur.mk ('\n' :: post) line (col + t.length + 2) '\n').adv (some '\n')
          ({ k := .LINE_END, line := line, col := col + t.length + 2 } :: acc) := by
  rw [C10_comment cfg (n + 1) t post line col last prev acc ht]
  simp [lexLoop, mkTok, show isAlpha '\n' = false by decide, show isDigit '\n' = false by decide]

/-- One main-loop step on a comment that runs to the end of the input: no token, the loop goes on
    at the end of input, on the same line. -/
theorem C10_comment_eof (cfg : LexCfg) (n : Nat) (t : List Char) (line col : Nat) (last : Char)
    (prev : Option Char) (acc : List Tok) (ht : '\n' ∉ t) :
    ∃ col' last', lexLoop cfg (n + 1) ⟨'/' :: '/' :: t, line, col, last⟩ prev acc
      = lexLoop cfg n ⟨[], line, col', last'⟩ (some '/') acc := by
  obtain ⟨la', hadv⟩ := advWhile_notnl_end ('/' :: t) ('/' :: t).length line (col + 1) '/'
    (by simpa using ht) (Nat.le_refl _)
  have h1 : (Cur.mk ('/' :: '/' :: t) line col last).adv = Cur.mk ('/' :: t) line (col + 1) '/' := by
    simp [Cur.adv_cons_cons]
  refine ⟨col + 1 + (('/' :: t).length - 1), la', ?_⟩
  simp only [lexLoop]
  simp only [h1, hadv]
  simp

/-- ... and the lexer then stops with the end marker on that same line. -/
theorem C10_comment_eof_result (cfg : LexCfg) (n : Nat) (t : List Char) (line col : Nat) (last : Char)
    (prev : Option Char) (acc : List Tok) (ht : '\n' ∉ t) :
    ∃ col', lexLoop cfg (n + 1) ⟨'/' :: '/' :: t, line, col, last⟩ prev acc
      = .ok ({ k := .EXPRESSION_END, line := line, col := col' } :: acc) := by
  obtain ⟨col', last', h⟩ := C10_comment_eof cfg n t line col last prev acc ht
  refine ⟨col', ?_⟩
  rw [h]
  cases n <;> simp [lexLoop, mkTok]

example : '\n' ∉ " 1 \" ' BREAK /".toList := by decide

/-- what the lexer output looks like when columns are forgotten: kind, line and value of every token -/
def C10_tokView (r : Except Diag (List Tok)) : Option (List (TK × Nat × Str)) :=
  match r with | .ok ts => some (ts.map Tok.noCol) | .error _ => none

/-- the comment text may contain anything; with and without the comment the same tokens
    (same kinds, lines and values) -/
example : C10_tokView (lex {} "x <- 1 // 2 \" ' BREAK\ny".toList) = C10_tokView (lex {} "x <- 1 \ny".toList) := by
  decide

/-! ## 4. a number directly followed by a comment -/

/-- `digits//…`: the date look-ahead `d+/d+/d+` does not fire on `//`; `makeNumber` yields the INTEGER
    token and leaves the cursor on the first `/` (so the main loop then sees a comment). -/
theorem C10_number_then_comment (ds rest : List Char) (line col : Nat) (last : Char)
    (hne : ds ≠ []) (hd : ∀ d ∈ ds, isDigit d = true) :
    makeNumber ⟨ds ++ '/' :: '/' :: rest, line, col, last⟩
      = ({ k := .INTEGER, line := line, col := col, val := ds },
         ⟨'/' :: '/' :: rest, line, col + ds.length, '/'⟩) :=
  makeNumber_digits_slash_slash ds rest line col last hne hd

example : ['1', '2'] ≠ [] ∧ ∀ d ∈ ['1', '2'], isDigit d = true := by decide

/-- the historical bug: `1//2` is the integer 1 followed by a comment -/
example : lex {} "1//2".toList = .ok [⟨.INTEGER, 1, 1, ['1']⟩, ⟨.EXPRESSION_END, 1, 4, []⟩] := by rfl

/-! ## 5. columns never influence kinds, values or lines -/

/-- The relations used below (`PseudoProofs/LexLemmas.lean`), spelled out. -/
theorem C10_relations_def :
    (∀ a b : Cur, Cur.eqc a b ↔ (a.cs = b.cs ∧ a.line = b.line ∧ a.last = b.last))
    ∧ (∀ a b : List Tok, ToksEqc a b ↔
        a.map (fun t => (t.k, t.line, t.val)) = b.map (fun t => (t.k, t.line, t.val)))
    ∧ (∀ a b : List Tok, ExRel ToksEqc (.ok a) (.ok b) ↔ ToksEqc a b)
    ∧ (∀ d e : Diag, ExRel ToksEqc (.error d) (.error e) ↔
        (d.kind = e.kind ∧ d.line = e.line ∧ d.msg = e.msg ∧ d.trace = e.trace))
    ∧ (∀ (a : List Tok) (e : Diag), ¬ ExRel ToksEqc (.ok a) (.error e) ∧ ¬ ExRel ToksEqc (.error e) (.ok a)) :=
  ⟨fun _ _ => Iff.rfl, fun _ _ => Iff.rfl, fun _ _ => Iff.rfl, fun _ _ => Iff.rfl,
   fun _ _ => ⟨fun h => h, fun h => h⟩⟩

/-- Column-insensitivity of the main loop: from two cursors that differ only in the column, and
    token accumulators that differ only in columns, the loop produces results that differ only in
    columns — the same token kinds, values and lines, or errors of the same kind on the same line.
    (The previous character `prev` may even differ as long as no token has been produced yet.) -/
theorem C10_col_insensitive (cfg : LexCfg) (n : Nat) (c c' : Cur) (prev prev' : Option Char)
    (acc acc' : List Tok) (hc : c.cs = c'.cs ∧ c.line = c'.line ∧ c.last = c'.last)
    (hacc : ToksEqc acc acc') (hp : prev = prev' ∨ acc = []) :
    ExRel ToksEqc (lexLoop cfg n c prev acc) (lexLoop cfg n c' prev' acc') :=
  lexLoop_eqc cfg n hc hacc hp

/-- the simple form: only the start column differs -/
theorem C10_col_insensitive' (cfg : LexCfg) (n : Nat) (cs : List Char) (line col col' : Nat) (last : Char)
    (prev : Option Char) (acc : List Tok) :
    ExRel ToksEqc (lexLoop cfg n ⟨cs, line, col, last⟩ prev acc) (lexLoop cfg n ⟨cs, line, col', last⟩ prev acc) :=
  lexLoop_eqc cfg n ⟨rfl, rfl, rfl⟩ rfl (Or.inl rfl)

example : (Cur.mk ['x'] 1 1 'x').cs = (Cur.mk ['x'] 1 7 'x').cs ∧ (Cur.mk ['x'] 1 1 'x').line = (Cur.mk ['x'] 1 7 'x').line
    ∧ (Cur.mk ['x'] 1 1 'x').last = (Cur.mk ['x'] 1 7 'x').last := ⟨rfl, rfl, rfl⟩
example : ToksEqc [⟨.PLUS, 1, 1, []⟩] [⟨.PLUS, 1, 5, []⟩] := rfl
example : (some 'a' = some 'a') ∨ ([⟨.PLUS, 1, 1, []⟩] : List Tok) = [] := Or.inl rfl

/-- Consequence for whole sources: indenting the first line by a blank changes only columns. -/
theorem C10_indent (cfg : LexCfg) (b : Char) (s : List Char) (hb : b = ' ' ∨ b = '\t') :
    ExRel ToksEqc (lex cfg (b :: s)) (lex cfg s) := by
  have hbr : (b != '\r') = true := by rcases hb with rfl | rfl <;> decide
  unfold lex
  simp only [List.filter_cons, hbr, if_true]
  apply ExRel.map_reverse
  generalize s.filter (· != '\r') = s'
  cases s' with
  | nil =>
    simp only [List.length_cons, List.length_nil, Cur.init]
    rw [C10_blank_last cfg _ b 1 1 b none [] hb]
    exact ToksEqc.cons rfl rfl rfl rfl
  | cons d r =>
    simp only [List.length_cons, Cur.init]
    rw [C10_blank cfg _ b d r 1 1 b none [] hb]
    exact lexLoop_eqc cfg _ ⟨rfl, rfl, rfl⟩ rfl (Or.inr rfl)

/-- … and so does any amount of leading blanks -/
theorem C10_indent_many (cfg : LexCfg) (bs s : List Char) (hb : ∀ b ∈ bs, b = ' ' ∨ b = '\t') :
    ExRel ToksEqc (lex cfg (bs ++ s)) (lex cfg s) := by
  induction bs with
  | nil => exact ExRel.refl_toks _
  | cons b bs ih =>
    exact ExRel.trans_toks (C10_indent cfg b (bs ++ s) (hb b (by simp))) (ih fun x hx => hb x (by simp [hx]))

example : ∀ b ∈ [' ', '\t', ' '], b = ' ' ∨ b = '\t' := by decide

end Pseudo
