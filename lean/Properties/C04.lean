import PseudoProofs.EvalInv
/-!
# C04 — activation stack discipline

After any statement, expression, procedure call or function call — *including one that fails* (runtime
error, BREAK / CONTINUE / RETURN signal, crash point, fuel) — exactly the caller's activations exist, in the
same order (the callee's locals are gone), and the id counter never goes back (ids are never reused:
every call, also a recursive one, gets an id no live or earlier activation has).

Instance of the generic theorem `eval_all` (`PseudoProofs/EvalInv.lean`) with
`R σ σ' := ids σ' = ids σ ∧ σ.nextId ≤ σ'.nextId` and no condition on exceptions.
-/
namespace Pseudo
namespace C04

/-- the ids of the live activations, innermost first -/
def ids (σ : St) : List Nat := σ.acts.map (·.id)

/-- same activation ids in the same order; the id counter does not decrease -/
def R (σ σ' : St) : Prop := ids σ' = ids σ ∧ σ.nextId ≤ σ'.nextId

instance : RPre R := ⟨fun _ => ⟨rfl, Nat.le_refl _⟩, fun h1 h2 => ⟨h2.1.trans h1.1, Nat.le_trans h1.2 h2.2⟩⟩

theorem updActs_ids (acts : List Act) (id : Nat) (f : Act → Act) (hf : ∀ a, (f a).id = a.id) :
    (updActs acts id f).map (·.id) = acts.map (·.id) := by
  induction acts with
  | nil => rfl
  | cons a rest ih =>
    unfold updActs
    split
    · simp [hf]
    · simp [ih]

theorem R_updSt (σ : St) (id : Nat) (f : Act → Act) (hf : ∀ a, (f a).id = a.id) : R σ (updSt σ id f) :=
  ⟨updActs_ids σ.acts id f hf, Nat.le_refl _⟩

theorem R_bracket (mk : Nat → Act) (σ σ2 : St) (h : R (pushSt mk σ) σ2) : R σ (popSt σ2) := by
  obtain ⟨h1, h2⟩ := h
  constructor
  · unfold ids popSt pushSt at *
    dsimp only at *
    rw [List.map_drop, h1]
    rfl
  · show σ.nextId ≤ σ2.nextId
    have : σ.nextId + 1 ≤ σ2.nextId := h2
    omega

theorem writeLoc_ok (Q : Stop → Prop) [QBase Q] (t : Tok) (l : Loc) (v : Val) : Ens R Q (writeLoc t l v) := by
  unfold writeLoc
  ens_auto
  all_goals
    apply Ens.modifyAct_of
    intro σ
    apply R_updSt
    intro a
    first | rfl | (split <;> rfl)

/-- the primitives respect the stack discipline, whatever exceptions are allowed -/
instance primOK (Q : Stop → Prop) [QBase Q] : PrimOK R Q :=
  primOK_build (fun _ _ h => ⟨by unfold ids; rw [h.1], Nat.le_of_eq h.2.symm⟩)
    (fun σ id f hf => R_updSt σ id f fun a => (hf a).1)
    (fun σ id _ => R_updSt σ id _ fun _ => rfl)
    (fun σ id _ => R_updSt σ id _ fun _ => rfl)
    (writeLoc_ok Q)
    (fun mk σ σ2 _ h => R_bracket mk σ σ2 h)

/-- all 25 functions of the evaluator respect the stack discipline -/
theorem all (fuel : Nat) : AllEns R (fun _ => True) (fun _ => True) fuel := eval_all R _ _ fuel

end C04

open C04 in
/-- **C04 (activation stack discipline).** Whatever way a statement, a block, an expression, a procedure call
    or a function call ends (normally, runtime error, signal, crash point, out of fuel): the live activations
    afterwards are exactly those before, in the same order, and the id counter has not decreased. -/
theorem C04_stack_discipline (fuel : Nat) (σ : St) :
    (∀ s, C04.R σ ((execStmt fuel s).run.run σ).2) ∧
    (∀ b, C04.R σ ((runBlock fuel b).run.run σ).2) ∧
    (∀ e, C04.R σ ((evalExpr fuel e).run.run σ).2) ∧
    (∀ t name args, C04.R σ ((callProc fuel t name args).run.run σ).2) ∧
    (∀ t args, C04.R σ ((callFun fuel t args).run.run σ).2) :=
  have h := C04.all fuel
  ⟨fun s => ((h.execStmt s).run σ).1, fun b => ((h.runBlock b).run σ).1, fun e => ((h.evalExpr e).run σ).1,
   fun t n a => ((h.callProc t n a).run σ).1, fun t a => ((h.callFun t a).run σ).1⟩

/-- C04 spelled out for statements: same ids in the same order, counter monotone -/
theorem C04_stmt_ids (fuel : Nat) (s : Stmt) (σ : St) :
    ((execStmt fuel s).run.run σ).2.acts.map (·.id) = σ.acts.map (·.id) ∧
    σ.nextId ≤ ((execStmt fuel s).run.run σ).2.nextId :=
  (C04_stack_discipline fuel σ).1 s

/-- the locals of a call are gone afterwards: the number of live activations is unchanged -/
theorem C04_depth_restored (fuel : Nat) (t : Tok) (name : Str) (args : List Expr) (σ : St) :
    ((callProc fuel t name args).run.run σ).2.acts.length = σ.acts.length := by
  have h := ((C04_stack_discipline fuel σ).2.2.2.1 t name args).1
  have := congrArg List.length h
  simpa [C04.ids] using this

/-- all live ids are below the counter -/
def IdsBelow (σ : St) : Prop := ∀ i ∈ C04.ids σ, i < σ.nextId

theorem IdsBelow.of_R {σ σ' : St} (h : C04.R σ σ') (hb : IdsBelow σ) : IdsBelow σ' := by
  intro i hi
  rw [h.1] at hi
  exact Nat.lt_of_lt_of_le (hb i hi) h.2

/-- **C04 (fresh ids).** The id `pushAct` gives to a new activation is the counter value; when all live ids are
    below the counter (true initially, preserved by everything) it differs from every live id, and the invariant
    holds again afterwards. -/
theorem C04_fresh_ids (mk : Nat → Act) (σ : St) (hmk : ∀ i, (mk i).id = i) (hb : IdsBelow σ) :
    (pushAct mk).run.run σ = (.ok σ.nextId, pushSt mk σ) ∧ σ.nextId ∉ C04.ids σ ∧
    C04.ids (pushSt mk σ) = σ.nextId :: C04.ids σ ∧ IdsBelow (pushSt mk σ) := by
  refine ⟨rfl, fun h => Nat.lt_irrefl _ (hb _ h), ?_, ?_⟩
  · simp [C04.ids, pushSt, hmk]
  · intro i hi
    have : i = σ.nextId ∨ i ∈ C04.ids σ := by simpa [C04.ids, pushSt, hmk] using hi
    show i < σ.nextId + 1
    rcases this with h | h
    · omega
    · exact Nat.lt_succ_of_lt (hb i h)

/-- the invariant "live ids are below the counter" holds initially … -/
theorem C04_init_idsBelow (fs : List (Str × FsNode)) (stdin : Str) (p r : Bool) : IdsBelow (St.init fs stdin p r) := by
  intro i hi
  have : i = 0 := by simpa [C04.ids, St.init, mkGlobal, globalId] using hi
  subst this
  exact Nat.zero_lt_one

/-- … and is preserved by every statement, however it ends: with `C04_fresh_ids`, no two activations that are
    live at the same time ever share an id, and no id is handed out twice. -/
theorem C04_idsBelow_preserved (fuel : Nat) (s : Stmt) (σ : St) (hb : IdsBelow σ) :
    IdsBelow ((execStmt fuel s).run.run σ).2 :=
  IdsBelow.of_R ((C04_stack_discipline fuel σ).1 s) hb

theorem C04.R_of_sameActs (σ σ' : St) (h : SameActs σ σ') : C04.R σ σ' :=
  ⟨by unfold C04.ids; rw [h.1], Nat.le_of_eq h.2.symm⟩

/-- the discipline across a whole program run (`runOn`) and a whole REPL session (`replLoop`): the session's
    activation stack after any number of entries — failing ones included — is the one before (the global one) -/
theorem C04_session_stack_discipline (cfg : Cfg) (n : Nat) (first : Bool) (r : ReplSt) (fuel : Nat) (b : Block) (σ : St) :
    C04.R σ (runOn fuel b σ).2 ∧ C04.R r.st (replLoop cfg n first r).st :=
  have hm : ∀ fuel b, Ens C04.R (fun _ => True) (runMain fuel b) := fun fuel b =>
    runMain_ens fuel b ((C04.all fuel).runBlock b)
  ⟨runOn_rel C04.R_of_sameActs hm fuel b σ, replLoop_rel C04.R_of_sameActs hm cfg n first r⟩

/-! non-vacuity: a recursive procedure call on the initial state leaves exactly the global activation -/
example : C04.ids (St.init [] [] false false) = [0] := rfl
example : IdsBelow (St.init [] [] false false) := C04_init_idsBelow _ _ _ _
example (fuel : Nat) (s : Stmt) :
    ((execStmt fuel s).run.run (St.init [] [] false false)).2.acts.map (·.id) = [0] :=
  (C04_stmt_ids fuel s _).1

/-- a procedure whose body fails (a stray BREAK becomes the runtime error `breakOutside` inside the callee's
    activation): the call ends in an error (computed by the model), and the callee's activation is gone -/
def C04.demoTok : Tok := { k := .IDENTIFIER, line := 1, col := 1 }
def C04.demoSt : St := { St.init [] [] false false with procs := [{ name := "P".toList, params := [], body := [Stmt.brk C04.demoTok] }] }
def C04.isBreakOutside : Except Stop Unit → Bool
  | .error (.diag d) => d.msg == .breakOutside && d.trace.length == 2   -- raised with two live activations
  | _ => false
example : C04.isBreakOutside ((callProc 5 C04.demoTok "P".toList []).run.run C04.demoSt).1 = true := by decide
example : ((callProc 5 C04.demoTok "P".toList []).run.run C04.demoSt).2.acts.map (·.id) = [0] :=
  ((C04_stack_discipline 5 C04.demoSt).2.2.2.1 C04.demoTok "P".toList []).1
example : C04.demoSt.nextId < ((callProc 5 C04.demoTok "P".toList []).run.run C04.demoSt).2.nextId := by decide

end Pseudo
