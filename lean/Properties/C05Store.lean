import PseudoProofs.TypedInv
/-!
# C05 (typed store) — every statement keeps the store typed; whole programs; whole REPL sessions

`C05.WT σ` (Properties/C05Typed.lean): every variable slot that is not a BYREF alias holds a value whose type is the
slot's declared type.

## The statement as written in C05Typed.lean is FALSE — for an uninteresting reason

`C05_store_typed_statement : ∀ fuel s σ, WT σ → WT ((execStmt fuel s).run.run σ).2` quantifies over *all* states,
also ill-formed ones in which two live activations share an id. There a holder resolved in the global activation
(`loc.act = 0`) is written through `findAct 0`, which finds the *first* activation with id 0 — another one.
`C05_store_typed_statement_false` below is the formal refutation (a concrete state, one assignment).

## What is proved instead (the smallest strengthening that is inductive)

`TypedInv.Inv σ` = `WT σ`
  ∧ the ids of the live activations are pairwise distinct and below the id counter (ids are never reused)
  ∧ every BYREF alias slot has the declared type of the (root-level, plain) slot it points to, while that activation lives.

* `C05_inv_init`            : `Inv (St.init …)` (and of the initial states of `runFileOn` / `repl`);
* `C05_inv_wt`              : `Inv σ → WT σ`;
* `C05_inv_preserved`       : `Inv σ → Inv` after any statement, however it ends (all 25 functions: `TypedInv.all`);
* `C05_store_typed`         : `Inv σ → WT` after any statement — the corrected `C05_store_typed_statement`;
* `C05_store_typed_program` : every state reached by `runSource` / `runOn` / `runFileOn` from an `Inv` state is `WT`;
* `C05_store_typed_repl`    : every state reached by a whole REPL session (any number of entries, failing ones
                              included, RUNFILE, multi-line entries) is `WT`.

Two facts about the model found on the way (both were divergences from the C++ and were repaired in
`PseudoModel/Eval.lean` before this proof was finished; with either of them `WT` is NOT preserved, from a parsed
program started on `St.init`):
* the BYREF slot built by `bindParams` carried the *parameter's* type (`ty := pty`) instead of the type of the
  re-resolved variable (`ty := h.ty`; the C++ reference takes the original variable's type, `Variable(refName, v)`).
  Only the value evaluated earlier by `evalArgs` was compared with `pty`; an argument with a side effect evaluated in
  between could retarget a pointer:
  `TYPE R / DECLARE q : IP / ENDTYPE`, `DECLARE s : STRING`, `FUNCTION H(BYREF rr : R) … TYPE IP = ^STRING, rr.q <- ^s`,
  `PROCEDURE P(BYREF a : INTEGER, BYVAL b : INTEGER)  a <- 5`, `PROCEDURE F()  TYPE IP = ^INTEGER, DECLARE x : INTEGER,
  DECLARE r : R, r.q <- ^x, CALL P(r.q^, H(r))`: the old model stored INTEGER 5 into `s : STRING`, the C++ reports
  "incompatible data types" at `a <- 5`;
* TYPE statements checked redefinition in the local scope only (`isIdentifierType name false`), the C++ also globally.
-/
namespace Pseudo
open C05 TypedInv

/-! ### the literal statement is false (duplicate activation ids) -/

namespace C05Store

def tk (s : String) : Tok := { k := .IDENTIFIER, line := 1, col := 1, val := s.toList }

/-- an ill-formed state: two live activations with id 0; the inner one has `x : STRING`, the global one `x : INTEGER` -/
def badSt : St :=
  { St.init [] [] false false with
    acts := [ { id := 1, name := "P".toList },
              { id := 0, name := "Q".toList, vars := [{ name := "x".toList, ty := .str, val := .str "a".toList }] },
              { id := 0, name := "Program".toList, vars := [{ name := "x".toList, ty := .int, val := .int 0 }] } ],
    nextId := 2 }

/-- `x <- 5` -/
def badStmt : Stmt := .expr (.assign (tk "<-") (.var (tk "x")) (.intLit (tk "5") 5))

/-- `WT` as a Boolean on the types of the stored values -/
def wtb (σ : St) : Bool := σ.acts.all fun a => a.vars.all fun s => s.ref.isSome || s.val.ty == s.ty

theorem wtb_of_wt {σ : St} (h : WT σ) : wtb σ = true := by
  unfold wtb
  rw [List.all_eq_true]
  intro a ha
  rw [List.all_eq_true]
  intro s hs
  cases hr : s.ref with
  | some l => rfl
  | none => simp [h a ha s hs hr]

theorem wt_of_wtb {σ : St} (h : wtb σ = true) : WT σ := by
  unfold wtb at h
  rw [List.all_eq_true] at h
  intro a ha s hs hr
  have := h a ha
  rw [List.all_eq_true] at this
  have := this s hs
  simpa [hr] using this

theorem badSt_wt : WT badSt := wt_of_wtb (by decide)

theorem badSt_after : wtb ((execStmt 10 badStmt).run.run badSt).2 = false := by decide

end C05Store

/-- **the statement of C05Typed.lean, read literally, is false**: from the well-typed but ill-formed state `badSt`
    (two live activations share id 0) the assignment `x <- 5` stores an INTEGER into the STRING variable `x` -/
theorem C05_store_typed_statement_false : ¬ C05_store_typed_statement := fun h =>
  absurd (C05Store.wtb_of_wt (h 10 C05Store.badStmt C05Store.badSt C05Store.badSt_wt))
    (by rw [C05Store.badSt_after]; decide)

/-! ### the invariant -/

/-- the strengthened invariant implies the typed store -/
theorem C05_inv_wt {σ : St} (h : Inv σ) : WT σ := h.wt

/-- from `WT` plus well-formedness (distinct live ids below the counter, no BYREF alias slot alive) to `Inv` -/
theorem C05_inv_of_wt {σ : St} (hwt : WT σ) (hnd : (σ.acts.map (·.id)).Nodup) (hb : ∀ a ∈ σ.acts, a.id < σ.nextId)
    (hnoref : ∀ a ∈ σ.acts, ∀ s ∈ a.vars, s.ref = none) : Inv σ :=
  ⟨fun a ha s hs => SlotOK.plain (hnoref a ha s hs) (hwt a ha s hs (hnoref a ha s hs)), hnd, hb⟩

/-- the initial state satisfies the invariant -/
theorem C05_inv_init (fs : List (Str × FsNode)) (stdin : Str) (p r : Bool) : Inv (St.init fs stdin p r) := by
  refine ⟨?_, ?_, ?_⟩
  · intro a ha s hs
    have : a = mkGlobal := by simpa [St.init] using ha
    subst this
    cases hs
  · simp [St.init]
  · intro a ha
    have : a = mkGlobal := by simpa [St.init] using ha
    subst this
    exact Nat.zero_lt_one

/-- **C05 (the invariant is preserved).** Every statement, however it ends (normally, runtime error, signal, crash
    point, out of fuel), leads from an `Inv` state to an `Inv` state -/
theorem C05_inv_preserved (fuel : Nat) (s : Stmt) (σ : St) (h : Inv σ) : Inv ((execStmt fuel s).run.run σ).2 :=
  ((TypedInv.all fuel).execStmt s σ h).inv

/-- **C05 (typed store).** The corrected `C05_store_typed_statement`: from a well-formed well-typed state (`Inv`)
    every statement — assignment, INPUT, FOR, READFILE, GETRECORD, DECLARE, CONSTANT, procedure and function calls
    with BYVAL and BYREF parameters, pointer assignment and dereference, …, succeeding or failing — leaves every
    plain variable holding a value of its declared type -/
theorem C05_store_typed (fuel : Nat) (s : Stmt) (σ : St) (h : Inv σ) : WT ((execStmt fuel s).run.run σ).2 :=
  (C05_inv_preserved fuel s σ h).wt

/-- the same for expressions, blocks, procedure and function calls -/
theorem C05_store_typed_all (fuel : Nat) (σ : St) (h : Inv σ) :
    (∀ e, WT ((evalExpr fuel e).run.run σ).2) ∧ (∀ b, WT ((runBlock fuel b).run.run σ).2) ∧
    (∀ t name args, WT ((callProc fuel t name args).run.run σ).2) ∧ (∀ t args, WT ((callFun fuel t args).run.run σ).2) :=
  have w := TypedInv.all fuel
  ⟨fun e => (w.evalExpr e σ h).inv.wt, fun b => (w.runBlock b σ h).inv.wt,
   fun t n a => (w.callProc t n a σ h).inv.wt, fun t a => (w.callFun t a σ h).inv.wt⟩

/-- what the resolver returns: a root-level, non-array holder carries the declared type of the plain slot it points to -/
theorem C05_resolveRef_typed (fuel : Nat) (r : Ref) (σ : St) (h : Inv σ) (hd : Holder)
    (hr : ((resolveRef fuel r).run.run σ).1 = .ok hd) (h1 : hd.loc.isArr = false) (h2 : hd.loc.path = [])
    (a : Act) (ha : ((resolveRef fuel r).run.run σ).2.acts.find? (·.id == hd.loc.act) = some a) :
    ∃ s, findSlot a.vars hd.loc.name = some s ∧ (s.ref = none → s.ty = hd.ty) :=
  ((((TypedInv.all fuel).resolveRef r σ h).post hd hr).2 h1 h2).2 a ha

/-! ### whole programs and whole REPL sessions -/

namespace C05Store

/-- the invariant as a relation between start and final state -/
def R (σ σ' : St) : Prop := Inv σ → Inv σ'

instance : RPre R := ⟨fun _ h => h, fun h1 h2 h => h2 (h1 h)⟩

theorem R_of_frame (σ σ' : St) (h : ReplFrame σ σ') : R σ σ' := fun hi => hi.of_eq h.acts h.nextId

theorem runMain_ok (fuel : Nat) (b : Block) : Ens R (fun _ => True) (runMain fuel b) :=
  runMain_ens fuel b ⟨fun σ => ⟨fun hi => ((TypedInv.all fuel).runBlock b σ hi).inv, fun _ _ => trivial⟩⟩

theorem closeAllSt_inv {σ : St} (h : Inv σ) : Inv (closeAllSt σ) := h.of_eq rfl rfl

end C05Store

open C05Store in
/-- **C05 (typed store, whole program).** Lexing, parsing and running a source text — to the end, into a runtime
    error, a crash point, or out of budget — from an `Inv` state ends in an `Inv` (hence well-typed) state -/
theorem C05_inv_program (cfg : Cfg) (src : Str) (fuel : Nat) (b : Block) (σ : St) (h : Inv σ) :
    Inv (runSource cfg src σ).2 ∧ Inv (runOn fuel b σ).2 :=
  ⟨runSource_rel2 R_of_frame runMain_ok cfg src σ h, runOn_rel2 runMain_ok fuel b σ h⟩

/-- every state reached by running a program from the initial state is well-typed; so is the final state of
    `runFileOn` (after closing all files) -/
theorem C05_store_typed_program (cfg : Cfg) (src : Str) (fs : List (Str × FsNode)) (stdin : Str) (p r eof : Bool) :
    WT (runSource cfg src (St.init fs stdin p r)).2 ∧ WT (runFileOn cfg src fs stdin eof).2 := by
  refine ⟨((C05_inv_program cfg src 0 [] _ (C05_inv_init fs stdin p r)).1).wt, ?_⟩
  unfold runFileOn
  dsimp only
  refine (C05Store.closeAllSt_inv (C05_inv_program cfg (src ++ ['\n']) 0 [] _ ?_).1).wt
  exact (C05_inv_init fs stdin cfg.pedantic false).of_eq rfl rfl

open C05Store in
/-- **C05 (typed store, whole REPL session).** After any number of REPL entries — one-line and multi-line entries,
    `?`, RUNFILE, entries that fail to lex / parse / run — the session state satisfies the invariant -/
theorem C05_inv_repl (cfg : Cfg) (n : Nat) (first : Bool) (r : ReplSt) (h : Inv r.st) : Inv (replLoop cfg n first r).st :=
  replLoop_rel2 R_of_frame runMain_ok cfg n first r h

/-- every state a REPL session started on the initial state reaches is well-typed -/
theorem C05_store_typed_repl (cfg : Cfg) (n : Nat) (first : Bool) (fs : List (Str × FsNode)) (stdin : Str) :
    WT (replLoop cfg n first
      { st := { St.init fs stdin cfg.pedantic true with stepLimit := cfg.stepLimit, depthLimit := cfg.depthLimit } }).st :=
  (C05_inv_repl cfg n first _ ((C05_inv_init fs stdin cfg.pedantic true).of_eq rfl rfl)).wt

/-! ### non-vacuity -/

namespace C05Store

/-- a well-formed state with `x : INTEGER = 1` and `y : REAL = 0.5` -/
def goodSt : St :=
  { St.init [] [] false false with
    acts := [ { mkGlobal with vars := [ { name := "x".toList, ty := .int, val := .int 1 },
                                        { name := "y".toList, ty := .real, val := .real 0.5 } ] } ] }

theorem goodSt_inv : Inv goodSt :=
  C05_inv_of_wt (wt_of_wtb (by decide)) (by decide) (by decide) (by decide)

/-- `x <- 2` really stores … -/
def storeX : Stmt := .expr (.assign (tk "<-") (.var (tk "x")) (.intLit (tk "2") 2))
/-- … `y <- 3` stores with the INTEGER → REAL conversion … -/
def storeY : Stmt := .expr (.assign (tk "<-") (.var (tk "y")) (.intLit (tk "3") 3))
/-- … `x <- TRUE` is refused -/
def storeBad : Stmt := .expr (.assign (tk "<-") (.var (tk "x")) (.boolLit (tk "TRUE") true))

def intOf (σ : St) (n : String) : Option Int :=
  match σ.acts.head?.bind (fun a => findSlot a.vars n.toList) with
  | some { val := .int k, .. } => some k
  | _ => none

def tyOf (σ : St) (n : String) : Option Ty :=
  (σ.acts.head?.bind (fun a => findSlot a.vars n.toList)).map (·.val.ty)

def isOk {α : Type} : Except Stop α → Bool
  | .ok _ => true
  | _ => false

example : isOk ((execStmt 10 storeX).run.run goodSt).1 = true := by decide
example : intOf ((execStmt 10 storeX).run.run goodSt).2 "x" = some 2 := by decide
example : WT ((execStmt 10 storeX).run.run goodSt).2 := C05_store_typed 10 storeX goodSt goodSt_inv
example : isOk ((execStmt 10 storeY).run.run goodSt).1 = true := by decide
example : tyOf ((execStmt 10 storeY).run.run goodSt).2 "y" = some Ty.real := by decide
example : isOk ((execStmt 10 storeBad).run.run goodSt).1 = false := by decide
example : intOf ((execStmt 10 storeBad).run.run goodSt).2 "x" = some 1 := by decide

end C05Store

end Pseudo
