import Properties.C01Exec
import PseudoProofs.NoCrashTAll
import PseudoProofs.NoCrashTRepl
import PseudoProofs.NoCrashTCounter
/-!
# C01, evaluation stage — beyond the TYPE-free sublanguage

`Properties/C01Exec.lean` proves that the evaluator never reaches a crash point on programs without TYPE statements
(`C01_eval_no_crash_partial`). This file extends the result.

## Second sublanguage: enum and pointer types defined at top level  (`NT.okStmt` / `NT.okBlock`, `PseudoProofs/NoCrashT*.lean`)

Programs whose TYPE statements define **enum types** (with at least one name) and **pointer types**, and are executed in the global
activation (`top = true`: at top level, also inside IF / CASE / loops there; the bodies of procedures and functions contain no
TYPE statement); no record types. Everything else is in: enum / pointer variables, constants, array elements, BYVAL and BYREF
parameters and return values of these types, enum arithmetic and comparison, `^x` / `p^` / `p <- ^x` with dangling and unset pointers
(a dereference of a pointer into a finished procedure or of a pointer never set ends in a diagnostic), GETRECORD / PUTRECORD of enum
values and arrays of them, OUTPUT of enum values — the crash points `enumIndexOOB`, `danglingLoc` (pointer targets) and the
`ptrDefOf = none` arm of `ptrAssign` (`other`) are genuinely at stake here.

* invariant `NT.WF σ`: as `NC.WF`, with the state-dependent value predicate `NT.ValOK σ v` in place of "primitive": an enum value's index is
  below the number of names of the global definition of its type; a pointer value's type is defined and its target, if set, lies in an
  activation whose id is below the id counter and, as long as that activation is live, is a readable location that holds a scalar of
  the pointer's target type; the global definitions are well-formed (`NT.GlobOK`: every enum type has a name and is the first entry of its
  name, every pointer target type is usable); activations other than the global one define no types;
* `NT.Ext σ σ'`: as `NC.Ext`, plus: the global enum / pointer definitions only grow;
* `C01_eval_no_crash_enum_ptr : ∀ fuel, NT.AllTri fuel` — one Hoare triple per function of the evaluator's mutual block;
  `C01_exec_no_crash_enum_ptr` for `execStmt`; `C01_no_crash_enum_ptr_file` / `C01_no_crash_enum_ptr_repl` for whole programs and REPL
  sessions, with the decidable side conditions `NT.OkSrc` (`NT.okSrcB`) / `NT.ReplOk`.
-/
namespace Pseudo

/-- **Enum and pointer types at top level: no function of the evaluator reaches a crash point** (all 25 functions, every fuel). -/
theorem C01_eval_no_crash_enum_ptr : ∀ fuel, NT.AllTri fuel := NT.allTri

/-- the instance for `execStmt`: from a well-formed state, a statement of the sublanguage (`top = true` only when the global
    activation is the only one) keeps the invariant and raises no crash point -/
theorem C01_exec_no_crash_enum_ptr (fuel : Nat) (top : Bool) (s : Stmt) (hs : NT.okStmt top s = true) (σ : St) (hW : NT.WF σ)
    (hT : NT.TopCond top σ) :
    NT.WF ((execStmt fuel s).run.run σ).2 ∧ ∀ e, ((execStmt fuel s).run.run σ).1 = .error e → ∀ p, e ≠ .crash p := by
  obtain ⟨h1, _, h3⟩ := (NT.allTri fuel).execStmt top s hs σ hW hT
  refine ⟨h1, fun e he => ?_⟩
  rw [he] at h3
  exact h3.1

theorem C01_wf_init_enum_ptr (fs : List (Str × FsNode)) (stdin : Str) (p r : Bool) : NT.WF (St.init fs stdin p r) :=
  NT.WF.init fs stdin p r

/-- **file mode**: a program whose parse is in the second sublanguage never ends in a crash point -/
theorem C01_no_crash_enum_ptr_file (cfg : Cfg) (content : Str) (fs : List (Str × FsNode)) (stdin : Str)
    (h : NT.OkSrc cfg (content ++ ['\n'])) : (runFile cfg content fs stdin).crash = none :=
  NT.runFile_ok NT.allTri cfg content h fs stdin

/-- **REPL**: a session all of whose entries and RUNFILE'd files are in the second sublanguage never ends in a crash point -/
theorem C01_no_crash_enum_ptr_repl (cfg : Cfg) (fs : List (Str × FsNode)) (stdin : Str)
    (h : NT.ReplOk cfg (stdin.length + 2) true (NT.replInit cfg fs stdin)) : (repl cfg fs stdin).crash = none :=
  NT.repl_ok NT.allTri cfg fs stdin h

/-! ### non-vacuity (kernel evaluations in `PseudoProofs/NoCrashTCounter.lean`) -/

/-- `C01.progEnumPtr` (enum arithmetic through BYREF, pointers, a dangling pointer returned from a function) is in the sublanguage,
    so it never crashes, whatever the file system and the input; it runs: prints `Spring`, `42`, then the diagnostic for `p^` -/
example (fs : List (Str × FsNode)) (stdin : Str) : (runFile {} C01.progEnumPtr.toList fs stdin).crash = none :=
  C01_no_crash_enum_ptr_file {} _ fs stdin NT.progEnumPtr_ok
example : (runFile {} C01.progEnumPtr.toList [] []).out = "Spring\n42\n\n".toList ∧
    (runFile {} C01.progEnumPtr.toList [] []).exitCode = 1 := ⟨NT.progEnumPtr_runs, NT.progEnumPtr_exit⟩
example : (repl {} [] "TYPE E = (a, b)\nx <- b\nx + 1\n".toList).crash = none :=
  C01_no_crash_enum_ptr_repl {} [] _ (by decide +kernel)

end Pseudo
