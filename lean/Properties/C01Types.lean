import Properties.C01Exec
import PseudoProofs.NoCrashTAll
import PseudoProofs.NoCrashTRepl
import PseudoProofs.NoCrashTCounter
import PseudoProofs.NoCrashRAll
import PseudoProofs.NoCrashRRepl
import PseudoProofs.NoCrashRCounter
/-!
# C01, evaluation stage — beyond the TYPE-free sublanguage

`Properties/C01Exec.lean` proves that the evaluator never reaches a crash point on programs without TYPE statements
(`C01_eval_no_crash_partial`). This file extends the result.

## Second sublanguage: enum and pointer types defined at top level  (`NT.okStmt` / `NT.okBlock`, `PseudoProofs/NoCrashT*.lean`)

Programs whose TYPE statements define **enum types** (with at least one name) and **pointer types**, and are executed in the global
activation (`top = true`: at top level, also inside IF / CASE / loops there; the bodies of procedures and functions contain no
TYPE statement); no record types. Everything else is in: enum / pointer variables, constants, array elements, BYVAL and BYREF
parameters and return values of these types, enum arithmetic and comparison, `^x` / `p^` / `p <- ^x` with dangling and unset pointers
(a dereference of a pointer into a finished procedure or of a pointer never set ends in a diagnostic), GETRECORD / PUTRECORD of enum
values and arrays of them, OUTPUT of enum values — the crash points `enumIndexOOB`, `danglingLoc` (pointer targets) and the
`ptrDefOf = none` arm of `ptrAssign` (`other`) are genuinely at stake here.

* invariant `NT.WF σ`: as `NC.WF`, with the state-dependent value predicate `NT.ValOK σ v` in place of "primitive": an enum value's index is
  below the number of names of the global definition of its type; a pointer value's type is defined and its target, if set, lies in an
  activation whose id is below the id counter and, as long as that activation is live, is a readable location that holds a scalar of
  the pointer's target type; the global definitions are well-formed (`NT.GlobOK`: every enum type has a name and is the first entry of its
  name, every pointer target type is usable); activations other than the global one define no types;
* `NT.Ext σ σ'`: as `NC.Ext`, plus: the global enum / pointer definitions only grow;
* `C01_eval_no_crash_enum_ptr : ∀ fuel, NT.AllTri fuel` — one Hoare triple per function of the evaluator's mutual block;
  `C01_exec_no_crash_enum_ptr` for `execStmt`; `C01_no_crash_enum_ptr_file` / `C01_no_crash_enum_ptr_repl` for whole programs and REPL
  sessions, with the decidable side conditions `NT.OkSrc` (`NT.okSrcB`) / `NT.ReplOk`.

## Third sublanguage: enum, pointer and RECORD types defined at top level  (`NR.okStmt` / `NR.okBlock`, `PseudoProofs/NoCrashR*.lean`)

All three kinds of TYPE statements, executed in the global activation; the body of a record type consists of DECLAREs whose array
bounds are integer literals (`NR.declBody`; member types: primitive, enum, pointer, other records — nested to any depth); the bodies of
procedures and functions contain no TYPE statement. Everything else is in (also GETRECORD / PUTRECORD of records: `NR.load_good`):
record variables and constants, arrays of records, record members that are arrays (of scalars or records), `r.f.g[i].h` references
to any depth, whole-record assignment and comparison, records as BYVAL / BYREF parameters and return values, BYREF aliases of and
pointers to members of records inside arrays inside records, …

* values are nested now: `NR.kind v` (the type of a non-array value, resp. element type and dimensions of an array) is what a store
  keeps (`NR.SameKind`, state-independent); `NR.Good σ v` — every node of `v` that a path reaches is `NR.Local σ`: an enum index below
  the size of its type, a pointer with a defined type and a fine target, a record whose member list has, in order, the names and
  kinds that the body of its type declares (`NR.memSig`), an array with as many cells as its dimensions say, all of the element kind;
* **the type name determines the shape** (`NR.paths_agree`): two good values of the same kind have the same readable paths with the
  same kinds; hence a store of a same-kind good value at a readable path keeps every readable location readable (`NR.setPath_good`,
  `NR.run_writeLoc`) — this is exactly what failed in the counterexamples of `C01Exec.lean` before the interpreter was repaired;
* a freshly declared record matches its type: the functions on the declaration path (`runBlock` / `execStmt` on DECLAREs,
  `declareVars`, `declareArrs`, `defaultVal`, `defaultCells`) are specified with *frames* (`NR.Frame`: exactly which variables / arrays they
  add to the top activation, nothing else changes its signature), so that the record built by `defaultVal` from the record context
  has the member signature of its type;
* `C01_eval_no_crash_records : ∀ fuel, NR.AllTri fuel`, `C01_exec_no_crash_records`, `C01_no_crash_records_file`,
  `C01_no_crash_records_repl` (side conditions `NR.OkSrc` / `NR.okSrcB`, `NR.ReplOk`, decidable).

## Not covered (and why)

* TYPE statements inside procedures / functions: covered by `Properties/C01Local.lean` (development `Pseudo.NL`); the obstacle noted
  here earlier — a BYREF parameter's alias slot took the type of the re-resolved argument reference while the type check was made on
  the value evaluated earlier — was a real defect (`C01.progByrefReresolve`), repaired in the C++ (d712123) and in the model.
* record bodies with non-literal array bounds: there the statement is FALSE for the model (`C01_counterexample_model_recordCopy`).
-/
namespace Pseudo

/-- **Enum and pointer types at top level: no function of the evaluator reaches a crash point** (all 25 functions, every fuel). -/
theorem C01_eval_no_crash_enum_ptr : ∀ fuel, NT.AllTri fuel := NT.allTri

/-- the instance for `execStmt`: from a well-formed state, a statement of the sublanguage (`top = true` only when the global
    activation is the only one) keeps the invariant and raises no crash point -/
theorem C01_exec_no_crash_enum_ptr (fuel : Nat) (top : Bool) (s : Stmt) (hs : NT.okStmt top s = true) (σ : St) (hW : NT.WF σ)
    (hT : NT.TopCond top σ) :
    NT.WF ((execStmt fuel s).run.run σ).2 ∧ ∀ e, ((execStmt fuel s).run.run σ).1 = .error e → ∀ p, e ≠ .crash p := by
  obtain ⟨h1, _, h3⟩ := (NT.allTri fuel).execStmt top s hs σ hW hT
  refine ⟨h1, fun e he => ?_⟩
  rw [he] at h3
  exact h3.1

theorem C01_wf_init_enum_ptr (fs : List (Str × FsNode)) (stdin : Str) (p r : Bool) : NT.WF (St.init fs stdin p r) :=
  NT.WF.init fs stdin p r

/-- **file mode**: a program whose parse is in the second sublanguage never ends in a crash point -/
theorem C01_no_crash_enum_ptr_file (cfg : Cfg) (content : Str) (fs : List (Str × FsNode)) (stdin : Str)
    (h : NT.OkSrc cfg (content ++ ['\n'])) : (runFile cfg content fs stdin).crash = none :=
  NT.runFile_ok NT.allTri cfg content h fs stdin

/-- **REPL**: a session all of whose entries and RUNFILE'd files are in the second sublanguage never ends in a crash point -/
theorem C01_no_crash_enum_ptr_repl (cfg : Cfg) (fs : List (Str × FsNode)) (stdin : Str)
    (h : NT.ReplOk cfg (stdin.length + 2) true (NT.replInit cfg fs stdin)) : (repl cfg fs stdin).crash = none :=
  NT.repl_ok NT.allTri cfg fs stdin h

/-! ## third sublanguage -/

/-- **Enum, pointer and record types at top level: no function of the evaluator reaches a crash point** (all 25 functions, every
    fuel; the declaration-path functions with their frames). -/
theorem C01_eval_no_crash_records : ∀ fuel, NR.AllTri fuel := NR.allTri

theorem C01_exec_no_crash_records (fuel : Nat) (top : Bool) (s : Stmt) (hs : NR.okStmt top s = true) (σ : St) (hW : NR.WF σ)
    (hT : NR.TopCond top σ) :
    NR.WF ((execStmt fuel s).run.run σ).2 ∧ ∀ e, ((execStmt fuel s).run.run σ).1 = .error e → ∀ p, e ≠ .crash p := by
  obtain ⟨h1, _, h3⟩ := (NR.allTri fuel).execStmt top s hs σ hW hT
  refine ⟨h1, fun e he => ?_⟩
  rw [he] at h3
  exact h3.1

theorem C01_wf_init_records (fs : List (Str × FsNode)) (stdin : Str) (p r : Bool) : NR.WF (St.init fs stdin p r) :=
  NR.WF.init fs stdin p r

/-- **file mode**: a program whose parse is in the third sublanguage never ends in a crash point -/
theorem C01_no_crash_records_file (cfg : Cfg) (content : Str) (fs : List (Str × FsNode)) (stdin : Str)
    (h : NR.OkSrc cfg (content ++ ['\n'])) : (runFile cfg content fs stdin).crash = none :=
  NR.runFile_ok NR.allTri cfg content h fs stdin

/-- **REPL**: a session all of whose entries and RUNFILE'd files are in the third sublanguage never ends in a crash point -/
theorem C01_no_crash_records_repl (cfg : Cfg) (fs : List (Str × FsNode)) (stdin : Str)
    (h : NR.ReplOk cfg (stdin.length + 2) true (NR.replInit cfg fs stdin)) : (repl cfg fs stdin).crash = none :=
  NR.repl_ok NR.allTri cfg fs stdin h

/-! ### non-vacuity (kernel evaluations in `PseudoProofs/NoCrashTCounter.lean`, `NoCrashRCounter.lean`) -/

/-- `C01.progRecords` (nested records, an array member of records, BYREF of a record and a field, a pointer to a field inside an array
    member, RETURN of a record, record copies) is in the third sublanguage; it prints `6Green6` -/
example (fs : List (Str × FsNode)) (stdin : Str) : (runFile {} C01.progRecords.toList fs stdin).crash = none :=
  C01_no_crash_records_file {} _ fs stdin NR.progRecords_ok
example : (runFile {} C01.progRecords.toList [] []).out = "6Green6\n".toList := NR.progRecords_runs
/-- the former counterexample programs of `C01Exec.lean` (procedure-local types) are outside all three sublanguages -/
example : ¬ NR.OkSrc {} (C01.progEnum.toList ++ ['\n']) := by decide +kernel


/-- `C01.progEnumPtr` (enum arithmetic through BYREF, pointers, a dangling pointer returned from a function) is in the sublanguage,
    so it never crashes, whatever the file system and the input; it runs: prints `Spring`, `42`, then the diagnostic for `p^` -/
example (fs : List (Str × FsNode)) (stdin : Str) : (runFile {} C01.progEnumPtr.toList fs stdin).crash = none :=
  C01_no_crash_enum_ptr_file {} _ fs stdin NT.progEnumPtr_ok
example : (runFile {} C01.progEnumPtr.toList [] []).out = "Spring\n42\n\n".toList ∧
    (runFile {} C01.progEnumPtr.toList [] []).exitCode = 1 := ⟨NT.progEnumPtr_runs, NT.progEnumPtr_exit⟩
example : (repl {} [] "TYPE E = (a, b)\nx <- b\nx + 1\n".toList).crash = none :=
  C01_no_crash_enum_ptr_repl {} [] _ (by decide +kernel)

end Pseudo
