import PseudoModel.Lexer
import PseudoModel.Parser
import PseudoProofs.LexLemmas
/-!
# C20 — `--pedantic` only rejects
A program accepted with `--pedantic` is lexed and parsed exactly as without it; with `--pedantic`
the only new outcome is a *pedantic* diagnostic.
Model: `Pseudo.lex`, `Pseudo.makeWord` (`PseudoModel/Lexer.lean`), `Pseudo.parse` (`PseudoModel/Parser.lean`).
Helper lemmas: `PseudoProofs/LexLemmas.lean` (`PedR`, `lexLoop_pedR`, `makeWord_run`).
-/
namespace Pseudo

/-! ## 6. the lexer -/

/-- The pedantic lexer either stops with a pedantic diagnostic or behaves exactly like the
    non-pedantic lexer (same tokens or the same error). -/
theorem C20_sim_lex_or (s : List Char) :
    (∃ d, lex { pedantic := true } s = .error d ∧ d.kind = .pedantic)
      ∨ lex { pedantic := true } s = lex { pedantic := false } s := by
  unfold lex
  exact PedR.map List.reverse (lexLoop_pedR _ _ _ _)

/-- What the pedantic lexer accepts, the non-pedantic lexer accepts with the same tokens. -/
theorem C20_sim_lex (s : List Char) (ts : List Tok)
    (h : lex { pedantic := true } s = .ok ts) : lex { pedantic := false } s = .ok ts := by
  rcases C20_sim_lex_or s with ⟨d, hd, _⟩ | he
  · rw [h] at hd; cases hd
  · rw [← he]; exact h

example : lex { pedantic := true } "x <- 1".toList
    = .ok [⟨.IDENTIFIER, 1, 1, ['x']⟩, ⟨.ASSIGNMENT, 1, 4, []⟩, ⟨.INTEGER, 1, 6, ['1']⟩, ⟨.EXPRESSION_END, 1, 6, []⟩] := by
  rfl

/-- every non-pedantic lexer error is also reported (identically) by the pedantic lexer, unless a
    pedantic diagnostic comes first -/
theorem C20_lex_error_kinds (s : List Char) (d : Diag)
    (h : lex { pedantic := true } s = .error d) (hk : d.kind ≠ .pedantic) :
    lex { pedantic := false } s = .error d := by
  rcases C20_sim_lex_or s with ⟨d', hd, hk'⟩ | he
  · rw [h] at hd; cases hd; exact absurd hk' hk
  · rw [← he]; exact h

/-- the hypotheses of `C20_lex_error_kinds` are satisfiable: `?` is a syntax error in both modes -/
example : ∃ d, lex { pedantic := true } "x ? y".toList = .error d ∧ d.kind ≠ .pedantic :=
  ⟨_, rfl, by decide⟩

/-! ## 7. what the pedantic lexer rejects -/

/-- the word BREAK followed by a non-identifier character: pedantic error / BREAK token -/
theorem C20_rejects_lex_break (x : Char) (rest : List Char) (line col : Nat) (last : Char)
    (hx : (isAlnum x || x == '_') = false) :
    makeWord { pedantic := true } ⟨"BREAK".toList ++ x :: rest, line, col, last⟩
        = .error { kind := .pedantic, line := line, col := col, msg := .pedBreak }
    ∧ makeWord { pedantic := false } ⟨"BREAK".toList ++ x :: rest, line, col, last⟩
        = .ok ({ k := .BREAK, line := line, col := col, val := [] }, ⟨x :: rest, line, col + 5, x⟩) := by
  constructor <;>
  · rw [makeWord_run _ _ _ _ _ _ _ (by decide) hx]
    rw [show lookupKeyword "BREAK".toList = some TK.BREAK by decide]
    rfl

/-- the word CONTINUE followed by a non-identifier character: pedantic error / CONTINUE token -/
theorem C20_rejects_lex_continue (x : Char) (rest : List Char) (line col : Nat) (last : Char)
    (hx : (isAlnum x || x == '_') = false) :
    makeWord { pedantic := true } ⟨"CONTINUE".toList ++ x :: rest, line, col, last⟩
        = .error { kind := .pedantic, line := line, col := col, msg := .pedContinue }
    ∧ makeWord { pedantic := false } ⟨"CONTINUE".toList ++ x :: rest, line, col, last⟩
        = .ok ({ k := .CONTINUE, line := line, col := col, val := [] }, ⟨x :: rest, line, col + 8, x⟩) := by
  constructor <;>
  · rw [makeWord_run _ _ _ _ _ _ _ (by decide) hx]
    rw [show lookupKeyword "CONTINUE".toList = some TK.CONTINUE by decide]
    rfl

/-- the same at the end of the input -/
theorem C20_rejects_lex_eof (line col : Nat) (last : Char) :
    makeWord { pedantic := true } ⟨"BREAK".toList, line, col, last⟩
        = .error { kind := .pedantic, line := line, col := col, msg := .pedBreak }
    ∧ makeWord { pedantic := true } ⟨"CONTINUE".toList, line, col, last⟩
        = .error { kind := .pedantic, line := line, col := col, msg := .pedContinue } := by
  constructor
  · obtain ⟨la', h⟩ := makeWord_run_end { pedantic := true } "BREAK".toList line col last (by decide)
    rw [h, show lookupKeyword "BREAK".toList = some TK.BREAK by decide]; rfl
  · obtain ⟨la', h⟩ := makeWord_run_end { pedantic := true } "CONTINUE".toList line col last (by decide)
    rw [h, show lookupKeyword "CONTINUE".toList = some TK.CONTINUE by decide]; rfl

example : (isAlnum '\n' || '\n' == '_') = false := by decide

/-- the whole lexer on a loop containing BREAK: pedantic error with `--pedantic`, tokens without -/
theorem C20_rejects_lex :
    (∃ d, lex { pedantic := true } "WHILE TRUE\nBREAK\nENDWHILE".toList = .error d
        ∧ d.kind = .pedantic ∧ d.msg = .pedBreak ∧ d.line = 2)
    ∧ (∃ ts, lex { pedantic := false } "WHILE TRUE\nBREAK\nENDWHILE".toList = .ok ts
        ∧ ts.map (·.k) = [.WHILE, .TRUE, .LINE_END, .BREAK, .LINE_END, .ENDWHILE, .EXPRESSION_END]) :=
  ⟨⟨_, rfl, rfl, rfl, rfl⟩, ⟨_, rfl, rfl⟩⟩

/-! ## 8. the parser -/

/-- The simulation relation on parser computations (`PseudoProofs/LexLemmas.lean`), spelled out:
    from every state, the pedantic computation either fails with a pedantic diagnostic or yields the
    same result *and* the same state (remaining tokens, warnings) as the non-pedantic one. -/
theorem C20_PedSim_def {α : Type} (mt mf : P α) :
    PedSim mt mf ↔ ∀ s, (∃ d s', mt.run.run s = (.error d, s') ∧ d.kind = .pedantic)
                          ∨ mt.run.run s = mf.run.run s := Iff.rfl

/-- expression sub-grammar: every expression parser function, at every fuel, from every state -/
theorem C20_sim_parse_expr (f : Nat) :
    (∀ k, PedSim (parseLevel { pedantic := true } f k) (parseLevel { pedantic := false } f k))
    ∧ PedSim (parseFactor { pedantic := true } f) (parseFactor { pedantic := false } f)
    ∧ PedSim (parseAtom { pedantic := true } f) (parseAtom { pedantic := false } f)
    ∧ (∀ a, PedSim (parseArgs { pedantic := true } f a) (parseArgs { pedantic := false } f a))
    ∧ PedSim (parseCallArgs { pedantic := true } f) (parseCallArgs { pedantic := false } f)
    ∧ PedSim (parseRef { pedantic := true } f) (parseRef { pedantic := false } f) :=
  have e := exprSim f
  ⟨e.level, e.factor, e.atom, e.args, e.callArgs, e.ref⟩

/-- statement grammar: every statement parser function, at every fuel, from every state -/
theorem C20_sim_parse_stmt (f : Nat) :
    (∀ bk acc, PedSim (parseBlock { pedantic := true } f bk acc) (parseBlock { pedantic := false } f bk acc))
    ∧ PedSim (parseStmt { pedantic := true } f) (parseStmt { pedantic := false } f)
    ∧ PedSim (parseProcedure { pedantic := true } f) (parseProcedure { pedantic := false } f)
    ∧ PedSim (parseFunction { pedantic := true } f) (parseFunction { pedantic := false } f)
    ∧ (∀ acc, PedSim (parseElse { pedantic := true } f acc) (parseElse { pedantic := false } f acc))
    ∧ (∀ acc, PedSim (parseClauses { pedantic := true } f acc) (parseClauses { pedantic := false } f acc)) :=
  have e := stmtSim f
  ⟨e.block, e.stmt, e.proc, e.func, e.els, e.clauses⟩

/-- The pedantic parser either stops with a pedantic diagnostic or behaves exactly like the
    non-pedantic parser: same tree and warnings, or the same error and warnings. -/
theorem C20_sim_parse_or (toks : List Tok) :
    (∃ d w, parse { pedantic := true } toks = .error (d, w) ∧ d.kind = .pedantic)
      ∨ parse { pedantic := true } toks = parse { pedantic := false } toks :=
  parse_pedSim toks

/-- What the pedantic parser accepts, the non-pedantic parser accepts with the same tree and the
    same warnings. -/
theorem C20_sim_parse (toks : List Tok) (b : Block) (w : List Tok)
    (h : parse { pedantic := true } toks = .ok (b, w)) : parse { pedantic := false } toks = .ok (b, w) := by
  rcases C20_sim_parse_or toks with ⟨d, w', hd, _⟩ | he
  · rw [h] at hd; cases hd
  · rw [← he]; exact h

/-- the full statement asked for (proved just above) -/
def C20_sim_parse_statement : Prop :=
  ∀ toks b w, parse { pedantic := true } toks = .ok (b, w) → parse { pedantic := false } toks = .ok (b, w)

theorem C20_sim_parse_statement_holds : C20_sim_parse_statement := C20_sim_parse

/-- tokens of `x <- 1` -/
def C20_demoToks : List Tok :=
  [⟨.IDENTIFIER, 1, 1, ['x']⟩, ⟨.ASSIGNMENT, 1, 4, []⟩, ⟨.INTEGER, 1, 6, ['1']⟩, ⟨.EXPRESSION_END, 1, 6, []⟩]

/-- the hypothesis of `C20_sim_parse` is satisfiable -/
example : ∃ b w, parse { pedantic := true } C20_demoToks = .ok (b, w) := ⟨_, _, rfl⟩

/-- lexer and parser together: source text accepted under `--pedantic` gives the same tree without -/
theorem C20_sim_front (s : List Char) (ts : List Tok) (b : Block) (w : List Tok)
    (hl : lex { pedantic := true } s = .ok ts) (hp : parse { pedantic := true } ts = .ok (b, w)) :
    lex { pedantic := false } s = .ok ts ∧ parse { pedantic := false } ts = .ok (b, w) :=
  ⟨C20_sim_lex s ts hl, C20_sim_parse ts b w hp⟩

/-- the hypotheses of `C20_sim_front` are satisfiable -/
example : ∃ b w, lex { pedantic := true } "x <- 1".toList = .ok C20_demoToks
    ∧ parse { pedantic := true } C20_demoToks = .ok (b, w) := ⟨_, _, rfl, rfl⟩

/-- a non-pedantic parser error is reported identically under `--pedantic` unless a pedantic
    diagnostic comes first -/
theorem C20_parse_error_kinds (toks : List Tok) (d : Diag) (w : List Tok)
    (h : parse { pedantic := true } toks = .error (d, w)) (hk : d.kind ≠ .pedantic) :
    parse { pedantic := false } toks = .error (d, w) := by
  rcases C20_sim_parse_or toks with ⟨d', w', hd, hk'⟩ | he
  · rw [h] at hd; cases hd; exact absurd hk' hk
  · rw [← he]; exact h

/-- the hypotheses of `C20_parse_error_kinds` are satisfiable: a lone `+` is a syntax error -/
example : ∃ d w, parse { pedantic := true } [⟨.PLUS, 1, 1, []⟩, ⟨.EXPRESSION_END, 1, 1, []⟩] = .error (d, w)
    ∧ d.kind ≠ .pedantic := ⟨_, _, rfl, by decide⟩

/-- what the pedantic parser rejects: a cast `INTEGER(…)` and `ELSE IF` -/
theorem C20_rejects_parse :
    (∃ d w, parse { pedantic := true }
        [⟨.DATA_TYPE, 1, 1, "INTEGER".toList⟩, ⟨.LPAREN, 1, 8, []⟩, ⟨.INTEGER, 1, 9, ['1']⟩, ⟨.RPAREN, 1, 10, []⟩,
         ⟨.EXPRESSION_END, 1, 10, []⟩] = .error (d, w) ∧ d.kind = .pedantic ∧ d.msg = .pedCast)
    ∧ (∃ b w, parse { pedantic := false }
        [⟨.DATA_TYPE, 1, 1, "INTEGER".toList⟩, ⟨.LPAREN, 1, 8, []⟩, ⟨.INTEGER, 1, 9, ['1']⟩, ⟨.RPAREN, 1, 10, []⟩,
         ⟨.EXPRESSION_END, 1, 10, []⟩] = .ok (b, w)) :=
  ⟨⟨_, _, rfl, rfl, rfl⟩, ⟨_, _, rfl⟩⟩

/-- tokens of `IF TRUE THEN⏎x⏎ELSE IF TRUE THEN⏎y⏎ENDIF` -/
def C20_elseIfToks : List Tok :=
  [⟨.IF, 1, 1, []⟩, ⟨.TRUE, 1, 4, []⟩, ⟨.THEN, 1, 9, []⟩, ⟨.LINE_END, 1, 13, []⟩,
   ⟨.IDENTIFIER, 2, 1, ['x']⟩, ⟨.LINE_END, 2, 2, []⟩,
   ⟨.ELSE, 3, 1, []⟩, ⟨.IF, 3, 6, []⟩, ⟨.TRUE, 3, 9, []⟩, ⟨.THEN, 3, 14, []⟩, ⟨.LINE_END, 3, 18, []⟩,
   ⟨.IDENTIFIER, 4, 1, ['y']⟩, ⟨.LINE_END, 4, 2, []⟩, ⟨.ENDIF, 5, 1, []⟩, ⟨.EXPRESSION_END, 5, 5, []⟩]

/-- `ELSE IF`: accepted without `--pedantic`, a pedantic diagnostic with it -/
theorem C20_rejects_parse_else_if :
    lex { pedantic := true } "IF TRUE THEN\nx\nELSE IF TRUE THEN\ny\nENDIF".toList = .ok C20_elseIfToks
      ∧ (∃ d w, parse { pedantic := true } C20_elseIfToks = .error (d, w)
            ∧ d.kind = .pedantic ∧ d.msg = .pedElseIf ∧ d.line = 3)
      ∧ (∃ b w, parse { pedantic := false } C20_elseIfToks = .ok (b, w)) :=
  ⟨rfl, ⟨_, _, rfl, rfl, rfl, rfl⟩, ⟨_, _, rfl⟩⟩

end Pseudo
