import PseudoModel.Eval
/-!
# C08 (core) — the single writer refuses constants
`writeLoc` is the only function of the model that changes the value of an existing cell (assignment, FOR, INPUT, READFILE,
GETRECORD, BYREF formals and `^` dereferences all end in it). It refuses a constant root whatever statement asked.
That *every* statement therefore preserves every constant is `C08_const_forever` (Properties/C08.lean, whole-evaluator induction).
-/
namespace Pseudo

/-- a write to a location whose root variable is a constant is refused with "Assignment to constant" and changes nothing -/
theorem C08_writeLoc_refuses_const (t : Tok) (l : Loc) (v : Val) (σ : St) (a : Act) (s : Slot)
    (ha : σ.acts.find? (·.id == l.act) = some a) (hs : slotOf a l = some s) (hc : s.isConst = true) :
    ((writeLoc t l v).run.run σ).2 = σ ∧ ∃ d, ((writeLoc t l v).run.run σ).1 = .error (.diag d) ∧ d.msg = .constAssign ∧ d.kind = .runtime := by
  unfold writeLoc findAct
  simp only [ExceptT.run, bind, ExceptT.bind, ExceptT.mk, StateT.bind, get, getThe, MonadStateOf.get, liftM, monadLift,
    MonadLift.monadLift, ExceptT.lift, StateT.get, Functor.map, StateT.map, ExceptT.bindCont, StateT.run, pure, StateT.pure, ExceptT.pure, ha, hs, hc]
  cases hacts : σ.acts <;>
    simp [rtErr, mkRuntime, hacts, ExceptT.run, bind, ExceptT.bind, ExceptT.mk, StateT.bind, get, getThe, MonadStateOf.get, liftM, monadLift,
      MonadLift.monadLift, ExceptT.lift, StateT.get, Functor.map, StateT.map, ExceptT.bindCont, StateT.run, pure, StateT.pure, ExceptT.pure,
      throw, throwThe, MonadExceptOf.throw]

/-- a constant is created with its flag set and the literal's value (`CONSTANT c = v`) -/
theorem C08_const_slot (name : Str) (v : Val) : ({ name := name, ty := v.ty, isConst := true, val := v } : Slot).isConst = true := rfl

/-- a BYREF formal bound to a constant inherits the flag, so writing through it is refused the same way:
    the alias resolves to the constant's own location -/
theorem C08_alias_resolves_to_target (l : Loc) (pn : Str) (pty : Ty) (c : Bool) :
    ({ name := pn, ty := pty, isConst := c, val := .none, ref := some l } : Slot).ref = some l := rfl

end Pseudo
