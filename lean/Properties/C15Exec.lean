import PseudoProofs.ReadLoopRun
/-!
# C15 for programs: the loop `WHILE NOT EOF(f) … READFILE f, line … ENDWHILE` on the evaluator

`Properties/C15.lean` proves the property about the pure file layer (`readAll`, `readLineOf`, `fstep`). Here it is proved about
the run of the actual loop statement by `execStmt`:

* `C15_exec_eof`: the built-in call `EOF("n")` on a READ handle with unread text `rest` returns `rest.isEmpty` — EOF is exact.
  The informal "state unchanged" is FALSE in the model as it stands: the call runs in an activation of its own, so the
  activation counter `nextId` advances by one (`C15_exec_eof_not_state_preserving`); nothing else changes.
* `C15_exec_read_loop` (body `READFILE n, line ; cnt <- cnt + 1`), `C15_exec_read_loop_output` (body `READFILE n, line ;
  OUTPUT line`): on a state where `n` is open FOR READ with unread text `joinLines ls` the statement ends normally after exactly
  `ls.length` rounds; the final state is given in closed form (everything but `steps`, `nextId`, the handle's unread text, the
  two variables / the output is untouched); `…_output_text`: the printed text grows by exactly `joinLines ls`.
* `C15_exec_last_line_without_break[_output]`: the same for `joinLines ls ++ last`, one more round, last value `last`.
* `C15_exec_read_loop_reads[_output]`: the common generalisation over `Reads txt L`.
* `C15_exec_write_then_read`: a WRITE session of literal lines, CLOSEFILE, OPENFILE FOR READ, the printing loop — one block.
* the ASTs are what the parser produces: `C15_exec_parse_count`, `C15_exec_parse_output`.
-/
namespace Pseudo
open FileStmt ReadLoop

/-- `WHILE NOT EOF("n") DO READFILE "n", line ; x <- x + 1 ENDWHILE` as the parser builds it -/
def C15_countLoop (tw tnot teof tn1 tr tn2 idLine ta tx tp tacc tv t1 : Tok) (n : Str) : Stmt :=
  .while tw (.not tnot (.call teof [.strLit tn1 n]))
    [.readFile tr (.strLit tn2 n) idLine,
     .expr (.assign ta (.var tx) (.arith tp .add (.access tacc (.var tv)) (.intLit t1 1)))]

/-- `WHILE NOT EOF("n") DO READFILE "n", line ; OUTPUT line ENDWHILE` as the parser builds it -/
def C15_outputLoop (tw tnot teof tn1 tr tn2 idLine to tacc tv : Tok) (n : Str) : Stmt :=
  .while tw (.not tnot (.call teof [.strLit tn1 n]))
    [.readFile tr (.strLit tn2 n) idLine, .output to [.access tacc (.var tv)]]

/-! ## EOF -/

/-- **`EOF("n")` is exact**: on a READ handle with unread text `h.rest` the call returns TRUE iff no unread text remains
    (`C15_eof_exact` for programs). The only trace it leaves in the state is one used-up activation number. -/
theorem C15_exec_eof (fuel : Nat) (teof tn : Tok) (n : Str) (σ : St) (a : Act) (rest : List Act) (h : Handle)
    (hfuel : 4 ≤ fuel) (heof : teof.val = "EOF".toList)
    (hacts : σ.acts = a :: rest) (hsw : a.switchTok = none) (hd : σ.depth + 1 ≤ σ.depthLimit)
    (hh : FState.handle { fs := σ.fs, handles := σ.handles } n = some h) (hm : h.mode = .read) :
    (evalExpr fuel (.call teof [.strLit tn n])).run.run σ =
      (.ok (.bool h.rest.isEmpty), { σ with nextId := σ.nextId + 1 }) := by
  have h4 := run_evalEOF 0 teof tn n σ a rest h heof hacts hd hh hm
  rw [eofSt_eq σ a rest hacts hsw] at h4
  exact evalExpr_fuel_mono _ 4 fuel hfuel σ _ _ h4 (fun h => nomatch h)

/-- … in particular the result is the pure layer's: `fstep … (.eof n)` -/
theorem C15_exec_eof_refines (fuel : Nat) (teof tn : Tok) (n : Str) (σ : St) (a : Act) (rest : List Act) (h : Handle)
    (hfuel : 4 ≤ fuel) (heof : teof.val = "EOF".toList)
    (hacts : σ.acts = a :: rest) (hsw : a.switchTok = none) (hd : σ.depth + 1 ≤ σ.depthLimit)
    (hh : FState.handle { fs := σ.fs, handles := σ.handles } n = some h) (hm : h.mode = .read) :
    ∃ b, fstep { fs := σ.fs, handles := σ.handles } (.eof n) = .ok ({ fs := σ.fs, handles := σ.handles }, .bool b) ∧
      (evalExpr fuel (.call teof [.strLit tn n])).run.run σ = (.ok (.bool b), { σ with nextId := σ.nextId + 1 }) ∧
      (b = true ↔ h.rest = []) :=
  ⟨h.rest.isEmpty, C15_eof_exact _ n h hh hm, C15_exec_eof fuel teof tn n σ a rest h hfuel heof hacts hsw hd hh hm,
    by cases h.rest <;> simp⟩

/-- the informal "EOF leaves the state unchanged" does not hold in the model: `nextId` advances -/
theorem C15_exec_eof_not_state_preserving (fuel : Nat) (teof tn : Tok) (n : Str) (σ : St) (a : Act) (rest : List Act) (h : Handle)
    (hfuel : 4 ≤ fuel) (heof : teof.val = "EOF".toList)
    (hacts : σ.acts = a :: rest) (hsw : a.switchTok = none) (hd : σ.depth + 1 ≤ σ.depthLimit)
    (hh : FState.handle { fs := σ.fs, handles := σ.handles } n = some h) (hm : h.mode = .read) :
    ((evalExpr fuel (.call teof [.strLit tn n])).run.run σ).2 ≠ σ := by
  rw [C15_exec_eof fuel teof tn n σ a rest h hfuel heof hacts hsw hd hh hm]
  intro e
  have : σ.nextId + 1 = σ.nextId := congrArg St.nextId e
  omega

/-! ## the counting loop -/

/-- **The loop over any unread text.** `Reads txt L` (`PseudoProofs/ReadLoop.lean`): the text `txt` is consumed by repeated
    `readLineOf` as the lines `L`. On a state where `n` is open FOR READ with unread text `txt`, `line` is a STRING variable and
    `cnt` an INTEGER variable (value `c`) of the current activation — plain variables: not constants, not BYREF formals —, the
    statement ends normally, with any fuel ≥ `L.length + 11` and a step budget of `3 * L.length + 2`; the final state is the
    start state with: `steps` advanced by `3 * L.length + 2`; `nextId` by `L.length + 1` (one per call of `EOF`); the unread
    text of the handle `[]` (`drain`); `line` holding the last line (unchanged if there was none); `cnt` holding
    `c + L.length`. Nothing else has changed: file system, other handles, output, other variables, procedures. -/
theorem C15_exec_read_loop_reads (fuel : Nat) (tw tnot teof tn1 tr tn2 idLine ta tx tp tacc tv t1 : Tok) (n : Str)
    (txt : Str) (L : List Str) (σ : St) (a : Act) (rest : List Act) (h : Handle) (v0 : Str) (c : Int)
    (hfuel : L.length + 11 ≤ fuel) (heof : teof.val = "EOF".toList) (htv : tv.val = tx.val) (hreads : Reads txt L)
    (hacts : σ.acts = a :: rest) (hsw : a.switchTok = none) (hcomp : a.isComp = false) (hd : σ.depth + 1 ≤ σ.depthLimit)
    (hline : HasVar a idLine.val .str (.str v0)) (hcnt : HasVar a tx.val .int (.int c))
    (hh : FState.handle { fs := σ.fs, handles := σ.handles } n = some h) (hm : h.mode = .read) (hrest : h.rest = txt)
    (hc1 : -two63 ≤ c) (hc2 : c + L.length < two63)
    (hbud : σ.steps + (3 * L.length + 2) ≤ σ.stepLimit) :
    (execStmt fuel (C15_countLoop tw tnot teof tn1 tr tn2 idLine ta tx tp tacc tv t1 n)).run.run σ =
      (.ok .none, { σ with steps := σ.steps + (3 * L.length + 2), nextId := σ.nextId + (L.length + 1),
                           handles := drain σ.handles n L,
                           acts := setVar (setVar a idLine.val (.str (L.getLastD v0))) tx.val (.int (c + L.length)) :: rest }) := by
  have hwl := whileLoop_readCount tw tnot teof tn1 tr tn2 idLine ta tx tp tacc tv t1 n heof htv txt L hreads (tickSt σ) a rest h
    v0 c hacts hsw hcomp hd hline hcnt hh hm hrest hc1 hc2 (by show σ.steps + 1 + 3 * L.length + 1 ≤ σ.stepLimit; omega)
  have hfin : countFinal (tickSt σ) a rest n idLine.val tx.val v0 c L =
      { σ with steps := σ.steps + (3 * L.length + 2), nextId := σ.nextId + (L.length + 1), handles := drain σ.handles n L,
               acts := setVar (setVar a idLine.val (.str (L.getLastD v0))) tx.val (.int (c + L.length)) :: rest } := by
    unfold countFinal tickSt
    dsimp only
    rw [show σ.steps + 1 + 3 * L.length + 1 = σ.steps + (3 * L.length + 2) by omega,
      show σ.nextId + L.length + 1 = σ.nextId + (L.length + 1) by omega]
  have hrun : (execStmt ((L.length + 10) + 1) (C15_countLoop tw tnot teof tn1 tr tn2 idLine ta tx tp tacc tv t1 n)).run.run σ =
      (.ok .none, countFinal (tickSt σ) a rest n idLine.val tx.val v0 c L) := by
    unfold C15_countLoop
    unfold eofCond incrStmt at hwl
    rw [execStmt.eq_def]
    dsimp only
    rw [run_bind_ok _ _ _ _ _ (run_tick_ok tw σ (by omega)), run_bind_ok _ _ _ _ _ hwl]
    rfl
  rw [hfin] at hrun
  exact execStmt_fuel_mono _ _ fuel (by omega) σ _ _ hrun (fun h => nomatch h)

theorem C15_handle_drain (hs : List Handle) (n : Str) (L : List Str) (h : Handle)
    (hh : hs.find? (·.name == n) = some h) (hL : L = [] → h.rest = []) :
    (drain hs n L).find? (·.name == n) = some { h with rest := [] } := by
  cases L with
  | nil =>
    have : ({ h with rest := [] } : Handle) = h := by
      have := hL rfl
      cases h; simp only at this; subst this; rfl
    rw [this]; exact hh
  | cons l L => exact find_setRest hs n [] h hh

/-- **C15, complete lines.** The file content is `l₁\n l₂\n … lₖ\n` (no `lᵢ` contains a line break), `n` is open FOR READ with
    all of it unread (or what is left of it: `h.rest = joinLines ls`). The loop
    `WHILE NOT EOF(n) DO READFILE n, line ; cnt <- cnt + 1 ENDWHILE` ends normally; the body has run exactly `ls.length`
    times (`cnt` has grown by `ls.length`, `steps` by `3 * ls.length + 2`); `line` holds the last element of `ls` (its old
    value if `ls = []`: on an empty file the body does not run); the handle has no unread text left; the file system and
    everything else is unchanged (the final state is given exactly). -/
theorem C15_exec_read_loop (fuel : Nat) (tw tnot teof tn1 tr tn2 idLine ta tx tp tacc tv t1 : Tok) (n : Str)
    (ls : List Str) (σ : St) (a : Act) (rest : List Act) (h : Handle) (v0 : Str) (c : Int)
    (hfuel : ls.length + 11 ≤ fuel) (heof : teof.val = "EOF".toList) (htv : tv.val = tx.val)
    (hnl : ∀ l ∈ ls, NoNL l)
    (hacts : σ.acts = a :: rest) (hsw : a.switchTok = none) (hcomp : a.isComp = false) (hd : σ.depth + 1 ≤ σ.depthLimit)
    (hline : HasVar a idLine.val .str (.str v0)) (hcnt : HasVar a tx.val .int (.int c))
    (hh : FState.handle { fs := σ.fs, handles := σ.handles } n = some h) (hm : h.mode = .read)
    (hrest : h.rest = joinLines ls)
    (hc1 : -two63 ≤ c) (hc2 : c + ls.length < two63)
    (hbud : σ.steps + (3 * ls.length + 2) ≤ σ.stepLimit) :
    ∃ a' : Act,
      (execStmt fuel (C15_countLoop tw tnot teof tn1 tr tn2 idLine ta tx tp tacc tv t1 n)).run.run σ =
        (.ok .none, { σ with steps := σ.steps + (3 * ls.length + 2), nextId := σ.nextId + (ls.length + 1),
                             handles := drain σ.handles n ls, acts := a' :: rest }) ∧
      a' = setVar (setVar a idLine.val (.str (ls.getLastD v0))) tx.val (.int (c + ls.length)) ∧
      HasVar a' idLine.val .str (.str (ls.getLastD v0)) ∧ HasVar a' tx.val .int (.int (c + ls.length)) ∧
      FState.handle { fs := σ.fs, handles := drain σ.handles n ls } n = some { h with rest := [] } := by
  have hnames : idLine.val ≠ tx.val := hasVar_ne a _ _ _ _ _ _ hline hcnt (by decide)
  refine ⟨_, C15_exec_read_loop_reads fuel tw tnot teof tn1 tr tn2 idLine ta tx tp tacc tv t1 n _ ls σ a rest h v0 c hfuel heof htv
    (reads_joinLines ls hnl) hacts hsw hcomp hd hline hcnt hh hm hrest hc1 hc2 hbud, rfl, ?_, ?_, ?_⟩
  · exact hasVar_setVar_ne _ _ _ _ _ _ (Ne.symm hnames) (hasVar_setVar_same a _ _ _ _ hline)
  · exact hasVar_setVar_same _ _ _ _ _ (hasVar_setVar_ne a _ _ _ _ _ hnames hcnt)
  · exact C15_handle_drain σ.handles n ls h hh (fun e => by rw [hrest, e]; rfl)

/-- **C15, a last line without a final line break** is still returned, by a round of its own: unread text
    `l₁\n … lₖ\n last` with `last ≠ ""` — `ls.length + 1` rounds, the last value of `line` is `last`. -/
theorem C15_exec_last_line_without_break (fuel : Nat) (tw tnot teof tn1 tr tn2 idLine ta tx tp tacc tv t1 : Tok) (n : Str)
    (ls : List Str) (last : Str) (σ : St) (a : Act) (rest : List Act) (h : Handle) (v0 : Str) (c : Int)
    (hfuel : ls.length + 12 ≤ fuel) (heof : teof.val = "EOF".toList) (htv : tv.val = tx.val)
    (hnl : ∀ l ∈ ls, NoNL l) (hlast : NoNL last) (hne : last ≠ [])
    (hacts : σ.acts = a :: rest) (hsw : a.switchTok = none) (hcomp : a.isComp = false) (hd : σ.depth + 1 ≤ σ.depthLimit)
    (hline : HasVar a idLine.val .str (.str v0)) (hcnt : HasVar a tx.val .int (.int c))
    (hh : FState.handle { fs := σ.fs, handles := σ.handles } n = some h) (hm : h.mode = .read)
    (hrest : h.rest = joinLines ls ++ last)
    (hc1 : -two63 ≤ c) (hc2 : c + (ls.length + 1 : Nat) < two63)
    (hbud : σ.steps + (3 * (ls.length + 1) + 2) ≤ σ.stepLimit) :
    (execStmt fuel (C15_countLoop tw tnot teof tn1 tr tn2 idLine ta tx tp tacc tv t1 n)).run.run σ =
      (.ok .none, { σ with steps := σ.steps + (3 * (ls.length + 1) + 2), nextId := σ.nextId + (ls.length + 1 + 1),
                           handles := setRest σ.handles n [],
                           acts := setVar (setVar a idLine.val (.str last)) tx.val (.int (c + (ls.length + 1 : Nat))) :: rest }) := by
  have hlen : (ls ++ [last]).length = ls.length + 1 := by simp
  have hr := C15_exec_read_loop_reads fuel tw tnot teof tn1 tr tn2 idLine ta tx tp tacc tv t1 n _ (ls ++ [last]) σ a rest h v0 c
    (by rw [hlen]; omega) heof htv (reads_joinLines_last ls last hnl hlast hne) hacts hsw hcomp hd hline hcnt hh hm hrest hc1
    (by rw [hlen]; exact hc2) (by rw [hlen]; exact hbud)
  have hdr : drain σ.handles n (ls ++ [last]) = setRest σ.handles n [] := by
    cases ls <;> rfl
  rw [hlen, hdr, List.getLastD_concat] at hr
  exact hr

/-! ## the printing loop: a trace statement -/

/-- **The printing loop over any unread text**: body `READFILE n, line ; OUTPUT line`. The final state is the start state with
    `steps`, `nextId`, the handle and `line` as for the counting loop, and the output chunks of the lines on top of `σ.out`
    (`out` is kept newest first; `outChunks`). -/
theorem C15_exec_read_loop_reads_output (fuel : Nat) (tw tnot teof tn1 tr tn2 idLine to tacc tv : Tok) (n : Str)
    (txt : Str) (L : List Str) (σ : St) (a : Act) (rest : List Act) (h : Handle) (v0 : Str)
    (hfuel : L.length + 11 ≤ fuel) (heof : teof.val = "EOF".toList) (htv : tv.val = idLine.val) (hreads : Reads txt L)
    (hacts : σ.acts = a :: rest) (hsw : a.switchTok = none) (hd : σ.depth + 1 ≤ σ.depthLimit)
    (hline : HasVar a idLine.val .str (.str v0))
    (hh : FState.handle { fs := σ.fs, handles := σ.handles } n = some h) (hm : h.mode = .read) (hrest : h.rest = txt)
    (hbud : σ.steps + (3 * L.length + 2) ≤ σ.stepLimit) :
    (execStmt fuel (C15_outputLoop tw tnot teof tn1 tr tn2 idLine to tacc tv n)).run.run σ =
      (.ok .none, { σ with steps := σ.steps + (3 * L.length + 2), nextId := σ.nextId + (L.length + 1),
                           handles := drain σ.handles n L,
                           acts := setVar a idLine.val (.str (L.getLastD v0)) :: rest,
                           out := outChunks L σ.out }) := by
  have hwl := whileLoop_readOutput tw tnot teof tn1 tr tn2 idLine to tacc tv n heof htv txt L hreads (tickSt σ) a rest h
    v0 hacts hsw hd hline hh hm hrest (by show σ.steps + 1 + 3 * L.length + 1 ≤ σ.stepLimit; omega)
  have hfin : outputFinal (tickSt σ) a rest n idLine.val v0 L =
      { σ with steps := σ.steps + (3 * L.length + 2), nextId := σ.nextId + (L.length + 1), handles := drain σ.handles n L,
               acts := setVar a idLine.val (.str (L.getLastD v0)) :: rest, out := outChunks L σ.out } := by
    unfold outputFinal tickSt
    dsimp only
    rw [show σ.steps + 1 + 3 * L.length + 1 = σ.steps + (3 * L.length + 2) by omega,
      show σ.nextId + L.length + 1 = σ.nextId + (L.length + 1) by omega]
  have hrun : (execStmt ((L.length + 10) + 1) (C15_outputLoop tw tnot teof tn1 tr tn2 idLine to tacc tv n)).run.run σ =
      (.ok .none, outputFinal (tickSt σ) a rest n idLine.val v0 L) := by
    unfold C15_outputLoop
    unfold eofCond outStmt at hwl
    rw [execStmt.eq_def]
    dsimp only
    rw [run_bind_ok _ _ _ _ _ (run_tick_ok tw σ (by omega)), run_bind_ok _ _ _ _ _ hwl]
    rfl
  rw [hfin] at hrun
  exact execStmt_fuel_mono _ _ fuel (by omega) σ _ _ hrun (fun h => nomatch h)

/-- the text printed (`St.output`: the chunks in order) -/
theorem C15_output_outChunks (σ : St) (L : List Str) (σ' : St) (h : σ'.out = outChunks L σ.out) :
    σ'.output = σ.output ++ joinLines L := by
  unfold St.output
  rw [h]
  exact flatten_outChunks L σ.out

/-- **C15 as a trace statement, complete lines**: `WHILE NOT EOF(n) DO READFILE n, line ; OUTPUT line ENDWHILE` on unread text
    `l₁\n … lₖ\n` prints exactly `l₁\n … lₖ\n` — every line once, in order, nothing else — and ends with no unread text left;
    the file system is unchanged; on an empty file nothing is printed. -/
theorem C15_exec_read_loop_output (fuel : Nat) (tw tnot teof tn1 tr tn2 idLine to tacc tv : Tok) (n : Str)
    (ls : List Str) (σ : St) (a : Act) (rest : List Act) (h : Handle) (v0 : Str)
    (hfuel : ls.length + 11 ≤ fuel) (heof : teof.val = "EOF".toList) (htv : tv.val = idLine.val)
    (hnl : ∀ l ∈ ls, NoNL l)
    (hacts : σ.acts = a :: rest) (hsw : a.switchTok = none) (hd : σ.depth + 1 ≤ σ.depthLimit)
    (hline : HasVar a idLine.val .str (.str v0))
    (hh : FState.handle { fs := σ.fs, handles := σ.handles } n = some h) (hm : h.mode = .read)
    (hrest : h.rest = joinLines ls)
    (hbud : σ.steps + (3 * ls.length + 2) ≤ σ.stepLimit) :
    ∃ σ' : St,
      (execStmt fuel (C15_outputLoop tw tnot teof tn1 tr tn2 idLine to tacc tv n)).run.run σ = (.ok .none, σ') ∧
      σ' = { σ with steps := σ.steps + (3 * ls.length + 2), nextId := σ.nextId + (ls.length + 1),
                    handles := drain σ.handles n ls, acts := setVar a idLine.val (.str (ls.getLastD v0)) :: rest,
                    out := outChunks ls σ.out } ∧
      σ'.output = σ.output ++ joinLines ls ∧ σ'.fs = σ.fs ∧
      FState.handle { fs := σ'.fs, handles := σ'.handles } n = some { h with rest := [] } :=
  ⟨_, C15_exec_read_loop_reads_output fuel tw tnot teof tn1 tr tn2 idLine to tacc tv n _ ls σ a rest h v0 hfuel heof htv
      (reads_joinLines ls hnl) hacts hsw hd hline hh hm hrest hbud, rfl, C15_output_outChunks σ ls _ rfl, rfl,
    C15_handle_drain σ.handles n ls h hh (fun e => by rw [hrest, e]; rfl)⟩

/-- **… and with a last line without a final line break**: that line is printed too (followed by the line break OUTPUT adds) -/
theorem C15_exec_last_line_without_break_output (fuel : Nat) (tw tnot teof tn1 tr tn2 idLine to tacc tv : Tok) (n : Str)
    (ls : List Str) (last : Str) (σ : St) (a : Act) (rest : List Act) (h : Handle) (v0 : Str)
    (hfuel : ls.length + 12 ≤ fuel) (heof : teof.val = "EOF".toList) (htv : tv.val = idLine.val)
    (hnl : ∀ l ∈ ls, NoNL l) (hlast : NoNL last) (hne : last ≠ [])
    (hacts : σ.acts = a :: rest) (hsw : a.switchTok = none) (hd : σ.depth + 1 ≤ σ.depthLimit)
    (hline : HasVar a idLine.val .str (.str v0))
    (hh : FState.handle { fs := σ.fs, handles := σ.handles } n = some h) (hm : h.mode = .read)
    (hrest : h.rest = joinLines ls ++ last)
    (hbud : σ.steps + (3 * (ls.length + 1) + 2) ≤ σ.stepLimit) :
    ∃ σ' : St,
      (execStmt fuel (C15_outputLoop tw tnot teof tn1 tr tn2 idLine to tacc tv n)).run.run σ = (.ok .none, σ') ∧
      σ' = { σ with steps := σ.steps + (3 * (ls.length + 1) + 2), nextId := σ.nextId + (ls.length + 1 + 1),
                    handles := setRest σ.handles n [], acts := setVar a idLine.val (.str last) :: rest,
                    out := outChunks (ls ++ [last]) σ.out } ∧
      σ'.output = σ.output ++ joinLines ls ++ last ++ ['\n'] := by
  have hlen : (ls ++ [last]).length = ls.length + 1 := by simp
  have hr := C15_exec_read_loop_reads_output fuel tw tnot teof tn1 tr tn2 idLine to tacc tv n _ (ls ++ [last]) σ a rest h v0
    (by rw [hlen]; omega) heof htv (reads_joinLines_last ls last hnl hlast hne) hacts hsw hd hline hh hm hrest
    (by rw [hlen]; exact hbud)
  have hdr : drain σ.handles n (ls ++ [last]) = setRest σ.handles n [] := by
    cases ls <;> rfl
  rw [hlen, hdr, List.getLastD_concat] at hr
  refine ⟨_, hr, rfl, ?_⟩
  rw [C15_output_outChunks σ (ls ++ [last]) _ rfl]
  have : ∀ xs : List Str, joinLines (xs ++ [last]) = joinLines xs ++ last ++ ['\n'] := by
    intro xs
    induction xs with
    | nil => simp [joinLines]
    | cons x xs ih => simp [joinLines, ih]
  rw [this, List.append_assoc, List.append_assoc]
  simp

/-- **`line` not declared beforehand** (`lookupVarP σ line = none`: neither the current nor the global activation has such a
    variable): the first READFILE creates the STRING variable at the end of the current activation (`declVar`); on an empty
    file the body does not run and no variable is created. Everything else as in `C15_exec_read_loop_output`. -/
theorem C15_exec_read_loop_output_new (fuel : Nat) (tw tnot teof tn1 tr tn2 idLine to tacc tv : Tok) (n : Str)
    (ls : List Str) (σ : St) (a : Act) (rest : List Act) (h : Handle)
    (hfuel : ls.length + 11 ≤ fuel) (heof : teof.val = "EOF".toList) (htv : tv.val = idLine.val)
    (hnl : ∀ l ∈ ls, NoNL l)
    (hacts : σ.acts = a :: rest) (hsw : a.switchTok = none) (hd : σ.depth + 1 ≤ σ.depthLimit)
    (hlv : lookupVarP σ idLine.val = .ok none)
    (hh : FState.handle { fs := σ.fs, handles := σ.handles } n = some h) (hm : h.mode = .read)
    (hrest : h.rest = joinLines ls)
    (hbud : σ.steps + (3 * ls.length + 2) ≤ σ.stepLimit) :
    ∃ σ' : St,
      (execStmt fuel (C15_outputLoop tw tnot teof tn1 tr tn2 idLine to tacc tv n)).run.run σ = (.ok .none, σ') ∧
      σ' = { σ with steps := σ.steps + (3 * ls.length + 2), nextId := σ.nextId + (ls.length + 1),
                    handles := drain σ.handles n ls,
                    acts := (match ls.getLast? with | some l => declVar a idLine.val l | none => a) :: rest,
                    out := outChunks ls σ.out } ∧
      σ'.output = σ.output ++ joinLines ls := by
  have hwl := whileLoop_readOutput_new tw tnot teof tn1 tr tn2 idLine to tacc tv n heof htv _ ls (reads_joinLines ls hnl)
    (tickSt σ) a rest h hacts hsw hd hlv hh hm hrest (by show σ.steps + 1 + 3 * ls.length + 1 ≤ σ.stepLimit; omega)
  let σ' : St := { σ with steps := σ.steps + (3 * ls.length + 2), nextId := σ.nextId + (ls.length + 1),
                          handles := drain σ.handles n ls,
                          acts := (match ls.getLast? with | some l => declVar a idLine.val l | none => a) :: rest,
                          out := outChunks ls σ.out }
  have hrun : (execStmt ((ls.length + 10) + 1) (C15_outputLoop tw tnot teof tn1 tr tn2 idLine to tacc tv n)).run.run σ =
      (.ok .none, σ') := by
    unfold C15_outputLoop
    unfold eofCond outStmt at hwl
    rw [execStmt.eq_def]
    dsimp only
    rw [run_bind_ok _ _ _ _ _ (run_tick_ok tw σ (by omega)), run_bind_ok _ _ _ _ _ hwl]
    unfold tickSt
    dsimp only
    rw [show σ.steps + 1 + 3 * ls.length + 1 = σ.steps + (3 * ls.length + 2) by omega,
      show σ.nextId + ls.length + 1 = σ.nextId + (ls.length + 1) by omega]
    rfl
  exact ⟨_, execStmt_fuel_mono _ _ fuel (by omega) σ _ _ hrun (fun h => nomatch h), rfl, C15_output_outChunks σ ls _ rfl⟩

/-! ## written, closed, reopened, read back: one block -/

/-- **What was written is what the loop reads.** The block

        OPENFILE n FOR WRITE ; WRITEFILE n, l₁ ; … ; WRITEFILE n, lₖ ; CLOSEFILE n ;
        OPENFILE n FOR READ ; WHILE NOT EOF(n) DO READFILE n, line ; OUTPUT line ENDWHILE

    (`writeSession`, `C16_exec_close_then_read_back`, then the printing loop) ends normally; the file `n` holds exactly
    `l₁\n … lₖ\n`; the loop prints exactly these lines, in order, one per round (`4 * k + 5` steps in all: `k + 3` file
    statements, `3 * k + 2` for the loop); afterwards the READ handle of `n` has no unread text left. -/
theorem C15_exec_write_then_read (f : Nat) (t tw tnot teof tn1 tr tn2 idLine to tacc tv : Tok) (n : Str) (ls : List Str)
    (σ : St) (a : Act) (rest : List Act) (v0 : Str)
    (heof : teof.val = "EOF".toList) (htv : tv.val = idLine.val) (hnl : ∀ l ∈ ls, NoNL l)
    (hclosed : FState.handle { fs := σ.fs, handles := σ.handles } n = none) (hlong : nameTooLong n = false)
    (hnode : FState.node { fs := σ.fs, handles := σ.handles } n = none ∨
      ∃ c, FState.node { fs := σ.fs, handles := σ.handles } n = some (.file c))
    (hpar : parentOk { fs := σ.fs, handles := σ.handles } n = true)
    (hacts : σ.acts = a :: rest) (hsw : a.switchTok = none) (hd : σ.depth + 1 ≤ σ.depthLimit)
    (hline : HasVar a idLine.val .str (.str v0))
    (hb : σ.steps + (4 * ls.length + 5) ≤ σ.stepLimit) :
    ∃ σ' : St,
      (runBlock (f + 2 * ls.length + 15)
          (writeSession t n ls ++
            [.openFile t (.strLit t n) .read, C15_outputLoop tw tnot teof tn1 tr tn2 idLine to tacc tv n])).run.run σ =
        (.ok ⟨⟩, σ') ∧
      σ'.output = σ.output ++ joinLines ls ∧
      FState.node { fs := σ'.fs, handles := σ'.handles } n = some (.file (joinLines ls)) ∧
      FState.handle { fs := σ'.fs, handles := σ'.handles } n = some { name := n, mode := .read, rest := [] } ∧
      σ'.steps = σ.steps + (4 * ls.length + 5) ∧
      σ'.acts = setVar a idLine.val (.str (ls.getLastD v0)) :: rest := by
  obtain ⟨s1, hs1, hn1, hh1⟩ := fsteps_write_session { fs := σ.fs, handles := σ.handles } n ls hclosed hlong hnode hpar
  have hcl1 : s1.handle n = none := by rw [handle_of_handles_eq _ s1 n hh1]; exact hclosed
  have hopen := fstep_open_read s1 n (joinLines ls) hcl1 hn1 hlong
  let s2 : FState := { s1 with handles := s1.handles ++ [{ name := n, mode := .read, rest := joinLines ls }] }
  let ops : List FOp := (FOp.open n .write :: ls.map (FOp.write n) ++ [FOp.close n]) ++ [FOp.open n .read]
  have hsteps : fsteps (fileSt σ) ops = .ok s2 := by
    show fsteps (fileSt σ) (_ ++ _) = _
    rw [fsteps_append]
    have : fsteps (fileSt σ) (FOp.open n .write :: ls.map (FOp.write n) ++ [FOp.close n]) = .ok s1 := hs1
    rw [this]
    simp only [fsteps, hopen]
    rfl
  have hops : ∀ op ∈ ops, IsLitOp op := by
    intro op hop
    simp only [ops, List.cons_append, List.mem_cons, List.mem_append, List.mem_map, List.mem_nil_iff, or_false] at hop
    rcases hop with rfl | (⟨l, _, rfl⟩ | rfl) | rfl <;> exact trivial
  have hlen : ops.length = ls.length + 3 := by simp [ops]
  have hblock : ops.map (litStmt t) ++ [C15_outputLoop tw tnot teof tn1 tr tn2 idLine to tacc tv n] =
      writeSession t n ls ++
        [.openFile t (.strLit t n) .read, C15_outputLoop tw tnot teof tn1 tr tn2 idLine to tacc tv n] := by
    simp [ops, writeSession, litStmt, Function.comp_def]
  have hrun := run_litBlock_append (f + ls.length + 9) t [C15_outputLoop tw tnot teof tn1 tr tn2 idLine to tacc tv n]
    ops σ s2 hops (by rw [hlen]; omega) hsteps
  rw [hlen, hblock] at hrun
  -- the loop, from the state after the file statements
  let σ2 : St := afterSteps σ (ls.length + 3) s2
  have hh2 : FState.handle { fs := σ2.fs, handles := σ2.handles } n =
      some { name := n, mode := .read, rest := joinLines ls } :=
    handle_append_new s1.handles n _ rfl hcl1
  obtain ⟨σ', hloop, hσ', hout, hfs, hh'⟩ :=
    C15_exec_read_loop_output (f + ls.length + 11) tw tnot teof tn1 tr tn2 idLine to tacc tv n ls σ2 a rest _ v0 (by omega)
      heof htv hnl hacts hsw hd hline hh2 rfl rfl (by show σ.steps + (ls.length + 3) + (3 * ls.length + 2) ≤ σ.stepLimit; omega)
  refine ⟨σ', ?_, hout, ?_, hh', ?_, ?_⟩
  · have e : f + 2 * ls.length + 15 = f + ls.length + 9 + (ls.length + 3) + 3 := by omega
    rw [e, hrun]
    show (runBlock ((f + ls.length + 11) + 1) [_]).run.run σ2 = _
    rw [run_runBlock_cons _ _ _ _ _ hloop]
    exact run_runBlock_nil _ _
  · rw [hfs]; exact hn1
  · rw [hσ']
    show σ.steps + (ls.length + 3) + (3 * ls.length + 2) = _
    omega
  · rw [hσ']

/-! ## the ASTs are the parser's; non-vacuity -/

namespace C15ExecEx

def fn : Str := "f.txt".toList

def countSrc : String :=
  "WHILE NOT EOF(\"f.txt\") DO\n  READFILE \"f.txt\", line\n  cnt <- cnt + 1\nENDWHILE\n"

def outputSrc : String :=
  "WHILE NOT EOF(\"f.txt\") DO\n  READFILE \"f.txt\", line\n  OUTPUT line\nENDWHILE\n"

/-- the counting loop with the tokens the lexer gives for `countSrc` -/
def countLoop : Stmt :=
  C15_countLoop ⟨.WHILE, 1, 1, []⟩ ⟨.NOT, 1, 7, []⟩ ⟨.IDENTIFIER, 1, 11, "EOF".toList⟩ ⟨.STRING, 1, 15, fn⟩
    ⟨.READFILE, 2, 3, []⟩ ⟨.STRING, 2, 12, fn⟩ ⟨.IDENTIFIER, 2, 21, "line".toList⟩
    ⟨.ASSIGNMENT, 3, 8, []⟩ ⟨.IDENTIFIER, 3, 3, "cnt".toList⟩ ⟨.PLUS, 3, 14, []⟩ ⟨.IDENTIFIER, 3, 10, "cnt".toList⟩
    ⟨.IDENTIFIER, 3, 10, "cnt".toList⟩ ⟨.INTEGER, 3, 16, ['1']⟩ fn

def outputLoop : Stmt :=
  C15_outputLoop ⟨.WHILE, 1, 1, []⟩ ⟨.NOT, 1, 7, []⟩ ⟨.IDENTIFIER, 1, 11, "EOF".toList⟩ ⟨.STRING, 1, 15, fn⟩
    ⟨.READFILE, 2, 3, []⟩ ⟨.STRING, 2, 12, fn⟩ ⟨.IDENTIFIER, 2, 21, "line".toList⟩
    ⟨.OUTPUT, 3, 3, []⟩ ⟨.IDENTIFIER, 3, 10, "line".toList⟩ ⟨.IDENTIFIER, 3, 10, "line".toList⟩ fn

/-- lexer + parser on a source text -/
def front (src : String) : Option (Block × List Tok) :=
  match lex {} src.toList with
  | .ok toks => (match parse {} toks with | .ok r => some r | .error _ => none)
  | .error _ => none

set_option maxRecDepth 1000000 in
/-- the program text of the counting loop lexes and parses to exactly `[countLoop]`, without warnings -/
theorem C15_exec_parse_count : front countSrc = some ([countLoop], []) := by rfl

set_option maxRecDepth 1000000 in
theorem C15_exec_parse_output : front outputSrc = some ([outputLoop], []) := by rfl

/-- the three-line file "ab", "", "c" -/
def lines3 : List Str := ["ab".toList, [], "c".toList]

def hd0 : Handle := { name := fn, mode := .read, rest := "ab\n\nc\n".toList }

def act0 : Act :=
  { id := 0, name := "Program".toList,
    vars := [{ name := "line".toList, ty := .str, val := .str "old".toList }, { name := "cnt".toList, ty := .int, val := .int 40 }] }

/-- `f.txt` holds the three lines and is open FOR READ, nothing read yet; `line = "old"`, `cnt = 40` -/
def st0 : St :=
  { acts := [act0], fs := [(fn, .file "ab\n\nc\n".toList)], handles := [hd0], out := ["x".toList] }

/-- the final state according to `C15_exec_read_loop`: 11 steps, 4 activation numbers, no unread text, `line = "c"`, `cnt = 43` -/
def st1 : St :=
  { st0 with steps := 11, nextId := 5, handles := [{ hd0 with rest := [] }],
             acts := [{ act0 with vars := [{ name := "line".toList, ty := .str, val := .str "c".toList },
                                           { name := "cnt".toList, ty := .int, val := .int 43 }] }] }

theorem hline0 : HasVar act0 "line".toList .str (.str "old".toList) := ⟨_, rfl, rfl, rfl, rfl, rfl⟩
theorem hcnt0 : HasVar act0 "cnt".toList .int (.int 40) := ⟨_, rfl, rfl, rfl, rfl, rfl⟩

instance (l : Str) : Decidable (NoNL l) := by unfold NoNL; exact inferInstance

/-- agreement of two states on everything the loop can touch: counters, file component, input, output, definitions (by
    number), and the activations (identity, STRING / INTEGER / BOOLEAN variables by value, number of arrays) -/
def valEq : Val → Val → Bool
  | .int a, .int b => a == b
  | .str a, .str b => a == b
  | .bool a, .bool b => a == b
  | _, _ => false
def slotEq (s t : Slot) : Bool := s.name == t.name && s.ty == t.ty && s.isConst == t.isConst && valEq s.val t.val && s.ref == t.ref
def listEq {α} (eq : α → α → Bool) : List α → List α → Bool
  | [], [] => true
  | x :: xs, y :: ys => eq x y && listEq eq xs ys
  | _, _ => false
def actEq (a b : Act) : Bool :=
  a.id == b.id && a.name == b.name && listEq slotEq a.vars b.vars && a.arrs.length == b.arrs.length &&
  a.switchTok == b.switchTok && a.isComp == b.isComp && a.isFn == b.isFn
def stEq (s t : St) : Bool :=
  listEq actEq s.acts t.acts && s.nextId == t.nextId && s.procs.length == t.procs.length && s.funs.length == t.funs.length &&
  s.fs == t.fs && s.handles == t.handles && s.stdin == t.stdin && s.stdinEof == t.stdinEof && s.out == t.out &&
  s.steps == t.steps && s.stepLimit == t.stepLimit && s.depth == t.depth && s.depthLimit == t.depthLimit

def isNone : Except Stop Val → Bool
  | .ok .none => true
  | _ => false

/-- the run, computed by the kernel from the model (fuel 14 = `ls.length + 11`): it ends normally in `st1` -/
theorem run_computed : isNone ((execStmt 14 countLoop).run.run st0).1 = true ∧
    stEq ((execStmt 14 countLoop).run.run st0).2 st1 = true := by decide +kernel

/-- the run, according to the theorem -/
theorem run_by_theorem : ∃ a',
    (execStmt 14 countLoop).run.run st0 =
      (.ok .none, { st0 with steps := st0.steps + (3 * lines3.length + 2), nextId := st0.nextId + (lines3.length + 1),
                             handles := drain st0.handles fn lines3, acts := a' :: [] }) ∧
    a' = setVar (setVar act0 "line".toList (.str (lines3.getLastD "old".toList))) "cnt".toList (.int (40 + lines3.length)) ∧
    HasVar a' "line".toList .str (.str (lines3.getLastD "old".toList)) ∧ HasVar a' "cnt".toList .int (.int (40 + lines3.length)) ∧
    FState.handle { fs := st0.fs, handles := drain st0.handles fn lines3 } fn = some { hd0 with rest := [] } :=
  C15_exec_read_loop 14 _ _ _ _ _ _ _ _ _ _ _ _ _ fn lines3 st0 act0 [] hd0 "old".toList 40 (by decide) rfl rfl
    (by decide) rfl rfl rfl (by decide) hline0 hcnt0 rfl rfl (by decide) (by decide) (by decide) (by decide)

/-- … and the two agree -/
example : ({ st0 with steps := st0.steps + (3 * lines3.length + 2), nextId := st0.nextId + (lines3.length + 1),
                      handles := drain st0.handles fn lines3,
                      acts := [setVar (setVar act0 "line".toList (.str (lines3.getLastD "old".toList))) "cnt".toList
                        (.int (40 + lines3.length))] } : St) = st1 := by rfl

/-- the printing loop on the same state prints the three lines after what was printed before -/
example : ((execStmt 14 outputLoop).run.run st0).2.output = "xab\n\nc\n".toList := by decide +kernel
example : ∃ σ', (execStmt 14 outputLoop).run.run st0 = (.ok .none, σ') ∧ σ'.output = st0.output ++ joinLines lines3 := by
  obtain ⟨σ', h1, _, h3, _⟩ := C15_exec_read_loop_output 14 ⟨.WHILE, 1, 1, []⟩ ⟨.NOT, 1, 7, []⟩ ⟨.IDENTIFIER, 1, 11, "EOF".toList⟩
    ⟨.STRING, 1, 15, fn⟩ ⟨.READFILE, 2, 3, []⟩ ⟨.STRING, 2, 12, fn⟩ ⟨.IDENTIFIER, 2, 21, "line".toList⟩
    ⟨.OUTPUT, 3, 3, []⟩ ⟨.IDENTIFIER, 3, 10, "line".toList⟩ ⟨.IDENTIFIER, 3, 10, "line".toList⟩ fn lines3 st0 act0 [] hd0
    "old".toList (by decide) rfl rfl (by decide) rfl rfl (by decide) hline0 rfl rfl (by decide) (by decide)
  exact ⟨σ', h1, h3⟩

/-- a file without a final line break: "ab\nc" — two rounds, the last value is "c" -/
def st0' : St := { st0 with fs := [(fn, .file "ab\nc".toList)], handles := [{ hd0 with rest := "ab\nc".toList }] }
def st1' : St :=
  { st0' with steps := 8, nextId := 4, handles := [{ hd0 with rest := [] }],
              acts := [{ act0 with vars := [{ name := "line".toList, ty := .str, val := .str "c".toList },
                                            { name := "cnt".toList, ty := .int, val := .int 42 }] }] }
example : isNone ((execStmt 14 countLoop).run.run st0').1 = true ∧
    stEq ((execStmt 14 countLoop).run.run st0').2 st1' = true := by decide +kernel
/-- … as `C15_exec_last_line_without_break` says (`ls = ["ab"]`, `last = "c"`) -/
example : (execStmt 14 countLoop).run.run st0' =
    (.ok .none, { st0' with steps := 8, nextId := 4, handles := setRest st0'.handles fn [],
                            acts := [setVar (setVar act0 "line".toList (.str "c".toList)) "cnt".toList (.int 42)] }) :=
  C15_exec_last_line_without_break 14 _ _ _ _ _ _ _ _ _ _ _ _ _ fn ["ab".toList] "c".toList st0' act0 [] _ "old".toList 40
    (by decide) rfl rfl (by decide) (by decide) (by decide) rfl rfl rfl (by decide) hline0 hcnt0 rfl rfl (by decide)
    (by decide) (by decide) (by decide)

/-- `EOF` on the fresh handle is FALSE, on a drained handle TRUE; the state differs from the start state in `nextId` only -/
example : (evalExpr 4 (.call ⟨.IDENTIFIER, 1, 11, "EOF".toList⟩ [.strLit ⟨.STRING, 1, 15, fn⟩ fn])).run.run st0 =
    (.ok (.bool false), { st0 with nextId := 2 }) :=
  C15_exec_eof 4 _ _ fn st0 act0 [] hd0 (by decide) rfl rfl rfl (by decide) rfl rfl
example : (evalExpr 4 (.call ⟨.IDENTIFIER, 1, 11, "EOF".toList⟩ [.strLit ⟨.STRING, 1, 15, fn⟩ fn])).run.run st1 =
    (.ok (.bool true), { st1 with nextId := 6 }) :=
  C15_exec_eof 4 _ _ fn st1 _ [] { hd0 with rest := [] } (by decide) rfl rfl rfl (by decide) rfl rfl

/-- `line` not declared: the variable is created by the first READFILE and ends up holding "c" -/
def stNoLine : St := { st0 with acts := [{ act0 with vars := [{ name := "cnt".toList, ty := .int, val := .int 40 }] }] }
example : ∃ σ', (execStmt 14 outputLoop).run.run stNoLine = (.ok .none, σ') ∧
    σ'.acts = [{ act0 with vars := [{ name := "cnt".toList, ty := .int, val := .int 40 },
                                    { name := "line".toList, ty := .str, val := .str "c".toList }] }] ∧
    σ'.output = "xab\n\nc\n".toList := by
  obtain ⟨σ', h1, h2, h3⟩ := C15_exec_read_loop_output_new 14 ⟨.WHILE, 1, 1, []⟩ ⟨.NOT, 1, 7, []⟩
    ⟨.IDENTIFIER, 1, 11, "EOF".toList⟩ ⟨.STRING, 1, 15, fn⟩ ⟨.READFILE, 2, 3, []⟩ ⟨.STRING, 2, 12, fn⟩
    ⟨.IDENTIFIER, 2, 21, "line".toList⟩ ⟨.OUTPUT, 3, 3, []⟩ ⟨.IDENTIFIER, 3, 10, "line".toList⟩
    ⟨.IDENTIFIER, 3, 10, "line".toList⟩ fn lines3 stNoLine _ [] hd0 (by decide) rfl rfl (by decide) rfl rfl (by decide)
    (by rfl) rfl rfl (by decide) (by decide)
  refine ⟨σ', h1, ?_, ?_⟩
  · rw [h2]; rfl
  · rw [h3]; decide

/-- write session, reopen, printing loop as ONE block on a state without the file: hypotheses of
    `C15_exec_write_then_read` hold, and the kernel computes the same output -/
def tW : Tok := ⟨.IDENTIFIER, 9, 1, []⟩
def stW : St := { acts := [act0], out := ["x".toList] }
def progW : Block := writeSession tW fn lines3 ++ [.openFile tW (.strLit tW fn) .read, outputLoop]
example : ∃ σ', (runBlock 21 progW).run.run stW = (.ok ⟨⟩, σ') ∧ σ'.output = "xab\n\nc\n".toList ∧
    FState.node { fs := σ'.fs, handles := σ'.handles } fn = some (.file "ab\n\nc\n".toList) ∧ σ'.steps = 17 := by
  obtain ⟨σ', h1, h2, h3, _, h5, _⟩ := C15_exec_write_then_read 0 tW ⟨.WHILE, 1, 1, []⟩ ⟨.NOT, 1, 7, []⟩
    ⟨.IDENTIFIER, 1, 11, "EOF".toList⟩ ⟨.STRING, 1, 15, fn⟩ ⟨.READFILE, 2, 3, []⟩ ⟨.STRING, 2, 12, fn⟩
    ⟨.IDENTIFIER, 2, 21, "line".toList⟩ ⟨.OUTPUT, 3, 3, []⟩ ⟨.IDENTIFIER, 3, 10, "line".toList⟩
    ⟨.IDENTIFIER, 3, 10, "line".toList⟩ fn lines3 stW act0 [] "old".toList rfl rfl (by decide) (by decide) (by decide)
    (Or.inl (by decide)) (by decide) rfl rfl (by decide) hline0 (by decide)
  refine ⟨σ', h1, ?_, ?_, ?_⟩
  · rw [h2]; decide
  · rw [h3]; decide
  · rw [h5]; decide
example : ((runBlock 21 progW).run.run stW).2.output = "xab\n\nc\n".toList ∧ ((runBlock 21 progW).run.run stW).2.steps = 17 := by
  decide +kernel

end C15ExecEx

end Pseudo
