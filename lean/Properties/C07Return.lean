import PseudoProofs.RecordReturnSkel
import Properties.C07Exec
import Properties.C04Return
/-!
# C07: a record returned from a function is a copy — for EVERY function body

`Properties/C07Exec.lean` (`C07_exec_return_copy`) proves the RETURN channel for a parameterless function whose body is
the one statement `RETURN e` with a pure `e`.  Here the body is ANY block and the parameters are any list: the
theorems combine

* the RETURN protocol for every body (`Properties/C04Return.lean`, `C04_ret_function_yields_return`: a call that yields
  a value yields exactly the — implicitly cast — value of the RETURN statement that ended the body),
* the new invariant `RecordReturn.sk_all` (`PseudoProofs/RecordReturnSkel.lean`): whatever the evaluator runs, every
  live activation keeps, name by name, its variable declarations (declared type, BYREF alias or not, constant or not);
  only the innermost one may get new variables.  Hence the target `x` of `x <- F(args)` is, after the call, still the
  plain record variable it was before — whatever the body did,
* the location lemmas of `Properties/C07Copy.lean` (`writeLoc` addresses one path of one root variable).

**The call prefix** is given as in `C04_ret_function_yields_return` / `CallLemmas.run_callFun_user`: the arguments
evaluate (from `σ`) to `vals`, leaving `σ1`; they bind to `slots`, leaving `σ2` (for pure arguments and BYVAL
parameters `σ1 = σ2 = σ`); the body runs in `calleeSt (funAct fd slots) (setSwitch σ2 cur.id t)`, the new activation
has the id `σ2.nextId`.  Nothing is assumed about the body or its run.

**Theorems.** `C07_return_call_keeps_variables` (the caller's variables after any call), `C07_return_copy` (main),
`C07_return_copy_of_body_run` (hypothesis on the body's run instead of the call), `C07_return_copy_pure_args` (pure
arguments, BYVAL parameters: all hypotheses in the caller's state), `C07_return_copy_independent` (later writes),
`C07_byval_any_body_partial` (BYVAL channel, any parameter list, any code before the write).

**Restrictions.** The target of the assignment is a plain record variable `x` (`HasVar`: of the current or the global
activation, not a BYREF formal); a target `w.inner <- F()` / `arr[i] <- F()` is not treated here (the stores themselves
are `C07_exec_field_copies` / `C07_exec_elem_copies` in `C07Exec.lean`).  Paths contain no pointer dereference.
-/
namespace Pseudo

open ArrayLemmas C07Copy CallLemmas RecordLemmas RecordReturn

/-! ## 1. the call leaves the declarations of the caller's variables alone -/

/-- the state after a user function call that yielded a value: every activation that existed when the body started
    has the declarations it had -/
theorem C07.return_call_sim (f : Nat) (t : Tok) (body : Block) (σ2 σ4 : St) (mk : Nat → Act) (callerId : Nat)
    (hrun : ((runBlock f body).run.run (calleeSt mk (setSwitch σ2 callerId t))).2 = σ4) :
    ActsSim σ2.acts (clearSwitch (decDepth (popSt σ4)) callerId).acts := by
  have h0 := body_run_sim f body mk (setSwitch σ2 callerId t)
  rw [hrun] at h0
  have h1 : ActsSim σ2.acts (setSwitch σ2 callerId t).acts :=
    actsSim_updSt σ2 callerId _ (asim_meta _ fun _ => ⟨rfl, rfl⟩)
  have h2 : ActsSim (popSt σ4).acts (clearSwitch (decDepth (popSt σ4)) callerId).acts :=
    actsSim_updSt (decDepth (popSt σ4)) callerId _ (asim_meta _ fun _ => ⟨rfl, rfl⟩)
  exact (h1.trans h0).trans h2

/-- **Whatever a function body does, the caller's plain variables stay the plain variables they were.**  Any user
    function, any parameters, any body; the call prefix as described in the header.  If `x` denotes, when the body
    starts (`σ2`), a plain variable of activation `id` with declared type `ty` (`HasVar`), then in the state `σ₁` in
    which the call has yielded a value the name `x` denotes the same variable: same activation, same declared type,
    not a BYREF alias, not a constant (the value may have been changed by the body: `x` may be global). -/
theorem C07_return_call_keeps_variables (f : Nat) (t : Tok) (args : List Expr) (σ σ1 σ2 σ₁ : St) (fd : FunDef)
    (body : Block) (defTok : Tok) (vals : List Val) (cur : Act) (rest : List Act) (slots : List Slot) (v : Val)
    (hfd : funLookup σ t.val = some fd) (hbody : fd.body = .user body defTok)
    (hargs : (evalArgs f args []).run.run σ = (.ok vals, σ1))
    (hlen : vals.length = fd.params.length)
    (hdepth : σ1.depth + 1 ≤ σ1.depthLimit)
    (hcur : σ1.acts = cur :: rest)
    (hbind : (bindParams f t fd.params args vals []).run.run σ1 = (.ok slots, σ2))
    (hcall : (callFun (f+1) t args).run.run σ = (.ok v, σ₁))
    (x : Str) (id : Nat) (ty : Ty) (vx : Val) (hx : HasVar σ2 x id ty vx) :
    ∃ vx', HasVar σ₁ x id ty vx' := by
  obtain ⟨σ4, a, rest4, hrun, _, _, _, _, hσ₁, _⟩ :=
    (C04_ret_function_yields_return f t args σ σ1 σ2 fd body defTok vals cur rest slots hfd hbody hargs hlen hdepth hcur
      hbind).1 v σ₁ hcall
  have hsim := C07.return_call_sim f t body σ2 σ4 (funAct fd slots) cur.id (by rw [hrun])
  rw [← hσ₁] at hsim
  exact hasVar_of_actsSim hsim hx

/-! ## 2. `x <- F(args)` stores the returned record in `x` -/

/-- **C07 (a record returned from a function is a copy) — any body, any parameters.**

    `F` is a user function declared `RETURNS T` (`T` a record type) with any parameter list and ANY body; the call
    prefix is as described in the header (`hfd` … `hbind`).  `x` (token `bt`) is a record variable of type `T` in the
    state `σ2` in which the body starts (`hb`; a variable of the caller or a global one).  The only hypothesis about
    the run is `hcall`: the call `F(args)` yields a value `v` (final state `σ₁`).  Then

    1. the body's run ended with the RETURN signal, raised by a statement `RETURN e` (executed in a state `σa` of the
       body's run) whose expression `e` evaluated to exactly `v` (leaving `σb`) — `e` is any expression: a local record
       variable of the function, a global one, a field, an array element, another call —, and `v` is a record of type
       `T`;
    2. the assignment `x <- F(args)` ends normally (there is no type mismatch to fear); in its final state `σ'` the
       variable `x` holds `v`: every path under `x` — nested records, array members, their elements — reads the
       corresponding part of `v`;
    3. every location with a root other than `x` reads in `σ'` what it read when the call returned (`σ₁`), and every
       location outside the function's own activation (id `σ2.nextId`, gone after the call) reads in `σ₁` what it
       read when the RETURN expression had been evaluated (`σb`): in particular the SOURCE of the returned record, if
       it still exists after the call (a global record, an element of a global array, a record of the caller passed
       BYREF), is not touched by the assignment.

    Why the hypotheses: `hfd`/`hbody`/`hret` name the function and its return type; `hargs`/`hlen`/`hdepth`/`hcur`/
    `hbind` are the deterministic call prefix (they only name the intermediate states); `hb` says what `x` is;
    `hcall` excludes the runs in which the call itself ends in a runtime error (then nothing is assigned). -/
theorem C07_return_copy (f : Nat) (tA bt t : Tok) (args : List Expr) (σ σ1 σ2 σ₁ : St) (fd : FunDef) (body : Block)
    (defTok : Tok) (vals : List Val) (cur : Act) (rest : List Act) (slots : List Slot) (idb : Nat) (T : Str)
    (vb v : Val)
    (hfd : funLookup σ t.val = some fd) (hbody : fd.body = .user body defTok) (hret : fd.ret = .comp T)
    (hargs : (evalArgs f args []).run.run σ = (.ok vals, σ1))
    (hlen : vals.length = fd.params.length)
    (hdepth : σ1.depth + 1 ≤ σ1.depthLimit)
    (hcur : σ1.acts = cur :: rest)
    (hbind : (bindParams f t fd.params args vals []).run.run σ1 = (.ok slots, σ2))
    (hb : HasVar σ2 bt.val idb (.comp T) vb)
    (hcall : (callFun (f+1) t args).run.run σ = (.ok v, σ₁)) :
    ∃ fr rt e σa σb σ4 σ',
      (runBlock f body).run.run (calleeSt (funAct fd slots) (setSwitch σ2 cur.id t)) = (.error .ret, σ4) ∧
      (execStmt (fr+1) (.ret rt e)).run.run σa = (.error .ret, σ4) ∧
      (evalExpr fr e).run.run (tickSt σa) = (.ok v, σb) ∧
      v.ty = .comp T ∧
      (execAssign (f+3) tA (.var bt) (.call t args)).run.run σ = (.ok ⟨⟩, σ') ∧
      HasVar σ' bt.val idb (.comp T) v ∧
      (∀ p, readLocP σ' ⟨idb, false, bt.val, p⟩ = pathRead v p) ∧
      (∀ l', DiffRoot (varLoc idb bt.val) l' → readLocP σ' l' = readLocP σ₁ l') ∧
      (∀ l, l.act ≠ σ2.nextId → readLocP σ₁ l = readLocP σb l) := by
  obtain ⟨σ4, a, rest4, hrun, hacts4, hida, _, hvty, hσ₁, fr, rt, e, σa, σb, w, hst, he, hvw, hσ4⟩ :=
    (C04_ret_function_yields_return f t args σ σ1 σ2 fd body defTok vals cur rest slots hfd hbody hargs hlen hdepth hcur
      hbind).1 v σ₁ hcall
  rw [hret] at hvty hvw
  rw [implicitCast_comp] at hvw
  subst hvw
  -- `x` after the call
  obtain ⟨vb', hb₁⟩ := C07_return_call_keeps_variables f t args σ σ1 σ2 σ₁ fd body defTok vals cur rest slots v hfd hbody
    hargs hlen hdepth hcur hbind hcall bt.val idb (.comp T) vb hb
  -- the assignment
  have hne : σ.acts ≠ [] := by
    intro h0
    have h := (((sk_all f).evalArgs args []).run σ).1
    rw [hargs] at h
    unfold RSk at h
    rw [h0, hcur] at h
    exact h
  have heval : (evalExpr (f+2) (.call t args)).run.run σ = (.ok v, σ₁) := by
    rw [evalExpr_call]; exact hcall
  have hrunA : (execAssign (f+3) tA (.var bt) (.call t args)).run.run σ =
      (.ok ⟨⟩, updSt σ₁ idb (writeF (varLoc idb bt.val) v)) := by
    rw [run_execAssign_eval σ σ₁ tA _ _ v (f+2) hne heval,
      run_assignTail_resolved σ₁ tA _ v (varHolder idb bt.val (.comp T)) (f+2)
        (run_resolveRef_hasVar σ₁ bt idb (.comp T) (f+1) hb₁.resolves) rfl]
    have hc : locConstP σ₁ (varHolder idb bt.val (.comp T)).loc = false := hb₁.notConst
    have hty : ((implicitCast (.comp T) v).ty != .comp T) = false := by rw [implicitCast_comp]; simp [hvty]
    simp only [hc, hty, Bool.false_eq_true, if_false]
    rw [implicitCast_comp]
    exact run_writeLoc_path σ₁ tA idb false bt.val [] vb' _ _ hb₁.reads hb₁.notConst rfl
  have hb' := hb₁.write_same v
  refine ⟨fr, rt, e, σa, σb, σ4, _, hrun, hst, he, hvty, hrunA, hb',
    fun p => readLocP_path _ idb false bt.val v p hb'.reads, ?_, ?_⟩
  · intro l' hd
    exact readLocP_updSt_writeF_other σ₁ (varLoc idb bt.val) l' _ hd
  · intro l hl
    rw [hσ₁, readLocP_clearSwitch, readLocP_congr (popSt σ4) (decDepth (popSt σ4)) l rfl,
      readLocP_popSt σ4 a rest4 l hacts4 (by rw [hida]; exact hl), hσ4]
    exact readLocP_meta σb _ _ l fun _ => ⟨rfl, rfl, rfl⟩

/-- … the same with the hypothesis on the body instead of on the call: the body's run ends with the RETURN signal
    (in `σ4`).  Then the call yields a value and everything of `C07_return_copy` holds. -/
theorem C07_return_copy_of_body_run (f : Nat) (tA bt t : Tok) (args : List Expr) (σ σ1 σ2 σ4 : St) (fd : FunDef)
    (body : Block) (defTok : Tok) (vals : List Val) (cur : Act) (rest : List Act) (slots : List Slot) (idb : Nat)
    (T : Str) (vb : Val)
    (hfd : funLookup σ t.val = some fd) (hbody : fd.body = .user body defTok) (hret : fd.ret = .comp T)
    (hargs : (evalArgs f args []).run.run σ = (.ok vals, σ1))
    (hlen : vals.length = fd.params.length)
    (hdepth : σ1.depth + 1 ≤ σ1.depthLimit)
    (hcur : σ1.acts = cur :: rest)
    (hbind : (bindParams f t fd.params args vals []).run.run σ1 = (.ok slots, σ2))
    (hb : HasVar σ2 bt.val idb (.comp T) vb)
    (hrun : (runBlock f body).run.run (calleeSt (funAct fd slots) (setSwitch σ2 cur.id t)) = (.error .ret, σ4)) :
    ∃ v fr rt e σa σb σ',
      (execStmt (fr+1) (.ret rt e)).run.run σa = (.error .ret, σ4) ∧
      (evalExpr fr e).run.run (tickSt σa) = (.ok v, σb) ∧
      v.ty = .comp T ∧
      (callFun (f+1) t args).run.run σ = (.ok v, clearSwitch (decDepth (popSt σ4)) cur.id) ∧
      (execAssign (f+3) tA (.var bt) (.call t args)).run.run σ = (.ok ⟨⟩, σ') ∧
      HasVar σ' bt.val idb (.comp T) v ∧
      (∀ p, readLocP σ' ⟨idb, false, bt.val, p⟩ = pathRead v p) ∧
      (∀ l', DiffRoot (varLoc idb bt.val) l' → l'.act ≠ σ2.nextId → readLocP σ' l' = readLocP σb l') := by
  obtain ⟨a, rest4, v, _, _, _, _, hcall, _⟩ :=
    (C04_ret_body_outcome f t args σ σ1 σ2 fd body defTok vals cur rest slots hfd hbody hargs hlen hdepth hcur hbind σ4).1 hrun
  obtain ⟨fr, rt, e, σa, σb, σ4', σ', hrun', hst, he, hvty, hA, hb', hp, hd1, hd2⟩ :=
    C07_return_copy f tA bt t args σ σ1 σ2 _ fd body defTok vals cur rest slots idb T vb v hfd hbody hret hargs hlen hdepth
      hcur hbind hb hcall
  rw [hrun] at hrun'
  have h44 : σ4 = σ4' := by injection hrun' with _ h
  subst h44
  exact ⟨v, fr, rt, e, σa, σb, σ', hst, he, hvty, hcall, hA, hb', hp, fun l' hd hl => (hd1 l' hd).trans (hd2 l' hl)⟩

/-- one value per parameter -/
theorem C07.castsOK_length : ∀ (ps : List (Str × Ty × Bool)) (vs : List Val), C04.CastsOK ps vs → vs.length = ps.length
  | [], [], _ => rfl
  | [], _ :: _, h => h.elim
  | _ :: _, [], h => h.elim
  | (_, _, _) :: ps, _ :: vs, h => by
    simp only [List.length_cons, C07.castsOK_length ps vs h.2.2]

/-- **C07 (a record returned from a function is a copy) — any body, pure arguments, BYVAL parameters: everything
    stated in the state `σ` of the caller.**  `F` is a user function `RETURNS T` with any number of BYVAL parameters and
    ANY body; the arguments are pure expressions (variables, literals, fields … : `PureAll`) whose values fit the
    parameter types (`C04.CastsOK`); `x` is a record variable of type `T` in `σ`.  If the call `F(args)` yields a value
    `v` then: the body ended with a `RETURN e` whose `e` evaluated to `v`, a record of type `T`; `x <- F(args)` ends
    normally and `x` then holds `v` at every path; every location with another root reads what it read when the call
    returned, and every location outside the function's activation reads then what it read when `e` had been
    evaluated (the source of the returned record, if it still exists, included).
    (`C07_return_copy` with the call prefix discharged: for such arguments and parameters evaluating and binding
    leave the state as it is.) -/
theorem C07_return_copy_pure_args (f₀ f : Nat) (tA bt t : Tok) (args : List Expr) (σ σ₁ : St) (fd : FunDef) (body : Block)
    (defTok : Tok) (vals : List Val) (cur : Act) (rest : List Act) (idb : Nat) (T : Str) (vb v : Val)
    (hfd : funLookup σ t.val = some fd) (hbody : fd.body = .user body defTok) (hret : fd.ret = .comp T)
    (hpure : PureAll σ f₀ args vals) (hcasts : C04.CastsOK fd.params vals)
    (hdepth : σ.depth + 1 ≤ σ.depthLimit) (hcur : σ.acts = cur :: rest)
    (hb : HasVar σ bt.val idb (.comp T) vb)
    (hf : f₀ + args.length + 1 ≤ f) (hf' : fd.params.length + 1 ≤ f)
    (hcall : (callFun (f+1) t args).run.run σ = (.ok v, σ₁)) :
    ∃ fr rt e σa σb σ4 σ',
      (runBlock f body).run.run (calleeSt (funAct fd (C04.byvalSlots fd.params vals)) (setSwitch σ cur.id t)) = (.error .ret, σ4) ∧
      (execStmt (fr+1) (.ret rt e)).run.run σa = (.error .ret, σ4) ∧
      (evalExpr fr e).run.run (tickSt σa) = (.ok v, σb) ∧
      v.ty = .comp T ∧
      (execAssign (f+3) tA (.var bt) (.call t args)).run.run σ = (.ok ⟨⟩, σ') ∧
      HasVar σ' bt.val idb (.comp T) v ∧
      (∀ p, readLocP σ' ⟨idb, false, bt.val, p⟩ = pathRead v p) ∧
      (∀ l', DiffRoot (varLoc idb bt.val) l' → readLocP σ' l' = readLocP σ₁ l') ∧
      (∀ l, l.act ≠ σ.nextId → readLocP σ₁ l = readLocP σb l) := by
  have hlen := C07.castsOK_length fd.params vals hcasts
  have hargs : (evalArgs f args []).run.run σ = (.ok vals, σ) := by
    have := run_evalArgs_pure σ f₀ args vals [] f hpure hf
    simpa using this
  have hbind : (bindParams f t fd.params args vals []).run.run σ = (.ok (C04.byvalSlots fd.params vals), σ) := by
    have := C04_exec_bind_byval_all t fd.params args vals [] f σ hcasts hpure.length_eq hf'
    simpa using this
  obtain ⟨fr, rt, e, σa, σb, σ4, σ', hrun, hst, he, hvty, hA, hb', hp, hd1, hd2⟩ :=
    C07_return_copy f tA bt t args σ σ σ σ₁ fd body defTok vals cur rest (C04.byvalSlots fd.params vals) idb T vb v
      hfd hbody hret hargs hlen hdepth hcur hbind hb hcall
  exact ⟨fr, rt, e, σa, σb, σ4, σ', hrun, hst, he, hvty, hA, hb', hp, hd1, hd2⟩

/-! ## 3. afterwards the copy and its source are independent -/

/-- **C07 (the returned copy is independent of its source).**  Hypotheses as in `C07_return_copy`.  In the final
    state `σ'` of `x <- F(args)`, where every path under `x` reads the corresponding part of the returned record `v`:

    * (a) any later successful write (`writeLoc`, the only operation that changes a stored value) to a location under
      `x` — any path, any depth — leaves every location with another root as it is: the source of the returned
      record (a global record, an element of a global array …) and everything else;
    * (b) any later successful write to a location with a root other than `x` — e.g. anywhere in the source — leaves
      every path under `x` reading the corresponding part of `v`;
    * (c) the same for a later write INSIDE `x` at a path disjoint from the path read (`C07_write_disjoint_path`):
      a write at `x.r.s₁.q₁` does not change what `x.r.s₂.q₂` reads when the two paths part (`s₁ ≠ s₂`) after a common
      prefix `r`: members of the copy are independent of each other, at every depth;
    * (d) at the level of statements: any later assignment statement `r <- rhs` whose target is rooted at `x`
      (`x.f`, `x.g.h`, `x.xs[i]`, … pure index expressions, pure right-hand side), however it ends, leaves every
      location with another root as it is. -/
theorem C07_return_copy_independent (f : Nat) (tA bt t : Tok) (args : List Expr) (σ σ1 σ2 σ₁ : St) (fd : FunDef)
    (body : Block) (defTok : Tok) (vals : List Val) (cur : Act) (rest : List Act) (slots : List Slot) (idb : Nat)
    (T : Str) (vb v : Val)
    (hfd : funLookup σ t.val = some fd) (hbody : fd.body = .user body defTok) (hret : fd.ret = .comp T)
    (hargs : (evalArgs f args []).run.run σ = (.ok vals, σ1))
    (hlen : vals.length = fd.params.length)
    (hdepth : σ1.depth + 1 ≤ σ1.depthLimit)
    (hcur : σ1.acts = cur :: rest)
    (hbind : (bindParams f t fd.params args vals []).run.run σ1 = (.ok slots, σ2))
    (hb : HasVar σ2 bt.val idb (.comp T) vb)
    (hcall : (callFun (f+1) t args).run.run σ = (.ok v, σ₁)) :
    ∃ σ', (execAssign (f+3) tA (.var bt) (.call t args)).run.run σ = (.ok ⟨⟩, σ') ∧
      (∀ p, readLocP σ' ⟨idb, false, bt.val, p⟩ = pathRead v p) ∧
      (∀ (t₂ : Tok) (l : Loc) (w : Val) (σ₂ : St), SameRoot (varLoc idb bt.val) l →
        (writeLoc t₂ l w).run.run σ' = (.ok ⟨⟩, σ₂) →
        ∀ l', DiffRoot (varLoc idb bt.val) l' → readLocP σ₂ l' = readLocP σ' l') ∧
      (∀ (t₂ : Tok) (l : Loc) (w : Val) (σ₂ : St), DiffRoot (varLoc idb bt.val) l →
        (writeLoc t₂ l w).run.run σ' = (.ok ⟨⟩, σ₂) →
        ∀ p, readLocP σ₂ ⟨idb, false, bt.val, p⟩ = pathRead v p) ∧
      (∀ (t₂ : Tok) (r : List Step) (s₁ s₂ : Step) (q₁ q₂ : List Step) (w : Val) (σ₂ : St), s₁ ≠ s₂ →
        (writeLoc t₂ ⟨idb, false, bt.val, r ++ s₁ :: q₁⟩ w).run.run σ' = (.ok ⟨⟩, σ₂) →
        readLocP σ₂ ⟨idb, false, bt.val, r ++ s₂ :: q₂⟩ = pathRead v (r ++ s₂ :: q₂)) ∧
      (∀ (t₂ : Tok) (r : Ref) (rhs : Expr) (rv : Val) (f₀ n f₂ : Nat) (res : Except Stop Val) (σ₂ : St),
        Rooted (tickSt σ') f₀ bt r n → PureAt (tickSt σ') f₀ rhs rv → max f₀ n + 3 ≤ f₂ →
        (execStmt f₂ (.expr (.assign t₂ r rhs))).run.run σ' = (res, σ₂) →
        ∀ l', DiffRoot (varLoc idb bt.val) l' → readLocP σ₂ l' = readLocP σ' l') := by
  obtain ⟨_, _, _, _, _, _, σ', _, _, _, _, hA, hb', hp, _, _⟩ :=
    C07_return_copy f tA bt t args σ σ1 σ2 σ₁ fd body defTok vals cur rest slots idb T vb v hfd hbody hret hargs hlen hdepth
      hcur hbind hb hcall
  refine ⟨σ', hA, hp, ?_, ?_, ?_, ?_⟩
  · intro t₂ l w σ₂ hs hw l' hd
    exact C07_write_other_location t₂ l l' w σ' σ₂ ⟨⟩ hw (hd.of_sameRoot hs)
  · intro t₂ l w σ₂ hd hw p
    rw [C07_write_other_location t₂ l ⟨idb, false, bt.val, p⟩ w σ' σ₂ ⟨⟩ hw hd.symm]
    exact hp p
  · intro t₂ r s₁ s₂ q₁ q₂ w σ₂ hne hw
    rw [C07_write_disjoint_path t₂ ⟨idb, false, bt.val, r ++ s₁ :: q₁⟩ ⟨idb, false, bt.val, r ++ s₂ :: q₂⟩ w σ' σ₂ ⟨⟩
      r s₁ s₂ q₁ q₂ hne ⟨rfl, rfl, rfl⟩ rfl rfl hw]
    exact hp _
  · intro t₂ r rhs rv f₀ n f₂ res σ₂ hroot hrhs hf₂ hrun
    exact (C07_exec_write_under_root_frame σ' σ₂ t₂ bt r rhs rv (varLoc idb bt.val) f₀ n f₂ res hb'.acts_ne
      (hb'.tick.base bt) hroot hrhs hf₂ hrun).1

/-! ## 4. BYVAL: the parameter is a private copy — any number of parameters, any statements before the write -/

/-- **C07 (BYVAL, any parameter list, any code before the write) — partial.**

    `mk` builds the activation of ANY procedure or function call (`procAct pd slots`, `funAct fd slots`: the new
    activation has the fresh id `σ2.nextId` and the variables `slots` that `bindParams` produced from ANY parameter
    list); `C04.bodySt σ2 callerId t mk` is the state in which the body starts (`CallLemmas.run_callProc`,
    `run_callFun_user`: `callProc` runs `pd.body` in exactly this state).  Hypothesis `hslot`: the name `p` finds the
    cell of a BYVAL parameter of record type `T` holding the argument value `.comp T fsa` (`run_bindParams_byval`:
    that is the slot `bindParams` makes for a BYVAL parameter; with pairwise different parameter names, the k-th
    one).  Then

    1. when the body starts, `p` is a plain record variable of the NEW activation holding the argument's value — every
       path under `p` reads the corresponding part of the argument —, not an alias of the caller's record;
    2. in ANY state `σm` whose activation stack is related to the body's start by `RecordReturn.ActsSk` — the relation
       every run of every function of the evaluator respects (`RecordReturn.sk_all`), reflexive and transitive: so
       any state reached from the body's start, at the level of the callee's activation, by any sequence of runs of
       statements, blocks, expressions: after the first statements of the body, inside its loops and IFs — `p` still
       is a plain record variable of that same activation, and ANY assignment statement `r <- rhs` executed in `σm`
       whose target is rooted at `p` (`p.f`, `p.g.h`, `p.xs[i]`, … any depth, pure index expressions and right-hand
       side), however it ends, changes no location outside the callee's activation: the caller's record whose value
       was passed — every path of it —, every other variable and array of the caller, every global reads what it
       read before the write;
    3. in particular (2) holds for the state `σm` after ANY block `pre` run from the body's start, however that run ends
       (the statements of the body before the write — any statements: declarations, loops, calls, assignments to
       anything).

    What is missing for "any body" (hence `_partial`): only writes by an assignment statement with pure index
    expressions / right-hand side are treated (other statements that store into a reference — INPUT, READFILE, a FOR
    iterator — are not); and no statement about the caller's state after the whole call is made: a body may change
    the caller's variables by other means (globals, BYREF parameters), which no frame property can exclude. -/
theorem C07_byval_any_body_partial (σ2 : St) (callerId : Nat) (t : Tok) (mk : Nat → Act) (slots : List Slot) (pt : Tok)
    (T : Str) (fsa : List (Str × Val))
    (hid : (mk σ2.nextId).id = σ2.nextId) (hvars : (mk σ2.nextId).vars = slots)
    (hslot : findSlot slots pt.val = some (byvalSlot pt.val (.comp T) (.comp T fsa))) :
    HasVar (C04.bodySt σ2 callerId t mk) pt.val σ2.nextId (.comp T) (.comp T fsa) ∧
    (∀ p, readLocP (C04.bodySt σ2 callerId t mk) ⟨σ2.nextId, false, pt.val, p⟩ = pathRead (.comp T fsa) p) ∧
    (∀ σm : St, ActsSk (C04.bodySt σ2 callerId t mk).acts σm.acts →
      ∃ v', HasVar σm pt.val σ2.nextId (.comp T) v' ∧
        ∀ (t₂ : Tok) (r : Ref) (rhs : Expr) (rv : Val) (f₀ n f₂ : Nat) (res : Except Stop Val) (σm' : St),
          Rooted (tickSt σm) f₀ pt r n → PureAt (tickSt σm) f₀ rhs rv → max f₀ n + 3 ≤ f₂ →
          (execStmt f₂ (.expr (.assign t₂ r rhs))).run.run σm = (res, σm') →
          ∀ l, l.act ≠ σ2.nextId → readLocP σm' l = readLocP σm l) ∧
    (∀ (f₁ : Nat) (pre : Block) (res : Except Stop Unit) (σm : St),
      (runBlock f₁ pre).run.run (C04.bodySt σ2 callerId t mk) = (res, σm) →
      ActsSk (C04.bodySt σ2 callerId t mk).acts σm.acts) := by
  have hacts : (C04.bodySt σ2 callerId t mk).acts = mk σ2.nextId :: (setSwitch σ2 callerId t).acts := rfl
  have hslot' : findSlot (mk σ2.nextId).vars pt.val = some (byvalSlot pt.val (.comp T) (.comp T fsa)) := by
    rw [hvars]; exact hslot
  have h1 : HasVar (C04.bodySt σ2 callerId t mk) pt.val σ2.nextId (.comp T) (.comp T fsa) := by
    have := HasVar.of_current (C04.bodySt σ2 callerId t mk) (mk σ2.nextId) (setSwitch σ2 callerId t).acts pt.val _ hacts
      hslot' rfl rfl
    rw [hid] at this
    exact this
  refine ⟨h1, fun p => readLocP_path _ σ2.nextId false pt.val _ p h1.reads, ?_, fun f₁ pre res σm hrun => ?_⟩
  rotate_left
  · have h := block_run_sk f₁ pre (C04.bodySt σ2 callerId t mk)
    rw [hrun] at h
    exact h
  intro σm hsk
  have h1' : HasVar (C04.bodySt σ2 callerId t mk) pt.val (mk σ2.nextId).id (.comp T) (.comp T fsa) := by
    rw [hid]; exact h1
  obtain ⟨v', hm⟩ := hasVar_of_actsSk_cur (mk σ2.nextId) (setSwitch σ2 callerId t).acts hacts hsk
    (by rw [hslot']; rfl) h1'
  rw [hid] at hm
  refine ⟨v', hm, ?_⟩
  intro t₂ r rhs rv f₀ n f₂ res σm' hroot hrhs hf₂ hrun l hl
  exact (C07_exec_write_under_root_frame σm σm' t₂ pt r rhs rv (varLoc σ2.nextId pt.val) f₀ n f₂ res hm.acts_ne
    (hm.tick.base pt) hroot hrhs hf₂ hrun).1 l (.inl hl)

/-- the relation of `C07_byval_any_body_partial` (2) composes: a statement, a block, an expression run from a related
    state ends (however it ends) in a related state — so every state the callee's body reaches at its own level is
    covered -/
theorem C07_byval_reachable_step (σ0 σm : St) (h : ActsSk σ0.acts σm.acts) (f : Nat) :
    (∀ s res σ', (execStmt f s).run.run σm = (res, σ') → ActsSk σ0.acts σ'.acts) ∧
    (∀ b res σ', (runBlock f b).run.run σm = (res, σ') → ActsSk σ0.acts σ'.acts) ∧
    (∀ e res σ', (evalExpr f e).run.run σm = (res, σ') → ActsSk σ0.acts σ'.acts) := by
  refine ⟨fun s res σ' hrun => ?_, fun b res σ' hrun => ?_, fun e res σ' hrun => ?_⟩
  · have h2 := stmt_run_sk f s σm
    rw [hrun] at h2
    exact h.trans h2
  · have h2 := block_run_sk f b σm
    rw [hrun] at h2
    exact h.trans h2
  · have h2 := (((sk_all f).evalExpr e).run σm).1
    rw [hrun] at h2
    exact h.trans h2

/-! ## non-vacuity

The state of `C07ExecEx` (`Properties/C07Exec.lean`: record type `R` with the INTEGER member `f`, the nested record
`g : Inner` and the array member `xs : ARRAY[1:3] OF INTEGER`; globals `a = {f: 1, g: {h: 2}, xs: [10, 20, 30]}`, `b`
at its default value, `x = 5`), with the TYPE definitions recorded in the global activation and two functions whose
bodies come out of the parser:
```
FUNCTION MkB(n : INTEGER) RETURNS R          FUNCTION GetA() RETURNS R
    DECLARE r : R                                a.f <- a.f + 1
    r <- a                                       IF a.f > 0 THEN
    r.f <- n                                         RETURN a
    r.g.h <- 8                                   ENDIF
    FOR i <- 1 TO 3                              RETURN b
        r.xs[i] <- i * n                     ENDFUNCTION
    NEXT i
    RETURN r
ENDFUNCTION
```
`MkB` returns a local record (which is gone after the call), `GetA` a global one (the source still exists). -/
namespace C07ReturnEx
open C07ExecEx

/-- lexer + parser on a source text -/
def parseSrc (s : String) : Block :=
  match lex {} s.toList with
  | .ok toks => match parse {} toks with
    | .ok (b, _) => b
    | .error _ => []
  | .error _ => []

def innerBody : Block := parseSrc "DECLARE h : INTEGER\n"
def rBody : Block := parseSrc "DECLARE f : INTEGER\nDECLARE g : Inner\nDECLARE xs : ARRAY[1:3] OF INTEGER\n"
def mkBody : Block :=
  match parseSrc ("FUNCTION MkB(n : INTEGER) RETURNS R\nDECLARE r : R\nr <- a\nr.f <- n\nr.g.h <- 8\nFOR i <- 1 TO 3\n" ++
      "r.xs[i] <- i * n\nNEXT i\nRETURN r\nENDFUNCTION\n") with
  | [.funDef _ _ _ _ b] => b
  | _ => []
def getBody : Block :=
  match parseSrc "FUNCTION GetA() RETURNS R\na.f <- a.f + 1\nIF a.f > 0 THEN\nRETURN a\nENDIF\nRETURN b\nENDFUNCTION\n" with
  | [.funDef _ _ _ _ b] => b
  | _ => []
def funMkB : FunDef :=
  { name := "MkB".toList, params := [("n".toList, .int, false)], ret := .comp "R".toList, body := .user mkBody (tk "FUNCTION" 1 1) }
def funGetA : FunDef :=
  { name := "GetA".toList, params := [], ret := .comp "R".toList, body := .user getBody (tk "FUNCTION" 11 1) }
def glob2 : Act := { glob with comps := [("Inner".toList, innerBody), ("R".toList, rBody)] }
def exSt2 : St := { acts := [glob2], funs := [funMkB, funGetA] }

/-- the bodies are what the text says: 6 and 3 statements -/
example : mkBody.length = 6 ∧ getBody.length = 3 := by decide +kernel

theorem hasB2 : HasVar exSt2 (tk "b").val 0 (.comp "R".toList) rec0 := ⟨rfl, rfl, rfl⟩
theorem hasX2 : HasVar exSt2 (tk "x").val 0 .int (.int 5) := ⟨rfl, rfl, rfl⟩

theorem run_of_isOk {α : Type} (x : Except Stop α × St) (h : isOk x.1 = true) : ∃ v σ₁, x = (.ok v, σ₁) := by
  obtain ⟨r, s⟩ := x
  cases r with
  | ok v => exact ⟨v, s, rfl⟩
  | error e => cases h

def callT2 : Tok := tk "MkB" 9 6
def callT3 : Tok := tk "GetA" 9 6
def asgT : Tok := tk "<-" 9 3

/-! ### `b <- MkB(x)` -/

theorem hargs2 : (evalArgs 29 [var "x"] []).run.run exSt2 = (.ok [.int 5], exSt2) := by
  have := run_evalArgs_pure exSt2 2 [var "x"] [.int 5] [] 29 ⟨pureAt_hasVar (tk "x") (tk "x") hasX2, trivial⟩ (by decide)
  simpa using this
theorem hbind2 : (bindParams 29 callT2 funMkB.params [var "x"] [.int 5] []).run.run exSt2 =
    (.ok [byvalSlot "n".toList .int (.int 5)], exSt2) := by
  show (bindParams (28+1) callT2 [("n".toList, .int, false)] [var "x"] [.int 5] []).run.run exSt2 = _
  rw [run_bindParams_byval, if_pos (show (implicitCast .int (.int 5)).ty = .int from rfl), run_bindParams_done]
  rfl
/-- the call ends normally (the model run, checked by the kernel) -/
theorem hcall2 : ∃ v σ₁, (callFun 30 callT2 [var "x"]).run.run exSt2 = (.ok v, σ₁) :=
  run_of_isOk _ (by decide +kernel)

/-- all hypotheses of `C07_return_copy` hold for `b <- MkB(x)`: the body (DECLARE, four assignments, a FOR loop, then
    RETURN of the local record) ended with the RETURN signal; `b` reads, at every path, the value `v` of the RETURN
    expression -/
example : ∃ v fr rt e σa σb σ4 σ',
    (runBlock 29 mkBody).run.run (calleeSt (funAct funMkB [byvalSlot "n".toList .int (.int 5)]) (setSwitch exSt2 0 callT2)) =
      (.error .ret, σ4) ∧
    (execStmt (fr+1) (.ret rt e)).run.run σa = (.error .ret, σ4) ∧ (evalExpr fr e).run.run (tickSt σa) = (.ok v, σb) ∧
    v.ty = .comp "R".toList ∧
    (execAssign 32 asgT (.var (tk "b")) (.call callT2 [var "x"])).run.run exSt2 = (.ok ⟨⟩, σ') ∧
    (∀ p, readLocP σ' (locB p) = pathRead v p) := by
  obtain ⟨v, σ₁, hcall⟩ := hcall2
  obtain ⟨fr, rt, e, σa, σb, σ4, σ', h1, h2, h3, h4, h5, _, h7, _, _⟩ :=
    C07_return_copy 29 asgT (tk "b") callT2 [var "x"] exSt2 exSt2 exSt2 σ₁ funMkB mkBody (tk "FUNCTION" 1 1) [.int 5] glob2 []
      [byvalSlot "n".toList .int (.int 5)] 0 "R".toList rec0 v rfl rfl rfl hargs2 rfl (by decide) rfl hbind2 hasB2 hcall
  exact ⟨v, fr, rt, e, σa, σb, σ4, σ', h1, h2, h3, h4, h5, h7⟩

/-- … and of `C07_return_copy_independent` and `C07_return_copy_of_body_run` -/
example : ∃ v σ', (execAssign 32 asgT (.var (tk "b")) (.call callT2 [var "x"])).run.run exSt2 = (.ok ⟨⟩, σ') ∧
    (∀ p, readLocP σ' (locB p) = pathRead v p) ∧
    (∀ (t₂ : Tok) (l : Loc) (w : Val) (σ₂ : St), SameRoot (varLoc 0 "b".toList) l →
      (writeLoc t₂ l w).run.run σ' = (.ok ⟨⟩, σ₂) → ∀ p, readLocP σ₂ (locA p) = readLocP σ' (locA p)) ∧
    (∀ (t₂ : Tok) (p' : List Step) (w : Val) (σ₂ : St),
      (writeLoc t₂ (locA p') w).run.run σ' = (.ok ⟨⟩, σ₂) → ∀ p, readLocP σ₂ (locB p) = pathRead v p) := by
  obtain ⟨v, σ₁, hcall⟩ := hcall2
  obtain ⟨σ', h1, h2, h3, h4, _, _⟩ :=
    C07_return_copy_independent 29 asgT (tk "b") callT2 [var "x"] exSt2 exSt2 exSt2 σ₁ funMkB mkBody (tk "FUNCTION" 1 1) [.int 5]
      glob2 [] [byvalSlot "n".toList .int (.int 5)] 0 "R".toList rec0 v rfl rfl rfl hargs2 rfl (by decide) rfl hbind2 hasB2 hcall
  refine ⟨v, σ', h1, h2, fun t₂ l w σ₂ hs hw p => h3 t₂ l w σ₂ hs hw _ ?_, fun t₂ p' w σ₂ hw => h4 t₂ _ w σ₂ ?_ hw⟩
  · exact .inr (.inr (show "a".toList ≠ "b".toList by decide))
  · exact .inr (.inr (show "a".toList ≠ "b".toList by decide))

example : ∃ v σ4 σ', (callFun 30 callT2 [var "x"]).run.run exSt2 = (.ok v, clearSwitch (decDepth (popSt σ4)) 0) ∧
    (execAssign 32 asgT (.var (tk "b")) (.call callT2 [var "x"])).run.run exSt2 = (.ok ⟨⟩, σ') ∧
    (∀ p, readLocP σ' (locB p) = pathRead v p) := by
  obtain ⟨v, σ₁, hcall⟩ := hcall2
  obtain ⟨_, _, _, _, _, σ4, _, hrun, _⟩ :=
    C07_return_copy 29 asgT (tk "b") callT2 [var "x"] exSt2 exSt2 exSt2 σ₁ funMkB mkBody (tk "FUNCTION" 1 1) [.int 5] glob2 []
      [byvalSlot "n".toList .int (.int 5)] 0 "R".toList rec0 v rfl rfl rfl hargs2 rfl (by decide) rfl hbind2 hasB2 hcall
  obtain ⟨v', _, _, _, _, _, σ', _, _, _, hc, hA, _, hp, _⟩ :=
    C07_return_copy_of_body_run 29 asgT (tk "b") callT2 [var "x"] exSt2 exSt2 exSt2 σ4 funMkB mkBody (tk "FUNCTION" 1 1) [.int 5]
      glob2 [] [byvalSlot "n".toList .int (.int 5)] 0 "R".toList rec0 rfl rfl rfl hargs2 rfl (by decide) rfl hbind2 hasB2 hrun
  exact ⟨v', σ4, σ', hc, hA, hp⟩

/-- … and of `C07_return_copy_pure_args`: everything stated in the caller's state `exSt2` -/
example : ∃ v σ', (execAssign 32 asgT (.var (tk "b")) (.call callT2 [var "x"])).run.run exSt2 = (.ok ⟨⟩, σ') ∧
    v.ty = .comp "R".toList ∧ HasVar σ' (tk "b").val 0 (.comp "R".toList) v ∧ (∀ p, readLocP σ' (locB p) = pathRead v p) := by
  obtain ⟨v, σ₁, hcall⟩ := hcall2
  obtain ⟨_, _, _, _, _, _, σ', _, _, _, h4, h5, h6, h7, _⟩ :=
    C07_return_copy_pure_args 2 29 asgT (tk "b") callT2 [var "x"] exSt2 σ₁ funMkB mkBody (tk "FUNCTION" 1 1) [.int 5] glob2 []
      0 "R".toList rec0 v rfl rfl rfl ⟨pureAt_hasVar (tk "x") (tk "x") hasX2, trivial⟩ ⟨rfl, rfl, trivial⟩ (by decide) rfl hasB2
      (by decide) (by decide) hcall
  exact ⟨v, σ', h5, h4, h6, h7⟩

/-- the model: after `b <- MkB(x)` the copy holds `{f: 5, g: {h: 8}, xs: [5, 10, 15]}`, `a` is what it was -/
def afterMk : St := ((execAssign 32 asgT (.var (tk "b")) (.call callT2 [var "x"])).run.run exSt2).2
example : (readsInt afterMk (locB [F "f"]) 5 && readsInt afterMk (locB [F "g", F "h"]) 8 &&
    readsInt afterMk (locB [F "xs", .idx 0]) 5 && readsInt afterMk (locB [F "xs", .idx 2]) 15 &&
    readsInt afterMk (locA [F "f"]) 1 && readsInt afterMk (locA [F "g", F "h"]) 2 &&
    readsInt afterMk (locA [F "xs", .idx 2]) 30) = true := by decide +kernel

/-! ### `b <- GetA()`: the source is a global record that still exists -/

theorem hcall3 : ∃ v σ₁, (callFun 30 callT3 []).run.run exSt2 = (.ok v, σ₁) := run_of_isOk _ (by decide +kernel)

example : ∃ v σ₁ σ', (callFun 30 callT3 []).run.run exSt2 = (.ok v, σ₁) ∧
    (execAssign 32 asgT (.var (tk "b")) (.call callT3 [])).run.run exSt2 = (.ok ⟨⟩, σ') ∧
    (∀ p, readLocP σ' (locB p) = pathRead v p) ∧ (∀ p, readLocP σ' (locA p) = readLocP σ₁ (locA p)) := by
  obtain ⟨v, σ₁, hcall⟩ := hcall3
  obtain ⟨_, _, _, _, _, _, σ', _, _, _, _, h5, _, h7, h8, _⟩ :=
    C07_return_copy 29 asgT (tk "b") callT3 [] exSt2 exSt2 exSt2 σ₁ funGetA getBody (tk "FUNCTION" 11 1) [] glob2 []
      [] 0 "R".toList rec0 v rfl rfl rfl (by rw [evalArgs_nil]; rfl) rfl (by decide) rfl (run_bindParams_done 28 callT3 [] [] [] exSt2) hasB2 hcall
  exact ⟨v, σ₁, σ', hcall, h5, h7, fun p => h8 _ (.inr (.inr (show "a".toList ≠ "b".toList by decide)))⟩

/-- the model: `b <- GetA() ; b.g.h <- 4 ; b.xs[2] <- 7 ; a.f <- 9`: `b` got `a` as the function left it (`f = 2`), the
    writes to `b` do not show in `a`, the write to `a` does not show in `b` -/
def afterGet : St :=
  ((runBlock 40 [.expr (.assign asgT (.var (tk "b")) (.call callT3 [])),
      .expr (.assign (tk "<-") (.field (tk ".") (.field (tk ".") (.var (tk "b")) (tk "g")) (tk "h")) (lit 4)),
      .expr (.assign (tk "<-") (.index (tk "[") (.field (tk ".") (.var (tk "b")) (tk "xs")) [lit 2]) (lit 7)),
      .expr (.assign (tk "<-") (.field (tk ".") (.var (tk "a")) (tk "f")) (lit 9))]).run.run exSt2).2
example : (readsInt afterGet (locB [F "f"]) 2 && readsInt afterGet (locB [F "g", F "h"]) 4 &&
    readsInt afterGet (locB [F "xs", .idx 1]) 7 && readsInt afterGet (locA [F "f"]) 9 &&
    readsInt afterGet (locA [F "g", F "h"]) 2 && readsInt afterGet (locA [F "xs", .idx 1]) 20) = true := by decide +kernel

/-! ### BYVAL: `PROCEDURE P2(BYVAL k : INTEGER, BYVAL p : R)`, any statements, then `p.g.h <- 99` -/

def procP2 : ProcDef :=
  { name := "P2".toList, params := [("k".toList, .int, false), ("p".toList, .comp "R".toList, false)], body := [] }
def slotsP2 : List Slot := [byvalSlot "k".toList .int (.int 5), byvalSlot "p".toList (.comp "R".toList) recA]
def preP2 : Block := parseSrc "DECLARE q : R\nq <- p\nFOR i <- 1 TO k\nq.xs[1] <- i\nNEXT i\np.f <- q.xs[1]\n"

theorem hpre : ∃ u σm, (runBlock 30 preP2).run.run (C04.bodySt exSt2 0 callT (procAct procP2 slotsP2)) = (.ok u, σm) :=
  run_of_isOk _ (by decide +kernel)

/-- the hypotheses of `C07_byval_any_body_partial` hold: two parameters, the second the record; after the block `preP2`
    (a declaration, a record copy, a loop, a write to `p.f`) the write `p.g.h <- 99` leaves every location of the
    caller — `a`, whose value was passed — as it is -/
example : ∃ σm, (runBlock 30 preP2).run.run (C04.bodySt exSt2 0 callT (procAct procP2 slotsP2)) = (.ok ⟨⟩, σm) ∧
    ∀ (res : Except Stop Val) (σm' : St),
      (execStmt 9 (.expr (.assign (tk "<-") (.field (tk ".") (.field (tk ".") (.var (tk "p")) (tk "g")) (tk "h")) (lit 99)))).run.run σm
        = (res, σm') → ∀ p, readLocP σm' (locA p) = readLocP σm (locA p) := by
  obtain ⟨u, σm, hrun⟩ := hpre
  obtain ⟨_, _, h3, h4⟩ := C07_byval_any_body_partial exSt2 0 callT (procAct procP2 slotsP2) slotsP2 (tk "p") "R".toList fieldsA
    rfl rfl rfl
  have hsk : ActsSk (C04.bodySt exSt2 0 callT (procAct procP2 slotsP2)).acts σm.acts := h4 30 preP2 _ σm hrun
  obtain ⟨v', _, hw⟩ := h3 σm hsk
  refine ⟨σm, hrun, fun res σm' hst p => ?_⟩
  exact hw (tk "<-") _ (lit 99) (.int 99) 1 3 9 res σm' (.field _ _ (.field _ _ .var)) (pureAt_intLit _ _ 99) (by decide) hst
    (locA p) (show (0 : Nat) ≠ 1 by decide)

/-- the model: in the callee `p.f` became 5 and `p.g.h` 99, the caller's `a` kept `f = 1`, `g.h = 2` -/
def afterP2 : St :=
  ((runBlock 30 (preP2 ++ [.expr (.assign (tk "<-") (.field (tk ".") (.field (tk ".") (.var (tk "p")) (tk "g")) (tk "h")) (lit 99))])).run.run
    (C04.bodySt exSt2 0 callT (procAct procP2 slotsP2))).2
example : (readsInt afterP2 ⟨1, false, "p".toList, [F "f"]⟩ 5 && readsInt afterP2 ⟨1, false, "p".toList, [F "g", F "h"]⟩ 99 &&
    readsInt afterP2 (locA [F "f"]) 1 && readsInt afterP2 (locA [F "g", F "h"]) 2) = true := by decide +kernel

/-! ### whole programs through lexer, parser and evaluator -/

/-- a record built in a local variable by several statements and a loop is returned as a copy; later writes to the copy
    and to a second copy do not show in each other -/
example : (runFile {} ("TYPE I\nDECLARE h : INTEGER\nENDTYPE\nTYPE R\nDECLARE g : I\nDECLARE xs : ARRAY[1:2] OF INTEGER\nENDTYPE\n" ++
    "FUNCTION Mk(n : INTEGER) RETURNS R\nDECLARE r : R\nr.g.h <- n\nFOR i <- 1 TO 2\nr.xs[i] <- i * n\nNEXT i\nRETURN r\nENDFUNCTION\n" ++
    "DECLARE b, c : R\nb <- Mk(3)\nc <- Mk(4)\nb.g.h <- 7\nc.xs[2] <- 1\nOUTPUT b.g.h, b.xs[2], c.g.h, c.xs[2]\n").toList [] []).out
    = "7641\n".toList := by decide +kernel
/-- a function that changes a global record and returns it: the caller's variable is a copy of the changed record; a
    later write to the global does not show in the copy and vice versa -/
example : (runFile {} ("TYPE R\nDECLARE f : INTEGER\nENDTYPE\nDECLARE a, b : R\n" ++
    "FUNCTION G() RETURNS R\na.f <- a.f + 1\nIF a.f > 0 THEN\nRETURN a\nENDIF\nRETURN b\nENDFUNCTION\n" ++
    "b <- G()\na.f <- 9\nOUTPUT b.f\nb.f <- 5\nOUTPUT a.f\n").toList [] []).out = "1\n9\n".toList := by decide +kernel

end C07ReturnEx

end Pseudo
