import PseudoProofs.EvalSim
import Properties.C20
/-!
# C20 (execution) — `--pedantic` only rejects, at the evaluator and for whole program runs

The `pedantic` field of the interpreter state is read in two places of the evaluator (`execAssign`:
`pedErr t .pedAssign`; `execStmt` of INPUT: `pedErr vt .pedInput`) and never written. Two-run statement:
from states that differ in the flag only, the pedantic run of any statement either ends in a *pedantic*
diagnostic or it ends exactly like the non-pedantic run — same result, final states equal up to the flag.

Machinery: `PseudoProofs/EvalSim.lean` (relational analogue of `EvalInv.lean`: `XSimAt`, its combinators,
one induction on fuel over the 25 functions of the mutual block: `evalX_all`).
Combined with the front-end simulation of `Properties/C20.lean` (`C20_sim_lex_or`, `C20_sim_parse_or`) this gives
the statement for `runSource` and `runFile`.
-/
namespace Pseudo

/-- the two-run statement, spelled out -/
def PedOnlyRejects {α : Type} (m : M α) (σ : St) : Prop :=
  (∃ d τ, m.run.run (pedOn σ) = (.error (.diag d), τ) ∧ d.kind = .pedantic) ∨
  ((m.run.run (pedOn σ)).1 = (m.run.run (pedOff σ)).1 ∧
   pedOff (m.run.run (pedOn σ)).2 = pedOff (m.run.run (pedOff σ)).2 ∧
   (m.run.run (pedOn σ)).2.pedantic = true ∧ (m.run.run (pedOff σ)).2.pedantic = false)

theorem PedOnlyRejects.of_xsim {α : Type} {m : M α} (h : XSim m) (σ : St) : PedOnlyRejects m σ := by
  cases h.run σ with
  | ped d τ h hk => exact Or.inl ⟨d, τ, h, hk⟩
  | same r τ hp hn => right; rw [hp, hn]; exact ⟨rfl, rfl, rfl, rfl⟩

/-- **C20 (the evaluator).** For every fuel, statement and state: the run with the flag set ends in a pedantic
    diagnostic, or result and final state are those of the run with the flag cleared (up to the flag, which is
    never written). The same for blocks, expressions, procedure and function calls. -/
theorem C20_sim_exec (fuel : Nat) (σ : St) :
    (∀ s, PedOnlyRejects (execStmt fuel s) σ) ∧ (∀ b, PedOnlyRejects (runBlock fuel b) σ) ∧
    (∀ e, PedOnlyRejects (evalExpr fuel e) σ) ∧ (∀ t n a, PedOnlyRejects (callProc fuel t n a) σ) ∧
    (∀ t a, PedOnlyRejects (callFun fuel t a) σ) :=
  have h := evalX_all fuel
  ⟨fun s => .of_xsim (h.execStmt s) σ, fun b => .of_xsim (h.runBlock b) σ, fun e => .of_xsim (h.evalExpr e) σ,
   fun t n a => .of_xsim (h.callProc t n a) σ, fun t a => .of_xsim (h.callFun t a) σ⟩

/-- a run accepted under `--pedantic` (no pedantic diagnostic) is the non-pedantic run -/
theorem C20_exec_accepted (fuel : Nat) (s : Stmt) (σ : St)
    (h : ∀ d τ, (execStmt fuel s).run.run (pedOn σ) = (.error (.diag d), τ) → d.kind ≠ .pedantic) :
    ((execStmt fuel s).run.run (pedOn σ)).1 = ((execStmt fuel s).run.run (pedOff σ)).1 ∧
    pedOff ((execStmt fuel s).run.run (pedOn σ)).2 = pedOff ((execStmt fuel s).run.run (pedOff σ)).2 := by
  rcases (C20_sim_exec fuel σ).1 s with ⟨d, τ, hd, hk⟩ | ⟨h1, h2, _⟩
  · exact absurd hk (h d τ hd)
  · exact ⟨h1, h2⟩

/-! ### whole runs -/

theorem runMain_xsim (fuel : Nat) (b : Block) : XSim (runMain fuel b) := by
  apply XSim.of_run
  intro σ
  unfold runMain
  refine XSimAt.tryCatch (((evalX_all fuel).runBlock b).run σ) ?_ (fun _ _ => rfl)
  intro e τ
  xsim_auto

/-- outcome and state of the pedantic run vs. the non-pedantic run: rejected by a pedantic diagnostic (which the
    driver reports as a diagnostic — or, were its message `budget`, as "inconclusive"), or the same -/
def OSim (p n : Outcome × St) : Prop :=
  (∃ d, d.kind = .pedantic ∧ (p.1 = .diag d ∨ (isBudget d = true ∧ p.1 = .fuel))) ∨
  (p.1 = n.1 ∧ ∃ τ, p.2 = pedOn τ ∧ n.2 = pedOff τ)

theorem runOn_osim (fuel : Nat) (b : Block) (σ : St) : OSim (runOn fuel b (pedOn σ)) (runOn fuel b (pedOff σ)) := by
  unfold runOn
  cases (runMain_xsim fuel b).run σ with
  | ped d τ h hk =>
    have h' : (ExceptT.run (runMain fuel b)).run (pedOn σ) = (.error (.diag d), τ) := h
    rw [h']
    exact Or.inl ⟨d, hk, Or.inl rfl⟩
  | same r τ hp hn =>
    have hp' : (ExceptT.run (runMain fuel b)).run (pedOn σ) = (r, pedOn τ) := hp
    have hn' : (ExceptT.run (runMain fuel b)).run (pedOff σ) = (r, pedOff τ) := hn
    rw [hp', hn']
    right
    rcases r with e | u
    · cases e <;> exact ⟨rfl, τ, rfl, rfl⟩
    · exact ⟨rfl, τ, rfl, rfl⟩

/-- **C20 (one source text: lexer + parser + evaluator).** -/
theorem C20_sim_runSource (cfg : Cfg) (src : Str) (σ : St) :
    OSim (runSource { cfg with pedantic := true } src (pedOn σ)) (runSource { cfg with pedantic := false } src (pedOff σ)) := by
  unfold runSource
  dsimp only
  rcases C20_sim_lex_or src with ⟨d, hd, hk⟩ | hlex
  · rw [hd]
    exact Or.inl ⟨d, hk, Or.inl rfl⟩
  · rw [hlex]
    cases hl : lex { pedantic := false } src with
    | error d => exact Or.inr ⟨rfl, { σ with out := ['\n'] :: σ.out }, rfl, rfl⟩
    | ok toks =>
      dsimp only
      rcases C20_sim_parse_or toks with ⟨d, w, hd, hk⟩ | hparse
      · rw [hd]
        dsimp only
        by_cases hb : isBudget d = true
        · simp only [hb, if_true]
          exact Or.inl ⟨d, hk, Or.inr ⟨hb, rfl⟩⟩
        · simp only [hb]
          exact Or.inl ⟨d, hk, Or.inl rfl⟩
      · rw [hparse]
        cases hp : parse { pedantic := false } toks with
        | error dw =>
          obtain ⟨d, w⟩ := dw
          dsimp only
          split
          · exact Or.inr ⟨rfl, { σ with out := (w.map warningText).reverse ++ σ.out }, rfl, rfl⟩
          · exact Or.inr ⟨rfl, { σ with out := ['\n'] :: ((w.map warningText).reverse ++ σ.out) }, rfl, rfl⟩
        | ok bw =>
          obtain ⟨b, w⟩ := bw
          dsimp only
          have h := runOn_osim cfg.fuel b { σ with out := (w.map warningText).reverse ++ σ.out }
          have e1 : ({ pedOn σ with out := (w.map warningText).reverse ++ (pedOn σ).out } : St)
              = pedOn { σ with out := (w.map warningText).reverse ++ σ.out } := rfl
          have e2 : ({ pedOff σ with out := (w.map warningText).reverse ++ (pedOff σ).out } : St)
              = pedOff { σ with out := (w.map warningText).reverse ++ σ.out } := rfl
          rw [e1, e2]
          rcases hrp : runOn cfg.fuel b (pedOn { σ with out := (w.map warningText).reverse ++ σ.out }) with ⟨op, sp⟩
          rcases hrn : runOn cfg.fuel b (pedOff { σ with out := (w.map warningText).reverse ++ σ.out }) with ⟨on, sn⟩
          rw [hrp, hrn] at h
          rcases h with ⟨d, hk, hd | ⟨hb, hd⟩⟩ | ⟨ho, τ, h1, h2⟩
          · dsimp only at hd; subst hd
            exact Or.inl ⟨d, hk, Or.inl rfl⟩
          · dsimp only at hd; subst hd
            exact Or.inl ⟨d, hk, Or.inr ⟨hb, rfl⟩⟩
          · dsimp only at ho h1 h2
            subst ho h1 h2
            cases op with
            | diag d => exact Or.inr ⟨rfl, { τ with out := ['\n'] :: τ.out }, rfl, rfl⟩
            | ok => exact Or.inr ⟨rfl, τ, rfl, rfl⟩
            | crash p => exact Or.inr ⟨rfl, τ, rfl, rfl⟩
            | fuel => exact Or.inr ⟨rfl, τ, rfl, rfl⟩

/-- **C20 (`--pedantic` only rejects, whole program).** If the pedantic run of a program is conclusive (no budget
    ran out) and reports no pedantic diagnostic, then it *is* the non-pedantic run: same output, diagnostics, exit
    code, final file system, unread input, crash point. -/
theorem C20_only_rejects (cfg : Cfg) (content : Str) (fs : List (Str × FsNode)) (stdin : Str)
    (hconc : (runFile { cfg with pedantic := true } content fs stdin).inconclusive = false)
    (hnoped : ∀ d ∈ (runFile { cfg with pedantic := true } content fs stdin).diags, d.kind ≠ .pedantic) :
    runFile { cfg with pedantic := true } content fs stdin = runFile { cfg with pedantic := false } content fs stdin := by
  have key : ∀ σ0 : St,
      (resultOf (runSource { cfg with pedantic := true } (content ++ ['\n']) (pedOn σ0)).1
        (closeAllSt (runSource { cfg with pedantic := true } (content ++ ['\n']) (pedOn σ0)).2)).inconclusive = false →
      (∀ d ∈ (resultOf (runSource { cfg with pedantic := true } (content ++ ['\n']) (pedOn σ0)).1
        (closeAllSt (runSource { cfg with pedantic := true } (content ++ ['\n']) (pedOn σ0)).2)).diags, d.kind ≠ .pedantic) →
      resultOf (runSource { cfg with pedantic := true } (content ++ ['\n']) (pedOn σ0)).1
        (closeAllSt (runSource { cfg with pedantic := true } (content ++ ['\n']) (pedOn σ0)).2) =
      resultOf (runSource { cfg with pedantic := false } (content ++ ['\n']) (pedOff σ0)).1
        (closeAllSt (runSource { cfg with pedantic := false } (content ++ ['\n']) (pedOff σ0)).2) := by
    intro σ0 hconc hnoped
    have h := C20_sim_runSource cfg (content ++ ['\n']) σ0
    rcases hrp : runSource { cfg with pedantic := true } (content ++ ['\n']) (pedOn σ0) with ⟨op, sp⟩
    rcases hrn : runSource { cfg with pedantic := false } (content ++ ['\n']) (pedOff σ0) with ⟨on, sn⟩
    rw [hrp] at hconc hnoped
    rw [hrp, hrn] at h
    dsimp only at hconc hnoped ⊢
    rcases h with ⟨d, hk, hd | ⟨hb, hd⟩⟩ | ⟨ho, τ, h1, h2⟩
    · dsimp only at hd; subst hd
      exfalso
      by_cases hb : isBudget d = true
      · simp [resultOf, hb] at hconc
      · simp only [resultOf, hb] at hnoped
        exact hnoped d (List.mem_singleton.mpr rfl) hk
    · dsimp only at hd; subst hd
      simp [resultOf] at hconc
    · dsimp only at ho h1 h2
      subst ho h1 h2
      cases op <;> simp only [resultOf] <;> (try split) <;> rfl
  exact key { St.init fs stdin false false with stdinEof := false, stepLimit := cfg.stepLimit, depthLimit := cfg.depthLimit }
    hconc hnoped

/-! ### non-vacuity -/

def C20.demoTok (s : String) : Tok := { k := .IDENTIFIER, line := 1, col := 1, val := s.toList }
/-- `x <- 1` for an undeclared `x`: with the flag a pedantic diagnostic, without it the variable is created
    (computed by the model): the left disjunct does occur … -/
def C20.assignX : Stmt := .expr (.assign (C20.demoTok "<-") (.var (C20.demoTok "x")) (.intLit (C20.demoTok "1") 1))
def C20.σ0 : St := St.init [] [] false false
def C20.isPed : Except Stop Val → Bool
  | .error (.diag d) => d.kind == .pedantic && d.msg == .pedAssign
  | _ => false
example : C20.isPed ((execStmt 6 C20.assignX).run.run (pedOn C20.σ0)).1 = true := by decide
example : ((execStmt 6 C20.assignX).run.run (pedOff C20.σ0)).2.acts.map (fun a => a.vars.map (·.name)) = [["x".toList]] := by
  decide
/-- … and so does the right one: after `DECLARE`-like preparation (here: the variable exists) both runs agree -/
def C20.σ1 : St := ((execStmt 6 C20.assignX).run.run (pedOff C20.σ0)).2
def C20.isOk : Except Stop Val → Bool
  | .ok _ => true
  | _ => false
theorem C20.demo_ok : C20.isOk ((execStmt 6 C20.assignX).run.run (pedOn C20.σ1)).1 = true := by decide
example : ((execStmt 6 C20.assignX).run.run (pedOn C20.σ1)).1 = ((execStmt 6 C20.assignX).run.run (pedOff C20.σ1)).1 :=
  (C20_exec_accepted 6 C20.assignX C20.σ1 (fun d τ h => by
    have := C20.demo_ok
    rw [h] at this
    simp [C20.isOk] at this)).1

end Pseudo
