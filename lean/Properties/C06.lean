import PseudoModel.Store
/-!
# C06 — arrays are bounds-checked total maps with independent elements
Model: `Pseudo.lin` (the linearisation of `Array::getElement`), `totalCells`, `inBounds`, and the cell
accessors `getPath` / `setPath` through which every element read / write goes.
Any number of dimensions, any bounds.
-/
namespace Pseudo

theorem dimSize_pos (d : Int × Int) (i : Int) (h : d.1 ≤ i ∧ i ≤ d.2) : (i - d.1).toNat < dimSize d := by
  unfold dimSize; omega

/-- an in-bounds index tuple is linearised inside the allocated cells -/
theorem C06_lin_bound : ∀ (dims : List (Int × Int)) (idx : List Int), InBoundsAll dims idx → lin dims idx < totalCells dims
  | [], [], _ => by simp [lin, totalCells]
  | [], _ :: _, h => by simp [InBoundsAll] at h
  | _ :: _, [], h => by simp [InBoundsAll] at h
  | d :: ds, i :: is, h => by
    obtain ⟨hi, hrest⟩ := h
    have ih := C06_lin_bound ds is hrest
    have h1 := dimSize_pos d i hi
    simp only [lin, totalCells, List.foldr_cons]
    show (i - d.1).toNat + dimSize d * lin ds is < dimSize d * totalCells ds
    have : dimSize d * lin ds is + dimSize d ≤ dimSize d * totalCells ds := by
      rw [← Nat.mul_succ]; exact Nat.mul_le_mul_left _ ih
    omega

/-- distinct in-bounds tuples address distinct cells (independence of elements) -/
theorem C06_lin_inj : ∀ (dims : List (Int × Int)) (i j : List Int),
    InBoundsAll dims i → InBoundsAll dims j → lin dims i = lin dims j → i = j
  | [], [], [], _, _, _ => rfl
  | [], _ :: _, _, h, _, _ => by simp [InBoundsAll] at h
  | [], [], _ :: _, _, h, _ => by simp [InBoundsAll] at h
  | _ :: _, [], _, h, _, _ => by simp [InBoundsAll] at h
  | _ :: _, _ :: _, [], _, h, _ => by simp [InBoundsAll] at h
  | d :: ds, a :: as, b :: bs, ha, hb, heq => by
    obtain ⟨ha1, ha2⟩ := ha
    obtain ⟨hb1, hb2⟩ := hb
    simp only [lin] at heq
    have h1 := dimSize_pos d a ha1
    have h2 := dimSize_pos d b hb1
    -- compare quotient and remainder modulo dimSize d
    have hmod : ((a - d.1).toNat + dimSize d * lin ds as) % dimSize d = ((b - d.1).toNat + dimSize d * lin ds bs) % dimSize d := by rw [heq]
    rw [Nat.add_mul_mod_self_left, Nat.add_mul_mod_self_left, Nat.mod_eq_of_lt h1, Nat.mod_eq_of_lt h2] at hmod
    have hab : a = b := by omega
    have hq : dimSize d * lin ds as = dimSize d * lin ds bs := by omega
    have hpos : 0 < dimSize d := by omega
    have hl : lin ds as = lin ds bs := Nat.eq_of_mul_eq_mul_left hpos hq
    rw [hab, C06_lin_inj ds as bs ha2 hb2 hl]

/-- reading a cell after writing a cell: the written one changes, every other one keeps its value -/
theorem C06_read_write (e : Ty) (dims : List (Int × Int)) (cells : List Val) (i j : Nat) (v : Val) (hi : i < cells.length) :
    ∃ a', setPath (.arr e dims cells) [.idx i] v = some a' ∧
      getPath a' [.idx j] = (if i = j then some v else getPath (.arr e dims cells) [.idx j]) := by
  refine ⟨.arr e dims (cells.set i v), ?_, ?_⟩
  · simp [setPath, List.getElem?_eq_getElem hi]
  · simp only [getPath]
    by_cases h : i = j
    · subst h; simp [hi]
    · simp [h, List.getElem?_set_ne h]

/-- a write outside the allocated cells has no effect: it is refused (the bounds check in front of it is
    `evalIndices`, which raises "Index out of bounds" before any cell is touched) -/
theorem C06_oob_refused (e : Ty) (dims : List (Int × Int)) (cells : List Val) (i : Nat) (v : Val) (hi : cells.length ≤ i) :
    setPath (.arr e dims cells) [.idx i] v = none ∧ getPath (.arr e dims cells) [.idx i] = none := by
  have : cells[i]? = none := List.getElem?_eq_none hi
  simp [setPath, getPath, this]

/-- the bounds test accepts exactly the indices between the bounds (inclusive) -/
theorem C06_inBounds_iff (d : Int × Int) (i : Int) : inBounds d i = true ↔ d.1 ≤ i ∧ i ≤ d.2 := by
  simp [inBounds]

/-- whole-array assignment is a value copy: afterwards both arrays read the same, and a later write to one
    leaves the other unchanged (values are immutable; the copy shares nothing) -/
theorem C06_assign_copy (e : Ty) (dims : List (Int × Int)) (src : List Val) (i j : Nat) (v : Val) (hi : i < src.length) :
    let dst := Val.arr e dims src
    ∃ dst', setPath dst [.idx i] v = some dst' ∧ getPath (.arr e dims src) [.idx j] = src[j]? ∧
      (i ≠ j → getPath dst' [.idx j] = src[j]?) := by
  refine ⟨.arr e dims (src.set i v), ?_, ?_, ?_⟩
  · simp [setPath, List.getElem?_eq_getElem hi]
  · simp only [getPath]; cases h : src[j]? <;> simp
  · intro h; simp only [getPath, List.getElem?_set_ne h]; cases h' : src[j]? <;> simp

/-! non-vacuity -/
example : InBoundsAll [(-1, 1), (2, 3)] [0, 3] := by simp [InBoundsAll]
example : lin [(-1, 1), (2, 3)] [0, 3] = 4 ∧ totalCells [(-1, 1), (2, 3)] = 6 := by decide

end Pseudo
