import PseudoProofs.EvalStep
import Properties.C03
/-!
# C03 — one round of every selection / loop function, as run-equations

Model: `ifChain`, `caseClauses`, `whileLoop`, `repeatLoop`, `forLoop`, `loopBody` of `PseudoModel/Eval.lean`.

1. `C03_*_unfold`: one round of each function as an equality of `M` computations (definitional unfolding).
2. `C03_*_run`: the same as an equation about `.run.run σ` — result and final state — in terms of the results of
   the sub-computations (condition, body), with every case explicit: which sub-computation runs from which state,
   and that nothing else runs.
3. Chains: `C03_if_first_true` / `C03_if_all_false` / `C03_if_nonbool`, `C03_case_first_match` / `C03_case_no_match`
   over a whole IF / CASE: conditions are evaluated in order, the block of the first TRUE / matching one runs, no
   later condition is evaluated.
4. `C03_for_matches_forSeq`: a FOR loop whose body leaves the iterator alone runs the body once per element of the
   closed-form sequence `forSeq` (C03.lean) and leaves the iterator at its final value.
-/
namespace Pseudo

/-! ## 1. unfolding equations -/

/-- WHILE, one round: count a step; evaluate the condition; TRUE → body, then leave on BREAK, otherwise back to the
    TEST (so CONTINUE re-tests); FALSE → done; anything else → `condType` error (the body is not run). -/
theorem C03_while_unfold (f : Nat) (t : Tok) (c : Expr) (b : Block) :
    whileLoop (f+1) t c b = (do
      tick t
      let v ← evalExpr f c
      match v with
      | .bool true =>
        if ← loopBody f b then pure () else whileLoop f t c b
      | .bool false => pure ()
      | _ => rtErr t .condType) := whileLoop_succ f t c b

/-- REPEAT, one round: count a step; the body FIRST; leave on BREAK; otherwise — also after CONTINUE — the UNTIL test:
    TRUE → done, FALSE → next round, anything else → `condType` error. -/
theorem C03_repeat_unfold (f : Nat) (t : Tok) (b : Block) (c : Expr) :
    repeatLoop (f+1) t b c = (do
      tick t
      if ← loopBody f b then pure ()
      else
        let v ← evalExpr f c
        match v with
        | .bool true => pure ()
        | .bool false => repeatLoop f t b c
        | _ => rtErr t .condType) := repeatLoop_succ f t b c

/-- FOR, one round: re-read the iterator; test it against the bound in the direction of the step; count a step; body;
    leave on BREAK; otherwise — also after CONTINUE — re-read the iterator, add the step (wrapping), next round. -/
theorem C03_for_unfold (f : Nat) (t : Tok) (it : Loc) (stop step : Int) (b : Block) :
    forLoop (f+1) t it stop step b = (do
      let cur ← readLoc it
      match cur with
      | .int i =>
        if (step < 0 && i ≥ stop) || (!(step < 0) && i ≤ stop) then
          tick t
          if ← loopBody f b then pure ()
          else
            let cur2 ← readLoc it
            match cur2 with
            | .int j =>
              writeLoc t it (.int (wrap64 (j + step)))
              forLoop f t it stop step b
            | _ => throw (.crash .other)
        else pure ()
      | _ => throw (.crash .other)) := forLoop_succ f t it stop step b

/-- IF: no branch left → the ELSE block, or nothing -/
theorem C03_if_unfold_nil (f : Nat) (t : Tok) (els : Option Block) :
    ifChain (f+1) t [] els = (match els with
      | some b => runBlock f b
      | none => pure ()) := ifChain_nil f t els

/-- IF: evaluate the first condition; TRUE → its block (and nothing else); FALSE → the remaining branches;
    anything else → `condType` error -/
theorem C03_if_unfold_cons (f : Nat) (t : Tok) (c : Expr) (b : Block) (rest : List (Expr × Block)) (els : Option Block) :
    ifChain (f+1) t ((c, b) :: rest) els = (do
      let v ← evalExpr f c
      match v with
      | .bool true => runBlock f b
      | .bool false => ifChain f t rest els
      | _ => rtErr t .condType) := ifChain_cons f t c b rest els

/-- CASE: no clause left → nothing -/
theorem C03_case_unfold_nil (f : Nat) (v : Val) : caseClauses (f+1) v [] = pure () := caseClauses_nil f v

/-- CASE: test the first clause; match → its block (and nothing else); no match → the remaining clauses -/
theorem C03_case_unfold_cons (f : Nat) (v : Val) (cl : Clause) (rest : List Clause) :
    caseClauses (f+1) v (cl :: rest) = (do
      match ← caseMatch f v cl with
      | some b => runBlock f b
      | none => caseClauses f v rest) := caseClauses_cons f v cl rest

/-- the loop body wrapper: BREAK → `true`, CONTINUE → `false`, normal end → `false`, everything else passes -/
theorem C03_body_unfold (f : Nat) (b : Block) :
    loopBody (f+1) b = tryCatch (do runBlock f b; pure false) fun e =>
        match e with
        | .brk _ => pure true
        | .cont _ => pure false
        | e => throw e := loopBody_succ f b

/-! ## 2. run-equations -/

/-- what `loopBody` makes of the result of the block: the state is always the state the block left -/
theorem C03_body_run (f : Nat) (b : Block) (σ : St) :
    (loopBody (f+1) b).run.run σ =
      match (runBlock f b).run.run σ with
      | (.ok _, σ') => (.ok false, σ')
      | (.error (.brk _), σ') => (.ok true, σ')
      | (.error (.cont _), σ') => (.ok false, σ')
      | (.error e, σ') => (.error e, σ') := by
  rw [loopBody_succ, run_tryCatch, run_bind]
  rcases (runBlock f b).run.run σ with ⟨e | a, σ'⟩
  · cases e <;> rfl
  · rfl

/-- WHILE, one round, from a state with budget left -/
theorem C03_while_run (f : Nat) (t : Tok) (c : Expr) (b : Block) (σ : St) (hb : σ.steps + 1 ≤ σ.stepLimit) :
    (whileLoop (f+1) t c b).run.run σ =
      match (evalExpr f c).run.run (tickSt σ) with
      | (.error e, σ1) => (.error e, σ1)
      | (.ok (.bool false), σ1) => (.ok ⟨⟩, σ1)
      | (.ok (.bool true), σ1) =>
        (match (loopBody f b).run.run σ1 with
         | (.error e, σ2) => (.error e, σ2)
         | (.ok true, σ2) => (.ok ⟨⟩, σ2)
         | (.ok false, σ2) => (whileLoop f t c b).run.run σ2)
      | (.ok _, σ1) => (.error (.diag (rtDiag σ1 t.line t.col .condType)), σ1) := by
  rw [whileLoop_succ, run_bind_ok _ _ _ _ _ (run_tick_ok t σ hb), run_bind]
  rcases (evalExpr f c).run.run (tickSt σ) with ⟨e | v, σ1⟩
  · rfl
  · cases v with
    | bool x =>
      cases x
      · rfl
      · simp only
        rw [run_bind]
        rcases (loopBody f b).run.run σ1 with ⟨e | x, σ2⟩
        · rfl
        · cases x <;> rfl
    | _ => exact run_rtErr t .condType σ1

/-- the step budget is checked once per round, before the condition -/
theorem C03_while_budget (f : Nat) (t : Tok) (c : Expr) (b : Block) (σ : St) (hb : σ.steps + 1 > σ.stepLimit) :
    (whileLoop (f+1) t c b).run.run σ = (.error (.diag (rtDiag σ t.line t.col .budget)), σ) := by
  rw [whileLoop_succ, run_bind_err _ _ _ _ _ (run_tick_budget t σ hb)]

/-- REPEAT, one round -/
theorem C03_repeat_run (f : Nat) (t : Tok) (b : Block) (c : Expr) (σ : St) (hb : σ.steps + 1 ≤ σ.stepLimit) :
    (repeatLoop (f+1) t b c).run.run σ =
      match (loopBody f b).run.run (tickSt σ) with
      | (.error e, σ1) => (.error e, σ1)
      | (.ok true, σ1) => (.ok ⟨⟩, σ1)
      | (.ok false, σ1) =>
        (match (evalExpr f c).run.run σ1 with
         | (.error e, σ2) => (.error e, σ2)
         | (.ok (.bool true), σ2) => (.ok ⟨⟩, σ2)
         | (.ok (.bool false), σ2) => (repeatLoop f t b c).run.run σ2
         | (.ok _, σ2) => (.error (.diag (rtDiag σ2 t.line t.col .condType)), σ2)) := by
  rw [repeatLoop_succ, run_bind_ok _ _ _ _ _ (run_tick_ok t σ hb), run_bind]
  rcases (loopBody f b).run.run (tickSt σ) with ⟨e | x, σ1⟩
  · rfl
  · cases x
    · simp only [Bool.false_eq_true, if_false]
      rw [run_bind]
      rcases (evalExpr f c).run.run σ1 with ⟨e | v, σ2⟩
      · rfl
      · cases v with
        | bool y => cases y <;> rfl
        | _ => exact run_rtErr t .condType σ2
    · rfl

/-- FOR, one round (iterator cell holding the INTEGER `i`): the test, then — only if it holds — the budget, the body,
    the re-read of the iterator and the increment. If the test fails nothing at all happens. -/
theorem C03_for_run (f : Nat) (t : Tok) (it : Loc) (stop step : Int) (b : Block) (σ : St) (i : Int)
    (hi : readLocP σ it = .ok (.int i)) :
    (forLoop (f+1) t it stop step b).run.run σ =
      if (step < 0 ∧ i ≥ stop) ∨ (¬ step < 0 ∧ i ≤ stop) then
        if σ.steps + 1 > σ.stepLimit then (.error (.diag (rtDiag σ t.line t.col .budget)), σ)
        else
        match (loopBody f b).run.run (tickSt σ) with
        | (.error e, σ1) => (.error e, σ1)
        | (.ok true, σ1) => (.ok ⟨⟩, σ1)
        | (.ok false, σ1) =>
          (match readLocP σ1 it with
           | .ok (.int j) =>
             (match (writeLoc t it (.int (wrap64 (j + step)))).run.run σ1 with
              | (.ok _, σ2) => (forLoop f t it stop step b).run.run σ2
              | (.error e, σ2) => (.error e, σ2))
           | .ok _ => (.error (.crash .other), σ1)
           | .error e => (.error e, σ1))
      else (.ok ⟨⟩, σ) := by
  have hread : (readLoc it).run.run σ = (.ok (.int i), σ) := by rw [run_readLoc, hi]
  rw [forLoop_succ, run_bind_ok _ _ _ _ _ hread]
  simp only
  by_cases hc : (step < 0 ∧ i ≥ stop) ∨ (¬ step < 0 ∧ i ≤ stop)
  · have hc' : ((decide (step < 0) && decide (i ≥ stop)) || (!decide (step < 0) && decide (i ≤ stop))) = true := by
      simpa using hc
    simp only [hc', hc, if_true]
    by_cases hb : σ.steps + 1 > σ.stepLimit
    · simp only [hb, if_true]
      rw [run_bind_err _ _ _ _ _ (run_tick_budget t σ hb)]
    · simp only [hb, if_false]
      rw [run_bind_ok _ _ _ _ _ (run_tick_ok t σ (by omega)), run_bind]
      rcases (loopBody f b).run.run (tickSt σ) with ⟨e | x, σ1⟩
      · rfl
      · cases x
        · simp only [Bool.false_eq_true, if_false]
          rw [run_bind, run_readLoc]
          rcases readLocP σ1 it with e | v
          · rfl
          · cases v with
            | int j =>
              simp only
              rw [run_bind]
              rcases (writeLoc t it (.int (wrap64 (j + step)))).run.run σ1 with ⟨e | u, σ2⟩ <;> rfl
            | _ => rfl
        · rfl
  · have hc' : ((decide (step < 0) && decide (i ≥ stop)) || (!decide (step < 0) && decide (i ≤ stop))) = false := by
      simpa using hc
    simp only [hc', hc, if_false, Bool.false_eq_true]
    rfl

/-- the iterator cell not holding an INTEGER cannot happen after the FOR statement's checks; in the model it is a
    crash point, never silently continued -/
theorem C03_for_bad_iterator (f : Nat) (t : Tok) (it : Loc) (stop step : Int) (b : Block) (σ : St) (v : Val)
    (hi : readLocP σ it = .ok v) (hv : ∀ i, v ≠ .int i) :
    (forLoop (f+1) t it stop step b).run.run σ = (.error (.crash .other), σ) := by
  have hread : (readLoc it).run.run σ = (.ok v, σ) := by rw [run_readLoc, hi]
  rw [forLoop_succ, run_bind_ok _ _ _ _ _ hread]
  cases v with
  | int i => exact absurd rfl (hv i)
  | _ => rfl

/-- IF, one branch -/
theorem C03_if_run (f : Nat) (t : Tok) (c : Expr) (b : Block) (rest : List (Expr × Block)) (els : Option Block) (σ : St) :
    (ifChain (f+1) t ((c, b) :: rest) els).run.run σ =
      match (evalExpr f c).run.run σ with
      | (.error e, σ1) => (.error e, σ1)
      | (.ok (.bool true), σ1) => (runBlock f b).run.run σ1
      | (.ok (.bool false), σ1) => (ifChain f t rest els).run.run σ1
      | (.ok _, σ1) => (.error (.diag (rtDiag σ1 t.line t.col .condType)), σ1) := by
  rw [ifChain_cons, run_bind]
  rcases (evalExpr f c).run.run σ with ⟨e | v, σ1⟩
  · rfl
  · cases v with
    | bool x => cases x <;> rfl
    | _ => exact run_rtErr t .condType σ1

/-- CASE, one clause -/
theorem C03_case_run (f : Nat) (v : Val) (cl : Clause) (rest : List Clause) (σ : St) :
    (caseClauses (f+1) v (cl :: rest)).run.run σ =
      match (caseMatch f v cl).run.run σ with
      | (.error e, σ1) => (.error e, σ1)
      | (.ok (some b), σ1) => (runBlock f b).run.run σ1
      | (.ok none, σ1) => (caseClauses f v rest).run.run σ1 := by
  rw [caseClauses_cons, run_bind]
  rcases (caseMatch f v cl).run.run σ with ⟨e | o, σ1⟩
  · rfl
  · cases o <;> rfl

/-! ## 3. whole IF / CASE statements -/

/-- the conditions of the branches `pre` are evaluated one after the other, from `σ` to `σ'`, and each yields FALSE
    (`f + 1` is the fuel left for the rest of the chain after them) -/
inductive CondsFalse (f : Nat) : List (Expr × Block) → St → St → Prop
  | nil (σ : St) : CondsFalse f [] σ σ
  | cons (c : Expr) (b : Block) (rest : List (Expr × Block)) (σ σ1 σ2 : St) :
      (evalExpr (f + rest.length + 1) c).run.run σ = (.ok (.bool false), σ1) →
      CondsFalse f rest σ1 σ2 → CondsFalse f ((c, b) :: rest) σ σ2

/-- branches whose conditions are FALSE are skipped: only their conditions are evaluated, no block runs -/
theorem C03_if_skip (f : Nat) (t : Tok) (tail : List (Expr × Block)) (els : Option Block) :
    ∀ (pre : List (Expr × Block)) (σ σ1 : St), CondsFalse f pre σ σ1 →
      (ifChain (f + pre.length + 1) t (pre ++ tail) els).run.run σ = (ifChain (f + 1) t tail els).run.run σ1 := by
  intro pre σ σ1 h
  induction h with
  | nil σ => rfl
  | cons c b rest σ σ1 σ2 hc _ ih =>
    show (ifChain ((f + rest.length + 1) + 1) t ((c, b) :: (rest ++ tail)) els).run.run σ = _
    rw [C03_if_run, hc]
    exact ih

/-- **IF: the block of the first TRUE condition runs, and nothing after it is evaluated.**
    The earlier conditions are evaluated in order (each FALSE); then the run of the whole statement *is* the run of
    the block `b` from the state the TRUE condition left — whatever `rest` and `els` are. -/
theorem C03_if_first_true (f : Nat) (t : Tok) (pre : List (Expr × Block)) (c : Expr) (b : Block)
    (rest : List (Expr × Block)) (els : Option Block) (σ σ1 σ2 : St)
    (hpre : CondsFalse f pre σ σ1)
    (hc : (evalExpr f c).run.run σ1 = (.ok (.bool true), σ2)) :
    (ifChain (f + pre.length + 1) t (pre ++ (c, b) :: rest) els).run.run σ = (runBlock f b).run.run σ2 := by
  rw [C03_if_skip f t _ els pre σ σ1 hpre, C03_if_run, hc]

/-- IF: all conditions FALSE → the ELSE block from the state the last condition left, or nothing -/
theorem C03_if_all_false (f : Nat) (t : Tok) (pre : List (Expr × Block)) (els : Option Block) (σ σ1 : St)
    (hpre : CondsFalse f pre σ σ1) :
    (ifChain (f + pre.length + 1) t pre els).run.run σ =
      match els with
      | some b => (runBlock f b).run.run σ1
      | none => (.ok ⟨⟩, σ1) := by
  have := C03_if_skip f t [] els pre σ σ1 hpre
  rw [List.append_nil] at this
  rw [this, ifChain_nil]
  cases els <;> rfl

/-- IF: a condition that is not a BOOLEAN is a runtime error at the IF token; no block runs, no later condition is
    evaluated (the final state is the one that condition left) -/
theorem C03_if_nonbool (f : Nat) (t : Tok) (pre : List (Expr × Block)) (c : Expr) (b : Block)
    (rest : List (Expr × Block)) (els : Option Block) (σ σ1 σ2 : St) (v : Val)
    (hpre : CondsFalse f pre σ σ1)
    (hc : (evalExpr f c).run.run σ1 = (.ok v, σ2)) (hv : ∀ x, v ≠ .bool x) :
    ∃ d, (ifChain (f + pre.length + 1) t (pre ++ (c, b) :: rest) els).run.run σ = (.error (.diag d), σ2) ∧
      d.msg = .condType ∧ d.kind = .runtime ∧ d.line = t.line ∧ d.col = t.col := by
  refine ⟨rtDiag σ2 t.line t.col .condType, ?_, by simp⟩
  rw [C03_if_skip f t _ els pre σ σ1 hpre, C03_if_run, hc]
  cases v with
  | bool x => exact absurd rfl (hv x)
  | _ => rfl

/-- IF: an error while evaluating a condition is the error of the statement -/
theorem C03_if_cond_error (f : Nat) (t : Tok) (pre : List (Expr × Block)) (c : Expr) (b : Block)
    (rest : List (Expr × Block)) (els : Option Block) (σ σ1 σ2 : St) (e : Stop)
    (hpre : CondsFalse f pre σ σ1)
    (hc : (evalExpr f c).run.run σ1 = (.error e, σ2)) :
    (ifChain (f + pre.length + 1) t (pre ++ (c, b) :: rest) els).run.run σ = (.error e, σ2) := by
  rw [C03_if_skip f t _ els pre σ σ1 hpre, C03_if_run, hc]

/-- the clauses `pre` are tested one after the other against the selector value `v`, none matches -/
inductive ClausesMiss (f : Nat) (v : Val) : List Clause → St → St → Prop
  | nil (σ : St) : ClausesMiss f v [] σ σ
  | cons (cl : Clause) (rest : List Clause) (σ σ1 σ2 : St) :
      (caseMatch (f + rest.length + 1) v cl).run.run σ = (.ok none, σ1) →
      ClausesMiss f v rest σ1 σ2 → ClausesMiss f v (cl :: rest) σ σ2

theorem C03_case_skip (f : Nat) (v : Val) (tail : List Clause) :
    ∀ (pre : List Clause) (σ σ1 : St), ClausesMiss f v pre σ σ1 →
      (caseClauses (f + pre.length + 1) v (pre ++ tail)).run.run σ = (caseClauses (f + 1) v tail).run.run σ1 := by
  intro pre σ σ1 h
  induction h with
  | nil σ => rfl
  | cons cl rest σ σ1 σ2 hc _ ih =>
    show (caseClauses ((f + rest.length + 1) + 1) v (cl :: (rest ++ tail))).run.run σ = _
    rw [C03_case_run, hc]
    exact ih

/-- **CASE: the block of the first matching clause runs, and no later clause is tested** (OTHERWISE is the clause
    that always matches: `caseMatch _ _ (.otherwise b) = some b`). -/
theorem C03_case_first_match (f : Nat) (v : Val) (pre : List Clause) (cl : Clause) (rest : List Clause) (b : Block)
    (σ σ1 σ2 : St) (hpre : ClausesMiss f v pre σ σ1)
    (hc : (caseMatch f v cl).run.run σ1 = (.ok (some b), σ2)) :
    (caseClauses (f + pre.length + 1) v (pre ++ cl :: rest)).run.run σ = (runBlock f b).run.run σ2 := by
  rw [C03_case_skip f v _ pre σ σ1 hpre, C03_case_run, hc]

/-- CASE: no clause matches → nothing happens beyond the evaluation of the clause values -/
theorem C03_case_no_match (f : Nat) (v : Val) (pre : List Clause) (σ σ1 : St) (hpre : ClausesMiss f v pre σ σ1) :
    (caseClauses (f + pre.length + 1) v pre).run.run σ = (.ok ⟨⟩, σ1) := by
  have := C03_case_skip f v [] pre σ σ1 hpre
  rw [List.append_nil] at this
  rw [this, caseClauses_nil]
  rfl

/-- OTHERWISE matches every selector value, evaluating nothing -/
theorem C03_case_otherwise (f : Nat) (v : Val) (b : Block) (σ : St) :
    (caseMatch (f+1) v (.otherwise b)).run.run σ = (.ok (some b), σ) := by
  rw [caseMatch.eq_def]; rfl

/-! ## 4. FOR against the closed form -/

theorem forSeq_succ_of (n : Nat) (i stop step : Int) (h : (step < 0 ∧ i ≥ stop) ∨ (¬ step < 0 ∧ i ≤ stop)) :
    forSeq (n + 1) i stop step = (i :: (forSeq n (i + step) stop step).1, (forSeq n (i + step) stop step).2) := by
  conv => lhs; unfold forSeq
  simp only [h, if_true]

theorem forSeq_succ_not (n : Nat) (i stop step : Int) (h : ¬ ((step < 0 ∧ i ≥ stop) ∨ (¬ step < 0 ∧ i ≤ stop))) :
    forSeq (n + 1) i stop step = ([], i) := by
  conv => lhs; unfold forSeq
  simp only [h, if_false]

/-- **FOR runs its body once per element of `forSeq` and leaves the iterator at `forSeq`'s final value**, for a body
    that leaves the iterator cell alone.

    `Inv k σ` is any property of "the state with `k` rounds still to go" (chosen by the user: it can count the
    rounds, carry the budget `σ.steps + k·cost ≤ σ.stepLimit`, the validity of the iterator location, …).
    Hypothesis `hround`, one round, for every body fuel `f' ≥ f0`: from a state with `Inv (k+1)` whose iterator holds
    `i`, there is budget for the round, the body ends normally or by CONTINUE (`loopBody` returns `false`) without
    changing the iterator cell, and the increment can be written, after which `Inv k` holds.
    Conclusion: with `l = (forSeq n i0 stop step).1` (`n` large enough for `forSeq` not to run out: `l.length < n`;
    no 64-bit wrap-around on the way), the loop ends normally after exactly `l.length` rounds (`Inv l.length` has
    become `Inv 0`), and the iterator holds `(forSeq n i0 stop step).2` — by `C03_for_sequence_pos` the first value
    past `stop`. -/
theorem C03_for_matches_forSeq (Inv : Nat → St → Prop) (f0 : Nat) (t : Tok) (it : Loc) (stop step : Int) (b : Block)
    (hround : ∀ (k : Nat) (σ : St) (i : Int) (f' : Nat), f0 ≤ f' → Inv (k + 1) σ → readLocP σ it = .ok (.int i) →
      σ.steps + 1 ≤ σ.stepLimit ∧
      ∃ σ1, (loopBody f' b).run.run (tickSt σ) = (.ok false, σ1) ∧ readLocP σ1 it = .ok (.int i) ∧
      ∃ σ2, (writeLoc t it (.int (wrap64 (i + step)))).run.run σ1 = (.ok ⟨⟩, σ2) ∧
        readLocP σ2 it = .ok (.int (wrap64 (i + step))) ∧ Inv k σ2) :
    ∀ (n : Nat) (i0 : Int) (σ : St),
      (forSeq n i0 stop step).1.length < n →
      (∀ i ∈ (forSeq n i0 stop step).1, wrap64 (i + step) = i + step) →
      Inv (forSeq n i0 stop step).1.length σ → readLocP σ it = .ok (.int i0) →
      ∃ σ', (forLoop (f0 + (forSeq n i0 stop step).1.length + 1) t it stop step b).run.run σ = (.ok ⟨⟩, σ') ∧
        readLocP σ' it = .ok (.int (forSeq n i0 stop step).2) ∧ Inv 0 σ' := by
  intro n
  induction n with
  | zero => intro i0 σ h; exact absurd h (Nat.not_lt_zero _)
  | succ n ih =>
    intro i0 σ hlen hwrap hinv hread
    by_cases hc : (step < 0 ∧ i0 ≥ stop) ∨ (¬ step < 0 ∧ i0 ≤ stop)
    · rw [forSeq_succ_of n i0 stop step hc] at hlen hwrap hinv ⊢
      simp only [List.length_cons] at hlen hinv ⊢
      obtain ⟨hbud, σ1, hbody, hread1, σ2, hwrite, hread2, hinv2⟩ :=
        hround _ σ i0 (f0 + (forSeq n (i0 + step) stop step).1.length + 1) (by omega) hinv hread
      have hw : wrap64 (i0 + step) = i0 + step := hwrap i0 (List.mem_cons_self)
      rw [hw] at hread2
      obtain ⟨σ', hrun, hfin, hinv0⟩ := ih (i0 + step) σ2 (by omega)
        (fun i hi => hwrap i (List.mem_cons_of_mem _ hi)) hinv2 hread2
      refine ⟨σ', ?_, hfin, hinv0⟩
      show (forLoop ((f0 + (forSeq n (i0 + step) stop step).1.length + 1) + 1) t it stop step b).run.run σ = _
      rw [C03_for_run _ t it stop step b σ i0 hread]
      have hnb : ¬ (σ.steps + 1 > σ.stepLimit) := by omega
      simp only [hc, if_true, hnb, if_false, hbody, hread1, hwrite]
      exact hrun
    · rw [forSeq_succ_not n i0 stop step hc] at hinv ⊢
      refine ⟨σ, ?_, hread, hinv⟩
      simp only [List.length_nil, Nat.add_zero]
      rw [C03_for_run _ t it stop step b σ i0 hread]
      simp only [hc, if_false]

/-- The same from facts about the body alone ("does not change the iterator cell"): for every fuel `f' ≥ f0`, from a
    state whose iterator cell holds `i` and is not a constant, `loopBody f' b` returns `false` (normal end or CONTINUE)
    in a state where the iterator cell still holds `i` and is still not a constant, having counted at most `cost` steps
    and left the step limit alone. Then, with budget for `l.length · (cost + 1)` steps, the FOR loop ends normally with
    the iterator at `forSeq`'s final value. (The increment is written by `writeLoc`: `run_writeLoc_ok`.) -/
theorem C03_for_matches_forSeq_body (f0 cost : Nat) (t : Tok) (it : Loc) (stop step : Int) (b : Block)
    (hbody : ∀ (f' : Nat) (σ : St) (i : Int), f0 ≤ f' → readLocP σ it = .ok (.int i) → locConstP σ it = false →
      ∃ σ1, (loopBody f' b).run.run σ = (.ok false, σ1) ∧ readLocP σ1 it = .ok (.int i) ∧ locConstP σ1 it = false ∧
        σ1.steps ≤ σ.steps + cost ∧ σ1.stepLimit = σ.stepLimit)
    (n : Nat) (i0 : Int) (σ : St)
    (hlen : (forSeq n i0 stop step).1.length < n)
    (hwrap : ∀ i ∈ (forSeq n i0 stop step).1, wrap64 (i + step) = i + step)
    (hread : readLocP σ it = .ok (.int i0)) (hconst : locConstP σ it = false)
    (hbudget : σ.steps + (forSeq n i0 stop step).1.length * (cost + 1) ≤ σ.stepLimit) :
    ∃ σ', (forLoop (f0 + (forSeq n i0 stop step).1.length + 1) t it stop step b).run.run σ = (.ok ⟨⟩, σ') ∧
      readLocP σ' it = .ok (.int (forSeq n i0 stop step).2) ∧ locConstP σ' it = false := by
  let Inv : Nat → St → Prop := fun k σ => locConstP σ it = false ∧ σ.steps + k * (cost + 1) ≤ σ.stepLimit
  have hround : ∀ (k : Nat) (σ : St) (i : Int) (f' : Nat), f0 ≤ f' → Inv (k + 1) σ → readLocP σ it = .ok (.int i) →
      σ.steps + 1 ≤ σ.stepLimit ∧
      ∃ σ1, (loopBody f' b).run.run (tickSt σ) = (.ok false, σ1) ∧ readLocP σ1 it = .ok (.int i) ∧
      ∃ σ2, (writeLoc t it (.int (wrap64 (i + step)))).run.run σ1 = (.ok ⟨⟩, σ2) ∧
        readLocP σ2 it = .ok (.int (wrap64 (i + step))) ∧ Inv k σ2 := by
    intro k σ i f' hf ⟨hc, hbud⟩ hr
    rw [Nat.succ_mul] at hbud
    refine ⟨by omega, ?_⟩
    obtain ⟨σ1, hrun, hr1, hc1, hsteps, hlim⟩ := hbody f' (tickSt σ) i hf hr hc
    refine ⟨σ1, hrun, hr1, ?_⟩
    obtain ⟨F, _, hw, hr2, hc2⟩ := run_writeLoc_ok t it (.int (wrap64 (i + step))) (.int i) σ1 hr1 hc1 rfl
    refine ⟨_, hw, hr2, hc2, ?_⟩
    show σ1.steps + k * (cost + 1) ≤ σ1.stepLimit
    have : (tickSt σ).steps = σ.steps + 1 := rfl
    have : (tickSt σ).stepLimit = σ.stepLimit := rfl
    omega
  obtain ⟨σ', hrun, hfin, hinv⟩ :=
    C03_for_matches_forSeq Inv f0 t it stop step b hround n i0 σ hlen hwrap ⟨hconst, hbudget⟩ hread
  exact ⟨σ', hrun, hfin, hinv.1⟩

/-! ## non-vacuity -/
namespace C03LoopsEx

def exT : Tok := { k := .IDENTIFIER, line := 2, col := 1, val := "i".toList }
def exIt : Loc := { act := 0, isArr := false, name := "i".toList, path := [] }
/-- global activation with `i : INTEGER = 1` -/
def exLoopSt : St :=
  { acts := [{ id := 0, name := "Program".toList, vars := [{ name := "i".toList, ty := .int, val := .int 1 }] }] }

/-- IF FALSE … ELSE IF TRUE … ELSE IF (not evaluated): hypotheses of `C03_if_first_true` -/
example : CondsFalse 2 [(.boolLit exT false, [])] exLoopSt exLoopSt :=
  .cons _ _ _ _ _ _ rfl (.nil _)
example : (evalExpr 2 (.boolLit exT true)).run.run exLoopSt = (.ok (.bool true), exLoopSt) := rfl
/-- … and a non-BOOLEAN condition (hypothesis of `C03_if_nonbool`) -/
example : (evalExpr 2 (.intLit exT 3)).run.run exLoopSt = (.ok (.int 3), exLoopSt) ∧ ∀ x, Val.int 3 ≠ .bool x :=
  ⟨rfl, fun _ h => nomatch h⟩
/-- CASE 1 OF 2: … 1: … : the first clause misses, the second matches -/
example : ClausesMiss 2 (.int 1) [.eq (.intLit exT 2) []] exLoopSt exLoopSt :=
  .cons _ _ _ _ _ rfl (.nil _)
example : (caseMatch 2 (.int 1) (.eq (.intLit exT 1) [.brk exT])).run.run exLoopSt = (.ok (some [.brk exT]), exLoopSt) := rfl
/-- the body wrapper on BREAK / CONTINUE / a normal end -/
example : ((loopBody 4 [.brk exT]).run.run exLoopSt).1 = .ok true := rfl
example : ((loopBody 4 [.cont exT]).run.run exLoopSt).1 = .ok false := rfl
example : ((loopBody 4 []).run.run exLoopSt).1 = .ok false := rfl
/-- WHILE with a non-BOOLEAN condition: the body (a BREAK) is not run -/
example : ∃ d, ((whileLoop 5 exT (.intLit exT 3) [.brk exT]).run.run exLoopSt).1 = .error (.diag d) ∧ d.msg = .condType :=
  ⟨_, rfl, rfl⟩
/-- REPEAT CONTINUE UNTIL TRUE ends after one round: the UNTIL test is reached after CONTINUE -/
example : ((repeatLoop 5 exT [.cont exT] (.boolLit exT true)).run.run exLoopSt).1 = .ok ⟨⟩ := rfl

/-- the hypotheses of `C03_for_matches_forSeq_body` hold for the empty body (and for any body fuel ≥ 2) -/
theorem ex_empty_body (f' : Nat) (σ : St) (i : Int) (hf : 2 ≤ f') (hr : readLocP σ exIt = .ok (.int i))
    (hc : locConstP σ exIt = false) :
    ∃ σ1, (loopBody f' []).run.run σ = (.ok false, σ1) ∧ readLocP σ1 exIt = .ok (.int i) ∧ locConstP σ1 exIt = false ∧
      σ1.steps ≤ σ.steps + 0 ∧ σ1.stepLimit = σ.stepLimit := by
  obtain ⟨g, rfl⟩ : ∃ g, f' = g + 2 := ⟨f' - 2, by omega⟩
  refine ⟨σ, ?_, hr, hc, Nat.le_refl _, rfl⟩
  rw [C03_body_run, runBlock_nil]
  rfl

/-- FOR i ← 1 TO 7 STEP 2 with an empty body: four rounds, the iterator ends at 9 -/
example : ∃ σ', (forLoop (2 + 4 + 1) exT exIt 7 2 []).run.run exLoopSt = (.ok ⟨⟩, σ') ∧
    readLocP σ' exIt = .ok (.int 9) ∧ locConstP σ' exIt = false := by
  have h := C03_for_matches_forSeq_body 2 0 exT exIt 7 2 [] (fun f' σ i => ex_empty_body f' σ i) 10 1 exLoopSt
    (by decide) (by decide) rfl rfl (by decide)
  have e : forSeq 10 1 7 2 = ([1, 3, 5, 7], 9) := by decide
  rw [e] at h
  exact h

end C03LoopsEx

end Pseudo
