import PseudoProofs.ExprDenoteVarsLeaves
/-!
# C02 (value half) over literals AND TYPED VARIABLES

`Properties/C02Full.lean` proves the value half of C02 for trees whose leaves are literals.  C02 is quantified over
"all well-typed expression trees up to depth 6 over literals and typed variables"; this file adds the variable leaves.

* trees `VExpr` (`PseudoProofs/ExprDenoteVars.lean`): the trees of `C02Full` plus the leaf `var t` — the plain variable
  access `Expr.access t (Ref.var t)` the parser builds for an identifier token `t`; `denoteV : VExpr → Expr`;
* `evalTV ρ : VExpr → Except (Tok × Msg) Val` — the reference semantics of `C02Full` (`evalT`) with an environment
  `ρ : Str → Option Val`: a variable leaf denotes `ρ x`; a name without a value is the error `notDefined` at its token;
* `C02_eval_denote_vars` — in any state `σ` that agrees with `ρ` on the names occurring in `e` (`Agrees σ ρ e`: a name
  with `ρ x = some v` resolves — current activation first, then the global one; BYREF aliases followed — to a variable
  reading the primitive value `v`; a name with `ρ x = none` is neither a variable, nor an array, nor an enumeration
  literal), the evaluator run on `denoteV e` with fuel `> e.size` returns exactly the value `evalTV ρ e` denotes, or stops
  with the runtime diagnostic of the denoted class at the denoted token; the state is unchanged either way;
  `…_ok`, `…_error`, `…_outcome`; `C02_eval_denote_state` — the same with `ρ` read off the state (`envOf σ`);
  `C02_vars_fuel_of_depth` — fuel `3 · 2^d` is enough for operator depth `d` (192 for depth 6);
* `C02_vars_undefined` — an undefined name is the `notDefined` runtime error at the name's token;
  `C02_vars_enum_literal` — why `NoName` must exclude enumeration literals: for such a name the evaluator's
  `catchNotDefined` fallback returns the enumeration value;
* `C02_vars_subst`, `C02_vars_subst_noReal`, `C02_vars_transfer` — the substitution lemma: `evalTV ρ e` is `evalT` of the
  tree in which every variable leaf is replaced by the literal of its value, so every theorem of `C02Full` about
  `evalT` transfers; `C02_vars_extends_full` — on trees without variables `evalTV` is `evalT`;
* the typing corollaries of `C02Full`, stated directly for trees with variables (also REAL variables holding any
  `Float`, for which no literal text need exist): `C02_vars_div_is_real`, `C02_vars_result_type`,
  `C02_vars_real_iff`, `C02_vars_int_closed`, `C02_vars_no_real`, `C02_vars_mixed_promotes`, `C02_vars_int_exact`
  (INTEGER variables: `+ - *` are exact integer arithmetic wrapped to 64 bits), `C02_vars_divmod_law`,
  `C02_vars_zero_divisor`, `C02_vars_cmp_bool`, `C02_vars_logic_bool`, `C02_vars_value_type`;
* the acceptance table per operand types: `C02_vars_error_iff`, `C02_vars_error_iff_cmp`, `C02_vars_error_iff_logic`,
  `C02_vars_error_iff_unary`, `C02_vars_accept_arith` (two variables), `C02_vars_error_site`;
* other leaves (stretch): `C02_vars_step` — one operator node on ARBITRARY operand expressions that evaluate without
  changing the state (array elements, record fields, calls without side effects) computes `arithT` / `cmpT` / `logicT` /
  `concatT` / `negT` / `notT` of the operand values; `C02_vars_elem_leaf_partial` (element `a[ie]` of a one-dimensional
  array, `ie` any expression evaluating to an in-bounds INTEGER), `C02_vars_field_leaf_partial` (scalar member `r.m` of a
  record held by a plain variable) — such leaves evaluate to the cell / member and leave the state unchanged.
-/
namespace Pseudo

open ExprDenote ExprDenoteVars C02Eval FloatFmt

/-! ## C02, evaluator level, trees over literals and variables -/

/-- **C02 (value, with variables)**: for every tree `e` over INTEGER / REAL / BOOLEAN / CHAR / STRING literals, variable
    names, the 15 binary operators, unary minus, `NOT` and parentheses, every environment `ρ`, and every state `σ`
    * in which type names can be resolved (`HasScope σ`: needed by the arithmetic node, which looks up the enum table), and
    * which agrees with `ρ` on the names occurring in `e` (`Agrees σ ρ e`: if `ρ x = some v` then `v` has one of the five
      primitive types and `x` resolves in `σ` — current activation, then global — to a variable reading `v`; if
      `ρ x = none` then `x` is no variable, no array and no enumeration literal),
    the evaluator run on the AST `denoteV e` with fuel `> e.size` ends exactly as the reference semantics `evalTV ρ e`
    says:
    * `evalTV ρ e = .ok v`: it returns `v`, and the state is unchanged;
    * `evalTV ρ e = .error (t, m)`: it stops with the runtime diagnostic of message class `m` positioned at the token
      `t` (the failing operator, or the undefined name), and the state is unchanged. -/
theorem C02_eval_denote_vars (ρ : Env) (e : VExpr) (fuel : Nat) (σ : St) (hf : fuel > e.size) (hs : HasScope σ)
    (ha : Agrees σ ρ e) :
    (evalExpr fuel (denoteV e)).run.run σ =
      (match evalTV ρ e with
       | .ok v => (.ok v, σ)
       | .error (t, m) => (.error (.diag (rtDiag σ t.line t.col m)), σ)) := by
  rw [eval_denote_outTV ρ e fuel σ hf hs ha]
  cases evalTV ρ e <;> rfl

/-- success clause -/
theorem C02_eval_denote_vars_ok (ρ : Env) (e : VExpr) (v : Val) (fuel : Nat) (σ : St) (h : evalTV ρ e = .ok v)
    (hf : fuel > e.size) (hs : HasScope σ) (ha : Agrees σ ρ e) :
    (evalExpr fuel (denoteV e)).run.run σ = (.ok v, σ) := by
  rw [C02_eval_denote_vars ρ e fuel σ hf hs ha, h]

/-- error clause: a runtime diagnostic of the denoted class at the denoted token; the state is unchanged -/
theorem C02_eval_denote_vars_error (ρ : Env) (e : VExpr) (t : Tok) (m : Msg) (fuel : Nat) (σ : St)
    (h : evalTV ρ e = .error (t, m)) (hf : fuel > e.size) (hs : HasScope σ) (ha : Agrees σ ρ e) :
    ∃ d, (evalExpr fuel (denoteV e)).run.run σ = (.error (.diag d), σ) ∧
      d = rtDiag σ t.line t.col m ∧ d.kind = .runtime ∧ d.msg = m ∧ d.line = t.line ∧ d.col = t.col := by
  refine ⟨rtDiag σ t.line t.col m, ?_, rfl, by simp, by simp, by simp, by simp⟩
  rw [C02_eval_denote_vars ρ e fuel σ hf hs ha, h]

/-- the same with the environment read off the state: `envOf σ x` is the value the name `x` reads as a variable of
    the current, else the global activation.  Hypothesis: every name of `e` is a variable reading a primitive value or
    denotes nothing at all. -/
theorem C02_eval_denote_state (e : VExpr) (fuel : Nat) (σ : St) (hf : fuel > e.size) (hs : HasScope σ)
    (hv : ∀ x ∈ e.vars, (∃ v, envOf σ x = some v ∧ IsLit v = true) ∨ (envOf σ x = none ∧ NoName σ x)) :
    (evalExpr fuel (denoteV e)).run.run σ =
      (match evalTV (envOf σ) e with
       | .ok v => (.ok v, σ)
       | .error (t, m) => (.error (.diag (rtDiag σ t.line t.col m)), σ)) := by
  apply C02_eval_denote_vars (envOf σ) e fuel σ hf hs
  intro x hx
  rcases hv x hx with ⟨v, h1, h2⟩ | ⟨h1, h2⟩
  · rw [h1]; exact ⟨h2, VarIs.of_envOf h1⟩
  · rw [h1]; exact h2

/-- fuel from the operator depth: `3 · 2^d` is enough for a tree of operator depth `d` (a leaf has depth 0), so 192
    covers the depth-6 trees of the property -/
theorem C02_vars_fuel_of_depth (ρ : Env) (e : VExpr) (d : Nat) (hd : e.depth ≤ d) (σ : St) (hs : HasScope σ)
    (ha : Agrees σ ρ e) :
    (evalExpr (3 * 2 ^ d) (denoteV e)).run.run σ =
      (match evalTV ρ e with
       | .ok v => (.ok v, σ)
       | .error (t, m) => (.error (.diag (rtDiag σ t.line t.col m)), σ)) := by
  apply C02_eval_denote_vars ρ e _ σ _ hs ha
  have h1 := e.size_lt_depth
  have h2 : 2 ^ e.depth ≤ 2 ^ d := Nat.pow_le_pow_right (by omega) hd
  omega

/-! ## names that are not variables -/

/-- an undefined name — no variable, no array, no enumeration literal of that name is visible — is the runtime error
    `notDefined` positioned at the name's token; the state is unchanged -/
theorem C02_vars_undefined (t : Tok) (f : Nat) (σ : St) (hs : HasScope σ) (h : NoName σ t.val) :
    ∃ d, (evalExpr (f+2) (denoteV (.var t))).run.run σ = (.error (.diag d), σ) ∧
      d.kind = .runtime ∧ d.msg = .notDefined ∧ d.line = t.line ∧ d.col = t.col := by
  refine ⟨rtDiag σ t.line t.col .notDefined, run_access_undefined σ t f hs h, by simp, by simp, by simp, by simp⟩

/-- … and an error inside an expression is the error of the whole expression: `ρ x = none` for the first failing
    leaf gives `evalTV ρ e = .error (x, notDefined)` by the strictness of the operators; at the root: -/
theorem C02_vars_undefined_denote (ρ : Env) (t : Tok) (h : ρ t.val = none) :
    evalTV ρ (.var t) = .error (t, .notDefined) := by
  simp only [evalTV, h]

/-- why `NoName` excludes enumeration literals: a name that is neither a variable nor an array but a literal of a
    visible enumerated type evaluates — through the `catchNotDefined` fallback — to the enumeration value -/
theorem C02_vars_enum_literal (t : Tok) (f : Nat) (σ : St) (hs : HasScope σ) (cur g : Act) (rest : List Act) (ev : Val)
    (hacts : σ.acts = cur :: rest) (hg : σ.acts.getLast? = some g) (hl : lookupVarIn cur g t.val = none)
    (hla : lookupArrIn cur g t.val = none) (hen : enumLitV σ t.val = some ev) :
    (evalExpr (f+2) (denoteV (.var t))).run.run σ = (.ok ev, σ) :=
  run_access_enumLit σ t f hs cur g rest ev hacts hg hl hla hen

/-! ## substitution -/

/-- **substitution lemma**: if every variable of `e` has a primitive value in `ρ` and `txt` gives, for the REAL
    values, a literal text that reads back as that value, then `evalTV ρ e` is `evalT` of the tree `substV ρ txt e` in
    which every variable leaf is replaced by the literal of its value (at the variable's token) -/
theorem C02_vars_subst (ρ : Env) (txt : Float → Str) (e : VExpr) (hb : Bound ρ e) (hl : LitEnv ρ e)
    (hr : RealTexts ρ txt e) : evalTV ρ e = evalT (substV ρ txt e) :=
  evalTV_subst ρ txt e hb hl hr

/-- without REAL variables no text is needed -/
theorem C02_vars_subst_noReal (ρ : Env) (e : VExpr) (hb : Bound ρ e) (hl : LitEnv ρ e)
    (hn : ∀ x ∈ e.vars, ∀ y, ρ x ≠ some (.real y)) : evalTV ρ e = evalT (substV ρ (fun _ => []) e) :=
  evalTV_subst ρ _ e hb hl (fun x hx y hy => absurd hy (hn x hx y))

/-- transfer: whatever `C02Full` proves about the `evalT` of all literal trees holds for `evalTV ρ e` -/
theorem C02_vars_transfer (P : Except (Tok × Msg) Val → Prop) (hP : ∀ e : TExpr, P (evalT e))
    (ρ : Env) (txt : Float → Str) (e : VExpr) (hb : Bound ρ e) (hl : LitEnv ρ e) (hr : RealTexts ρ txt e) :
    P (evalTV ρ e) := by
  rw [evalTV_subst ρ txt e hb hl hr]
  exact hP _

/-- on trees without variable leaves `evalTV` is `evalT` and `denoteV` is `denoteT`: the theorem above extends
    `C02_eval_denote_full` -/
theorem C02_vars_extends_full (ρ : Env) (e : TExpr) :
    evalTV ρ (ofT e) = evalT e ∧ denoteV (ofT e) = denoteT e ∧ (ofT e).size = e.size ∧ (ofT e).vars = [] :=
  ⟨evalTV_ofT ρ e, denoteV_ofT e, size_ofT e, vars_ofT e⟩

/-! ## typing corollaries (all by structural reasoning on `evalTV`) -/

theorem IsLit_of_IsNum {a : Val} (h : IsNum a = true) : IsLit a = true := by
  cases a <;> simp [IsNum] at h <;> rfl

/-- `/` never yields an INTEGER: its value, whatever the operand types, is a REAL -/
theorem C02_vars_div_is_real (ρ : Env) (t : Tok) (l r : VExpr) (v : Val)
    (h : evalTV ρ (.arith t .div l r) = .ok v) : ∃ x, v = .real x := by
  rw [evalTV_arith] at h
  obtain ⟨a, b, _, _, hv⟩ := bin2_ok.mp h
  unfold arithT at hv
  split at hv <;> (try simp only [intOp, realOp] at hv) <;> (try split at hv) <;> cases hv <;> exact ⟨_, rfl⟩

/-- result type of an arithmetic node from the types of its operand values: the operands are numbers, `/` is REAL,
    `DIV` is INTEGER, the others are REAL iff an operand is REAL -/
theorem C02_vars_result_type (ρ : Env) (t : Tok) (op : ArOp) (l r : VExpr) (a b v : Val)
    (hl : evalTV ρ l = .ok a) (hr : evalTV ρ r = .ok b) (h : evalTV ρ (.arith t op l r) = .ok v) :
    IsNum a = true ∧ IsNum b = true ∧
    v.ty = (if op = .div then Ty.real else if op = .idiv then Ty.int
            else if a.ty = .real ∨ b.ty = .real then Ty.real else Ty.int) := by
  rw [evalTV_arith, hl, hr] at h
  have hv : arithT op a b = .ok v := atTok_ok.mp h
  have hn : IsNum a = true ∧ IsNum b = true := by
    cases ha : IsNum a <;> cases hb : IsNum b <;> try exact ⟨rfl, rfl⟩
    all_goals
      have := (arithT_error (op := op) (a := a) (b := b) (m := .typeMismatch)).mpr (.inl ⟨by simp [ha, hb], rfl⟩)
      rw [this] at hv; cases hv
  refine ⟨hn.1, hn.2, ?_⟩
  have hla : a.ty = .int ∨ a.ty = .real := by cases a <;> simp [IsNum] at hn <;> simp [Val.ty]
  have hrb : b.ty = .int ∨ b.ty = .real := by cases b <;> simp [IsNum] at hn <;> simp [Val.ty]
  rw [arithT_eq noEnum op a b (IsLit_of_IsNum hn.1) (IsLit_of_IsNum hn.2)] at hv
  exact C02_result_type op a b v hla hrb hv

/-- the result tag is REAL iff the operator is `/`, or it is not `DIV` and an operand is REAL -/
theorem C02_vars_real_iff (ρ : Env) (t : Tok) (op : ArOp) (l r : VExpr) (a b v : Val)
    (hl : evalTV ρ l = .ok a) (hr : evalTV ρ r = .ok b) (h : evalTV ρ (.arith t op l r) = .ok v) :
    v.ty = .real ↔ (op = .div ∨ (op ≠ .idiv ∧ (a.ty = .real ∨ b.ty = .real))) := by
  rw [(C02_vars_result_type ρ t op l r a b v hl hr h).2.2]
  by_cases h1 : op = .div
  · simp [h1]
  · by_cases h2 : op = .idiv
    · simp [h2]
    · by_cases h3 : a.ty = .real ∨ b.ty = .real <;> simp [h1, h2, h3]

/-- no REAL literal, no `/`, and no variable that holds a REAL -/
def ExprDenoteVars.VExpr.noReal (ρ : Env) : VExpr → Bool
  | .real _ _ => false
  | .int _ _ | .bool _ _ | .chr _ _ | .str _ _ => true
  | .var t => match ρ t.val with | some (.real _) => false | _ => true
  | .paren e | .neg _ e | .not _ e => e.noReal ρ
  | .arith _ op l r => op != .div && l.noReal ρ && r.noReal ρ
  | .cmp _ _ l r | .logic _ _ l r | .concat _ l r => l.noReal ρ && r.noReal ρ

theorem noRealV_val (ρ : Env) (e : VExpr) : e.noReal ρ = true → ∀ v, evalTV ρ e = .ok v → NotReal v := by
  induction e with
  | int t n => intro _ v h; simp only [evalTV, Except.ok.injEq] at h; subst h; intro x hx; cases hx
  | real t x => intro h; cases h
  | bool t b => intro _ v h; simp only [evalTV, Except.ok.injEq] at h; subst h; intro x hx; cases hx
  | chr t c => intro _ v h; simp only [evalTV, Except.ok.injEq] at h; subst h; intro x hx; cases hx
  | str t s => intro _ v h; simp only [evalTV, Except.ok.injEq] at h; subst h; intro x hx; cases hx
  | var t =>
    intro hn v h
    have hv := evalTV_var_ok.mp h
    simp only [VExpr.noReal, hv] at hn
    intro x hx
    subst hx
    simp at hn
  | paren e ih => intro hn v h; exact ih hn v h
  | neg t e ih =>
    intro hn v h
    obtain ⟨a, ha, hv⟩ := evalTV_neg_ok.mp h
    have := ih hn a ha
    cases a <;> simp [negT] at hv
    · subst hv; intro x hx; cases hx
    · exact absurd rfl (this _)
  | not t e ih =>
    intro hn v h
    obtain ⟨a, _, hv⟩ := evalTV_not_ok.mp h
    obtain ⟨b, rfl⟩ := notT_bool hv
    intro x hx; cases hx
  | arith t op l r ihl ihr =>
    intro hn v h
    simp only [VExpr.noReal, Bool.and_eq_true, bne_iff_ne, ne_eq] at hn
    rw [evalTV_arith] at h
    obtain ⟨a, b, ha, hb, hv⟩ := bin2_ok.mp h
    obtain ⟨n, rfl⟩ := arithT_int_closed (ihl hn.1.2 a ha) (ihr hn.2 b hb) hn.1.1 hv
    intro x hx; cases hx
  | cmp t op l r ihl ihr =>
    intro hn v h
    rw [evalTV_cmp] at h
    obtain ⟨a, b, _, _, hv⟩ := bin2_ok.mp h
    obtain ⟨b, rfl⟩ := cmpT_bool hv
    intro x hx; cases hx
  | logic t op l r ihl ihr =>
    intro hn v h
    obtain ⟨a, _, hv⟩ := evalTV_logic_ok.mp h
    rcases hv with ⟨_, rfl⟩ | ⟨_, b, _, hv⟩
    · intro x hx; cases hx
    · obtain ⟨b, rfl⟩ := logicT_bool hv
      intro x hx; cases hx
  | concat t l r ihl ihr =>
    intro hn v h
    rw [evalTV_concat] at h
    obtain ⟨a, b, _, _, hv⟩ := bin2_ok.mp h
    obtain ⟨s, rfl⟩ := concatT_str hv
    intro x hx; cases hx

/-- a tree without `/`, REAL literals and REAL variables whose root is an arithmetic operator yields an INTEGER (or
    fails) -/
theorem C02_vars_int_closed (ρ : Env) (t : Tok) (op : ArOp) (l r : VExpr) (v : Val)
    (hn : (VExpr.arith t op l r).noReal ρ = true) (h : evalTV ρ (.arith t op l r) = .ok v) : ∃ n, v = .int n := by
  simp only [VExpr.noReal, Bool.and_eq_true, bne_iff_ne, ne_eq] at hn
  rw [evalTV_arith] at h
  obtain ⟨a, b, ha, hb, hv⟩ := bin2_ok.mp h
  exact arithT_int_closed (noRealV_val ρ l hn.1.2 a ha) (noRealV_val ρ r hn.2 b hb) hn.1.1 hv

/-- no REAL can come out of a tree without `/`, REAL literals and REAL variables, whatever its root -/
theorem C02_vars_no_real (ρ : Env) (e : VExpr) (v : Val) (hn : e.noReal ρ = true) (h : evalTV ρ e = .ok v) :
    v.ty ≠ .real := by
  have := noRealV_val ρ e hn v h
  cases v <;> simp [Val.ty]
  exact this _ rfl

/-- mixed INTEGER / REAL operands promote to REAL for every operator but `DIV` -/
theorem C02_vars_mixed_promotes (ρ : Env) (t : Tok) (op : ArOp) (l r : VExpr) (a b v : Val)
    (hl : evalTV ρ l = .ok a) (hr : evalTV ρ r = .ok b) (hreal : a.ty = .real ∨ b.ty = .real) (hop : op ≠ .idiv)
    (h : evalTV ρ (.arith t op l r) = .ok v) : v.ty = .real := by
  have := (C02_vars_result_type ρ t op l r a b v hl hr h).2.2
  rw [this]
  simp [hop, hreal]

/-- … and the promoted value is the `Float` operation applied to `floatOfInt` of the INTEGER operand; in particular
    for an INTEGER variable `i` and a REAL variable `x` -/
theorem C02_vars_mixed_values (ρ : Env) (t : Tok) (l r : VExpr) (a : Int) (y : Float)
    (hl : evalTV ρ l = .ok (.int a)) (hr : evalTV ρ r = .ok (.real y)) :
    evalTV ρ (.arith t .add l r) = .ok (.real (floatOfInt a + y)) ∧
    evalTV ρ (.arith t .sub l r) = .ok (.real (floatOfInt a - y)) ∧
    evalTV ρ (.arith t .mul l r) = .ok (.real (floatOfInt a * y)) ∧
    evalTV ρ (.arith t .add r l) = .ok (.real (y + floatOfInt a)) ∧
    evalTV ρ (.arith t .sub r l) = .ok (.real (y - floatOfInt a)) ∧
    evalTV ρ (.arith t .mul r l) = .ok (.real (y * floatOfInt a)) ∧
    evalTV ρ (.arith t .div r l) = (if a = 0 then .error (t, .divZero) else .ok (.real (y / floatOfInt a))) := by
  refine ⟨?_, ?_, ?_, ?_, ?_, ?_, ?_⟩ <;> rw [evalTV_arith, hl, hr] <;> try rfl
  by_cases h0 : a = 0 <;> simp [bin2, arithT, realOp, atTok, h0]

/-- **integer exactness**: on INTEGER operand values — in particular two INTEGER variables — `+ - *` are the exact
    integer operation followed by the 64-bit two's-complement wrap; no floating point is involved -/
theorem C02_vars_int_exact (ρ : Env) (t : Tok) (l r : VExpr) (a b : Int)
    (hl : evalTV ρ l = .ok (.int a)) (hr : evalTV ρ r = .ok (.int b)) :
    evalTV ρ (.arith t .add l r) = .ok (.int (wrap64 (a + b))) ∧
    evalTV ρ (.arith t .sub l r) = .ok (.int (wrap64 (a - b))) ∧
    evalTV ρ (.arith t .mul l r) = .ok (.int (wrap64 (a * b))) := by
  refine ⟨?_, ?_, ?_⟩ <;> rw [evalTV_arith, hl, hr] <;> rfl

/-- the instance for two INTEGER variables `x`, `y` -/
theorem C02_vars_int_exact_vars (ρ : Env) (t x y : Tok) (a b : Int) (hx : ρ x.val = some (.int a))
    (hy : ρ y.val = some (.int b)) :
    evalTV ρ (.arith t .add (.var x) (.var y)) = .ok (.int (wrap64 (a + b))) ∧
    evalTV ρ (.arith t .sub (.var x) (.var y)) = .ok (.int (wrap64 (a - b))) ∧
    evalTV ρ (.arith t .mul (.var x) (.var y)) = .ok (.int (wrap64 (a * b))) :=
  C02_vars_int_exact ρ t (.var x) (.var y) a b (evalTV_var_ok.mpr hx) (evalTV_var_ok.mpr hy)

/-- the DIV / MOD law for INTEGER operand values `a`, `b ≠ 0` -/
theorem C02_vars_divmod_law (ρ : Env) (t t' : Tok) (l r : VExpr) (a b : Int)
    (hl : evalTV ρ l = .ok (.int a)) (hr : evalTV ρ r = .ok (.int b)) (hb : b ≠ 0) :
    evalTV ρ (.arith t .idiv l r) = .ok (.int (wrap64 (Int.tdiv a b))) ∧
    evalTV ρ (.arith t' .mod l r) = .ok (.int (Int.tmod a b)) ∧
    a = Int.tdiv a b * b + Int.tmod a b ∧ (Int.tmod a b).natAbs < b.natAbs := by
  refine ⟨?_, ?_, C02_divmod_law a b hb⟩ <;> rw [evalTV_arith, hl, hr] <;> simp [bin2, arithT, intOp, atTok, hb]

/-- a zero divisor (INTEGER 0, e.g. an INTEGER variable holding 0) is a division-by-zero error at the operator's
    token, for `/`, `DIV` and `MOD`, whatever numeric type the dividend has -/
theorem C02_vars_zero_divisor (ρ : Env) (t : Tok) (op : ArOp) (l r : VExpr) (a : Val)
    (hop : op = .div ∨ op = .idiv ∨ op = .mod) (hl : evalTV ρ l = .ok a) (ha : IsNum a = true)
    (hr : evalTV ρ r = .ok (.int 0)) :
    evalTV ρ (.arith t op l r) = .error (t, .divZero) := by
  rw [evalTV_arith, hl, hr]
  have : arithT op a (.int 0) = .error .divZero :=
    arithT_error.mpr (.inr ⟨ha, rfl, by rcases hop with h | h | h <;> subst h <;> rfl, rfl, rfl⟩)
  simp only [bin2, this, atTok]

/-- comparisons yield BOOLEAN -/
theorem C02_vars_cmp_bool (ρ : Env) (t : Tok) (op : CmpOp) (l r : VExpr) (v : Val)
    (h : evalTV ρ (.cmp t op l r) = .ok v) : ∃ b, v = .bool b := by
  rw [evalTV_cmp] at h
  obtain ⟨a, b, _, _, hv⟩ := bin2_ok.mp h
  exact cmpT_bool hv

/-- `AND` / `OR` / `NOT` yield BOOLEAN, `&` yields STRING -/
theorem C02_vars_logic_bool (ρ : Env) (t : Tok) (op : LogOp) (l r e : VExpr) (v : Val) :
    (evalTV ρ (.logic t op l r) = .ok v → ∃ b, v = .bool b) ∧
    (evalTV ρ (.not t e) = .ok v → ∃ b, v = .bool b) ∧
    (evalTV ρ (.concat t l r) = .ok v → ∃ s, v = .str s) := by
  refine ⟨fun h => ?_, fun h => ?_, fun h => ?_⟩
  · obtain ⟨a, _, hv⟩ := evalTV_logic_ok.mp h
    rcases hv with ⟨_, rfl⟩ | ⟨_, b, _, hv⟩
    · exact ⟨_, rfl⟩
    · exact logicT_bool hv
  · obtain ⟨a, _, hv⟩ := evalTV_not_ok.mp h
    exact notT_bool hv
  · rw [evalTV_concat] at h
    obtain ⟨a, b, _, _, hv⟩ := bin2_ok.mp h
    exact concatT_str hv

/-- the value of every tree over primitive-typed variables is of one of the five primitive types -/
theorem C02_vars_value_type (ρ : Env) (e : VExpr) (v : Val) (hl : LitEnv ρ e) (h : evalTV ρ e = .ok v) :
    v.ty = .int ∨ v.ty = .real ∨ v.ty = .bool ∨ v.ty = .chr ∨ v.ty = .str := by
  have := evalTV_lit ρ e hl v h
  cases v <;> simp [IsLit] at this <;> simp [Val.ty]

/-! ## the acceptance table: exactly when an operator node fails -/

/-- an arithmetic node fails iff its left operand fails (same error), or its right operand fails after the left one
    had a value (same error), or both have values and either one of them is not a number (type mismatch at the
    operator) or — `/ DIV MOD` only — the divisor is zero (division by zero at the operator) -/
theorem C02_vars_error_iff (ρ : Env) (t : Tok) (op : ArOp) (l r : VExpr) (x : Tok × Msg) :
    evalTV ρ (.arith t op l r) = .error x ↔
      evalTV ρ l = .error x ∨
      (∃ a, evalTV ρ l = .ok a ∧ evalTV ρ r = .error x) ∨
      (∃ a b, evalTV ρ l = .ok a ∧ evalTV ρ r = .ok b ∧
        (((IsNum a = false ∨ IsNum b = false) ∧ x = (t, .typeMismatch)) ∨
         (IsNum a = true ∧ IsNum b = true ∧ divides op = true ∧ isZeroNum b = true ∧ x = (t, .divZero)))) := by
  rw [evalTV_arith, bin2_error]
  constructor
  · rintro (h | h | ⟨a, b, m, ha, hb, hm, rfl⟩)
    · exact .inl h
    · exact .inr (.inl h)
    · refine .inr (.inr ⟨a, b, ha, hb, ?_⟩)
      rcases arithT_error.mp hm with ⟨h1, rfl⟩ | ⟨h1, h2, h3, h4, rfl⟩
      · exact .inl ⟨h1, rfl⟩
      · exact .inr ⟨h1, h2, h3, h4, rfl⟩
  · rintro (h | h | ⟨a, b, ha, hb, ⟨h1, rfl⟩ | ⟨h1, h2, h3, h4, rfl⟩⟩)
    · exact .inl h
    · exact .inr (.inl h)
    · exact .inr (.inr ⟨a, b, _, ha, hb, arithT_error.mpr (.inl ⟨h1, rfl⟩), rfl⟩)
    · exact .inr (.inr ⟨a, b, _, ha, hb, arithT_error.mpr (.inr ⟨h1, h2, h3, h4, rfl⟩), rfl⟩)

/-- the table for two variables `x ⊕ y` with values `a`, `b`: accepted iff both are numbers and, for `/ DIV MOD`, `b` is
    not zero; otherwise a type mismatch, respectively a division by zero, at the operator's token -/
theorem C02_vars_accept_arith (ρ : Env) (t x y : Tok) (op : ArOp) (a b : Val) (hx : ρ x.val = some a)
    (hy : ρ y.val = some b) :
    ((∃ v, evalTV ρ (.arith t op (.var x) (.var y)) = .ok v) ↔
      (IsNum a = true ∧ IsNum b = true ∧ (divides op = true → isZeroNum b = false))) ∧
    (evalTV ρ (.arith t op (.var x) (.var y)) = .error (t, .typeMismatch) ↔ (IsNum a = false ∨ IsNum b = false)) ∧
    (evalTV ρ (.arith t op (.var x) (.var y)) = .error (t, .divZero) ↔
      (IsNum a = true ∧ IsNum b = true ∧ divides op = true ∧ isZeroNum b = true)) := by
  have hl : evalTV ρ (.var x) = .ok a := evalTV_var_ok.mpr hx
  have hr : evalTV ρ (.var y) = .ok b := evalTV_var_ok.mpr hy
  have key : ∀ z, evalTV ρ (.arith t op (.var x) (.var y)) = .error z ↔
      (((IsNum a = false ∨ IsNum b = false) ∧ z = (t, .typeMismatch)) ∨
       (IsNum a = true ∧ IsNum b = true ∧ divides op = true ∧ isZeroNum b = true ∧ z = (t, .divZero))) := by
    intro z
    rw [C02_vars_error_iff, hl, hr]
    constructor
    · rintro (h | ⟨_, _, h⟩ | ⟨a', b', ha, hb, h⟩)
      · cases h
      · cases h
      · cases ha; cases hb; exact h
    · intro h; exact .inr (.inr ⟨a, b, rfl, rfl, h⟩)
  refine ⟨?_, ?_, ?_⟩
  · constructor
    · rintro ⟨v, hv⟩
      cases ha : IsNum a with
      | false => have := (key (t, .typeMismatch)).mpr (.inl ⟨.inl ha, rfl⟩); rw [hv] at this; cases this
      | true =>
        cases hb : IsNum b with
        | false => have := (key (t, .typeMismatch)).mpr (.inl ⟨.inr hb, rfl⟩); rw [hv] at this; cases this
        | true =>
          refine ⟨rfl, rfl, fun hd => ?_⟩
          cases hz : isZeroNum b with
          | false => rfl
          | true => have := (key (t, .divZero)).mpr (.inr ⟨ha, hb, hd, hz, rfl⟩); rw [hv] at this; cases this
    · rintro ⟨ha, hb, hd⟩
      cases h : evalTV ρ (.arith t op (.var x) (.var y)) with
      | ok v => exact ⟨v, rfl⟩
      | error z =>
        exfalso
        rcases (key z).mp h with ⟨h1 | h1, _⟩ | ⟨_, _, h3, h4, _⟩
        · rw [ha] at h1; cases h1
        · rw [hb] at h1; cases h1
        · rw [hd h3] at h4; cases h4
  · rw [key]
    constructor
    · rintro (⟨h, _⟩ | ⟨_, _, _, _, h⟩)
      · exact h
      · cases h
    · intro h; exact .inl ⟨h, rfl⟩
  · rw [key]
    constructor
    · rintro (⟨_, h⟩ | ⟨h1, h2, h3, h4, _⟩)
      · cases h
      · exact ⟨h1, h2, h3, h4⟩
    · rintro ⟨h1, h2, h3, h4⟩; exact .inr ⟨h1, h2, h3, h4, rfl⟩

/-- a comparison node fails iff an operand fails, or an ordering operator (`< <= > >=`) meets operand values that
    are neither two numbers nor two CHARs; `=` and `<>` never add an error of their own -/
theorem C02_vars_error_iff_cmp (ρ : Env) (t : Tok) (op : CmpOp) (l r : VExpr) (x : Tok × Msg) :
    evalTV ρ (.cmp t op l r) = .error x ↔
      evalTV ρ l = .error x ∨
      (∃ a, evalTV ρ l = .ok a ∧ evalTV ρ r = .error x) ∨
      (∃ a b, evalTV ρ l = .ok a ∧ evalTV ρ r = .ok b ∧ IsOrder op = true ∧
        (IsNum a && IsNum b) = false ∧ (IsChr a && IsChr b) = false ∧ x = (t, .typeMismatch)) := by
  rw [evalTV_cmp, bin2_error]
  constructor
  · rintro (h | h | ⟨a, b, m, ha, hb, hm, rfl⟩)
    · exact .inl h
    · exact .inr (.inl h)
    · obtain ⟨h1, h2, h3, rfl⟩ := cmpT_error.mp hm
      exact .inr (.inr ⟨a, b, ha, hb, h1, h2, h3, rfl⟩)
  · rintro (h | h | ⟨a, b, ha, hb, h1, h2, h3, rfl⟩)
    · exact .inl h
    · exact .inr (.inl h)
    · exact .inr (.inr ⟨a, b, _, ha, hb, cmpT_error.mpr ⟨h1, h2, h3, rfl⟩, rfl⟩)

/-- `AND` / `OR`: fails iff the left operand fails, or — unless the left value is FALSE under `AND` — the right
    operand fails, or both have values one of which is not a BOOLEAN -/
theorem C02_vars_error_iff_logic (ρ : Env) (t : Tok) (op : LogOp) (l r : VExpr) (x : Tok × Msg) :
    evalTV ρ (.logic t op l r) = .error x ↔
      evalTV ρ l = .error x ∨
      (∃ a, evalTV ρ l = .ok a ∧ shortT op a = false ∧ evalTV ρ r = .error x) ∨
      (∃ a b, evalTV ρ l = .ok a ∧ shortT op a = false ∧ evalTV ρ r = .ok b ∧
        (IsBool a = false ∨ IsBool b = false) ∧ x = (t, .typeMismatch)) := by
  rw [evalTV_logic_error]
  constructor
  · rintro (h | h | ⟨a, b, m, ha, hs, hb, hm, rfl⟩)
    · exact .inl h
    · exact .inr (.inl h)
    · obtain ⟨h1, rfl⟩ := logicT_error.mp hm
      exact .inr (.inr ⟨a, b, ha, hs, hb, h1, rfl⟩)
  · rintro (h | h | ⟨a, b, ha, hs, hb, h1, rfl⟩)
    · exact .inl h
    · exact .inr (.inl h)
    · exact .inr (.inr ⟨a, b, _, ha, hs, hb, logicT_error.mpr ⟨h1, rfl⟩, rfl⟩)

/-- unary minus fails iff its operand fails or is not a number; `NOT` iff its operand fails or is not a BOOLEAN;
    `&` iff an operand fails (it accepts all five types; `LitEnv`: the variables hold primitive values) -/
theorem C02_vars_error_iff_unary (ρ : Env) (t : Tok) (e l r : VExpr) (x : Tok × Msg)
    (hll : LitEnv ρ l) (hlr : LitEnv ρ r) :
    (evalTV ρ (.neg t e) = .error x ↔
      evalTV ρ e = .error x ∨ ∃ a, evalTV ρ e = .ok a ∧ IsNum a = false ∧ x = (t, .typeMismatch)) ∧
    (evalTV ρ (.not t e) = .error x ↔
      evalTV ρ e = .error x ∨ ∃ a, evalTV ρ e = .ok a ∧ IsBool a = false ∧ x = (t, .typeMismatch)) ∧
    (evalTV ρ (.concat t l r) = .error x ↔
      evalTV ρ l = .error x ∨ ∃ a, evalTV ρ l = .ok a ∧ evalTV ρ r = .error x) := by
  refine ⟨?_, ?_, ?_⟩
  · rw [evalTV_neg_error]
    constructor
    · rintro (h | ⟨a, m, ha, hm, rfl⟩)
      · exact .inl h
      · obtain ⟨h1, rfl⟩ := negT_error.mp hm
        exact .inr ⟨a, ha, h1, rfl⟩
    · rintro (h | ⟨a, ha, h1, rfl⟩)
      · exact .inl h
      · exact .inr ⟨a, _, ha, negT_error.mpr ⟨h1, rfl⟩, rfl⟩
  · rw [evalTV_not_error]
    constructor
    · rintro (h | ⟨a, m, ha, hm, rfl⟩)
      · exact .inl h
      · obtain ⟨h1, rfl⟩ := notT_error.mp hm
        exact .inr ⟨a, ha, h1, rfl⟩
    · rintro (h | ⟨a, ha, h1, rfl⟩)
      · exact .inl h
      · exact .inr ⟨a, _, ha, notT_error.mpr ⟨h1, rfl⟩, rfl⟩
  · rw [evalTV_concat, bin2_error]
    constructor
    · rintro (h | h | ⟨a, b, m, ha, hb, hm, rfl⟩)
      · exact .inl h
      · exact .inr h
      · obtain ⟨_, _, _, _, hc⟩ := concatT_lit (evalTV_lit ρ l hll a ha) (evalTV_lit ρ r hlr b hb)
        rw [hc] at hm; cases hm
    · rintro (h | h)
      · exact .inl h
      · exact .inr (.inl h)

/-- the (token, message) pairs a tree can fail with: those of `C02Full` plus `notDefined` at an unbound name -/
def ExprDenoteVars.VExpr.errSites (ρ : Env) : VExpr → List (Tok × Msg)
  | .int _ _ | .real _ _ | .bool _ _ | .chr _ _ | .str _ _ => []
  | .var t => if (ρ t.val).isNone then [(t, .notDefined)] else []
  | .paren e => e.errSites ρ
  | .neg t e | .not t e => (t, .typeMismatch) :: e.errSites ρ
  | .arith t op l r =>
    (t, .typeMismatch) :: ((if divides op then [(t, .divZero)] else []) ++ (l.errSites ρ ++ r.errSites ρ))
  | .cmp t op l r => (if IsOrder op then [(t, .typeMismatch)] else []) ++ (l.errSites ρ ++ r.errSites ρ)
  | .logic t _ l r => (t, .typeMismatch) :: (l.errSites ρ ++ r.errSites ρ)
  | .concat _ l r => l.errSites ρ ++ r.errSites ρ

/-- an error of `evalTV` is `notDefined` at an unbound name, a type mismatch at a unary minus / `NOT` / arithmetic /
    ordering / logical operator, or a division by zero at a `/ DIV MOD` node -/
theorem C02_vars_error_site (ρ : Env) (e : VExpr) : LitEnv ρ e → ∀ x, evalTV ρ e = .error x → x ∈ e.errSites ρ := by
  induction e with
  | int t n => intro _ x h; cases h
  | real t y => intro _ x h; cases h
  | bool t b => intro _ x h; cases h
  | chr t c => intro _ x h; cases h
  | str t s => intro _ x h; cases h
  | var t =>
    intro _ x h
    obtain ⟨h1, rfl⟩ := evalTV_var_error.mp h
    simp [VExpr.errSites, h1]
  | paren e ih => intro hl x h; exact ih hl x h
  | neg t e ih =>
    intro hl x h
    rcases evalTV_neg_error.mp h with h | ⟨a, m, _, hm, rfl⟩
    · exact List.mem_cons_of_mem _ (ih hl x h)
    · rw [(negT_error.mp hm).2]; exact List.mem_cons_self
  | not t e ih =>
    intro hl x h
    rcases evalTV_not_error.mp h with h | ⟨a, m, _, hm, rfl⟩
    · exact List.mem_cons_of_mem _ (ih hl x h)
    · rw [(notT_error.mp hm).2]; exact List.mem_cons_self
  | arith t op l r ihl ihr =>
    intro hl x h
    rw [evalTV_arith] at h
    simp only [VExpr.errSites, List.mem_cons, List.mem_append]
    rcases bin2_error.mp h with h | ⟨a, _, h⟩ | ⟨a, b, m, _, _, hm, rfl⟩
    · exact .inr (.inr (.inl (ihl (LitEnv.left hl) x h)))
    · exact .inr (.inr (.inr (ihr (LitEnv.right hl) x h)))
    · rcases arithT_error.mp hm with ⟨_, rfl⟩ | ⟨_, _, hd, _, rfl⟩
      · exact .inl rfl
      · exact .inr (.inl (by simp [hd]))
  | cmp t op l r ihl ihr =>
    intro hl x h
    rw [evalTV_cmp] at h
    simp only [VExpr.errSites, List.mem_append]
    rcases bin2_error.mp h with h | ⟨a, _, h⟩ | ⟨a, b, m, _, _, hm, rfl⟩
    · exact .inr (.inl (ihl (LitEnv.left hl) x h))
    · exact .inr (.inr (ihr (LitEnv.right hl) x h))
    · obtain ⟨ho, _, _, rfl⟩ := cmpT_error.mp hm
      exact .inl (by simp [ho])
  | logic t op l r ihl ihr =>
    intro hl x h
    simp only [VExpr.errSites, List.mem_cons, List.mem_append]
    rcases evalTV_logic_error.mp h with h | ⟨a, _, _, h⟩ | ⟨a, b, m, _, _, _, hm, rfl⟩
    · exact .inr (.inl (ihl (LitEnv.left hl) x h))
    · exact .inr (.inr (ihr (LitEnv.right hl) x h))
    · rw [(logicT_error.mp hm).2]; exact .inl rfl
  | concat t l r ihl ihr =>
    intro hl x h
    rw [evalTV_concat] at h
    simp only [VExpr.errSites, List.mem_append]
    rcases bin2_error.mp h with h | ⟨a, _, h⟩ | ⟨a, b, m, ha, hb, hm, rfl⟩
    · exact .inl (ihl (LitEnv.left hl) x h)
    · exact .inr (ihr (LitEnv.right hl) x h)
    · obtain ⟨_, _, _, _, hc⟩ :=
        concatT_lit (evalTV_lit ρ l (LitEnv.left hl) a ha) (evalTV_lit ρ r (LitEnv.right hl) b hb)
      rw [hc] at hm; cases hm

/-- completeness: the evaluator's outcome determines the reference result — a value is returned only if `evalTV ρ e`
    denotes that value, and nothing but a runtime diagnostic from `errSites` can go wrong (no crash point, no fuel
    exhaustion, no BREAK / RETURN signal); with all variables bound there is no `notDefined` -/
theorem C02_eval_denote_vars_outcome (ρ : Env) (e : VExpr) (fuel : Nat) (σ : St) (hf : fuel > e.size) (hs : HasScope σ)
    (ha : Agrees σ ρ e) :
    (∃ v, (evalExpr fuel (denoteV e)).run.run σ = (.ok v, σ) ∧ evalTV ρ e = .ok v) ∨
    (∃ t m, (evalExpr fuel (denoteV e)).run.run σ = (.error (.diag (rtDiag σ t.line t.col m)), σ) ∧
      evalTV ρ e = .error (t, m) ∧ (t, m) ∈ e.errSites ρ) := by
  have H := C02_eval_denote_vars ρ e fuel σ hf hs ha
  cases h : evalTV ρ e with
  | ok v => rw [h] at H; exact .inl ⟨v, H, rfl⟩
  | error x =>
    obtain ⟨t, m⟩ := x
    rw [h] at H
    exact .inr ⟨t, m, H, rfl, C02_vars_error_site ρ e ha.litEnv _ h⟩

/-! ## other leaves: one operator on arbitrary state-preserving operands; array elements; record fields -/

/-- **one operator node on arbitrary operands**: `l`, `r` are ANY expressions (variables, array elements, record
    fields, function calls, …) that evaluate with fuel `f` in `σ` to primitive values `a`, `b` leaving `σ` unchanged.
    Then each operator node built on them, with fuel `f+1`, returns the value the reference semantics computes from
    `a`, `b` (`arithT`, `cmpT`, `concatT`, `negT`, `notT`, `logicT` — the value-level tables `evalTV` is built
    from), or the runtime diagnostic of that class at the operator's token; the state is unchanged.  (`HasScope`
    is needed by the arithmetic node only.  For `AND` / `OR` the right operand need only evaluate when the left value
    does not short-circuit.)  By induction these steps give the denotation theorem for trees over any such leaves. -/
theorem C02_vars_step (σ : St) (f : Nat) (t : Tok) (l r : Expr) (a b : Val) (hs : HasScope σ)
    (hl : (evalExpr f l).run.run σ = (.ok a, σ)) (hr : (evalExpr f r).run.run σ = (.ok b, σ))
    (ha : IsLit a = true) (hb : IsLit b = true) :
    (∀ op, (evalExpr (f+1) (.arith t op l r)).run.run σ = outT σ (atTok t (arithT op a b))) ∧
    (∀ op, (evalExpr (f+1) (.cmp t op l r)).run.run σ = outT σ (atTok t (cmpT op a b))) ∧
    (∀ op, (evalExpr (f+1) (.logic t op l r)).run.run σ = outT σ (log2 t op (.ok a) (.ok b))) ∧
    (evalExpr (f+1) (.concat t l r)).run.run σ = outT σ (atTok t (concatT a b)) ∧
    (evalExpr (f+1) (.neg t l)).run.run σ = outT σ (atTok t (negT a)) ∧
    (evalExpr (f+1) (.not t l)).run.run σ = outT σ (atTok t (ExprDenote.notT a)) :=
  ⟨fun op => step_arith σ f t op l r a b hs hl hr ha hb, fun op => step_cmp σ f t op l r a b hl hr ha hb,
   fun op => step_logic σ f t op l r a (.ok b) hl (fun _ => hr), step_concat σ f t l r a b hl hr ha hb,
   step_neg σ f t l a hl, step_not σ f t l a hl⟩

/-- the short circuit on arbitrary operands: `FALSE AND r` does not evaluate `r` at all (whatever `r` is) -/
theorem C02_vars_step_short (σ : St) (f : Nat) (t : Tok) (l r : Expr)
    (hl : (evalExpr f l).run.run σ = (.ok (.bool false), σ)) :
    (evalExpr (f+1) (.logic t .and l r)).run.run σ = (.ok (.bool false), σ) :=
  step_logic σ f t .and l r (.bool false) (.ok .none) hl (fun h => by cases h)

/-- **array element leaf** (partial: one dimension; records of arrays / arrays of records not covered): if the name
    `a` denotes an array `ARRAY[lo:hi]` with cells `cells` (`ArrIs`: no variable of that name hides it), and the index
    expression `ie` evaluates (fuel `f+1`) to the INTEGER `i` without changing the state, `lo ≤ i ≤ hi`, then `a[ie]`
    evaluates (fuel `f+4`) to the cell number `i - lo`; the state is unchanged.  With `C02_vars_step` such a leaf can
    stand wherever a variable stands. -/
theorem C02_vars_elem_leaf_partial (σ : St) (t ti ta : Tok) (ie : Expr) (f : Nat) (e : Ty) (lo hi i : Int)
    (cells : List Val) (v : Val) (harr : ArrIs σ ta.val e [(lo, hi)] cells)
    (hie : (evalExpr (f+1) ie).run.run σ = (.ok (.int i), σ))
    (hb : inBounds (lo, hi) i = true) (hv : cells[(i - lo).toNat]? = some v) :
    (evalExpr (f+4) (.access t (.index ti (.var ta) [ie]))).run.run σ = (.ok v, σ) :=
  run_access_elem σ t ti ta ie f e lo hi i cells v harr hie hb hv

/-- **record field leaf** (partial: the record is held by a plain — not BYREF — variable; one field step): if the
    name `r` denotes a variable holding the record `comp ty fs` (`RecIs`) and `m` is a scalar member with value `v`, then
    `r.m` evaluates (fuel `≥ 3`) to `v`; the state is unchanged. -/
theorem C02_vars_field_leaf_partial (σ : St) (t tf tr m : Tok) (f : Nat) (ty : Str) (fs : List (Str × Val)) (v : Val)
    (hrec : RecIs σ tr.val ty fs) (hk : memberKind fs m.val = some false) (hv : findField fs m.val false = some v) :
    (evalExpr (f+3) (.access t (.field tf (.var tr) m))).run.run σ = (.ok v, σ) :=
  run_access_field σ t tf tr m f ty fs v hrec hk hv

/-! ## non-vacuity: a concrete state with variables of all five types, an array, a record, an enumerated type -/

section examples
private def tk (k : TK) (col : Nat) (v : Str := []) : Tok := { k := k, line := 1, col := col, val := v }
private def idt (col : Nat) (n : String) : Tok := tk .IDENTIFIER col n.toList
private def sI : Slot := { name := "i".toList, ty := .int, val := .int 7 }
private def sX : Slot := { name := "x".toList, ty := .real, val := .real (strtod "2.5".toList).1 }
private def sB : Slot := { name := "b".toList, ty := .bool, val := .bool true }
private def sC : Slot := { name := "c".toList, ty := .chr, val := .chr 'x' }
private def sS : Slot := { name := "s".toList, ty := .str, val := .str "ab".toList }
private def sR : Slot := { name := "r".toList, ty := .comp "P".toList, val := .comp "P".toList [("n".toList, .int 5)] }
private def sA : Slot := { name := "a".toList, ty := .int, val := .arr .int [(1, 3)] [.int 10, .int 20, .int 30] }
private def sI' : Slot := { name := "i".toList, ty := .int, val := .int 100 }
/-- the global activation: `i = 7`, `x = 2.5`, `b = TRUE`, `c = 'x'`, `s = "ab"`, a record `r`, an array `a[1:3]`, and
    `TYPE Col = (red, green)` -/
private def gAct : Act :=
  { mkGlobal with vars := [sI, sX, sB, sC, sS, sR], arrs := [sA], enums := [("Col".toList, ["red".toList, "green".toList])] }
private def σ1 : St := { St.init [] [] false false with acts := [gAct] }
/-- inside a procedure with a local `i = 100` -/
private def pAct : Act := { id := 1, name := "P".toList, vars := [sI'] }
private def σ2 : St := { σ1 with acts := [pAct, gAct], nextId := 2 }
private theorem hs1 : HasScope σ1 := ⟨gAct, List.mem_singleton.mpr rfl, rfl⟩
private theorem hs2 : HasScope σ2 := ⟨pAct, List.mem_cons_self, rfl⟩

/-- `((i + 3) * 2 > 10) AND (s & c = "abx")` — operator depth 4, INTEGER, STRING and CHAR variables -/
private def eMix : VExpr :=
  .logic (tk .AND 20) .and
    (.paren (.cmp (tk .GREATER 13) .gt
      (.arith (tk .STAR 9) .mul (.paren (.arith (tk .PLUS 4) .add (.var (idt 2 "i")) (.int (tk .INTEGER 6) 3)))
        (.int (tk .INTEGER 11) 2))
      (.int (tk .INTEGER 15) 10)))
    (.paren (.cmp (tk .EQUALS 31) .eq (.concat (tk .AMPERSAND 27) (.var (idt 25 "s")) (.var (idt 29 "c")))
      (.str (tk .STRING 33 "abx".toList) "abx".toList)))
/-- `NOT b OR x / i >= 1` — BOOLEAN, REAL and INTEGER variables -/
private def eReal : VExpr :=
  .logic (tk .OR 7) .or (.not (tk .NOT 1) (.var (idt 5 "b")))
    (.cmp (tk .GREATER_EQUAL 16) .ge (.arith (tk .SLASH 12) .div (.var (idt 10 "x")) (.var (idt 14 "i"))) (.int (tk .INTEGER 19) 1))
/-- `i + y`, `y` undefined -/
private def eUndef : VExpr := .arith (tk .PLUS 3) .add (.var (idt 1 "i")) (.var (idt 5 "y"))

example : eMix.depth = 4 ∧ eMix.size = 16 ∧ eMix.vars = ["i".toList, "s".toList, "c".toList] := ⟨rfl, rfl, rfl⟩
-- the environment of the state
example : envOf σ1 "i".toList = some (.int 7) ∧ envOf σ1 "b".toList = some (.bool true) ∧
    envOf σ1 "c".toList = some (.chr 'x') ∧ envOf σ1 "s".toList = some (.str "ab".toList) ∧
    envOf σ1 "x".toList = some (.real (strtod "2.5".toList).1) ∧ envOf σ1 "y".toList = none := ⟨rfl, rfl, rfl, rfl, rfl, rfl⟩
-- the reference values
example : evalTV (envOf σ1) eMix = .ok (.bool true) := rfl
example : evalTV (envOf σ1) eUndef = .error (idt 5 "y", .notDefined) := rfl
example : evalTV (envOf σ1) eReal =
    .ok (.bool (cmpReal .ge ((strtod "2.5".toList).1 / floatOfInt 7) (floatOfInt 1))) := rfl
-- the hypotheses of the theorem hold
private theorem hv1 : ∀ x ∈ eMix.vars,
    (∃ v, envOf σ1 x = some v ∧ IsLit v = true) ∨ (envOf σ1 x = none ∧ NoName σ1 x) := by
  intro x hx
  have : x = "i".toList ∨ x = "s".toList ∨ x = "c".toList := by simpa [eMix, VExpr.vars, idt, tk] using hx
  rcases this with rfl | rfl | rfl
  · exact .inl ⟨.int 7, rfl, rfl⟩
  · exact .inl ⟨.str "ab".toList, rfl, rfl⟩
  · exact .inl ⟨.chr 'x', rfl, rfl⟩
private theorem hvR : ∀ x ∈ eReal.vars,
    (∃ v, envOf σ1 x = some v ∧ IsLit v = true) ∨ (envOf σ1 x = none ∧ NoName σ1 x) := by
  intro x hx
  have : x = "b".toList ∨ x = "x".toList ∨ x = "i".toList := by simpa [eReal, VExpr.vars, idt, tk] using hx
  rcases this with rfl | rfl | rfl
  · exact .inl ⟨.bool true, rfl, rfl⟩
  · exact .inl ⟨.real (strtod "2.5".toList).1, rfl, rfl⟩
  · exact .inl ⟨.int 7, rfl, rfl⟩
private theorem nnY : NoName σ1 "y".toList := ⟨gAct, [], gAct, rfl, rfl, rfl, rfl, rfl⟩
private theorem hvU : ∀ x ∈ eUndef.vars,
    (∃ v, envOf σ1 x = some v ∧ IsLit v = true) ∨ (envOf σ1 x = none ∧ NoName σ1 x) := by
  intro x hx
  have : x = "i".toList ∨ x = "y".toList := by simpa [eUndef, VExpr.vars, idt, tk] using hx
  rcases this with rfl | rfl
  · exact .inl ⟨.int 7, rfl, rfl⟩
  · exact .inr ⟨rfl, nnY⟩
-- from the theorem
example : (evalExpr 20 (denoteV eMix)).run.run σ1 = (.ok (.bool true), σ1) :=
  C02_eval_denote_state eMix 20 σ1 (by decide) hs1 hv1
example : (evalExpr 48 (denoteV eMix)).run.run σ1 = (.ok (.bool true), σ1) :=
  C02_vars_fuel_of_depth (envOf σ1) eMix 4 (by decide) σ1 hs1 (by
    intro x hx
    rcases hv1 x hx with ⟨v, h1, h2⟩ | ⟨h1, h2⟩
    · rw [h1]; exact ⟨h2, VarIs.of_envOf h1⟩
    · rw [h1]; exact h2)
example : (evalExpr 12 (denoteV eReal)).run.run σ1 =
    (.ok (.bool (cmpReal .ge ((strtod "2.5".toList).1 / floatOfInt 7) (floatOfInt 1))), σ1) :=
  C02_eval_denote_state eReal 12 σ1 (by decide) hs1 hvR
example : (evalExpr 6 (denoteV eUndef)).run.run σ1 = (.error (.diag (rtDiag σ1 1 5 .notDefined)), σ1) :=
  C02_eval_denote_state eUndef 6 σ1 (by decide) hs1 hvU
-- by evaluation in the kernel (no REAL operand: `Float` is opaque to the kernel)
example : (evalExpr 20 (denoteV eMix)).run.run σ1 = (.ok (.bool true), σ1) := rfl
example : (evalExpr 6 (denoteV eUndef)).run.run σ1 = (.error (.diag (rtDiag σ1 1 5 .notDefined)), σ1) := rfl
-- `VarIs` from the shape of the state; a local variable hides the global one, other globals stay visible
example : VarIs σ1 "i".toList (.int 7) := VarIs.of_current σ1 gAct [] _ sI rfl rfl rfl
example : VarIs σ2 "i".toList (.int 100) := VarIs.of_current σ2 pAct [gAct] _ sI' rfl rfl rfl
example : VarIs σ2 "s".toList (.str "ab".toList) := VarIs.of_global σ2 pAct gAct [gAct] _ sS rfl rfl rfl rfl rfl rfl rfl
example : envOf σ2 "i".toList = some (.int 100) ∧ envOf σ2 "s".toList = some (.str "ab".toList) := ⟨rfl, rfl⟩
example : evalTV (envOf σ2) eMix = .ok (.bool true) := rfl
example : (evalExpr 20 (denoteV eMix)).run.run σ2 = (.ok (.bool true), σ2) := rfl
-- the enumeration literal fallback: `green` is not an error although no variable has that name
example : enumLitV σ1 "green".toList = some (.enum "Col".toList 1) := rfl
example : (evalExpr 2 (denoteV (.var (idt 1 "green")))).run.run σ1 = (.ok (.enum "Col".toList 1), σ1) :=
  C02_vars_enum_literal (idt 1 "green") 0 σ1 hs1 gAct gAct [] _ rfl rfl rfl rfl rfl
-- substitution
example : substV (envOf σ1) (fun _ => []) eUndef = .arith (tk .PLUS 3) .add (.int (idt 1 "i") 7) (.int (idt 5 "y") 0) := rfl
example : evalTV (envOf σ1) eMix = evalT (substV (envOf σ1) (fun _ => []) eMix) := rfl
-- integer exactness on variables: `i * i` with `i = 2^62` wraps
example : evalTV (fun _ => some (.int 4611686018427387904)) (.arith (tk .STAR 3) .mul (.var (idt 1 "i")) (.var (idt 5 "i")))
    = .ok (.int 0) := rfl
-- array element and record field leaves
example : ArrIs σ1 "a".toList .int [(1, 3)] [.int 10, .int 20, .int 30] := ⟨gAct, [], gAct, gAct, sA, rfl, rfl, rfl, rfl, rfl⟩
example : RecIs σ1 "r".toList "P".toList [("n".toList, .int 5)] := ⟨gAct, [], gAct, gAct, sR, rfl, rfl, rfl, rfl, rfl⟩
example : (evalExpr 5 (.access (idt 1 "a") (.index (idt 1 "a") (.var (idt 1 "a")) [.intLit (tk .INTEGER 3) 2]))).run.run σ1
    = (.ok (.int 20), σ1) :=
  C02_vars_elem_leaf_partial σ1 _ _ (idt 1 "a") _ 1 .int 1 3 2 _ _ ⟨gAct, [], gAct, gAct, sA, rfl, rfl, rfl, rfl, rfl⟩ rfl rfl rfl
example : (evalExpr 3 (.access (idt 1 "r") (.field (idt 1 "r") (.var (idt 1 "r")) (idt 3 "n")))).run.run σ1
    = (.ok (.int 5), σ1) :=
  C02_vars_field_leaf_partial σ1 _ _ (idt 1 "r") (idt 3 "n") 0 _ _ _ ⟨gAct, [], gAct, gAct, sR, rfl, rfl, rfl, rfl, rfl⟩ rfl rfl
end examples

end Pseudo
