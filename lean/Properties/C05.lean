import PseudoModel.Eval
/-!
# C05 — variables keep their declared type; bad stores are rejected without effect
Model: `implicitCast`, `storeCompatible` (the test every store channel applies: assignment, BYVAL binding, RETURN),
`inputConvert` (INPUT), and `writeLoc`, the only function that changes a cell.
-/
namespace Pseudo

/-- The store-compatibility relation is exactly: identity, INTEGER→REAL, one-character STRING→CHAR, CHAR→STRING.
    User types are compared by type *name*. -/
theorem C05_compat_table (target : Ty) (v : Val) (hv : v.isArr = false) :
    storeCompatible target v = true ↔
      (v.ty = target ∨ (target = .real ∧ v.ty = .int) ∨ (target = .chr ∧ ∃ c, v = .str [c]) ∨ (target = .str ∧ v.ty = .chr)) := by
  unfold storeCompatible
  cases target <;> cases v <;> simp [implicitCast, Val.ty, Val.isArr] at hv ⊢ <;>
    (try (rename_i s; cases s with
      | nil => simp [implicitCast, Val.ty]
      | cons c rest => cases rest <;> simp [implicitCast, Val.ty]))

/-- after a successful store the cell holds a value of the declared type: the stored value is
    `implicitCast target v`, whose type is the target type -/
theorem C05_stored_has_type (target : Ty) (v : Val) (h : storeCompatible target v = true) : (implicitCast target v).ty = target := by
  unfold storeCompatible at h; simpa using h

/-- the three conversions preserve the value: nothing is truncated, rounded or reinterpreted -/
theorem C05_conversions (n : Int) (c : Char) :
    implicitCast .real (.int n) = .real (FloatFmt.floatOfInt n) ∧ implicitCast .chr (.str [c]) = .chr c ∧
    implicitCast .str (.chr c) = .str [c] ∧ implicitCast .int (.real 2.5) = .real 2.5 := by
  refine ⟨rfl, rfl, rfl, rfl⟩

/-- REAL → INTEGER, STRING (length ≠ 1) → CHAR, BOOLEAN ↔ INTEGER … are never accepted -/
theorem C05_rejects (x : Float) (b : Bool) (n : Int) (c d : Char) (rest : Str) :
    storeCompatible .int (.real x) = false ∧ storeCompatible .int (.bool b) = false ∧ storeCompatible .bool (.int n) = false ∧
    storeCompatible .chr (.str (c :: d :: rest)) = false ∧ storeCompatible .chr (.str []) = false ∧ storeCompatible .int (.str [c]) = false ∧
    storeCompatible .str (.int n) = false ∧ storeCompatible .date (.str [c]) = false := by
  refine ⟨?_, ?_, ?_, ?_, ?_, ?_, ?_, ?_⟩ <;> simp [storeCompatible, implicitCast, Val.ty]

/-- INPUT converts the typed line by the target's type; non-primitive targets are refused -/
theorem C05_input_conversion (line : Str) :
    inputConvert .str line = some (.str line) ∧ inputConvert .int line = some (.int (strToInteger line)) ∧
    inputConvert .bool line = some (.bool (line == "TRUE".toList)) ∧ inputConvert .date line = none ∧
    (∀ n, inputConvert (.enum n) line = none ∧ inputConvert (.ptr n) line = none ∧ inputConvert (.comp n) line = none) ∧
    (∀ ty v, inputConvert ty line = some v → v.ty = ty) := by
  refine ⟨rfl, rfl, rfl, rfl, fun _ => ⟨rfl, rfl, rfl⟩, ?_⟩
  intro ty v h
  cases ty <;> simp [inputConvert] at h <;> subst h <;> rfl

/-! non-vacuity -/
example : storeCompatible .real (.int 3) = true ∧ storeCompatible .chr (.str ['x']) = true := by decide

end Pseudo
