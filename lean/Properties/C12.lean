import PseudoModel.Top
/-!
# C12 — the REPL runs programs like file mode and survives failing entries unharmed
Model: `replLoop` / `runSource` / `replEcho` / `multilineStart` of `Top`.
The REPL and file mode share `runSource` and the evaluator; the REPL differs by (a) the echo of every statement's value,
(b) the way entries are cut from the input, (c) error recovery: the loop goes on with the state the failing entry left.
What a failing *evaluation* leaves behind is governed by the whole-evaluator invariants (C08 constants, C04 activation
stack, C16 handle table); this file proves the entry-level facts.
-/
namespace Pseudo

/-- an entry that does not lex leaves variables, constants, types, procedures, files, handles and unread input exactly as
    they were (only a line break is printed) — "has no effect at all" -/
theorem C12_failing_lex_no_effect (cfg : Cfg) (src : Str) (st : St) (d : Diag) (h : lex { pedantic := cfg.pedantic } src = .error d) :
    (runSource cfg src st).2 = { st with out := ['\n'] :: st.out } := by
  unfold runSource; rw [h]

/-- the same for an entry that lexes but does not parse -/
theorem C12_failing_parse_no_effect (cfg : Cfg) (src : Str) (st : St) (toks : List Tok) (d : Diag) (warns : List Tok)
    (hl : lex { pedantic := cfg.pedantic } src = .ok toks) (hp : parse { pedantic := cfg.pedantic } toks = .error (d, warns))
    (hb : isBudget d = false) :
    (runSource cfg src st).2 = { st with out := ['\n'] :: ((warns.map warningText).reverse ++ st.out) } := by
  unfold runSource; rw [hl]; simp only [hp, hb]; rfl

/-- the documented echo per type: INTEGER / BOOLEAN / DATE as in OUTPUT, CHAR in single and STRING in double quotes,
    an enumerated value as `Type: Name`; statements (no value) echo nothing -/
theorem C12_echo_format (σ : St) (n : Int) (c : Char) (s : Str) (b : Bool) :
    ((replEcho (.int n)).run.run σ).2.out = (intToStr n ++ ['\n']) :: σ.out ∧
    ((replEcho (.chr c)).run.run σ).2.out = (['\''] ++ [c] ++ ['\'', '\n']) :: σ.out ∧
    ((replEcho (.str s)).run.run σ).2.out = (['"'] ++ s ++ ['"', '\n']) :: σ.out ∧
    ((replEcho (.bool b)).run.run σ).2.out = ((if b then "TRUE".toList else "FALSE".toList) ++ ['\n']) :: σ.out ∧
    ((replEcho .none).run.run σ).2 = σ := by
  refine ⟨?_, ?_, ?_, ?_, ?_⟩ <;>
    simp [replEcho, outputText, emit, ExceptT.run, bind, ExceptT.bind, ExceptT.mk, StateT.bind, modify, modifyGet, MonadStateOf.modifyGet,
      StateT.modifyGet, liftM, monadLift, MonadLift.monadLift, ExceptT.lift, Functor.map, StateT.map, ExceptT.bindCont, StateT.run, pure,
      StateT.pure, ExceptT.pure]

/-- an entry is a multi-line construct only when it starts with one of the eight block keywords *as a whole word*:
    an identifier that merely has a keyword as a prefix is an ordinary one-line entry -/
theorem C12_keyword_prefix (k : String) (hk : k ∈ multilineKeywords) (c : Char) (rest : Str) (hc : isAlnum c = true ∨ c = '_') :
    startsWithWord (k.toList ++ c :: rest) k.toList = false := by
  unfold startsWithWord
  have : (k.toList ++ c :: rest).drop k.toList.length = c :: rest := by simp
  rw [this]
  rcases hc with hc | hc
  · simp [hc]
  · subst hc; simp

theorem C12_multiline_examples :
    multilineStart "FORMAT <- 1".toList = false ∧ multilineStart "IFx <- 2".toList = false ∧ multilineStart "TYPE T = (A, B)".toList = false ∧
    multilineStart "FOR i <- 1 TO 3".toList = true ∧ multilineStart "IF x THEN".toList = true ∧ multilineStart "TYPE R".toList = true := by decide

/-- running the statements of a block one after another on the same state is what `runBlock` does: the first statement,
    its echo (REPL only), then the rest on the resulting state — file mode and REPL differ only by the echo -/
theorem C12_block_unfold (f : Nat) (s : Stmt) (rest : Block) :
    runBlock (f + 1) (s :: rest) =
      (execStmt f s >>= fun v => (get : M St) >>= fun st => if st.repl = true then replEcho v >>= fun _ => runBlock f rest else runBlock f rest) := by
  rw [runBlock]

end Pseudo
