import PseudoProofs.EvalInv2
/-!
# C05 (typed store, partial) — a variable's value has the variable's declared type

`WT σ`: every variable slot that is not a BYREF alias holds a value whose type is the slot's declared type
(root level: for a record variable the value is a record of that type name).

What is proved here (all by direct computation on the model, no induction over the evaluator):

* `C05_setPath_root_ty`: a write *into* a value (field / element path) never changes the root value's type;
* `C05_writeLoc_keeps_typed`: `writeLoc` — the only function that changes a cell — preserves `WT` whenever a
  root-level write carries a value of the slot's declared type (nested writes and array writes: always);
* `C05_resolveRef_var`: the resolver fact: for a plain variable of the current activation `resolveRef` returns a holder
  whose `ty` is the slot's declared type and whose location is that slot;
* `assignTail` is literally the end of `execAssign` (`C05_execAssign_tail`); `C05_store_typed_partial`: from a
  well-typed state and a holder with the slot's declared type, it either stores (the state stays well-typed, the new
  value is `implicitCast h.ty rv` and has type `h.ty`) or reports `typeMismatch` / `constAssign` and changes nothing.

The full statement — every statement, every program and every REPL session preserves `WT` — is proved in
`Properties/C05Store.lean` (`C05_inv_preserved`, `C05_store_typed`, `C05_store_typed_program`, `C05_store_typed_repl`) by one
more induction over the 25 functions with value postconditions (`PseudoProofs/TypedInv*.lean`). `C05_store_typed_statement`
below, quantified over *arbitrary* states, is false for an uninteresting reason (two live activations sharing an id, which no
run produces: `C05_store_typed_statement_false`); the proved invariant `TypedInv.Inv` adds exactly that well-formedness and
"a BYREF alias slot has its target's declared type". The lemmas here are its leaves for the assignment channel.
-/
namespace Pseudo
namespace C05

/-- every non-alias variable slot holds a value of its declared type -/
def WT (σ : St) : Prop := ∀ a ∈ σ.acts, ∀ s ∈ a.vars, s.ref = none → s.val.ty = s.ty

/-- the variable slot `l` points to exists and has declared type `ty` -/
def SlotHasTy (σ : St) (l : Loc) (ty : Ty) : Prop :=
  ∃ a s, σ.acts.find? (·.id == l.act) = some a ∧ findSlot a.vars l.name = some s ∧ s.ty = ty

theorem mem_updActs {acts : List Act} {id : Nat} {f : Act → Act} {a' : Act} (h : a' ∈ updActs acts id f) :
    a' ∈ acts ∨ ∃ a, acts.find? (·.id == id) = some a ∧ a' = f a := by
  induction acts with
  | nil => cases h
  | cons a rest ih =>
    unfold updActs at h
    split at h
    · rename_i hid
      rcases List.mem_cons.mp h with h | h
      · exact Or.inr ⟨a, by simp [hid], h⟩
      · exact Or.inl (List.mem_cons_of_mem _ h)
    · rename_i hid
      rcases List.mem_cons.mp h with h | h
      · exact Or.inl (h ▸ List.mem_cons_self)
      · rcases ih h with h | ⟨a0, h1, h2⟩
        · exact Or.inl (List.mem_cons_of_mem _ h)
        · exact Or.inr ⟨a0, by simp [hid, h1], h2⟩

theorem mem_updSlot {ss : List Slot} {n : Str} {g : Slot → Slot} {s' : Slot} (h : s' ∈ updSlot ss n g) :
    s' ∈ ss ∨ ∃ s, findSlot ss n = some s ∧ s' = g s := by
  induction ss with
  | nil => cases h
  | cons s rest ih =>
    unfold updSlot at h
    unfold findSlot
    split at h
    · rename_i hn
      rcases List.mem_cons.mp h with h | h
      · exact Or.inr ⟨s, by simp [hn], h⟩
      · exact Or.inl (List.mem_cons_of_mem _ h)
    · rename_i hn
      rcases List.mem_cons.mp h with h | h
      · exact Or.inl (h ▸ List.mem_cons_self)
      · rcases ih h with h | ⟨s0, h1, h2⟩
        · exact Or.inl (List.mem_cons_of_mem _ h)
        · exact Or.inr ⟨s0, by unfold findSlot at h1; simp [hn, h1], h2⟩

end C05

open C05

/-- **C05 (nested writes keep the root type).** Writing through a non-empty path (a record field, an array element,
    any depth) yields a value of the same type as before at the root -/
theorem C05_setPath_root_ty (v nv v' : Val) (p : List Step) (hp : p ≠ []) (h : setPath v p nv = some v') :
    v'.ty = v.ty := by
  cases p with
  | nil => exact absurd rfl hp
  | cons st rest =>
    cases v <;> cases st <;> simp only [setPath] at h <;> try (cases h)
    · -- record field
      split at h
      · split at h
        · split at h
          · cases h; rfl
          · cases h
        · cases h
      · cases h
    · -- array element
      split at h
      · split at h
        · cases h; rfl
        · cases h
      · cases h

/-- **C05 (`writeLoc` keeps the store typed).** From a well-typed state, `writeLoc t l v` ends in a well-typed state
    whenever a root-level variable write (`l.isArr = false`, `l.path = []`) carries a value of the slot's declared
    type. (A failing `writeLoc` changes nothing; writes to arrays and writes through a path need no condition.) -/
theorem C05_writeLoc_keeps_typed (t : Tok) (l : Loc) (v : Val) (σ : St) (hwt : WT σ)
    (hguard : l.isArr = false → l.path = [] → ∀ a s, σ.acts.find? (·.id == l.act) = some a →
      findSlot a.vars l.name = some s → v.ty = s.ty) :
    WT ((writeLoc t l v).run.run σ).2 := by
  unfold writeLoc
  rw [run_bind_ok _ _ _ _ _ (show (findAct l.act).run.run σ = (.ok (σ.acts.find? (·.id == l.act)), σ) from rfl)]
  cases hfa : σ.acts.find? (·.id == l.act) with
  | none => exact hwt
  | some a =>
    dsimp only
    cases hso : slotOf a l with
    | none => exact hwt
    | some s =>
      dsimp only
      cases hc : s.isConst with
      | true =>
        obtain ⟨d, hd, _⟩ := rtErr_run (α := Unit) t .constAssign σ
        simp only [if_true]
        rw [hd]; exact hwt
      | false =>
        simp only [Bool.false_eq_true, if_false]
        cases hsp : setPath s.val l.path v with
        | none => exact hwt
        | some nv =>
          dsimp only
          rw [run_modifyAct]
          intro a' ha' s' hs' href
          have hid : a.id = l.act := by simpa using List.find?_some hfa
          rcases mem_updActs ha' with hmem | ⟨a0, ha0, rfl⟩
          · exact hwt a' hmem s' hs' href
          · rw [hid, hfa] at ha0
            cases ha0
            have hain : a ∈ σ.acts := List.mem_of_find?_eq_some hfa
            unfold slotOf at hso
            cases hl : l.isArr with
            | true =>
              simp only [hl, if_true] at hs'
              exact hwt a hain s' hs' href
            | false =>
              simp only [hl, Bool.false_eq_true, if_false] at hs' hso
              rcases mem_updSlot hs' with hmem | ⟨s0, hs0, rfl⟩
              · exact hwt a hain s' hmem href
              · rw [hso] at hs0
                cases hs0
                have hsin : s ∈ a.vars := List.mem_of_find?_eq_some hso
                show nv.ty = s.ty
                by_cases hp : l.path = []
                · rw [hp] at hsp
                  simp only [setPath] at hsp
                  cases hsp
                  exact hguard hl hp a s hfa hso
                · rw [C05_setPath_root_ty _ _ _ _ hp hsp]
                  exact hwt a hain s hsin href

/-- **C05 (the resolver fact).** For a plain (non-alias) variable `x` of the current activation, `resolveRef` changes
    nothing and returns the holder of exactly that slot, with `ty` the slot's declared type -/
theorem C05_resolveRef_var (f : Nat) (x : Tok) (σ : St) (cur : Act) (rest : List Act) (s : Slot)
    (hacts : σ.acts = cur :: rest) (hs : findSlot cur.vars x.val = some s) (href : s.ref = none) :
    (resolveRef (f + 1) (.var x)).run.run σ =
      (.ok { loc := { act := cur.id, isArr := false, name := s.name, path := [] }, isArr := false, ty := s.ty, name := s.name }, σ) ∧
    SlotHasTy σ { act := cur.id, isArr := false, name := s.name, path := [] } s.ty := by
  have hcur : curAct.run.run σ = (.ok cur, σ) := by
    unfold curAct
    rw [run_bind_ok _ _ _ _ _ (run_get σ)]
    simp only [hacts]; rfl
  obtain ⟨g, hg⟩ : ∃ g, σ.acts.getLast? = some g := by
    rw [hacts]; exact ⟨_, List.getLast?_eq_some_getLast (by simp)⟩
  have hglob : globalAct.run.run σ = (.ok g, σ) := by
    unfold globalAct
    rw [run_bind_ok _ _ _ _ _ (run_get σ)]
    simp only [hg]; rfl
  have hlook : (lookupVar x.val).run.run σ = (.ok (some (cur, s)), σ) := by
    unfold lookupVar
    rw [run_bind_ok _ _ _ _ _ hcur, run_bind_ok _ _ _ _ _ hglob]
    simp only [lookupVarIn, hs]
    rfl
  constructor
  · rw [resolveRef.eq_def]
    dsimp only
    rw [run_bind_ok _ _ _ _ _ hlook]
    simp only [href]
    rfl
  · have hname : s.name = x.val := by
      have := List.find?_some hs
      simpa using this
    refine ⟨cur, s, ?_, ?_, rfl⟩
    · simp [hacts]
    · show findSlot cur.vars s.name = some s
      rw [hname]; exact hs

/-- the end of `execAssign`: refuse a constant, cast implicitly, compare with the holder's type, store -/
def assignTail (t : Tok) (h : Holder) (rv : Val) : M Unit := do
  if ← locIsConst h.loc then rtErr t .constAssign
  let v' := implicitCast h.ty rv
  if v'.ty != h.ty then rtErr t .typeMismatch
  else writeLoc t h.loc v'

/-- `assignTail` is literally what `execAssign` does once the right-hand side `rv` is evaluated and the target
    resolved to a non-array holder `h`: the whole scalar-assignment branch, spelled with it -/
theorem C05_execAssign_tail (f : Nat) (t : Tok) (r : Ref) (rhs : Expr) :
    execAssign (f + 1) t r rhs = (do
      let cur ← curAct
      let nActs := (← get).acts.length
      let rv? ← tryCatch (evalExpr f rhs >>= fun v => pure (some v)) fun e =>
        match e with
        | .diag d =>
          if d.kind == .runtime && d.msg == .arrayDirect && (d.trace.head?.map (·.name)) == some cur.name
             && d.trace.length == nActs then
            match rhs with
            | .access _ _ => pure none
            | _ => throw e
          else throw e
        | _ => throw e
      match rv? with
      | none =>
        match rhs with
        | .access at' sr =>
          let sh ← resolveRef f sr
          if !sh.isArr then rtErr at' .arrayDirect
          else
            let th ← resolveRef f r
            if !th.isArr then rtErr at' .arrayDirect
            else
              let sv ← readLoc sh.loc
              let tv ← readLoc th.loc
              match sv, tv with
              | .arr se sd _, .arr te td _ =>
                if se != te then rtErr t .typeMismatch
                else if sd != td then rtErr t .typeMismatch
                else writeLoc t th.loc sv
              | _, _ => throw (.crash .other)
        | _ => throw (.crash .other)
      | some rv =>
        let target ← catchNotDefined (resolveRef f r >>= fun h => pure (some h)) fun e => do
          match r with
          | .var vt =>
            if ← isIdentifierType vt then throw e
            else if (← get).pedantic then pedErr t .pedAssign
            else pure none
          | _ => throw e
        match target with
        | some h => if h.isArr then rtErr t .arrayDirect else assignTail t h rv
        | none =>
          match r with
          | .var vt =>
            if rv.ty == .none then rtErr t .noValue
            else addVar { name := vt.val, ty := rv.ty, val := rv }
          | _ => throw (.crash .other)) := by
  rw [execAssign.eq_def]
  rfl

/-- the statement over arbitrary states (refuted for ill-formed states, proved for reachable ones in `C05Store.lean`) -/
def C05_store_typed_statement : Prop :=
  ∀ (fuel : Nat) (s : Stmt) (σ : St), WT σ → WT ((execStmt fuel s).run.run σ).2

/-- **C05 (typed store, the assignment channel — partial).** From a well-typed state, with a root-level, non-array
    holder whose `ty` is the declared type of the slot it points to (what `C05_resolveRef_var` provides), the store
    step of an assignment
    * either succeeds: then `implicitCast h.ty rv` has type `h.ty` (one of the three documented conversions or the
      identity — `C05_compat_table`) and the state afterwards is well-typed,
    * or ends in a runtime diagnostic (`typeMismatch` when the cast value does not have the holder's type,
      `constAssign` for a constant) and then the state is exactly what it was — the old value is intact. -/
theorem C05_store_typed_partial (t : Tok) (h : Holder) (rv : Val) (σ : St) (hwt : WT σ)
    (hroot : h.loc.isArr = false ∧ h.loc.path = []) (hty : SlotHasTy σ h.loc h.ty) :
    WT ((assignTail t h rv).run.run σ).2 ∧
    (((assignTail t h rv).run.run σ).1 = .ok () → (implicitCast h.ty rv).ty = h.ty) ∧
    (∀ e, ((assignTail t h rv).run.run σ).1 = .error e →
      ((assignTail t h rv).run.run σ).2 = σ ∧ ∃ d, e = .diag d ∧ d.kind = .runtime ∧
        (d.msg = .typeMismatch ∨ d.msg = .constAssign) ∧
        (d.msg = .typeMismatch → (implicitCast h.ty rv).ty ≠ h.ty)) := by
  obtain ⟨a, s, ha, hs, hst⟩ := hty
  have hso : slotOf a h.loc = some s := by unfold slotOf; simp only [hroot.1, Bool.false_eq_true, if_false]; exact hs
  have hlc : (locIsConst h.loc).run.run σ = (.ok s.isConst, σ) := by
    unfold locIsConst
    rw [run_bind_ok _ _ _ _ _ (show (findAct h.loc.act).run.run σ = (.ok (σ.acts.find? (·.id == h.loc.act)), σ) from rfl)]
    simp only [ha, hso]
    rfl
  unfold assignTail
  rw [run_bind_ok _ _ _ _ _ hlc]
  cases hc : s.isConst with
  | true =>
    simp only [if_true]
    obtain ⟨d, hd, hm, hk, _⟩ := rtErr_run (α := PUnit) t .constAssign σ
    rw [run_bind_err _ _ _ _ _ hd]
    exact ⟨hwt, (fun h => by cases h), fun e he => by
      cases he
      exact ⟨rfl, d, rfl, hk, Or.inr hm, fun h' => by rw [hm] at h'; cases h'⟩⟩
  | false =>
    simp only [Bool.false_eq_true, if_false]
    by_cases hcmp : (implicitCast h.ty rv).ty = h.ty
    · have hne : ((implicitCast h.ty rv).ty != h.ty) = false := by simp [hcmp]
      simp only [hne, Bool.false_eq_true, if_false]
      refine ⟨C05_writeLoc_keeps_typed t h.loc _ σ hwt (fun _ _ a' s' ha' hs' => ?_), fun _ => hcmp, ?_⟩
      · rw [ha] at ha'; cases ha'
        rw [hs] at hs'; cases hs'
        rw [hcmp, hst]
      · -- the write itself cannot fail here except on a constant (excluded): it succeeds
        intro e he
        exfalso
        unfold writeLoc at he
        rw [run_bind_ok _ _ _ _ _ (show (findAct h.loc.act).run.run σ = (.ok (σ.acts.find? (·.id == h.loc.act)), σ) from rfl)] at he
        simp only [ha, hso, hc, Bool.false_eq_true, if_false, hroot.2, setPath] at he
        rw [run_modifyAct] at he
        cases he
    · have hne : ((implicitCast h.ty rv).ty != h.ty) = true := by simp [hcmp]
      simp only [hne, if_true]
      obtain ⟨d, hd, hm, hk, _⟩ := rtErr_run (α := Unit) t .typeMismatch σ
      rw [hd]
      exact ⟨hwt, (fun h => by cases h), fun e he => by
        cases he
        exact ⟨rfl, d, rfl, hk, Or.inl hm, fun _ => hcmp⟩⟩

/-! ### non-vacuity -/

def C05.demoTok (s : String) : Tok := { k := .IDENTIFIER, line := 1, col := 1, val := s.toList }
/-- a state with `x : REAL = 1.5` -/
def C05.demoSt : St :=
  { St.init [] [] false false with acts := [{ mkGlobal with vars := [{ name := "x".toList, ty := .real, val := .real 1.5 }] }] }
def C05.demoH : Holder := { loc := ⟨0, false, "x".toList, []⟩, isArr := false, ty := .real, name := "x".toList }

theorem C05.demo_wt : WT C05.demoSt := by
  intro a ha s hs _
  have : a = { mkGlobal with vars := [{ name := "x".toList, ty := .real, val := .real 1.5 }] } := by
    simpa [C05.demoSt] using ha
  subst this
  have : s = { name := "x".toList, ty := .real, val := .real 1.5 } := by simpa using hs
  subst this
  rfl
theorem C05.demo_slot : SlotHasTy C05.demoSt C05.demoH.loc C05.demoH.ty := ⟨_, _, rfl, rfl, rfl⟩

/-- the resolver finds the slot … -/
example : ((resolveRef 3 (.var (C05.demoTok "x"))).run.run C05.demoSt).1.toOption.map (·.ty) = some Ty.real :=
  by rw [(C05_resolveRef_var 2 (C05.demoTok "x") C05.demoSt _ _ _ rfl rfl rfl).1]; rfl
/-- … storing the INTEGER 2 converts it (INTEGER → REAL) and keeps the state typed … -/
example : WT ((assignTail (C05.demoTok "<-") C05.demoH (.int 2)).run.run C05.demoSt).2 :=
  (C05_store_typed_partial _ _ _ _ C05.demo_wt ⟨rfl, rfl⟩ C05.demo_slot).1
/-- … storing a BOOLEAN is a `typeMismatch` and leaves the state untouched -/
example : (implicitCast C05.demoH.ty (.bool true)).ty ≠ C05.demoH.ty := by decide

end Pseudo
