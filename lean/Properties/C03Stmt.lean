import PseudoProofs.LoopStmtIter
import PseudoProofs.LoopStmtEx
/-!
# C03 — the loop STATEMENTS on runs

Model: `execStmt` on `.for`, `.while`, `.repeat`, `.brk`, `.cont` (`PseudoModel/Eval.lean`), on top of the one-round
equations of `Properties/C03Loops.lean`.

1. FOR head: `C03_stmt_for_head` (+ `C03_stmt_for_iterator_*`: where the iterator lives, `C03_stmt_for_*_not_integer`,
   `C03_stmt_for_zero_step_*`), `C03_stmt_for_sequence` (against the closed form `forSeq`, both step signs).
2. Whole-loop iteration: `C03_stmt_while_iterates`, `C03_stmt_while_zero`, `C03_stmt_repeat_iterates`.
3. BREAK / CONTINUE: `C03_stmt_break_innermost_*`, `C03_stmt_continue_next_pass_*`, `C03_stmt_break_outside`.

Conventions. `tickSt σ` is `σ` with the step counter increased by one. Every loop statement counts ONE step for the
statement itself, WHILE and REPEAT count one more step per test / pass, FOR one per pass (none for the final failing
test). `PureAt σ f₀ e v`: with every fuel `≥ f₀` the expression `e` evaluates from `σ` to `v` leaving `σ` unchanged.
-/
namespace Pseudo

open ArrayLemmas TraceChain TraceChain2 LoopStmt

/-! ## 1. the head of FOR -/

/-- **FOR head.** `FOR it ← start TO stop [STEP step]`, run from `σ` with budget for one step (`hsteps`, else the
    statement is a budget error). The model first counts the step and finds the iterator cell (`hit`: `forIter` is the
    model's own lookup — see `C03_stmt_for_iterator_var / _ref / _new` for its three cases; it must be an INTEGER, `hit`,
    and not a constant, `hconst`); call the state after that `σ1` (`σ1 = tickSt σ` unless the iterator had to be created).
    Hypotheses `hs he hk`: start, bound and step are pure in `σ1` with INTEGER values `a`, `bnd`, `k` (`k = 1` without STEP).
    Conclusion: all three are evaluated in `σ1`, i.e. BEFORE the iterator is assigned — a bound that reads the iterator
    sees its OLD value — in the order start, bound, step, each once; only then `a` is written to the iterator, and the run
    continues as `forLoop` with the VALUES `bnd`, `k` (never re-evaluated) from the state the write left. The statement's
    result is `none`; an error of the write or of the loop is the error of the statement. -/
theorem C03_stmt_for_head (f f0 : Nat) (t it : Tok) (start stop : Expr) (step : Option Expr) (b : Block) (l : Loc)
    (a bnd k : Int) (σ σ1 : St)
    (hsteps : σ.steps + 1 ≤ σ.stepLimit)
    (hit : (forIter it).run.run (tickSt σ) = (.ok (l, .int), σ1))
    (hconst : locConstP σ1 l = false) (hf : f0 ≤ f)
    (hs : PureAt σ1 f0 start (.int a)) (he : PureAt σ1 f0 stop (.int bnd)) (hk : StepPure σ1 f0 step k) :
    (execStmt (f+1) (.for t it start stop step b)).run.run σ =
      match (writeLoc t l (.int a)).run.run σ1 with
      | (.ok _, σ2) =>
        (match (forLoop f t l bnd k b).run.run σ2 with
         | (.ok _, σ3) => (.ok .none, σ3)
         | (.error e, σ3) => (.error e, σ3))
      | (.error e, σ2) => (.error e, σ2) := by
  rw [run_for_prefix f t it start stop step b l σ σ1 hsteps hit hconst]
  exact run_forRest_pure f f0 t l start stop step b a bnd k σ1 hf hs he hk

/-- the iterator names a plain variable — searched in the current activation, then in the global one: the loop works on
    that variable's own cell; the state is untouched by the lookup -/
theorem C03_stmt_for_iterator_var (σ : St) (cur g : Act) (rest : List Act) (it : Tok) (a : Act) (s : Slot)
    (h : σ.acts = cur :: rest) (hg : σ.acts.getLast? = some g) (hl : lookupVarIn cur g it.val = some (a, s))
    (href : s.ref = none) :
    (forIter it).run.run σ = (.ok ({ act := a.id, isArr := false, name := s.name, path := [] }, s.ty), σ) :=
  run_forIter_var σ cur g rest it a s h hg hl href

/-- the iterator names a BYREF parameter: the loop works on the caller's cell -/
theorem C03_stmt_for_iterator_ref (σ : St) (cur g : Act) (rest : List Act) (it : Tok) (a : Act) (s : Slot) (l : Loc)
    (h : σ.acts = cur :: rest) (hg : σ.acts.getLast? = some g) (hl : lookupVarIn cur g it.val = some (a, s))
    (href : s.ref = some l) :
    (forIter it).run.run σ = (.ok (l, s.ty), σ) :=
  run_forIter_ref σ cur g rest it a s l h hg hl href

/-- the iterator is not declared: a new INTEGER variable with value 0 is appended to the variables of the CURRENT
    activation (inside a procedure: a local, not a global) — before start / bound / step are evaluated, so a bound that
    reads the undeclared iterator sees 0 -/
theorem C03_stmt_for_iterator_new (σ : St) (cur g : Act) (rest : List Act) (it : Tok)
    (h : σ.acts = cur :: rest) (hg : σ.acts.getLast? = some g) (hl : lookupVarIn cur g it.val = none) :
    (forIter it).run.run σ =
      (.ok ({ act := cur.id, isArr := false, name := it.val, path := [] }, .int), newIterSt σ cur rest it) :=
  run_forIter_new σ cur g rest it h hg hl

/-- an iterator that is not an INTEGER: `typeMismatch` at the FOR token, nothing is evaluated -/
theorem C03_stmt_for_iterator_not_integer (f : Nat) (t it : Tok) (start stop : Expr) (step : Option Expr) (b : Block)
    (l : Loc) (ty : Ty) (σ σ1 : St) (hsteps : σ.steps + 1 ≤ σ.stepLimit)
    (hit : (forIter it).run.run (tickSt σ) = (.ok (l, ty), σ1)) (hty : ty ≠ .int) :
    (execStmt (f+1) (.for t it start stop step b)).run.run σ =
      (.error (.diag (rtDiag σ1 t.line t.col .typeMismatch)), σ1) := by
  rw [execStmt_for, run_bind_ok _ _ _ _ _ (run_tick_ok _ σ hsteps), run_bind_ok _ _ _ _ _ hit]
  have : (ty != Ty.int) = true := by simpa using hty
  simp only [this, if_true]
  exact run_rtErr t .typeMismatch σ1

/-- an iterator that is a constant: `constAssign` at the FOR token, nothing is evaluated -/
theorem C03_stmt_for_iterator_constant (f : Nat) (t it : Tok) (start stop : Expr) (step : Option Expr) (b : Block)
    (l : Loc) (σ σ1 : St) (hsteps : σ.steps + 1 ≤ σ.stepLimit)
    (hit : (forIter it).run.run (tickSt σ) = (.ok (l, .int), σ1)) (hconst : locConstP σ1 l = true) :
    (execStmt (f+1) (.for t it start stop step b)).run.run σ =
      (.error (.diag (rtDiag σ1 t.line t.col .constAssign)), σ1) := by
  rw [execStmt_for, run_bind_ok _ _ _ _ _ (run_tick_ok _ σ hsteps), run_bind_ok _ _ _ _ _ hit]
  simp only [bne_self_eq_false, Bool.false_eq_true, if_false]
  rw [run_bind_ok _ _ _ _ _ (run_locIsConst l σ1), hconst]
  simp only [if_true]
  exact run_bind_err _ _ _ _ _ (run_rtErr t .constAssign σ1)

/-- a start value that is not an INTEGER (no implicit conversion, a REAL is rejected too): `typeMismatch` at the FOR
    token; bound and step are not evaluated, the iterator is not assigned (but has been created if undeclared: `σ1`) -/
theorem C03_stmt_for_start_not_integer (f f0 : Nat) (t it : Tok) (start stop : Expr) (step : Option Expr) (b : Block)
    (l : Loc) (v : Val) (σ σ1 : St) (hsteps : σ.steps + 1 ≤ σ.stepLimit)
    (hit : (forIter it).run.run (tickSt σ) = (.ok (l, .int), σ1)) (hconst : locConstP σ1 l = false) (hf : f0 ≤ f)
    (hs : PureAt σ1 f0 start v) (hv : ∀ a, v ≠ .int a) :
    (execStmt (f+1) (.for t it start stop step b)).run.run σ =
      (.error (.diag (rtDiag σ1 t.line t.col .typeMismatch)), σ1) := by
  rw [run_for_prefix f t it start stop step b l σ σ1 hsteps hit hconst]
  exact run_forRest_start_bad f f0 t l start stop step b v σ1 hf hs hv

/-- a bound that is not an INTEGER: `typeMismatch` at the FOR token, after the start value has been evaluated -/
theorem C03_stmt_for_stop_not_integer (f f0 : Nat) (t it : Tok) (start stop : Expr) (step : Option Expr) (b : Block)
    (l : Loc) (a : Int) (v : Val) (σ σ1 : St) (hsteps : σ.steps + 1 ≤ σ.stepLimit)
    (hit : (forIter it).run.run (tickSt σ) = (.ok (l, .int), σ1)) (hconst : locConstP σ1 l = false) (hf : f0 ≤ f)
    (hs : PureAt σ1 f0 start (.int a)) (he : PureAt σ1 f0 stop v) (hv : ∀ a, v ≠ .int a) :
    (execStmt (f+1) (.for t it start stop step b)).run.run σ =
      (.error (.diag (rtDiag σ1 t.line t.col .typeMismatch)), σ1) := by
  rw [run_for_prefix f t it start stop step b l σ σ1 hsteps hit hconst]
  exact run_forRest_stop_bad f f0 t l start stop step b a v σ1 hf hs he hv

/-- a step that is not an INTEGER: `typeMismatch` at the FOR token, after start and bound; the iterator is not assigned -/
theorem C03_stmt_for_step_not_integer (f f0 : Nat) (t it : Tok) (start stop se : Expr) (b : Block)
    (l : Loc) (a bnd : Int) (v : Val) (σ σ1 : St) (hsteps : σ.steps + 1 ≤ σ.stepLimit)
    (hit : (forIter it).run.run (tickSt σ) = (.ok (l, .int), σ1)) (hconst : locConstP σ1 l = false) (hf : f0 ≤ f)
    (hs : PureAt σ1 f0 start (.int a)) (he : PureAt σ1 f0 stop (.int bnd)) (hk : PureAt σ1 f0 se v) (hv : ∀ a, v ≠ .int a) :
    (execStmt (f+1) (.for t it start stop (some se) b)).run.run σ =
      (.error (.diag (rtDiag σ1 t.line t.col .typeMismatch)), σ1) := by
  rw [run_for_prefix f t it start stop (some se) b l σ σ1 hsteps hit hconst]
  exact run_forRest_step_bad f f0 t l start stop se b a bnd v σ1 hf hs he hk hv

/-! ## 1b. FOR against the closed form -/

/-- the closed form of `forSeq`, for BOTH step signs (and a zero step): when the sequence ends within `n` elements, its
    `j`-th element is `i + j·step` and the final value is `i + length·step` -/
theorem C03_forSeq_closed (stop step : Int) : ∀ (n : Nat) (i : Int), (forSeq n i stop step).1.length < n →
    (forSeq n i stop step).2 = i + ((forSeq n i stop step).1.length : Int) * step ∧
    ∀ j, j < (forSeq n i stop step).1.length → (forSeq n i stop step).1[j]? = some (i + (j : Int) * step) := by
  intro n
  induction n with
  | zero => intro i h; exact absurd h (Nat.not_lt_zero _)
  | succ n ih =>
    intro i hlen
    by_cases hc : (step < 0 ∧ i ≥ stop) ∨ (¬ step < 0 ∧ i ≤ stop)
    · rw [forSeq_succ_of n i stop step hc] at hlen ⊢
      simp only [List.length_cons] at hlen ⊢
      obtain ⟨h2, hj⟩ := ih (i + step) (by omega)
      have hmul : ∀ m : Nat, ((m + 1 : Nat) : Int) * step = (m : Int) * step + step := by
        intro m; rw [Int.natCast_add, Int.add_mul]; simp
      refine ⟨?_, ?_⟩
      · rw [h2, hmul]; omega
      · intro j hjlt
        cases j with
        | zero => simp
        | succ j =>
          rw [List.getElem?_cons_succ, hj j (by omega), hmul]
          congr 1; omega
    · rw [forSeq_succ_not n i stop step hc]
      refine ⟨by simp, ?_⟩
      intro j hj; exact absurd hj (Nat.not_lt_zero _)

/-- **a zero step is NOT rejected** (neither by the model nor by `for.cpp`): it counts as a non-negative step, so with
    `start ≤ stop` the sequence never ends — `forSeq` uses up every bound `n` (the loop only stops by the step budget, a
    BREAK, or the body moving the iterator past the bound); with `start > stop` it is an empty range
    (`C03_stmt_for_empty_range` with `k = 0`) -/
theorem C03_stmt_for_zero_step_never_ends (stop : Int) : ∀ (n : Nat) (i : Int), i ≤ stop → (forSeq n i stop 0).1.length = n := by
  intro n
  induction n with
  | zero => intro i _; rfl
  | succ n ih =>
    intro i h
    have hc : ((0:Int) < 0 ∧ i ≥ stop) ∨ (¬ (0:Int) < 0 ∧ i ≤ stop) := Or.inr ⟨by omega, h⟩
    rw [forSeq_succ_of n i stop 0 hc]
    simp only [List.length_cons, Int.add_zero]
    rw [ih i h]

/-- **FOR statement = the closed-form sequence.** Hypotheses of `C03_stmt_for_head` (start `a`, bound `bnd`, step `k`
    pure in `σ1`), `hw hr`: the start value is written to the iterator giving `σ2` (`run_writeLoc_ok`), and the
    round hypothesis of `C03_for_matches_forSeq` for a user-chosen invariant `Inv m σ` ("`m` passes still to go"): from
    a state with `Inv (m+1)` whose iterator holds `i` there is budget for the pass, the body ends normally or with
    CONTINUE leaving the iterator alone, the increment is written and `Inv m` holds. `hlen`: `n` bounds the sequence
    (it ends by itself); `hwrap`: no 64-bit wrap-around. Conclusion, for step of EITHER sign: the statement ends normally;
    the body has run once per element of `forSeq n a bnd k` in order (`Inv length σ2` has been taken to `Inv 0 σ'`
    through `Inv (length-1)`, …, one pass each; by `C03_forSeq_closed` the `j`-th pass saw the iterator `a + j·k`), and
    the iterator holds `a + length·k`, the first value past the bound. Empty range: `length = 0`, iterator `= a`. -/
theorem C03_stmt_for_sequence (Inv : Nat → St → Prop) (f0 : Nat) (t it : Tok) (start stop : Expr) (step : Option Expr) (b : Block)
    (l : Loc) (a bnd k : Int) (σ σ1 σ2 : St)
    (hsteps : σ.steps + 1 ≤ σ.stepLimit)
    (hit : (forIter it).run.run (tickSt σ) = (.ok (l, .int), σ1))
    (hconst : locConstP σ1 l = false)
    (hs : PureAt σ1 f0 start (.int a)) (he : PureAt σ1 f0 stop (.int bnd)) (hk : StepPure σ1 f0 step k)
    (hw : (writeLoc t l (.int a)).run.run σ1 = (.ok ⟨⟩, σ2)) (hr : readLocP σ2 l = .ok (.int a))
    (hround : ∀ (m : Nat) (σ : St) (i : Int) (f' : Nat), f0 ≤ f' → Inv (m + 1) σ → readLocP σ l = .ok (.int i) →
      σ.steps + 1 ≤ σ.stepLimit ∧
      ∃ σb, (loopBody f' b).run.run (tickSt σ) = (.ok false, σb) ∧ readLocP σb l = .ok (.int i) ∧
      ∃ σc, (writeLoc t l (.int (wrap64 (i + k)))).run.run σb = (.ok ⟨⟩, σc) ∧
        readLocP σc l = .ok (.int (wrap64 (i + k))) ∧ Inv m σc)
    (n : Nat) (hlen : (forSeq n a bnd k).1.length < n)
    (hwrap : ∀ i ∈ (forSeq n a bnd k).1, wrap64 (i + k) = i + k)
    (hinv : Inv (forSeq n a bnd k).1.length σ2) :
    ∃ σ', (execStmt (f0 + (forSeq n a bnd k).1.length + 2) (.for t it start stop step b)).run.run σ = (.ok .none, σ') ∧
      readLocP σ' l = .ok (.int (a + ((forSeq n a bnd k).1.length : Int) * k)) ∧ Inv 0 σ' := by
  obtain ⟨σ', hrun, hfin, hinv0⟩ := C03_for_matches_forSeq Inv f0 t l bnd k b hround n a σ2 hlen hwrap hinv hr
  refine ⟨σ', ?_, ?_, hinv0⟩
  · rw [C03_stmt_for_head (f0 + (forSeq n a bnd k).1.length + 1) f0 t it start stop step b l a bnd k σ σ1 hsteps hit hconst
      (by omega) hs he hk, hw]
    simp only [hrun]
  · rw [hfin, (C03_forSeq_closed bnd k n a hlen).1]

/-- The same (an instance of `C03_stmt_for_sequence`, `Inv m σ` := "the iterator is not constant and there is budget for
    `m` more passes") from facts about the body alone (`hbody`: from a state whose iterator holds `i` and is not constant, the
    body ends normally or with CONTINUE, leaves iterator and constness alone and counts at most `cost` steps) and the
    budget `hbudget` for `length · (cost + 1)` steps; `hold`: the iterator cell is readable and holds an INTEGER before
    the loop. -/
theorem C03_stmt_for_sequence_body (f0 cost : Nat) (t it : Tok) (start stop : Expr) (step : Option Expr) (b : Block)
    (l : Loc) (a bnd k old : Int) (σ σ1 : St)
    (hsteps : σ.steps + 1 ≤ σ.stepLimit)
    (hit : (forIter it).run.run (tickSt σ) = (.ok (l, .int), σ1))
    (hconst : locConstP σ1 l = false) (hold : readLocP σ1 l = .ok (.int old))
    (hs : PureAt σ1 f0 start (.int a)) (he : PureAt σ1 f0 stop (.int bnd)) (hk : StepPure σ1 f0 step k)
    (hbody : ∀ (f' : Nat) (σ : St) (i : Int), f0 ≤ f' → readLocP σ l = .ok (.int i) → locConstP σ l = false →
      ∃ σb, (loopBody f' b).run.run σ = (.ok false, σb) ∧ readLocP σb l = .ok (.int i) ∧ locConstP σb l = false ∧
        σb.steps ≤ σ.steps + cost ∧ σb.stepLimit = σ.stepLimit)
    (n : Nat) (hlen : (forSeq n a bnd k).1.length < n)
    (hwrap : ∀ i ∈ (forSeq n a bnd k).1, wrap64 (i + k) = i + k)
    (hbudget : σ1.steps + (forSeq n a bnd k).1.length * (cost + 1) ≤ σ1.stepLimit) :
    ∃ σ', (execStmt (f0 + (forSeq n a bnd k).1.length + 2) (.for t it start stop step b)).run.run σ = (.ok .none, σ') ∧
      readLocP σ' l = .ok (.int (a + ((forSeq n a bnd k).1.length : Int) * k)) ∧ locConstP σ' l = false := by
  obtain ⟨F, _, hw, hr, hc2⟩ := run_writeLoc_ok t l (.int a) (.int old) σ1 hold hconst rfl
  let Inv : Nat → St → Prop := fun m σ => locConstP σ l = false ∧ σ.steps + m * (cost + 1) ≤ σ.stepLimit
  have hround : ∀ (m : Nat) (σ : St) (i : Int) (f' : Nat), f0 ≤ f' → Inv (m + 1) σ → readLocP σ l = .ok (.int i) →
      σ.steps + 1 ≤ σ.stepLimit ∧
      ∃ σb, (loopBody f' b).run.run (tickSt σ) = (.ok false, σb) ∧ readLocP σb l = .ok (.int i) ∧
      ∃ σc, (writeLoc t l (.int (wrap64 (i + k)))).run.run σb = (.ok ⟨⟩, σc) ∧
        readLocP σc l = .ok (.int (wrap64 (i + k))) ∧ Inv m σc := by
    intro m σ i f' hf' ⟨hc, hbud⟩ hri
    rw [Nat.succ_mul] at hbud
    refine ⟨by omega, ?_⟩
    obtain ⟨σb, hrun, hr1, hc1, hst, hlim⟩ := hbody f' (tickSt σ) i hf' hri hc
    refine ⟨σb, hrun, hr1, ?_⟩
    obtain ⟨G, _, hw', hr2, hc3⟩ := run_writeLoc_ok t l (.int (wrap64 (i + k))) (.int i) σb hr1 hc1 rfl
    refine ⟨_, hw', hr2, hc3, ?_⟩
    show σb.steps + m * (cost + 1) ≤ σb.stepLimit
    have : (tickSt σ).steps = σ.steps + 1 := rfl
    have : (tickSt σ).stepLimit = σ.stepLimit := rfl
    omega
  obtain ⟨σ', hrun, hfin, hinv⟩ := C03_stmt_for_sequence Inv f0 t it start stop step b l a bnd k σ σ1 _ hsteps hit hconst
    hs he hk hw hr hround n hlen hwrap ⟨hc2, hbudget⟩
  exact ⟨σ', hrun, hfin, hinv.1⟩

/-- **empty range (either step sign, or a zero step with start > bound): no pass.** Whatever the body `b` is, it does not
    run: the final state `σ'` is exactly the state the assignment of the start value left, the iterator holds the start
    value, only the step of the statement has been counted. -/
theorem C03_stmt_for_empty_range (f0 : Nat) (t it : Tok) (start stop : Expr) (step : Option Expr) (b : Block)
    (l : Loc) (a bnd k old : Int) (σ σ1 : St)
    (hsteps : σ.steps + 1 ≤ σ.stepLimit)
    (hit : (forIter it).run.run (tickSt σ) = (.ok (l, .int), σ1))
    (hconst : locConstP σ1 l = false) (hold : readLocP σ1 l = .ok (.int old))
    (hs : PureAt σ1 f0 start (.int a)) (he : PureAt σ1 f0 stop (.int bnd)) (hk : StepPure σ1 f0 step k)
    (hempty : (0 ≤ k ∧ bnd < a) ∨ (k < 0 ∧ a < bnd)) :
    ∃ σ', (writeLoc t l (.int a)).run.run σ1 = (.ok ⟨⟩, σ') ∧
      (execStmt (f0 + 2) (.for t it start stop step b)).run.run σ = (.ok .none, σ') ∧
      readLocP σ' l = .ok (.int a) := by
  obtain ⟨F, _, hw, hr, _⟩ := run_writeLoc_ok t l (.int a) (.int old) σ1 hold hconst rfl
  refine ⟨updSt σ1 l.act F, hw, ?_, hr⟩
  rw [C03_stmt_for_head (f0 + 1) f0 t it start stop step b l a bnd k σ σ1 hsteps hit hconst (by omega) hs he hk, hw]
  have hc : ¬ ((k < 0 ∧ a ≥ bnd) ∨ (¬ k < 0 ∧ a ≤ bnd)) := by omega
  simp only [C03_for_run f0 t l bnd k b _ a hr, hc, if_false]

/-! ## 2. whole WHILE / REPEAT loops -/

/-- **WHILE iterates.** States `S 0 … S n` (at the tests, `S 0 = tickSt σ`: the statement itself has counted one step)
    and `C 0 … C (n-1)` (after the TRUE tests). Hypotheses: budget for the step of every test (`hbud`; without it that
    test is a budget error); for `i < n` the condition, evaluated from `tickSt (S i)`, is TRUE (leaving `C i`) and the
    body takes `C i` to `S (i+1)` ending normally or with CONTINUE (`BodyPass`); from `tickSt (S n)` the condition is
    FALSE, leaving `σ'`. Conclusion: the statement ends normally, with result `none`, in EXACTLY `σ'`: nothing but the
    `n+1` tests (each preceded by one counted step) and the `n` body runs, in this order, has touched the state.
    Condition and body are given with one fuel `f`; every fuel `F ≥ f + n + 2` for the statement does. -/
theorem C03_stmt_while_iterates (f n : Nat) (t : Tok) (c : Expr) (b : Block) (σ σ' : St) (S C : Nat → St)
    (hsteps : σ.steps + 1 ≤ σ.stepLimit) (hS0 : S 0 = tickSt σ)
    (hbud : ∀ i, i ≤ n → (S i).steps + 1 ≤ (S i).stepLimit)
    (hcond : ∀ i, i < n → (evalExpr f c).run.run (tickSt (S i)) = (.ok (.bool true), C i))
    (hbody : ∀ i, i < n → BodyPass f b (C i) (S (i+1)))
    (hlast : (evalExpr f c).run.run (tickSt (S n)) = (.ok (.bool false), σ'))
    (F : Nat) (hF : f + n + 2 ≤ F) :
    (execStmt F (.while t c b)).run.run σ = (.ok .none, σ') := by
  have hp : WhilePasses f c b n (S 0) (S n) :=
    WhilePasses.of_seq f c b n S C (fun i hi => hbud i (by omega)) hcond hbody
  have hloop : (whileLoop (f + 1 + n) t c b).run.run (tickSt σ) = (.ok ⟨⟩, σ') := by
    rw [← hS0, whileLoop_passes f t c b hp (f+1) (Nat.le_refl _), C03_while_run f t c b (S n) (hbud n (Nat.le_refl _)), hlast]
  have hstmt : (execStmt (f + 1 + n + 1) (.while t c b)).run.run σ = (.ok .none, σ') := by
    rw [run_execStmt_while _ t c b σ hsteps, hloop]
  exact ok_mono ((fuel_mono_all (by omega : f + 1 + n + 1 ≤ F)).execStmt _) hstmt

/-- **WHILE with a condition that is FALSE at once**: the body never runs (it does not even occur in the hypotheses);
    two steps are counted (statement, test) and the condition is evaluated once -/
theorem C03_stmt_while_zero (f : Nat) (t : Tok) (c : Expr) (b : Block) (σ σ' : St)
    (hsteps : σ.steps + 2 ≤ σ.stepLimit)
    (hlast : (evalExpr f c).run.run (tickSt (tickSt σ)) = (.ok (.bool false), σ')) :
    (execStmt (f + 2) (.while t c b)).run.run σ = (.ok .none, σ') := by
  rw [run_execStmt_while _ t c b σ (by omega), C03_while_run f t c b (tickSt σ) (by show σ.steps + 1 + 1 ≤ σ.stepLimit; omega), hlast]

/-- **REPEAT iterates: the body first, at least once; the UNTIL test after every pass — also after CONTINUE.**
    States `S 0 … S n` (before the passes, `S 0 = tickSt σ`) and `B 0 … B n` (after the bodies). Hypotheses: budget for
    the step of each pass; for EVERY `i ≤ n` the body takes `tickSt (S i)` to `B i`, ending normally or with CONTINUE
    (`BodyPass` — in both cases the next thing evaluated is the UNTIL test, from `B i`); for `i < n` the test is FALSE
    leaving `S (i+1)`; after pass `n` it is TRUE leaving `σ'`. Conclusion: the statement ends normally in exactly `σ'`
    after `n + 1 ≥ 1` passes and `n + 1` tests. -/
theorem C03_stmt_repeat_iterates (f n : Nat) (t : Tok) (b : Block) (c : Expr) (σ σ' : St) (S B : Nat → St)
    (hsteps : σ.steps + 1 ≤ σ.stepLimit) (hS0 : S 0 = tickSt σ)
    (hbud : ∀ i, i ≤ n → (S i).steps + 1 ≤ (S i).stepLimit)
    (hbody : ∀ i, i ≤ n → BodyPass f b (tickSt (S i)) (B i))
    (hcond : ∀ i, i < n → (evalExpr f c).run.run (B i) = (.ok (.bool false), S (i+1)))
    (hlast : (evalExpr f c).run.run (B n) = (.ok (.bool true), σ'))
    (F : Nat) (hF : f + n + 3 ≤ F) :
    (execStmt F (.repeat t b c)).run.run σ = (.ok .none, σ') := by
  have hp : RepeatPasses f b c n (S 0) (S n) :=
    RepeatPasses.of_seq f b c n S B (fun i hi => hbud i (by omega)) (fun i hi => hbody i (by omega)) hcond
  have hloop : (repeatLoop (f + 2 + n) t b c).run.run (tickSt σ) = (.ok ⟨⟩, σ') := by
    rw [← hS0, repeatLoop_passes f t b c hp (f+2) (by omega), C03_repeat_run (f+1) t b c (S n) (hbud n (Nat.le_refl _)),
      (hbody n (Nat.le_refl _)).loopBody]
    simp only [ok_mono ((fuel_mono_all (by omega : f ≤ f + 1)).evalExpr c) hlast]
  have hstmt : (execStmt (f + 2 + n + 1) (.repeat t b c)).run.run σ = (.ok .none, σ') := by
    rw [run_execStmt_repeat _ t b c σ hsteps, hloop]
  exact ok_mono ((fuel_mono_all (by omega : f + 2 + n + 1 ≤ F)).execStmt _) hstmt

/-- a condition that is not a BOOLEAN, at any test of a WHILE statement (after `n` complete passes): runtime error
    `condType` at the WHILE token; the body is not run again -/
theorem C03_stmt_while_nonbool (f n : Nat) (t : Tok) (c : Expr) (b : Block) (σ σa σ' : St) (v : Val)
    (hsteps : σ.steps + 1 ≤ σ.stepLimit) (hp : WhilePasses f c b n (tickSt σ) σa)
    (hbud : σa.steps + 1 ≤ σa.stepLimit)
    (hlast : (evalExpr f c).run.run (tickSt σa) = (.ok v, σ')) (hv : ∀ x, v ≠ .bool x) :
    (execStmt (f + 1 + n + 1) (.while t c b)).run.run σ = (.error (.diag (rtDiag σ' t.line t.col .condType)), σ') := by
  rw [run_execStmt_while _ t c b σ hsteps, whileLoop_passes f t c b hp (f+1) (Nat.le_refl _), C03_while_run f t c b σa hbud, hlast]
  cases v with
  | bool x => exact absurd rfl (hv x)
  | _ => rfl

/-! ## 3. BREAK / CONTINUE -/

/-- the statements themselves: one step is counted, then the signal carrying the statement's token is raised -/
theorem C03_stmt_break_signal (f : Nat) (t : Tok) (σ : St) (hb : σ.steps + 1 ≤ σ.stepLimit) :
    (execStmt (f+1) (.brk t)).run.run σ = (.error (.brk t), tickSt σ) ∧
    (execStmt (f+1) (.cont t)).run.run σ = (.error (.cont t), tickSt σ) :=
  ⟨run_execStmt_brk f t σ hb, run_execStmt_cont f t σ hb⟩

/-- a signal raised by a statement of a block ends the block at once: the statements after it do not run -/
theorem C03_stmt_signal_skips_rest (f : Nat) (s : Stmt) (rest : Block) (σ σ' : St) (e : Stop)
    (hs : (execStmt f s).run.run σ = (.error e, σ')) :
    (runBlock (f+1) (s :: rest)).run.run σ = (.error e, σ') := run_block_stop f s rest σ σ' e hs

/-- **BREAK leaves the innermost loop only (inner loop: WHILE).** The inner `WHILE c b` stands in a block before the
    statements `rest` (the block is arbitrary — e.g. the body of the enclosing loop). After `n` complete passes of the
    inner loop (`hp`), its condition is TRUE once more (`hc`) and its body ends with BREAK in `σ'` (`hbrk`). Then the
    inner statement ends NORMALLY in `σ'` — no further test — and the enclosing block goes on with `rest` from `σ'`:
    the enclosing loop's pass continues with the statement after the inner loop. (`hrepl`: not the REPL top level,
    where a statement's value would be echoed first.) -/
theorem C03_stmt_break_innermost_while (f n : Nat) (t : Tok) (c : Expr) (b rest : Block) (σ σa σb σ' : St)
    (hsteps : σ.steps + 1 ≤ σ.stepLimit) (hp : WhilePasses f c b n (tickSt σ) σa)
    (hbud : σa.steps + 1 ≤ σa.stepLimit)
    (hc : (evalExpr (f+1) c).run.run (tickSt σa) = (.ok (.bool true), σb)) (hbrk : BodyBreak f b σb σ')
    (hrepl : σ'.repl = false) :
    (execStmt (f + 2 + n + 1) (.while t c b)).run.run σ = (.ok .none, σ') ∧
    (runBlock (f + 2 + n + 2) (.while t c b :: rest)).run.run σ = (runBlock (f + 2 + n + 1) rest).run.run σ' := by
  have hstmt : (execStmt (f + 2 + n + 1) (.while t c b)).run.run σ = (.ok .none, σ') := by
    rw [run_execStmt_while _ t c b σ hsteps, whileLoop_passes f t c b hp (f+2) (by omega),
      C03_while_run (f+1) t c b σa hbud, hc]
    simp only [hbrk.loopBody]
  exact ⟨hstmt, run_block_next _ _ rest σ σ' .none hstmt hrepl⟩

/-- **BREAK leaves the innermost loop only (inner loop: REPEAT)**: after `n` complete passes the body ends with BREAK
    in `σ'`; the UNTIL test is NOT evaluated, the statement ends normally in `σ'` and the enclosing block goes on -/
theorem C03_stmt_break_innermost_repeat (f n : Nat) (t : Tok) (b : Block) (c : Expr) (rest : Block) (σ σa σ' : St)
    (hsteps : σ.steps + 1 ≤ σ.stepLimit) (hp : RepeatPasses f b c n (tickSt σ) σa)
    (hbud : σa.steps + 1 ≤ σa.stepLimit) (hbrk : BodyBreak f b (tickSt σa) σ')
    (hrepl : σ'.repl = false) :
    (execStmt (f + 2 + n + 1) (.repeat t b c)).run.run σ = (.ok .none, σ') ∧
    (runBlock (f + 2 + n + 2) (.repeat t b c :: rest)).run.run σ = (runBlock (f + 2 + n + 1) rest).run.run σ' := by
  have hstmt : (execStmt (f + 2 + n + 1) (.repeat t b c)).run.run σ = (.ok .none, σ') := by
    rw [run_execStmt_repeat _ t b c σ hsteps, repeatLoop_passes f t b c hp (f+2) (by omega),
      C03_repeat_run (f+1) t b c σa hbud, hbrk.loopBody]
  exact ⟨hstmt, run_block_next _ _ rest σ σ' .none hstmt hrepl⟩

/-- BREAK in a pass of FOR (`forLoop` level, any pass): the iterator holds `i`, the test holds, the body ends with BREAK
    in `σ'`: the loop ends normally in `σ'` — the iterator is NOT incremented (it keeps what the body left) -/
theorem C03_for_break_pass (f : Nat) (t : Tok) (l : Loc) (stop step : Int) (b : Block) (σ σ' : St) (i : Int)
    (hi : readLocP σ l = .ok (.int i)) (htest : (step < 0 ∧ i ≥ stop) ∨ (¬ step < 0 ∧ i ≤ stop))
    (hbud : σ.steps + 1 ≤ σ.stepLimit) (hbrk : BodyBreak f b (tickSt σ) σ') :
    (forLoop (f+2) t l stop step b).run.run σ = (.ok ⟨⟩, σ') := by
  rw [C03_for_run (f+1) t l stop step b σ i hi]
  have hnb : ¬ (σ.steps + 1 > σ.stepLimit) := by omega
  simp only [htest, if_true, hnb, if_false, hbrk.loopBody]

/-- **BREAK leaves the innermost loop only (inner loop: FOR, BREAK in its first pass)**, with the hypotheses of
    `C03_stmt_for_head`; `hw`, `hr`: the start value can be written to the iterator (see `run_writeLoc_ok`) -/
theorem C03_stmt_break_innermost_for (f f0 : Nat) (t it : Tok) (start stop : Expr) (step : Option Expr) (b rest : Block)
    (l : Loc) (a bnd k : Int) (σ σ1 σ2 σ' : St)
    (hsteps : σ.steps + 1 ≤ σ.stepLimit)
    (hit : (forIter it).run.run (tickSt σ) = (.ok (l, .int), σ1))
    (hconst : locConstP σ1 l = false) (hf : f0 ≤ f + 2)
    (hs : PureAt σ1 f0 start (.int a)) (he : PureAt σ1 f0 stop (.int bnd)) (hk : StepPure σ1 f0 step k)
    (hw : (writeLoc t l (.int a)).run.run σ1 = (.ok ⟨⟩, σ2)) (hr : readLocP σ2 l = .ok (.int a))
    (htest : (k < 0 ∧ a ≥ bnd) ∨ (¬ k < 0 ∧ a ≤ bnd))
    (hbud : σ2.steps + 1 ≤ σ2.stepLimit) (hbrk : BodyBreak f b (tickSt σ2) σ')
    (hrepl : σ'.repl = false) :
    (execStmt (f + 3) (.for t it start stop step b)).run.run σ = (.ok .none, σ') ∧
    (runBlock (f + 4) (.for t it start stop step b :: rest)).run.run σ = (runBlock (f + 3) rest).run.run σ' := by
  have hstmt : (execStmt (f + 3) (.for t it start stop step b)).run.run σ = (.ok .none, σ') := by
    rw [C03_stmt_for_head (f+2) f0 t it start stop step b l a bnd k σ σ1 hsteps hit hconst hf hs he hk, hw]
    simp only [C03_for_break_pass f t l bnd k b σ2 σ' a hr htest hbud hbrk]
  exact ⟨hstmt, run_block_next _ _ rest σ σ' .none hstmt hrepl⟩

/-- **the enclosing loop's pass goes on after the inner loop (generic).** `s` is the inner loop statement — WHILE, REPEAT
    or FOR: by `C03_stmt_break_innermost_while / _repeat / _for` a BREAK in its body makes it end NORMALLY in `σ'` (`hs`) —
    standing first in the body `s :: rest` of the enclosing loop. Then the enclosing loop's pass (`loopBody`, the wrapper
    all three kinds of loop use) is the pass over the remaining statements `rest` from `σ'`: the inner BREAK has not ended
    the enclosing pass, let alone the enclosing loop. -/
theorem C03_stmt_break_innermost (G : Nat) (s : Stmt) (rest : Block) (σ σ' : St) (v : Val)
    (hs : (execStmt G s).run.run σ = (.ok v, σ')) (hrepl : σ'.repl = false) :
    (loopBody (G+2) (s :: rest)).run.run σ = (loopBody (G+1) rest).run.run σ' := by
  rw [C03_body_run, C03_body_run, run_block_next G s rest σ σ' v hs hrepl]

/-- **CONTINUE goes on with the next pass (WHILE)**: the body ends with the CONTINUE signal in `σ2` → the loop goes back
    to its TEST from `σ2` (the rest of the body is skipped by `C03_stmt_signal_skips_rest`) -/
theorem C03_stmt_continue_next_pass_while (f : Nat) (t ct : Tok) (c : Expr) (b : Block) (σ σ1 σ2 : St)
    (hbud : σ.steps + 1 ≤ σ.stepLimit)
    (hc : (evalExpr (f+1) c).run.run (tickSt σ) = (.ok (.bool true), σ1))
    (hcont : (runBlock f b).run.run σ1 = (.error (.cont ct), σ2)) :
    (whileLoop (f+2) t c b).run.run σ = (whileLoop (f+1) t c b).run.run σ2 := by
  have hp : BodyPass f b σ1 σ2 := .inr ⟨ct, hcont⟩
  rw [C03_while_run (f+1) t c b σ hbud, hc]
  simp only [hp.loopBody]

/-- **CONTINUE in REPEAT goes on with the UNTIL test**: from the state `σ1` the CONTINUE left, the condition is
    evaluated; TRUE ends the loop, FALSE starts the next pass -/
theorem C03_stmt_continue_next_pass_repeat (f : Nat) (t ct : Tok) (b : Block) (c : Expr) (σ σ1 : St)
    (hbud : σ.steps + 1 ≤ σ.stepLimit)
    (hcont : (runBlock f b).run.run (tickSt σ) = (.error (.cont ct), σ1)) :
    (repeatLoop (f+2) t b c).run.run σ =
      match (evalExpr (f+1) c).run.run σ1 with
      | (.error e, σ2) => (.error e, σ2)
      | (.ok (.bool true), σ2) => (.ok ⟨⟩, σ2)
      | (.ok (.bool false), σ2) => (repeatLoop (f+1) t b c).run.run σ2
      | (.ok _, σ2) => (.error (.diag (rtDiag σ2 t.line t.col .condType)), σ2) := by
  have hp : BodyPass f b (tickSt σ) σ1 := .inr ⟨ct, hcont⟩
  rw [C03_repeat_run (f+1) t b c σ hbud, hp.loopBody]
  rfl

/-- **CONTINUE in FOR goes on with the increment**: the iterator is re-read from the state `σ1` the CONTINUE left (value
    `j` — what the body made of it), `j + step` (wrapped to 64 bits) is written, then the next test -/
theorem C03_stmt_continue_next_pass_for (f : Nat) (t ct : Tok) (l : Loc) (stop step : Int) (b : Block) (σ σ1 σ2 : St) (i j : Int)
    (hi : readLocP σ l = .ok (.int i)) (htest : (step < 0 ∧ i ≥ stop) ∨ (¬ step < 0 ∧ i ≤ stop))
    (hbud : σ.steps + 1 ≤ σ.stepLimit)
    (hcont : (runBlock f b).run.run (tickSt σ) = (.error (.cont ct), σ1))
    (hj : readLocP σ1 l = .ok (.int j)) (hw : (writeLoc t l (.int (wrap64 (j + step)))).run.run σ1 = (.ok ⟨⟩, σ2)) :
    (forLoop (f+2) t l stop step b).run.run σ = (forLoop (f+1) t l stop step b).run.run σ2 := by
  have hp : BodyPass f b (tickSt σ) σ1 := .inr ⟨ct, hcont⟩
  rw [C03_for_run (f+1) t l stop step b σ i hi]
  have hnb : ¬ (σ.steps + 1 > σ.stepLimit) := by omega
  simp only [htest, if_true, hnb, if_false, hp.loopBody, hj, hw]

/-- **BREAK / CONTINUE outside any loop** (the signal reaches the top of the program / of a REPL entry): the runtime
    error `breakOutside` ("outside of loop") at the position of the BREAK / CONTINUE statement, in the state the signal
    left. (Inside a procedure / function body the call converts the signal the same way: `callProc`, `callFun` in
    `Eval.lean`; `C03_callProc_absorbs`.) -/
theorem C03_stmt_break_outside (fuel : Nat) (b : Block) (σ σ' : St) (bt : Tok)
    (h : (runBlock fuel b).run.run σ = (.error (.brk bt), σ') ∨ (runBlock fuel b).run.run σ = (.error (.cont bt), σ')) :
    (runMain fuel b).run.run σ = (.error (.diag (rtDiag σ' bt.line bt.col .breakOutside)), σ') := by
  unfold runMain
  rw [run_tryCatch]
  rcases h with h | h <;> rw [h] <;> exact run_rtErr bt .breakOutside σ'

/-! ## non-vacuity -/
namespace C03StmtEx
open ArrayLemmas TraceChain TraceChain2 LoopStmt C03LoopsEx CallLemmas

/-- `C03_stmt_for_sequence_body`, negative step, a bound that reads the iterator: `FOR i ← 3 TO i STEP -1` with `i = 1`
    before. The bound is the OLD `i` (1): three passes 3, 2, 1 and the iterator ends at `3 + 3·(-1) = 0` (with the new
    value 3 as bound it would be one pass). -/
example : ∃ σ', (execStmt (2 + 3 + 2) (.for exT exT (.intLit exT 3) iExpr (some (.intLit exT (-1))) [])).run.run exLoopSt = (.ok .none, σ') ∧
    readLocP σ' exIt = .ok (.int 0) ∧ locConstP σ' exIt = false := by
  have e : forSeq 10 3 1 (-1) = ([3, 2, 1], 0) := by decide
  have h := C03_stmt_for_sequence_body 2 0 exT exT (.intLit exT 3) iExpr (some (.intLit exT (-1))) [] exIt 3 1 (-1) 1
    exLoopSt (tickSt exLoopSt) (by decide) ex_iter rfl rfl ((pureAt_intLit _ _ _).mono (by omega)) ex_pure_i
    ((pureAt_intLit _ _ _).mono (by omega)) (fun f' σ i => ex_empty_body f' σ i) 10 (by rw [e]; decide) (by rw [e]; decide)
    (by rw [e]; decide)
  rw [e] at h
  exact h

/-- `C03_stmt_for_empty_range`: `FOR i ← 2 TO i` (`i = 1` before, no STEP) with the body `BREAK`: no pass -/
example : ∃ σ', (writeLoc exT exIt (.int 2)).run.run (tickSt exLoopSt) = (.ok ⟨⟩, σ') ∧
      (execStmt (2 + 2) (.for exT exT (.intLit exT 2) iExpr none [.brk exT])).run.run exLoopSt = (.ok .none, σ') ∧
      readLocP σ' exIt = .ok (.int 2) :=
  C03_stmt_for_empty_range 2 exT exT (.intLit exT 2) iExpr none [.brk exT] exIt 2 1 1 1 exLoopSt (tickSt exLoopSt)
    (by decide) ex_iter rfl rfl ((pureAt_intLit _ _ _).mono (by omega)) ex_pure_i rfl (by decide)

/-- `C03_stmt_for_stop_not_integer`: `FOR i ← 2 TO TRUE` -/
example : (execStmt 3 (.for exT exT (.intLit exT 2) (.boolLit exT true) none [])).run.run exLoopSt =
    (.error (.diag (rtDiag (tickSt exLoopSt) 2 1 .typeMismatch)), tickSt exLoopSt) :=
  C03_stmt_for_stop_not_integer 2 1 exT exT (.intLit exT 2) (.boolLit exT true) none [] exIt 2 (.bool true) exLoopSt
    (tickSt exLoopSt) (by decide) ex_iter rfl (by omega) (pureAt_intLit _ _ _) (C03StmtEx.pureAt_boolLit _ _ _)
    (fun _ h => nomatch h)

/-- `C03_stmt_for_iterator_new`: an undeclared iterator `j` is created in the current activation -/
example : (forIter { exT with val := "j".toList }).run.run exLoopSt =
    (.ok ({ act := 0, isArr := false, name := "j".toList, path := [] }, .int),
      newIterSt exLoopSt gAct [] { exT with val := "j".toList }) :=
  C03_stmt_for_iterator_new exLoopSt gAct gAct [] _ rfl rfl (by decide)

/-- `C03_stmt_while_iterates`: `WHILE i < 3  i ← i + 1 ; CONTINUE ; BREAK  ENDWHILE` from `i = 1`: two passes, each ending
    with CONTINUE (the BREAK after it is never reached), three tests -/
example : (execStmt (12 + 2 + 2) (.while exT wCond wBodyC)).run.run exLoopSt = (.ok .none, stC (wS wBodyC 2)) :=
  C03_stmt_while_iterates 12 2 exT wCond wBodyC exLoopSt _ (wS wBodyC) (wC wBodyC) (by decide) rfl
    (fun i hi => by
      have : i = 0 ∨ i = 1 ∨ i = 2 := by omega
      rcases this with rfl | rfl | rfl <;> decide +kernel)
    (fun i hi => by
      have : i = 0 ∨ i = 1 := by omega
      rcases this with rfl | rfl <;> exact run_okBool (by decide +kernel))
    (fun i hi => by
      have : i = 0 ∨ i = 1 := by omega
      rcases this with rfl | rfl <;> exact .inr ⟨exT, run_cont (by decide +kernel)⟩)
    (run_okBool (by decide +kernel)) _ (Nat.le_refl _)
/-- … and in that final state `i = 3`, 8 steps counted: 1 (statement) + 3 (tests) + 2·2 (assignment and CONTINUE) -/
example : okInt (readLocP (stC (wS wBodyC 2)) exIt) = some 3 ∧ (stC (wS wBodyC 2)).steps = 8 := by decide +kernel

/-- `C03_stmt_while_zero`: `WHILE i < 1` with `i = 1`: the body (a BREAK) is not run, two steps -/
example : (execStmt (12 + 2) (.while exT (.cmp exT .lt iExpr (.intLit exT 1)) [.brk exT])).run.run exLoopSt =
    (.ok .none, ((evalExpr 12 (.cmp exT .lt iExpr (.intLit exT 1))).run.run (tickSt (tickSt exLoopSt))).2) :=
  C03_stmt_while_zero 12 exT _ [.brk exT] exLoopSt _ (by decide) (run_okBool (by decide +kernel))

/-- `C03_stmt_repeat_iterates`: `REPEAT  i ← i + 1 ; CONTINUE ; BREAK  UNTIL i >= 3` from `i = 1`: two passes, both
    ending with CONTINUE, both followed by the UNTIL test (FALSE, then TRUE) -/
example : (execStmt (12 + 1 + 3) (.repeat exT wBodyC rCond)).run.run exLoopSt =
    (.ok .none, ((evalExpr 12 rCond).run.run (rB wBodyC 1)).2) :=
  C03_stmt_repeat_iterates 12 1 exT wBodyC rCond exLoopSt _ (rS wBodyC) (rB wBodyC) (by decide) rfl
    (fun i hi => by
      have : i = 0 ∨ i = 1 := by omega
      rcases this with rfl | rfl <;> decide +kernel)
    (fun i hi => by
      have : i = 0 ∨ i = 1 := by omega
      rcases this with rfl | rfl <;> exact .inr ⟨exT, run_cont (by decide +kernel)⟩)
    (fun i hi => by
      have : i = 0 := by omega
      subst this; exact run_okBool (by decide +kernel))
    (run_okBool (by decide +kernel)) _ (Nat.le_refl _)

/-- `C03_stmt_break_innermost_while`: the inner loop `WHILE i < 3  i ← i + 1 ; BREAK  ENDWHILE` followed by `rest` in any
    block: the BREAK of the first pass ends the inner loop, `rest` runs from the state it left -/
example (rest : Block) :
    (runBlock (12 + 2 + 0 + 2) (.while exT wCond (wBody ++ [.brk exT]) :: rest)).run.run exLoopSt =
      (runBlock (12 + 2 + 0 + 1) rest).run.run
        ((runBlock 12 (wBody ++ [.brk exT])).run.run ((evalExpr (12+1) wCond).run.run (tickSt (tickSt exLoopSt))).2).2 := by
  have h1 : exLoopSt.steps + 1 ≤ exLoopSt.stepLimit := by decide
  have h2 : (tickSt exLoopSt).steps + 1 ≤ (tickSt exLoopSt).stepLimit := by decide
  have h3 := run_okBool (m := evalExpr (12+1) wCond) (σ := tickSt (tickSt exLoopSt)) (x := true) (by decide +kernel)
  have h4 := run_brk (m := runBlock 12 (wBody ++ [.brk exT]))
      (σ := ((evalExpr (12+1) wCond).run.run (tickSt (tickSt exLoopSt))).2) (t := exT) (by decide +kernel)
  have h5 : ((runBlock 12 (wBody ++ [.brk exT])).run.run ((evalExpr (12+1) wCond).run.run (tickSt (tickSt exLoopSt))).2).2.repl = false := by decide +kernel
  have h6 : BodyBreak 12 (wBody ++ [.brk exT]) ((evalExpr (12+1) wCond).run.run (tickSt (tickSt exLoopSt))).2
      ((runBlock 12 (wBody ++ [.brk exT])).run.run ((evalExpr (12+1) wCond).run.run (tickSt (tickSt exLoopSt))).2).2 := ⟨exT, h4⟩
  have h7 : WhilePasses 12 wCond (wBody ++ [.brk exT]) 0 (tickSt exLoopSt) (tickSt exLoopSt) := .zero _
  have h8 := C03_stmt_break_innermost_while 12 0 exT wCond (wBody ++ [.brk exT]) rest exLoopSt (tickSt exLoopSt) _ _
    h1 h7 h2 h3 h6 h5
  exact h8.2

/-- `C03_stmt_break_innermost_for` and `C03_stmt_break_innermost`: `FOR i ← 2 TO 3  BREAK  NEXT i` (first in the body of
    an enclosing loop): the BREAK of the first pass ends the FOR statement normally with the iterator at 2, and the
    enclosing pass goes on with `rest` -/
example (rest : Block) : ∃ σ', readLocP σ' exIt = .ok (.int 2) ∧
    (execStmt (2 + 3) (.for exT exT (.intLit exT 2) (.intLit exT 3) none [.brk exT])).run.run exLoopSt = (.ok .none, σ') ∧
    (loopBody (2 + 3 + 2) (.for exT exT (.intLit exT 2) (.intLit exT 3) none [.brk exT] :: rest)).run.run exLoopSt =
      (loopBody (2 + 3 + 1) rest).run.run σ' := by
  obtain ⟨F, _, hw, hr, _⟩ := run_writeLoc_ok exT exIt (.int 2) (.int 1) (tickSt exLoopSt) rfl rfl rfl
  have hb2 : (updSt (tickSt exLoopSt) exIt.act F).steps + 1 ≤ (updSt (tickSt exLoopSt) exIt.act F).stepLimit := by
    show (0 + 1) + 1 ≤ 2000000; omega
  have hb3 : (tickSt (updSt (tickSt exLoopSt) exIt.act F)).steps + 1 ≤ (tickSt (updSt (tickSt exLoopSt) exIt.act F)).stepLimit := by
    show (0 + 1 + 1) + 1 ≤ 2000000; omega
  have hbrk : BodyBreak 2 [.brk exT] (tickSt (updSt (tickSt exLoopSt) exIt.act F))
      (tickSt (tickSt (updSt (tickSt exLoopSt) exIt.act F))) :=
    ⟨exT, run_block_stop 1 _ [] _ _ _ (run_execStmt_brk 0 exT _ hb3)⟩
  have h := C03_stmt_break_innermost_for 2 1 exT exT (.intLit exT 2) (.intLit exT 3) none [.brk exT] rest exIt 2 3 1
    exLoopSt (tickSt exLoopSt) _ _ (by decide) ex_iter rfl (by omega) (pureAt_intLit _ _ _) (pureAt_intLit _ _ _) rfl hw hr
    (by decide) hb2 hbrk rfl
  exact ⟨tickSt (tickSt (updSt (tickSt exLoopSt) exIt.act F)), hr, h.1, C03_stmt_break_innermost _ _ rest _ _ _ h.1 rfl⟩

/-- `C03_stmt_continue_next_pass_while`: the first pass of `WHILE i < 3  i ← i + 1 ; CONTINUE ; BREAK` ends with CONTINUE;
    the loop goes back to the test -/
example :
    (whileLoop (12 + 2) exT wCond wBodyC).run.run (tickSt exLoopSt) =
      (whileLoop (12 + 1) exT wCond wBodyC).run.run
        ((runBlock 12 wBodyC).run.run ((evalExpr (12+1) wCond).run.run (tickSt (tickSt exLoopSt))).2).2 := by
  have h3 := run_okBool (m := evalExpr (12+1) wCond) (σ := tickSt (tickSt exLoopSt)) (x := true) (by decide +kernel)
  have h4 := run_cont (m := runBlock 12 wBodyC)
      (σ := ((evalExpr (12+1) wCond).run.run (tickSt (tickSt exLoopSt))).2) (t := exT) (by decide +kernel)
  exact C03_stmt_continue_next_pass_while 12 exT exT wCond wBodyC (tickSt exLoopSt) _ _ (by decide) h3 h4
/-- `C03_stmt_break_outside`: a program consisting of `BREAK` -/
example : (runMain 3 [.brk exT]).run.run exLoopSt =
    (.error (.diag (rtDiag (tickSt exLoopSt) 2 1 .breakOutside)), tickSt exLoopSt) :=
  C03_stmt_break_outside 3 [.brk exT] exLoopSt _ exT (.inl (run_brk (by decide +kernel)))


/-- a nested program: FOR inside WHILE with BREAK and CONTINUE, bounds reading the iterator's old value, a negative
    step, empty ranges of both signs, REPEAT with CONTINUE -/
def progNested : String :=
"DECLARE w : INTEGER
DECLARE i : INTEGER
w <- 0
i <- 3
WHILE w < 10
    w <- w + 1
    IF w = 2 THEN
        CONTINUE
    ENDIF
    FOR i <- i + 1 TO i + 3
        IF i = 6 THEN
            BREAK
        ENDIF
        OUTPUT \"f\", i
    NEXT i
    OUTPUT \"w\", w, \" i\", i
    IF w = 3 THEN
        BREAK
    ENDIF
ENDWHILE
FOR j <- 5 TO 1 STEP -2
    OUTPUT \"j\", j
NEXT j
OUTPUT j
FOR k <- 2 TO 1
    OUTPUT \"never\"
NEXT k
OUTPUT k
FOR k <- 1 TO 2 STEP -1
    OUTPUT \"never\"
NEXT k
OUTPUT k
REPEAT
    w <- w + 1
    IF w < 6 THEN
        CONTINUE
    ENDIF
    OUTPUT \"r\", w
UNTIL w >= 6
"

/-- the whole run: pass `w = 1`: `FOR i ← 4 TO 6` (both bounds from the OLD `i = 3`), BREAK at `i = 6` leaves the inner loop
    only and the iterator at 6 (the OUTPUT after the inner loop runs); pass `w = 2`: CONTINUE skips the rest of the pass;
    pass `w = 3`: `FOR i ← 7 TO 9`, iterator left at 10, then BREAK ends the WHILE; `FOR j ← 5 TO 1 STEP -2`: 5, 3, 1,
    left at -1; the two empty ranges: no pass, iterator = start; REPEAT: CONTINUE goes to the UNTIL test. No error. -/
example : (runFile {} progNested.toList [] []).out = "f4\nf5\nw1 i6\nf7\nf8\nf9\nw3 i10\nj5\nj3\nj1\n-1\n2\n1\nr6\n".toList ∧
    (runFile {} progNested.toList [] []).diags = [] := by decide +kernel

/-- BREAK outside any loop: `breakOutside` at the position of the BREAK; the statement after it does not run -/
example : (runFile {} "OUTPUT 1\nBREAK\nOUTPUT 2".toList [] []).diags.map (fun d => (d.msg, d.line, d.col)) = [(.breakOutside, 2, 1)] := by
  decide +kernel
/-- a REAL bound is rejected (no implicit conversion) -/
example : (runFile {} "FOR i <- 1 TO 2.5\nNEXT i".toList [] []).diags.map (fun d => (d.msg, d.line, d.col)) = [(.typeMismatch, 1, 1)] := by
  decide +kernel

end C03StmtEx

end Pseudo
