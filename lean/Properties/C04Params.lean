import PseudoProofs.ParseLemmas
/-!
# C04 — a passing mode written on one parameter carries over to the following parameters

Property C04: "a passing mode written on one parameter carries over to the following parameters until
changed"; parameters may share a type (`a, b : T`).

Implementation side: `parseParams` + `mkParams` of `PseudoModel/Parser.lean`, which mirror the counters of
the C++ (`typeCount`, `passTypeCount`, sticky `byRef`).
Specification side (this file): a written parameter list `List PSpec`, its token rendering
`renderParams`, and `expectedParams`, defined by the two sentences of the property and not by counters.
`C04_sticky_mode` is proved for ALL non-empty lists whose last parameter is typed (a list ending in an
untyped parameter is a syntax error, see the tests at the end).
-/
namespace Pseudo

/-- a written parameter: explicit passing mode if written (`true` = BYREF), name, type if written -/
abbrev PSpec := Option Bool × Str × Option Tok

def commaT : Tok := mkT .COMMA
def colonT : Tok := mkT .COLON
def modeT (m : Bool) : Tok := mkT (if m then .BYREF else .BYVAL)

def renderParam : PSpec → List Tok
  | (m, name, ty) =>
    (match m with | some b => [modeT b] | none => []) ++ varT name ::
    (match ty with | some t => [colonT, t] | none => [])

/-- `, p₁ , p₂ … )` -/
def renderRest : List PSpec → List Tok
  | [] => [rparenT]
  | p :: ps => commaT :: (renderParam p ++ renderRest ps)

/-- `p₀ , p₁ … )` (the opening parenthesis has been consumed by the caller) -/
def renderParams : List PSpec → List Tok
  | [] => [rparenT]
  | p :: ps => renderParam p ++ renderRest ps

def stepAcc (a : ParamAcc) (p : PSpec) : ParamAcc :=
  let a1 : ParamAcc := match p.1 with
    | some m =>
      if m != a.byRef then
        { a with modes := List.replicate a.passCount a.byRef ++ a.modes, byRef := !a.byRef, passCount := 1 }
      else { a with passCount := a.passCount + 1 }
    | none => { a with passCount := a.passCount + 1 }
  match p.2.2 with
  | some ty => { a1 with names := p.2.1 :: a1.names,
                         types := List.replicate a1.typeCount ty ++ a1.types, typeCount := 1 }
  | none => { a1 with names := p.2.1 :: a1.names, typeCount := a1.typeCount + 1 }

def finishAcc (a : ParamAcc) : ParamAcc :=
  { a with modes := List.replicate a.passCount a.byRef ++ a.modes }

def lastTyped : List PSpec → Bool
  | [] => false
  | [p] => p.2.2.isSome
  | _ :: ps => lastTyped ps

def validTypes (ps : List PSpec) : Prop := ∀ p ∈ ps, ∀ t, p.2.2 = some t → isTypeTok t = true

set_option linter.unusedSimpArgs false in
/-- one parameter: `sep` is the comma (when a parameter precedes) -/
theorem params_step (f : Nat) (a : ParamAcc) (p : PSpec) (sep : List Tok) (nxt : Tok) (more : List Tok) (w : List Tok)
    (hsep : (a.names.length > 0 ∧ sep = [commaT]) ∨ (a.names.length = 0 ∧ sep = []))
    (hty : ∀ t, p.2.2 = some t → isTypeTok t = true)
    (hnxt : p.2.2 = none → nxt.k = .COMMA) :
    (parseParams (f + 1) a).run.run ⟨sep ++ renderParam p ++ nxt :: more, w⟩
      = (parseParams f (stepAcc a p)).run.run ⟨nxt :: more, w⟩ := by
  obtain ⟨m, name, ty⟩ := p
  rw [parseParams]
  rcases hbr : a.byRef with _ | _ <;>
  rcases hsep with ⟨h0, rfl⟩ | ⟨h0, rfl⟩ <;> rcases m with _ | _ | _ <;> cases ty
  all_goals first
    | (have h1 := hnxt rfl
       simp [renderParam, stepAcc, run_bind, cur_run, h0, adv_run, run_pure, commaT, colonT, modeT, varT, mkT, h1, hbr]
       done)
    | (have h2 := hty _ rfl
       simp [renderParam, stepAcc, run_bind, cur_run, h0, adv_run, run_pure, commaT, colonT, modeT, varT, mkT, h2, hbr]
       done)

theorem params_close (f : Nat) (a : ParamAcc) (r : Tok) (rest : List Tok) (w : List Tok)
    (htc : a.typeCount = 1) :
    (parseParams (f + 1) a).run.run ⟨rparenT :: r :: rest, w⟩ = (.ok (finishAcc a), ⟨r :: rest, w⟩) := by
  rw [parseParams]
  have h1 : (rparenT.k == TK.RPAREN) = true := rfl
  have h2 : (a.typeCount != 1) = false := by rw [htc]; rfl
  simp only [run_bind, cur_run, List.headD_cons, h1, h2, if_true, Bool.false_eq_true, if_false, adv_run,
    run_pure, finishAcc]

theorem stepAcc_names_pos (a : ParamAcc) (p : PSpec) : (stepAcc a p).names.length > 0 := by
  obtain ⟨m, name, ty⟩ := p
  rcases m with _ | m <;> cases ty <;> simp [stepAcc] <;> split <;> simp

theorem stepAcc_typeCount_some (a : ParamAcc) (m : Option Bool) (name : Str) (t : Tok) :
    (stepAcc a (m, name, some t)).typeCount = 1 := by
  simp [stepAcc]

theorem head_renderRest (ps : List PSpec) (hne : ps ≠ []) :
    ∃ more, renderRest ps = commaT :: more := by
  cases ps with
  | nil => contradiction
  | cons p ps => exact ⟨_, rfl⟩

/-- the parameters after the first one -/
theorem params_rest (post : List PSpec) : ∀ (a : ParamAcc) (f : Nat) (rest w : List Tok),
    a.names.length > 0 → post.length < f → (post = [] ∧ a.typeCount = 1 ∨ lastTyped post = true) →
    validTypes post → rest ≠ [] →
    (parseParams f a).run.run ⟨renderRest post ++ rest, w⟩
      = (.ok (finishAcc (post.foldl stepAcc a)), ⟨rest, w⟩) := by
  induction post with
  | nil =>
    intro a f rest w _ hf hc _ hrest
    obtain ⟨g, rfl⟩ : ∃ g, f = g + 1 := ⟨f - 1, by simp at hf; omega⟩
    obtain ⟨r, rest', rfl⟩ := List.exists_cons_of_ne_nil hrest
    rcases hc with ⟨_, htc⟩ | h
    · exact params_close g a r rest' w htc
    · simp [lastTyped] at h
  | cons p post ih =>
    intro a f rest w hn hf hc hv hrest
    obtain ⟨g, rfl⟩ : ∃ g, f = g + 1 := ⟨f - 1, by simp at hf; omega⟩
    have hlt : lastTyped (p :: post) = true := by
      rcases hc with ⟨h, _⟩ | h
      · cases h
      · exact h
    have hvp : ∀ t, p.2.2 = some t → isTypeTok t = true := hv p (by simp)
    have hv' : validTypes post := fun q hq => hv q (by simp [hq])
    have hc' : post = [] ∧ (stepAcc a p).typeCount = 1 ∨ lastTyped post = true := by
      cases post with
      | nil =>
        left; refine ⟨rfl, ?_⟩
        obtain ⟨m, name, ty⟩ := p
        cases ty with
        | none => simp [lastTyped] at hlt
        | some t => exact stepAcc_typeCount_some a m name t
      | cons q post => right; simpa [lastTyped] using hlt
    -- shape of the input
    have hshape : ∃ nxt more, renderRest post ++ rest = nxt :: more ∧ (p.2.2 = none → nxt.k = .COMMA) := by
      cases post with
      | nil =>
        refine ⟨rparenT, rest, rfl, fun h => ?_⟩
        obtain ⟨m, name, ty⟩ := p
        simp [lastTyped] at hlt
        simp at h; simp [h] at hlt
      | cons q post => exact ⟨commaT, _, rfl, fun _ => rfl⟩
    obtain ⟨nxt, more, hsh, hnx⟩ := hshape
    have : renderRest (p :: post) ++ rest = [commaT] ++ renderParam p ++ nxt :: more := by
      simp [renderRest, hsh]
    rw [this, params_step g a p [commaT] nxt more w (Or.inl ⟨hn, rfl⟩) hvp hnx, ← hsh]
    exact ih (stepAcc a p) g rest w (stepAcc_names_pos a p) (by simp at hf; omega) hc' hv' hrest

/-! ## the specification of the result -/

/-- type of the first typed parameter of the list -/
def nextType : List PSpec → Tok
  | [] => default
  | (_, _, some t) :: _ => t
  | (_, _, none) :: ps => nextType ps

/-- each parameter's mode is the last explicit mode at or before it (`cur` before the list), its type
    the type of the next typed parameter at or after it -/
def expectedFrom (cur : Bool) : List PSpec → List Param
  | [] => []
  | (m, name, ty) :: ps =>
    { name := name, ty := ty.getD (nextType ps), byRef := m.getD cur } :: expectedFrom (m.getD cur) ps

/-- the default passing mode is BYVAL -/
def expectedParams (ps : List PSpec) : List Param := expectedFrom false ps

def typesOf : List PSpec → List Tok
  | [] => []
  | (_, _, ty) :: ps => ty.getD (nextType ps) :: typesOf ps

def modesOf (cur : Bool) : List PSpec → List Bool
  | [] => []
  | (m, _, _) :: ps => m.getD cur :: modesOf (m.getD cur) ps

def buildParams (ns : List Str) (ts : List Tok) (ms : List Bool) : List Param :=
  (List.range ns.length).map fun i =>
    { name := ns.getD i [], ty := ts.getD i default, byRef := ms.getD i false }

theorem mkParams_eq (a : ParamAcc) :
    mkParams a = buildParams a.names.reverse a.types.reverse a.modes.reverse := rfl

theorem buildParams_cons (n : Str) (ns : List Str) (t : Tok) (ts : List Tok) (m : Bool) (ms : List Bool) :
    buildParams (n :: ns) (t :: ts) (m :: ms)
      = { name := n, ty := t, byRef := m } :: buildParams ns ts ms := by
  simp [buildParams, List.range_succ_eq_map, List.map_map, Function.comp_def]

theorem expectedFrom_eq_build (ps : List PSpec) : ∀ cur,
    expectedFrom cur ps = buildParams (ps.map (·.2.1)) (typesOf ps) (modesOf cur ps) := by
  induction ps with
  | nil => intro cur; rfl
  | cons p ps ih =>
    intro cur
    obtain ⟨m, name, ty⟩ := p
    simp only [expectedFrom, List.map_cons, typesOf, modesOf, buildParams_cons, ih]

/-! ## what the counters compute -/

theorem foldl_names (post : List PSpec) : ∀ a : ParamAcc,
    (post.foldl stepAcc a).names = (post.map (·.2.1)).reverse ++ a.names := by
  induction post with
  | nil => intro a; rfl
  | cons p post ih =>
    intro a
    have : (stepAcc a p).names = p.2.1 :: a.names := by
      obtain ⟨m, name, ty⟩ := p
      rcases m with _ | m <;> cases ty <;> simp [stepAcc] <;> split <;> rfl
    simp [List.foldl_cons, ih, this]

/-- all modes assigned so far, newest first: the flushed runs and the pending run -/
def pendModes (a : ParamAcc) : List Bool := List.replicate a.passCount a.byRef ++ a.modes

theorem stepAcc_modes (a : ParamAcc) (p : PSpec) :
    pendModes (stepAcc a p) = p.1.getD a.byRef :: pendModes a ∧ (stepAcc a p).byRef = p.1.getD a.byRef := by
  obtain ⟨m, name, ty⟩ := p
  rcases hb : a.byRef with _ | _ <;> rcases m with _ | _ | _ <;> cases ty <;>
    simp [stepAcc, pendModes, hb, List.replicate_succ]

theorem foldl_modes (post : List PSpec) : ∀ a : ParamAcc,
    pendModes (post.foldl stepAcc a) = (modesOf a.byRef post).reverse ++ pendModes a := by
  induction post with
  | nil => intro a; rfl
  | cons p post ih =>
    intro a
    obtain ⟨h1, h2⟩ := stepAcc_modes a p
    obtain ⟨m, name, ty⟩ := p
    simp only [List.foldl_cons, ih, h1, h2, modesOf, List.reverse_cons, List.append_assoc,
      List.singleton_append]

theorem stepAcc_types_some (a : ParamAcc) (m : Option Bool) (name : Str) (t : Tok) :
    (stepAcc a (m, name, some t)).types = List.replicate a.typeCount t ++ a.types := by
  rcases m with _ | m <;> simp [stepAcc] <;> split <;> rfl

theorem stepAcc_types_none (a : ParamAcc) (m : Option Bool) (name : Str) :
    (stepAcc a (m, name, none)).types = a.types ∧ (stepAcc a (m, name, none)).typeCount = a.typeCount + 1 := by
  rcases m with _ | m <;> simp [stepAcc] <;> split <;> exact ⟨rfl, rfl⟩

theorem replicate_append_cons {α} (k : Nat) (t : α) (L : List α) :
    List.replicate k t ++ t :: L = t :: (List.replicate k t ++ L) := by
  induction k with
  | zero => rfl
  | succ k ih => simp [List.replicate_succ, ih]

theorem foldl_types (post : List PSpec) : ∀ a : ParamAcc, 1 ≤ a.typeCount →
    (post = [] ∧ a.typeCount = 1 ∨ lastTyped post = true) →
    (post.foldl stepAcc a).types
      = (List.replicate (a.typeCount - 1) (nextType post) ++ typesOf post).reverse ++ a.types := by
  induction post with
  | nil =>
    intro a _ hc
    rcases hc with ⟨_, h⟩ | h
    · simp [h, typesOf]
    · simp [lastTyped] at h
  | cons p post ih =>
    intro a htc hc
    have hlt : lastTyped (p :: post) = true := by
      rcases hc with ⟨h, _⟩ | h
      · cases h
      · exact h
    obtain ⟨k, hk⟩ : ∃ k, a.typeCount = k + 1 := ⟨a.typeCount - 1, by omega⟩
    obtain ⟨m, name, ty⟩ := p
    cases ty with
    | some t =>
      have hc' : post = [] ∧ (stepAcc a (m, name, some t)).typeCount = 1 ∨ lastTyped post = true := by
        cases post with
        | nil => exact Or.inl ⟨rfl, stepAcc_typeCount_some a m name t⟩
        | cons q post => right; simpa [lastTyped] using hlt
      rw [List.foldl_cons, ih _ (by rw [stepAcc_typeCount_some]; exact Nat.le_refl 1) hc',
        stepAcc_typeCount_some, stepAcc_types_some, hk]
      simp [nextType, typesOf, List.replicate_succ', replicate_append_cons]
    | none =>
      obtain ⟨h1, h2⟩ := stepAcc_types_none a m name
      have hpost : post ≠ [] := by
        intro h; subst h; simp [lastTyped] at hlt
      have hc' : post = [] ∧ (stepAcc a (m, name, none)).typeCount = 1 ∨ lastTyped post = true := by
        cases post with
        | nil => contradiction
        | cons q post => right; simpa [lastTyped] using hlt
      rw [List.foldl_cons, ih _ (by omega) hc', h1, h2, hk]
      simp [nextType, typesOf, List.replicate_succ']

/-! ## C04 -/

/-- **C04**: for a non-empty written parameter list whose last parameter is typed, `parseParams`
    (started after the opening parenthesis, with the empty accumulator, any fuel > number of
    parameters) consumes exactly the list including the closing parenthesis, and the parameters
    `mkParams` builds from its counters are the specified ones: every parameter is passed in the last
    mode written at or before it (BYVAL if none), and has the type written at or after it. -/
theorem C04_sticky_mode (ps : List PSpec) (hlast : lastTyped ps = true) (hty : validTypes ps)
    (rest : List Tok) (hrest : rest ≠ []) (w : List Tok) (f : Nat) (hf : ps.length < f) :
    ∃ a, (parseParams f {}).run.run ⟨renderParams ps ++ rest, w⟩ = (.ok a, ⟨rest, w⟩) ∧
      mkParams a = expectedParams ps := by
  refine ⟨finishAcc (ps.foldl stepAcc {}), ?_, ?_⟩
  · cases ps with
    | nil => simp [lastTyped] at hlast
    | cons p post =>
      obtain ⟨g, rfl⟩ : ∃ g, f = g + 1 := ⟨f - 1, by simp at hf; omega⟩
      have hvp : ∀ t, p.2.2 = some t → isTypeTok t = true := hty p (by simp)
      have hv' : validTypes post := fun q hq => hty q (by simp [hq])
      have hc' : post = [] ∧ (stepAcc {} p).typeCount = 1 ∨ lastTyped post = true := by
        cases post with
        | nil =>
          left; refine ⟨rfl, ?_⟩
          obtain ⟨m, name, ty⟩ := p
          cases ty with
          | none => simp [lastTyped] at hlast
          | some t => exact stepAcc_typeCount_some {} m name t
        | cons q post => right; simpa [lastTyped] using hlast
      have hshape : ∃ nxt more, renderRest post ++ rest = nxt :: more ∧ (p.2.2 = none → nxt.k = .COMMA) := by
        cases post with
        | nil =>
          refine ⟨rparenT, rest, rfl, fun h => ?_⟩
          obtain ⟨m, name, ty⟩ := p
          simp [lastTyped] at hlast
          simp at h; simp [h] at hlast
        | cons q post => exact ⟨commaT, _, rfl, fun _ => rfl⟩
      obtain ⟨nxt, more, hsh, hnx⟩ := hshape
      have : renderParams (p :: post) ++ rest = [] ++ renderParam p ++ nxt :: more := by
        simp [renderParams, hsh]
      rw [this, params_step g {} p [] nxt more w (Or.inr ⟨rfl, rfl⟩) hvp hnx, ← hsh]
      exact params_rest post (stepAcc {} p) g rest w (stepAcc_names_pos {} p) (by simp at hf; omega) hc' hv' hrest
  · have hn := foldl_names ps {}
    have hm := foldl_modes ps {}
    have ht := foldl_types ps {} (Nat.le_refl 1) (Or.inr hlast)
    have e1 : (finishAcc (ps.foldl stepAcc {})).names.reverse = ps.map (·.2.1) := by
      simp [finishAcc, hn]
    have e2 : (finishAcc (ps.foldl stepAcc {})).types.reverse = typesOf ps := by
      simp [finishAcc, ht]
    have e3 : (finishAcc (ps.foldl stepAcc {})).modes.reverse = modesOf false ps := by
      have : (finishAcc (ps.foldl stepAcc {})).modes = pendModes (ps.foldl stepAcc {}) := rfl
      rw [this, hm]; simp [pendModes]
    rw [mkParams_eq, e1, e2, e3, expectedParams, expectedFrom_eq_build]

/-- reading of the specification: a parameter written without a mode takes the mode of its
    predecessor, one written with a mode takes that mode -/
theorem C04_expected_carries (cur : Bool) (name : Str) (ty : Option Tok) (ps : List PSpec) :
    ((expectedFrom cur ((none, name, ty) :: ps)).map (·.byRef)).head? = some cur ∧
    ∀ m, ((expectedFrom cur ((some m, name, ty) :: ps)).map (·.byRef)).head? = some m :=
  ⟨rfl, fun _ => rfl⟩

/-- the carried mode is really carried: all parameters up to the next explicit mode get it -/
theorem C04_expected_run (cur : Bool) (ps : List PSpec) (h : ∀ p ∈ ps, p.1 = none) :
    ∀ q ∈ expectedFrom cur ps, q.byRef = cur := by
  induction ps with
  | nil => intro q hq; cases hq
  | cons p ps ih =>
    obtain ⟨m, name, ty⟩ := p
    have hm : m = none := h (m, name, ty) (by simp)
    subst hm
    intro q hq
    simp only [expectedFrom, Option.getD_none, List.mem_cons] at hq
    rcases hq with rfl | hq
    · rfl
    · exact ih (fun p hp => h p (by simp [hp])) q hq

/-! ## tests (concrete lists; the parser is run by kernel evaluation) -/

section tests
private def tINT : Tok := mkT .DATA_TYPE "INTEGER".toList
private def tREC : Tok := mkT .IDENTIFIER "TRec".toList
private def nm (s : String) : Str := s.toList
private def eol : Tok := mkT .LINE_END

/-- `BYREF a : INTEGER, b : INTEGER, BYVAL c : INTEGER, d : INTEGER` -/
private def ps1 : List PSpec :=
  [(some true, nm "a", some tINT), (none, nm "b", some tINT), (some false, nm "c", some tINT), (none, nm "d", some tINT)]
/-- `BYREF a, b : INTEGER` -/
private def ps2 : List PSpec := [(some true, nm "a", none), (none, nm "b", some tINT)]
/-- `a, BYREF b : TRec, c, d : INTEGER, BYREF e : INTEGER` -/
private def ps3 : List PSpec :=
  [(none, nm "a", none), (some true, nm "b", some tREC), (none, nm "c", none), (none, nm "d", some tINT),
   (some true, nm "e", some tINT)]

-- TEST: token rendering
example : renderParams ps2 = [modeT true, varT (nm "a"), commaT, varT (nm "b"), colonT, tINT, rparenT] := by decide
-- TEST: the specification on the three lists
example : (expectedParams ps1).map (·.byRef) = [true, true, false, false] := by decide
example : (expectedParams ps2).map (fun p => (p.byRef, p.ty)) = [(true, tINT), (true, tINT)] := by decide
example : (expectedParams ps3).map (fun p => (p.byRef, p.ty))
    = [(false, tREC), (true, tREC), (true, tINT), (true, tINT), (true, tINT)] := by decide
-- TEST: the parser run on them gives exactly the specified parameters
set_option maxRecDepth 8000 in
example : (parseParams 10 {}).run.run ⟨renderParams ps1 ++ [eol], []⟩
    = (.ok (finishAcc (ps1.foldl stepAcc {})), ⟨[eol], []⟩) := by rfl
example : mkParams (finishAcc (ps1.foldl stepAcc {})) = expectedParams ps1 := by rfl
example : mkParams (finishAcc (ps2.foldl stepAcc {})) = expectedParams ps2 := by rfl
example : mkParams (finishAcc (ps3.foldl stepAcc {})) = expectedParams ps3 := by rfl
-- the hypotheses of `C04_sticky_mode` hold for them (non-vacuity)
example : lastTyped ps3 = true ∧ validTypes ps3 := by
  refine ⟨rfl, ?_⟩
  intro p hp t ht
  simp [ps3] at hp
  rcases hp with rfl | rfl | rfl | rfl | rfl <;> simp at ht <;> subst ht <;> rfl
-- TEST: a list ending in an untyped parameter is a syntax error (so `lastTyped` is necessary)
set_option maxRecDepth 8000 in
example : ((parseParams 10 {}).run.run ⟨[varT (nm "a"), colonT, tINT, commaT, varT (nm "b"), rparenT, eol], []⟩).1
    = .error { kind := .syntax, line := 0, col := 0, msg := .other } := by rfl
end tests

end Pseudo
