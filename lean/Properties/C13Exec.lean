import Properties.C13
import Properties.C14Exec
import Properties.C14Multi
import PseudoProofs.RecordFileRun
import PseudoProofs.RecordFileRunLoc
/-!
# C13 for programs: PUTRECORD then GETRECORD at the same address reproduces the value — stated on evaluator runs

`Properties/C13.lean` proves the property about the codec (`Codec.load ∘ Codec.dump`), `Properties/C14Exec.lean` /
`C14Multi.lean` run random-file statements on the evaluator. Here the C13 property itself is one family of theorems about runs
of statement blocks (`runBlock`) and of programs (`runFile`).

**Which values.** `Codec.Storable Fin defs v` (defined in `PseudoProofs/CodecLemmas.lean`):
INTEGER in the 64-bit range (every INTEGER the interpreter computes), REAL satisfying `Fin`, every BOOLEAN, every CHAR (all
codes), every STRING shorter than 10^18 bytes once its line breaks are escaped, DATE valid or never assigned, a value of an
enumerated type whose (single-word) name has a definition visible to the codec (`defs`, the definitions of the current scope and
of the global scope) and whose position is inside it, arrays (fewer than 2^64 cells) and records (single-word type name with a
visible definition) of such values, recursively. No pointers. The only library assumption is the parameter `L : ReaderLaws Fin`
— "`istream >> double` reads back what `%.17g` printed, for the REALs selected by `Fin`"; for values without REAL parts take
`Fin := fun _ => False` and `Codec.readerLaws_noReal` (no assumption at all: `C13_exec_all_chars`, `C13_exec_adversarial_strings`).

**Which variable is read into.** `Codec.SameShape v cur`: the current value `cur` of the target variable has the type and shape
of `v` (same constructor, same enum / record type name, same field names, same array geometry).

**What is NOT assumed about the file** (the generalisation over `C14Exec`, whose invariant `RInv` wants every record of the file
to be the text of a value of one class): the other records of the file are ARBITRARY texts — other types, undecodable garbage.
For the same-session theorem the handle is any RANDOM handle; for close / reopen and restart the records must be framed
(`Codec.Framed`: what the file container can hold; every text `Codec.dump` produces is) and the disk must be as OPENFILE /
PUTRECORD leave it (`RawOpen`, helper file `PseudoProofs/RecordFileRun.lean`).

Restrictions (as in `C14Exec`): the file name is a STRING literal, the SEEK address an INTEGER literal. In sections 1–6 `x` and
`y` are plain variables (not constants, not BYREF formals, not of a pointer type) of the CURRENT activation, and arrays occur as
record fields; section 6b (`C13_exec_put_get_any_target`) lifts this for the same-session block: any target the interpreter's
look-ups deliver — whole ARRAY variables, BYREF formals, globals seen from a procedure.

Theorems: `C13_exec_put_get` (same session), `C13_exec_seek_get` (the reading half, any route), `C13_exec_put_close_open_get`
(CLOSEFILE + OPENFILE in between), `C13_exec_open_seek_get` / `C13_exec_put_restart_get` (a later run; `C13_exec_end_open`,
`C13_exec_end_closed`: the two ways program 1 can leave the file), `C13_exec_mismatch` / `C13_exec_put_get_mismatch` (another
type: `recordRead`), `C13_exec_all_chars`, `C13_exec_adversarial_strings` (instances), `C13_exec_put_get_any_target`.
-/
namespace Pseudo
open FileStmt ReadLoop RandomFile RandomFile2 RecordFileRun

/-! ## 1. same session -/

/-- the block `SEEK n, k ; PUTRECORD n, x ; SEEK n, k ; GETRECORD n, y` -/
def putGetBlock (t1 tn1 tk1 t2 tn2 x t3 tn3 tk3 t4 tn4 y : Tok) (n : Str) (k : Int) : Block :=
  [.seek t1 (.strLit tn1 n) (.intLit tk1 k), .putRecord t2 (.strLit tn2 n) x,
   .seek t3 (.strLit tn3 n) (.intLit tk3 k), .getRecord t4 (.strLit tn4 n) y]

/-- **PUTRECORD then GETRECORD at the same address reproduces the value exactly — for every storable value.**

    Hypotheses: the current activation is `a` (`hacts`), the codec sees the definitions `defs` (`hdefs`); `x` is a plain
    variable holding `v`, `y` a plain variable holding `cur` (`HasVar`; `hpx`, `hpy`: not of a pointer type — PUTRECORD /
    GETRECORD refuse pointers); `n` is open FOR RANDOM with the handle `h` (ANY records); `1 ≤ k ≤ len + 1` (SEEK accepts exactly
    these); `v` is storable (`hv`, under the reader law `L` for its REAL parts) and `cur` has the shape of `v` (`hshape`);
    fuel ≥ 7 (four statements + 3) and four steps of budget.

    Conclusion: the block ends normally in the state `σ'` that differs from `σ` exactly in: `steps + 4`; the variable `y`
    holds `v` (`setVar`, and so `HasVar … y ty v`); the handles named `n` are mapped through `putSeekH (k-1) (dump v)`: cursor at
    `k`, record `k` := the text of `v` (appended when `k = len + 1`), marked modified. Hence record `k` is `dump v`, EVERY OTHER
    RECORD IS UNCHANGED, the length is `max len k`; handles of other names, the disk and everything else are untouched. If the
    handle was in the state OPENFILE / PUTRECORD leave (`RawOpen`), it still is — so the close / reopen and restart theorems
    below apply to `σ'`. -/
theorem C13_exec_put_get (Fin : Float → Prop) (L : Codec.ReaderLaws Fin) {defs : Codec.Defs} (fuel : Nat)
    (t1 tn1 tk1 t2 tn2 x t3 tn3 tk3 t4 tn4 y : Tok) (n : Str) (k : Int) (σ : St) (a : Act) (rest : List Act) (tx ty : Ty)
    (v cur : Val) (h : Handle) (hacts : σ.acts = a :: rest) (hdefs : codecDefsP σ = .ok defs)
    (hx : HasVar a x.val tx v) (hpx : isPtrTy tx = false) (hy : HasVar a y.val ty cur) (hpy : isPtrTy ty = false)
    (hh : FState.handle { fs := σ.fs, handles := σ.handles } n = some h) (hm : h.mode = .random)
    (h1 : 1 ≤ k) (h2 : k ≤ (h.records.length : Int) + 1)
    (hv : Codec.Storable Fin defs v) (hshape : Codec.SameShape v cur)
    (hfuel : 7 ≤ fuel) (hb : σ.steps + 4 ≤ σ.stepLimit) :
    ∃ (σ' : St) (h' : Handle),
      (runBlock fuel (putGetBlock t1 tn1 tk1 t2 tn2 x t3 tn3 tk3 t4 tn4 y n k)).run.run σ = (.ok ⟨⟩, σ') ∧
      σ' = { σ with steps := σ.steps + 4, acts := setVar a y.val v :: rest,
                    handles := updHandles σ.handles n (putSeekH (k.toNat - 1) (Codec.dump v)) } ∧
      HasVar (setVar a y.val v) y.val ty v ∧
      FState.handle { fs := σ'.fs, handles := σ'.handles } n = some h' ∧
      h' = { h with ptr := k.toNat - 1, records := h'.records, modified := true } ∧
      h'.records[k.toNat - 1]? = some (Codec.dump v) ∧
      (∀ j : Nat, 1 ≤ j → j ≤ h.records.length → (j : Int) ≠ k → h'.records[j - 1]? = h.records[j - 1]?) ∧
      h'.records.length = max h.records.length k.toNat ∧
      (∀ m, m ≠ n → FState.handle { fs := σ'.fs, handles := σ'.handles } m =
        FState.handle { fs := σ.fs, handles := σ.handles } m) ∧
      (RawOpen { fs := σ.fs, handles := σ.handles } n h → RawOpen { fs := σ'.fs, handles := σ'.handles } n h') := by
  have hl := Codec.C13_get_put Fin L defs v cur hv hshape
  cases hl' : Codec.load defs cur (Codec.dump v) with
  | none => rw [hl'] at hl; cases hl
  | some p =>
    obtain ⟨nv, r⟩ := p
    rw [hl'] at hl
    injection hl with hl
    have : nv = v := hl
    subst this
    have hrun := (run_put_get (σ := σ) (n := n) (a := a) (rest := rest) (defs := defs) hacts hdefs
      t1 tn1 tk1 t2 tn2 x t3 tn3 tk3 t4 tn4 y k tx ty nv cur h hb hx hpx hy hpy hh hm h1 h2).2 nv r hl'
      (Codec.sameShape_isArr nv cur hshape)
    refine ⟨_, putSeekH (k.toNat - 1) (Codec.dump nv) h,
      runBlock_fuel_mono _ 7 fuel hfuel σ _ _ hrun (by intro h; cases h), rfl, hasVar_setVar_same a y.val ty cur nv hy,
      handle_putSt (σ := σ) n _ _ h hh 4, rfl, putAt_self _ _ _ (by omega), ?_, ?_, ?_, ?_⟩
    · intro j hj1 hj2 hjk
      exact putAt_other _ _ _ _ (by omega) (by omega)
    · show (putAt h.records (k.toNat - 1) (Codec.dump nv)).length = _
      rw [putAt_length _ _ _ (by omega)]
      omega
    · intro m hm'
      exact handle_putSt_other (σ := σ) n m _ _ 4 hm'
    · intro hraw
      exact RawOpen.putSt (σ := σ) hraw _ _ 4 (Codec.C13_dump_framed_storable Fin defs nv hv)

/-- what `putAt rs (k-1) r` — the record list after `SEEK k ; PUTRECORD` of the text `r` — is, in the property's words:
    record `k` is `r`, every other record `j ≠ k` is what it was, the length is `max len k` -/
theorem C13_putAt_spec (rs : List Str) (k : Int) (r : Str) (h1 : 1 ≤ k) (h2 : k ≤ (rs.length : Int) + 1) :
    (putAt rs (k.toNat - 1) r)[k.toNat - 1]? = some r ∧
    (∀ j : Nat, 1 ≤ j → j ≤ rs.length → (j : Int) ≠ k → (putAt rs (k.toNat - 1) r)[j - 1]? = rs[j - 1]?) ∧
    (putAt rs (k.toNat - 1) r).length = max rs.length k.toNat := by
  refine ⟨putAt_self _ _ _ (by omega), fun j hj1 hj2 hjk => putAt_other _ _ _ _ (by omega) (by omega), ?_⟩
  rw [putAt_length _ _ _ (by omega)]
  omega

/-! ## 2. reading a record that is the text of `v` — whoever wrote it, whenever -/

/-- **`SEEK n, k ; GETRECORD n, y` when record `k` of the handle is the text of a storable value `v`** and `y` has the shape of
    `v`: normal end, `y = v`; only the cursor (now at `k`), `y` and `steps` (+2) change. The other records are arbitrary. This is
    the reading half of every route: same session, after close / reopen, in a later run — `h` is whatever handle the file has
    at that moment. Hypotheses as in `C13_exec_put_get` (without `x`); `hrec` says record `k` exists and is `dump v`. -/
theorem C13_exec_seek_get (Fin : Float → Prop) (L : Codec.ReaderLaws Fin) {defs : Codec.Defs} (fuel : Nat)
    (t tn tk t' tn' y : Tok) (n : Str) (k : Int) (σ : St) (a : Act) (rest : List Act) (ty : Ty) (v cur : Val) (h : Handle)
    (hacts : σ.acts = a :: rest) (hdefs : codecDefsP σ = .ok defs) (hy : HasVar a y.val ty cur) (hpy : isPtrTy ty = false)
    (hh : FState.handle { fs := σ.fs, handles := σ.handles } n = some h) (hm : h.mode = .random)
    (h1 : 1 ≤ k) (hrec : h.records[k.toNat - 1]? = some (Codec.dump v))
    (hv : Codec.Storable Fin defs v) (hshape : Codec.SameShape v cur) (hfuel : 5 ≤ fuel) (hb : σ.steps + 2 ≤ σ.stepLimit) :
    (runBlock fuel [.seek t (.strLit tn n) (.intLit tk k), .getRecord t' (.strLit tn' n) y]).run.run σ =
      (.ok ⟨⟩, { σ with steps := σ.steps + 2, acts := setVar a y.val v :: rest,
                        handles := updHandles σ.handles n fun h => { h with ptr := k.toNat - 1 } }) ∧
    HasVar (setVar a y.val v) y.val ty v := by
  obtain ⟨r, hl⟩ := load_dump_some Fin L defs v cur hv hshape
  obtain ⟨_, _, hok⟩ := C14_multi_seek_get (defs := defs) fuel t tn tk t' tn' y n k σ a rest ty cur h (Codec.dump v) hacts hdefs
    hy hpy hh hm h1 hrec hfuel hb
  exact ⟨hok v r hl (Codec.sameShape_isArr v cur hshape), hasVar_setVar_same a y.val ty cur v hy⟩

/-! ## 3. CLOSEFILE and OPENFILE in between -/

/-- the block `SEEK n, k ; PUTRECORD n, x ; CLOSEFILE n ; OPENFILE n FOR RANDOM ; SEEK n, k ; GETRECORD n, y` -/
def putReopenGetBlock (t1 tn1 tk1 t2 tn2 x t3 tn3 t4 tn4 t5 tn5 tk5 t6 tn6 y : Tok) (n : Str) (k : Int) : Block :=
  [.seek t1 (.strLit tn1 n) (.intLit tk1 k), .putRecord t2 (.strLit tn2 n) x,
   .closeFile t3 (.strLit tn3 n), .openFile t4 (.strLit tn4 n) .random,
   .seek t5 (.strLit tn5 n) (.intLit tk5 k), .getRecord t6 (.strLit tn6 n) y]

/-- **… with `CLOSEFILE n ; OPENFILE n FOR RANDOM` between the PUTRECORD and the GETRECORD: the value read is still exactly the
    value written.** The record goes through the file text (`Codec.renderFile`: a record with line breaks inside — a STRING with
    line breaks, a CHAR line break — becomes several physical lines whose continuation lines start with `#`) and back
    (`Codec.loadFile`).

    Hypotheses: those of `C13_exec_put_get`, with `RawOpen` for the handle (`hraw`: open FOR RANDOM, framed records, the only
    handle of that name, name accepted by OPENFILE, disk as OPENFILE / PUTRECORD leave it — needed because CLOSEFILE writes the
    WHOLE file and OPENFILE reads it again; an unframed record would be split or merged by the container); fuel ≥ 9, six steps.

    Conclusion: the block ends normally in `σ'` = `σ` with `steps + 6`, `y := v` and a new file component, in which `n` has the
    fresh handle `h'` = `⟨n, RANDOM, records, cursor at k, unmodified⟩` with `records = putAt h.records (k-1) (dump v)` (record
    `k` = text of `v`, all others unchanged, `C13_putAt_spec`); the file on disk holds these records; `RawOpen` again; handles
    of other names are untouched. -/
theorem C13_exec_put_close_open_get (Fin : Float → Prop) (L : Codec.ReaderLaws Fin) {defs : Codec.Defs} (fuel : Nat)
    (t1 tn1 tk1 t2 tn2 x t3 tn3 t4 tn4 t5 tn5 tk5 t6 tn6 y : Tok) (n : Str) (k : Int) (σ : St) (a : Act) (rest : List Act)
    (tx ty : Ty) (v cur : Val) (h : Handle) (hacts : σ.acts = a :: rest) (hdefs : codecDefsP σ = .ok defs)
    (hx : HasVar a x.val tx v) (hpx : isPtrTy tx = false) (hy : HasVar a y.val ty cur) (hpy : isPtrTy ty = false)
    (hraw : RawOpen { fs := σ.fs, handles := σ.handles } n h)
    (h1 : 1 ≤ k) (h2 : k ≤ (h.records.length : Int) + 1)
    (hv : Codec.Storable Fin defs v) (hshape : Codec.SameShape v cur)
    (hfuel : 9 ≤ fuel) (hb : σ.steps + 6 ≤ σ.stepLimit) :
    ∃ (σ' : St) (h' : Handle),
      (runBlock fuel (putReopenGetBlock t1 tn1 tk1 t2 tn2 x t3 tn3 t4 tn4 t5 tn5 tk5 t6 tn6 y n k)).run.run σ = (.ok ⟨⟩, σ') ∧
      σ' = { σ with steps := σ.steps + 6, acts := setVar a y.val v :: rest, fs := σ'.fs, handles := σ'.handles } ∧
      HasVar (setVar a y.val v) y.val ty v ∧
      FState.handle { fs := σ'.fs, handles := σ'.handles } n = some h' ∧
      h' = { name := n, mode := .random, records := putAt h.records (k.toNat - 1) (Codec.dump v), ptr := k.toNat - 1 } ∧
      DiskHas σ'.fs n h'.records ∧
      (∀ m, m ≠ n → FState.handle { fs := σ'.fs, handles := σ'.handles } m =
        FState.handle { fs := σ.fs, handles := σ.handles } m) ∧
      RawOpen { fs := σ'.fs, handles := σ'.handles } n h' := by
  have hfr : Codec.Framed (Codec.dump v) := Codec.C13_dump_framed_storable Fin defs v hv
  obtain ⟨σ1, e1, e2⟩ := run_seek_put (σ := σ) (n := n) hacts 5 4 t1 tn1 tk1 t2 tn2 x k tx v h (by omega) hx hpx
    hraw.handle hraw.mode h1 h2
  have raw2 := RawOpen.putSt (σ := σ) hraw (k.toNat - 1) (Codec.dump v) 2 hfr
  obtain ⟨σ3, fs', hs', e3, e4, raw4, hd4, hoth4, _, _, _⟩ :=
    step_reopen_raw (σ := putSt σ n (k.toNat - 1) (Codec.dump v) 2) raw2 3 2 t3 tn3 t4 tn4
      (by show σ.steps + 2 + 2 ≤ σ.stepLimit; omega)
  let σ4 : St := { putSt σ n (k.toNat - 1) (Codec.dump v) 2 with steps := σ.steps + 2 + 2, fs := fs', handles := hs' }
  have hrec : (putAt h.records (k.toNat - 1) (Codec.dump v))[k.toNat - 1]? = some (Codec.dump v) :=
    putAt_self _ _ _ (by omega)
  obtain ⟨e56, hvar⟩ := C13_exec_seek_get Fin L (defs := defs) 5 t5 tn5 tk5 t6 tn6 y n k σ4 a rest ty v cur
    { name := n, mode := .random, records := putAt h.records (k.toNat - 1) (Codec.dump v) } hacts hdefs hy hpy raw4.handle rfl h1
    hrec hv hshape (Nat.le_refl _) (by show σ.steps + 2 + 2 + 2 ≤ σ.stepLimit; omega)
  have hrun : (runBlock 9 (putReopenGetBlock t1 tn1 tk1 t2 tn2 x t3 tn3 t4 tn4 t5 tn5 tk5 t6 tn6 y n k)).run.run σ =
      (.ok ⟨⟩, { σ4 with
                 steps := σ4.steps + 2, acts := setVar a y.val v :: rest,
                 handles := updHandles σ4.handles n fun h => { h with ptr := k.toNat - 1 } }) := by
    unfold putReopenGetBlock
    rw [run_runBlock_cons 8 _ _ σ σ1 e1, run_runBlock_cons 7 _ _ σ1 _ e2, run_runBlock_cons 6 _ _ _ σ3 e3,
      run_runBlock_cons 5 _ _ σ3 _ e4]
    exact e56
  have raw5 := raw4.upd (fun h => { h with ptr := k.toNat - 1 }) (fun _ => rfl) rfl raw4.framed raw4.disk
  refine ⟨_, _, runBlock_fuel_mono _ 9 fuel hfuel σ _ _ hrun (by intro h; cases h), rfl, hvar, raw5.handle, rfl, hd4, ?_, raw5⟩
  intro m hm
  have : FState.handle { fs := fs', handles := updHandles hs' n fun h => { h with ptr := k.toNat - 1 } } m =
      FState.handle { fs := fs', handles := hs' } m :=
    handle_upd_other hs' n m _ (fun _ => rfl) hm
  rw [show FState.handle { fs := σ.fs, handles := σ.handles } m = FState.handle (fileSt σ) m from rfl,
    ← handle_putSt_other (σ := σ) n m (k.toNat - 1) (Codec.dump v) 2 hm, ← hoth4 m hm]
  exact this

/-! ## 4. a later run of the interpreter -/

/-- the block `OPENFILE n FOR RANDOM ; SEEK n, k ; GETRECORD n, y` -/
def openGetBlock (t tn t1 tn1 tk1 t2 tn2 y : Tok) (n : Str) (k : Int) : Block :=
  [.openFile t (.strLit tn n) .random, .seek t1 (.strLit tn1 n) (.intLit tk1 k), .getRecord t2 (.strLit tn2 n) y]

/-- **`OPENFILE n FOR RANDOM ; SEEK n, k ; GETRECORD n, y` on a file whose text holds the records `rs`, record `k` being the text
    of a storable value `v`**: normal end, `y = v`.
    Hypotheses: `hd` — the file of `n` exists in the state's file system and loads to `rs` (`DiskHas`); `hcl` — `n` is not open
    (OPENFILE refuses a second handle); `hlong` — the name is not too long for OPENFILE; `hrec` — record `k` of `rs` is
    `dump v`; the variable `y` and the value as in `C13_exec_put_get`; fuel ≥ 6, three steps. The final state is `σ0` with
    `steps + 3`, `y := v`, and the one new handle `⟨n, RANDOM, rs, cursor at k, unmodified⟩` appended; the disk is untouched. -/
theorem C13_exec_open_seek_get (Fin : Float → Prop) (L : Codec.ReaderLaws Fin) {defs : Codec.Defs} (fuel : Nat)
    (t tn t1 tn1 tk1 t2 tn2 y : Tok) (n : Str) (rs : List Str) (k : Int) (σ0 : St) (a : Act) (rest : List Act) (ty : Ty)
    (v cur : Val) (hd : DiskHas σ0.fs n rs)
    (hcl : FState.handle { fs := σ0.fs, handles := σ0.handles } n = none) (hlong : nameTooLong n = false)
    (hacts : σ0.acts = a :: rest) (hdefs : codecDefsP σ0 = .ok defs) (hy : HasVar a y.val ty cur) (hpy : isPtrTy ty = false)
    (h1 : 1 ≤ k) (hrec : rs[k.toNat - 1]? = some (Codec.dump v))
    (hv : Codec.Storable Fin defs v) (hshape : Codec.SameShape v cur) (hfuel : 6 ≤ fuel) (hb : σ0.steps + 3 ≤ σ0.stepLimit) :
    (runBlock fuel (openGetBlock t tn t1 tn1 tk1 t2 tn2 y n k)).run.run σ0 =
      (.ok ⟨⟩, { σ0 with
                 steps := σ0.steps + 3, acts := setVar a y.val v :: rest,
                 handles := σ0.handles ++ [{ name := n, mode := .random, records := rs, ptr := k.toNat - 1 }] }) ∧
    HasVar (setVar a y.val v) y.val ty v := by
  have e1 := run_open_more 2 t tn n rs σ0 hcl (by omega) hlong hd
  let σ1 : St := { σ0 with steps := σ0.steps + 1, handles := σ0.handles ++ [{ name := n, mode := .random, records := rs }] }
  have hh1 : FState.handle { fs := σ1.fs, handles := σ1.handles } n = some { name := n, mode := .random, records := rs } :=
    handle_append_new _ _ _ rfl hcl
  obtain ⟨e23, hvar⟩ := C13_exec_seek_get Fin L (defs := defs) 5 t1 tn1 tk1 t2 tn2 y n k σ1 a rest ty v cur
    { name := n, mode := .random, records := rs } hacts hdefs hy hpy hh1 rfl h1 hrec hv hshape (Nat.le_refl _)
    (by show σ0.steps + 1 + 2 ≤ σ0.stepLimit; omega)
  refine ⟨?_, hvar⟩
  have hrun : (runBlock 6 (openGetBlock t tn t1 tn1 tk1 t2 tn2 y n k)).run.run σ0 =
      (.ok ⟨⟩, { σ0 with
                 steps := σ0.steps + 3, acts := setVar a y.val v :: rest,
                 handles := σ0.handles ++ [{ name := n, mode := .random, records := rs, ptr := k.toNat - 1 }] }) := by
    unfold openGetBlock
    rw [run_runBlock_cons 5 _ _ σ0 σ1 e1, e23]
    show (_, ({ σ0 with steps := σ0.steps + 1 + 2, acts := _, handles := updHandles (σ0.handles ++ [_]) n _ } : St)) = _
    rw [updHandles_fresh σ0.handles n _ _ rfl hcl]
  exact runBlock_fuel_mono _ 6 fuel hfuel σ0 _ _ hrun (by intro h; cases h)

/-- how a program can leave the file so that the next run finds the records `h.records`: it ends with `n` still open (any
    `RawOpen` state — e.g. the state `C13_exec_put_get` ends in; the exit routine writes the handle back) … -/
theorem C13_exec_end_open {σ : St} {n : Str} {h : Handle} (hraw : RawOpen { fs := σ.fs, handles := σ.handles } n h) :
    SeqAtExit { fs := σ.fs, handles := σ.handles } n h.records := hraw.seqAtExit

/-- … or it executes `CLOSEFILE n` first: the statement ends normally, changes only `steps` and the file component, and leaves
    `n` closed with the records on disk -/
theorem C13_exec_end_closed {σ : St} {n : Str} {h : Handle} (hraw : RawOpen { fs := σ.fs, handles := σ.handles } n h)
    (fuel : Nat) (t tn : Tok) (hfuel : 3 ≤ fuel) (hb : σ.steps + 1 ≤ σ.stepLimit) :
    ∃ σ1, (execStmt fuel (.closeFile t (.strLit tn n))).run.run σ = (.ok .none, σ1) ∧
      σ1 = { σ with steps := σ.steps + 1, fs := σ1.fs, handles := σ1.handles } ∧
      SeqAtExit { fs := σ1.fs, handles := σ1.handles } n h.records := by
  obtain ⟨f, rfl⟩ : ∃ f, fuel = f + 3 := ⟨fuel - 3, by omega⟩
  exact step_close_raw (σ := σ) hraw f t tn hb

/-- **The value survives a restart of the interpreter.** Program 1 (text `content1`, run in file mode by `runFile`) ends —
    normally or not — in a state (`endState`, before the exit routine) in which the file `n` is open FOR RANDOM with the framed
    records `rs`, or closed with `rs` on disk (`hend : SeqAtExit …`; `C13_exec_end_open` / `C13_exec_end_closed` produce it from
    the `RawOpen` state that `C13_exec_put_get` ends in — with or without CLOSEFILE, the exit routine writes back), and record
    `k` of `rs` is the text of the storable value `v` (`hrec`; `C13_exec_put_get` gives exactly this for the record written).
    A later run — any state `σ0` whose file system is the one `runFile` reports for program 1 (`hfs`), with `n` not open —
    executes `OPENFILE n FOR RANDOM ; SEEK n, k ; GETRECORD n, y` into a variable of the shape of `v`. Then the file system of
    the first run holds `rs` under `n`, the block ends normally and `y = v` exactly. (`defs` are the definitions visible in the
    SECOND run: the enum / record types of `v` must be declared there, `Storable … defs v`.) -/
theorem C13_exec_put_restart_get (Fin : Float → Prop) (L : Codec.ReaderLaws Fin) (cfg : Cfg) (content1 : Str)
    (fs : List (Str × FsNode)) (stdin1 : Str) (n : Str) (rs : List Str) (k : Int) (v : Val)
    (hend : SeqAtExit { fs := (endState cfg content1 fs stdin1 false).fs,
                        handles := (endState cfg content1 fs stdin1 false).handles } n rs)
    (h1 : 1 ≤ k) (hrec : rs[k.toNat - 1]? = some (Codec.dump v))
    {defs : Codec.Defs} (fuel : Nat) (t tn t1 tn1 tk1 t2 tn2 y : Tok) (σ0 : St) (a : Act) (rest : List Act) (ty : Ty) (cur : Val)
    (hfs : σ0.fs = (runFile cfg content1 fs stdin1).fs)
    (hcl : FState.handle { fs := σ0.fs, handles := σ0.handles } n = none) (hlong : nameTooLong n = false)
    (hacts : σ0.acts = a :: rest) (hdefs : codecDefsP σ0 = .ok defs) (hy : HasVar a y.val ty cur) (hpy : isPtrTy ty = false)
    (hv : Codec.Storable Fin defs v) (hshape : Codec.SameShape v cur) (hfuel : 6 ≤ fuel) (hb : σ0.steps + 3 ≤ σ0.stepLimit) :
    DiskHas (runFile cfg content1 fs stdin1).fs n rs ∧
    (runBlock fuel (openGetBlock t tn t1 tn1 tk1 t2 tn2 y n k)).run.run σ0 =
      (.ok ⟨⟩, { σ0 with
                 steps := σ0.steps + 3, acts := setVar a y.val v :: rest,
                 handles := σ0.handles ++ [{ name := n, mode := .random, records := rs, ptr := k.toNat - 1 }] }) ∧
    HasVar (setVar a y.val v) y.val ty v := by
  have hd := C14_exec_restart_runFile cfg content1 fs stdin1 n rs hend
  exact ⟨hd, C13_exec_open_seek_get Fin L fuel t tn t1 tn1 tk1 t2 tn2 y n rs k σ0 a rest ty v cur (by rw [hfs]; exact hd) hcl hlong
    hacts hdefs hy hpy h1 hrec hv hshape hfuel hb⟩

/-! ## 5. reading into a variable of another type -/

/-- **GETRECORD into a variable of a different type is the runtime error `recordRead`, and nothing changes.** `n` is open FOR
    RANDOM (any records), the cursor is on a record that is the text of `v`, and the variable `y` currently holds `cur` with
    `Mismatch defs cur v` — the four kinds of `C13_mismatch*`: different type tags (any two of INTEGER / REAL / BOOLEAN / CHAR /
    STRING / DATE / enum / record / array), two different enum types, two different record types, arrays of different lengths.
    Then `GETRECORD n, y` ends with a runtime diagnostic of class `recordRead` at the statement's token; the state is `σ` with
    `steps + 1`: `y` keeps its value, the handle its records and cursor, the disk is untouched.
    (This is `C14_multi_get_mismatch_value`, restated under the property's name.) -/
theorem C13_exec_mismatch {defs : Codec.Defs} (fuel : Nat) (t tn y : Tok) (n : Str) (σ : St) (a : Act)
    (rest : List Act) (ty : Ty) (cur v : Val) (h : Handle) (hacts : σ.acts = a :: rest) (hdefs : codecDefsP σ = .ok defs)
    (hy : HasVar a y.val ty cur) (hpy : isPtrTy ty = false)
    (hh : FState.handle { fs := σ.fs, handles := σ.handles } n = some h) (hm : h.mode = .random)
    (hrec : h.records[h.ptr]? = some (Codec.dump v)) (hmis : Mismatch defs cur v)
    (hfuel : 3 ≤ fuel) (hb : σ.steps + 1 ≤ σ.stepLimit) :
    ∃ d, (execStmt fuel (.getRecord t (.strLit tn n) y)).run.run σ = (.error (.diag d), { σ with steps := σ.steps + 1 }) ∧
      d.kind = .runtime ∧ d.msg = .recordRead ∧ d.line = t.line ∧ d.col = t.col :=
  C14_multi_get_mismatch_value fuel t tn y n σ a rest ty cur v h hacts hdefs hy hpy hh hm hrec hmis hfuel hb

/-- **… in the words of the property: `SEEK n, k ; PUTRECORD n, x ; SEEK n, k ; GETRECORD n, y` with `y` of another type than
    `x`** (`Mismatch defs cur v`; no storability needed): the first three statements run, the GETRECORD is refused with
    `recordRead` at ITS token (`t4`); in the final state the record has been written (handles mapped through `putSeekH`),
    `steps + 4`, and the variables — `y` in particular — are what they were (`acts` is not touched). -/
theorem C13_exec_put_get_mismatch {defs : Codec.Defs} (fuel : Nat)
    (t1 tn1 tk1 t2 tn2 x t3 tn3 tk3 t4 tn4 y : Tok) (n : Str) (k : Int) (σ : St) (a : Act) (rest : List Act) (tx ty : Ty)
    (v cur : Val) (h : Handle) (hacts : σ.acts = a :: rest) (hdefs : codecDefsP σ = .ok defs)
    (hx : HasVar a x.val tx v) (hpx : isPtrTy tx = false) (hy : HasVar a y.val ty cur) (hpy : isPtrTy ty = false)
    (hh : FState.handle { fs := σ.fs, handles := σ.handles } n = some h) (hm : h.mode = .random)
    (h1 : 1 ≤ k) (h2 : k ≤ (h.records.length : Int) + 1) (hmis : Mismatch defs cur v)
    (hfuel : 7 ≤ fuel) (hb : σ.steps + 4 ≤ σ.stepLimit) :
    ∃ d, (runBlock fuel (putGetBlock t1 tn1 tk1 t2 tn2 x t3 tn3 tk3 t4 tn4 y n k)).run.run σ =
        (.error (.diag d), { σ with steps := σ.steps + 4,
                                    handles := updHandles σ.handles n (putSeekH (k.toNat - 1) (Codec.dump v)) }) ∧
      d.kind = .runtime ∧ d.msg = .recordRead ∧ d.line = t4.line ∧ d.col = t4.col := by
  have hrun := (run_put_get (σ := σ) (n := n) (a := a) (rest := rest) (defs := defs) hacts hdefs
    t1 tn1 tk1 t2 tn2 x t3 tn3 tk3 t4 tn4 y k tx ty v cur h hb hx hpx hy hpy hh hm h1 h2).1
    (C14_multi_mismatch_load_none defs cur v hmis)
  obtain ⟨d, hd, hk, hmsg, hl, hc⟩ := errAt_spec (α := Unit) (putSt σ n (k.toNat - 1) (Codec.dump v) 4) t4 .recordRead
  rw [hd] at hrun
  exact ⟨d, runBlock_fuel_mono _ 7 fuel hfuel σ _ _ hrun (by intro h; cases h), hk, hmsg, hl, hc⟩

/-! ## 6. instances: every CHAR, every STRING -/

/-- **CHAR, every code**: for EVERY character `c` (line break, `#`, blank, NUL, … — the model's CHAR ranges over all of Lean's
    `Char`, which includes the 256 byte codes) held by the CHAR variable `x`, and a CHAR variable `y` holding anything: the
    block of `C13_exec_put_get` ends normally with `y = c`. No library hypothesis (`Fin := fun _ => False`), no hypothesis on
    the value: `Storable` and `SameShape` are discharged here. -/
theorem C13_exec_all_chars {defs : Codec.Defs} (c c' : Char) (fuel : Nat)
    (t1 tn1 tk1 t2 tn2 x t3 tn3 tk3 t4 tn4 y : Tok) (n : Str) (k : Int) (σ : St) (a : Act) (rest : List Act) (h : Handle)
    (hacts : σ.acts = a :: rest) (hdefs : codecDefsP σ = .ok defs)
    (hx : HasVar a x.val .chr (.chr c)) (hy : HasVar a y.val .chr (.chr c'))
    (hh : FState.handle { fs := σ.fs, handles := σ.handles } n = some h) (hm : h.mode = .random)
    (h1 : 1 ≤ k) (h2 : k ≤ (h.records.length : Int) + 1) (hfuel : 7 ≤ fuel) (hb : σ.steps + 4 ≤ σ.stepLimit) :
    (runBlock fuel (putGetBlock t1 tn1 tk1 t2 tn2 x t3 tn3 tk3 t4 tn4 y n k)).run.run σ =
      (.ok ⟨⟩, { σ with
                 steps := σ.steps + 4, acts := setVar a y.val (.chr c) :: rest,
                 handles := updHandles σ.handles n (putSeekH (k.toNat - 1) (Codec.dump (.chr c))) }) ∧
    HasVar (setVar a y.val (.chr c)) y.val .chr (.chr c) := by
  obtain ⟨σ', _, hrun, hσ', hvar, _⟩ := C13_exec_put_get (fun _ => False) Codec.readerLaws_noReal (defs := defs) fuel
    t1 tn1 tk1 t2 tn2 x t3 tn3 tk3 t4 tn4 y n k σ a rest .chr .chr (.chr c) (.chr c') h hacts hdefs hx rfl hy rfl hh hm h1 h2
    (by simp [Codec.Storable]) (Codec.sameShape_chr c c') hfuel hb
  rw [hσ'] at hrun
  exact ⟨hrun, hvar⟩

/-- **STRING, any bytes**: for EVERY string `s` with fewer than 5·10^17 characters — in particular every string over the
    adversarial alphabet {line break, `#`, blank, `0`, `A`, `"`}, the empty string, strings that look like record texts
    (`"INTEGER 5"`) or like continuation lines (`"\n#"`) — held by the STRING variable `x`, and a STRING variable `y` holding
    anything: the block of `C13_exec_put_get` ends normally with `y = s`. No library hypothesis. The length bound is the limit
    of the 18-digit length field of the record text (`Storable` asks for `(escNL s).length < 10^18`; escaping at most doubles
    the length); no real string reaches it. -/
theorem C13_exec_adversarial_strings {defs : Codec.Defs} (s s' : Str) (hlen : 2 * s.length < 10 ^ 18) (fuel : Nat)
    (t1 tn1 tk1 t2 tn2 x t3 tn3 tk3 t4 tn4 y : Tok) (n : Str) (k : Int) (σ : St) (a : Act) (rest : List Act) (h : Handle)
    (hacts : σ.acts = a :: rest) (hdefs : codecDefsP σ = .ok defs)
    (hx : HasVar a x.val .str (.str s)) (hy : HasVar a y.val .str (.str s'))
    (hh : FState.handle { fs := σ.fs, handles := σ.handles } n = some h) (hm : h.mode = .random)
    (h1 : 1 ≤ k) (h2 : k ≤ (h.records.length : Int) + 1) (hfuel : 7 ≤ fuel) (hb : σ.steps + 4 ≤ σ.stepLimit) :
    (runBlock fuel (putGetBlock t1 tn1 tk1 t2 tn2 x t3 tn3 tk3 t4 tn4 y n k)).run.run σ =
      (.ok ⟨⟩, { σ with
                 steps := σ.steps + 4, acts := setVar a y.val (.str s) :: rest,
                 handles := updHandles σ.handles n (putSeekH (k.toNat - 1) (Codec.dump (.str s))) }) ∧
    HasVar (setVar a y.val (.str s)) y.val .str (.str s) := by
  have hst : Codec.Storable (fun _ => False) defs (.str s) := by
    have := escNL_length_le s
    simp only [Codec.Storable]
    omega
  obtain ⟨σ', _, hrun, hσ', hvar, _⟩ := C13_exec_put_get (fun _ => False) Codec.readerLaws_noReal (defs := defs) fuel
    t1 tn1 tk1 t2 tn2 x t3 tn3 tk3 t4 tn4 y n k σ a rest .str .str (.str s) (.str s') h hacts hdefs hx rfl hy rfl hh hm h1 h2
    hst (Codec.sameShape_str s s') hfuel hb
  rw [hσ'] at hrun
  exact ⟨hrun, hvar⟩

/-! ## 6b. any target: whole ARRAY variables, BYREF formals, global variables seen from a procedure -/

/-- **`C13_exec_put_get` for ANY target of PUTRECORD / GETRECORD.** Instead of "plain variable of the current activation"
    (`HasVar`), the targets are what the interpreter's look-ups deliver in `σ`: `lookupVarP` / `lookupArrP` / `recTarget` give
    the location `locx` (type `tx`, current value `v`: `readLocP`) for `x` and `locy` (type `ty`, assignable: `locConstP … =
    false`, current value `cur`) for `y`. This covers a whole ARRAY variable (the array is ONE record: `recTarget none (some …)`,
    `isArr := true`), a BYREF formal (the caller's location), and a global seen from inside a procedure. The other hypotheses are
    those of `C13_exec_put_get`. Conclusion: the block ends normally in `σ'` = (`σ` with `steps + 4` and the handles of `n` mapped
    through `putSeekH`) with the root cell of `locy` set to `root` (`writeLocSt`), such that `locy` now reads exactly `v`; when
    `locy` is a whole variable / array (`path = []`), `root = v`. -/
theorem C13_exec_put_get_any_target (Fin : Float → Prop) (L : Codec.ReaderLaws Fin) {defs : Codec.Defs} (fuel : Nat)
    (t1 tn1 tk1 t2 tn2 x t3 tn3 tk3 t4 tn4 y : Tok) (n : Str) (k : Int) (σ : St)
    (vx? ax? vy? ay? : Option (Act × Slot)) (locx locy : Loc) (tx ty : Ty) (v cur : Val) (h : Handle)
    (hdefs : codecDefsP σ = .ok defs)
    (hlvx : lookupVarP σ x.val = .ok vx?) (hlax : lookupArrP σ x.val = .ok ax?) (htgtx : recTarget vx? ax? = some (locx, tx))
    (hpx : isPtrTy tx = false) (hcurx : readLocP σ locx = .ok v)
    (hlvy : lookupVarP σ y.val = .ok vy?) (hlay : lookupArrP σ y.val = .ok ay?) (htgty : recTarget vy? ay? = some (locy, ty))
    (hpy : isPtrTy ty = false) (hcy : locConstP σ locy = false) (hcury : readLocP σ locy = .ok cur)
    (hh : FState.handle { fs := σ.fs, handles := σ.handles } n = some h) (hm : h.mode = .random)
    (h1 : 1 ≤ k) (h2 : k ≤ (h.records.length : Int) + 1)
    (hv : Codec.Storable Fin defs v) (hshape : Codec.SameShape v cur)
    (hfuel : 7 ≤ fuel) (hb : σ.steps + 4 ≤ σ.stepLimit) :
    ∃ (σ' : St) (root : Val),
      (runBlock fuel (putGetBlock t1 tn1 tk1 t2 tn2 x t3 tn3 tk3 t4 tn4 y n k)).run.run σ = (.ok ⟨⟩, σ') ∧
      σ' = writeLocSt { σ with steps := σ.steps + 4,
                               handles := updHandles σ.handles n (putSeekH (k.toNat - 1) (Codec.dump v)) } locy root ∧
      readLocP σ' locy = .ok v ∧ (locy.path = [] → root = v) := by
  obtain ⟨r, hl⟩ := load_dump_some Fin L defs v cur hv hshape
  obtain ⟨root, hrun, hread, hroot⟩ := (run_put_get_loc (σ := σ) (n := n) (defs := defs) hdefs
    t1 tn1 tk1 t2 tn2 x t3 tn3 tk3 t4 tn4 y k vx? ax? vy? ay? locx locy tx ty v cur h hb hlvx hlax htgtx hpx hcurx
    hlvy hlay htgty hpy hcy hcury hh hm h1 h2).2 v r hl (Codec.sameShape_isArr v cur hshape)
  exact ⟨_, root, runBlock_fuel_mono _ 7 fuel hfuel σ _ _ hrun (by intro h; cases h), rfl, hread, hroot⟩

/-! ## 7. non-vacuity: a record type with a nested record and two array fields, a multi-line STRING and a CHAR line break inside

The state `stR` mirrors what the declarations `TYPE Inner … ENDTYPE`, `TYPE Rec … ENDTYPE`, `DECLARE x : Rec`, `DECLARE y : Rec` and
the assignments to the parts of `x` produce (whole programs of this kind are run by the kernel in `restart_computed` below); the file
"r.dat" holds three OTHER records: an INTEGER, an undecodable text and a STRING. -/

namespace C13ExecEx
open C14ExecEx (tk isOkUnit)

def fn : Str := "r.dat".toList
def tx : Tok := { k := .IDENTIFIER, line := 0, col := 9, val := "x".toList }
def ty : Tok := { k := .IDENTIFIER, line := 0, col := 9, val := "y".toList }

/-- `Inner = (q : STRING, c : CHAR)` holding two line breaks and `#` -/
def innerV : Val := .comp "Inner".toList [("q".toList, .str ['\n', '\n']), ("c".toList, .chr '#')]

/-- a `Rec` value: a multi-line STRING, a CHAR line break, a nested record and two array fields -/
def recV : Val :=
  .comp "Rec".toList
    [ ("n".toList, .int (-5)),
      ("s".toList, .str ['a', '\n', '#', 'b', ' ', '\n']),
      ("c".toList, .chr '\n'),
      ("r".toList, innerV),
      ("xs".toList, .arr .chr [(1, 2)] [.chr ' ', .chr '\n']),
      ("ys".toList, .arr .int [(0, 1)] [.int 7, .int 8]) ]

/-- what `DECLARE y : Rec` creates -/
def recD : Val :=
  .comp "Rec".toList
    [ ("n".toList, .int 0),
      ("s".toList, .str []),
      ("c".toList, .chr '\x00'),
      ("r".toList, .comp "Inner".toList [("q".toList, .str []), ("c".toList, .chr '\x00')]),
      ("xs".toList, .arr .chr [(1, 2)] [.chr '\x00', .chr '\x00']),
      ("ys".toList, .arr .int [(0, 1)] [.int 0, .int 0]) ]

def actR : Act :=
  { id := 0, name := "Program".toList,
    vars := [{ name := "x".toList, ty := .comp "Rec".toList, val := recV },
             { name := "y".toList, ty := .comp "Rec".toList, val := recD }],
    comps := [("Inner".toList, []), ("Rec".toList, [])] }

def hdR : Handle :=
  { name := fn, mode := .random, records := ["INTEGER 10".toList, "zz top".toList, "STRING 2 ab".toList] }

def stR : St := { acts := [actR], fs := [(fn, .file "INTEGER 10\nzz top\nSTRING 2 ab\n".toList)], handles := [hdR] }

abbrev defsR : Codec.Defs := defsOf actR actR

theorem recV_storable : Codec.Storable (fun _ => False) defsR recV := by
  simp only [recV, innerV, Codec.Storable, Codec.StorableFields, Codec.StorableList]
  refine ⟨by decide, by decide, by decide, by decide, trivial, ⟨by decide, by decide, by decide, trivial, trivial⟩,
    ⟨by decide, trivial, trivial, trivial⟩, ⟨by decide, by decide, by decide, trivial⟩, trivial⟩

theorem recV_sameShape : Codec.SameShape recV recD := by
  unfold recV recD innerV
  repeat' first
    | exact Codec.sameShapeFields_nil
    | exact Codec.sameShapeList_nil
    | exact Codec.sameShape_int _ _
    | exact Codec.sameShape_chr _ _
    | exact Codec.sameShape_str _ _
    | apply Codec.sameShapeFields_cons
    | apply Codec.sameShapeList_cons
    | apply Codec.sameShape_comp
    | apply Codec.sameShape_arr

theorem hasX : HasVar actR "x".toList (.comp "Rec".toList) recV := ⟨_, rfl, rfl, rfl, rfl, rfl⟩
theorem hasY : HasVar actR "y".toList (.comp "Rec".toList) recD := ⟨_, rfl, rfl, rfl, rfl, rfl⟩

theorem rawR : RawOpen { fs := stR.fs, handles := stR.handles } fn hdR := by
  refine ⟨by decide, rfl, ?_, ?_, by decide, ?_⟩
  · intro r hr
    simp only [hdR, List.mem_cons, List.not_mem_nil, or_false] at hr
    rcases hr with rfl | rfl | rfl <;> (refine ⟨by decide, by decide, ?_⟩; simp [Codec.FramedTail])
  · intro x hx _
    simpa [stR] using hx
  · unfold DiskOK
    simp only [hdR, Bool.false_eq_true, if_false]
    exact ⟨"INTEGER 10\nzz top\nSTRING 2 ab\n".toList, by decide, by decide +kernel⟩

def blkA : Block := putGetBlock (tk 1) (tk 1) (tk 1) (tk 2) (tk 2) tx (tk 3) (tk 3) (tk 3) (tk 4) (tk 4) ty fn 2
def blkB : Block :=
  putReopenGetBlock (tk 1) (tk 1) (tk 1) (tk 2) (tk 2) tx (tk 3) (tk 3) (tk 4) (tk 4) (tk 5) (tk 5) (tk 5) (tk 6) (tk 6) ty fn 4

/-- by `C13_exec_put_get` (k = 2: the undecodable record "zz top" is replaced; records 1 and 3 — of other types — stay) -/
theorem put_get_by_theorem : ∃ (σ' : St) (h' : Handle),
    (runBlock 7 blkA).run.run stR = (.ok ⟨⟩, σ') ∧
    σ'.acts = [setVar actR "y".toList recV] ∧ HasVar (setVar actR "y".toList recV) "y".toList (.comp "Rec".toList) recV ∧
    FState.handle { fs := σ'.fs, handles := σ'.handles } fn = some h' ∧
    h'.records[1]? = some (Codec.dump recV) ∧ h'.records[0]? = some "INTEGER 10".toList ∧
    h'.records[2]? = some "STRING 2 ab".toList ∧ h'.records.length = 3 ∧ σ'.steps = 4 ∧
    RawOpen { fs := σ'.fs, handles := σ'.handles } fn h' := by
  obtain ⟨σ', h', hrun, hσ', hvar, hh', _, hk, hoth, hlen, _, hraw⟩ :=
    C13_exec_put_get (fun _ => False) Codec.readerLaws_noReal (defs := defsR) 7 (tk 1) (tk 1) (tk 1) (tk 2) (tk 2) tx (tk 3) (tk 3)
      (tk 3) (tk 4) (tk 4) ty fn 2 stR actR [] _ _ recV recD hdR rfl rfl hasX rfl hasY rfl (by decide) rfl (by decide) (by decide)
      recV_storable recV_sameShape (by decide) (by decide)
  exact ⟨σ', h', hrun, by rw [hσ']; rfl, hvar, hh', hk, hoth 1 (by decide) (by decide) (by decide),
    hoth 3 (by decide) (by decide) (by decide), hlen, by rw [hσ']; rfl, hraw rawR⟩

/-- the kernel computes the same from the model (values compared through their record texts: `Val` has no decidable equality) -/
theorem put_get_computed :
    isOkUnit ((runBlock 7 blkA).run.run stR).1 = true ∧
    ((runBlock 7 blkA).run.run stR).2.handles =
      [{ hdR with records := ["INTEGER 10".toList, Codec.dump recV, "STRING 2 ab".toList], ptr := 1, modified := true }] ∧
    (((runBlock 7 blkA).run.run stR).2.acts.map fun a => (varVal a "y".toList).map Codec.dump) = [some (Codec.dump recV)] ∧
    ((runBlock 7 blkA).run.run stR).2.steps = 4 := by decide +kernel

/-- by `C13_exec_put_close_open_get` (k = 4 = len + 1: appended) -/
theorem reopen_by_theorem : ∃ (σ' : St) (h' : Handle),
    (runBlock 9 blkB).run.run stR = (.ok ⟨⟩, σ') ∧
    σ'.acts = [setVar actR "y".toList recV] ∧
    FState.handle { fs := σ'.fs, handles := σ'.handles } fn = some h' ∧
    h' = { hdR with records := ["INTEGER 10".toList, "zz top".toList, "STRING 2 ab".toList, Codec.dump recV], ptr := 3 } ∧
    DiskHas σ'.fs fn h'.records ∧ σ'.steps = 6 := by
  obtain ⟨σ', h', hrun, hσ', _, hh', hh, hd, _⟩ :=
    C13_exec_put_close_open_get (fun _ => False) Codec.readerLaws_noReal (defs := defsR) 9 (tk 1) (tk 1) (tk 1) (tk 2) (tk 2) tx
      (tk 3) (tk 3) (tk 4) (tk 4) (tk 5) (tk 5) (tk 5) (tk 6) (tk 6) ty fn 4 stR actR [] _ _ recV recD hdR rfl rfl hasX rfl hasY rfl
      rawR (by decide) (by decide) recV_storable recV_sameShape (by decide) (by decide)
  exact ⟨σ', h', hrun, by rw [hσ']; rfl, hh', by rw [hh]; rfl, hd, by rw [hσ']; rfl⟩

/-- … and computed: the record text of `recV` has seven physical lines in the file (continuation lines start with `#`) -/
theorem reopen_computed :
    isOkUnit ((runBlock 9 blkB).run.run stR).1 = true ∧
    ((runBlock 9 blkB).run.run stR).2.handles =
      [{ hdR with records := ["INTEGER 10".toList, "zz top".toList, "STRING 2 ab".toList, Codec.dump recV], ptr := 3 }] ∧
    (((runBlock 9 blkB).run.run stR).2.acts.map fun a => (varVal a "y".toList).map Codec.dump) = [some (Codec.dump recV)] ∧
    ((runBlock 9 blkB).run.run stR).2.fs =
      [(fn, .file ("INTEGER 10\nzz top\nSTRING 2 ab\nCOMPOSITE Rec INTEGER -5 STRING 8 a\n##b \n# CHAR \n# COMPOSITE Inner " ++
        "STRING 4 \n#\n# CHAR # ARRAY 2 CHAR   CHAR \n# ARRAY 2 INTEGER 7 INTEGER 8\n").toList)] := by decide +kernel

/-! ### whole ARRAY variables: `PUTRECORD f, xs ; GETRECORD f, zs` for two `ARRAY[1:2] OF CHAR` (a blank and a line break) -/
def tA : Tok := { k := .IDENTIFIER, line := 0, col := 9, val := "xs".toList }
def tZ : Tok := { k := .IDENTIFIER, line := 0, col := 9, val := "zs".toList }
def arrV : Val := .arr .chr [(1, 2)] [.chr ' ', .chr '\n']
def arrD : Val := .arr .chr [(1, 2)] [.chr 'p', .chr 'q']
def slA : Slot := { name := "xs".toList, ty := .chr, val := arrV }
def slZ : Slot := { name := "zs".toList, ty := .chr, val := arrD }
def actA : Act := { id := 0, name := "Program".toList, arrs := [slA, slZ] }
def stA : St := { acts := [actA], fs := [(fn, .file [])], handles := [{ name := fn, mode := .random }] }
def locA : Loc := { act := 0, isArr := true, name := "xs".toList, path := [] }
def locZ : Loc := { act := 0, isArr := true, name := "zs".toList, path := [] }

/-- by `C13_exec_put_get_any_target` -/
example : ∃ σ', (runBlock 7 (putGetBlock (tk 1) (tk 1) (tk 1) (tk 2) (tk 2) tA (tk 3) (tk 3) (tk 3) (tk 4) (tk 4) tZ fn 1)).run.run stA =
      (.ok ⟨⟩, σ') ∧ readLocP σ' locZ = .ok arrV := by
  obtain ⟨σ', root, hrun, _, hread, _⟩ := C13_exec_put_get_any_target (fun _ => False) Codec.readerLaws_noReal
    (defs := defsOf actA actA) 7 (tk 1) (tk 1) (tk 1) (tk 2) (tk 2) tA (tk 3) (tk 3) (tk 3) (tk 4) (tk 4) tZ fn 1 stA
    none (some (actA, slA)) none (some (actA, slZ)) locA locZ .chr .chr arrV arrD { name := fn, mode := .random }
    rfl rfl rfl rfl rfl rfl rfl rfl rfl rfl rfl rfl (by decide) rfl (by decide) (by decide)
    (by simp [arrV, Codec.Storable, Codec.StorableList])
    (by
      unfold arrV arrD
      exact Codec.sameShape_arr _ _ (Codec.sameShapeList_cons (Codec.sameShape_chr _ _)
        (Codec.sameShapeList_cons (Codec.sameShape_chr _ _) Codec.sameShapeList_nil)))
    (by decide) (by decide)
  exact ⟨σ', hrun, hread⟩

/-- … and computed by the kernel -/
example : isOkUnit ((runBlock 7 (putGetBlock (tk 1) (tk 1) (tk 1) (tk 2) (tk 2) tA (tk 3) (tk 3) (tk 3) (tk 4) (tk 4) tZ fn 1)).run.run stA).1 = true ∧
    (((runBlock 7 (putGetBlock (tk 1) (tk 1) (tk 1) (tk 2) (tk 2) tA (tk 3) (tk 3) (tk 3) (tk 4) (tk 4) tZ fn 1)).run.run stA).2.acts.map
      fun a => a.arrs.map fun s => Codec.dump s.val) = [[Codec.dump arrV, Codec.dump arrV]] := by decide +kernel

/-! ### the CLOSEFILE route and the restart route -/

/-- `C13_exec_end_closed` on the example state: after `CLOSEFILE "r.dat"` the records are on disk and the name is closed — the
    state a program that closes its file ends in satisfies `hend` of `C13_exec_put_restart_get` -/
example : ∃ σ1, (execStmt 3 (.closeFile (tk 1) (.strLit (tk 1) fn))).run.run stR = (.ok .none, σ1) ∧
    SeqAtExit { fs := σ1.fs, handles := σ1.handles } fn hdR.records := by
  obtain ⟨σ1, h1, _, h2⟩ := C13_exec_end_closed rawR 3 (tk 1) (tk 1) (by decide) (by decide)
  exact ⟨σ1, h1, h2⟩

/-- program 1 declares a record type with a nested record and two array fields, fills `x` (CHAR line break, a STRING with a line
    break followed by `#`, a CHAR line break in an array), writes it as record 1 and ends with the file still open -/
def q1 : String :=
  "TYPE Inner\nDECLARE q : STRING\nENDTYPE\nTYPE Rec\nDECLARE c : CHAR\nDECLARE r : Inner\nDECLARE xs : ARRAY[1:2] OF CHAR\nDECLARE ys : ARRAY[0:1] OF INTEGER\nENDTYPE\nDECLARE x : Rec\nx.c <- CHR(10)\nx.r.q <- \"a\" & CHR(10) & \"#b\"\nx.xs[2] <- CHR(10)\nx.ys[1] <- 8\nOPENFILE \"r.dat\" FOR RANDOM\nPUTRECORD \"r.dat\", x"

/-- program 2 declares the types again, reads record 1 into `y` and prints its parts -/
def q2 : String :=
  "TYPE Inner\nDECLARE q : STRING\nENDTYPE\nTYPE Rec\nDECLARE c : CHAR\nDECLARE r : Inner\nDECLARE xs : ARRAY[1:2] OF CHAR\nDECLARE ys : ARRAY[0:1] OF INTEGER\nENDTYPE\nDECLARE y : Rec\nOPENFILE \"r.dat\" FOR RANDOM\nSEEK \"r.dat\", 1\nGETRECORD \"r.dat\", y\nOUTPUT ASC(y.c), \"|\", y.r.q, \"|\", ASC(y.xs[2]), \"|\", y.ys[1]"

/-- the value program 1 writes -/
def recW : Val :=
  .comp "Rec".toList
    [ ("c".toList, .chr '\n'),
      ("r".toList, .comp "Inner".toList [("q".toList, .str ['a', '\n', '#', 'b'])]),
      ("xs".toList, .arr .chr [(1, 2)] [.chr '\x00', .chr '\n']),
      ("ys".toList, .arr .int [(0, 1)] [.int 0, .int 8]) ]

/-- what `DECLARE y : Rec` creates in program 2 -/
def recWD : Val :=
  .comp "Rec".toList
    [ ("c".toList, .chr '\x00'),
      ("r".toList, .comp "Inner".toList [("q".toList, .str [])]),
      ("xs".toList, .arr .chr [(1, 2)] [.chr '\x00', .chr '\x00']),
      ("ys".toList, .arr .int [(0, 1)] [.int 0, .int 0]) ]

theorem recW_storable : Codec.Storable (fun _ => False) defsR recW := by
  simp only [recW, Codec.Storable, Codec.StorableFields, Codec.StorableList]
  refine ⟨by decide, by decide, trivial, ⟨by decide, by decide, by decide, trivial⟩, ⟨by decide, trivial, trivial, trivial⟩,
    ⟨by decide, by decide, by decide, trivial⟩, trivial⟩

theorem recW_sameShape : Codec.SameShape recW recWD := by
  unfold recW recWD
  repeat' first
    | exact Codec.sameShapeFields_nil
    | exact Codec.sameShapeList_nil
    | exact Codec.sameShape_int _ _
    | exact Codec.sameShape_chr _ _
    | exact Codec.sameShape_str _ _
    | apply Codec.sameShapeFields_cons
    | apply Codec.sameShapeList_cons
    | apply Codec.sameShape_comp
    | apply Codec.sameShape_arr

/-- computed by the kernel from the model: the second run prints the parts of the value the first run wrote (the exit routine
    of the first run wrote the file) -/
theorem restart_computed :
    (runFile {} q2.toList (runFile {} q1.toList [] []).fs []).out = "10|a\n#b|10|8\n".toList := by decide +kernel

/-- the state program 1 ends in (before the exit routine): "r.dat" open, modified, one record = the text of `recW`, over the
    still empty file OPENFILE created -/
def hdEnd : Handle := { name := fn, mode := .random, records := [Codec.dump recW], ptr := 0, modified := true }

set_option maxRecDepth 100000 in
theorem q1_end :
    FState.handles { fs := (endState {} q1.toList [] [] false).fs, handles := (endState {} q1.toList [] [] false).handles } =
      [hdEnd] ∧
    FState.node { fs := (endState {} q1.toList [] [] false).fs, handles := (endState {} q1.toList [] [] false).handles }
      hdEnd.name = some (.file []) := by decide +kernel

/-- hypothesis `hend` of `C13_exec_put_restart_get` for program 1 -/
theorem q1_seqAtExit :
    SeqAtExit { fs := (endState {} q1.toList [] [] false).fs, handles := (endState {} q1.toList [] [] false).handles } fn
      [Codec.dump recW] :=
  C14ExecEx.seqAtExit_single _ hdEnd [] q1_end.1 rfl rfl
    (by
      intro r hr
      simp only [hdEnd, List.mem_cons, List.not_mem_nil, or_false] at hr
      subst hr
      exact Codec.C13_dump_framed_storable _ defsR recW recW_storable)
    q1_end.2

/-- a state of the second run: the types and `y` declared, nothing open, on the file system `fs1` -/
def act2 : Act := { actR with vars := [{ name := "y".toList, ty := .comp "Rec".toList, val := recWD }] }
def st2 (fs1 : List (Str × FsNode)) : St := { acts := [act2], fs := fs1 }

/-- by `C13_exec_put_restart_get`: the file system program 1 leaves holds the record, and `OPENFILE ; SEEK 1 ; GETRECORD y` in
    a second run on that file system (`fs1`) yields exactly `recW` -/
theorem restart_by_theorem (fs1 : List (Str × FsNode)) (hfs1 : fs1 = (runFile {} q1.toList [] []).fs) :
    DiskHas (runFile {} q1.toList [] []).fs fn [Codec.dump recW] ∧
    (runBlock 6 (openGetBlock (tk 1) (tk 1) (tk 2) (tk 2) (tk 2) (tk 3) (tk 3) ty fn 1)).run.run (st2 fs1) =
      (.ok ⟨⟩, { st2 fs1 with
                 steps := 3, acts := [setVar act2 "y".toList recW],
                 handles := [{ name := fn, mode := .random, records := [Codec.dump recW], ptr := 0 }] }) := by
  obtain ⟨hd, hrun, _⟩ := C13_exec_put_restart_get (fun _ => False) Codec.readerLaws_noReal {} q1.toList [] [] fn
    [Codec.dump recW] 1 recW q1_seqAtExit (by decide) rfl (defs := defsR) 6 (tk 1) (tk 1) (tk 2) (tk 2) (tk 2) (tk 3) (tk 3) ty
    (st2 fs1) act2 [] (.comp "Rec".toList) recWD (show (st2 fs1).fs = _ from hfs1) rfl (by decide) rfl rfl
    ⟨_, rfl, rfl, rfl, rfl, rfl⟩ rfl recW_storable recW_sameShape (by decide) (by show (0 : Nat) + 3 ≤ 2000000; decide)
  exact ⟨hd, hrun⟩


/-! ### another type -/

/-- `C13_exec_mismatch`: the cursor of "r.dat" is on record 1, an INTEGER; `GETRECORD "r.dat", y` with `y : Rec` is refused
    (`recordRead`, line 1), only `steps` changes -/
example : ∃ d, (execStmt 3 (.getRecord (tk 1) (.strLit (tk 1) fn) ty)).run.run stR = (.error (.diag d), { stR with steps := 1 }) ∧
    d.kind = .runtime ∧ d.msg = .recordRead ∧ d.line = 1 := by
  obtain ⟨d, h1, h2, h3, h4, _⟩ := C13_exec_mismatch (defs := defsR) 3 (tk 1) (tk 1) ty fn stR actR [] _ recD (.int 10) hdR rfl rfl
    hasY rfl (by decide) rfl (by decide) (.tag _ _ (by decide) (by decide)) (by decide) (by decide)
  exact ⟨d, h1, h2, h3, h4⟩

/-- a third variable `i : INTEGER = 3` -/
def actI : Act := { actR with vars := actR.vars ++ [{ name := "i".toList, ty := .int, val := .int 3 }] }
def stI : St := { stR with acts := [actI] }
def ti : Tok := { k := .IDENTIFIER, line := 0, col := 9, val := "i".toList }

/-- `C13_exec_put_get_mismatch`: `SEEK 2 ; PUTRECORD x ; SEEK 2 ; GETRECORD i` with `x : Rec`, `i : INTEGER` — the record is written,
    the GETRECORD (line 4) is refused with `recordRead`, the variables are untouched -/
example : ∃ d, (runBlock 7 (putGetBlock (tk 1) (tk 1) (tk 1) (tk 2) (tk 2) tx (tk 3) (tk 3) (tk 3) (tk 4) (tk 4) ti fn 2)).run.run stI =
      (.error (.diag d), { stI with steps := 4, handles := updHandles stI.handles fn (putSeekH 1 (Codec.dump recV)) }) ∧
    d.kind = .runtime ∧ d.msg = .recordRead ∧ d.line = 4 := by
  obtain ⟨d, h1, h2, h3, h4, _⟩ := C13_exec_put_get_mismatch (defs := defsOf actI actI) 7 (tk 1) (tk 1) (tk 1) (tk 2) (tk 2) tx
    (tk 3) (tk 3) (tk 3) (tk 4) (tk 4) ti fn 2 stI actI [] (.comp "Rec".toList) .int recV (.int 3) hdR rfl rfl
    ⟨_, rfl, rfl, rfl, rfl, rfl⟩ rfl ⟨_, rfl, rfl, rfl, rfl, rfl⟩ rfl (by decide) rfl (by decide) (by decide)
    (.tag _ _ (by decide) (by decide)) (by decide) (by decide)
  exact ⟨d, h1, h2, h3, h4⟩

end C13ExecEx

end Pseudo
