import PseudoModel.FilesPure
/-!
# C15 — text files return exactly the lines that were written, and EOF is exact
Model: `fstep` (`.write`, `.readLine`, `.eof`, `.open`), `readLineOf`, and `readAll`, which is literally the loop
`WHILE NOT EOF(f) … READFILE f, x` on the unread text of a READ handle.
-/
namespace Pseudo

def NoNL (l : Str) : Prop := ∀ c ∈ l, c ≠ '\n'

theorem takeWhile_noNL (l rest : Str) (h : NoNL l) :
    (l ++ '\n' :: rest).takeWhile (· != '\n') = l := by
  induction l with
  | nil => simp
  | cons c cs ih =>
    have hc : c ≠ '\n' := h c (by simp)
    have : (c != '\n') = true := by simp [hc]
    simp only [List.cons_append, List.takeWhile_cons, this, if_true]
    rw [ih (fun x hx => h x (by simp [hx]))]

theorem takeWhile_all (l : Str) (h : NoNL l) : l.takeWhile (· != '\n') = l := by
  induction l with
  | nil => rfl
  | cons c cs ih =>
    have hc : c ≠ '\n' := h c (by simp)
    have : (c != '\n') = true := by simp [hc]
    simp only [List.takeWhile_cons, this, if_true]
    rw [ih (fun x hx => h x (by simp [hx]))]

/-- READFILE on text that starts with a complete line returns that line and leaves the rest -/
theorem C15_read_line (l rest : Str) (h : NoNL l) : readLineOf (l ++ '\n' :: rest) = (l, rest) := by
  unfold readLineOf
  simp only [takeWhile_noNL l rest h]
  simp

/-- the reading loop returns every written line exactly once, in order, and nothing else — zero iterations
    for an empty file (EOF is exact: TRUE iff no unread text remains) -/
theorem C15_read_loop : ∀ (ls : List Str) (fuel : Nat), (∀ l ∈ ls, NoNL l) → ls.length < fuel →
    readAll fuel (joinLines ls) = ls
  | [], fuel, _, hf => by
    cases fuel with
    | zero => omega
    | succ n => simp [readAll, joinLines]
  | l :: ls, fuel, h, hf => by
    cases fuel with
    | zero => simp at hf
    | succ n =>
      have hl : NoNL l := h l (by simp)
      have hne : (joinLines (l :: ls)).isEmpty = false := by
        simp [joinLines]
      simp only [readAll, hne]
      have : joinLines (l :: ls) = l ++ '\n' :: joinLines ls := by simp [joinLines]
      rw [this, C15_read_line l _ hl]
      simp only [Bool.false_eq_true, if_false]
      rw [C15_read_loop ls n (fun x hx => h x (by simp [hx])) (by simp at hf; omega)]

/-- a pre-existing file without a final line break: the last partial line is delivered once -/
theorem C15_partial_last_line (ls : List Str) (last : Str) (fuel : Nat) (h : ∀ l ∈ ls, NoNL l) (hl : NoNL last) (hne : last ≠ [])
    (hf : ls.length + 1 < fuel) : readAll fuel (joinLines ls ++ last) = ls ++ [last] := by
  induction ls generalizing fuel with
  | nil =>
    cases fuel with
    | zero => omega
    | succ n =>
      cases n with
      | zero => omega
      | succ k =>
        have e : (([] : Str) ++ last).isEmpty = false := by cases last <;> simp_all
        have tw : last.takeWhile (· != '\n') = last := takeWhile_all last hl
        simp [joinLines, readAll, e, readLineOf, tw]
        cases last <;> simp_all
  | cons l ls ih =>
    cases fuel with
    | zero => omega
    | succ n =>
      have hl0 : NoNL l := h l (by simp)
      have this' : joinLines (l :: ls) ++ last = l ++ '\n' :: (joinLines ls ++ last) := by simp [joinLines]
      have hne' : (joinLines (l :: ls) ++ last).isEmpty = false := by simp [joinLines]
      simp only [readAll, hne']
      rw [this', C15_read_line l _ hl0]
      simp only [Bool.false_eq_true, if_false, List.cons_append]
      rw [ih n (fun x hx => h x (by simp [hx])) (by simp at hf; omega)]

/-- each WRITEFILE adds exactly one line holding the text: content' = content ++ text ++ "\n" -/
theorem C15_write_line (s : FState) (n txt c : Str) (h : Handle) (hh : s.handle n = some h)
    (hm : h.mode = .write ∨ h.mode = .append) (hn : s.node n = some (.file c)) :
    ∃ s', fstep s (.write n txt) = .ok (s', .unit) ∧ s'.fs = setNode s.fs n (.file (c ++ txt ++ ['\n'])) ∧ s'.handles = s.handles := by
  have hp : fpre s (.write n txt) = .ok () := by
    unfold fpre; rcases hm with hm | hm <;> simp [hh, hm]
  refine ⟨{ s with fs := setNode s.fs n (.file (c ++ txt ++ ['\n'])) }, ?_, rfl, rfl⟩
  simp [fstep, hp, hn]

/-- EOF(f) is TRUE exactly when no unread text remains -/
theorem C15_eof_exact (s : FState) (n : Str) (h : Handle) (hh : s.handle n = some h) (hm : h.mode = .read) :
    fstep s (.eof n) = .ok (s, .bool h.rest.isEmpty) := by
  have hp : fpre s (.eof n) = .ok () := by unfold fpre; simp [hh, hm]
  simp [fstep, hp, hh]

/-- the unread text of a fresh READ handle is the file's content; WRITE starts empty, APPEND keeps the content -/
theorem C15_open_modes (s : FState) (n c : Str) (hno : s.handle n = none) (hc : s.node n = some (.file c)) (hlen : nameTooLong n = false) :
    (∃ s', fstep s (.open n .read) = .ok (s', .unit) ∧ s'.handle n = some { name := n, mode := .read, rest := c } ∧ s'.fs = s.fs) ∧
    (∃ s', fstep s (.open n .append) = .ok (s', .unit) ∧ s'.fs = s.fs) ∧
    (parentOk s n = true → ∃ s', fstep s (.open n .write) = .ok (s', .unit) ∧ s'.fs = setNode s.fs n (.file [])) := by
  have hp : ∀ m, fpre s (.open n m) = .ok () := by intro m; simp [fpre, hno]
  refine ⟨?_, ?_, ?_⟩
  · refine ⟨{ s with handles := s.handles ++ [{ name := n, mode := .read, rest := c }] }, by simp [fstep, hp, hc, hlen], ?_, rfl⟩
    unfold FState.handle at *
    simp only [List.find?_append, hno]
    simp
  · exact ⟨{ s with handles := s.handles ++ [{ name := n, mode := .append }] }, by simp [fstep, hp, hc, hlen], rfl⟩
  · intro hpo
    exact ⟨{ fs := setNode s.fs n (.file []), handles := s.handles ++ [{ name := n, mode := .write }] }, by simp [fstep, hp, hc, hlen, hpo], rfl⟩

/-! non-vacuity -/
example : readAll 10 (joinLines ["ab".toList, [], "c".toList]) = ["ab".toList, [], "c".toList] := by decide
example : readAll 10 [] = [] := by decide

end Pseudo
