import Properties.C18Exec
import Properties.C17
import Properties.C17Conv
/-!
# C17 for programs: the string, character and conversion built-ins on the evaluator

`Properties/C17.lean` proves the property about the pure cores (`bLeft`, `bRight`, `bMid`, `bIsNum`, the C-locale character
functions); here the same facts are proved about RUNS of `evalExpr (.call tok args)`.

0. `C17_exec_builtin` (generic): a call of a registered built-in = the dispatcher's checks, then `runBuiltin` on the (implicitly
   cast) argument values in an activation of its own. `C17_exec_bad_args`: a wrong argument COUNT or TYPE is the runtime
   diagnostic `invalidArgs` at the call token, raised in the caller — for EVERY built-in of the registry; the count is checked
   first, then the types; either way the state is as the arguments left it (the caller notes the call site only after the
   binding; depth counter and activation numbers untouched). `C17_exec_value_args_ok` (converse), `C17_exec_arg_error` (an
   argument's error is the call's).
1. `C17_exec_length`, `C17_exec_left` (`_in_range`, `_out_of_range`), `C17_exec_right` (same), `C17_exec_mid`
   (`_in_range`, `_range`, `_defined_iff`): the value is the pure function's of `Properties/C17.lean`; an argument out of range
   ends in the runtime diagnostic `strRange`, raised by `rtErr0` inside the built-in's activation (position 0,0; trace: the
   built-in, then the caller at the call token; the depth counter and the call-site mark stay set, as for `SETDATE`).
2. `C17_exec_ucase`, `_lcase` (`_spec`), `_to_upper`, `_to_lower`, `_asc`, `_chr`.
3. `C17_exec_is_num` (`_digits`), `_str_to_num` (`_digits`), `_num_to_str`, `_int`; the implicit casts at the parameters:
   `C17_exec_num_to_str_int`, `_int_int`, `_length_char`, `_asc_string`.
4. `C17_exec_asc_chr`, `C17_exec_left_right_identity`, `C17_exec_mid_range`.

The argument expressions are ANY expressions that evaluate (one after the other, each with fuel `f`) to values; literals and
pure expressions are the special case in which the state does not move. A call that returns leaves
`{ σ' with nextId := σ'.nextId + 1 }` (`σ'` = the state after the arguments).

Helper lemmas: namespace `Pseudo.C17ExecL` (`run_call_builtin`, `run_call_core`, `ArgsRun`, `bindVals`, `TypesOK`, `outcome`).
-/
namespace Pseudo
namespace C17ExecL
open CallLemmas ArrayLemmas C18ExecL

/-! ## arguments -/

/-- the argument expressions evaluate one after the other (each with fuel `f`): `σ → … → σ'`, values `vs` -/
def ArgsRun (f : Nat) : St → List Expr → List Val → St → Prop
  | σ, [], [], σ' => σ' = σ
  | σ, e :: es, v :: vs, σ' => ∃ σ1, (evalExpr f e).run.run σ = (.ok v, σ1) ∧ ArgsRun f σ1 es vs σ'
  | _, _, _, _ => False

theorem ArgsRun.length_eq {f : Nat} : ∀ {es : List Expr} {vs : List Val} {σ σ' : St}, ArgsRun f σ es vs σ' → es.length = vs.length
  | [], [], _, _, _ => rfl
  | [], _ :: _, _, _, h => by cases h
  | _ :: _, [], _, _, h => by cases h
  | _ :: es, _ :: vs, _, _, h => by
    obtain ⟨σ1, _, h2⟩ := h
    simp only [List.length_cons]
    rw [ArgsRun.length_eq (es := es) (vs := vs) h2]

theorem argsRun_of_pureAll {σ : St} {f₀ : Nat} : ∀ {es : List Expr} {vs : List Val}, PureAll σ f₀ es vs → ArgsRun f₀ σ es vs σ
  | [], [], _ => rfl
  | [], _ :: _, h => by cases h
  | _ :: _, [], h => by cases h
  | _ :: es, _ :: vs, h => ⟨σ, h.1 f₀ (Nat.le_refl _), argsRun_of_pureAll (es := es) (vs := vs) h.2⟩

theorem run_evalArgs_run (f : Nat) : ∀ (es : List Expr) (vs : List Val) (acc : List Val) (g : Nat) (σ σ' : St),
    ArgsRun f σ es vs σ' → f + es.length + 1 ≤ g →
    (evalArgs g es acc).run.run σ = (.ok (acc.reverse ++ vs), σ') := by
  intro es
  induction es with
  | nil =>
    intro vs acc g σ σ' hp hg
    obtain ⟨g', rfl⟩ : ∃ g', g = g' + 1 := ⟨g - 1, by omega⟩
    cases vs with
    | nil =>
      have : σ' = σ := hp
      subst this
      rw [evalArgs_nil, List.append_nil]; rfl
    | cons _ _ => cases hp
  | cons e es ih =>
    intro vs acc g σ σ' hp hg
    obtain ⟨g', rfl⟩ : ∃ g', g = g' + 1 := ⟨g - 1, by omega⟩
    simp only [List.length_cons] at hg
    cases vs with
    | nil => cases hp
    | cons v vs =>
      obtain ⟨σ1, hv, hrest⟩ := hp
      have hv' := evalExpr_fuel_mono e f g' (by omega) σ _ _ hv (fun h => nomatch h)
      rw [evalArgs_cons, run_bind_ok _ _ _ _ _ hv', ih vs (v :: acc) g' σ1 σ' hrest (by omega)]
      simp only [List.reverse_cons, List.append_assoc, List.singleton_append]

/-- the arguments `pre` evaluate (σ → σ1), the next one ends in an error: so does the argument list -/
theorem run_evalArgs_err (f : Nat) : ∀ (pre : List Expr) (vs : List Val) (e : Expr) (post : List Expr) (acc : List Val) (g : Nat)
    (σ σ1 σ' : St) (x : Stop),
    ArgsRun f σ pre vs σ1 → (evalExpr f e).run.run σ1 = (.error x, σ') → x ≠ .outOfFuel → f + pre.length + 2 ≤ g →
    (evalArgs g (pre ++ e :: post) acc).run.run σ = (.error x, σ') := by
  intro pre
  induction pre with
  | nil =>
    intro vs e post acc g σ σ1 σ' x hp he hx hg
    obtain ⟨g', rfl⟩ : ∃ g', g = g' + 1 := ⟨g - 1, by omega⟩
    cases vs with
    | nil =>
      have : σ1 = σ := hp
      subst this
      have he' := evalExpr_fuel_mono e f g' (by simp only [List.length_nil] at hg; omega) σ1 _ _ he
        (fun h => by injection h with h; exact hx h)
      rw [List.nil_append, evalArgs_cons]
      exact run_bind_err _ _ _ _ _ he'
    | cons _ _ => cases hp
  | cons p pre ih =>
    intro vs e post acc g σ σ1 σ' x hp he hx hg
    obtain ⟨g', rfl⟩ : ∃ g', g = g' + 1 := ⟨g - 1, by omega⟩
    simp only [List.length_cons] at hg
    cases vs with
    | nil => cases hp
    | cons v vs =>
      obtain ⟨σ2, hv, hrest⟩ := hp
      have hv' := evalExpr_fuel_mono p f g' (by omega) σ _ _ hv (fun h => nomatch h)
      rw [List.cons_append, evalArgs_cons, run_bind_ok _ _ _ _ _ hv']
      exact ih vs e post (v :: acc) g' σ2 σ1 σ' x hrest he hx (by omega)

/-! ## binding of BYVAL parameters -/

/-- the slots of an all-BYVAL parameter list for given argument values; `none` when some value does not have its
    parameter's type after the implicit cast -/
def bindVals : List (Str × Ty × Bool) → List Val → Option (List Slot)
  | (pn, pty, _) :: ps, v :: vs =>
    if (implicitCast pty v).ty = pty then (bindVals ps vs).map (byvalSlot pn pty v :: ·) else none
  | _, _ => some []

theorem run_bindParams_vals (t : Tok) : ∀ (ps : List (Str × Ty × Bool)) (es : List Expr) (vs : List Val) (acc : List Slot)
    (f : Nat) (σ : St), (∀ p ∈ ps, p.2.2 = false) → es.length = ps.length → vs.length = ps.length → ps.length + 1 ≤ f →
    (bindParams f t ps es vs acc).run.run σ =
      match bindVals ps vs with
      | some sl => (.ok (acc.reverse ++ sl), σ)
      | none => (.error (.diag (rtDiag σ t.line t.col .invalidArgs)), σ) := by
  intro ps
  induction ps with
  | nil =>
    intro es vs acc f σ _ _ _ hf
    obtain ⟨f', rfl⟩ : ∃ f', f = f' + 1 := ⟨f - 1, by omega⟩
    rw [run_bindParams_done]
    simp only [bindVals, List.append_nil]
  | cons p ps ih =>
    intro es vs acc f σ hbv hes hvs hf
    obtain ⟨f', rfl⟩ : ∃ f', f = f' + 1 := ⟨f - 1, by omega⟩
    obtain ⟨pn, pty, br⟩ := p
    have hbr : br = false := hbv (pn, pty, br) List.mem_cons_self
    subst hbr
    cases es with
    | nil => simp at hes
    | cons e es =>
      cases vs with
      | nil => simp at hvs
      | cons v vs =>
        simp only [List.length_cons] at hes hvs hf
        rw [run_bindParams_byval]
        by_cases hc : (implicitCast pty v).ty = pty
        · rw [if_pos hc, ih es vs _ f' σ (fun q hq => hbv q (List.mem_cons_of_mem _ hq)) (by omega) (by omega) (by omega)]
          simp only [bindVals, if_pos hc]
          cases bindVals ps vs with
          | none => rfl
          | some sl => simp only [Option.map_some, List.reverse_cons, List.append_assoc, List.singleton_append]
        · rw [if_neg hc]
          simp only [bindVals, if_neg hc]

/-! ## the registry -/

theorem builtin_mem_shape (fd : FunDef) (h : fd ∈ builtinFuns) : fd.body = .builtin fd.name ∧ ∀ p ∈ fd.params, p.2.2 = false := by
  unfold builtinFuns at h
  obtain ⟨⟨n, ps, r⟩, _, rfl⟩ := List.mem_map.1 h
  refine ⟨rfl, ?_⟩
  intro p hp
  obtain ⟨⟨pn, ty⟩, _, rfl⟩ := List.mem_map.1 hp
  rfl

theorem builtin_find_shape (n : Str) (fd : FunDef) (h : builtinFuns.find? (·.name == n) = some fd) :
    fd.name = n ∧ fd.body = .builtin n ∧ ∀ p ∈ fd.params, p.2.2 = false := by
  have hn : fd.name = n := by simpa using List.find?_some h
  have := builtin_mem_shape fd (List.mem_of_find?_eq_some h)
  rw [hn] at this
  exact ⟨hn, this⟩

/-! ## the generic lemma -/

/-- the diagnostic of the dispatcher (wrong number / wrong type of arguments): at the call token, in the caller -/
def argsDiag (t : Tok) (cur : Act) (rest : List Act) : Diag :=
  { kind := .runtime, line := t.line, col := t.col, msg := .invalidArgs,
    trace := { name := cur.name, line := t.line, col := t.col } :: rest.map frameOf }

/-- the caller's call-site mark set (what a refused call leaves behind) -/
def markSt (σ : St) (t : Tok) (cur : Act) (rest : List Act) : St :=
  { σ with acts := { cur with switchTok := some (t.line, t.col) } :: rest }

theorem setSwitch_eq (σ : St) (cur : Act) (rest : List Act) (t : Tok) (hacts : σ.acts = cur :: rest) :
    setSwitch σ cur.id t = markSt σ t cur rest := by
  have := setSwitch_acts σ cur rest t hacts
  unfold markSt
  unfold setSwitch updSt at this ⊢
  simp only at this
  rw [this]

/-- **A call of a built-in function = the registry function applied to the argument values.**
    `t` names the built-in `fd`; the argument expressions evaluate one after the other (`σ → σ1`, values `vals`). Then the
    call is decided by the dispatcher as follows: a wrong number of values is `invalidArgs` in `σ1`; a value that does not
    have its parameter's type after the implicit cast is `invalidArgs` too, again in `σ1` (the caller notes the call site
    only after the binding); otherwise the outcome is that of `runBuiltin` on the cast values, run in the built-in's own
    activation (`builtinResult`), the caller's call-site mark set. -/
theorem run_call_builtin (fuel f : Nat) (t : Tok) (args : List Expr) (vals : List Val) (σ σ1 : St) (cur : Act)
    (rest : List Act) (fd : FunDef)
    (hfind : builtinFuns.find? (·.name == t.val) = some fd)
    (hargs : ArgsRun f σ args vals σ1) (hfuel : f + args.length + 3 ≤ fuel) (hfuel2 : fd.params.length + 3 ≤ fuel)
    (hacts : σ1.acts = cur :: rest) (hd : σ1.depth + 1 ≤ σ1.depthLimit) :
    (evalExpr fuel (.call t args)).run.run σ =
      if vals.length ≠ fd.params.length then (.error (.diag (argsDiag t cur rest)), σ1)
      else match bindVals fd.params vals with
        | none => (.error (.diag (argsDiag t cur rest)), σ1)
        | some slots =>
          builtinResult cur.id ((runBuiltin t.val (slots.map (·.val))).run.run (calleeSt (funAct fd slots) (markSt σ1 t cur rest))) := by
  obtain ⟨g, rfl⟩ : ∃ g, fuel = g + 2 := ⟨fuel - 2, by omega⟩
  obtain ⟨_, hbody, hbv⟩ := builtin_find_shape t.val fd hfind
  have hfd : funLookup σ t.val = some fd := funLookup_builtin σ _ _ hfind
  have hev : (evalArgs g args []).run.run σ = (.ok vals, σ1) := by
    have := run_evalArgs_run f args vals [] g σ σ1 hargs (by omega)
    simpa using this
  have hlenA := hargs.length_eq
  by_cases hl : vals.length = fd.params.length
  · rw [if_neg (by simpa using hl)]
    have hb := run_bindParams_vals t fd.params args vals [] g σ1 hbv (by omega) hl (by omega)
    cases hbs : bindVals fd.params vals with
    | some slots =>
      rw [hbs] at hb
      simp only [List.reverse_nil, List.nil_append] at hb
      dsimp only
      rw [evalExpr_call]
      rcases hr : (runBuiltin t.val (slots.map (·.val))).run.run (calleeSt (funAct fd slots) (setSwitch σ1 cur.id t)) with ⟨r, σ4⟩
      rw [run_callFun_builtin g t args σ σ1 σ1 σ4 fd t.val vals cur rest slots r hfd hbody hev hl hd hacts hb hr,
        ← setSwitch_eq σ1 cur rest t hacts, hr]
    | none =>
      rw [hbs] at hb
      dsimp only at hb ⊢
      rw [evalExpr_call, callFun_succ, run_bind_ok _ _ _ _ _ (run_get σ), hfd]
      dsimp only
      rw [run_bind_ok _ _ _ _ _ hev]
      have hl' : (vals.length != fd.params.length) = false := by simp [hl]
      simp only [hl', Bool.false_eq_true, if_false]
      rw [run_bind_ok _ _ _ _ _ (run_get σ1), run_bind_ok _ _ _ _ _ (run_get σ1)]
      have hd' : ¬ (σ1.depth + 1 > σ1.depthLimit) := by omega
      simp only [hd', if_false]
      rw [run_bind_ok _ _ _ _ _ (run_curAct_cons σ1 cur rest hacts), run_bind_err _ _ _ _ _ hb,
        rtDiag_cons _ _ _ _ _ _ hacts]
      rfl
  · rw [if_pos (by simpa using hl)]
    rw [evalExpr_call, callFun_succ, run_bind_ok _ _ _ _ _ (run_get σ), hfd]
    dsimp only
    rw [run_bind_ok _ _ _ _ _ hev]
    have hl' : (vals.length != fd.params.length) = true := by simpa using hl
    simp only [hl', if_true]
    rw [run_rtErr, rtDiag_cons _ _ _ _ _ _ hacts]
    rfl

/-! ## built-ins whose core is a pure function or a refusal -/

/-- the run of a built-in core that either computes a value or refuses with a message (`rtErr0`) -/
def coreRun (out : Except Msg Val) (τ : St) : Except Stop Val × St :=
  match out with
  | .ok v => (.ok v, τ)
  | .error m => (.error (.diag (rtDiag τ 0 0 m)), τ)

theorem run_liftMsg0_map {α : Type} (x : Except Msg α) (k : α → Val) (τ : St) :
    (do let a ← liftMsg0 x; pure (k a) : M Val).run.run τ = coreRun (x.map k) τ := by
  cases x with
  | ok a => rfl
  | error m => exact run_bind_err _ _ _ _ _ (run_rtErr0 m τ)

/-- the runtime diagnostic raised inside the activation of the built-in `name`, called at `t` from `cur` -/
def refusal (name : Str) (m : Msg) (t : Tok) (cur : Act) (rest : List Act) : Diag :=
  { kind := .runtime, line := 0, col := 0, msg := m,
    trace := { name := name, line := 0, col := 0 } :: { name := cur.name, line := t.line, col := t.col } :: rest.map frameOf }

/-- the state such a diagnostic leaves: the activation of the built-in is gone, its number used up; the depth counter and
    the caller's call-site mark are as during the call -/
def refusedSt (σ : St) (t : Tok) (cur : Act) (rest : List Act) : St :=
  { σ with nextId := σ.nextId + 1, depth := σ.depth + 1, acts := { cur with switchTok := some (t.line, t.col) } :: rest }

/-- outcome of a call whose core yields `out`: the value and one used-up activation number, or the refusal -/
def outcome (name : Str) (t : Tok) (σ : St) (cur : Act) (rest : List Act) : Except Msg Val → Except Stop Val × St
  | .ok v => (.ok v, { σ with nextId := σ.nextId + 1 })
  | .error m => (.error (.diag (refusal name m t cur rest)), refusedSt σ t cur rest)

/-- **built-in call, core = pure function or refusal** -/
theorem run_call_core (fuel f : Nat) (t : Tok) (args : List Expr) (vals : List Val) (σ σ1 : St) (cur : Act)
    (rest : List Act) (fd : FunDef) (slots : List Slot) (out : Except Msg Val)
    (hfind : builtinFuns.find? (·.name == t.val) = some fd)
    (hargs : ArgsRun f σ args vals σ1) (hfuel : f + args.length + 3 ≤ fuel) (hfuel2 : fd.params.length + 3 ≤ fuel)
    (hacts : σ1.acts = cur :: rest) (hsw : cur.switchTok = none) (hd : σ1.depth + 1 ≤ σ1.depthLimit)
    (hlen : vals.length = fd.params.length) (hb : bindVals fd.params vals = some slots)
    (hrun : ∀ τ, (runBuiltin t.val (slots.map (·.val))).run.run τ = coreRun out τ) :
    (evalExpr fuel (.call t args)).run.run σ = outcome t.val t σ1 cur rest out := by
  rw [run_call_builtin fuel f t args vals σ σ1 cur rest fd hfind hargs hfuel hfuel2 hacts hd, if_neg (by simpa using hlen), hb]
  dsimp only
  rw [hrun, ← setSwitch_eq σ1 cur rest t hacts]
  obtain ⟨hname, _, _⟩ := builtin_find_shape t.val fd hfind
  cases out with
  | ok v =>
    show (_, clearSwitch (decDepth (popSt (calleeSt _ (setSwitch σ1 cur.id t)))) cur.id) = _
    rw [builtin_ret_state σ1 cur rest t _ hacts, retSt_eq σ1 cur rest hacts hsw]
    rfl
  | error m =>
    have hn : (funAct fd slots σ1.nextId).name = t.val := hname
    show ((Except.error (Stop.diag (rtDiag (calleeSt (funAct fd slots) (setSwitch σ1 cur.id t)) 0 0 m)) : Except Stop Val),
      popSt (calleeSt (funAct fd slots) (setSwitch σ1 cur.id t))) = _
    rw [builtin_diag σ1 cur rest t _ m hacts, builtin_err_state σ1 cur rest t _ hacts, errSt_eq σ1 cur rest t hacts, hn]
    rfl

/-! ## literals -/

theorem pureAt_strLit (σ : St) (t : Tok) (s : Str) : PureAt σ 1 (.strLit t s) (.str s) := by
  intro f hf
  obtain ⟨f', rfl⟩ : ∃ f', f = f' + 1 := ⟨f - 1, by omega⟩
  rw [evalExpr.eq_def]; rfl

theorem pureAt_charLit (σ : St) (t : Tok) (c : Char) : PureAt σ 1 (.charLit t c) (.chr c) := by
  intro f hf
  obtain ⟨f', rfl⟩ : ∃ f', f = f' + 1 := ⟨f - 1, by omega⟩
  rw [evalExpr.eq_def]; rfl

theorem pureAt_realLit (σ : St) (t : Tok) (txt : Str) : PureAt σ 1 (.realLit t txt) (.real (FloatFmt.strtod txt).1) := by
  intro f hf
  obtain ⟨f', rfl⟩ : ∃ f', f = f' + 1 := ⟨f - 1, by omega⟩
  rw [evalExpr.eq_def]; rfl

/-! ## the string built-ins: registry entries and cores -/

def def1 (n pn : String) (pty rty : Ty) : FunDef :=
  { name := n.toList, params := [(pn.toList, pty, false)], ret := rty, body := .builtin n.toList }
def def2 (n p1 : String) (t1 : Ty) (p2 : String) (t2 : Ty) (rty : Ty) : FunDef :=
  { name := n.toList, params := [(p1.toList, t1, false), (p2.toList, t2, false)], ret := rty, body := .builtin n.toList }
def midDef : FunDef :=
  { name := "MID".toList, params := [("String".toList, .str, false), ("x".toList, .int, false), ("y".toList, .int, false)],
    ret := .str, body := .builtin "MID".toList }

theorem find_length : builtinFuns.find? (·.name == "LENGTH".toList) = some (def1 "LENGTH" "String" .str .int) := by rfl
theorem find_left : builtinFuns.find? (·.name == "LEFT".toList) = some (def2 "LEFT" "String" .str "x" .int .str) := by rfl
theorem find_right : builtinFuns.find? (·.name == "RIGHT".toList) = some (def2 "RIGHT" "String" .str "x" .int .str) := by rfl
theorem find_mid : builtinFuns.find? (·.name == "MID".toList) = some midDef := by rfl
theorem find_to_upper : builtinFuns.find? (·.name == "TO_UPPER".toList) = some (def1 "TO_UPPER" "String" .str .str) := by rfl
theorem find_to_lower : builtinFuns.find? (·.name == "TO_LOWER".toList) = some (def1 "TO_LOWER" "String" .str .str) := by rfl
theorem find_num_to_str : builtinFuns.find? (·.name == "NUM_TO_STR".toList) = some (def1 "NUM_TO_STR" "x" .real .str) := by rfl
theorem find_str_to_num : builtinFuns.find? (·.name == "STR_TO_NUM".toList) = some (def1 "STR_TO_NUM" "String" .str .real) := by rfl
theorem find_is_num : builtinFuns.find? (·.name == "IS_NUM".toList) = some (def1 "IS_NUM" "String" .str .bool) := by rfl
theorem find_lcase : builtinFuns.find? (·.name == "LCASE".toList) = some (def1 "LCASE" "Char" .chr .chr) := by rfl
theorem find_ucase : builtinFuns.find? (·.name == "UCASE".toList) = some (def1 "UCASE" "Char" .chr .chr) := by rfl
theorem find_asc : builtinFuns.find? (·.name == "ASC".toList) = some (def1 "ASC" "Char" .chr .int) := by rfl
theorem find_chr : builtinFuns.find? (·.name == "CHR".toList) = some (def1 "CHR" "x" .int .chr) := by rfl
theorem find_int : builtinFuns.find? (·.name == "INT".toList) = some (def1 "INT" "x" .real .int) := by rfl

theorem core_length (s : Str) (τ : St) : (runBuiltin "LENGTH".toList [.str s]).run.run τ = coreRun (.ok (.int s.length)) τ := by rfl
theorem core_left (s : Str) (n : Int) (τ : St) :
    (runBuiltin "LEFT".toList [.str s, .int n]).run.run τ = coreRun ((bLeft s n).map .str) τ :=
  run_liftMsg0_map (bLeft s n) .str τ
theorem core_right (s : Str) (n : Int) (τ : St) :
    (runBuiltin "RIGHT".toList [.str s, .int n]).run.run τ = coreRun ((bRight s n).map .str) τ :=
  run_liftMsg0_map (bRight s n) .str τ
theorem core_mid (s : Str) (i n : Int) (τ : St) :
    (runBuiltin "MID".toList [.str s, .int i, .int n]).run.run τ = coreRun ((bMid s i n).map .str) τ :=
  run_liftMsg0_map (bMid s i n) .str τ
theorem core_to_upper (s : Str) (τ : St) :
    (runBuiltin "TO_UPPER".toList [.str s]).run.run τ = coreRun (.ok (.str (s.map toUpperC))) τ := by rfl
theorem core_to_lower (s : Str) (τ : St) :
    (runBuiltin "TO_LOWER".toList [.str s]).run.run τ = coreRun (.ok (.str (s.map toLowerC))) τ := by rfl
theorem core_num_to_str (x : Float) (τ : St) :
    (runBuiltin "NUM_TO_STR".toList [.real x]).run.run τ = coreRun (.ok (.str (realToString x))) τ := by rfl
theorem core_str_to_num (s : Str) (τ : St) :
    (runBuiltin "STR_TO_NUM".toList [.str s]).run.run τ = coreRun (.ok (.real (strToReal s))) τ := by rfl
theorem core_is_num (s : Str) (τ : St) :
    (runBuiltin "IS_NUM".toList [.str s]).run.run τ = coreRun (.ok (.bool (bIsNum s))) τ := by rfl
theorem core_lcase (c : Char) (τ : St) : (runBuiltin "LCASE".toList [.chr c]).run.run τ = coreRun (.ok (.chr (toLowerC c))) τ := by rfl
theorem core_ucase (c : Char) (τ : St) : (runBuiltin "UCASE".toList [.chr c]).run.run τ = coreRun (.ok (.chr (toUpperC c))) τ := by rfl
theorem core_asc (c : Char) (τ : St) : (runBuiltin "ASC".toList [.chr c]).run.run τ = coreRun (.ok (.int (intOfByte c))) τ := by rfl
theorem core_chr (n : Int) (τ : St) : (runBuiltin "CHR".toList [.int n]).run.run τ = coreRun (.ok (.chr (byteOfInt n))) τ := by rfl
theorem core_int (x : Float) (τ : St) : (runBuiltin "INT".toList [.real x]).run.run τ = coreRun (.ok (.int (bInt x))) τ := by rfl

/-! ## calls with one, two, three arguments -/

theorem run_call1 (n pn : String) (pty rty : Ty)
    (hfind : builtinFuns.find? (·.name == n.toList) = some (def1 n pn pty rty))
    (fuel f : Nat) (t : Tok) (e : Expr) (v : Val) (σ σ' : St) (cur : Act) (rest : List Act) (out : Except Msg Val)
    (hfuel : f + 4 ≤ fuel) (hname : t.val = n.toList)
    (he : (evalExpr f e).run.run σ = (.ok v, σ'))
    (hacts : σ'.acts = cur :: rest) (hsw : cur.switchTok = none) (hd : σ'.depth + 1 ≤ σ'.depthLimit)
    (hty : (implicitCast pty v).ty = pty)
    (hrun : ∀ τ, (runBuiltin n.toList [implicitCast pty v]).run.run τ = coreRun out τ) :
    (evalExpr fuel (.call t [e])).run.run σ = outcome n.toList t σ' cur rest out := by
  rw [← hname] at hfind hrun ⊢
  exact run_call_core fuel f t [e] [v] σ σ' cur rest _ [byvalSlot pn.toList pty v] out hfind ⟨σ', he, rfl⟩
    (by simp only [List.length_cons, List.length_nil]; omega) (by simp only [def1, List.length_cons, List.length_nil]; omega)
    hacts hsw hd rfl (by simp only [def1, bindVals, if_pos hty, Option.map_some]) hrun

theorem run_call2 (n p1 : String) (t1 : Ty) (p2 : String) (t2 rty : Ty)
    (hfind : builtinFuns.find? (·.name == n.toList) = some (def2 n p1 t1 p2 t2 rty))
    (fuel f : Nat) (t : Tok) (e1 e2 : Expr) (v1 v2 : Val) (σ σ1 σ2 : St) (cur : Act) (rest : List Act) (out : Except Msg Val)
    (hfuel : f + 5 ≤ fuel) (hname : t.val = n.toList)
    (he1 : (evalExpr f e1).run.run σ = (.ok v1, σ1)) (he2 : (evalExpr f e2).run.run σ1 = (.ok v2, σ2))
    (hacts : σ2.acts = cur :: rest) (hsw : cur.switchTok = none) (hd : σ2.depth + 1 ≤ σ2.depthLimit)
    (hty1 : (implicitCast t1 v1).ty = t1) (hty2 : (implicitCast t2 v2).ty = t2)
    (hrun : ∀ τ, (runBuiltin n.toList [implicitCast t1 v1, implicitCast t2 v2]).run.run τ = coreRun out τ) :
    (evalExpr fuel (.call t [e1, e2])).run.run σ = outcome n.toList t σ2 cur rest out := by
  rw [← hname] at hfind hrun ⊢
  exact run_call_core fuel f t [e1, e2] [v1, v2] σ σ2 cur rest _ [byvalSlot p1.toList t1 v1, byvalSlot p2.toList t2 v2] out hfind
    ⟨σ1, he1, σ2, he2, rfl⟩
    (by simp only [List.length_cons, List.length_nil]; omega) (by simp only [def2, List.length_cons, List.length_nil]; omega)
    hacts hsw hd rfl (by simp only [def2, bindVals, if_pos hty1, if_pos hty2, Option.map_some]) hrun

theorem run_call_mid (fuel f : Nat) (t : Tok) (e1 e2 e3 : Expr) (s : Str) (i n : Int) (σ σ1 σ2 σ3 : St) (cur : Act)
    (rest : List Act)
    (hfuel : f + 6 ≤ fuel) (hname : t.val = "MID".toList)
    (he1 : (evalExpr f e1).run.run σ = (.ok (.str s), σ1)) (he2 : (evalExpr f e2).run.run σ1 = (.ok (.int i), σ2))
    (he3 : (evalExpr f e3).run.run σ2 = (.ok (.int n), σ3))
    (hacts : σ3.acts = cur :: rest) (hsw : cur.switchTok = none) (hd : σ3.depth + 1 ≤ σ3.depthLimit) :
    (evalExpr fuel (.call t [e1, e2, e3])).run.run σ = outcome "MID".toList t σ3 cur rest ((bMid s i n).map .str) := by
  have hfind := find_mid
  have hrun := core_mid s i n
  rw [← hname] at hfind hrun ⊢
  exact run_call_core fuel f t [e1, e2, e3] [.str s, .int i, .int n] σ σ3 cur rest _
    [byvalSlot "String".toList .str (.str s), byvalSlot "x".toList .int (.int i), byvalSlot "y".toList .int (.int n)] _ hfind
    ⟨σ1, he1, σ2, he2, σ3, he3, rfl⟩
    (by simp only [List.length_cons, List.length_nil]; omega) (by simp only [midDef, List.length_cons, List.length_nil]; omega)
    hacts hsw hd rfl rfl hrun

/-! ## pure facts -/

theorem bLeft_eq (s : Str) (n : Int) :
    bLeft s n = if 0 ≤ n ∧ n ≤ s.length then .ok (s.take n.toNat) else .error .strRange := by
  unfold bLeft
  repeat' split
  all_goals first | rfl | (exfalso; omega)

theorem bRight_eq (s : Str) (n : Int) :
    bRight s n = if 0 ≤ n ∧ n ≤ s.length then .ok (s.drop (s.length - n.toNat)) else .error .strRange := by
  unfold bRight
  repeat' split
  all_goals first | rfl | (exfalso; omega)

/-- **MID is defined exactly for** `1 ≤ i ≤ |s|`, `0 ≤ n`, `i - 1 + n ≤ |s|` (64-bit arguments, `|s| < 2^63`) -/
theorem bMid_eq (s : Str) (i n : Int) (hlen : (s.length : Int) < two63) (hi : InRange64 i) (hn : InRange64 n) :
    bMid s i n = if 1 ≤ i ∧ i ≤ s.length ∧ 0 ≤ n ∧ i - 1 + n ≤ s.length then .ok ((s.drop (i - 1).toNat).take n.toNat)
      else .error .strRange := by
  unfold InRange64 at hi hn
  unfold bMid
  by_cases h1 : 1 ≤ i
  · have hw : wrap64 (i - 1) = i - 1 := by unfold wrap64 two63 two64 at *; omega
    simp only [hw]
    by_cases h2 : i ≤ s.length
    · by_cases h3 : 0 ≤ n
      · have hw2 : wrap64 (n + (i - 1)) = if n + (i - 1) < two63 then n + (i - 1) else n + (i - 1) - two64 := by
          unfold wrap64 two63 two64 at *; split <;> omega
        simp only [hw2]
        unfold two63 two64 at *
        repeat' split
        all_goals first | rfl | (exfalso; omega)
      · repeat' split
        all_goals first | rfl | (exfalso; omega)
    · repeat' split
      all_goals first | rfl | (exfalso; omega)
  · have hw : wrap64 (i - 1) = if i = -two63 then two63 - 1 else i - 1 := by
      unfold wrap64 two63 two64 at *; split <;> omega
    simp only [hw]
    unfold two63 at *
    repeat' split
    all_goals first | rfl | (exfalso; omega)

theorem evalCmp_eq_str (a b : Str) : evalCmp .eq (.str a) (.str b) = .ok (.bool (a == b)) := by rfl
theorem evalConcat_str (a b : Str) : evalConcat (.str a) (.str b) = .ok (.str (a ++ b)) := by rfl

/-! ## operators on runs -/

theorem run_concat (f : Nat) (t : Tok) (l r : Expr) (lv rv v : Val) (σ σ1 σ2 : St)
    (hl : (evalExpr f l).run.run σ = (.ok lv, σ1)) (hr : (evalExpr f r).run.run σ1 = (.ok rv, σ2))
    (hv : evalConcat lv rv = .ok v) :
    (evalExpr (f+1) (.concat t l r)).run.run σ = (.ok v, σ2) := by
  rw [evalExpr.eq_def]
  dsimp only
  rw [run_bind_ok _ _ _ _ _ hl, run_bind_ok _ _ _ _ _ hr, hv]
  rfl

theorem run_cmp (f : Nat) (t : Tok) (op : CmpOp) (l r : Expr) (lv rv v : Val) (σ σ1 σ2 : St)
    (hl : (evalExpr f l).run.run σ = (.ok lv, σ1)) (hr : (evalExpr f r).run.run σ1 = (.ok rv, σ2))
    (hv : evalCmp op lv rv = .ok v) :
    (evalExpr (f+1) (.cmp t op l r)).run.run σ = (.ok v, σ2) := by
  rw [evalExpr.eq_def]
  dsimp only
  rw [run_bind_ok _ _ _ _ _ hl, run_bind_ok _ _ _ _ _ hr, hv]
  rfl

/-- subtraction of two integer operands -/
theorem run_sub_int (f : Nat) (t : Tok) (l r : Expr) (a b : Int) (σ σ1 σ2 : St) (cur : Act) (rest : List Act)
    (hl : (evalExpr f l).run.run σ = (.ok (.int a), σ1)) (hr : (evalExpr f r).run.run σ1 = (.ok (.int b), σ2))
    (hacts : σ2.acts = cur :: rest) (hcomp : cur.isComp = false) :
    (evalExpr (f+1) (.arith t .sub l r)).run.run σ = (.ok (.int (wrap64 (a - b))), σ2) := by
  obtain ⟨g, hg⟩ := exists_getLast cur rest
  have hs : scopeAct.run.run σ2 = (.ok cur, σ2) := by
    unfold scopeAct
    rw [run_bind_ok _ _ _ _ _ (run_get σ2), hacts]
    simp only [List.find?, hcomp, Bool.not_false]
    rfl
  rw [evalExpr.eq_def]
  dsimp only
  rw [run_bind_ok _ _ _ _ _ hl, run_bind_ok _ _ _ _ _ hr, run_bind_ok _ _ _ _ _ hs,
    run_bind_ok _ _ _ _ _ (run_globalAct_some σ2 g (by rw [hacts]; exact hg))]
  rfl

/-- one value per parameter, each of its parameter's type after the implicit cast -/
def TypesOK : List (Str × Ty × Bool) → List Val → Prop
  | [], [] => True
  | p :: ps, v :: vs => (implicitCast p.2.1 v).ty = p.2.1 ∧ TypesOK ps vs
  | _, _ => False

theorem typesOK_of_bindVals : ∀ (ps : List (Str × Ty × Bool)) (vals : List Val) (sl : List Slot),
    vals.length = ps.length → bindVals ps vals = some sl → TypesOK ps vals := by
  intro ps
  induction ps with
  | nil =>
    intro vals sl hl _
    cases vals with
    | nil => exact True.intro
    | cons _ _ => simp at hl
  | cons p ps ih =>
    intro vals sl hl hb
    obtain ⟨pn, pty, br⟩ := p
    cases vals with
    | nil => simp at hl
    | cons v vs =>
      simp only [bindVals] at hb
      by_cases hc : (implicitCast pty v).ty = pty
      · rw [if_pos hc] at hb
        cases hb2 : bindVals ps vs with
        | none => rw [hb2] at hb; cases hb
        | some sl2 => exact ⟨hc, ih vs sl2 (by simpa using hl) hb2⟩
      · rw [if_neg hc] at hb; cases hb

end C17ExecL

open C17ExecL CallLemmas ArrayLemmas C18ExecL

/-! ## 0. the dispatcher -/

/-- **A built-in call is the registry function applied to the argument values** (`C17ExecL.run_call_builtin`, restated):
    `t` names the registered built-in `fd`; the argument expressions evaluate one after the other (`ArgsRun`: `σ → σ1`, values
    `vals`; literals and pure expressions: `σ1 = σ`). The number of values is checked first (`invalidArgs` at the call token, raised
    in the caller, state `σ1`), then the types, parameter by parameter after the implicit cast (`invalidArgs` again, state
    `σ1`); then the caller notes the call site (`markSt`) and `runBuiltin` runs on the cast values in an activation of its
    own (`builtinResult`: after a value the activation is gone and one activation number is used up). -/
theorem C17_exec_builtin (fuel f : Nat) (t : Tok) (args : List Expr) (vals : List Val) (σ σ1 : St) (cur : Act)
    (rest : List Act) (fd : FunDef)
    (hfind : builtinFuns.find? (·.name == t.val) = some fd)
    (hargs : ArgsRun f σ args vals σ1) (hfuel : f + args.length + 3 ≤ fuel) (hfuel2 : fd.params.length + 3 ≤ fuel)
    (hacts : σ1.acts = cur :: rest) (hd : σ1.depth + 1 ≤ σ1.depthLimit) :
    (evalExpr fuel (.call t args)).run.run σ =
      if vals.length ≠ fd.params.length then (.error (.diag (argsDiag t cur rest)), σ1)
      else match bindVals fd.params vals with
        | none => (.error (.diag (argsDiag t cur rest)), σ1)
        | some slots =>
          builtinResult cur.id ((runBuiltin t.val (slots.map (·.val))).run.run (calleeSt (funAct fd slots) (markSt σ1 t cur rest))) :=
  run_call_builtin fuel f t args vals σ σ1 cur rest fd hfind hargs hfuel hfuel2 hacts hd

/-- **Wrong argument COUNT or TYPE, any built-in of the registry**: whenever the values are not one per parameter, each of its
    parameter's type after the implicit cast (`TypesOK`; the casts are INTEGER → REAL, CHAR → STRING, one-character STRING →
    CHAR), the call ends in the runtime diagnostic `invalidArgs` at the call token, with the caller's frame on top of the
    trace (no activation was created); the state is as the arguments left it (the caller notes the call site only after the
    arguments are bound: no call-site mark, depth counter and activation numbers untouched). -/
theorem C17_exec_bad_args (fuel f : Nat) (t : Tok) (args : List Expr) (vals : List Val) (σ σ1 : St) (cur : Act)
    (rest : List Act) (fd : FunDef)
    (hfind : builtinFuns.find? (·.name == t.val) = some fd)
    (hargs : ArgsRun f σ args vals σ1) (hfuel : f + args.length + 3 ≤ fuel) (hfuel2 : fd.params.length + 3 ≤ fuel)
    (hacts : σ1.acts = cur :: rest) (hd : σ1.depth + 1 ≤ σ1.depthLimit)
    (hbad : ¬ TypesOK fd.params vals) :
    (evalExpr fuel (.call t args)).run.run σ =
      (.error (.diag { kind := .runtime, line := t.line, col := t.col, msg := .invalidArgs,
                       trace := { name := cur.name, line := t.line, col := t.col } :: rest.map frameOf }), σ1) := by
  rw [run_call_builtin fuel f t args vals σ σ1 cur rest fd hfind hargs hfuel hfuel2 hacts hd]
  by_cases hl : vals.length = fd.params.length
  · rw [if_neg (by simpa using hl)]
    cases hb : bindVals fd.params vals with
    | none => rfl
    | some sl => exact absurd (typesOK_of_bindVals _ _ sl hl hb) hbad
  · rw [if_pos (by simpa using hl)]
    rfl

/-- … conversely a call of a built-in that returns a value had well-typed arguments -/
theorem C17_exec_value_args_ok (fuel f : Nat) (t : Tok) (args : List Expr) (vals : List Val) (σ σ1 : St) (cur : Act)
    (rest : List Act) (fd : FunDef) (v : Val) (σ' : St)
    (hfind : builtinFuns.find? (·.name == t.val) = some fd)
    (hargs : ArgsRun f σ args vals σ1) (hfuel : f + args.length + 3 ≤ fuel) (hfuel2 : fd.params.length + 3 ≤ fuel)
    (hacts : σ1.acts = cur :: rest) (hd : σ1.depth + 1 ≤ σ1.depthLimit)
    (hrun : (evalExpr fuel (.call t args)).run.run σ = (.ok v, σ')) : TypesOK fd.params vals := by
  apply Classical.byContradiction
  intro hbad
  rw [C17_exec_bad_args fuel f t args vals σ σ1 cur rest fd hfind hargs hfuel hfuel2 hacts hd hbad] at hrun
  cases hrun

/-- **An argument that ends in an error**: the arguments before it evaluate (`σ → σ1`), it ends in `x` (`σ1 → σ'`): the call
    ends in `x`, state `σ'`; nothing is added, no activation created. -/
theorem C17_exec_arg_error (fuel f : Nat) (t : Tok) (pre : List Expr) (e : Expr) (post : List Expr) (vals : List Val)
    (σ σ1 σ' : St) (x : Stop) (fd : FunDef)
    (hfind : builtinFuns.find? (·.name == t.val) = some fd)
    (hargs : ArgsRun f σ pre vals σ1) (he : (evalExpr f e).run.run σ1 = (.error x, σ')) (hx : x ≠ .outOfFuel)
    (hfuel : f + pre.length + 4 ≤ fuel) :
    (evalExpr fuel (.call t (pre ++ e :: post))).run.run σ = (.error x, σ') := by
  obtain ⟨g, rfl⟩ : ∃ g, fuel = g + 2 := ⟨fuel - 2, by omega⟩
  rw [evalExpr_call, callFun_succ, run_bind_ok _ _ _ _ _ (run_get σ), funLookup_builtin σ _ _ hfind]
  dsimp only
  exact run_bind_err _ _ _ _ _ (run_evalArgs_err f pre vals e post [] g σ σ1 σ' x hargs he hx (by omega))

/-! ## 1. LENGTH, LEFT, RIGHT, MID

In all theorems below the argument expressions are ANY expressions that evaluate (with fuel `f`, one after the other, `σ → σ1 → …`)
to values of the parameter types; literals and pure expressions (`PureAt`) are the case `σ = σ1 = …`
(`C17ExecL.pureAt_strLit`, `pureAt_charLit`, `pureAt_realLit`, `ArrayLemmas.pureAt_intLit`, `CallLemmas.pureAt_var`).
`cur :: rest` is the activation stack after the arguments; `cur.switchTok = none`: the caller is not itself suspended in a
call. A value leaves `{ σ' with nextId := σ'.nextId + 1 }`; a refusal is `outcome`'s second case:
the diagnostic `refusal name m t cur rest` (position 0,0; trace: the built-in (0,0), the caller at the call token, …) and the
state `refusedSt σ' t cur rest`. -/

theorem C17_exec_length (fuel f : Nat) (t : Tok) (e : Expr) (s : Str) (σ σ' : St) (cur : Act) (rest : List Act)
    (hfuel : f + 4 ≤ fuel) (hname : t.val = "LENGTH".toList)
    (he : (evalExpr f e).run.run σ = (.ok (.str s), σ'))
    (hacts : σ'.acts = cur :: rest) (hsw : cur.switchTok = none) (hd : σ'.depth + 1 ≤ σ'.depthLimit) :
    (evalExpr fuel (.call t [e])).run.run σ = (.ok (.int s.length), { σ' with nextId := σ'.nextId + 1 }) :=
  run_call1 "LENGTH" "String" .str .int find_length fuel f t e (.str s) σ σ' cur rest _ hfuel hname he hacts hsw hd rfl
    (core_length s)

/-- **LEFT(s, n)** is `bLeft s n` (`Properties/C17.lean`): the value, or the refusal `strRange` -/
theorem C17_exec_left (fuel f : Nat) (t : Tok) (e1 e2 : Expr) (s : Str) (n : Int) (σ σ1 σ2 : St) (cur : Act) (rest : List Act)
    (hfuel : f + 5 ≤ fuel) (hname : t.val = "LEFT".toList)
    (he1 : (evalExpr f e1).run.run σ = (.ok (.str s), σ1)) (he2 : (evalExpr f e2).run.run σ1 = (.ok (.int n), σ2))
    (hacts : σ2.acts = cur :: rest) (hsw : cur.switchTok = none) (hd : σ2.depth + 1 ≤ σ2.depthLimit) :
    (evalExpr fuel (.call t [e1, e2])).run.run σ = outcome "LEFT".toList t σ2 cur rest ((bLeft s n).map .str) :=
  run_call2 "LEFT" "String" .str "x" .int .str find_left fuel f t e1 e2 (.str s) (.int n) σ σ1 σ2 cur rest _ hfuel hname he1 he2
    hacts hsw hd rfl rfl (core_left s n)

/-- … `0 ≤ n ≤ |s|`: exactly the first `n` characters (`C17_left`) -/
theorem C17_exec_left_in_range (fuel f : Nat) (t : Tok) (e1 e2 : Expr) (s : Str) (n : Nat) (σ σ1 σ2 : St) (cur : Act)
    (rest : List Act)
    (hfuel : f + 5 ≤ fuel) (hname : t.val = "LEFT".toList)
    (he1 : (evalExpr f e1).run.run σ = (.ok (.str s), σ1)) (he2 : (evalExpr f e2).run.run σ1 = (.ok (.int n), σ2))
    (hacts : σ2.acts = cur :: rest) (hsw : cur.switchTok = none) (hd : σ2.depth + 1 ≤ σ2.depthLimit)
    (hn : n ≤ s.length) :
    (evalExpr fuel (.call t [e1, e2])).run.run σ = (.ok (.str (s.take n)), { σ2 with nextId := σ2.nextId + 1 }) := by
  rw [C17_exec_left fuel f t e1 e2 s n σ σ1 σ2 cur rest hfuel hname he1 he2 hacts hsw hd, C17_left s n hn]
  rfl

/-- … `n < 0` or `n > |s|`: the runtime diagnostic `strRange`, raised inside the activation of the built-in -/
theorem C17_exec_left_out_of_range (fuel f : Nat) (t : Tok) (e1 e2 : Expr) (s : Str) (n : Int) (σ σ1 σ2 : St) (cur : Act)
    (rest : List Act)
    (hfuel : f + 5 ≤ fuel) (hname : t.val = "LEFT".toList)
    (he1 : (evalExpr f e1).run.run σ = (.ok (.str s), σ1)) (he2 : (evalExpr f e2).run.run σ1 = (.ok (.int n), σ2))
    (hacts : σ2.acts = cur :: rest) (hsw : cur.switchTok = none) (hd : σ2.depth + 1 ≤ σ2.depthLimit)
    (hn : n < 0 ∨ n > s.length) :
    (evalExpr fuel (.call t [e1, e2])).run.run σ =
      (.error (.diag { kind := .runtime, line := 0, col := 0, msg := .strRange,
                       trace := { name := "LEFT".toList, line := 0, col := 0 } ::
                                { name := cur.name, line := t.line, col := t.col } :: rest.map frameOf }),
       { σ2 with nextId := σ2.nextId + 1, depth := σ2.depth + 1,
                 acts := { cur with switchTok := some (t.line, t.col) } :: rest }) := by
  rw [C17_exec_left fuel f t e1 e2 s n σ σ1 σ2 cur rest hfuel hname he1 he2 hacts hsw hd, bLeft_eq, if_neg (by omega)]
  rfl

/-- **RIGHT(s, n)** is `bRight s n` -/
theorem C17_exec_right (fuel f : Nat) (t : Tok) (e1 e2 : Expr) (s : Str) (n : Int) (σ σ1 σ2 : St) (cur : Act) (rest : List Act)
    (hfuel : f + 5 ≤ fuel) (hname : t.val = "RIGHT".toList)
    (he1 : (evalExpr f e1).run.run σ = (.ok (.str s), σ1)) (he2 : (evalExpr f e2).run.run σ1 = (.ok (.int n), σ2))
    (hacts : σ2.acts = cur :: rest) (hsw : cur.switchTok = none) (hd : σ2.depth + 1 ≤ σ2.depthLimit) :
    (evalExpr fuel (.call t [e1, e2])).run.run σ = outcome "RIGHT".toList t σ2 cur rest ((bRight s n).map .str) :=
  run_call2 "RIGHT" "String" .str "x" .int .str find_right fuel f t e1 e2 (.str s) (.int n) σ σ1 σ2 cur rest _ hfuel hname he1 he2
    hacts hsw hd rfl rfl (core_right s n)

/-- … `0 ≤ n ≤ |s|`: exactly the last `n` characters (`C17_right`) -/
theorem C17_exec_right_in_range (fuel f : Nat) (t : Tok) (e1 e2 : Expr) (s : Str) (n : Nat) (σ σ1 σ2 : St) (cur : Act)
    (rest : List Act)
    (hfuel : f + 5 ≤ fuel) (hname : t.val = "RIGHT".toList)
    (he1 : (evalExpr f e1).run.run σ = (.ok (.str s), σ1)) (he2 : (evalExpr f e2).run.run σ1 = (.ok (.int n), σ2))
    (hacts : σ2.acts = cur :: rest) (hsw : cur.switchTok = none) (hd : σ2.depth + 1 ≤ σ2.depthLimit)
    (hn : n ≤ s.length) :
    (evalExpr fuel (.call t [e1, e2])).run.run σ =
      (.ok (.str (s.drop (s.length - n))), { σ2 with nextId := σ2.nextId + 1 }) := by
  rw [C17_exec_right fuel f t e1 e2 s n σ σ1 σ2 cur rest hfuel hname he1 he2 hacts hsw hd, C17_right s n hn]
  rfl

theorem C17_exec_right_out_of_range (fuel f : Nat) (t : Tok) (e1 e2 : Expr) (s : Str) (n : Int) (σ σ1 σ2 : St) (cur : Act)
    (rest : List Act)
    (hfuel : f + 5 ≤ fuel) (hname : t.val = "RIGHT".toList)
    (he1 : (evalExpr f e1).run.run σ = (.ok (.str s), σ1)) (he2 : (evalExpr f e2).run.run σ1 = (.ok (.int n), σ2))
    (hacts : σ2.acts = cur :: rest) (hsw : cur.switchTok = none) (hd : σ2.depth + 1 ≤ σ2.depthLimit)
    (hn : n < 0 ∨ n > s.length) :
    (evalExpr fuel (.call t [e1, e2])).run.run σ =
      (.error (.diag { kind := .runtime, line := 0, col := 0, msg := .strRange,
                       trace := { name := "RIGHT".toList, line := 0, col := 0 } ::
                                { name := cur.name, line := t.line, col := t.col } :: rest.map frameOf }),
       { σ2 with nextId := σ2.nextId + 1, depth := σ2.depth + 1,
                 acts := { cur with switchTok := some (t.line, t.col) } :: rest }) := by
  rw [C17_exec_right fuel f t e1 e2 s n σ σ1 σ2 cur rest hfuel hname he1 he2 hacts hsw hd, bRight_eq, if_neg (by omega)]
  rfl

/-- **MID(s, i, n)** is `bMid s i n` -/
theorem C17_exec_mid (fuel f : Nat) (t : Tok) (e1 e2 e3 : Expr) (s : Str) (i n : Int) (σ σ1 σ2 σ3 : St) (cur : Act)
    (rest : List Act)
    (hfuel : f + 6 ≤ fuel) (hname : t.val = "MID".toList)
    (he1 : (evalExpr f e1).run.run σ = (.ok (.str s), σ1)) (he2 : (evalExpr f e2).run.run σ1 = (.ok (.int i), σ2))
    (he3 : (evalExpr f e3).run.run σ2 = (.ok (.int n), σ3))
    (hacts : σ3.acts = cur :: rest) (hsw : cur.switchTok = none) (hd : σ3.depth + 1 ≤ σ3.depthLimit) :
    (evalExpr fuel (.call t [e1, e2, e3])).run.run σ = outcome "MID".toList t σ3 cur rest ((bMid s i n).map .str) :=
  run_call_mid fuel f t e1 e2 e3 s i n σ σ1 σ2 σ3 cur rest hfuel hname he1 he2 he3 hacts hsw hd

/-- … characters `i … i+n-1`, positions from 1 (`C17_mid`) -/
theorem C17_exec_mid_in_range (fuel f : Nat) (t : Tok) (e1 e2 e3 : Expr) (s : Str) (i n : Nat) (σ σ1 σ2 σ3 : St) (cur : Act)
    (rest : List Act)
    (hfuel : f + 6 ≤ fuel) (hname : t.val = "MID".toList)
    (he1 : (evalExpr f e1).run.run σ = (.ok (.str s), σ1)) (he2 : (evalExpr f e2).run.run σ1 = (.ok (.int i), σ2))
    (he3 : (evalExpr f e3).run.run σ2 = (.ok (.int n), σ3))
    (hacts : σ3.acts = cur :: rest) (hsw : cur.switchTok = none) (hd : σ3.depth + 1 ≤ σ3.depthLimit)
    (hlen : (s.length : Int) < two63) (hi1 : 1 ≤ i) (hi : i ≤ s.length) (hn : i - 1 + n ≤ s.length) :
    (evalExpr fuel (.call t [e1, e2, e3])).run.run σ =
      (.ok (.str ((s.drop (i - 1)).take n)), { σ3 with nextId := σ3.nextId + 1 }) := by
  rw [C17_exec_mid fuel f t e1 e2 e3 s i n σ σ1 σ2 σ3 cur rest hfuel hname he1 he2 he3 hacts hsw hd, C17_mid s i n hlen hi1 hi hn]
  rfl

/-- **MID is defined exactly for `1 ≤ i ≤ |s|`, `0 ≤ n`, `i - 1 + n ≤ |s|`** (arguments 64-bit integers, `|s| < 2^63`): then the
    value is characters `i … i+n-1`; for every other argument the run ends in the runtime diagnostic `strRange`. Note
    `i ≤ |s|` also when `n = 0`: `MID(s, |s|+1, 0)` and `MID("", 1, 0)` are refused. -/
theorem C17_exec_mid_range (fuel f : Nat) (t : Tok) (e1 e2 e3 : Expr) (s : Str) (i n : Int) (σ σ1 σ2 σ3 : St) (cur : Act)
    (rest : List Act)
    (hfuel : f + 6 ≤ fuel) (hname : t.val = "MID".toList)
    (he1 : (evalExpr f e1).run.run σ = (.ok (.str s), σ1)) (he2 : (evalExpr f e2).run.run σ1 = (.ok (.int i), σ2))
    (he3 : (evalExpr f e3).run.run σ2 = (.ok (.int n), σ3))
    (hacts : σ3.acts = cur :: rest) (hsw : cur.switchTok = none) (hd : σ3.depth + 1 ≤ σ3.depthLimit)
    (hlen : (s.length : Int) < two63) (hi : InRange64 i) (hn : InRange64 n) :
    (evalExpr fuel (.call t [e1, e2, e3])).run.run σ =
      if 1 ≤ i ∧ i ≤ s.length ∧ 0 ≤ n ∧ i - 1 + n ≤ s.length then
        (.ok (.str ((s.drop (i - 1).toNat).take n.toNat)), { σ3 with nextId := σ3.nextId + 1 })
      else
        (.error (.diag { kind := .runtime, line := 0, col := 0, msg := .strRange,
                         trace := { name := "MID".toList, line := 0, col := 0 } ::
                                  { name := cur.name, line := t.line, col := t.col } :: rest.map frameOf }),
         { σ3 with nextId := σ3.nextId + 1, depth := σ3.depth + 1,
                   acts := { cur with switchTok := some (t.line, t.col) } :: rest }) := by
  rw [C17_exec_mid fuel f t e1 e2 e3 s i n σ σ1 σ2 σ3 cur rest hfuel hname he1 he2 he3 hacts hsw hd, bMid_eq s i n hlen hi hn]
  split <;> rfl

/-- … as an equivalence: the call returns a value iff the arguments are in range -/
theorem C17_exec_mid_defined_iff (fuel f : Nat) (t : Tok) (e1 e2 e3 : Expr) (s : Str) (i n : Int) (σ σ1 σ2 σ3 : St) (cur : Act)
    (rest : List Act)
    (hfuel : f + 6 ≤ fuel) (hname : t.val = "MID".toList)
    (he1 : (evalExpr f e1).run.run σ = (.ok (.str s), σ1)) (he2 : (evalExpr f e2).run.run σ1 = (.ok (.int i), σ2))
    (he3 : (evalExpr f e3).run.run σ2 = (.ok (.int n), σ3))
    (hacts : σ3.acts = cur :: rest) (hsw : cur.switchTok = none) (hd : σ3.depth + 1 ≤ σ3.depthLimit)
    (hlen : (s.length : Int) < two63) (hi : InRange64 i) (hn : InRange64 n) :
    (∃ v σ', (evalExpr fuel (.call t [e1, e2, e3])).run.run σ = (.ok v, σ')) ↔
      (1 ≤ i ∧ i ≤ s.length ∧ 0 ≤ n ∧ i - 1 + n ≤ s.length) := by
  rw [C17_exec_mid_range fuel f t e1 e2 e3 s i n σ σ1 σ2 σ3 cur rest hfuel hname he1 he2 he3 hacts hsw hd hlen hi hn]
  constructor
  · intro ⟨v, σ', h⟩
    apply Classical.byContradiction
    intro hc
    rw [if_neg hc] at h
    cases h
  · intro hc
    rw [if_pos hc]
    exact ⟨_, _, rfl⟩

/-! ## 2. the case functions, ASC, CHR -/

/-- **UCASE(c)** is `toUpperC c` (`C17_case`: exactly a–z change) -/
theorem C17_exec_ucase (fuel f : Nat) (t : Tok) (e : Expr) (c : Char) (σ σ' : St) (cur : Act) (rest : List Act)
    (hfuel : f + 4 ≤ fuel) (hname : t.val = "UCASE".toList)
    (he : (evalExpr f e).run.run σ = (.ok (.chr c), σ'))
    (hacts : σ'.acts = cur :: rest) (hsw : cur.switchTok = none) (hd : σ'.depth + 1 ≤ σ'.depthLimit) :
    (evalExpr fuel (.call t [e])).run.run σ = (.ok (.chr (toUpperC c)), { σ' with nextId := σ'.nextId + 1 }) :=
  run_call1 "UCASE" "Char" .chr .chr find_ucase fuel f t e (.chr c) σ σ' cur rest _ hfuel hname he hacts hsw hd rfl
    (core_ucase c)

/-- **LCASE(c)** is `toLowerC c` (`C17_case`: exactly A–Z change) -/
theorem C17_exec_lcase (fuel f : Nat) (t : Tok) (e : Expr) (c : Char) (σ σ' : St) (cur : Act) (rest : List Act)
    (hfuel : f + 4 ≤ fuel) (hname : t.val = "LCASE".toList)
    (he : (evalExpr f e).run.run σ = (.ok (.chr c), σ'))
    (hacts : σ'.acts = cur :: rest) (hsw : cur.switchTok = none) (hd : σ'.depth + 1 ≤ σ'.depthLimit) :
    (evalExpr fuel (.call t [e])).run.run σ = (.ok (.chr (toLowerC c)), { σ' with nextId := σ'.nextId + 1 }) :=
  run_call1 "LCASE" "Char" .chr .chr find_lcase fuel f t e (.chr c) σ σ' cur rest _ hfuel hname he hacts hsw hd rfl
    (core_lcase c)

/-- **TO_UPPER(s)**: `toUpperC` on every character -/
theorem C17_exec_to_upper (fuel f : Nat) (t : Tok) (e : Expr) (s : Str) (σ σ' : St) (cur : Act) (rest : List Act)
    (hfuel : f + 4 ≤ fuel) (hname : t.val = "TO_UPPER".toList)
    (he : (evalExpr f e).run.run σ = (.ok (.str s), σ'))
    (hacts : σ'.acts = cur :: rest) (hsw : cur.switchTok = none) (hd : σ'.depth + 1 ≤ σ'.depthLimit) :
    (evalExpr fuel (.call t [e])).run.run σ = (.ok (.str (s.map toUpperC)), { σ' with nextId := σ'.nextId + 1 }) :=
  run_call1 "TO_UPPER" "String" .str .str find_to_upper fuel f t e (.str s) σ σ' cur rest _ hfuel hname he hacts hsw hd rfl
    (core_to_upper s)

/-- **TO_LOWER(s)**: `toLowerC` on every character -/
theorem C17_exec_to_lower (fuel f : Nat) (t : Tok) (e : Expr) (s : Str) (σ σ' : St) (cur : Act) (rest : List Act)
    (hfuel : f + 4 ≤ fuel) (hname : t.val = "TO_LOWER".toList)
    (he : (evalExpr f e).run.run σ = (.ok (.str s), σ'))
    (hacts : σ'.acts = cur :: rest) (hsw : cur.switchTok = none) (hd : σ'.depth + 1 ≤ σ'.depthLimit) :
    (evalExpr fuel (.call t [e])).run.run σ = (.ok (.str (s.map toLowerC)), { σ' with nextId := σ'.nextId + 1 }) :=
  run_call1 "TO_LOWER" "String" .str .str find_to_lower fuel f t e (.str s) σ σ' cur rest _ hfuel hname he hacts hsw hd rfl
    (core_to_lower s)

/-- **ASC(c)**: the (sign-extended) byte -/
theorem C17_exec_asc (fuel f : Nat) (t : Tok) (e : Expr) (c : Char) (σ σ' : St) (cur : Act) (rest : List Act)
    (hfuel : f + 4 ≤ fuel) (hname : t.val = "ASC".toList)
    (he : (evalExpr f e).run.run σ = (.ok (.chr c), σ'))
    (hacts : σ'.acts = cur :: rest) (hsw : cur.switchTok = none) (hd : σ'.depth + 1 ≤ σ'.depthLimit) :
    (evalExpr fuel (.call t [e])).run.run σ = (.ok (.int (intOfByte c)), { σ' with nextId := σ'.nextId + 1 }) :=
  run_call1 "ASC" "Char" .chr .int find_asc fuel f t e (.chr c) σ σ' cur rest _ hfuel hname he hacts hsw hd rfl
    (core_asc c)

/-- **CHR(n)**: the byte `n mod 256`; total, no range error -/
theorem C17_exec_chr (fuel f : Nat) (t : Tok) (e : Expr) (n : Int) (σ σ' : St) (cur : Act) (rest : List Act)
    (hfuel : f + 4 ≤ fuel) (hname : t.val = "CHR".toList)
    (he : (evalExpr f e).run.run σ = (.ok (.int n), σ'))
    (hacts : σ'.acts = cur :: rest) (hsw : cur.switchTok = none) (hd : σ'.depth + 1 ≤ σ'.depthLimit) :
    (evalExpr fuel (.call t [e])).run.run σ = (.ok (.chr (byteOfInt n)), { σ' with nextId := σ'.nextId + 1 }) :=
  run_call1 "CHR" "x" .int .chr find_chr fuel f t e (.int n) σ σ' cur rest _ hfuel hname he hacts hsw hd rfl
    (core_chr n)

/-- the case functions spelt out (`C17_case`) -/
theorem C17_exec_ucase_spec (fuel f : Nat) (t : Tok) (e : Expr) (c : Char) (σ σ' : St) (cur : Act) (rest : List Act)
    (hfuel : f + 4 ≤ fuel) (hname : t.val = "UCASE".toList)
    (he : (evalExpr f e).run.run σ = (.ok (.chr c), σ'))
    (hacts : σ'.acts = cur :: rest) (hsw : cur.switchTok = none) (hd : σ'.depth + 1 ≤ σ'.depthLimit) :
    (evalExpr fuel (.call t [e])).run.run σ =
      (.ok (.chr (if isLower c then Char.ofNat (c.toNat - 32) else c)), { σ' with nextId := σ'.nextId + 1 }) :=
  C17_exec_ucase fuel f t e c σ σ' cur rest hfuel hname he hacts hsw hd

theorem C17_exec_lcase_spec (fuel f : Nat) (t : Tok) (e : Expr) (c : Char) (σ σ' : St) (cur : Act) (rest : List Act)
    (hfuel : f + 4 ≤ fuel) (hname : t.val = "LCASE".toList)
    (he : (evalExpr f e).run.run σ = (.ok (.chr c), σ'))
    (hacts : σ'.acts = cur :: rest) (hsw : cur.switchTok = none) (hd : σ'.depth + 1 ≤ σ'.depthLimit) :
    (evalExpr fuel (.call t [e])).run.run σ =
      (.ok (.chr (if isUpper c then Char.ofNat (c.toNat + 32) else c)), { σ' with nextId := σ'.nextId + 1 }) :=
  C17_exec_lcase fuel f t e c σ σ' cur rest hfuel hname he hacts hsw hd

/-! ## 3. IS_NUM, STR_TO_NUM, NUM_TO_STR, INT -/

/-- **IS_NUM(s)** is `bIsNum s` -/
theorem C17_exec_is_num (fuel f : Nat) (t : Tok) (e : Expr) (s : Str) (σ σ' : St) (cur : Act) (rest : List Act)
    (hfuel : f + 4 ≤ fuel) (hname : t.val = "IS_NUM".toList)
    (he : (evalExpr f e).run.run σ = (.ok (.str s), σ'))
    (hacts : σ'.acts = cur :: rest) (hsw : cur.switchTok = none) (hd : σ'.depth + 1 ≤ σ'.depthLimit) :
    (evalExpr fuel (.call t [e])).run.run σ = (.ok (.bool (bIsNum s)), { σ' with nextId := σ'.nextId + 1 }) :=
  run_call1 "IS_NUM" "String" .str .bool find_is_num fuel f t e (.str s) σ σ' cur rest _ hfuel hname he hacts hsw hd rfl
    (core_is_num s)

/-- **STR_TO_NUM(s)** is `strToReal s` (full-match `strtod`, 0 otherwise) -/
theorem C17_exec_str_to_num (fuel f : Nat) (t : Tok) (e : Expr) (s : Str) (σ σ' : St) (cur : Act) (rest : List Act)
    (hfuel : f + 4 ≤ fuel) (hname : t.val = "STR_TO_NUM".toList)
    (he : (evalExpr f e).run.run σ = (.ok (.str s), σ'))
    (hacts : σ'.acts = cur :: rest) (hsw : cur.switchTok = none) (hd : σ'.depth + 1 ≤ σ'.depthLimit) :
    (evalExpr fuel (.call t [e])).run.run σ = (.ok (.real (strToReal s)), { σ' with nextId := σ'.nextId + 1 }) :=
  run_call1 "STR_TO_NUM" "String" .str .real find_str_to_num fuel f t e (.str s) σ σ' cur rest _ hfuel hname he hacts hsw hd rfl
    (core_str_to_num s)

/-- **NUM_TO_STR(x)** is `realToString x` -/
theorem C17_exec_num_to_str (fuel f : Nat) (t : Tok) (e : Expr) (x : Float) (σ σ' : St) (cur : Act) (rest : List Act)
    (hfuel : f + 4 ≤ fuel) (hname : t.val = "NUM_TO_STR".toList)
    (he : (evalExpr f e).run.run σ = (.ok (.real x), σ'))
    (hacts : σ'.acts = cur :: rest) (hsw : cur.switchTok = none) (hd : σ'.depth + 1 ≤ σ'.depthLimit) :
    (evalExpr fuel (.call t [e])).run.run σ = (.ok (.str (realToString x)), { σ' with nextId := σ'.nextId + 1 }) :=
  run_call1 "NUM_TO_STR" "x" .real .str find_num_to_str fuel f t e (.real x) σ σ' cur rest _ hfuel hname he hacts hsw hd rfl
    (core_num_to_str x)

/-- **INT(x)** is `bInt x` (floor, then conversion to a 64-bit integer) -/
theorem C17_exec_int (fuel f : Nat) (t : Tok) (e : Expr) (x : Float) (σ σ' : St) (cur : Act) (rest : List Act)
    (hfuel : f + 4 ≤ fuel) (hname : t.val = "INT".toList)
    (he : (evalExpr f e).run.run σ = (.ok (.real x), σ'))
    (hacts : σ'.acts = cur :: rest) (hsw : cur.switchTok = none) (hd : σ'.depth + 1 ≤ σ'.depthLimit) :
    (evalExpr fuel (.call t [e])).run.run σ = (.ok (.int (bInt x)), { σ' with nextId := σ'.nextId + 1 }) :=
  run_call1 "INT" "x" .real .int find_int fuel f t e (.real x) σ σ' cur rest _ hfuel hname he hacts hsw hd rfl
    (core_int x)

/-- the REAL parameters take an INTEGER argument through the implicit cast: `NUM_TO_STR(k)`, `INT(k)` -/
theorem C17_exec_num_to_str_int (fuel f : Nat) (t : Tok) (e : Expr) (k : Int) (σ σ' : St) (cur : Act) (rest : List Act)
    (hfuel : f + 4 ≤ fuel) (hname : t.val = "NUM_TO_STR".toList)
    (he : (evalExpr f e).run.run σ = (.ok (.int k), σ'))
    (hacts : σ'.acts = cur :: rest) (hsw : cur.switchTok = none) (hd : σ'.depth + 1 ≤ σ'.depthLimit) :
    (evalExpr fuel (.call t [e])).run.run σ =
      (.ok (.str (realToString (FloatFmt.floatOfInt k))), { σ' with nextId := σ'.nextId + 1 }) :=
  run_call1 "NUM_TO_STR" "x" .real .str find_num_to_str fuel f t e (.int k) σ σ' cur rest _ hfuel hname he hacts hsw hd rfl
    (core_num_to_str (FloatFmt.floatOfInt k))

theorem C17_exec_int_int (fuel f : Nat) (t : Tok) (e : Expr) (k : Int) (σ σ' : St) (cur : Act) (rest : List Act)
    (hfuel : f + 4 ≤ fuel) (hname : t.val = "INT".toList)
    (he : (evalExpr f e).run.run σ = (.ok (.int k), σ'))
    (hacts : σ'.acts = cur :: rest) (hsw : cur.switchTok = none) (hd : σ'.depth + 1 ≤ σ'.depthLimit) :
    (evalExpr fuel (.call t [e])).run.run σ =
      (.ok (.int (bInt (FloatFmt.floatOfInt k))), { σ' with nextId := σ'.nextId + 1 }) :=
  run_call1 "INT" "x" .real .int find_int fuel f t e (.int k) σ σ' cur rest _ hfuel hname he hacts hsw hd rfl
    (core_int (FloatFmt.floatOfInt k))

/-- the other implicit casts: `LENGTH('c')` is 1 (CHAR → STRING), `ASC("c")` is `ASC('c')` (one-character STRING → CHAR) -/
theorem C17_exec_length_char (fuel f : Nat) (t : Tok) (e : Expr) (c : Char) (σ σ' : St) (cur : Act) (rest : List Act)
    (hfuel : f + 4 ≤ fuel) (hname : t.val = "LENGTH".toList)
    (he : (evalExpr f e).run.run σ = (.ok (.chr c), σ'))
    (hacts : σ'.acts = cur :: rest) (hsw : cur.switchTok = none) (hd : σ'.depth + 1 ≤ σ'.depthLimit) :
    (evalExpr fuel (.call t [e])).run.run σ = (.ok (.int 1), { σ' with nextId := σ'.nextId + 1 }) :=
  run_call1 "LENGTH" "String" .str .int find_length fuel f t e (.chr c) σ σ' cur rest _ hfuel hname he hacts hsw hd rfl
    (core_length [c])

theorem C17_exec_asc_string (fuel f : Nat) (t : Tok) (e : Expr) (c : Char) (σ σ' : St) (cur : Act) (rest : List Act)
    (hfuel : f + 4 ≤ fuel) (hname : t.val = "ASC".toList)
    (he : (evalExpr f e).run.run σ = (.ok (.str [c]), σ'))
    (hacts : σ'.acts = cur :: rest) (hsw : cur.switchTok = none) (hd : σ'.depth + 1 ≤ σ'.depthLimit) :
    (evalExpr fuel (.call t [e])).run.run σ = (.ok (.int (intOfByte c)), { σ' with nextId := σ'.nextId + 1 }) :=
  run_call1 "ASC" "Char" .chr .int find_asc fuel f t e (.str [c]) σ σ' cur rest _ hfuel hname he hacts hsw hd rfl
    (core_asc c)

/-- **IS_NUM accepts every string of decimal digits with at most one point** (`C17_digits_accepted`) -/
theorem C17_exec_is_num_digits (fuel f : Nat) (t : Tok) (e : Expr) (a b : Str) (σ σ' : St) (cur : Act) (rest : List Act)
    (hfuel : f + 4 ≤ fuel) (hname : t.val = "IS_NUM".toList)
    (hacts : σ'.acts = cur :: rest) (hsw : cur.switchTok = none) (hd : σ'.depth + 1 ≤ σ'.depthLimit)
    (ha : ∀ c ∈ a, isDigit c = true) (hb : ∀ c ∈ b, isDigit c = true) :
    ((evalExpr f e).run.run σ = (.ok (.str a), σ') →
      (evalExpr fuel (.call t [e])).run.run σ = (.ok (.bool true), { σ' with nextId := σ'.nextId + 1 })) ∧
    ((evalExpr f e).run.run σ = (.ok (.str (a ++ '.' :: b)), σ') →
      (evalExpr fuel (.call t [e])).run.run σ = (.ok (.bool true), { σ' with nextId := σ'.nextId + 1 })) := by
  obtain ⟨h1, h2⟩ := C17_digits_accepted a b ha hb
  constructor
  · intro he
    rw [C17_exec_is_num fuel f t e a σ σ' cur rest hfuel hname he hacts hsw hd, h1]
  · intro he
    rw [C17_exec_is_num fuel f t e _ σ σ' cur rest hfuel hname he hacts hsw hd, h2]

/-- **STR_TO_NUM of a digit string** is the correctly rounded value of the number (`C17_real_of_digits`) -/
theorem C17_exec_str_to_num_digits (fuel f : Nat) (t : Tok) (e : Expr) (ds : Str) (σ σ' : St) (cur : Act) (rest : List Act)
    (hfuel : f + 4 ≤ fuel) (hname : t.val = "STR_TO_NUM".toList)
    (he : (evalExpr f e).run.run σ = (.ok (.str ds), σ'))
    (hacts : σ'.acts = cur :: rest) (hsw : cur.switchTok = none) (hd : σ'.depth + 1 ≤ σ'.depthLimit)
    (hne : ds ≠ []) (hdig : ∀ c ∈ ds, isDigit c = true) (hlen : ds.length ≤ 310) :
    (evalExpr fuel (.call t [e])).run.run σ =
      (.ok (.real (FloatFmt.floatOfInt (digitsVal ds))), { σ' with nextId := σ'.nextId + 1 }) := by
  rw [C17_exec_str_to_num fuel f t e ds σ σ' cur rest hfuel hname he hacts hsw hd, C17_real_of_digits ds hne hdig hlen]

/-! ## 4. the property-level corollaries -/

/-- **ASC(CHR(n)) = n** for `0 ≤ n ≤ 127` (`C17_asc_chr` on the evaluator): two built-in calls, two activation numbers -/
theorem C17_exec_asc_chr (fuel f : Nat) (ta tc : Tok) (e : Expr) (n : Int) (σ σ' : St) (cur : Act) (rest : List Act)
    (hfuel : f + 8 ≤ fuel) (haname : ta.val = "ASC".toList) (hcname : tc.val = "CHR".toList)
    (he : (evalExpr f e).run.run σ = (.ok (.int n), σ'))
    (hacts : σ'.acts = cur :: rest) (hsw : cur.switchTok = none) (hd : σ'.depth + 1 ≤ σ'.depthLimit)
    (h0 : 0 ≤ n) (h1 : n ≤ 127) :
    (evalExpr fuel (.call ta [.call tc [e]])).run.run σ = (.ok (.int n), { σ' with nextId := σ'.nextId + 2 }) := by
  have hc := C17_exec_chr (f+4) f tc e n σ σ' cur rest (Nat.le_refl _) hcname he hacts hsw hd
  have ha := C17_exec_asc fuel (f+4) ta (.call tc [e]) (byteOfInt n) σ { σ' with nextId := σ'.nextId + 1 } cur rest
    (by omega) haname hc hacts hsw hd
  rw [C17_asc_chr n h0 h1] at ha
  exact ha

/-- the expression `LEFT(s, n) & RIGHT(s, LENGTH(s) - n) = s` on literals `s`, `n` -/
def C17_identityExpr (teq tamp tl tr tlen tminus ts1 ts2 ts3 ts4 tn1 tn2 : Tok) (s : Str) (n : Int) : Expr :=
  .cmp teq .eq
    (.concat tamp (.call tl [.strLit ts1 s, .intLit tn1 n])
                  (.call tr [.strLit ts2 s, .arith tminus .sub (.call tlen [.strLit ts3 s]) (.intLit tn2 n)]))
    (.strLit ts4 s)

/-- **`LEFT(s, n) & RIGHT(s, LENGTH(s) - n) = s` evaluates to TRUE for every `0 ≤ n ≤ |s|`** (`C17_left_right` on the
    evaluator; `|s| < 2^63`; the current activation is not a record context). Three built-in calls: three activation numbers. -/
theorem C17_exec_left_right_identity (fuel : Nat) (teq tamp tl tr tlen tminus ts1 ts2 ts3 ts4 tn1 tn2 : Tok) (s : Str) (n : Nat)
    (σ : St) (cur : Act) (rest : List Act)
    (hfuel : 13 ≤ fuel) (hl : tl.val = "LEFT".toList) (hr : tr.val = "RIGHT".toList) (hlen : tlen.val = "LENGTH".toList)
    (hacts : σ.acts = cur :: rest) (hsw : cur.switchTok = none) (hcomp : cur.isComp = false)
    (hd : σ.depth + 1 ≤ σ.depthLimit) (hn : n ≤ s.length) (hs : (s.length : Int) < two63) :
    (evalExpr fuel (C17_identityExpr teq tamp tl tr tlen tminus ts1 ts2 ts3 ts4 tn1 tn2 s n)).run.run σ =
      (.ok (.bool true), { σ with nextId := σ.nextId + 3 }) := by
  unfold C17_identityExpr
  have hL := C17_exec_left_in_range 11 1 tl (.strLit ts1 s) (.intLit tn1 n) s n σ σ σ cur rest (by omega) hl
    (pureAt_strLit σ ts1 s 1 (Nat.le_refl _)) (pureAt_intLit σ tn1 n 1 (Nat.le_refl _)) hacts hsw hd hn
  let σ1 : St := { σ with nextId := σ.nextId + 1 }
  have hLen := C17_exec_length 5 1 tlen (.strLit ts3 s) s σ1 σ1 cur rest (by omega) hlen
    (pureAt_strLit σ1 ts3 s 1 (Nat.le_refl _)) hacts hsw hd
  let σ2 : St := { σ with nextId := σ.nextId + 2 }
  have hSub := run_sub_int 5 tminus (.call tlen [.strLit ts3 s]) (.intLit tn2 n) s.length n σ1 σ2 σ2 cur rest hLen
    (pureAt_intLit σ2 tn2 n 5 (by omega)) hacts hcomp
  have hw : wrap64 ((s.length : Int) - (n : Int)) = ((s.length - n : Nat) : Int) := by
    unfold wrap64 two63 two64 at *; omega
  rw [hw] at hSub
  have hR := C17_exec_right_in_range 11 6 tr (.strLit ts2 s) _ s (s.length - n) σ1 σ1 σ2 cur rest (by omega) hr
    (pureAt_strLit σ1 ts2 s 6 (by omega)) hSub hacts hsw hd (by omega)
  have hC := run_concat 11 tamp _ _ _ _ _ σ σ1 _ hL hR (evalConcat_str _ _)
  have hE := run_cmp 12 teq .eq _ (.strLit ts4 s) _ _ _ σ _ _ hC (pureAt_strLit _ ts4 s 12 (by omega)) (evalCmp_eq_str _ _)
  have hid : (s.take n ++ s.drop (s.length - (s.length - n)) == s) = true := by
    have : s.length - (s.length - n) = n := by omega
    rw [this, List.take_append_drop]
    exact beq_self_eq_true s
  rw [hid] at hE
  exact evalExpr_fuel_mono _ 13 fuel hfuel σ _ _ hE (fun h => nomatch h)

/-! ## non-vacuity: concrete runs, checked by the kernel -/

namespace C17ExecEx

def glob : Act := { id := 0, name := "Program".toList }
/-- the start state of a program: the global activation only -/
def st0 : St := { acts := [glob] }

def tF (n : String) : Tok := ⟨.IDENTIFIER, 1, 8, n.toList⟩
def tA (c : Nat) : Tok := ⟨.STRING, 1, c, []⟩
def sl (c : Nat) (s : String) : Expr := .strLit (tA c) s.toList
def il (c : Nat) (n : Int) : Expr := .intLit (tA c) n
def cl (c : Nat) (x : Char) : Expr := .charLit (tA c) x

def strOf : Except Stop Val → Option String
  | .ok (.str s) => some (String.ofList s)
  | _ => none
def intOf : Except Stop Val → Option Int
  | .ok (.int k) => some k
  | _ => none
def boolOf : Except Stop Val → Option Bool
  | .ok (.bool b) => some b
  | _ => none
def chrOf : Except Stop Val → Option Char
  | .ok (.chr c) => some c
  | _ => none
/-- message, position and trace of a diagnostic result -/
def diagOf : Except Stop Val → Option (Msg × Nat × Nat × List Frame)
  | .error (.diag d) => some (d.msg, d.line, d.col, d.trace)
  | _ => none

/-- `LEFT("ABCDEFG", 3)` — by the theorem (all hypotheses hold) … -/
example : (evalExpr 6 (.call (tF "LEFT") [sl 13 "ABCDEFG", il 24 3])).run.run st0 =
    (.ok (.str "ABC".toList), { st0 with nextId := 2 }) :=
  C17_exec_left_in_range 6 1 _ _ _ "ABCDEFG".toList 3 st0 st0 st0 glob [] (by decide) rfl
    (pureAt_strLit _ _ _ 1 (by decide)) (pureAt_intLit _ _ _ 1 (by decide)) rfl rfl (by decide) (by decide)
/-- … and by running the model -/
example : strOf ((evalExpr 6 (.call (tF "LEFT") [sl 13 "ABCDEFG", il 24 3])).run.run st0).1 = some "ABC" ∧
    ((evalExpr 6 (.call (tF "LEFT") [sl 13 "ABCDEFG", il 24 3])).run.run st0).2.nextId = 2 ∧
    ((evalExpr 6 (.call (tF "LEFT") [sl 13 "ABCDEFG", il 24 3])).run.run st0).2.depth = 0 := by decide +kernel

/-- `LEFT("ab", 3)`: `strRange` at 0,0 inside `LEFT`, called from 1,8; depth counter and call-site mark stay -/
example : (evalExpr 6 (.call (tF "LEFT") [sl 13 "ab", il 19 3])).run.run st0 =
    (.error (.diag { kind := .runtime, line := 0, col := 0, msg := .strRange,
                     trace := [⟨"LEFT".toList, 0, 0⟩, ⟨"Program".toList, 1, 8⟩] }),
     { st0 with nextId := 2, depth := 1, acts := [{ glob with switchTok := some (1, 8) }] }) :=
  C17_exec_left_out_of_range 6 1 _ _ _ "ab".toList 3 st0 st0 st0 glob [] (by decide) rfl
    (pureAt_strLit _ _ _ 1 (by decide)) (pureAt_intLit _ _ _ 1 (by decide)) rfl rfl (by decide) (by decide)
example : diagOf ((evalExpr 6 (.call (tF "LEFT") [sl 13 "ab", il 19 3])).run.run st0).1 =
      some (.strRange, 0, 0, [⟨"LEFT".toList, 0, 0⟩, ⟨"Program".toList, 1, 8⟩]) ∧
    diagOf ((evalExpr 6 (.call (tF "RIGHT") [sl 13 "ab", il 19 (-1)])).run.run st0).1 =
      some (.strRange, 0, 0, [⟨"RIGHT".toList, 0, 0⟩, ⟨"Program".toList, 1, 8⟩]) ∧
    ((evalExpr 6 (.call (tF "LEFT") [sl 13 "ab", il 19 3])).run.run st0).2.depth = 1 ∧
    ((evalExpr 6 (.call (tF "LEFT") [sl 13 "ab", il 19 3])).run.run st0).2.acts.map (·.switchTok) = [some (1, 8)] := by
  decide +kernel

/-- `MID("ABCDEFG", 4, 2)` = "DE"; `MID("ABC", 4, 0)` and `MID("", 1, 0)` are refused (`i ≤ |s|` even for `n = 0`) -/
example : (evalExpr 7 (.call (tF "MID") [sl 13 "ABCDEFG", il 24 4, il 27 2])).run.run st0 =
    (.ok (.str "DE".toList), { st0 with nextId := 2 }) :=
  C17_exec_mid_in_range 7 1 _ _ _ _ "ABCDEFG".toList 4 2 st0 st0 st0 st0 glob [] (by decide) rfl
    (pureAt_strLit _ _ _ 1 (by decide)) (pureAt_intLit _ _ _ 1 (by decide)) (pureAt_intLit _ _ _ 1 (by decide)) rfl rfl
    (by decide) (by decide) (by decide) (by decide) (by decide)
example : (∃ v σ', (evalExpr 7 (.call (tF "MID") [sl 13 "ABC", il 24 4, il 27 0])).run.run st0 = (.ok v, σ')) ↔
    ((1 : Int) ≤ 4 ∧ (4 : Int) ≤ "ABC".toList.length ∧ (0 : Int) ≤ 0 ∧ (4 : Int) - 1 + 0 ≤ "ABC".toList.length) :=
  C17_exec_mid_defined_iff 7 1 _ _ _ _ "ABC".toList 4 0 st0 st0 st0 st0 glob [] (by decide) rfl
    (pureAt_strLit _ _ _ 1 (by decide)) (pureAt_intLit _ _ _ 1 (by decide)) (pureAt_intLit _ _ _ 1 (by decide)) rfl rfl
    (by decide) (by decide) (by decide) (by decide)
example : strOf ((evalExpr 7 (.call (tF "MID") [sl 13 "ABCDEFG", il 24 4, il 27 2])).run.run st0).1 = some "DE" ∧
    strOf ((evalExpr 7 (.call (tF "MID") [sl 13 "ABC", il 24 3, il 27 1])).run.run st0).1 = some "C" := by decide +kernel
example : diagOf ((evalExpr 7 (.call (tF "MID") [sl 13 "ABC", il 24 4, il 27 0])).run.run st0).1 =
      some (.strRange, 0, 0, [⟨"MID".toList, 0, 0⟩, ⟨"Program".toList, 1, 8⟩]) ∧
    diagOf ((evalExpr 7 (.call (tF "MID") [sl 13 "", il 24 1, il 27 0])).run.run st0).1 =
      some (.strRange, 0, 0, [⟨"MID".toList, 0, 0⟩, ⟨"Program".toList, 1, 8⟩]) := by decide +kernel
example : diagOf ((evalExpr 7 (.call (tF "MID") [sl 13 "ABC", il 24 2, il 27 3])).run.run st0).1 =
      some (.strRange, 0, 0, [⟨"MID".toList, 0, 0⟩, ⟨"Program".toList, 1, 8⟩]) ∧
    diagOf ((evalExpr 7 (.call (tF "MID") [sl 13 "ABC", il 24 0, il 27 1])).run.run st0).1 =
      some (.strRange, 0, 0, [⟨"MID".toList, 0, 0⟩, ⟨"Program".toList, 1, 8⟩]) := by decide +kernel

/-- wrong number and wrong type of arguments: `invalidArgs` at the call token, raised in the caller -/
example : (evalExpr 6 (.call (tF "LEFT") [sl 13 "ab"])).run.run st0 =
    (.error (.diag { kind := .runtime, line := 1, col := 8, msg := .invalidArgs, trace := [⟨"Program".toList, 1, 8⟩] }), st0) :=
  C17_exec_bad_args 6 1 _ [sl 13 "ab"] [.str "ab".toList] st0 st0 glob [] (def2 "LEFT" "String" .str "x" .int .str) find_left
    ⟨st0, pureAt_strLit _ _ _ 1 (by decide), rfl⟩ (by decide) (by decide) rfl (by decide) (by simp [TypesOK, def2])
example : (evalExpr 6 (.call (tF "LEFT") [sl 13 "ab", sl 19 "x"])).run.run st0 =
    (.error (.diag { kind := .runtime, line := 1, col := 8, msg := .invalidArgs, trace := [⟨"Program".toList, 1, 8⟩] }), st0) :=
  C17_exec_bad_args 6 1 _ [sl 13 "ab", sl 19 "x"] [.str "ab".toList, .str "x".toList] st0 st0 glob []
    (def2 "LEFT" "String" .str "x" .int .str) find_left
    ⟨st0, pureAt_strLit _ _ _ 1 (by decide), st0, pureAt_strLit _ _ _ 1 (by decide), rfl⟩ (by decide) (by decide) rfl (by decide)
    (fun h => by have := h.2.1; cases this)
example : diagOf ((evalExpr 6 (.call (tF "LEFT") [sl 13 "ab"])).run.run st0).1 =
      some (.invalidArgs, 1, 8, [⟨"Program".toList, 1, 8⟩]) ∧
    diagOf ((evalExpr 6 (.call (tF "LEFT") [sl 13 "ab", sl 19 "x"])).run.run st0).1 =
      some (.invalidArgs, 1, 8, [⟨"Program".toList, 1, 8⟩]) ∧
    ((evalExpr 6 (.call (tF "LEFT") [sl 13 "ab", sl 19 "x"])).run.run st0).2.nextId = 1 ∧
    ((evalExpr 6 (.call (tF "LEFT") [sl 13 "ab", sl 19 "x"])).run.run st0).2.depth = 0 ∧
    ((evalExpr 6 (.call (tF "LEFT") [sl 13 "ab", sl 19 "x"])).run.run st0).2.acts.map (·.switchTok) = [none] := by decide +kernel
example : diagOf ((evalExpr 6 (.call (tF "LENGTH") [il 13 5])).run.run st0).1 =
      some (.invalidArgs, 1, 8, [⟨"Program".toList, 1, 8⟩]) ∧
    diagOf ((evalExpr 6 (.call (tF "UCASE") [sl 13 "ab"])).run.run st0).1 =
      some (.invalidArgs, 1, 8, [⟨"Program".toList, 1, 8⟩]) := by decide +kernel

/-- the one-argument built-ins -/
example : (evalExpr 5 (.call (tF "LENGTH") [sl 15 "hello"])).run.run st0 = (.ok (.int 5), { st0 with nextId := 2 }) :=
  C17_exec_length 5 1 _ _ "hello".toList st0 st0 glob [] (by decide) rfl (pureAt_strLit _ _ _ 1 (by decide)) rfl rfl (by decide)
example : (evalExpr 5 (.call (tF "UCASE") [cl 14 'q'])).run.run st0 = (.ok (.chr 'Q'), { st0 with nextId := 2 }) :=
  C17_exec_ucase 5 1 _ _ 'q' st0 st0 glob [] (by decide) rfl (pureAt_charLit _ _ _ 1 (by decide)) rfl rfl (by decide)
example : intOf ((evalExpr 5 (.call (tF "LENGTH") [sl 15 "hello"])).run.run st0).1 = some 5 ∧
    chrOf ((evalExpr 5 (.call (tF "UCASE") [cl 14 'q'])).run.run st0).1 = some 'Q' ∧
    chrOf ((evalExpr 5 (.call (tF "UCASE") [cl 14 '1'])).run.run st0).1 = some '1' ∧
    chrOf ((evalExpr 5 (.call (tF "LCASE") [cl 14 'Q'])).run.run st0).1 = some 'q' ∧
    chrOf ((evalExpr 5 (.call (tF "UCASE") [sl 14 "q"])).run.run st0).1 = some 'Q' ∧
    strOf ((evalExpr 5 (.call (tF "TO_UPPER") [sl 14 "aB-z"])).run.run st0).1 = some "AB-Z" ∧
    strOf ((evalExpr 5 (.call (tF "TO_LOWER") [sl 14 "aB-Z"])).run.run st0).1 = some "ab-z" ∧
    intOf ((evalExpr 5 (.call (tF "ASC") [cl 14 'A'])).run.run st0).1 = some 65 ∧
    chrOf ((evalExpr 5 (.call (tF "CHR") [il 14 97])).run.run st0).1 = some 'a' ∧
    boolOf ((evalExpr 5 (.call (tF "IS_NUM") [sl 14 "12.5"])).run.run st0).1 = some true ∧
    boolOf ((evalExpr 5 (.call (tF "IS_NUM") [sl 14 "1.2.3"])).run.run st0).1 = some false ∧
    intOf ((evalExpr 5 (.call (tF "LENGTH") [cl 14 'x'])).run.run st0).1 = some 1 := by decide +kernel

/-- `ASC(CHR(65))` = 65, two activation numbers -/
example : (evalExpr 9 (.call (tF "ASC") [.call (tF "CHR") [il 16 65]])).run.run st0 = (.ok (.int 65), { st0 with nextId := 3 }) :=
  C17_exec_asc_chr 9 1 _ _ _ 65 st0 st0 glob [] (by decide) rfl rfl (pureAt_intLit _ _ _ 1 (by decide)) rfl rfl (by decide)
    (by decide) (by decide)
example : intOf ((evalExpr 9 (.call (tF "ASC") [.call (tF "CHR") [il 16 65]])).run.run st0).1 = some 65 ∧
    intOf ((evalExpr 9 (.call (tF "ASC") [.call (tF "CHR") [il 16 200]])).run.run st0).1 = some (-56) := by decide +kernel

/-- `LEFT("hello", 2) & RIGHT("hello", LENGTH("hello") - 2) = "hello"` is TRUE; three activation numbers -/
def ident (s : String) (n : Int) : Expr :=
  C17_identityExpr (tA 1) (tA 2) (tF "LEFT") (tF "RIGHT") (tF "LENGTH") (tA 3) (tA 4) (tA 5) (tA 6) (tA 7) (tA 8) (tA 9) s.toList n
example : (evalExpr 13 (ident "hello" (2 : Nat))).run.run st0 = (.ok (.bool true), { st0 with nextId := 4 }) :=
  C17_exec_left_right_identity 13 _ _ _ _ _ _ _ _ _ _ _ _ "hello".toList 2 st0 glob [] (by decide) rfl rfl rfl rfl rfl rfl
    (by decide) (by decide) (by decide)
example : boolOf ((evalExpr 13 (ident "hello" 2)).run.run st0).1 = some true ∧
    boolOf ((evalExpr 13 (ident "hello" 0)).run.run st0).1 = some true ∧
    boolOf ((evalExpr 13 (ident "hello" 5)).run.run st0).1 = some true ∧
    ((evalExpr 13 (ident "hello" 2)).run.run st0).2.nextId = 4 ∧
    diagOf ((evalExpr 13 (ident "hello" 6)).run.run st0).1 =
      some (.strRange, 0, 0, [⟨"LEFT".toList, 0, 0⟩, ⟨"Program".toList, 1, 8⟩]) := by decide +kernel

/-- the REAL-valued built-ins: by the theorems (Floats are opaque to the kernel) -/
example : (evalExpr 5 (.call (tF "INT") [il 14 7])).run.run st0 =
    (.ok (.int (bInt (FloatFmt.floatOfInt 7))), { st0 with nextId := 2 }) :=
  C17_exec_int_int 5 1 _ _ 7 st0 st0 glob [] (by decide) rfl (pureAt_intLit _ _ _ 1 (by decide)) rfl rfl (by decide)
example : (evalExpr 5 (.call (tF "STR_TO_NUM") [sl 14 "123"])).run.run st0 =
    (.ok (.real (FloatFmt.floatOfInt (digitsVal "123".toList))), { st0 with nextId := 2 }) :=
  C17_exec_str_to_num_digits 5 1 _ _ "123".toList st0 st0 glob [] (by decide) rfl (pureAt_strLit _ _ _ 1 (by decide)) rfl rfl
    (by decide) (by decide) (by decide) (by decide)

/-- an argument that ends in an error: `LENGTH(LEFT("ab", 3))` ends in the diagnostic of the inner call -/
theorem left_ab_3 : (evalExpr 6 (.call (tF "LEFT") [sl 13 "ab", il 19 3])).run.run st0 =
    (.error (.diag { kind := .runtime, line := 0, col := 0, msg := .strRange,
                     trace := [⟨"LEFT".toList, 0, 0⟩, ⟨"Program".toList, 1, 8⟩] }),
     { st0 with nextId := 2, depth := 1, acts := [{ glob with switchTok := some (1, 8) }] }) :=
  C17_exec_left_out_of_range 6 1 _ _ _ "ab".toList 3 st0 st0 st0 glob [] (by decide) rfl
    (pureAt_strLit _ _ _ 1 (by decide)) (pureAt_intLit _ _ _ 1 (by decide)) rfl rfl (by decide) (by decide)
example : (evalExpr 10 (.call (tF "LENGTH") [.call (tF "LEFT") [sl 13 "ab", il 19 3]])).run.run st0 =
    (evalExpr 6 (.call (tF "LEFT") [sl 13 "ab", il 19 3])).run.run st0 :=
  (C17_exec_arg_error 10 6 (tF "LENGTH") [] _ [] [] st0 st0 _ _ (def1 "LENGTH" "String" .str .int) find_length rfl left_ab_3
    (fun h => nomatch h) (by decide)).trans left_ab_3.symm
example : diagOf ((evalExpr 10 (.call (tF "LENGTH") [.call (tF "LEFT") [sl 13 "ab", il 19 3]])).run.run st0).1 =
    some (.strRange, 0, 0, [⟨"LEFT".toList, 0, 0⟩, ⟨"Program".toList, 1, 8⟩]) := by decide +kernel

/-! ### the ASTs are the parser's; whole programs through lexer, parser and evaluator -/

def front (src : String) : Option Stmt :=
  match lex {} src.toList with
  | .ok toks => (match parse {} toks with | .ok ([s], _) => some s | _ => none)
  | .error _ => none

def isLeftOutput : Option Stmt → Bool
  | some (.output _ [.call t [.strLit _ s, .intLit _ n]]) =>
    t.val == "LEFT".toList && t.line == 1 && t.col == 8 && s == "ABCDEFG".toList && n == 3
  | _ => false
def isIdentOutput : Option Stmt → Bool
  | some (.output _ [.cmp _ .eq (.concat _ (.call tl [.strLit _ _, .intLit _ _])
      (.call tr [.strLit _ _, .arith _ .sub (.call tlen [.strLit _ _]) (.intLit _ _)])) (.strLit _ _)]) =>
    tl.val == "LEFT".toList && tr.val == "RIGHT".toList && tlen.val == "LENGTH".toList
  | _ => false
example : isLeftOutput (front "OUTPUT LEFT(\"ABCDEFG\", 3)\n") = true ∧
    isIdentOutput (front "OUTPUT LEFT(\"hello\", 2) & RIGHT(\"hello\", LENGTH(\"hello\") - 2) = \"hello\"\n") = true := by
  decide +kernel

def prog : String :=
  "OUTPUT LEFT(\"ABCDEFG\", 3)\nOUTPUT RIGHT(\"ABCDEFG\", 2)\nOUTPUT MID(\"ABCDEFG\", 4, 2)\nOUTPUT LENGTH(\"hello\")\n" ++
  "OUTPUT UCASE('q')\nOUTPUT LCASE('Q')\nOUTPUT TO_UPPER(\"aB-z\")\nOUTPUT TO_LOWER(\"aB-Z\")\nOUTPUT ASC(CHR(65))\n" ++
  "OUTPUT IS_NUM(\"12.5\")\nOUTPUT IS_NUM(\"1.2.3\")\n" ++
  "OUTPUT LEFT(\"hello\", 2) & RIGHT(\"hello\", LENGTH(\"hello\") - 2) = \"hello\"\n"
example : (runFile {} prog.toList [] []).out = "ABC\nFG\nDE\n5\nQ\nq\nAB-Z\nab-z\n65\nTRUE\nFALSE\nTRUE\n".toList ∧
    (runFile {} prog.toList [] []).diags = [] := by decide +kernel
example : (runFile {} "OUTPUT LEFT(\"ab\", 3)\n".toList [] []).diags.map (fun d => (d.msg, d.line, d.col, d.trace)) =
    [(.strRange, 0, 0, [⟨"LEFT".toList, 0, 0⟩, ⟨"Program".toList, 1, 8⟩])] := by decide +kernel
example : (runFile {} "OUTPUT MID(\"ABC\", 4, 0)\n".toList [] []).diags.map (fun d => (d.msg, d.line, d.col, d.trace)) =
    [(.strRange, 0, 0, [⟨"MID".toList, 0, 0⟩, ⟨"Program".toList, 1, 8⟩])] := by decide +kernel
example : (runFile {} "OUTPUT LEFT(\"ab\")\n".toList [] []).diags.map (fun d => (d.msg, d.line, d.col, d.trace)) =
    [(.invalidArgs, 1, 8, [⟨"Program".toList, 1, 8⟩])] := by decide +kernel
example : (runFile {} "OUTPUT LEFT(\"ab\", \"x\")\n".toList [] []).diags.map (fun d => (d.msg, d.line, d.col, d.trace)) =
    [(.invalidArgs, 1, 8, [⟨"Program".toList, 1, 8⟩])] := by decide +kernel

end C17ExecEx

end Pseudo
