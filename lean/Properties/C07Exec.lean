import PseudoProofs.RecordLemmas
import Properties.C04Exec
import Properties.C06Exec
/-!
# C07 at the level of the evaluator

`Properties/C07.lean` proves that the path functions address one place of a value, `Properties/C07Copy.lean` that
`writeLoc` — the only operation that changes a stored value — addresses one path of one root variable
(`C07_write_other_location`, `C07_write_disjoint_path`, `C07_copy_then_independent`).  This file lifts that to runs of
the evaluator (`PseudoModel/Eval.lean`): every theorem is a statement `(…).run.run σ = (result, final state)` about
`resolveRef`, `evalExpr`, `execAssign`, `execStmt`, `runBlock` or `callProc`.

**Hypotheses.**
* `RecordLemmas.HasVar σ n id ty v`: the name `n` resolves (`resolveRef` on `Ref.var`: variables of the current
  activation, then of the global one) to the variable slot `n` of activation `id`; the slot is not a BYREF alias, has
  the declared type `ty`, holds `v`, and is not a constant.  (`HasVar.of_current` / `HasVar.of_global` establish it
  from the shape of the state.)  A *record variable of type `T`* is `HasVar σ n id (.comp T) (.comp T fields)`.
* `ArrayLemmas.HasArray` (from C06Exec) for arrays of records.
* `ArrayLemmas.PureAt σ f₀ e v` / `PureAll` for right-hand sides and index expressions, as in C06Exec / C04Exec.
* `RecordLemmas.Rooted σ f₀ bt r n`: the reference `r` is the name `bt` followed by any number of field steps and
  index steps with pure index expressions — "any path under `bt`" (no pointer dereference).

**Restrictions** (stated again at the theorems): the records are plain variables of the current or the global
activation (not BYREF formals); member names are looked up as the model does (`memberKind`: scalar members before
array members); paths contain no dereference.

**Messages** (`Msg`, `PseudoModel/Basic.lean`): an undeclared member is `noMember`; `x.f` where `x` is not a record
(or is a whole array) is `typeMismatch`; assigning a record of another type, or a non-record, to a record variable is
`typeMismatch`.
-/
namespace Pseudo

open ArrayLemmas C07Copy CallLemmas RecordLemmas

/-! ## 1. resolving `r.f`, `r.f.g`, `r.a[i]` -/

/-- **One field step on any resolved base** (`r` any reference that resolves, state unchanged, to the non-array holder
    `h`, which reads a record with the member `m` of kind `k` — `false`: scalar / record member, `true`: array
    member): `r.m` resolves to the holder whose location is the location of `h` with the path extended by
    `.field m`; the state is unchanged.  Iterating this theorem gives any depth of nesting. -/
theorem C07_exec_resolve_field_step (σ : St) (t : Tok) (r : Ref) (m : Tok) (h : Holder) (T : Str)
    (fs : List (Str × Val)) (k : Bool) (fv : Val) (f : Nat)
    (hr : (resolveRef f r).run.run σ = (.ok h, σ)) (harr : h.isArr = false)
    (hread : readLocP σ h.loc = .ok (.comp T fs))
    (hm : memberKind fs m.val = some k) (hfv : findField fs m.val k = some fv) :
    (resolveRef (f+1) (.field t r m)).run.run σ =
      (.ok { loc := { h.loc with path := h.loc.path ++ [.field m.val] }, isArr := k, ty := fieldTy fv, name := m.val }, σ) := by
  rw [run_resolveRef_field_of σ t r m h f hr, harr, hread]
  simp only [Bool.false_eq_true, if_false, fieldResult, hm, hfv]
  rfl

/-- … the member is not declared: the runtime diagnostic `noMember` at the token of the field reference -/
theorem C07_exec_resolve_field_step_undeclared (σ : St) (t : Tok) (r : Ref) (m : Tok) (h : Holder) (T : Str)
    (fs : List (Str × Val)) (f : Nat)
    (hr : (resolveRef f r).run.run σ = (.ok h, σ)) (harr : h.isArr = false)
    (hread : readLocP σ h.loc = .ok (.comp T fs)) (hm : memberKind fs m.val = none) :
    (resolveRef (f+1) (.field t r m)).run.run σ = (.error (.diag (rtDiag σ t.line t.col .noMember)), σ) := by
  rw [run_resolveRef_field_of σ t r m h f hr, harr, hread]
  simp only [Bool.false_eq_true, if_false, fieldResult, hm]

/-- … the base does not hold a record (an INTEGER, a STRING, a pointer, …): `typeMismatch` -/
theorem C07_exec_resolve_field_step_nonrecord (σ : St) (t : Tok) (r : Ref) (m : Tok) (h : Holder) (v : Val) (f : Nat)
    (hr : (resolveRef f r).run.run σ = (.ok h, σ)) (harr : h.isArr = false)
    (hread : readLocP σ h.loc = .ok v) (hv : ∀ T fs, v ≠ .comp T fs) :
    (resolveRef (f+1) (.field t r m)).run.run σ = (.error (.diag (rtDiag σ t.line t.col .typeMismatch)), σ) := by
  rw [run_resolveRef_field_of σ t r m h f hr, harr, hread]
  simp only [Bool.false_eq_true, if_false]
  cases v with
  | comp T fs => exact absurd rfl (hv T fs)
  | _ => rfl

/-- **`r.f`** for a record variable `r` (`HasVar`, value `.comp T fs`) and a declared member `f` of kind `k`: the
    holder's location is the slot of `r` with the path `[.field f]`; its type is the type of the member's current
    value (the element type for an array member); the state is unchanged. -/
theorem C07_exec_resolve_field (σ : St) (t rt m : Tok) (id : Nat) (ty : Ty) (T : Str) (fs : List (Str × Val)) (k : Bool)
    (fv : Val) (f : Nat)
    (hr : HasVar σ rt.val id ty (.comp T fs)) (hm : memberKind fs m.val = some k) (hfv : findField fs m.val k = some fv)
    (hf : 2 ≤ f) :
    (resolveRef f (.field t (.var rt) m)).run.run σ =
      (.ok { loc := ⟨id, false, rt.val, [.field m.val]⟩, isArr := k, ty := fieldTy fv, name := m.val }, σ) := by
  obtain ⟨f', rfl⟩ : ∃ f', f = f' + 2 := ⟨f - 2, by omega⟩
  exact C07_exec_resolve_field_step σ t (.var rt) m (varHolder id rt.val ty) T fs k fv (f'+1)
    (run_resolveRef_hasVar σ rt id ty f' hr.resolves) rfl hr.reads hm hfv

/-- what the location `r.f` reads -/
theorem C07_exec_field_location_reads (σ : St) (n : Str) (id : Nat) (ty : Ty) (T : Str) (fs : List (Str × Val)) (m : Str)
    (k : Bool) (fv : Val) (hr : HasVar σ n id ty (.comp T fs)) (hm : memberKind fs m = some k)
    (hfv : findField fs m k = some fv) : readLocP σ ⟨id, false, n, [.field m]⟩ = .ok fv := by
  rw [readLocP_path σ id false n _ _ hr.reads]
  simp only [pathRead, getPath, hm, hfv]

/-- **`r.f.g`**: `f` a record member of `r` (current value `.comp T₂ fs₂`), `g` a declared member of that record: the
    holder's location is the slot of `r` with the path `[.field f, .field g]`; the state is unchanged. -/
theorem C07_exec_resolve_field_nested (σ : St) (t₁ t₂ rt m₁ m₂ : Tok) (id : Nat) (ty : Ty) (T T₂ : Str)
    (fs fs₂ : List (Str × Val)) (k : Bool) (fv : Val) (f : Nat)
    (hr : HasVar σ rt.val id ty (.comp T fs))
    (hm₁ : memberKind fs m₁.val = some false) (hf₁ : findField fs m₁.val false = some (.comp T₂ fs₂))
    (hm₂ : memberKind fs₂ m₂.val = some k) (hf₂ : findField fs₂ m₂.val k = some fv) (hf : 3 ≤ f) :
    (resolveRef f (.field t₂ (.field t₁ (.var rt) m₁) m₂)).run.run σ =
      (.ok { loc := ⟨id, false, rt.val, [.field m₁.val, .field m₂.val]⟩, isArr := k, ty := fieldTy fv, name := m₂.val }, σ) := by
  obtain ⟨f', rfl⟩ : ∃ f', f = f' + 1 := ⟨f - 1, by omega⟩
  have h1 := C07_exec_resolve_field σ t₁ rt m₁ id ty T fs false _ f' hr hm₁ hf₁ (by omega)
  exact C07_exec_resolve_field_step σ t₂ _ m₂ _ T₂ fs₂ k fv f' h1 rfl
    (C07_exec_field_location_reads σ rt.val id ty T fs m₁.val false _ hr hm₁ hf₁) hm₂ hf₂

/-- **`r.a[e₁,…,eₙ]`**: `a` an array member of `r` (current value `.arr e dims cells`), the index expressions evaluate
    purely to the in-bounds integers `ks`: the holder's location is the slot of `r` with the path
    `[.field a, .idx (lin dims ks)]`; its type is the element type; the state is unchanged. -/
theorem C07_exec_resolve_field_elem (σ : St) (t₁ t₂ rt m : Tok) (es : List Expr) (ks : List Int) (id : Nat) (ty : Ty)
    (T : Str) (fs : List (Str × Val)) (e : Ty) (dims : List (Int × Int)) (cells : List Val) (f₀ f : Nat)
    (hr : HasVar σ rt.val id ty (.comp T fs))
    (hm : memberKind fs m.val = some true) (hfv : findField fs m.val true = some (.arr e dims cells))
    (hp : PureAll σ f₀ es (ks.map .int)) (hb : InBoundsAll dims ks) (hf : f₀ + es.length + 3 ≤ f) :
    (resolveRef f (.index t₂ (.field t₁ (.var rt) m) es)).run.run σ =
      (.ok { loc := ⟨id, false, rt.val, [.field m.val, .idx (lin dims ks)]⟩, isArr := false, ty := e, name := m.val }, σ) := by
  obtain ⟨f', rfl⟩ : ∃ f', f = f' + 1 := ⟨f - 1, by omega⟩
  have hl : es.length = ks.length := by rw [hp.length_eq, List.length_map]
  have hlen : es.length = dims.length := by rw [hl, inBoundsAll_length dims ks hb]
  have h1 := C07_exec_resolve_field σ t₁ rt m id ty T fs true _ f' hr hm hfv (by omega)
  rw [run_resolveRef_index_of σ t₂ _ es _ _ e dims cells f₀ f' h1 rfl
    (C07_exec_field_location_reads σ rt.val id ty T fs m.val true _ hr hm hfv) hp hlen (by omega),
    idxOutcome_ok dims es ks hl hb]
  rfl

/-- … an index outside the bounds of the array member: `indexOOB`, state unchanged -/
theorem C07_exec_resolve_field_elem_oob (σ : St) (t₁ t₂ rt m : Tok) (es : List Expr) (ks : List Int) (id : Nat) (ty : Ty)
    (T : Str) (fs : List (Str × Val)) (e : Ty) (dims : List (Int × Int)) (cells : List Val) (f₀ f : Nat)
    (hr : HasVar σ rt.val id ty (.comp T fs))
    (hm : memberKind fs m.val = some true) (hfv : findField fs m.val true = some (.arr e dims cells))
    (hp : PureAll σ f₀ es (ks.map .int)) (hlen : ks.length = dims.length) (hb : ¬ InBoundsAll dims ks)
    (hf : f₀ + es.length + 3 ≤ f) :
    ∃ d, (resolveRef f (.index t₂ (.field t₁ (.var rt) m) es)).run.run σ = (.error (.diag d), σ) ∧
      d.kind = .runtime ∧ d.msg = .indexOOB := by
  obtain ⟨f', rfl⟩ : ∃ f', f = f' + 1 := ⟨f - 1, by omega⟩
  have hl : es.length = ks.length := by rw [hp.length_eq, List.length_map]
  obtain ⟨ex, _, ho⟩ := idxOutcome_oob dims es ks hl hlen hb
  have h1 := C07_exec_resolve_field σ t₁ rt m id ty T fs true _ f' hr hm hfv (by omega)
  refine ⟨rtDiag σ ex.tok.line ex.tok.col .indexOOB, ?_, by simp, by simp⟩
  rw [run_resolveRef_index_of σ t₂ _ es _ _ e dims cells f₀ f' h1 rfl
    (C07_exec_field_location_reads σ rt.val id ty T fs m.val true _ hr hm hfv) hp (by omega) (by omega), ho]
  rfl

/-- **An undeclared member**: `r.f` where the record `r` has no member `f` ends in the runtime diagnostic `noMember`
    at the token of the field reference; the state is unchanged. -/
theorem C07_exec_resolve_field_undeclared (σ : St) (t rt m : Tok) (id : Nat) (ty : Ty) (T : Str) (fs : List (Str × Val))
    (f : Nat) (hr : HasVar σ rt.val id ty (.comp T fs)) (hm : memberKind fs m.val = none) (hf : 2 ≤ f) :
    ∃ d, (resolveRef f (.field t (.var rt) m)).run.run σ = (.error (.diag d), σ) ∧
      d.kind = .runtime ∧ d.msg = .noMember ∧ d.line = t.line ∧ d.col = t.col := by
  obtain ⟨f', rfl⟩ : ∃ f', f = f' + 2 := ⟨f - 2, by omega⟩
  exact ⟨_, C07_exec_resolve_field_step_undeclared σ t (.var rt) m (varHolder id rt.val ty) T fs (f'+1)
    (run_resolveRef_hasVar σ rt id ty f' hr.resolves) rfl hr.reads hm, by simp, by simp, by simp, by simp⟩

/-- … also one level down: `r.f.g` where the record `r.f` has no member `g` -/
theorem C07_exec_resolve_field_nested_undeclared (σ : St) (t₁ t₂ rt m₁ m₂ : Tok) (id : Nat) (ty : Ty) (T T₂ : Str)
    (fs fs₂ : List (Str × Val)) (f : Nat)
    (hr : HasVar σ rt.val id ty (.comp T fs))
    (hm₁ : memberKind fs m₁.val = some false) (hf₁ : findField fs m₁.val false = some (.comp T₂ fs₂))
    (hm₂ : memberKind fs₂ m₂.val = none) (hf : 3 ≤ f) :
    ∃ d, (resolveRef f (.field t₂ (.field t₁ (.var rt) m₁) m₂)).run.run σ = (.error (.diag d), σ) ∧
      d.kind = .runtime ∧ d.msg = .noMember ∧ d.line = t₂.line ∧ d.col = t₂.col := by
  obtain ⟨f', rfl⟩ : ∃ f', f = f' + 1 := ⟨f - 1, by omega⟩
  have h1 := C07_exec_resolve_field σ t₁ rt m₁ id ty T fs false _ f' hr hm₁ hf₁ (by omega)
  exact ⟨_, C07_exec_resolve_field_step_undeclared σ t₂ _ m₂ _ T₂ fs₂ f' h1 rfl
    (C07_exec_field_location_reads σ rt.val id ty T fs m₁.val false _ hr hm₁ hf₁) hm₂, by simp, by simp, by simp, by simp⟩

/-- **A field of something that is not a record**: `x.f` where the variable `x` holds a value that is not a record
    (INTEGER, REAL, STRING, an enum value, a pointer, …) ends in the runtime diagnostic `typeMismatch` at the token
    of the field reference; the state is unchanged. -/
theorem C07_exec_resolve_field_nonrecord (σ : St) (t xt m : Tok) (id : Nat) (ty : Ty) (v : Val) (f : Nat)
    (hx : HasVar σ xt.val id ty v) (hv : ∀ T fs, v ≠ .comp T fs) (hf : 2 ≤ f) :
    ∃ d, (resolveRef f (.field t (.var xt) m)).run.run σ = (.error (.diag d), σ) ∧
      d.kind = .runtime ∧ d.msg = .typeMismatch ∧ d.line = t.line ∧ d.col = t.col := by
  obtain ⟨f', rfl⟩ : ∃ f', f = f' + 2 := ⟨f - 2, by omega⟩
  exact ⟨_, C07_exec_resolve_field_step_nonrecord σ t (.var xt) m (varHolder id xt.val ty) v (f'+1)
    (run_resolveRef_hasVar σ xt id ty f' hx.resolves) rfl hx.reads hv, by simp, by simp, by simp, by simp⟩

/-- … `x.f` where `x` is a whole array (`DECLARE x : ARRAY[…] OF T`): `typeMismatch` as well -/
theorem C07_exec_resolve_field_of_array (σ : St) (t xt m : Tok) (id : Nat) (e : Ty) (dims : List (Int × Int))
    (cells : List Val) (f : Nat) (hx : HasArray σ xt.val id e dims cells) (hf : 2 ≤ f) :
    ∃ d, (resolveRef f (.field t (.var xt) m)).run.run σ = (.error (.diag d), σ) ∧
      d.kind = .runtime ∧ d.msg = .typeMismatch ∧ d.line = t.line ∧ d.col = t.col := by
  obtain ⟨f', rfl⟩ : ∃ f', f = f' + 2 := ⟨f - 2, by omega⟩
  obtain ⟨ty, h1⟩ := run_resolveRef_arrVar σ xt id f' hx.resolves
  refine ⟨rtDiag σ t.line t.col .typeMismatch, ?_, by simp, by simp, by simp, by simp⟩
  rw [run_resolveRef_field_of σ t (.var xt) m _ (f'+1) h1]
  rfl

/-- … a field of a field that is not a record (`r.f.g` with `r.f` an INTEGER, say): `typeMismatch` -/
theorem C07_exec_resolve_field_nested_nonrecord (σ : St) (t₁ t₂ rt m₁ m₂ : Tok) (id : Nat) (ty : Ty) (T : Str)
    (fs : List (Str × Val)) (fv : Val) (f : Nat)
    (hr : HasVar σ rt.val id ty (.comp T fs))
    (hm₁ : memberKind fs m₁.val = some false) (hf₁ : findField fs m₁.val false = some fv)
    (hv : ∀ T fs, fv ≠ .comp T fs) (hf : 3 ≤ f) :
    ∃ d, (resolveRef f (.field t₂ (.field t₁ (.var rt) m₁) m₂)).run.run σ = (.error (.diag d), σ) ∧
      d.kind = .runtime ∧ d.msg = .typeMismatch ∧ d.line = t₂.line ∧ d.col = t₂.col := by
  obtain ⟨f', rfl⟩ : ∃ f', f = f' + 1 := ⟨f - 1, by omega⟩
  have h1 := C07_exec_resolve_field σ t₁ rt m₁ id ty T fs false _ f' hr hm₁ hf₁ (by omega)
  exact ⟨_, C07_exec_resolve_field_step_nonrecord σ t₂ _ m₂ _ fv f' h1 rfl
    (C07_exec_field_location_reads σ rt.val id ty T fs m₁.val false _ hr hm₁ hf₁) hv, by simp, by simp, by simp, by simp⟩

/-! ### the same as expressions: reading `r.f` -/

/-- the expression `r.f` (a scalar or record member) evaluates to the member's current value; the state is unchanged -/
theorem C07_exec_read_field (σ : St) (at' t rt m : Tok) (id : Nat) (ty : Ty) (T : Str) (fs : List (Str × Val)) (fv : Val)
    (f : Nat) (hr : HasVar σ rt.val id ty (.comp T fs)) (hm : memberKind fs m.val = some false)
    (hfv : findField fs m.val false = some fv) (hf : 3 ≤ f) :
    (evalExpr f (.access at' (.field t (.var rt) m))).run.run σ = (.ok fv, σ) := by
  obtain ⟨f', rfl⟩ : ∃ f', f = f' + 1 := ⟨f - 1, by omega⟩
  rw [run_evalExpr_access_resolved σ at' _ _ f' (C07_exec_resolve_field σ t rt m id ty T fs false fv f' hr hm hfv (by omega)) rfl,
    C07_exec_field_location_reads σ rt.val id ty T fs m.val false fv hr hm hfv]

/-- **Reading an undeclared field is a runtime error**: the expression `r.f`, `f` not a member of the record `r`,
    ends in the runtime diagnostic `noMember`; the state is unchanged. -/
theorem C07_exec_read_undeclared (σ : St) (at' t rt m : Tok) (id : Nat) (ty : Ty) (T : Str) (fs : List (Str × Val))
    (f : Nat) (hr : HasVar σ rt.val id ty (.comp T fs)) (hm : memberKind fs m.val = none) (hf : 3 ≤ f) :
    ∃ d, (evalExpr f (.access at' (.field t (.var rt) m))).run.run σ = (.error (.diag d), σ) ∧
      d.kind = .runtime ∧ d.msg = .noMember ∧ d.line = t.line ∧ d.col = t.col := by
  obtain ⟨f', rfl⟩ : ∃ f', f = f' + 1 := ⟨f - 1, by omega⟩
  obtain ⟨d, h1, h2, h3, h4, h5⟩ := C07_exec_resolve_field_undeclared σ t rt m id ty T fs f' hr hm (by omega)
  exact ⟨d, run_evalExpr_access_resolve_error σ at' _ d f' h1 (by rw [h3]; decide), h2, h3, h4, h5⟩

/-- **Reading a field of something that is not a record is a runtime error**: the expression `x.f`, `x` a variable
    holding a non-record value, ends in `typeMismatch`; the state is unchanged. -/
theorem C07_exec_read_nonrecord (σ : St) (at' t xt m : Tok) (id : Nat) (ty : Ty) (v : Val) (f : Nat)
    (hx : HasVar σ xt.val id ty v) (hv : ∀ T fs, v ≠ .comp T fs) (hf : 3 ≤ f) :
    ∃ d, (evalExpr f (.access at' (.field t (.var xt) m))).run.run σ = (.error (.diag d), σ) ∧
      d.kind = .runtime ∧ d.msg = .typeMismatch ∧ d.line = t.line ∧ d.col = t.col := by
  obtain ⟨f', rfl⟩ : ∃ f', f = f' + 1 := ⟨f - 1, by omega⟩
  obtain ⟨d, h1, h2, h3, h4, h5⟩ := C07_exec_resolve_field_nonrecord σ t xt m id ty v f' hx hv (by omega)
  exact ⟨d, run_evalExpr_access_resolve_error σ at' _ d f' h1 (by rw [h3]; decide), h2, h3, h4, h5⟩

/-! ## 2. `b <- a`: the whole value is copied -/

/-- **`b <- a` for two plain variables** (`a` holds `va`, `b` has the declared type `tyb`): if `va` — after the implicit
    cast to `tyb` — has the type `tyb`, the cast value is written into the root cell of `b` (exactly one `writeLoc`);
    otherwise the runtime diagnostic `typeMismatch` at the assignment token, state unchanged. -/
theorem C07_exec_assign_var (σ : St) (t bt at' at'' : Tok) (ida idb : Nat) (tya tyb : Ty) (va vb : Val) (f : Nat)
    (ha : HasVar σ at''.val ida tya va) (hb : HasVar σ bt.val idb tyb vb) (hf : 3 ≤ f) :
    ((implicitCast tyb va).ty = tyb →
      (execAssign f t (.var bt) (.access at' (.var at''))).run.run σ =
        (.ok ⟨⟩, updSt σ idb (writeF (varLoc idb bt.val) (implicitCast tyb va)))) ∧
    ((implicitCast tyb va).ty ≠ tyb →
      (execAssign f t (.var bt) (.access at' (.var at''))).run.run σ =
        (.error (.diag (rtDiag σ t.line t.col .typeMismatch)), σ)) := by
  obtain ⟨f', rfl⟩ : ∃ f', f = f' + 2 := ⟨f - 2, by omega⟩
  have hrun : (execAssign (f'+2) t (.var bt) (.access at' (.var at''))).run.run σ =
      ((if (implicitCast tyb va).ty != tyb then (rtErr t .typeMismatch : M Unit)
        else writeLoc t (varLoc idb bt.val) (implicitCast tyb va)).run.run σ) := by
    rw [run_execAssign_eval σ σ t _ _ va (f'+1) hb.acts_ne (pureAt_hasVar at' at'' ha (f'+1) (by omega)),
      run_assignTail_resolved σ t _ va (varHolder idb bt.val tyb) (f'+1)
        (run_resolveRef_hasVar σ bt idb tyb f' hb.resolves) rfl]
    have : locConstP σ (varHolder idb bt.val tyb).loc = false := hb.notConst
    simp only [this, Bool.false_eq_true, if_false]
  constructor
  · intro hty
    rw [hrun]
    have : ((implicitCast tyb va).ty != tyb) = false := by simp [hty]
    simp only [this, Bool.false_eq_true, if_false]
    exact run_writeLoc_path σ t idb false bt.val [] vb _ _ hb.reads hb.notConst rfl
  · intro hty
    rw [hrun]
    have : ((implicitCast tyb va).ty != tyb) = true := by simpa using hty
    simp only [this, if_true]
    exact run_rtErr t .typeMismatch σ

/-- **C07 (assigning a record copies the whole value).**  `b` a record variable of type `T` (declared type `.comp T`),
    `a` a plain variable holding `va`.
    * `va` is a record of type `T`: the assignment `b <- a` ends normally; afterwards `b` holds `va` — every path under
      `b` reads what the same path under `a` reads (and read before) —, `a` is unchanged, every location with a root
      other than `b` reads as before, every other variable and every array is what it was, and nothing else of the
      state changes.
    * `va` is not a record of type `T` (a record of another type, or not a record at all): the runtime diagnostic
      `typeMismatch` at the assignment token; the state is unchanged. -/
theorem C07_exec_assign_copies (σ : St) (t bt at' at'' : Tok) (ida idb : Nat) (tya : Ty) (T : Str) (va vb : Val) (f : Nat)
    (ha : HasVar σ at''.val ida tya va) (hb : HasVar σ bt.val idb (.comp T) vb) (hf : 3 ≤ f) :
    (va.ty = .comp T →
      ∃ σ', (execAssign f t (.var bt) (.access at' (.var at''))).run.run σ = (.ok ⟨⟩, σ') ∧
        HasVar σ' bt.val idb (.comp T) va ∧ HasVar σ' at''.val ida tya va ∧
        (∀ p, readLocP σ' ⟨idb, false, bt.val, p⟩ = readLocP σ ⟨ida, false, at''.val, p⟩ ∧
              readLocP σ' ⟨ida, false, at''.val, p⟩ = readLocP σ ⟨ida, false, at''.val, p⟩) ∧
        (∀ l', DiffRoot (varLoc idb bt.val) l' → readLocP σ' l' = readLocP σ l') ∧
        (∀ m id' ty' v', (id' ≠ idb ∨ m ≠ bt.val) → HasVar σ m id' ty' v' → HasVar σ' m id' ty' v') ∧
        (∀ m id' e' d' c', HasArray σ m id' e' d' c' → HasArray σ' m id' e' d' c') ∧
        (σ'.steps = σ.steps ∧ σ'.out = σ.out ∧ σ'.fs = σ.fs ∧ σ'.handles = σ.handles ∧ σ'.procs = σ.procs ∧
          σ'.funs = σ.funs ∧ σ'.nextId = σ.nextId ∧ σ'.acts.map (·.id) = σ.acts.map (·.id))) ∧
    (va.ty ≠ .comp T →
      ∃ d, (execAssign f t (.var bt) (.access at' (.var at''))).run.run σ = (.error (.diag d), σ) ∧
        d.kind = .runtime ∧ d.msg = .typeMismatch ∧ d.line = t.line ∧ d.col = t.col) := by
  obtain ⟨hok, herr⟩ := C07_exec_assign_var σ t bt at' at'' ida idb tya (.comp T) va vb f ha hb hf
  rw [implicitCast_comp] at hok herr
  constructor
  · intro hty
    have hb' : HasVar (updSt σ idb (writeF (varLoc idb bt.val) va)) bt.val idb (.comp T) va := hb.write_same va
    have ha' : HasVar (updSt σ idb (writeF (varLoc idb bt.val) va)) at''.val ida tya va := by
      by_cases hroot : ida = idb ∧ at''.val = bt.val
      · obtain ⟨h1, h2⟩ := hroot
        rw [h1, h2]
        rw [h1, h2] at ha
        exact ha.write_same va
      · refine ha.write_other (varLoc idb bt.val) _ ?_
        by_cases h1 : ida = idb
        · exact .inr (.inr fun h2 => hroot ⟨h1, h2⟩)
        · exact .inl h1
    refine ⟨_, hok hty, hb', ha', ?_, ?_, ?_, ?_, ⟨rfl, rfl, rfl, rfl, rfl, rfl, rfl, ?_⟩⟩
    · intro p
      rw [readLocP_path _ idb false bt.val va p hb'.reads, readLocP_path _ ida false at''.val va p ha'.reads,
        readLocP_path σ ida false at''.val va p ha.reads]
      exact ⟨rfl, rfl⟩
    · intro l' hd
      exact readLocP_updSt_writeF_other σ (varLoc idb bt.val) l' _ hd
    · intro m id' ty' v' hne hm
      refine hm.write_other (varLoc idb bt.val) _ ?_
      rcases hne with h | h
      · exact .inl h
      · exact .inr (.inr h)
    · intro m id' e' d' c' hm
      exact hasArray_write_var hm (varLoc idb bt.val) _ rfl
    · exact updSt_ids σ idb _ (writeF_id _ _)
  · intro hty
    exact ⟨_, herr hty, by simp, by simp, by simp, by simp⟩

/-- the assignment `b <- a` to a record variable of type `T` ends normally exactly when `a` holds a record of type `T` -/
theorem C07_exec_assign_copies_iff (σ : St) (t bt at' at'' : Tok) (ida idb : Nat) (tya : Ty) (T : Str) (va vb : Val)
    (f : Nat) (ha : HasVar σ at''.val ida tya va) (hb : HasVar σ bt.val idb (.comp T) vb) (hf : 3 ≤ f) :
    (∃ σ', (execAssign f t (.var bt) (.access at' (.var at''))).run.run σ = (.ok ⟨⟩, σ')) ↔ ∃ fs, va = .comp T fs := by
  obtain ⟨hok, herr⟩ := C07_exec_assign_copies σ t bt at' at'' ida idb tya T va vb f ha hb hf
  constructor
  · rintro ⟨σ', h⟩
    by_cases hty : va.ty = .comp T
    · exact val_of_ty_comp va T hty
    · obtain ⟨d, hd, _⟩ := herr hty
      rw [hd] at h
      cases h
  · rintro ⟨fs, rfl⟩
    obtain ⟨σ', h, _⟩ := hok rfl
    exact ⟨σ', h⟩

/-- `C07_exec_assign_copies` for the statement `b <- a`: one tick of the step counter, the value of the statement is
    NONE, and the final state relates to the start state as there -/
theorem C07_exec_stmt_assign_copies (σ : St) (t bt at' at'' : Tok) (ida idb : Nat) (tya : Ty) (T : Str) (va vb : Val)
    (f : Nat) (hsteps : σ.steps + 1 ≤ σ.stepLimit)
    (ha : HasVar σ at''.val ida tya va) (hb : HasVar σ bt.val idb (.comp T) vb) (hf : 5 ≤ f) :
    (va.ty = .comp T →
      ∃ σ', (execStmt f (.expr (.assign t (.var bt) (.access at' (.var at''))))).run.run σ = (.ok .none, σ') ∧
        HasVar σ' bt.val idb (.comp T) va ∧ HasVar σ' at''.val ida tya va ∧
        (∀ p, readLocP σ' ⟨idb, false, bt.val, p⟩ = readLocP σ ⟨ida, false, at''.val, p⟩ ∧
              readLocP σ' ⟨ida, false, at''.val, p⟩ = readLocP σ ⟨ida, false, at''.val, p⟩) ∧
        (∀ l', DiffRoot (varLoc idb bt.val) l' → readLocP σ' l' = readLocP σ l') ∧
        (∀ m id' ty' v', (id' ≠ idb ∨ m ≠ bt.val) → HasVar σ m id' ty' v' → HasVar σ' m id' ty' v') ∧
        (∀ m id' e' d' c', HasArray σ m id' e' d' c' → HasArray σ' m id' e' d' c') ∧
        σ'.steps = σ.steps + 1 ∧ σ'.stepLimit = σ.stepLimit ∧ σ'.acts.map (·.id) = σ.acts.map (·.id)) ∧
    (va.ty ≠ .comp T →
      ∃ d, (execStmt f (.expr (.assign t (.var bt) (.access at' (.var at''))))).run.run σ = (.error (.diag d), tickSt σ) ∧
        d.kind = .runtime ∧ d.msg = .typeMismatch ∧ (tickSt σ).acts = σ.acts) := by
  obtain ⟨f', rfl⟩ : ∃ f', f = f' + 2 := ⟨f - 2, by omega⟩
  obtain ⟨hok, herr⟩ := C07_exec_assign_copies (tickSt σ) t bt at' at'' ida idb tya T va vb f' ha.tick hb.tick (by omega)
  constructor
  · intro hty
    obtain ⟨σ', h1, h2, h3, h4, h5, h6, h7, h8⟩ := hok hty
    refine ⟨σ', ?_, h2, h3, h4, h5, fun m id' ty' v' hne hm => h6 m id' ty' v' hne hm.tick,
      fun m id' e' d' c' hm => h7 m id' e' d' c' hm.tick, h8.1, ?_, h8.2.2.2.2.2.2.2⟩
    · rw [run_execStmt_assign σ t _ _ f' hsteps, h1]
    · obtain ⟨hokv, _⟩ := C07_exec_assign_var (tickSt σ) t bt at' at'' ida idb tya (.comp T) va vb f' ha.tick hb.tick (by omega)
      rw [implicitCast_comp] at hokv
      rw [hokv hty] at h1
      injection h1 with _ h1
      rw [← h1]
      rfl
  · intro hty
    obtain ⟨d, h1, h2, h3, _⟩ := herr hty
    refine ⟨d, ?_, h2, h3, rfl⟩
    rw [run_execStmt_assign σ t _ _ f' hsteps, h1]

/-! ## 3. after the copy: source and copy are independent -/

/-- **An assignment to any path under a root variable changes nothing outside that variable.**  `bt` a name that
    resolves (state unchanged) to a holder at the root location `root` (a plain variable: `HasVar.base`; an array:
    `hasArray_base`); `r` any reference *rooted* at `bt` — the name followed by field steps and index steps with pure
    index expressions, any depth; `rhs` pure.  However the statement `r <- rhs` ends — normally, or with any runtime
    error (undeclared member, index out of bounds, type mismatch, constant, budget) —, in the final state
    1. every location with a root other than `root` reads as before;
    2. every plain variable / array with another root is what it was (`HasVar` / `HasArray` are preserved);
    3. if the statement ends with an error, no stored value has changed at all. -/
theorem C07_exec_write_under_root_frame (σ σ₂ : St) (t bt : Tok) (r : Ref) (rhs : Expr) (rv : Val) (root : Loc)
    (f₀ n f : Nat) (res : Except Stop Val)
    (hacts : σ.acts ≠ [])
    (hbase : ∀ f, 1 ≤ f → ∃ h0, (resolveRef f (.var bt)).run.run (tickSt σ) = (.ok h0, tickSt σ) ∧ h0.loc = root)
    (hroot : Rooted (tickSt σ) f₀ bt r n) (hrhs : PureAt (tickSt σ) f₀ rhs rv) (hf : max f₀ n + 3 ≤ f)
    (hrun : (execStmt f (.expr (.assign t r rhs))).run.run σ = (res, σ₂)) :
    (∀ l', DiffRoot root l' → readLocP σ₂ l' = readLocP σ l') ∧
    (∀ m id' ty' v', DiffRoot root (varLoc id' m) → HasVar σ m id' ty' v' → HasVar σ₂ m id' ty' v') ∧
    (∀ m id' e' d' c', DiffRoot root (arrLoc id' m) → HasArray σ m id' e' d' c' → HasArray σ₂ m id' e' d' c') ∧
    ((∃ e, res = .error e) → ∀ l', readLocP σ₂ l' = readLocP σ l') := by
  rcases run_execStmt_assign_rooted σ t bt r rhs rv root f₀ n f hacts hbase hroot hrhs hf with
    ⟨e, he⟩ | ⟨e, he⟩ | ⟨l, v, nv, hsr, _, he⟩
  · rw [he] at hrun
    injection hrun with _ h2
    subst h2
    exact ⟨fun _ _ => rfl, fun _ _ _ _ _ h => h, fun _ _ _ _ _ _ h => h, fun _ _ => rfl⟩
  · rw [he] at hrun
    injection hrun with _ h2
    subst h2
    exact ⟨fun _ _ => rfl, fun _ _ _ _ _ h => h.tick, fun _ _ _ _ _ _ h => h.tick, fun _ _ => rfl⟩
  · rw [he] at hrun
    injection hrun with h1 h2
    subst h2
    refine ⟨?_, ?_, ?_, ?_⟩
    · intro l' hd
      rw [readLocP_updSt_writeF_other (tickSt σ) l l' nv (hd.of_sameRoot hsr)]
      rfl
    · intro m id' ty' v' hd hm
      exact hm.tick.write_other l nv (hd.of_sameRoot hsr)
    · intro m id' e' d' c' hd hm
      exact hm.tick.write_other l nv (hd.of_sameRoot hsr)
    · rintro ⟨e, he'⟩
      rw [← h1] at he'
      cases he'

/-- two different plain variables have different roots -/
theorem C07_exec_diffRoot_vars (ida idb : Nat) (a b : Str) (h : ida ≠ idb ∨ a ≠ b) (p : List Step) :
    DiffRoot (varLoc idb b) ⟨ida, false, a, p⟩ := by
  rcases h with h | h
  · exact .inl h
  · exact .inr (.inr h)

/-- **C07 (after `b <- a`, source and copy are independent).**  `a` and `b` two different plain variables, `b` of the
    record type `T`, `a` holding the record `va` of type `T`.  The statement `b <- a` ends normally in a state `σ₁`
    in which every path under `b` reads what it reads under `a`.  Then, for ANY later statement `r <- rhs` executed in
    `σ₁` whose target `r` is rooted at `b` (`b.f`, `b.f.g`, `b.a[i]`, `b.a[i].h`, … — any depth, pure index expressions)
    with a pure right-hand side, however it ends, in its final state `σ₂` every path under `a` still reads what it
    read before the copy; and symmetrically every path under `b` is untouched by any such statement whose target is
    rooted at `a`.  (The two statements are chained by the intermediate state `σ₁`; `C07_exec_copy_field_write_block`
    below states the same for the block of the two statements `b <- a ; b.f <- rhs`.) -/
theorem C07_exec_copy_independent (σ : St) (t bt at' at'' : Tok) (ida idb : Nat) (tya : Ty) (T : Str) (va vb : Val)
    (f : Nat) (hsteps : σ.steps + 1 ≤ σ.stepLimit)
    (ha : HasVar σ at''.val ida tya va) (hb : HasVar σ bt.val idb (.comp T) vb) (hty : va.ty = .comp T)
    (hdiff : ida ≠ idb ∨ at''.val ≠ bt.val) (hf : 5 ≤ f) :
    ∃ σ₁, (execStmt f (.expr (.assign t (.var bt) (.access at' (.var at''))))).run.run σ = (.ok .none, σ₁) ∧
      HasVar σ₁ bt.val idb (.comp T) va ∧ HasVar σ₁ at''.val ida tya va ∧
      (∀ p, readLocP σ₁ ⟨idb, false, bt.val, p⟩ = readLocP σ ⟨ida, false, at''.val, p⟩ ∧
            readLocP σ₁ ⟨ida, false, at''.val, p⟩ = readLocP σ ⟨ida, false, at''.val, p⟩) ∧
      (∀ (t₂ : Tok) (r : Ref) (rhs : Expr) (rv : Val) (f₀ n f₂ : Nat) (res : Except Stop Val) (σ₂ : St),
        Rooted (tickSt σ₁) f₀ bt r n → PureAt (tickSt σ₁) f₀ rhs rv → max f₀ n + 3 ≤ f₂ →
        (execStmt f₂ (.expr (.assign t₂ r rhs))).run.run σ₁ = (res, σ₂) →
        HasVar σ₂ at''.val ida tya va ∧
        ∀ p, readLocP σ₂ ⟨ida, false, at''.val, p⟩ = readLocP σ ⟨ida, false, at''.val, p⟩) ∧
      (∀ (t₂ : Tok) (r : Ref) (rhs : Expr) (rv : Val) (f₀ n f₂ : Nat) (res : Except Stop Val) (σ₂ : St),
        Rooted (tickSt σ₁) f₀ at'' r n → PureAt (tickSt σ₁) f₀ rhs rv → max f₀ n + 3 ≤ f₂ →
        (execStmt f₂ (.expr (.assign t₂ r rhs))).run.run σ₁ = (res, σ₂) →
        HasVar σ₂ bt.val idb (.comp T) va ∧
        ∀ p, readLocP σ₂ ⟨idb, false, bt.val, p⟩ = readLocP σ ⟨ida, false, at''.val, p⟩) := by
  obtain ⟨σ₁, h1, hb₁, ha₁, h4, _⟩ :=
    (C07_exec_stmt_assign_copies σ t bt at' at'' ida idb tya T va vb f hsteps ha hb hf).1 hty
  have hdiff' : idb ≠ ida ∨ bt.val ≠ at''.val := by
    rcases hdiff with h | h
    · exact .inl (Ne.symm h)
    · exact .inr (Ne.symm h)
  refine ⟨σ₁, h1, hb₁, ha₁, h4, ?_, ?_⟩
  · intro t₂ r rhs rv f₀ n f₂ res σ₂ hroot hrhs hf₂ hrun
    obtain ⟨g1, g2, _, _⟩ := C07_exec_write_under_root_frame σ₁ σ₂ t₂ bt r rhs rv (varLoc idb bt.val) f₀ n f₂ res
      hb₁.acts_ne (hb₁.tick.base bt) hroot hrhs hf₂ hrun
    refine ⟨g2 _ _ _ _ (C07_exec_diffRoot_vars ida idb _ _ hdiff []) ha₁, ?_⟩
    intro p
    rw [g1 _ (C07_exec_diffRoot_vars ida idb _ _ hdiff p)]
    exact (h4 p).2
  · intro t₂ r rhs rv f₀ n f₂ res σ₂ hroot hrhs hf₂ hrun
    obtain ⟨g1, g2, _, _⟩ := C07_exec_write_under_root_frame σ₁ σ₂ t₂ at'' r rhs rv (varLoc ida at''.val) f₀ n f₂ res
      ha₁.acts_ne (ha₁.tick.base at'') hroot hrhs hf₂ hrun
    refine ⟨g2 _ _ _ _ (C07_exec_diffRoot_vars idb ida _ _ hdiff' []) hb₁, ?_⟩
    intro p
    rw [g1 _ (C07_exec_diffRoot_vars idb ida _ _ hdiff' p)]
    exact (h4 p).1

/-! ### a field assignment that succeeds -/

/-- **`b.f <- rhs`** for a record variable `b` (value `.comp T fs`), `f` a scalar (or record) member currently holding
    `old`, `rhs` pure with a value `rv` (not a whole array) that — after the implicit cast to the type of `old` — has
    that type.  The assignment ends normally; afterwards `b` holds the record with exactly the member `f` replaced:
    every path under `b.f` reads the new value, every path under another member `b.g` reads as before, every location
    with another root reads as before. -/
theorem C07_exec_field_write (σ : St) (t tf bt m : Tok) (rhs : Expr) (rv : Val) (idb : Nat) (tyb : Ty) (T : Str)
    (fs : List (Str × Val)) (old : Val) (f₀ f : Nat)
    (hb : HasVar σ bt.val idb tyb (.comp T fs))
    (hm : memberKind fs m.val = some false) (hfv : findField fs m.val false = some old)
    (hrhs : PureAt σ f₀ rhs rv) (hrv : rv.isArr = false) (hty : (implicitCast old.ty rv).ty = old.ty)
    (hf : max f₀ 2 + 1 ≤ f) :
    (execAssign f t (.field tf (.var bt) m) rhs).run.run σ =
      (.ok ⟨⟩, updSt σ idb (writeF (varLoc idb bt.val) (.comp T (setField fs m.val false (implicitCast old.ty rv))))) ∧
    HasVar (updSt σ idb (writeF (varLoc idb bt.val) (.comp T (setField fs m.val false (implicitCast old.ty rv)))))
      bt.val idb tyb (.comp T (setField fs m.val false (implicitCast old.ty rv))) ∧
    (∀ p, readLocP (updSt σ idb (writeF (varLoc idb bt.val) (.comp T (setField fs m.val false (implicitCast old.ty rv)))))
        ⟨idb, false, bt.val, .field m.val :: p⟩ = pathRead (implicitCast old.ty rv) p) ∧
    (∀ m' p, m' ≠ m.val →
      readLocP (updSt σ idb (writeF (varLoc idb bt.val) (.comp T (setField fs m.val false (implicitCast old.ty rv)))))
        ⟨idb, false, bt.val, .field m' :: p⟩ = readLocP σ ⟨idb, false, bt.val, .field m' :: p⟩) ∧
    (∀ l', DiffRoot (varLoc idb bt.val) l' →
      readLocP (updSt σ idb (writeF (varLoc idb bt.val) (.comp T (setField fs m.val false (implicitCast old.ty rv))))) l' =
        readLocP σ l') := by
  obtain ⟨f', rfl⟩ : ∃ f', f = f' + 1 := ⟨f - 1, by omega⟩
  have hold : old.isArr = false := findField_isArr fs m.val false old hfv
  have hk : (implicitCast old.ty rv).isArr = false := by rw [implicitCast_isArr]; exact hrv
  have hres := C07_exec_resolve_field σ tf bt m idb tyb T fs false old f' hb hm hfv (by omega)
  have hb' := hb.write_same (.comp T (setField fs m.val false (implicitCast old.ty rv)))
  refine ⟨?_, hb', ?_, ?_, ?_⟩
  · rw [run_execAssign_eval σ σ t _ rhs rv f' hb.acts_ne (hrhs f' (by omega)),
      run_assignTail_resolved σ t _ rv _ f' hres rfl]
    have hc : locConstP σ ⟨idb, false, bt.val, [.field m.val]⟩ = false := hb.notConst
    have hty' : ((implicitCast (fieldTy old) rv).ty != fieldTy old) = false := by
      rw [fieldTy_nonarr old hold]; simp [hty]
    simp only [hc, hty', Bool.false_eq_true, if_false]
    rw [fieldTy_nonarr old hold]
    exact run_writeLoc_path σ t idb false bt.val [.field m.val] _ _ _ hb.reads hb.notConst
      (setPath_field T fs m.val false old _ hm hfv)
  · intro p
    rw [readLocP_path _ idb false bt.val _ _ hb'.reads]
    exact pathRead_setField_same T fs m.val false old _ p hm hfv hk
  · intro m' p hne
    rw [readLocP_path _ idb false bt.val _ _ hb'.reads, readLocP_path σ idb false bt.val _ _ hb.reads]
    exact pathRead_setField_ne T fs m.val m' false _ p hne
  · intro l' hd
    exact readLocP_updSt_writeF_other σ (varLoc idb bt.val) l' _ hd

/-- `C07_exec_field_write` for the statement `b.f <- rhs` -/
theorem C07_exec_stmt_field_write (σ : St) (t tf bt m : Tok) (rhs : Expr) (rv : Val) (idb : Nat) (tyb : Ty) (T : Str)
    (fs : List (Str × Val)) (old : Val) (f₀ f : Nat) (hsteps : σ.steps + 1 ≤ σ.stepLimit)
    (hb : HasVar σ bt.val idb tyb (.comp T fs))
    (hm : memberKind fs m.val = some false) (hfv : findField fs m.val false = some old)
    (hrhs : PureAt (tickSt σ) f₀ rhs rv) (hrv : rv.isArr = false) (hty : (implicitCast old.ty rv).ty = old.ty)
    (hf : max f₀ 2 + 3 ≤ f) :
    ∃ σ', (execStmt f (.expr (.assign t (.field tf (.var bt) m) rhs))).run.run σ = (.ok .none, σ') ∧
      σ' = updSt (tickSt σ) idb (writeF (varLoc idb bt.val) (.comp T (setField fs m.val false (implicitCast old.ty rv)))) ∧
      HasVar σ' bt.val idb tyb (.comp T (setField fs m.val false (implicitCast old.ty rv))) ∧
      (∀ p, readLocP σ' ⟨idb, false, bt.val, .field m.val :: p⟩ = pathRead (implicitCast old.ty rv) p) ∧
      (∀ m' p, m' ≠ m.val →
        readLocP σ' ⟨idb, false, bt.val, .field m' :: p⟩ = readLocP σ ⟨idb, false, bt.val, .field m' :: p⟩) ∧
      (∀ l', DiffRoot (varLoc idb bt.val) l' → readLocP σ' l' = readLocP σ l') := by
  obtain ⟨f', rfl⟩ : ∃ f', f = f' + 2 := ⟨f - 2, by omega⟩
  obtain ⟨h1, h2, h3, h4, h5⟩ :=
    C07_exec_field_write (tickSt σ) t tf bt m rhs rv idb tyb T fs old f₀ f' hb.tick hm hfv hrhs hrv hty (by omega)
  refine ⟨_, ?_, rfl, h2, h3, h4, h5⟩
  rw [run_execStmt_assign σ t _ rhs f' hsteps, h1]

/-- **C07, the block `b <- a ; b.f <- rhs`.**  `a`, `b` two different record variables of type `T`, `f` a scalar member;
    `rhs` pure (in the state in which the second statement evaluates it) with a value fitting the member.  The block
    of the two statements ends normally, and in its final state
    1. every path under `a` reads what it read before the block — the write to `b.f` is not visible in `a`;
    2. `b.f` reads the new value;
    3. every other member of `b` reads what that member of `a` reads — `b` is the copy of `a` with `f` replaced. -/
theorem C07_exec_copy_field_write_block (σ : St) (t t₂ tf bt bt₂ at' at'' m : Tok) (rhs : Expr) (rv : Val)
    (ida idb : Nat) (tya : Ty) (T : Str) (fsa : List (Str × Val)) (vb old : Val) (f₀ f : Nat)
    (hsteps : σ.steps + 2 ≤ σ.stepLimit)
    (ha : HasVar σ at''.val ida tya (.comp T fsa)) (hb : HasVar σ bt.val idb (.comp T) vb)
    (hdiff : ida ≠ idb ∨ at''.val ≠ bt.val) (hbt : bt₂.val = bt.val)
    (hm : memberKind fsa m.val = some false) (hfv : findField fsa m.val false = some old)
    (hrhs : PureAt (tickSt (updSt (tickSt σ) idb (writeF (varLoc idb bt.val) (.comp T fsa)))) f₀ rhs rv)
    (hrv : rv.isArr = false) (hty : (implicitCast old.ty rv).ty = old.ty) (hf : max f₀ 2 + 5 ≤ f) :
    ∃ σ₂, (runBlock f [.expr (.assign t (.var bt) (.access at' (.var at''))),
                       .expr (.assign t₂ (.field tf (.var bt₂) m) rhs)]).run.run σ = (.ok ⟨⟩, σ₂) ∧
      (∀ p, readLocP σ₂ ⟨ida, false, at''.val, p⟩ = readLocP σ ⟨ida, false, at''.val, p⟩) ∧
      (∀ p, readLocP σ₂ ⟨idb, false, bt.val, .field m.val :: p⟩ = pathRead (implicitCast old.ty rv) p) ∧
      (∀ m' p, m' ≠ m.val →
        readLocP σ₂ ⟨idb, false, bt.val, .field m' :: p⟩ = readLocP σ ⟨ida, false, at''.val, .field m' :: p⟩) := by
  obtain ⟨f', rfl⟩ : ∃ f', f = f' + 3 := ⟨f - 3, by omega⟩
  -- first statement
  obtain ⟨hokv, _⟩ := C07_exec_assign_var (tickSt σ) t bt at' at'' ida idb tya (.comp T) (.comp T fsa) vb f'
    ha.tick hb.tick (by omega)
  rw [implicitCast_comp] at hokv
  have h1 : (execStmt (f'+2) (.expr (.assign t (.var bt) (.access at' (.var at''))))).run.run σ =
      (.ok .none, updSt (tickSt σ) idb (writeF (varLoc idb bt.val) (.comp T fsa))) := by
    rw [run_execStmt_assign σ t _ _ f' (by omega), hokv rfl]
  generalize hσ₁ : updSt (tickSt σ) idb (writeF (varLoc idb bt.val) (.comp T fsa)) = σ₁ at h1 hrhs
  have hb₁ : HasVar σ₁ bt₂.val idb (.comp T) (.comp T fsa) := by
    rw [← hσ₁, hbt]; exact hb.tick.write_same _
  have hread₁ : ∀ l', DiffRoot (varLoc idb bt.val) l' → readLocP σ₁ l' = readLocP σ l' := by
    intro l' hd
    rw [← hσ₁, readLocP_updSt_writeF_other (tickSt σ) (varLoc idb bt.val) l' _ hd]
    rfl
  have hsteps₁ : σ₁.steps + 1 ≤ σ₁.stepLimit := by
    rw [← hσ₁]
    show σ.steps + 1 + 1 ≤ σ.stepLimit
    omega
  -- second statement
  obtain ⟨σ₂, h2, _, _, h5, h6, h7⟩ := C07_exec_stmt_field_write σ₁ t₂ tf bt₂ m rhs rv idb (.comp T) T fsa old f₀ (f'+1)
    hsteps₁ hb₁ hm hfv hrhs hrv hty (by omega)
  rw [hbt] at h5 h6 h7
  refine ⟨σ₂, ?_, ?_, h5, ?_⟩
  · rw [run_runBlock_cons_ok (f'+2) _ _ .none σ σ₁ (by exact h1) (.inl rfl)]
    exact run_runBlock_one f' _ σ₁ σ₂ (by exact h2)
  · intro p
    rw [h7 _ (C07_exec_diffRoot_vars ida idb _ _ hdiff p), hread₁ _ (C07_exec_diffRoot_vars ida idb _ _ hdiff p)]
  · intro m' p hne
    rw [h6 m' p hne, readLocP_path σ₁ idb false bt.val (.comp T fsa) _ (by rw [← hbt]; exact hb₁.reads),
      readLocP_path σ ida false at''.val (.comp T fsa) _ ha.reads]

/-! ## 4. storing a record in an array element or in a field of another record -/

/-- **`arr[e₁,…,eₙ] <- a`**: `arr` a declared array of records of type `T` (`HasArray`, element type `.comp T`), the
    index expressions evaluate purely to the in-bounds integers `ks`, `a` a plain variable holding the record `va` of
    type `T`.  The assignment ends normally; afterwards
    1. the array is the same array with exactly the cell `lin dims ks` replaced by `va`;
    2. every path under that element reads what the same path under `a` reads — the whole value has been copied —,
       and `a` is what it was;
    3. the stored element and `a` are independent: ANY later statement `r <- rhs` (pure `rhs`) whose target is rooted
       at `a` (`a.f`, `a.g.h`, `a.xs[i]`, …), however it ends, leaves the array — every element, at every depth — as it
       is; and any such statement whose target is rooted at `arr` (`arr[k].f`, `arr[k].g.h`, …) leaves `a` as it is. -/
theorem C07_exec_elem_copies (σ : St) (t t' arrT at' at'' : Tok) (es : List Expr) (ks : List Int) (ida idr : Nat) (tya : Ty)
    (T : Str) (va : Val) (dims : List (Int × Int)) (cells : List Val) (f₀ f : Nat)
    (hr : HasArray σ arrT.val idr (.comp T) dims cells) (ha : HasVar σ at''.val ida tya va) (hty : va.ty = .comp T)
    (hp : PureAll σ f₀ es (ks.map .int)) (hb : InBoundsAll dims ks) (hf : max f₀ 2 + es.length + 3 ≤ f) :
    ∃ σ', (execAssign f t (.index t' (.var arrT) es) (.access at' (.var at''))).run.run σ = (.ok ⟨⟩, σ') ∧
      HasArray σ' arrT.val idr (.comp T) dims (cells.set (lin dims ks) va) ∧
      HasVar σ' at''.val ida tya va ∧
      (∀ p, readLocP σ' ⟨idr, true, arrT.val, .idx (lin dims ks) :: p⟩ = readLocP σ ⟨ida, false, at''.val, p⟩ ∧
            readLocP σ' ⟨ida, false, at''.val, p⟩ = readLocP σ ⟨ida, false, at''.val, p⟩) ∧
      (∀ l', DiffRoot (arrLoc idr arrT.val) l' → readLocP σ' l' = readLocP σ l') ∧
      (∀ (t₂ : Tok) (r : Ref) (rhs : Expr) (rv : Val) (g₀ n f₂ : Nat) (res : Except Stop Val) (σ₂ : St),
        Rooted (tickSt σ') g₀ at'' r n → PureAt (tickSt σ') g₀ rhs rv → max g₀ n + 3 ≤ f₂ →
        (execStmt f₂ (.expr (.assign t₂ r rhs))).run.run σ' = (res, σ₂) →
        HasArray σ₂ arrT.val idr (.comp T) dims (cells.set (lin dims ks) va) ∧
        ∀ p, readLocP σ₂ ⟨idr, true, arrT.val, p⟩ = readLocP σ' ⟨idr, true, arrT.val, p⟩) ∧
      (∀ (t₂ : Tok) (r : Ref) (rhs : Expr) (rv : Val) (g₀ n f₂ : Nat) (res : Except Stop Val) (σ₂ : St),
        Rooted (tickSt σ') g₀ arrT r n → PureAt (tickSt σ') g₀ rhs rv → max g₀ n + 3 ≤ f₂ →
        (execStmt f₂ (.expr (.assign t₂ r rhs))).run.run σ' = (res, σ₂) →
        HasVar σ₂ at''.val ida tya va ∧
        ∀ p, readLocP σ₂ ⟨ida, false, at''.val, p⟩ = readLocP σ ⟨ida, false, at''.val, p⟩) := by
  obtain ⟨f', rfl⟩ : ∃ f', f = f' + 1 := ⟨f - 1, by omega⟩
  have hi : lin dims ks < cells.length := hr.lin_lt ks hb
  have hres := C06_exec_resolve_elem σ t' arrT es ks idr (.comp T) dims cells f₀ f' hr hp hb (by omega)
  have hrun : (execAssign (f'+1) t (.index t' (.var arrT) es) (.access at' (.var at''))).run.run σ =
      (.ok ⟨⟩, updSt σ idr (writeF (arrLoc idr arrT.val) (.arr (.comp T) dims (cells.set (lin dims ks) va)))) := by
    rw [run_execAssign_resolved σ t _ _ va _ f' hr.acts_ne (pureAt_hasVar at' at'' ha f' (by omega)) hres rfl hr.notConst]
    have : ((implicitCast (.comp T) va).ty != .comp T) = false := by rw [implicitCast_comp]; simp [hty]
    simp only [this, Bool.false_eq_true, if_false]
    rw [implicitCast_comp]
    exact run_writeLoc_arr σ t idr arrT.val [.idx (lin dims ks)] _ _ _ hr.reads hr.notConst
      (setPath_cell (.comp T) dims cells _ _ hi)
  have hr' := hr.write_same (.comp T) dims (cells.set (lin dims ks) va) (by rw [List.length_set]; exact hr.wf)
  have ha' : HasVar (updSt σ idr (writeF (arrLoc idr arrT.val) (.arr (.comp T) dims (cells.set (lin dims ks) va))))
      at''.val ida tya va := ha.write_arr (arrLoc idr arrT.val) _ rfl
  have hda : ∀ p, DiffRoot (arrLoc idr arrT.val) ⟨ida, false, at''.val, p⟩ := fun _ => .inr (.inl Bool.noConfusion)
  have hdr : ∀ p, DiffRoot (varLoc ida at''.val) ⟨idr, true, arrT.val, p⟩ := fun _ => .inr (.inl Bool.noConfusion)
  have hfr : ∀ l', DiffRoot (arrLoc idr arrT.val) l' →
      readLocP (updSt σ idr (writeF (arrLoc idr arrT.val) (.arr (.comp T) dims (cells.set (lin dims ks) va)))) l' =
        readLocP σ l' := fun l' hd => readLocP_updSt_writeF_other σ (arrLoc idr arrT.val) l' _ hd
  refine ⟨_, hrun, hr', ha', ?_, hfr, ?_, ?_⟩
  · intro p
    refine ⟨?_, hfr _ (hda p)⟩
    rw [readLocP_path _ idr true arrT.val _ _ hr'.reads, readLocP_path σ ida false at''.val va p ha.reads]
    simp only [pathRead, getPath, List.getElem?_set_self hi]
  · intro t₂ r rhs rv g₀ n f₂ res σ₂ hroot hrhs hf₂ hrun₂
    obtain ⟨g1, _, g3, _⟩ := C07_exec_write_under_root_frame _ σ₂ t₂ at'' r rhs rv (varLoc ida at''.val) g₀ n f₂ res
      ha'.acts_ne (ha'.tick.base at'') hroot hrhs hf₂ hrun₂
    exact ⟨g3 _ _ _ _ _ (hdr []) hr', fun p => g1 _ (hdr p)⟩
  · intro t₂ r rhs rv g₀ n f₂ res σ₂ hroot hrhs hf₂ hrun₂
    obtain ⟨g1, g2, _, _⟩ := C07_exec_write_under_root_frame _ σ₂ t₂ arrT r rhs rv (arrLoc idr arrT.val) g₀ n f₂ res
      hr'.acts_ne (hasArray_base arrT hr'.tick) hroot hrhs hf₂ hrun₂
    refine ⟨g2 _ _ _ _ (hda []) ha', fun p => ?_⟩
    rw [g1 _ (hda p)]
    exact hfr _ (hda p)

/-- **`w.inner <- a`**: `w` a record variable (value `.comp W fsw`) with a member `inner` currently holding a record of
    type `T`, `a` another plain variable holding the record `va` of type `T`.  The assignment ends normally; afterwards
    1. every path under `w.inner` reads what the same path under `a` reads, and `a` is what it was;
    2. every other member of `w` reads as before; every location with a root other than `w` reads as before;
    3. `w.inner` and `a` are independent: any later statement `r <- rhs` (pure `rhs`) whose target is rooted at `a`,
       however it ends, leaves every path under `w` as it is; any such statement whose target is rooted at `w`
       (`w.inner.f`, `w.inner.g.h`, …) leaves `a` as it is. -/
theorem C07_exec_field_copies (σ : St) (t tf wt m at' at'' : Tok) (ida idw : Nat) (tya tyw : Ty) (W T : Str)
    (fsw : List (Str × Val)) (va old : Val) (f : Nat)
    (hw : HasVar σ wt.val idw tyw (.comp W fsw)) (ha : HasVar σ at''.val ida tya va)
    (hm : memberKind fsw m.val = some false) (hfv : findField fsw m.val false = some old)
    (hold : old.ty = .comp T) (hty : va.ty = .comp T)
    (hdiff : ida ≠ idw ∨ at''.val ≠ wt.val) (hf : 3 ≤ f) :
    ∃ σ', (execAssign f t (.field tf (.var wt) m) (.access at' (.var at''))).run.run σ = (.ok ⟨⟩, σ') ∧
      HasVar σ' wt.val idw tyw (.comp W (setField fsw m.val false va)) ∧
      HasVar σ' at''.val ida tya va ∧
      (∀ p, readLocP σ' ⟨idw, false, wt.val, .field m.val :: p⟩ = readLocP σ ⟨ida, false, at''.val, p⟩ ∧
            readLocP σ' ⟨ida, false, at''.val, p⟩ = readLocP σ ⟨ida, false, at''.val, p⟩) ∧
      (∀ m' p, m' ≠ m.val →
        readLocP σ' ⟨idw, false, wt.val, .field m' :: p⟩ = readLocP σ ⟨idw, false, wt.val, .field m' :: p⟩) ∧
      (∀ l', DiffRoot (varLoc idw wt.val) l' → readLocP σ' l' = readLocP σ l') ∧
      (∀ (t₂ : Tok) (r : Ref) (rhs : Expr) (rv : Val) (g₀ n f₂ : Nat) (res : Except Stop Val) (σ₂ : St),
        Rooted (tickSt σ') g₀ at'' r n → PureAt (tickSt σ') g₀ rhs rv → max g₀ n + 3 ≤ f₂ →
        (execStmt f₂ (.expr (.assign t₂ r rhs))).run.run σ' = (res, σ₂) →
        ∀ p, readLocP σ₂ ⟨idw, false, wt.val, p⟩ = readLocP σ' ⟨idw, false, wt.val, p⟩) ∧
      (∀ (t₂ : Tok) (r : Ref) (rhs : Expr) (rv : Val) (g₀ n f₂ : Nat) (res : Except Stop Val) (σ₂ : St),
        Rooted (tickSt σ') g₀ wt r n → PureAt (tickSt σ') g₀ rhs rv → max g₀ n + 3 ≤ f₂ →
        (execStmt f₂ (.expr (.assign t₂ r rhs))).run.run σ' = (res, σ₂) →
        HasVar σ₂ at''.val ida tya va ∧
        ∀ p, readLocP σ₂ ⟨ida, false, at''.val, p⟩ = readLocP σ ⟨ida, false, at''.val, p⟩) := by
  obtain ⟨fsv, rfl⟩ := val_of_ty_comp va T hty
  have hcast : implicitCast old.ty (.comp T fsv) = .comp T fsv := by rw [hold, implicitCast_comp]
  obtain ⟨h1, hw', h3, h4, h5⟩ := C07_exec_field_write σ t tf wt m (.access at' (.var at'')) (.comp T fsv) idw tyw W fsw old 2 f
    hw hm hfv (pureAt_hasVar at' at'' ha) rfl (by rw [hcast]; exact hold.symm) (by omega)
  rw [hcast] at h1 hw' h3 h4 h5
  have hda : ∀ p, DiffRoot (varLoc idw wt.val) ⟨ida, false, at''.val, p⟩ := C07_exec_diffRoot_vars ida idw _ _ hdiff
  have hdiff' : idw ≠ ida ∨ wt.val ≠ at''.val := by
    rcases hdiff with h | h
    · exact .inl (Ne.symm h)
    · exact .inr (Ne.symm h)
  have hdw : ∀ p, DiffRoot (varLoc ida at''.val) ⟨idw, false, wt.val, p⟩ := C07_exec_diffRoot_vars idw ida _ _ hdiff'
  have ha' : HasVar (updSt σ idw (writeF (varLoc idw wt.val) (.comp W (setField fsw m.val false (.comp T fsv)))))
      at''.val ida tya (.comp T fsv) := ha.write_other (varLoc idw wt.val) _ (hda [])
  refine ⟨_, h1, hw', ha', ?_, h4, h5, ?_, ?_⟩
  · intro p
    refine ⟨?_, h5 _ (hda p)⟩
    rw [h3 p, readLocP_path σ ida false at''.val _ p ha.reads]
  · intro t₂ r rhs rv g₀ n f₂ res σ₂ hroot hrhs hf₂ hrun₂
    obtain ⟨g1, _, _, _⟩ := C07_exec_write_under_root_frame _ σ₂ t₂ at'' r rhs rv (varLoc ida at''.val) g₀ n f₂ res
      ha'.acts_ne (ha'.tick.base at'') hroot hrhs hf₂ hrun₂
    exact fun p => g1 _ (hdw p)
  · intro t₂ r rhs rv g₀ n f₂ res σ₂ hroot hrhs hf₂ hrun₂
    obtain ⟨g1, g2, _, _⟩ := C07_exec_write_under_root_frame _ σ₂ t₂ wt r rhs rv (varLoc idw wt.val) g₀ n f₂ res
      hw'.acts_ne (hw'.tick.base wt) hroot hrhs hf₂ hrun₂
    refine ⟨g2 _ _ _ _ (hda []) ha', fun p => ?_⟩
    rw [g1 _ (hda p)]
    exact h5 _ (hda p)

/-- **C07 (a record stored in an array element or in a field of another record is a copy).**  The two clauses
    together, in the short form "the stored value reads as the source, and a later write under either of them is not
    visible in the other": `C07_exec_elem_copies` and `C07_exec_field_copies` carry the full statements. -/
theorem C07_exec_elem_and_field_copies :
    (∀ (σ : St) (t t' arrT at' at'' : Tok) (es : List Expr) (ks : List Int) (ida idr : Nat) (tya : Ty)
      (T : Str) (va : Val) (dims : List (Int × Int)) (cells : List Val) (f₀ f : Nat),
      HasArray σ arrT.val idr (.comp T) dims cells → HasVar σ at''.val ida tya va → va.ty = .comp T →
      PureAll σ f₀ es (ks.map .int) → InBoundsAll dims ks → max f₀ 2 + es.length + 3 ≤ f →
      ∃ σ', (execAssign f t (.index t' (.var arrT) es) (.access at' (.var at''))).run.run σ = (.ok ⟨⟩, σ') ∧
        (∀ p, readLocP σ' ⟨idr, true, arrT.val, .idx (lin dims ks) :: p⟩ = readLocP σ ⟨ida, false, at''.val, p⟩) ∧
        (∀ (t₂ : Tok) (l : Loc) (w : Val) (σ₂ : St), SameRoot (varLoc ida at''.val) l →
          (writeLoc t₂ l w).run.run σ' = (.ok ⟨⟩, σ₂) →
          ∀ p, readLocP σ₂ ⟨idr, true, arrT.val, p⟩ = readLocP σ' ⟨idr, true, arrT.val, p⟩) ∧
        (∀ (t₂ : Tok) (l : Loc) (w : Val) (σ₂ : St), SameRoot (arrLoc idr arrT.val) l →
          (writeLoc t₂ l w).run.run σ' = (.ok ⟨⟩, σ₂) →
          ∀ p, readLocP σ₂ ⟨ida, false, at''.val, p⟩ = readLocP σ ⟨ida, false, at''.val, p⟩)) ∧
    (∀ (σ : St) (t tf wt m at' at'' : Tok) (ida idw : Nat) (tya tyw : Ty) (W T : Str)
      (fsw : List (Str × Val)) (va old : Val) (f : Nat),
      HasVar σ wt.val idw tyw (.comp W fsw) → HasVar σ at''.val ida tya va →
      memberKind fsw m.val = some false → findField fsw m.val false = some old → old.ty = .comp T → va.ty = .comp T →
      (ida ≠ idw ∨ at''.val ≠ wt.val) → 3 ≤ f →
      ∃ σ', (execAssign f t (.field tf (.var wt) m) (.access at' (.var at''))).run.run σ = (.ok ⟨⟩, σ') ∧
        (∀ p, readLocP σ' ⟨idw, false, wt.val, .field m.val :: p⟩ = readLocP σ ⟨ida, false, at''.val, p⟩) ∧
        (∀ (t₂ : Tok) (l : Loc) (w : Val) (σ₂ : St), SameRoot (varLoc ida at''.val) l →
          (writeLoc t₂ l w).run.run σ' = (.ok ⟨⟩, σ₂) →
          ∀ p, readLocP σ₂ ⟨idw, false, wt.val, p⟩ = readLocP σ' ⟨idw, false, wt.val, p⟩) ∧
        (∀ (t₂ : Tok) (l : Loc) (w : Val) (σ₂ : St), SameRoot (varLoc idw wt.val) l →
          (writeLoc t₂ l w).run.run σ' = (.ok ⟨⟩, σ₂) →
          ∀ p, readLocP σ₂ ⟨ida, false, at''.val, p⟩ = readLocP σ ⟨ida, false, at''.val, p⟩)) := by
  constructor
  · intro σ t t' arrT at' at'' es ks ida idr tya T va dims cells f₀ f hr ha hty hp hb hf
    obtain ⟨σ', h1, _, _, h4, h5, _, _⟩ :=
      C07_exec_elem_copies σ t t' arrT at' at'' es ks ida idr tya T va dims cells f₀ f hr ha hty hp hb hf
    have hda : ∀ p, DiffRoot (arrLoc idr arrT.val) ⟨ida, false, at''.val, p⟩ := fun _ => .inr (.inl Bool.noConfusion)
    have hdr : ∀ p, DiffRoot (varLoc ida at''.val) ⟨idr, true, arrT.val, p⟩ := fun _ => .inr (.inl Bool.noConfusion)
    refine ⟨σ', h1, fun p => (h4 p).1, ?_, ?_⟩
    · intro t₂ l w σ₂ hs hw p
      exact C07_write_other_location t₂ l _ w σ' σ₂ ⟨⟩ hw ((hdr p).of_sameRoot hs)
    · intro t₂ l w σ₂ hs hw p
      rw [C07_write_other_location t₂ l _ w σ' σ₂ ⟨⟩ hw ((hda p).of_sameRoot hs)]
      exact h5 _ (hda p)
  · intro σ t tf wt m at' at'' ida idw tya tyw W T fsw va old f hw ha hm hfv hold hty hdiff hf
    obtain ⟨σ', h1, _, _, h4, _, h6, _, _⟩ :=
      C07_exec_field_copies σ t tf wt m at' at'' ida idw tya tyw W T fsw va old f hw ha hm hfv hold hty hdiff hf
    have hda : ∀ p, DiffRoot (varLoc idw wt.val) ⟨ida, false, at''.val, p⟩ := C07_exec_diffRoot_vars ida idw _ _ hdiff
    have hdiff' : idw ≠ ida ∨ wt.val ≠ at''.val := by
      rcases hdiff with h | h
      · exact .inl (Ne.symm h)
      · exact .inr (Ne.symm h)
    have hdw : ∀ p, DiffRoot (varLoc ida at''.val) ⟨idw, false, wt.val, p⟩ := C07_exec_diffRoot_vars idw ida _ _ hdiff'
    refine ⟨σ', h1, fun p => (h4 p).1, ?_, ?_⟩
    · intro t₂ l w σ₂ hs hw' p
      exact C07_write_other_location t₂ l _ w σ' σ₂ ⟨⟩ hw' ((hdw p).of_sameRoot hs)
    · intro t₂ l w σ₂ hs hw' p
      rw [C07_write_other_location t₂ l _ w σ' σ₂ ⟨⟩ hw' ((hda p).of_sameRoot hs)]
      exact h6 _ (hda p)

/-! ## 5. passing a record BYVAL -/

/-- the state in which the body of `PROCEDURE name(BYVAL pn : T)` starts when it is called in `σ` (by the activation
    `callerId`, at token `t`) with a record argument of value `v` -/
abbrev C07.byvalBodySt (σ : St) (callerId : Nat) (t : Tok) (pd : ProcDef) (pn : Str) (T : Str) (v : Val) : St :=
  C04.bodySt σ callerId t (procAct pd [byvalSlot pn (.comp T) v])

/-- in that state the parameter is a plain record variable of the new activation, holding the argument value -/
theorem C07_exec_byval_param_is_copy (σ : St) (callerId : Nat) (t pt : Tok) (pd : ProcDef) (pn T : Str)
    (fsa : List (Str × Val)) (hpt : pt.val = pn) :
    HasVar (C07.byvalBodySt σ callerId t pd pn T (.comp T fsa)) pt.val σ.nextId (.comp T) (.comp T fsa) := by
  have hslot : findSlot (procAct pd [byvalSlot pn (.comp T) (.comp T fsa)] σ.nextId).vars pt.val =
      some (byvalSlot pn (.comp T) (.comp T fsa)) := by
    simp [procAct, findSlot, byvalSlot, hpt]
  exact HasVar.of_current (C07.byvalBodySt σ callerId t pd pn T (.comp T fsa))
    (procAct pd [byvalSlot pn (.comp T) (.comp T fsa)] σ.nextId) (setSwitch σ callerId t).acts pt.val _ rfl hslot rfl rfl

/-- **C07 (passing a record BYVAL copies it) — exact final state.**  Restricted to: a procedure with ONE parameter,
    BYVAL, of the record type `T`, whose body is the ONE statement `p.f <- rhs` (`f` a scalar member of the record).
    The call `CALL name(arg)` is made in `σ`; `arg` evaluates purely to the record `.comp T fsa` (a record variable of
    the caller: `pureAt_hasVar`); `rhs` evaluates purely, in the callee's state, to a value that fits the member.
    Then the call ends normally and the final state is `σ` except for the bookkeeping (one statement counted, one id
    used up, the caller's call-position note cleared): every activation has exactly the variables, arrays and values
    it had — the assignment to `p.f` went to the callee's own copy of the record, which is gone. -/
theorem C07_exec_byval_copy (σ : St) (cur : Act) (rest : List Act) (t at' tf pt m : Tok) (name : Str) (pd : ProcDef)
    (pn T : Str) (arg rhs : Expr) (fsa : List (Str × Val)) (rv old : Val) (f₀ f : Nat)
    (hacts : σ.acts = cur :: rest)
    (hpd : σ.procs.find? (·.name == name) = some pd)
    (hparams : pd.params = [(pn, .comp T, false)])
    (hbody : pd.body = [.expr (.assign at' (.field tf (.var pt) m) rhs)]) (hpt : pt.val = pn)
    (harg : PureAt σ f₀ arg (.comp T fsa))
    (hm : memberKind fsa m.val = some false) (hfv : findField fsa m.val false = some old)
    (hdepth : σ.depth + 1 ≤ σ.depthLimit) (hsteps : σ.steps + 1 ≤ σ.stepLimit)
    (hrhs : PureAt (tickSt (C07.byvalBodySt σ cur.id t pd pn T (.comp T fsa))) f₀ rhs rv)
    (hrv : rv.isArr = false) (hcast2 : (implicitCast old.ty rv).ty = old.ty)
    (hf : max f₀ 2 + 6 ≤ f) :
    (callProc f t name [arg]).run.run σ =
      (.ok ⟨⟩, { σ with acts := { cur with switchTok := none } :: rest, steps := σ.steps + 1, nextId := σ.nextId + 1 }) := by
  obtain ⟨f', rfl⟩ : ∃ f', f = f' + 3 := ⟨f - 3, by omega⟩
  have hargs : (evalArgs (f'+2) [arg] []).run.run σ = (.ok [.comp T fsa], σ) := by
    have := run_evalArgs_pure σ f₀ [arg] [.comp T fsa] [] (f'+2) ⟨harg, trivial⟩
      (by simp only [List.length_cons, List.length_nil]; omega)
    simpa using this
  have hbind : (bindParams (f'+2) t pd.params [arg] [.comp T fsa] []).run.run σ =
      (.ok [byvalSlot pn (.comp T) (.comp T fsa)], σ) := by
    rw [hparams, run_bindParams_byval, if_pos (show (implicitCast (.comp T) (.comp T fsa)).ty = .comp T from rfl),
      run_bindParams_done]
    rfl
  rw [run_callProc (f'+2) t name [arg] σ σ σ pd [.comp T fsa] cur rest
    [byvalSlot pn (.comp T) (.comp T fsa)] hpd hargs (by rw [hparams]; rfl) hdepth hacts hbind, hbody]
  have hσb : calleeSt (procAct pd [byvalSlot pn (.comp T) (.comp T fsa)]) (setSwitch σ cur.id t) =
      C07.byvalBodySt σ cur.id t pd pn T (.comp T fsa) := rfl
  rw [hσb]
  have hp := C07_exec_byval_param_is_copy σ cur.id t pt pd pn T fsa hpt
  have hbsteps : (C07.byvalBodySt σ cur.id t pd pn T (.comp T fsa)).steps + 1 ≤
      (C07.byvalBodySt σ cur.id t pd pn T (.comp T fsa)).stepLimit := hsteps
  obtain ⟨σ4, h1, h2, _⟩ := C07_exec_stmt_field_write (C07.byvalBodySt σ cur.id t pd pn T (.comp T fsa)) at' tf pt m rhs rv
    σ.nextId (.comp T) T fsa old f₀ (f'+1) hbsteps hp hm hfv hrhs hrv hcast2 (by omega)
  rw [run_runBlock_one f' _ _ σ4 h1, h2]
  simp only [procResult, clearSwitch, decDepth, popSt, updSt, tickSt, C04.bodySt, calleeSt, pushSt, incDepth, setSwitch, hacts,
    updActs, beq_self_eq_true, if_true, procAct, List.drop_succ_cons, List.drop_zero, Nat.add_sub_cancel]

/-- … so the caller's record — every path under it — reads after the call exactly what it read before -/
theorem C07_exec_byval_copy_reads (σ : St) (cur : Act) (rest : List Act) (t at' tf pt m : Tok) (name : Str) (pd : ProcDef)
    (pn T : Str) (arg rhs : Expr) (fsa : List (Str × Val)) (rv old : Val) (f₀ f : Nat)
    (hacts : σ.acts = cur :: rest)
    (hpd : σ.procs.find? (·.name == name) = some pd)
    (hparams : pd.params = [(pn, .comp T, false)])
    (hbody : pd.body = [.expr (.assign at' (.field tf (.var pt) m) rhs)]) (hpt : pt.val = pn)
    (harg : PureAt σ f₀ arg (.comp T fsa))
    (hm : memberKind fsa m.val = some false) (hfv : findField fsa m.val false = some old)
    (hdepth : σ.depth + 1 ≤ σ.depthLimit) (hsteps : σ.steps + 1 ≤ σ.stepLimit)
    (hrhs : PureAt (tickSt (C07.byvalBodySt σ cur.id t pd pn T (.comp T fsa))) f₀ rhs rv)
    (hrv : rv.isArr = false) (hcast2 : (implicitCast old.ty rv).ty = old.ty)
    (hf : max f₀ 2 + 6 ≤ f) (l : Loc) :
    ((callProc f t name [arg]).run.run σ).1 = .ok ⟨⟩ ∧
    readLocP ((callProc f t name [arg]).run.run σ).2 l = readLocP σ l := by
  rw [C07_exec_byval_copy σ cur rest t at' tf pt m name pd pn T arg rhs fsa rv old f₀ f hacts hpd hparams hbody hpt harg hm hfv
    hdepth hsteps hrhs hrv hcast2 hf]
  refine ⟨rfl, ?_⟩
  have : readLocP { σ with acts := { cur with switchTok := none } :: rest, steps := σ.steps + 1, nextId := σ.nextId + 1 } l =
      readLocP (clearSwitch σ cur.id) l :=
    readLocP_congr _ _ l (by simp only [clearSwitch, updSt, hacts, updActs, beq_self_eq_true, if_true])
  rw [this, readLocP_clearSwitch]

/-- **C07 (passing a record BYVAL copies it) — any path, any outcome.**  A procedure with ONE parameter, BYVAL, of the
    record type `T`, whose body is ONE statement `r <- rhs` where `r` is any reference rooted at the parameter (`p.f`,
    `p.f.g`, `p.a[i]`, … any depth, pure index expressions) and `rhs` is pure.  However the call ends — normally or
    with a runtime error raised in the body —, every location of every activation that existed at the call reads
    afterwards what it read before: no write under the parameter is visible in the caller's record (or anywhere
    else). -/
theorem C07_exec_byval_copy_any_path (σ : St) (cur : Act) (rest : List Act) (t at' pt : Tok) (name : Str) (pd : ProcDef)
    (pn T : Str) (arg rhs : Expr) (r : Ref) (fsa : List (Str × Val)) (rv : Val) (g₀ f₀ n f : Nat)
    (hacts : σ.acts = cur :: rest)
    (hpd : σ.procs.find? (·.name == name) = some pd)
    (hparams : pd.params = [(pn, .comp T, false)])
    (hbody : pd.body = [.expr (.assign at' r rhs)]) (hpt : pt.val = pn)
    (harg : PureAt σ g₀ arg (.comp T fsa))
    (hdepth : σ.depth + 1 ≤ σ.depthLimit)
    (hroot : Rooted (tickSt (C07.byvalBodySt σ cur.id t pd pn T (.comp T fsa))) f₀ pt r n)
    (hrhs : PureAt (tickSt (C07.byvalBodySt σ cur.id t pd pn T (.comp T fsa))) f₀ rhs rv)
    (hf : max (max f₀ n) g₀ + 6 ≤ f) :
    ∃ res σ', (callProc f t name [arg]).run.run σ = (res, σ') ∧
      ∀ l, l.act ≠ σ.nextId → readLocP σ' l = readLocP σ l := by
  obtain ⟨f', rfl⟩ : ∃ f', f = f' + 3 := ⟨f - 3, by omega⟩
  have hargs : (evalArgs (f'+2) [arg] []).run.run σ = (.ok [.comp T fsa], σ) := by
    have := run_evalArgs_pure σ g₀ [arg] [.comp T fsa] [] (f'+2) ⟨harg, trivial⟩
      (by simp only [List.length_cons, List.length_nil]; omega)
    simpa using this
  have hbind : (bindParams (f'+2) t pd.params [arg] [.comp T fsa] []).run.run σ =
      (.ok [byvalSlot pn (.comp T) (.comp T fsa)], σ) := by
    rw [hparams, run_bindParams_byval, if_pos (show (implicitCast (.comp T) (.comp T fsa)).ty = .comp T from rfl),
      run_bindParams_done]
    rfl
  rw [run_callProc (f'+2) t name [arg] σ σ σ pd [.comp T fsa] cur rest
    [byvalSlot pn (.comp T) (.comp T fsa)] hpd hargs (by rw [hparams]; rfl) hdepth hacts hbind, hbody]
  have hσb : calleeSt (procAct pd [byvalSlot pn (.comp T) (.comp T fsa)]) (setSwitch σ cur.id t) =
      C07.byvalBodySt σ cur.id t pd pn T (.comp T fsa) := rfl
  rw [hσb]
  have hp := C07_exec_byval_param_is_copy σ cur.id t pt pd pn T fsa hpt
  have hmk : (procAct pd [byvalSlot pn (.comp T) (.comp T fsa)] σ.nextId).id = σ.nextId := rfl
  have hbacts : (C07.byvalBodySt σ cur.id t pd pn T (.comp T fsa)).acts =
      procAct pd [byvalSlot pn (.comp T) (.comp T fsa)] σ.nextId :: (setSwitch σ cur.id t).acts := rfl
  have hframe := fun σ4 new rest4 => C04_exec_call_frame σ σ4 cur.id t (procAct pd [byvalSlot pn (.comp T) (.comp T fsa)])
    new rest4 hmk
  rcases run_execStmt_assign_rooted (C07.byvalBodySt σ cur.id t pd pn T (.comp T fsa)) at' pt r rhs rv
      (varLoc σ.nextId pt.val) f₀ n (f'+1) hp.acts_ne (hp.tick.base pt) hroot hrhs (by omega) with
    ⟨e, he⟩ | ⟨e, he⟩ | ⟨l, v, nv, hsr, _, he⟩
  · rw [run_runBlock_cons_err (f'+1) _ [] e _ _ he]
    exact ⟨_, _, rfl, fun l hl => (hframe _ _ _ hbacts rfl (fun _ _ => rfl) l hl).2⟩
  · rw [run_runBlock_cons_err (f'+1) _ [] e _ _ he]
    exact ⟨_, _, rfl, fun l hl => (hframe (tickSt (C07.byvalBodySt σ cur.id t pd pn T (.comp T fsa))) _ _ hbacts rfl
      (fun _ _ => rfl) l hl).2⟩
  · rw [run_runBlock_one f' _ _ _ he]
    have hlact : l.act = σ.nextId := hsr.1
    have h4acts : (updSt (tickSt (C07.byvalBodySt σ cur.id t pd pn T (.comp T fsa))) l.act (writeF l nv)).acts =
        writeF l nv (procAct pd [byvalSlot pn (.comp T) (.comp T fsa)] σ.nextId) :: (setSwitch σ cur.id t).acts := by
      show updActs (C07.byvalBodySt σ cur.id t pd pn T (.comp T fsa)).acts l.act (writeF l nv) = _
      rw [hbacts, hlact]
      simp only [updActs, hmk, beq_self_eq_true, if_true]
    refine ⟨_, _, rfl, fun l' hl' => (hframe _ _ _ h4acts (by rw [writeF_id]; exact hmk) ?_ l' hl').1⟩
    intro l'' hl''
    rw [readLocP_updSt_writeF_other _ l l'' nv (.inl (by rw [hlact]; exact hl''))]
    rfl

/-- … in particular the caller's record variable `a`, passed as the argument: every path under `a` reads after the call
    what it read before (all live ids are below the id counter: `IdsBelow`, true initially and preserved) -/
theorem C07_exec_byval_copy_caller_record (σ : St) (cur : Act) (rest : List Act) (t at' pt xt x : Tok) (name : Str)
    (pd : ProcDef) (pn T : Str) (rhs : Expr) (r : Ref) (ida : Nat) (tya : Ty) (fsa : List (Str × Val)) (rv : Val)
    (f₀ n f : Nat)
    (hacts : σ.acts = cur :: rest) (hids : IdsBelow σ)
    (hpd : σ.procs.find? (·.name == name) = some pd)
    (hparams : pd.params = [(pn, .comp T, false)])
    (hbody : pd.body = [.expr (.assign at' r rhs)]) (hpt : pt.val = pn)
    (ha : HasVar σ x.val ida tya (.comp T fsa))
    (hdepth : σ.depth + 1 ≤ σ.depthLimit)
    (hroot : Rooted (tickSt (C07.byvalBodySt σ cur.id t pd pn T (.comp T fsa))) f₀ pt r n)
    (hrhs : PureAt (tickSt (C07.byvalBodySt σ cur.id t pd pn T (.comp T fsa))) f₀ rhs rv)
    (hf : max (max f₀ n) 2 + 6 ≤ f) :
    ∃ res σ', (callProc f t name [.access xt (.var x)]).run.run σ = (res, σ') ∧
      ∀ p, readLocP σ' ⟨ida, false, x.val, p⟩ = readLocP σ ⟨ida, false, x.val, p⟩ := by
  have hne : ida ≠ σ.nextId := C04.ne_nextId_of_read σ (varLoc ida x.val) _ hids ha.reads
  obtain ⟨res, σ', h1, h2⟩ := C07_exec_byval_copy_any_path σ cur rest t at' pt name pd pn T (.access xt (.var x)) rhs r fsa rv
    2 f₀ n f hacts hpd hparams hbody hpt (pureAt_hasVar xt x ha) hdepth hroot hrhs hf
  exact ⟨res, σ', h1, fun p => h2 _ hne⟩

/-! ## 6. returning a record from a function -/

/-- the state after a call of a parameterless function whose body is one RETURN statement, made in `σ` by the
    activation `callerId` at token `t`: `σ` with one statement counted and one activation id used up -/
def C07.afterCallSt (σ : St) (callerId : Nat) (t : Tok) : St :=
  clearSwitch { (setSwitch σ callerId t) with steps := (setSwitch σ callerId t).steps + 1,
                                              nextId := (setSwitch σ callerId t).nextId + 1 } callerId

/-- **C07 (a record returned from a function is a copy).**  Restricted to: a user-defined function without
    parameters, declared `RETURNS T` (a record type), whose body is the ONE statement `RETURN e`; `e` evaluates purely,
    in the function's activation, to the record `v` of type `T` (a record variable visible there — a global one —:
    `pureAt_hasVar`).  `b` is a record variable of type `T` of the caller.  Then the assignment `b <- F()` ends
    normally, and afterwards
    1. `b` holds `v`: every path under `b` reads the corresponding part of `v`;
    2. every location with a root other than `b` — the variable `e` named included, if it still exists — reads what it
       read before the assignment;
    3. the copy is independent: after any later successful write anywhere under `b`, every location with another root
       still reads what it read before the assignment.
    (The right-hand side is not pure here: the call advances the step counter and uses up an activation id.) -/
theorem C07_exec_return_copy (σ : St) (cur : Act) (rest : List Act) (tA bt t rt : Tok) (e : Expr) (fd : FunDef)
    (defTok : Tok) (idb : Nat) (T : Str) (vb v : Val) (f₀ f : Nat)
    (hacts : σ.acts = cur :: rest)
    (hfd : funLookup σ t.val = some fd) (hparams : fd.params = []) (hbody : fd.body = .user [.ret rt e] defTok)
    (hret : fd.ret = .comp T)
    (hdepth : σ.depth + 1 ≤ σ.depthLimit) (hsteps : σ.steps + 1 ≤ σ.stepLimit)
    (hb : HasVar σ bt.val idb (.comp T) vb)
    (he : PureAt (tickSt (calleeSt (funAct fd []) (setSwitch σ cur.id t))) f₀ e v) (hv : v.ty = .comp T)
    (hf : f₀ + 5 ≤ f) :
    ∃ σ', (execAssign f tA (.var bt) (.call t [])).run.run σ = (.ok ⟨⟩, σ') ∧
      HasVar σ' bt.val idb (.comp T) v ∧
      (∀ p, readLocP σ' ⟨idb, false, bt.val, p⟩ = pathRead v p) ∧
      (∀ l', DiffRoot (varLoc idb bt.val) l' → readLocP σ' l' = readLocP σ l') ∧
      (∀ (t₂ : Tok) (l : Loc) (w : Val) (σ₂ : St), SameRoot (varLoc idb bt.val) l →
        (writeLoc t₂ l w).run.run σ' = (.ok ⟨⟩, σ₂) →
        ∀ l', DiffRoot (varLoc idb bt.val) l' → readLocP σ₂ l' = readLocP σ l') ∧
      (σ'.steps = σ.steps + 1 ∧ σ'.nextId = σ.nextId + 1 ∧ σ'.acts.map (·.id) = σ.acts.map (·.id)) := by
  obtain ⟨f', rfl⟩ : ∃ f', f = f' + 3 := ⟨f - 3, by omega⟩
  have hne : σ.acts ≠ [] := by rw [hacts]; exact List.cons_ne_nil _ _
  -- the call
  have hargs : (evalArgs f' [] []).run.run σ = (.ok [], σ) := by
    obtain ⟨f'', rfl⟩ : ∃ f'', f' = f'' + 1 := ⟨f' - 1, by omega⟩
    rw [evalArgs_nil]; rfl
  have hbind : (bindParams f' t fd.params [] [] []).run.run σ = (.ok [], σ) := by
    obtain ⟨f'', rfl⟩ : ∃ f'', f' = f'' + 1 := ⟨f' - 1, by omega⟩
    rw [hparams, run_bindParams_done]; rfl
  have hcall := C04_exec_function_return_stmt f₀ f' t rt e [] σ σ σ fd defTok [] cur rest [] v hfd hbody
    hargs (by rw [hparams]; rfl) hdepth hacts hbind hsteps he (by rw [hret, implicitCast_comp]; exact hv) (by omega)
  rw [hret, implicitCast_comp] at hcall
  have heval : (evalExpr (f'+2) (.call t [])).run.run σ = (.ok v, C07.afterCallSt σ cur.id t) := by
    rw [evalExpr_call]; exact hcall
  generalize hσ₁ : C07.afterCallSt σ cur.id t = σ₁ at heval
  have hb₁ : HasVar σ₁ bt.val idb (.comp T) vb := by
    rw [← hσ₁]
    unfold C07.afterCallSt
    refine HasVar.meta ?_ cur.id _ (fun _ => ⟨rfl, rfl, rfl⟩)
    refine HasVar.congr (σ := setSwitch σ cur.id t) ?_ rfl
    exact HasVar.meta hb cur.id _ (fun _ => ⟨rfl, rfl, rfl⟩)
  have hread₁ : ∀ l, readLocP σ₁ l = readLocP σ l := by
    intro l
    rw [← hσ₁]
    exact (readLocP_clearSwitch _ cur.id l).trans
      ((readLocP_congr (setSwitch σ cur.id t) _ l rfl).trans (readLocP_setSwitch σ cur.id t l))
  -- the assignment
  have hrun : (execAssign (f'+3) tA (.var bt) (.call t [])).run.run σ =
      (.ok ⟨⟩, updSt σ₁ idb (writeF (varLoc idb bt.val) v)) := by
    rw [run_execAssign_eval σ σ₁ tA _ _ v (f'+2) hne heval,
      run_assignTail_resolved σ₁ tA _ v (varHolder idb bt.val (.comp T)) (f'+2)
        (run_resolveRef_hasVar σ₁ bt idb (.comp T) (f'+1) hb₁.resolves) rfl]
    have hc : locConstP σ₁ (varHolder idb bt.val (.comp T)).loc = false := hb₁.notConst
    have hty : ((implicitCast (.comp T) v).ty != .comp T) = false := by rw [implicitCast_comp]; simp [hv]
    simp only [hc, hty, Bool.false_eq_true, if_false]
    rw [implicitCast_comp]
    exact run_writeLoc_path σ₁ tA idb false bt.val [] vb _ _ hb₁.reads hb₁.notConst rfl
  have hb' := hb₁.write_same v
  have hfr : ∀ l', DiffRoot (varLoc idb bt.val) l' →
      readLocP (updSt σ₁ idb (writeF (varLoc idb bt.val) v)) l' = readLocP σ l' := by
    intro l' hd
    rw [readLocP_updSt_writeF_other σ₁ (varLoc idb bt.val) l' _ hd, hread₁]
  refine ⟨_, hrun, hb', fun p => readLocP_path _ idb false bt.val v p hb'.reads, hfr, ?_, ?_, ?_, ?_⟩
  · intro t₂ l w σ₂ hs hw l' hd
    rw [C07_write_other_location t₂ l l' w _ σ₂ ⟨⟩ hw (hd.of_sameRoot hs)]
    exact hfr l' hd
  · rw [← hσ₁]; rfl
  · rw [← hσ₁]; rfl
  · rw [updSt_ids σ₁ idb _ (writeF_id _ _), ← hσ₁]
    have e1 : (C07.afterCallSt σ cur.id t).acts.map (·.id) = (setSwitch σ cur.id t).acts.map (·.id) :=
      updSt_ids _ cur.id (fun a => { a with switchTok := none }) (fun _ => rfl)
    have e2 : (setSwitch σ cur.id t).acts.map (·.id) = σ.acts.map (·.id) :=
      updSt_ids σ cur.id (fun a => { a with switchTok := some (t.line, t.col) }) (fun _ => rfl)
    exact e1.trans e2

/-! ## non-vacuity: a concrete state with a nested record type that has an array member

```
TYPE Inner   DECLARE h : INTEGER                                               ENDTYPE
TYPE R       DECLARE f : INTEGER   DECLARE g : Inner   DECLARE xs : ARRAY[1:3] OF INTEGER   ENDTYPE
TYPE W       DECLARE n : INTEGER   DECLARE inner : R                           ENDTYPE
DECLARE a, b : R     DECLARE w : W     DECLARE x : INTEGER     DECLARE arr : ARRAY[1:2] OF R
PROCEDURE P(BYVAL p : R)   p.f <- 99   ENDPROCEDURE
FUNCTION MkA() RETURNS R   RETURN a    ENDFUNCTION
```
with `a = {f: 1, g: {h: 2}, xs: [10, 20, 30]}`, everything else at its default value, `x = 5`. -/
namespace C07ExecEx

def tk (s : String) (l : Nat := 1) (c : Nat := 1) : Tok := { k := .IDENTIFIER, line := l, col := c, val := s.toList }
def lit (k : Int) : Expr := .intLit (tk "lit") k
def var (s : String) : Expr := .access (tk s) (.var (tk s))

def innerA : Val := .comp "Inner".toList [("h".toList, .int 2)]
def inner0 : Val := .comp "Inner".toList [("h".toList, .int 0)]
def fieldsA : List (Str × Val) :=
  [("f".toList, .int 1), ("g".toList, innerA), ("xs".toList, .arr .int [(1, 3)] [.int 10, .int 20, .int 30])]
def fields0 : List (Str × Val) :=
  [("f".toList, .int 0), ("g".toList, inner0), ("xs".toList, .arr .int [(1, 3)] [.int 0, .int 0, .int 0])]
def recA : Val := .comp "R".toList fieldsA
def rec0 : Val := .comp "R".toList fields0
def fieldsW : List (Str × Val) := [("n".toList, .int 7), ("inner".toList, rec0)]
def recW : Val := .comp "W".toList fieldsW

/-- `PROCEDURE P(BYVAL p : R)  p.f <- 99  ENDPROCEDURE` -/
def procP : ProcDef :=
  { name := "P".toList, params := [("p".toList, .comp "R".toList, false)],
    body := [.expr (.assign (tk "<-" 2 5) (.field (tk "." 2 2) (.var (tk "p" 2 1)) (tk "f" 2 3)) (lit 99))] }
/-- `FUNCTION MkA() RETURNS R  RETURN a  ENDFUNCTION` -/
def funMk : FunDef :=
  { name := "MkA".toList, params := [], ret := .comp "R".toList, body := .user [.ret (tk "RETURN" 2 1) (var "a")] (tk "FUNCTION" 1 1) }

def glob : Act :=
  { id := 0, name := "Program".toList,
    vars := [{ name := "a".toList, ty := .comp "R".toList, val := recA },
             { name := "b".toList, ty := .comp "R".toList, val := rec0 },
             { name := "w".toList, ty := .comp "W".toList, val := recW },
             { name := "x".toList, ty := .int, val := .int 5 }],
    arrs := [{ name := "arr".toList, ty := .comp "R".toList, val := .arr (.comp "R".toList) [(1, 2)] [rec0, rec0] }] }

def exSt : St := { acts := [glob], procs := [procP], funs := [funMk] }

theorem hasA : HasVar exSt (tk "a").val 0 (.comp "R".toList) recA := ⟨rfl, rfl, rfl⟩
theorem hasB : HasVar exSt (tk "b").val 0 (.comp "R".toList) rec0 := ⟨rfl, rfl, rfl⟩
theorem hasW : HasVar exSt (tk "w").val 0 (.comp "W".toList) recW := ⟨rfl, rfl, rfl⟩
theorem hasX : HasVar exSt (tk "x").val 0 .int (.int 5) := ⟨rfl, rfl, rfl⟩
theorem hasArr : HasArray exSt (tk "arr").val 0 (.comp "R".toList) [(1, 2)] [rec0, rec0] := ⟨rfl, rfl, rfl, rfl⟩

theorem idsBelow : IdsBelow exSt := by
  intro i hi
  have : i = 0 := by simpa [C04.ids, exSt, glob] using hi
  subst this
  exact Nat.zero_lt_one

/-- the location `l` reads the INTEGER `n` in `σ` (a decidable check, evaluated by the kernel) -/
def readsInt (σ : St) (l : Loc) (n : Int) : Bool :=
  match readLocP σ l with
  | .ok (.int k) => k == n
  | _ => false
def isOk {α : Type} : Except Stop α → Bool
  | .ok _ => true
  | .error _ => false

def locA (p : List Step) : Loc := ⟨0, false, "a".toList, p⟩
def locB (p : List Step) : Loc := ⟨0, false, "b".toList, p⟩
def F (s : String) : Step := .field s.toList

/-! ### 1. resolution -/

/-- `a.f`, by the theorem -/
example : (resolveRef 5 (.field (tk ".") (.var (tk "a")) (tk "f"))).run.run exSt =
    (.ok { loc := locA [F "f"], isArr := false, ty := .int, name := "f".toList }, exSt) :=
  C07_exec_resolve_field exSt (tk ".") (tk "a") (tk "f") 0 _ _ fieldsA false (.int 1) 5 hasA rfl rfl (by decide)
/-- `a.g.h` -/
example : (resolveRef 5 (.field (tk ".") (.field (tk ".") (.var (tk "a")) (tk "g")) (tk "h"))).run.run exSt =
    (.ok { loc := locA [F "g", F "h"], isArr := false, ty := .int, name := "h".toList }, exSt) :=
  C07_exec_resolve_field_nested exSt (tk ".") (tk ".") (tk "a") (tk "g") (tk "h") 0 _ _ _ fieldsA _ false (.int 2) 5 hasA
    rfl rfl rfl rfl (by decide)
/-- `a.xs[2]`: the array member, cell `lin [(1,3)] [2] = 1` -/
example : (resolveRef 6 (.index (tk "[") (.field (tk ".") (.var (tk "a")) (tk "xs")) [lit 2])).run.run exSt =
    (.ok { loc := locA [F "xs", .idx 1], isArr := false, ty := .int, name := "xs".toList }, exSt) :=
  C07_exec_resolve_field_elem exSt (tk ".") (tk "[") (tk "a") (tk "xs") [lit 2] [2] 0 _ _ fieldsA .int [(1, 3)] _ 1 6 hasA
    rfl rfl ⟨pureAt_intLit _ _ 2, trivial⟩ ⟨⟨by decide, by decide⟩, trivial⟩ (by decide)
/-- the model, run by the kernel, agrees -/
example : (resolveRef 5 (.field (tk ".") (.var (tk "a")) (tk "f"))).run.run exSt =
      (.ok { loc := locA [F "f"], isArr := false, ty := .int, name := "f".toList }, exSt) ∧
    (resolveRef 5 (.field (tk ".") (.field (tk ".") (.var (tk "a")) (tk "g")) (tk "h"))).run.run exSt =
      (.ok { loc := locA [F "g", F "h"], isArr := false, ty := .int, name := "h".toList }, exSt) ∧
    (resolveRef 6 (.index (tk "[") (.field (tk ".") (.var (tk "a")) (tk "xs")) [lit 2])).run.run exSt =
      (.ok { loc := locA [F "xs", .idx 1], isArr := false, ty := .int, name := "xs".toList }, exSt) := ⟨rfl, rfl, rfl⟩
/-- `a.xs[4]`: out of bounds -/
example : ∃ d, (resolveRef 6 (.index (tk "[") (.field (tk ".") (.var (tk "a")) (tk "xs")) [lit 4])).run.run exSt =
    (.error (.diag d), exSt) ∧ d.kind = .runtime ∧ d.msg = .indexOOB :=
  C07_exec_resolve_field_elem_oob exSt (tk ".") (tk "[") (tk "a") (tk "xs") [lit 4] [4] 0 _ _ fieldsA .int [(1, 3)] _ 1 6 hasA
    rfl rfl ⟨pureAt_intLit _ _ 4, trivial⟩ rfl (by simp [InBoundsAll]) (by decide)
/-- `a.zz`: not a member — `noMember` at the position of the `.` -/
example : ∃ d, (resolveRef 5 (.field (tk "." 3 2) (.var (tk "a")) (tk "zz"))).run.run exSt = (.error (.diag d), exSt) ∧
    d.kind = .runtime ∧ d.msg = .noMember ∧ d.line = 3 ∧ d.col = 2 :=
  C07_exec_resolve_field_undeclared exSt (tk "." 3 2) (tk "a") (tk "zz") 0 _ _ fieldsA 5 hasA rfl (by decide)
example : ((resolveRef 5 (.field (tk "." 3 2) (.var (tk "a")) (tk "zz"))).run.run exSt).1 =
    .error (.diag (rtDiag exSt 3 2 .noMember)) := rfl
/-- `a.g.zz` -/
example : ∃ d, (resolveRef 5 (.field (tk "." 3 4) (.field (tk ".") (.var (tk "a")) (tk "g")) (tk "zz"))).run.run exSt =
    (.error (.diag d), exSt) ∧ d.kind = .runtime ∧ d.msg = .noMember ∧ d.line = 3 ∧ d.col = 4 :=
  C07_exec_resolve_field_nested_undeclared exSt (tk ".") (tk "." 3 4) (tk "a") (tk "g") (tk "zz") 0 _ _ _ fieldsA _ 5 hasA
    rfl rfl rfl (by decide)
/-- `x.f` with `x : INTEGER`: `typeMismatch` -/
example : ∃ d, (resolveRef 5 (.field (tk "." 3 2) (.var (tk "x")) (tk "f"))).run.run exSt = (.error (.diag d), exSt) ∧
    d.kind = .runtime ∧ d.msg = .typeMismatch ∧ d.line = 3 ∧ d.col = 2 :=
  C07_exec_resolve_field_nonrecord exSt (tk "." 3 2) (tk "x") (tk "f") 0 _ (.int 5) 5 hasX (fun _ _ h => by cases h) (by decide)
/-- `arr.f` with `arr` a whole array: `typeMismatch` -/
example : ∃ d, (resolveRef 5 (.field (tk "." 3 2) (.var (tk "arr")) (tk "f"))).run.run exSt = (.error (.diag d), exSt) ∧
    d.kind = .runtime ∧ d.msg = .typeMismatch ∧ d.line = 3 ∧ d.col = 2 :=
  C07_exec_resolve_field_of_array exSt (tk "." 3 2) (tk "arr") (tk "f") 0 _ _ _ 5 hasArr (by decide)
/-- `a.f.q`: a field of an INTEGER field -/
example : ∃ d, (resolveRef 5 (.field (tk "." 3 4) (.field (tk ".") (.var (tk "a")) (tk "f")) (tk "q"))).run.run exSt =
    (.error (.diag d), exSt) ∧ d.kind = .runtime ∧ d.msg = .typeMismatch ∧ d.line = 3 ∧ d.col = 4 :=
  C07_exec_resolve_field_nested_nonrecord exSt (tk ".") (tk "." 3 4) (tk "a") (tk "f") (tk "q") 0 _ _ fieldsA (.int 1) 5 hasA
    rfl rfl (fun _ _ h => by cases h) (by decide)
/-- as expressions -/
example : (evalExpr 5 (.access (tk "a") (.field (tk ".") (.var (tk "a")) (tk "g")))).run.run exSt = (.ok innerA, exSt) :=
  C07_exec_read_field exSt (tk "a") (tk ".") (tk "a") (tk "g") 0 _ _ fieldsA innerA 5 hasA rfl rfl (by decide)
example : ∃ d, (evalExpr 5 (.access (tk "a") (.field (tk "." 3 2) (.var (tk "a")) (tk "zz")))).run.run exSt =
    (.error (.diag d), exSt) ∧ d.kind = .runtime ∧ d.msg = .noMember ∧ d.line = 3 ∧ d.col = 2 :=
  C07_exec_read_undeclared exSt (tk "a") (tk "." 3 2) (tk "a") (tk "zz") 0 _ _ fieldsA 5 hasA rfl (by decide)

/-! ### 2. `b <- a` -/

def copyStmt : Stmt := .expr (.assign (tk "<-") (.var (tk "b")) (var "a"))
def afterCopy : St := ((execStmt 8 copyStmt).run.run exSt).2

example : ∃ σ', (execAssign 5 (tk "<-") (.var (tk "b")) (var "a")).run.run exSt = (.ok ⟨⟩, σ') ∧
    (∀ p, readLocP σ' (locB p) = readLocP exSt (locA p) ∧ readLocP σ' (locA p) = readLocP exSt (locA p)) := by
  obtain ⟨σ', h1, _, _, h4, _⟩ :=
    (C07_exec_assign_copies exSt (tk "<-") (tk "b") (tk "a") (tk "a") 0 0 _ "R".toList recA rec0 5 hasA hasB (by decide)).1 rfl
  exact ⟨σ', h1, h4⟩
/-- the model agrees: after the statement `b` reads the value of `a`, field by field -/
example : (isOk ((execStmt 8 copyStmt).run.run exSt).1 && readsInt afterCopy (locB [F "f"]) 1 &&
    readsInt afterCopy (locB [F "g", F "h"]) 2 && readsInt afterCopy (locB [F "xs", .idx 2]) 30 &&
    readsInt afterCopy (locA [F "f"]) 1 && readsInt afterCopy (locA [F "g", F "h"]) 2) = true := by decide +kernel
/-- `b <- w` (a record of another type) and `b <- x` (not a record): `typeMismatch`, nothing changes -/
example : ∃ d, (execAssign 5 (tk "<-" 4 3) (.var (tk "b")) (var "w")).run.run exSt = (.error (.diag d), exSt) ∧
    d.kind = .runtime ∧ d.msg = .typeMismatch ∧ d.line = 4 ∧ d.col = 3 :=
  (C07_exec_assign_copies exSt (tk "<-" 4 3) (tk "b") (tk "w") (tk "w") 0 0 _ "R".toList recW rec0 5 hasW hasB (by decide)).2
    (by decide)
example : ∃ d, (execAssign 5 (tk "<-" 4 3) (.var (tk "b")) (var "x")).run.run exSt = (.error (.diag d), exSt) ∧
    d.kind = .runtime ∧ d.msg = .typeMismatch ∧ d.line = 4 ∧ d.col = 3 :=
  (C07_exec_assign_copies exSt (tk "<-" 4 3) (tk "b") (tk "x") (tk "x") 0 0 _ "R".toList (.int 5) rec0 5 hasX hasB (by decide)).2
    (by decide)
example : ((execAssign 5 (tk "<-" 4 3) (.var (tk "b")) (var "w")).run.run exSt).1 =
    .error (.diag (rtDiag exSt 4 3 .typeMismatch)) := rfl
example : ¬ ∃ σ', (execAssign 5 (tk "<-") (.var (tk "b")) (var "x")).run.run exSt = (.ok ⟨⟩, σ') := by
  intro h
  obtain ⟨fs, hfs⟩ :=
    (C07_exec_assign_copies_iff exSt (tk "<-") (tk "b") (tk "x") (tk "x") 0 0 _ "R".toList (.int 5) rec0 5 hasX hasB (by decide)).mp h
  cases hfs

/-! ### 3. `b <- a ; b.f <- 5`, and deeper writes -/

/-- the block, by the theorem -/
theorem block_run : ∃ σ₂, (runBlock 9 [copyStmt, .expr (.assign (tk "<-") (.field (tk ".") (.var (tk "b")) (tk "f")) (lit 5))]).run.run exSt =
      (.ok ⟨⟩, σ₂) ∧
    (∀ p, readLocP σ₂ (locA p) = readLocP exSt (locA p)) ∧
    (∀ p, readLocP σ₂ (locB (F "f" :: p)) = pathRead (.int 5) p) ∧
    (∀ m' p, m' ≠ "f".toList → readLocP σ₂ (locB (.field m' :: p)) = readLocP exSt (locA (.field m' :: p))) :=
  C07_exec_copy_field_write_block exSt (tk "<-") (tk "<-") (tk ".") (tk "b") (tk "b") (tk "a") (tk "a") (tk "f") (lit 5) (.int 5)
    0 0 _ "R".toList fieldsA rec0 (.int 1) 1 9 (by decide) hasA hasB (.inr (by decide)) rfl rfl rfl (pureAt_intLit _ _ 5) rfl rfl
    (by decide)
def afterBlock : St :=
  ((runBlock 9 [copyStmt, .expr (.assign (tk "<-") (.field (tk ".") (.var (tk "b")) (tk "f")) (lit 5))]).run.run exSt).2
/-- the model agrees: `a.f` is still 1, `b.f` is 5, `b.g.h` is the copied 2 -/
example : (readsInt afterBlock (locA [F "f"]) 1 && readsInt afterBlock (locB [F "f"]) 5 &&
    readsInt afterBlock (locB [F "g", F "h"]) 2 && readsInt afterBlock (locB [F "xs", .idx 1]) 20) = true := by decide +kernel

/-- `b.g.h` and `b.xs[2]` are rooted at `b` (in any state) -/
theorem rooted_bgh (σ : St) : Rooted σ 1 (tk "b") (.field (tk ".") (.field (tk ".") (.var (tk "b")) (tk "g")) (tk "h")) 3 :=
  .field _ _ (.field _ _ .var)
theorem rooted_bxs (σ : St) : Rooted σ 1 (tk "b") (.index (tk "[") (.field (tk ".") (.var (tk "b")) (tk "xs")) [lit 2]) 4 :=
  .index _ [lit 2] [.int 2] (.field _ _ .var) ⟨pureAt_intLit _ _ 2, trivial⟩

/-- after `b <- a`: whatever `b.g.h <- 9` and `b.xs[2] <- 77` do, every path under `a` reads as before the copy -/
example : ∃ σ₁, (execStmt 8 copyStmt).run.run exSt = (.ok .none, σ₁) ∧
    (∀ res σ₂, (execStmt 9 (.expr (.assign (tk "<-") (.field (tk ".") (.field (tk ".") (.var (tk "b")) (tk "g")) (tk "h")) (lit 9)))).run.run σ₁
        = (res, σ₂) → ∀ p, readLocP σ₂ (locA p) = readLocP exSt (locA p)) ∧
    (∀ res σ₂, (execStmt 9 (.expr (.assign (tk "<-") (.index (tk "[") (.field (tk ".") (.var (tk "b")) (tk "xs")) [lit 2]) (lit 77)))).run.run σ₁
        = (res, σ₂) → ∀ p, readLocP σ₂ (locA p) = readLocP exSt (locA p)) := by
  obtain ⟨σ₁, h1, _, _, _, h5, _⟩ := C07_exec_copy_independent exSt (tk "<-") (tk "b") (tk "a") (tk "a") 0 0 _ "R".toList recA rec0 8
    (by decide) hasA hasB rfl (.inr (by decide)) (by decide)
  exact ⟨σ₁, h1,
    fun res σ₂ h => (h5 (tk "<-") _ (lit 9) (.int 9) 1 3 9 res σ₂ (rooted_bgh _) (pureAt_intLit _ _ 9) (by decide) h).2,
    fun res σ₂ h => (h5 (tk "<-") _ (lit 77) (.int 77) 1 4 9 res σ₂ (rooted_bxs _) (pureAt_intLit _ _ 77) (by decide) h).2⟩
/-- the model: both writes do succeed and change `b`, and `a` keeps `g.h = 2`, `xs[2] = 20` -/
def afterDeep : St :=
  ((runBlock 12 [copyStmt,
      .expr (.assign (tk "<-") (.field (tk ".") (.field (tk ".") (.var (tk "b")) (tk "g")) (tk "h")) (lit 9)),
      .expr (.assign (tk "<-") (.index (tk "[") (.field (tk ".") (.var (tk "b")) (tk "xs")) [lit 2]) (lit 77))]).run.run exSt).2
example : (readsInt afterDeep (locB [F "g", F "h"]) 9 && readsInt afterDeep (locB [F "xs", .idx 1]) 77 &&
    readsInt afterDeep (locA [F "g", F "h"]) 2 && readsInt afterDeep (locA [F "xs", .idx 1]) 20 &&
    readsInt afterDeep (locA [F "f"]) 1 && readsInt afterDeep (locB [F "f"]) 1) = true := by decide +kernel
/-- and the other way round: a write under `a` after the copy does not show in `b` -/
example : (readsInt ((runBlock 9 [copyStmt, .expr (.assign (tk "<-") (.field (tk ".") (.var (tk "a")) (tk "f")) (lit 6))]).run.run exSt).2
      (locB [F "f"]) 1 &&
    readsInt ((runBlock 9 [copyStmt, .expr (.assign (tk "<-") (.field (tk ".") (.var (tk "a")) (tk "f")) (lit 6))]).run.run exSt).2
      (locA [F "f"]) 6) = true := by decide +kernel

/-! ### 4. `arr[2] <- a` and `w.inner <- a` -/

example : ∃ σ', (execAssign 8 (tk "<-") (.index (tk "[") (.var (tk "arr")) [lit 2]) (var "a")).run.run exSt = (.ok ⟨⟩, σ') ∧
    HasArray σ' (tk "arr").val 0 (.comp "R".toList) [(1, 2)] [rec0, recA] ∧
    (∀ p, readLocP σ' ⟨0, true, "arr".toList, .idx 1 :: p⟩ = readLocP exSt (locA p)) := by
  obtain ⟨σ', h1, h2, _, h4, _⟩ := C07_exec_elem_copies exSt (tk "<-") (tk "[") (tk "arr") (tk "a") (tk "a") [lit 2] [2] 0 0 _
    "R".toList recA [(1, 2)] [rec0, rec0] 1 8 hasArr hasA rfl ⟨pureAt_intLit _ _ 2, trivial⟩ ⟨⟨by decide, by decide⟩, trivial⟩
    (by decide)
  exact ⟨σ', h1, h2, fun p => (h4 p).1⟩
example : ∃ σ', (execAssign 5 (tk "<-") (.field (tk ".") (.var (tk "w")) (tk "inner")) (var "a")).run.run exSt = (.ok ⟨⟩, σ') ∧
    (∀ p, readLocP σ' ⟨0, false, "w".toList, F "inner" :: p⟩ = readLocP exSt (locA p)) ∧
    readLocP σ' ⟨0, false, "w".toList, [F "n"]⟩ = .ok (.int 7) := by
  obtain ⟨σ', h1, _, _, h4, h5, _⟩ := C07_exec_field_copies exSt (tk "<-") (tk ".") (tk "w") (tk "inner") (tk "a") (tk "a") 0 0 _ _
    "W".toList "R".toList fieldsW recA rec0 5 hasW hasA rfl rfl rfl rfl (.inr (by decide)) (by decide)
  exact ⟨σ', h1, fun p => (h4 p).1, (h5 "n".toList [] (by decide)).trans rfl⟩
/-- the model: `arr[2] <- a ; arr[2].f <- 8 ; w.inner <- a ; w.inner.g.h <- 3 ; a.xs[1] <- 11` -/
def afterStores : St :=
  ((runBlock 14 [
      .expr (.assign (tk "<-") (.index (tk "[") (.var (tk "arr")) [lit 2]) (var "a")),
      .expr (.assign (tk "<-") (.field (tk ".") (.index (tk "[") (.var (tk "arr")) [lit 2]) (tk "f")) (lit 8)),
      .expr (.assign (tk "<-") (.field (tk ".") (.var (tk "w")) (tk "inner")) (var "a")),
      .expr (.assign (tk "<-") (.field (tk ".") (.field (tk ".") (.field (tk ".") (.var (tk "w")) (tk "inner")) (tk "g")) (tk "h")) (lit 3)),
      .expr (.assign (tk "<-") (.index (tk "[") (.field (tk ".") (.var (tk "a")) (tk "xs")) [lit 1]) (lit 11))]).run.run exSt).2
example : (readsInt afterStores ⟨0, true, "arr".toList, [.idx 1, F "f"]⟩ 8 &&
    readsInt afterStores ⟨0, true, "arr".toList, [.idx 1, F "g", F "h"]⟩ 2 &&
    readsInt afterStores ⟨0, true, "arr".toList, [.idx 1, F "xs", .idx 0]⟩ 10 &&
    readsInt afterStores ⟨0, true, "arr".toList, [.idx 0, F "f"]⟩ 0 &&
    readsInt afterStores ⟨0, false, "w".toList, [F "inner", F "g", F "h"]⟩ 3 &&
    readsInt afterStores ⟨0, false, "w".toList, [F "inner", F "f"]⟩ 1 &&
    readsInt afterStores ⟨0, false, "w".toList, [F "inner", F "xs", .idx 0]⟩ 10 &&
    readsInt afterStores (locA [F "f"]) 1 && readsInt afterStores (locA [F "g", F "h"]) 2 &&
    readsInt afterStores (locA [F "xs", .idx 0]) 11) = true := by decide +kernel

/-! ### 5. `CALL P(a)` -/

def callT : Tok := tk "CALL" 9 1
theorem pureA : PureAt exSt 2 (var "a") recA := pureAt_hasVar (tk "a") (tk "a") hasA

theorem byval_run : (callProc 20 callT "P".toList [var "a"]).run.run exSt =
    (.ok ⟨⟩, { exSt with acts := [{ glob with switchTok := none }], steps := 1, nextId := 2 }) :=
  C07_exec_byval_copy exSt glob [] callT (tk "<-" 2 5) (tk "." 2 2) (tk "p" 2 1) (tk "f" 2 3) "P".toList procP "p".toList
    "R".toList (var "a") (lit 99) fieldsA (.int 99) (.int 1) 2 20 rfl rfl rfl rfl rfl pureA rfl rfl (by decide) (by decide)
    ((pureAt_intLit _ _ 99).mono (by decide)) rfl rfl (by decide)
example : readLocP ((callProc 20 callT "P".toList [var "a"]).run.run exSt).2 (locA []) = .ok recA :=
  (C07_exec_byval_copy_reads exSt glob [] callT (tk "<-" 2 5) (tk "." 2 2) (tk "p" 2 1) (tk "f" 2 3) "P".toList procP "p".toList
    "R".toList (var "a") (lit 99) fieldsA (.int 99) (.int 1) 2 20 rfl rfl rfl rfl rfl pureA rfl rfl (by decide) (by decide)
    ((pureAt_intLit _ _ 99).mono (by decide)) rfl rfl (by decide) (locA [])).2
/-- the same by running the model -/
example : (isOk ((callProc 20 callT "P".toList [var "a"]).run.run exSt).1 &&
    readsInt ((callProc 20 callT "P".toList [var "a"]).run.run exSt).2 (locA [F "f"]) 1) = true := by decide +kernel
/-- inside the body the parameter's field did get the value 99 while the caller's `a.f` stayed 1 -/
example : (readsInt ((runBlock 19 procP.body).run.run (C07.byvalBodySt exSt 0 callT procP "p".toList "R".toList recA)).2
      ⟨1, false, "p".toList, [F "f"]⟩ 99 &&
    readsInt ((runBlock 19 procP.body).run.run (C07.byvalBodySt exSt 0 callT procP "p".toList "R".toList recA)).2
      (locA [F "f"]) 1 &&
    readsInt ((runBlock 19 procP.body).run.run (C07.byvalBodySt exSt 0 callT procP "p".toList "R".toList recA)).2
      ⟨1, false, "p".toList, [F "g", F "h"]⟩ 2) = true := by decide +kernel
/-- the general form: the caller's record is untouched however the body's assignment ends -/
example : ∃ res σ', (callProc 20 callT "P".toList [var "a"]).run.run exSt = (res, σ') ∧
    ∀ p, readLocP σ' (locA p) = readLocP exSt (locA p) :=
  C07_exec_byval_copy_caller_record exSt glob [] callT (tk "<-" 2 5) (tk "p" 2 1) (tk "a") (tk "a") "P".toList procP "p".toList
    "R".toList (lit 99) _ 0 _ fieldsA (.int 99) 1 2 20 rfl idsBelow rfl rfl rfl rfl hasA (by decide) (.field _ _ .var)
    (pureAt_intLit _ _ 99) (by decide)

/-! ### 6. `b <- MkA()` -/

theorem pureA_callee : PureAt (tickSt (calleeSt (funAct funMk []) (setSwitch exSt 0 (tk "MkA" 9 6)))) 2 (var "a") recA :=
  pureAt_hasVar (tk "a") (tk "a")
    (HasVar.of_global _ (funAct funMk [] 1) { glob with switchTok := some (9, 6) } [{ glob with switchTok := some (9, 6) }]
      "a".toList { name := "a".toList, ty := .comp "R".toList, val := recA } rfl rfl rfl rfl rfl rfl rfl rfl)

example : ∃ σ', (execAssign 9 (tk "<-" 9 3) (.var (tk "b")) (.call (tk "MkA" 9 6) [])).run.run exSt = (.ok ⟨⟩, σ') ∧
    (∀ p, readLocP σ' (locB p) = pathRead recA p) ∧ (∀ p, readLocP σ' (locA p) = readLocP exSt (locA p)) := by
  obtain ⟨σ', h1, _, h3, h4, _⟩ := C07_exec_return_copy exSt glob [] (tk "<-" 9 3) (tk "b") (tk "MkA" 9 6) (tk "RETURN" 2 1) (var "a")
    funMk (tk "FUNCTION" 1 1) 0 "R".toList rec0 recA 2 9 rfl rfl rfl rfl rfl (by decide) (by decide) hasB pureA_callee rfl (by decide)
  exact ⟨σ', h1, h3, fun p => h4 _ (.inr (.inr (show "a".toList ≠ "b".toList by decide)))⟩
/-- the model: `b <- MkA() ; b.g.h <- 4` -/
def afterRet : St :=
  ((runBlock 12 [.expr (.assign (tk "<-" 9 3) (.var (tk "b")) (.call (tk "MkA" 9 6) [])),
      .expr (.assign (tk "<-") (.field (tk ".") (.field (tk ".") (.var (tk "b")) (tk "g")) (tk "h")) (lit 4))]).run.run exSt).2
example : (readsInt afterRet (locB [F "f"]) 1 && readsInt afterRet (locB [F "g", F "h"]) 4 &&
    readsInt afterRet (locA [F "g", F "h"]) 2 && readsInt afterRet (locA [F "f"]) 1) = true := by decide +kernel

/-! ### whole programs through lexer, parser and evaluator (kept short: the kernel runs lexer and parser as well) -/
/-- `b <- a`, then writes at depth 2 and into the array member of `b`: `a` keeps `g.h = 2`, `xs[2] = 0` -/
example : (runFile {} ("TYPE I\nDECLARE h : INTEGER\nENDTYPE\nTYPE R\nDECLARE g : I\nDECLARE xs : ARRAY[1:2] OF INTEGER\nENDTYPE\n" ++
    "DECLARE a, b : R\na.g.h <- 2\nb <- a\nb.g.h <- 6\nb.xs[2] <- 7\nOUTPUT a.g.h, a.xs[2], b.g.h, b.xs[2]\n").toList [] []).out
    = "2067\n".toList := by decide +kernel
/-- BYVAL: the procedure sees its own copy (9), the caller's record keeps 1 -/
example : (runFile {} ("TYPE R\nDECLARE f : INTEGER\nENDTYPE\nDECLARE a : R\nPROCEDURE P(BYVAL p : R)\np.f <- 9\nOUTPUT p.f\n" ++
    "ENDPROCEDURE\na.f <- 1\nCALL P(a)\nOUTPUT a.f\n").toList [] []).out = "9\n1\n".toList := by decide +kernel
/-- a returned record and a record stored in an array element are copies -/
example : (runFile {} ("TYPE R\nDECLARE f : INTEGER\nENDTYPE\nDECLARE a, b : R\nDECLARE r : ARRAY[1:2] OF R\n" ++
    "FUNCTION M() RETURNS R\nRETURN a\nENDFUNCTION\na.f <- 1\nb <- M()\nr[2] <- a\nb.f <- 5\nr[2].f <- 6\n" ++
    "OUTPUT a.f, b.f, r[2].f, r[1].f\n").toList [] []).out = "1560\n".toList := by decide +kernel
/-- a record stored in a field of another record is a copy -/
example : (runFile {} ("TYPE R\nDECLARE f : INTEGER\nENDTYPE\nTYPE W\nDECLARE i : R\nENDTYPE\nDECLARE a : R\nDECLARE w : W\n" ++
    "a.f <- 1\nw.i <- a\nw.i.f <- 3\nOUTPUT a.f, w.i.f\n").toList [] []).out = "13\n".toList := by decide +kernel
example : (runFile {} "TYPE R\nDECLARE f : INTEGER\nENDTYPE\nDECLARE a : R\nOUTPUT a.z\n".toList [] []).diags.map (·.msg)
    = [.noMember] := by decide +kernel
example : (runFile {} "DECLARE x : INTEGER\nOUTPUT x.f\n".toList [] []).diags.map (·.msg) = [.typeMismatch] := by decide +kernel
example : (runFile {} ("TYPE R\nDECLARE f : INTEGER\nENDTYPE\nTYPE S\nDECLARE f : INTEGER\nENDTYPE\nDECLARE a : R\nDECLARE b : S\n" ++
    "b <- a\n").toList [] []).diags.map (·.msg) = [.typeMismatch] := by decide +kernel

end C07ExecEx

end Pseudo
