import PseudoProofs.EvalInv
import Properties.C04
import PseudoModel.Top
/-!
# C08 — a CONSTANT never changes

`ConstAt σ id c v`: in state `σ`, activation `id` has a variable slot named `c` (the first with that name, the
one name lookup finds) that is marked constant and holds `v`.

Instance of the generic theorem `eval_all` with
`R σ σ' := C04.R σ σ' ∧ (IdsBelow σ → every ConstAt fact of σ is a ConstAt fact of σ')`:
the only function that changes the value of an existing cell (`writeLoc`) refuses a constant root, `addVar`
appends (so the first slot of a name is stable), `withAct` pushes a fresh id and pops it again.
Hence no statement — assignment, INPUT, FOR, READFILE, GETRECORD, BYREF parameter passing, pointer
dereference, …, whether it succeeds or fails — changes a constant, in any live activation.
-/
namespace Pseudo
namespace C08

/-- activation `id` has a constant named `name` with value `v` (first slot of that name) -/
def ConstAt (σ : St) (id : Nat) (name : Str) (v : Val) : Prop :=
  ∃ a s, σ.acts.find? (·.id == id) = some a ∧ findSlot a.vars name = some s ∧ s.isConst = true ∧ s.val = v

/-- stack discipline, and (for well-formed states) every constant keeps its value -/
def R (σ σ' : St) : Prop :=
  C04.R σ σ' ∧ (IdsBelow σ → ∀ id name v, ConstAt σ id name v → ConstAt σ' id name v)

instance : RPre R where
  refl σ := ⟨RPre.refl σ, fun _ _ _ _ h => h⟩
  trans h1 h2 := ⟨RPre.trans h1.1 h2.1, fun hb id name v h =>
    h2.2 (IdsBelow.of_R h1.1 hb) id name v (h1.2 hb id name v h)⟩

/-! ### updating one activation -/

theorem find_updActs_ne (acts : List Act) (id id' : Nat) (f : Act → Act) (hf : ∀ a, (f a).id = a.id) (hne : id' ≠ id) :
    (updActs acts id f).find? (·.id == id') = acts.find? (·.id == id') := by
  induction acts with
  | nil => rfl
  | cons a rest ih =>
    unfold updActs
    split
    · rename_i h
      have h1 : a.id = id := by simpa using h
      have h2 : ¬ (a.id = id') := by omega
      simp [hf, h2]
    · simp only [List.find?_cons, ih]

theorem find_updActs_eq (acts : List Act) (id : Nat) (f : Act → Act) (hf : ∀ a, (f a).id = a.id) :
    (updActs acts id f).find? (·.id == id) = (acts.find? (·.id == id)).map f := by
  induction acts with
  | nil => rfl
  | cons a rest ih =>
    unfold updActs
    split
    · rename_i h
      simp [hf, h]
    · rename_i h
      simp only [List.find?_cons, h, ih]

/-- `a'` still has every constant of `a`, with the same value -/
def Keeps (a a' : Act) : Prop :=
  ∀ name s, findSlot a.vars name = some s → s.isConst = true →
    ∃ s', findSlot a'.vars name = some s' ∧ s'.isConst = true ∧ s'.val = s.val

theorem constAt_updSt (σ : St) (id : Nat) (f : Act → Act) (hf : ∀ a, (f a).id = a.id)
    (hk : ∀ a, σ.acts.find? (·.id == id) = some a → Keeps a (f a)) (id' : Nat) (name : Str) (v : Val)
    (h : ConstAt σ id' name v) : ConstAt (updSt σ id f) id' name v := by
  obtain ⟨a, s, ha, hs, hc, hv⟩ := h
  by_cases hid : id' = id
  · subst hid
    obtain ⟨s', hs', hc', hv'⟩ := hk a ha name s hs hc
    refine ⟨f a, s', ?_, hs', hc', hv'.trans hv⟩
    show (updActs σ.acts id' f).find? _ = _
    rw [find_updActs_eq _ _ _ hf, ha]
    rfl
  · refine ⟨a, s, ?_, hs, hc, hv⟩
    show (updActs σ.acts id f).find? _ = _
    rw [find_updActs_ne _ _ _ _ hf hid, ha]

theorem R_updSt (σ : St) (id : Nat) (f : Act → Act) (hf : ∀ a, (f a).id = a.id)
    (hk : ∀ a, σ.acts.find? (·.id == id) = some a → Keeps a (f a)) : R σ (updSt σ id f) :=
  ⟨C04.R_updSt σ id f hf, fun _ id' name v h => constAt_updSt σ id f hf hk id' name v h⟩

theorem Keeps.of_vars_eq {a a' : Act} (h : a'.vars = a.vars) : Keeps a a' := by
  intro name s hs hc
  exact ⟨s, by rw [h]; exact hs, hc, rfl⟩

theorem Keeps.append (a : Act) (s0 : Slot) : Keeps a { a with vars := a.vars ++ [s0] } := by
  intro name s hs hc
  refine ⟨s, ?_, hc, rfl⟩
  show (a.vars ++ [s0]).find? _ = _
  unfold findSlot at hs
  rw [List.find?_append, hs]
  rfl

theorem findSlot_updSlot_ne (ss : List Slot) (n name : Str) (g : Slot → Slot) (hg : ∀ s, (g s).name = s.name)
    (hne : name ≠ n) : findSlot (updSlot ss n g) name = findSlot ss name := by
  induction ss with
  | nil => rfl
  | cons s rest ih =>
    unfold updSlot
    unfold findSlot at *
    split
    · rename_i h
      have h1 : s.name = n := by simpa using h
      have h2 : ¬ (s.name = name) := fun h' => hne (h'.symm.trans h1)
      simp [hg, h2]
    · simp only [List.find?_cons, ih]

/-- overwriting the value of the slot `n`, which is not a constant, keeps every constant -/
theorem Keeps.write (a : Act) (n : Str) (s : Slot) (nv : Val) (hs : findSlot a.vars n = some s) (hnc : s.isConst = false) :
    Keeps a { a with vars := updSlot a.vars n (fun s => { s with val := nv }) } := by
  intro name s0 hs0 hc0
  by_cases hn : name = n
  · subst hn
    rw [hs] at hs0
    cases hs0
    rw [hnc] at hc0
    cases hc0
  · exact ⟨s0, by rw [← hs0]; exact findSlot_updSlot_ne _ _ _ _ (fun _ => rfl) hn, hc0, rfl⟩

/-! ### the bracket -/

theorem constAt_lt {σ : St} (hb : IdsBelow σ) {id : Nat} {name : Str} {v : Val} (h : ConstAt σ id name v) :
    id < σ.nextId := by
  obtain ⟨a, _, ha, _⟩ := h
  have hm := List.mem_of_find?_eq_some ha
  have hid : a.id = id := by simpa using List.find?_some ha
  apply hb
  rw [← hid]
  exact List.mem_map_of_mem hm

theorem idsBelow_push (mk : Nat → Act) (σ : St) (hmk : ∀ i, (mk i).id = i) (hb : IdsBelow σ) : IdsBelow (pushSt mk σ) :=
  (C04_fresh_ids mk σ hmk hb).2.2.2

theorem R_bracket (mk : Nat → Act) (σ σ2 : St) (hmk : ∀ i, (mk i).id = i) (h : R (pushSt mk σ) σ2) : R σ (popSt σ2) := by
  refine ⟨C04.R_bracket mk σ σ2 h.1, ?_⟩
  intro hb id name v hc
  have hlt := constAt_lt hb hc
  have hne : ¬ (σ.nextId = id) := by omega
  -- the fact survives the push …
  have h1 : ConstAt (pushSt mk σ) id name v := by
    obtain ⟨a, s, ha, hs⟩ := hc
    refine ⟨a, s, ?_, hs⟩
    show (mk σ.nextId :: σ.acts).find? _ = _
    simp [hmk, hne, ha]
  -- … the body …
  obtain ⟨a, s, ha, hs⟩ := h.2 (idsBelow_push mk σ hmk hb) id name v h1
  -- … and the pop: the top of the stack still has the fresh id
  have hids : σ2.acts.map (·.id) = σ.nextId :: σ.acts.map (·.id) := by
    have := h.1.1
    simpa [C04.ids, pushSt, hmk] using this
  refine ⟨a, s, ?_, hs⟩
  show (σ2.acts.drop 1).find? _ = _
  cases hacts : σ2.acts with
  | nil => rw [hacts] at hids; simp at hids
  | cons top rest =>
    rw [hacts] at hids ha
    have htop : top.id = σ.nextId := by simpa using (List.cons.inj hids).1
    have : ¬ (top.id = id) := by omega
    simpa [List.find?_cons, this] using ha

/-! ### `writeLoc` -/

theorem run_findAct (id : Nat) (σ : St) : (findAct id).run.run σ = (.ok (σ.acts.find? (·.id == id)), σ) := rfl

theorem writeLoc_ok (Q : Stop → Prop) [QBase Q] (t : Tok) (l : Loc) (v : Val) : Ens R Q (writeLoc t l v) := by
  constructor
  intro σ
  unfold writeLoc
  rw [run_bind_ok _ _ _ _ _ (run_findAct l.act σ)]
  cases hfa : σ.acts.find? (·.id == l.act) with
  | none => exact (Ens.throw (QBase.crash _)).run σ
  | some a =>
    dsimp only
    cases hso : slotOf a l with
    | none => exact (Ens.throw (QBase.crash _)).run σ
    | some s =>
      dsimp only
      cases hc : s.isConst with
      | true => exact (Ens.l_rtErr t _).run σ
      | false =>
        simp only [Bool.false_eq_true, if_false]
        cases hsp : setPath s.val l.path v with
        | none => exact (Ens.throw (QBase.crash _)).run σ
        | some nv =>
          dsimp only
          have hid : a.id = l.act := by simpa using List.find?_some hfa
          refine ⟨R_updSt σ a.id _ (fun a' => ?_) (fun a' ha' => ?_), fun e h => by cases h⟩
          · split <;> rfl
          · rw [hid, hfa] at ha'
            cases ha'
            unfold slotOf at hso
            cases hl : l.isArr with
            | true => simp only [if_true]; exact Keeps.of_vars_eq rfl
            | false =>
              rw [hl] at hso
              simp only [Bool.false_eq_true, if_false] at hso ⊢
              exact Keeps.write a l.name s nv hso hc

theorem R_of_sameActs (σ σ' : St) (h : SameActs σ σ') : R σ σ' :=
  ⟨⟨by unfold C04.ids; rw [h.1], Nat.le_of_eq h.2.symm⟩, fun _ id name v hc => by
    unfold ConstAt at *; rw [h.1]; exact hc⟩

/-- the primitives never change a constant, whatever exceptions are allowed -/
instance primOK (Q : Stop → Prop) [QBase Q] : PrimOK R Q :=
  primOK_build R_of_sameActs
    (fun σ id f hf => R_updSt σ id f (fun a => (hf a).1) fun a _ => Keeps.of_vars_eq (hf a).2.1)
    (fun σ id s => R_updSt σ id _ (fun _ => rfl) fun a _ => Keeps.append a s)
    (fun σ id _ => R_updSt σ id _ (fun _ => rfl) fun _ _ => Keeps.of_vars_eq rfl)
    (writeLoc_ok Q)
    R_bracket

/-- all 25 functions of the evaluator leave every constant alone -/
theorem all (fuel : Nat) : AllEns R (fun _ => True) (fun _ => True) fuel := eval_all R _ _ fuel

/-- `runMain` (a whole program / one REPL entry, `Top.lean`) -/
theorem runMain_ok (fuel : Nat) (b : Block) : Ens R (fun _ => True) (runMain fuel b) :=
  runMain_ens fuel b ((all fuel).runBlock b)

/-- a REPL history: entries (blocks) run one after the other on the same state, each through `runOn` -/
def runHistory (fuel : Nat) (σ : St) (bs : List Block) : St := bs.foldl (fun σ b => (runOn fuel b σ).2) σ

theorem rtErr_run {α : Type} (t : Tok) (msg : Msg) (σ : St) :
    ∃ d, (rtErr t msg : M α).run.run σ = (.error (.diag d), σ) ∧ d.msg = msg ∧ d.kind = .runtime ∧
      d.line = t.line ∧ d.col = t.col := by
  unfold rtErr mkRuntime
  cases hacts : σ.acts with
  | nil =>
    refine ⟨{ kind := .runtime, line := t.line, col := t.col, msg := msg }, ?_, rfl, rfl, rfl, rfl⟩
    rw [run_bind_ok _ _ σ σ { kind := .runtime, line := t.line, col := t.col, msg := msg }]
    · rfl
    · rw [run_bind_ok _ _ _ _ _ (run_get σ)]
      simp only [hacts]
      rfl
  | cons a parents =>
    refine ⟨{ kind := .runtime, line := t.line, col := t.col, msg := msg,
              trace := { name := a.name, line := t.line, col := t.col } :: parents.map fun p =>
                match p.switchTok with
                | some (l, c) => { name := p.name, line := l, col := c }
                | none => { name := p.name, line := 0, col := 0 } }, ?_, rfl, rfl, rfl, rfl⟩
    rw [run_bind_ok _ _ σ σ]
    · rfl
    · rw [run_bind_ok _ _ _ _ _ (run_get σ)]
      simp only [hacts]
      rfl

end C08

open C08

/-- **C08 (a constant never changes).** In a well-formed state (live ids below the id counter: true initially,
    preserved by everything — `C04_init_idsBelow`, `C04_idsBelow_preserved`), a constant `c` of activation `id`
    with value `v` is, after any statement and however the statement ends, still a constant of that activation
    with value `v`. `id = 0` is the global activation. -/
theorem C08_const_forever {σ : St} (hb : IdsBelow σ) {id : Nat} {c : Str} {v : Val} (h : ConstAt σ id c v)
    (fuel : Nat) (s : Stmt) : ConstAt ((execStmt fuel s).run.run σ).2 id c v :=
  (((C08.all fuel).execStmt s).run σ).1.2 hb id c v h

/-- the same for an expression (assignments are expressions) -/
theorem C08_const_forever_expr {σ : St} (hb : IdsBelow σ) {id : Nat} {c : Str} {v : Val} (h : ConstAt σ id c v)
    (fuel : Nat) (e : Expr) : ConstAt ((evalExpr fuel e).run.run σ).2 id c v :=
  (((C08.all fuel).evalExpr e).run σ).1.2 hb id c v h

/-- … for a block (a whole program) … -/
theorem C08_const_forever_block {σ : St} (hb : IdsBelow σ) {id : Nat} {c : Str} {v : Val} (h : ConstAt σ id c v)
    (fuel : Nat) (b : Block) : ConstAt ((runBlock fuel b).run.run σ).2 id c v :=
  (((C08.all fuel).runBlock b).run σ).1.2 hb id c v h

/-- … for a program run through `runOn` (file mode, one REPL entry) … -/
theorem C08_const_forever_runOn {σ : St} (hb : IdsBelow σ) {id : Nat} {c : Str} {v : Val} (h : ConstAt σ id c v)
    (fuel : Nat) (b : Block) : ConstAt (runOn fuel b σ).2 id c v ∧ IdsBelow (runOn fuel b σ).2 := by
  rw [runOn_state]
  have hr := ((runMain_ok fuel b).run σ).1
  exact ⟨hr.2 hb id c v h, IdsBelow.of_R hr.1 hb⟩

/-- … and for every REPL history: however many entries are run on the session state, whatever they do and
    however each of them ends, the constant is still there with its value. -/
theorem C08_const_forever_history {σ : St} (hb : IdsBelow σ) {id : Nat} {c : Str} {v : Val} (h : ConstAt σ id c v)
    (fuel : Nat) (bs : List Block) :
    ConstAt (runHistory fuel σ bs) id c v ∧ IdsBelow (runHistory fuel σ bs) := by
  induction bs generalizing σ with
  | nil => exact ⟨h, hb⟩
  | cons b bs ih =>
    have := C08_const_forever_runOn hb h fuel b
    exact ih this.2 this.1

/-- the same for blocks run directly one after the other (`List.foldl`) -/
theorem C08_const_forever_blocks {σ : St} (hb : IdsBelow σ) {id : Nat} {c : Str} {v : Val} (h : ConstAt σ id c v)
    (fuel : Nat) (bs : List Block) :
    ConstAt (bs.foldl (fun σ b => ((runBlock fuel b).run.run σ).2) σ) id c v := by
  induction bs generalizing σ with
  | nil => exact h
  | cons b bs ih =>
    have hr := (((C08.all fuel).runBlock b).run σ).1
    exact ih (IdsBelow.of_R hr.1 hb) (hr.2 hb id c v h)

/-- … and for the REPL itself (`replLoop`, `Top.lean`): from the session state `r.st` to the state after the
    session — prompts, `?`, RUNFILE, multi-line entries, entries that fail to lex, parse or run included. -/
theorem C08_const_forever_repl (cfg : Cfg) (n : Nat) (first : Bool) (r : ReplSt) (hb : IdsBelow r.st)
    {id : Nat} {c : Str} {v : Val} (h : ConstAt r.st id c v) :
    ConstAt (replLoop cfg n first r).st id c v ∧ IdsBelow (replLoop cfg n first r).st :=
  have hr := replLoop_rel R_of_sameActs runMain_ok cfg n first r
  ⟨hr.2 hb id c v h, IdsBelow.of_R hr.1 hb⟩

/-- **C08 (the attempt is an error).** `writeLoc` — the one function through which assignment, INPUT, FOR,
    READFILE, GETRECORD and BYREF write — on a location whose root slot is a constant ends in the runtime
    diagnostic `constAssign` at the statement's token, and the state is exactly what it was. -/
theorem C08_attempt_is_error (t : Tok) (l : Loc) (v : Val) (σ : St) (a : Act) (s : Slot)
    (ha : σ.acts.find? (·.id == l.act) = some a) (hs : slotOf a l = some s) (hc : s.isConst = true) :
    ∃ d, (writeLoc t l v).run.run σ = (.error (.diag d), σ) ∧ d.msg = .constAssign ∧ d.kind = .runtime ∧
      d.line = t.line ∧ d.col = t.col := by
  unfold writeLoc
  rw [run_bind_ok _ _ _ _ _ (run_findAct l.act σ)]
  simp only [ha, hs, hc, if_true]
  exact rtErr_run t .constAssign σ

theorem run_curAct_cons (σ : St) (a : Act) (rest : List Act) (h : σ.acts = a :: rest) :
    curAct.run.run σ = (.ok a, σ) := by
  unfold curAct
  rw [run_bind_ok _ _ _ _ _ (run_get σ)]
  simp only [h]
  rfl

theorem run_curAct_nil (σ : St) (h : σ.acts = []) :
    curAct.run.run σ = (.error (.crash .noActivation), σ) := by
  unfold curAct
  rw [run_bind_ok _ _ _ _ _ (run_get σ)]
  simp only [h]
  rfl

/-- **C08 (where constants come from).** A `CONSTANT name = e` statement that succeeds leaves the current
    activation with the constant `name`, holding the value of `e` -/
theorem C08_const_declared (f : Nat) (t name : Tok) (e : Expr) (σ σ' : St) (r : Val)
    (h : (execStmt (f + 1) (.const t name e)).run.run σ = (.ok r, σ')) :
    ∃ a v, σ'.acts.head? = some a ∧ ConstAt σ' a.id name.val v := by
  rw [execStmt.eq_def] at h
  dsimp only at h
  rcases ht : (tick t).run.run σ with ⟨e1 | u, σ1⟩
  · rw [run_bind_err _ _ _ _ _ ht] at h; cases h
  rw [run_bind_ok _ _ _ _ _ ht] at h
  rcases hv : (evalExpr f e).run.run σ1 with ⟨e2 | v, σ2⟩
  · rw [run_bind_err _ _ _ _ _ hv] at h; cases h
  rw [run_bind_ok _ _ _ _ _ hv] at h
  cases hacts : σ2.acts with
  | nil => rw [run_bind_err _ _ _ _ _ (run_curAct_nil σ2 hacts)] at h; cases h
  | cons a rest =>
    rw [run_bind_ok _ _ _ _ _ (run_curAct_cons σ2 a rest hacts)] at h
    by_cases hdup : (findSlot a.vars name.val).isSome = true
    · simp only [hdup, if_true] at h
      obtain ⟨d, hd, _⟩ := rtErr_run (α := Val) t .redeclared σ2
      rw [hd] at h; cases h
    · simp only [hdup, Bool.false_eq_true, if_false] at h
      have hadd : (addVar { name := name.val, ty := v.ty, isConst := true, val := v }).run.run σ2 =
          (.ok ⟨⟩, updSt σ2 a.id fun a => { a with vars := a.vars ++ [{ name := name.val, ty := v.ty, isConst := true, val := v }] }) := by
        unfold addVar modifyCur
        rw [run_bind_ok _ _ _ _ _ (run_curAct_cons σ2 a rest hacts)]
        rfl
      rw [run_bind_ok _ _ _ _ _ hadd] at h
      have hσ' : σ' = updSt σ2 a.id fun a => { a with vars := a.vars ++ [{ name := name.val, ty := v.ty, isConst := true, val := v }] } :=
        (congrArg Prod.snd h).symm
      have hupd : σ'.acts = { a with vars := a.vars ++ [{ name := name.val, ty := v.ty, isConst := true, val := v }] } :: rest := by
        rw [hσ']
        show updActs σ2.acts a.id _ = _
        rw [hacts]
        simp [updActs]
      have hnone : findSlot a.vars name.val = none := by
        cases hfs : findSlot a.vars name.val with
        | none => rfl
        | some s => rw [hfs] at hdup; simp at hdup
      refine ⟨{ a with vars := a.vars ++ [{ name := name.val, ty := v.ty, isConst := true, val := v }] }, v, ?_, ?_⟩
      · rw [hupd]; rfl
      · refine ⟨{ a with vars := a.vars ++ [{ name := name.val, ty := v.ty, isConst := true, val := v }] },
          { name := name.val, ty := v.ty, isConst := true, val := v }, ?_, ?_, rfl, rfl⟩
        · rw [hupd]
          simp
        · show findSlot (a.vars ++ [_]) name.val = _
          unfold findSlot at hnone ⊢
          rw [List.find?_append, hnone]
          simp

/-! ### non-vacuity -/

/-- the initial state plus a global constant `K = 3` -/
def C08.demoSt : St :=
  { St.init [] [] false false with
    acts := [{ mkGlobal with vars := [{ name := "K".toList, ty := .int, isConst := true, val := .int 3 }] }] }

theorem C08.demoSt_const : ConstAt C08.demoSt 0 "K".toList (.int 3) := ⟨_, _, rfl, rfl, rfl, rfl⟩
theorem C08.demoSt_idsBelow : IdsBelow C08.demoSt := by
  intro i hi
  have : i = 0 := by simpa [C04.ids, C08.demoSt, mkGlobal, globalId] using hi
  subst this; exact Nat.zero_lt_one
/-- writing to `K` is refused and changes nothing -/
example (t : Tok) : ∃ d, (writeLoc t ⟨0, false, "K".toList, []⟩ (.int 5)).run.run C08.demoSt = (.error (.diag d), C08.demoSt) ∧
    d.msg = .constAssign :=
  have ⟨d, h1, h2, _⟩ := C08_attempt_is_error t ⟨0, false, "K".toList, []⟩ (.int 5) C08.demoSt _ _ rfl rfl rfl
  ⟨d, h1, h2⟩
/-- the statements `K <- 5`, `INPUT K` and `FOR K <- 1 TO 2 … NEXT` on this state are refused with `constAssign`
    (computed by the model) — and by `C08_const_forever` the state afterwards still has `K = 3` -/
def C08.demoTok (s : String) : Tok := { k := .IDENTIFIER, line := 1, col := 1, val := s.toList }
def C08.isConstAssign : Except Stop Val → Bool
  | .error (.diag d) => d.msg == .constAssign
  | _ => false
example : C08.isConstAssign ((execStmt 6 (.expr (.assign (C08.demoTok "<-") (.var (C08.demoTok "K")) (.intLit (C08.demoTok "5") 5)))).run.run
    C08.demoSt).1 = true := by decide
example : C08.isConstAssign ((execStmt 6 (.input (C08.demoTok "INPUT") (.var (C08.demoTok "K")))).run.run C08.demoSt).1 = true := by decide
example : C08.isConstAssign ((execStmt 6 (.for (C08.demoTok "FOR") (C08.demoTok "K") (.intLit (C08.demoTok "1") 1) (.intLit (C08.demoTok "2") 2)
    none [])).run.run C08.demoSt).1 = true := by decide
example (s : Stmt) : ConstAt ((execStmt 6 s).run.run C08.demoSt).2 0 "K".toList (.int 3) :=
  C08_const_forever C08.demoSt_idsBelow C08.demoSt_const 6 s
/-- after any history of REPL entries `K` is still the constant 3 -/
example (fuel : Nat) (bs : List Block) : ConstAt (runHistory fuel C08.demoSt bs) 0 "K".toList (.int 3) :=
  (C08_const_forever_history C08.demoSt_idsBelow C08.demoSt_const fuel bs).1

end Pseudo
