import PseudoProofs.FileStmtSeq
import Properties.C16
/-!
# C16 (and C13–C15) for programs: the file statements of `execStmt` refine the pure file layer

`Properties/C13 … C16` prove the file properties about the pure machine `fpre` / `fstep` / `closeAllF` (`FilesPure.lean`).
Here the machine is tied to what runs:

1. `C16_exec_doFile_refines`, `C16_exec_filePre_refines`: the two wrappers through which `Eval` touches files are `fstep` /
   `fpre` lifted to the interpreter state, exactly.
2. One theorem per file statement (`C16_exec_openFile`, `…closeFile`, `…writeFile`, `…seek`, `…putRecord`, `…readFile`,
   `…readFile_new`, `…getRecord`, and the `…_illegal` / `…_lit` forms): the complete run of the statement from `σ` is given by
   `fstep` on the file component of `σ`; the final state is stated EXACTLY. Hypothesis on the file-name / payload / address
   expression: it evaluates to a value without changing the state (`EvalsTo`, in the state after the statement's tick); literals
   satisfy it (`…_lit`). `StepRefines` (see `PseudoProofs/FileStmt.lean`) says: accepted ⇒ result NONE, file component := the new
   one, `steps + 1`, nothing else; rejected ⇒ runtime diagnostic of the same class at the statement's token, `steps + 1`,
   nothing else ("an illegal file statement has no effect"). `tick` changes `steps` only; `rtErr` changes nothing (the
   diagnostic is the exception value; `out` is only touched later, by `runSource`).
3. Composition with the pure theorems: `C16_exec_block_refines` (a block of literal file statements is `fsteps`),
   `C16_exec_close_then_read_back` (C15), `C16_exec_random_put_get` (C13/C14), and exit: `C16_exec_runMain_closes`.
-/
namespace Pseudo
open FileStmt

/-! ## 1. the wrappers -/

/-- `doFile` is exactly `fstep`, lifted -/
theorem C16_exec_doFile_refines (t : Tok) (op : FOp) (σ : St) :
    (∀ s' r, fstep { fs := σ.fs, handles := σ.handles } op = .ok (s', r) →
      (doFile t op).run.run σ = (.ok r, { σ with fs := s'.fs, handles := s'.handles })) ∧
    (∀ m, fstep { fs := σ.fs, handles := σ.handles } op = .error m →
      ∃ d, (doFile t op).run.run σ = (.error (.diag d), σ) ∧
        d.kind = .runtime ∧ d.msg = m ∧ d.line = t.line ∧ d.col = t.col) :=
  ⟨fun s' r h => run_doFile_ok t op σ s' r h,
   fun m h => by rw [run_doFile_err t op σ m h]; exact errAt_spec σ t m⟩

/-- `filePre` is exactly `fpre`, lifted (it never changes the state) -/
theorem C16_exec_filePre_refines (t : Tok) (op : FOp) (σ : St) :
    (fpre { fs := σ.fs, handles := σ.handles } op = .ok () → (filePre t op).run.run σ = (.ok ⟨⟩, σ)) ∧
    (∀ m, fpre { fs := σ.fs, handles := σ.handles } op = .error m →
      ∃ d, (filePre t op).run.run σ = (.error (.diag d), σ) ∧
        d.kind = .runtime ∧ d.msg = m ∧ d.line = t.line ∧ d.col = t.col) :=
  ⟨fun h => run_filePre_ok t op σ h,
   fun m h => by rw [run_filePre_err t op σ m h]; exact errAt_spec σ t m⟩

/-! ## 2. the statements -/

/-- a file statement over the step budget is reported and changes nothing at all -/
theorem C16_exec_budget (f : Nat) (t : Tok) (fn : Expr) (mode : FileMode) (e : Expr) (id : Tok) (σ : St)
    (h : σ.steps + 1 > σ.stepLimit) :
    ∀ s ∈ [Stmt.openFile t fn mode, .closeFile t fn, .writeFile t fn e, .seek t fn e, .readFile t fn id,
            .getRecord t fn id, .putRecord t fn id],
      ∃ d, (execStmt (f+1) s).run.run σ = (.error (.diag d), σ) ∧ d.kind = .runtime ∧ d.msg = .budget := by
  intro s hs
  have key : ∀ s, (∃ k : M Val, execStmt (f+1) s = (do tick t; k)) →
      ∃ d, (execStmt (f+1) s).run.run σ = (.error (.diag d), σ) ∧ d.kind = .runtime ∧ d.msg = .budget := by
    intro s hk
    rw [exec_budget f s t σ h hk]
    obtain ⟨d, h1, h2, h3, _⟩ := errAt_spec (α := Val) σ t .budget
    exact ⟨d, h1, h2, h3⟩
  simp only [List.mem_cons, List.mem_nil_iff, or_false] at hs
  rcases hs with rfl | rfl | rfl | rfl | rfl | rfl | rfl
  · exact key _ ⟨_, execStmt_openFile f t fn mode⟩
  · exact key _ ⟨_, execStmt_closeFile f t fn⟩
  · exact key _ ⟨_, execStmt_writeFile f t fn e⟩
  · exact key _ ⟨_, execStmt_seek f t fn e⟩
  · exact key _ ⟨_, execStmt_readFile f t fn id⟩
  · exact key _ ⟨_, execStmt_getRecord f t fn id⟩
  · exact key _ ⟨_, execStmt_putRecord f t fn id⟩

/-- **OPENFILE** `fn` FOR `mode` is `fstep … (.open name mode)` -/
theorem C16_exec_openFile (f : Nat) (t : Tok) (fn : Expr) (mode : FileMode) (σ : St) (name : Str)
    (hb : σ.steps + 1 ≤ σ.stepLimit) (hfn : EvalsTo f fn (tickSt σ) (.str name)) :
    StepRefines ((execStmt (f+2) (.openFile t fn mode)).run.run σ) σ t (.open name mode) := by
  rw [exec_openFile f t fn mode σ name hb hfn]; exact liftStep_refines σ t _

/-- **CLOSEFILE** `fn` is `fstep … (.close name)` -/
theorem C16_exec_closeFile (f : Nat) (t : Tok) (fn : Expr) (σ : St) (name : Str)
    (hb : σ.steps + 1 ≤ σ.stepLimit) (hfn : EvalsTo f fn (tickSt σ) (.str name)) :
    StepRefines ((execStmt (f+2) (.closeFile t fn)).run.run σ) σ t (.close name) := by
  rw [exec_closeFile f t fn σ name hb hfn]; exact liftStep_refines σ t _

/-- **WRITEFILE** `fn`, `e` with a printable payload (`writeTextP v = .ok txt`: INTEGER, REAL, BOOLEAN, CHAR, STRING, DATE)
    is `fstep … (.write name txt)` -/
theorem C16_exec_writeFile (f : Nat) (t : Tok) (fn e : Expr) (σ : St) (name : Str) (v : Val) (txt : Str)
    (hb : σ.steps + 1 ≤ σ.stepLimit) (hfn : EvalsTo f fn (tickSt σ) (.str name)) (he : EvalsTo (f+1) e (tickSt σ) v)
    (hv : writeTextP v = .ok txt) :
    StepRefines ((execStmt (f+2) (.writeFile t fn e)).run.run σ) σ t (.write name txt) := by
  rw [exec_writeFile f t fn e σ name v hb hfn he, hv]
  cases hp : fpre (fileSt σ) (.write name []) with
  | ok u => exact liftStep_refines σ t _
  | error m =>
    have hs : fstep (fileSt σ) (.write name txt) = .error m := fstep_of_fpre_err _ _ _ hp
    dsimp only
    rw [← liftStep_err σ t _ m hs]
    exact liftStep_refines σ t _

/-- WRITEFILE with a payload that has no text (no value, enum, pointer, record, array): a runtime error, no effect -/
theorem C16_exec_writeFile_unprintable (f : Nat) (t : Tok) (fn e : Expr) (σ : St) (name : Str) (v : Val) (m : Msg)
    (hb : σ.steps + 1 ≤ σ.stepLimit) (hfn : EvalsTo f fn (tickSt σ) (.str name)) (he : EvalsTo (f+1) e (tickSt σ) v)
    (hv : writeTextP v = .error m) :
    ∃ d, (execStmt (f+2) (.writeFile t fn e)).run.run σ = (.error (.diag d), { σ with steps := σ.steps + 1 }) ∧
      d.kind = .runtime ∧ (d.msg = m ∨ fpre { fs := σ.fs, handles := σ.handles } (.write name []) = .error d.msg) := by
  rw [exec_writeFile f t fn e σ name v hb hfn he, hv]
  cases hp : fpre (fileSt σ) (.write name []) with
  | ok u =>
    obtain ⟨d, h1, h2, h3, _⟩ := errAt_spec (α := Val) (tickSt σ) t m
    exact ⟨d, h1, h2, Or.inl h3⟩
  | error m' =>
    obtain ⟨d, h1, h2, h3, _⟩ := errAt_spec (α := Val) (tickSt σ) t m'
    refine ⟨d, h1, h2, Or.inr ?_⟩
    rw [h3]; exact hp

/-- **SEEK** `fn`, `addr`: for an address ≥ 1 it is `fstep … (.seek name a)`; an address below 1 is refused with class
    `seekRange` before the file name is looked at (the pure layer refuses it as well, possibly with `notOpen` / `wrongMode`) -/
theorem C16_exec_seek (f : Nat) (t : Tok) (fn addr : Expr) (σ : St) (name : Str) (a : Int)
    (hb : σ.steps + 1 ≤ σ.stepLimit) (haddr : EvalsTo (f+1) addr (tickSt σ) (.int a)) (hfn : EvalsTo f fn (tickSt σ) (.str name)) :
    (1 ≤ a → StepRefines ((execStmt (f+2) (.seek t fn addr)).run.run σ) σ t (.seek name a)) ∧
    (a < 1 → (∃ m, fstep { fs := σ.fs, handles := σ.handles } (.seek name a) = .error m) ∧
      ∃ d, (execStmt (f+2) (.seek t fn addr)).run.run σ = (.error (.diag d), { σ with steps := σ.steps + 1 }) ∧
        d.kind = .runtime ∧ d.msg = .seekRange) := by
  rw [exec_seek f t fn addr σ name a hb haddr hfn]
  constructor
  · intro ha
    have : ¬ a < 1 := by omega
    simp only [this, if_false]
    exact liftStep_refines σ t _
  · intro ha
    simp only [ha, if_true]
    obtain ⟨d, h1, h2, h3, _⟩ := errAt_spec (α := Val) (tickSt σ) t .seekRange
    exact ⟨fstep_seek_low _ name a ha, d, h1, h2, h3⟩

/-- **PUTRECORD** `fn`, `id`: with `cur` the current value of the variable (or array) `id` — not of a pointer type — it is
    `fstep … (.put name (Codec.dump cur))` -/
theorem C16_exec_putRecord (f : Nat) (t : Tok) (fn : Expr) (id : Tok) (σ : St) (name : Str) (v? a? : Option (Act × Slot))
    (loc : Loc) (ty : Ty) (cur : Val)
    (hb : σ.steps + 1 ≤ σ.stepLimit) (hfn : EvalsTo f fn (tickSt σ) (.str name))
    (hlv : lookupVarP σ id.val = .ok v?) (hla : lookupArrP σ id.val = .ok a?)
    (htgt : recTarget v? a? = some (loc, ty)) (hty : isPtrTy ty = false) (hcur : readLocP σ loc = .ok cur) :
    StepRefines ((execStmt (f+2) (.putRecord t fn id)).run.run σ) σ t (.put name (Codec.dump cur)) := by
  rw [exec_putRecord f t fn id σ name v? a? hb hfn hlv hla, htgt]
  simp only [hty, Bool.false_eq_true, if_false, hcur]
  cases hp : fpre (fileSt σ) (.put name []) with
  | ok u => exact liftStep_refines σ t _
  | error m =>
    have hs : fstep (fileSt σ) (.put name (Codec.dump cur)) = .error m := fstep_of_fpre_err _ _ _ hp
    dsimp only
    rw [← liftStep_err σ t _ m hs]
    exact liftStep_refines σ t _

/-- PUTRECORD / GETRECORD on a file not open for RANDOM: a runtime error of the pure layer's class, no effect
    (the variable is not even looked up) -/
theorem C16_exec_record_illegal (f : Nat) (t : Tok) (fn : Expr) (id : Tok) (σ : St) (name : Str) (m : Msg)
    (hb : σ.steps + 1 ≤ σ.stepLimit) (hfn : EvalsTo f fn (tickSt σ) (.str name))
    (h : fpre { fs := σ.fs, handles := σ.handles } (.get name) = .error m) :
    (∃ d, (execStmt (f+2) (.putRecord t fn id)).run.run σ = (.error (.diag d), { σ with steps := σ.steps + 1 }) ∧
      d.kind = .runtime ∧ d.msg = m) ∧
    (∃ d, (execStmt (f+2) (.getRecord t fn id)).run.run σ = (.error (.diag d), { σ with steps := σ.steps + 1 }) ∧
      d.kind = .runtime ∧ d.msg = m) := by
  have h' : fpre (fileSt σ) (.put name []) = .error m := h
  rw [exec_putRecord_illegal f t fn id σ name m hb hfn h', exec_getRecord_illegal f t fn id σ name m hb hfn h]
  obtain ⟨d, h1, h2, h3, _⟩ := errAt_spec (α := Val) (tickSt σ) t m
  exact ⟨⟨d, h1, h2, h3⟩, ⟨d, h1, h2, h3⟩⟩

/-- **READFILE** `fn`, `id` into an existing STRING variable that can be assigned (`loc` = its location; for a BYREF formal the
    caller's): the line and the new handle state are those of `fstep … (.readLine name)`; the line is stored through `writeLoc`;
    the final state is the start state with `steps + 1`, the new file component, and the root cell of `loc` updated
    (`writeLocSt`: the cell named `loc.name` of activation `loc.act` gets the value `root`, which is the line itself for a
    whole variable). Rejected ⇒ runtime diagnostic, nothing but `steps` changed. -/
theorem C16_exec_readFile (f : Nat) (t : Tok) (fn : Expr) (id : Tok) (σ : St) (name : Str) (a : Act) (s : Slot) (old : Val)
    (hb : σ.steps + 1 ≤ σ.stepLimit) (hfn : EvalsTo f fn (tickSt σ) (.str name))
    (hlv : lookupVarP σ id.val = .ok (some (a, s))) (hty : s.ty = .str)
    (hc : locConstP σ (varLoc a s) = false) (hold : readLocP σ (varLoc a s) = .ok old) (hk : old.isArr = false) :
    (∀ s' r, fstep { fs := σ.fs, handles := σ.handles } (.readLine name) = .ok (s', r) →
      ∃ line root, r = .line line ∧
        (execStmt (f+2) (.readFile t fn id)).run.run σ =
          (.ok .none, writeLocSt { σ with steps := σ.steps + 1, fs := s'.fs, handles := s'.handles } (varLoc a s) root) ∧
        readLocP (writeLocSt { σ with steps := σ.steps + 1, fs := s'.fs, handles := s'.handles } (varLoc a s) root)
          (varLoc a s) = .ok (.str line) ∧
        ((varLoc a s).path = [] → root = .str line)) ∧
    (∀ m, fstep { fs := σ.fs, handles := σ.handles } (.readLine name) = .error m →
      ∃ d, (execStmt (f+2) (.readFile t fn id)).run.run σ = (.error (.diag d), { σ with steps := σ.steps + 1 }) ∧
        d.kind = .runtime ∧ d.msg = m) := by
  have hty' : ¬ ((s.ty != .str) = true) := by rw [hty]; decide
  rw [exec_readFile_var f t fn id σ name a s hb hfn hlv]
  simp only [hty', Bool.false_eq_true, if_false]
  constructor
  · intro s' r h
    obtain ⟨line, rfl⟩ := (fstep_readLine _ name).2 s' r h
    have hp : fpre (fileSt σ) (.readLine name) = .ok () := fpre_of_fstep_ok _ _ _ h
    rw [hp]
    dsimp only
    unfold readInto
    have hc' : locConstP (tickSt σ) (varLoc a s) = false := hc
    have h' : fstep (fileSt (tickSt σ)) (.readLine name) = .ok (s', .line line) := h
    rw [hc', h']
    simp only [Bool.false_eq_true, if_false]
    have hold' : readLocP (setFile (tickSt σ) s') (varLoc a s) = .ok old := hold
    have hc'' : locConstP (setFile (tickSt σ) s') (varLoc a s) = false := hc
    obtain ⟨root, h1, h2, h3⟩ := thenWrite_ok t (varLoc a s) (.str line) old _ hold' hc'' (by rw [hk]; rfl)
    exact ⟨line, root, rfl, h1, h2, h3⟩
  · intro m h
    have hp := (fstep_readLine _ name).1 m h
    have hp' : fpre (fileSt σ) (.readLine name) = .error m := hp
    rw [hp']
    obtain ⟨d, h1, h2, h3, _⟩ := errAt_spec (α := Val) (tickSt σ) t m
    exact ⟨d, h1, h2, h3⟩

/-- **READFILE into a name that is not a variable yet**: when (and only when) the read is legal, a STRING variable `id` is
    created in the current activation `a` (`addStrVar`) and receives the line. -/
theorem C16_exec_readFile_new (f : Nat) (t : Tok) (fn : Expr) (id : Tok) (σ : St) (name : Str) (a : Act) (rest : List Act)
    (hb : σ.steps + 1 ≤ σ.stepLimit) (hfn : EvalsTo f fn (tickSt σ) (.str name))
    (hacts : σ.acts = a :: rest) (hlv : lookupVarP σ id.val = .ok none) :
    (∀ s' r, fstep { fs := σ.fs, handles := σ.handles } (.readLine name) = .ok (s', r) →
      ∃ line, r = .line line ∧
        (execStmt (f+2) (.readFile t fn id)).run.run σ =
          (.ok .none, writeLocSt (addStrVar { σ with steps := σ.steps + 1, fs := s'.fs, handles := s'.handles } a.id id.val)
              { act := a.id, isArr := false, name := id.val, path := [] } (.str line)) ∧
        readLocP (writeLocSt (addStrVar { σ with steps := σ.steps + 1, fs := s'.fs, handles := s'.handles } a.id id.val)
              { act := a.id, isArr := false, name := id.val, path := [] } (.str line))
          { act := a.id, isArr := false, name := id.val, path := [] } = .ok (.str line)) ∧
    (∀ m, fstep { fs := σ.fs, handles := σ.handles } (.readLine name) = .error m →
      ∃ d, (execStmt (f+2) (.readFile t fn id)).run.run σ = (.error (.diag d), { σ with steps := σ.steps + 1 }) ∧
        d.kind = .runtime ∧ d.msg = m) := by
  have hcur : curActP σ = .ok a := by unfold curActP; rw [hacts]
  have hno : findSlot a.vars id.val = none := by
    rw [lookupVarP_cons σ a rest hacts] at hlv
    injection hlv with hlv
    exact findSlot_none_of_lookup _ _ _ hlv
  rw [exec_readFile_new f t fn id σ name a hb hfn hlv hcur]
  constructor
  · intro s' r h
    obtain ⟨line, rfl⟩ := (fstep_readLine _ name).2 s' r h
    have hp : fpre (fileSt σ) (.readLine name) = .ok () := fpre_of_fstep_ok _ _ _ h
    rw [hp]
    dsimp only
    unfold readInto
    obtain ⟨hr, hc⟩ := addStrVar_fresh (tickSt σ) a rest id.val hacts hno
    have h' : fstep (fileSt (addStrVar (tickSt σ) a.id id.val)) (.readLine name) = .ok (s', .line line) := h
    rw [hc, h']
    simp only [Bool.false_eq_true, if_false]
    obtain ⟨hr2, hc2⟩ := addStrVar_fresh (setFile (tickSt σ) s') a rest id.val hacts hno
    obtain ⟨root, h1, h2, h3⟩ := thenWrite_ok t { act := a.id, isArr := false, name := id.val, path := [] }
      (.str line) (.str []) (setFile (addStrVar (tickSt σ) a.id id.val) s') hr2 hc2 rfl
    have hroot : root = .str line := h3 rfl
    subst hroot
    exact ⟨line, rfl, h1, h2⟩
  · intro m h
    have hp := (fstep_readLine _ name).1 m h
    have hp' : fpre (fileSt σ) (.readLine name) = .error m := hp
    rw [hp']
    obtain ⟨d, h1, h2, h3, _⟩ := errAt_spec (α := Val) (tickSt σ) t m
    exact ⟨d, h1, h2, h3⟩

/-- READFILE on a file not open for READ (activation stack not empty, so that the look-up of `id` is defined): a runtime
    error — the pure layer's class, or `typeMismatch` when `id` is an existing non-STRING variable — and no effect; in
    particular no variable is created. -/
theorem C16_exec_readFile_illegal (f : Nat) (t : Tok) (fn : Expr) (id : Tok) (σ : St) (name : Str) (m : Msg)
    (ex : Option (Act × Slot))
    (hb : σ.steps + 1 ≤ σ.stepLimit) (hfn : EvalsTo f fn (tickSt σ) (.str name))
    (hlv : lookupVarP σ id.val = .ok ex)
    (h : fpre { fs := σ.fs, handles := σ.handles } (.readLine name) = .error m) :
    ∃ d, (execStmt (f+2) (.readFile t fn id)).run.run σ = (.error (.diag d), { σ with steps := σ.steps + 1 }) ∧
      d.kind = .runtime ∧ (d.msg = m ∨ d.msg = .typeMismatch) := by
  rcases exec_readFile_illegal f t fn id σ name m ex hb hfn hlv h with h' | h'
  · rw [h']
    obtain ⟨d, h1, h2, h3, _⟩ := errAt_spec (α := Val) (tickSt σ) t m
    exact ⟨d, h1, h2, Or.inl h3⟩
  · rw [h']
    obtain ⟨d, h1, h2, h3, _⟩ := errAt_spec (α := Val) (tickSt σ) t .typeMismatch
    exact ⟨d, h1, h2, Or.inr h3⟩

/-- **GETRECORD** `fn`, `id` into an assignable, non-pointer variable (or array) at `loc` with current value `cur`: the record
    text is the one `fstep … (.get name)` delivers (the file component does not change); it is decoded against `cur` with the
    codec definitions `defs` visible in `σ`; the decoded value is stored through `writeLoc`. An undecodable record is a
    `recordRead` error and a step the pure layer rejects is an error of its class — in both cases nothing but `steps` changes. -/
theorem C16_exec_getRecord (f : Nat) (t : Tok) (fn : Expr) (id : Tok) (σ : St) (name : Str) (v? a? : Option (Act × Slot))
    (loc : Loc) (ty : Ty) (cur : Val) (defs : Codec.Defs)
    (hb : σ.steps + 1 ≤ σ.stepLimit) (hfn : EvalsTo f fn (tickSt σ) (.str name))
    (hlv : lookupVarP σ id.val = .ok v?) (hla : lookupArrP σ id.val = .ok a?)
    (htgt : recTarget v? a? = some (loc, ty)) (hty : isPtrTy ty = false) (hc : locConstP σ loc = false)
    (hcur : readLocP σ loc = .ok cur) (hdefs : codecDefsP σ = .ok defs) :
    (∀ s' r, fstep { fs := σ.fs, handles := σ.handles } (.get name) = .ok (s', r) →
      s' = { fs := σ.fs, handles := σ.handles } ∧ ∃ rec, r = .record rec ∧
        (∀ nv rest, Codec.load defs cur rec = some (nv, rest) → cur.isArr = nv.isArr →
          ∃ root, (execStmt (f+2) (.getRecord t fn id)).run.run σ =
              (.ok .none, writeLocSt { σ with steps := σ.steps + 1 } loc root) ∧
            readLocP (writeLocSt { σ with steps := σ.steps + 1 } loc root) loc = .ok nv ∧ (loc.path = [] → root = nv)) ∧
        (Codec.load defs cur rec = none →
          ∃ d, (execStmt (f+2) (.getRecord t fn id)).run.run σ = (.error (.diag d), { σ with steps := σ.steps + 1 }) ∧
            d.kind = .runtime ∧ d.msg = .recordRead)) ∧
    (∀ m, fstep { fs := σ.fs, handles := σ.handles } (.get name) = .error m →
      ∃ d, (execStmt (f+2) (.getRecord t fn id)).run.run σ = (.error (.diag d), { σ with steps := σ.steps + 1 }) ∧
        d.kind = .runtime ∧ d.msg = m) := by
  rw [exec_getRecord f t fn id σ name v? a? hb hfn hlv hla, htgt]
  simp only [hty, hc, Bool.false_eq_true, if_false]
  constructor
  · intro s' r h
    obtain ⟨rfl, rec, rfl⟩ := fstep_get _ name s' r h
    refine ⟨rfl, rec, rfl, ?_, ?_⟩
    · intro nv rest hl hk
      have hp : fpre (fileSt σ) (.get name) = .ok () := fpre_of_fstep_ok _ _ _ h
      have h' : fstep (fileSt σ) (.get name) = .ok (fileSt σ, .record rec) := h
      rw [hp, h']
      dsimp only
      unfold loadInto
      have e1 : readLocP (setFile (tickSt σ) (fileSt σ)) loc = .ok cur := hcur
      have e2 : codecDefsP (setFile (tickSt σ) (fileSt σ)) = .ok defs := hdefs
      rw [e1, e2]
      dsimp only
      rw [hl]
      dsimp only
      have hc' : locConstP (setFile (tickSt σ) (fileSt σ)) loc = false := hc
      obtain ⟨root, h1, h2, h3⟩ := thenWrite_ok t loc nv cur _ e1 hc' hk
      exact ⟨root, h1, h2, h3⟩
    · intro hl
      have hp : fpre (fileSt σ) (.get name) = .ok () := fpre_of_fstep_ok _ _ _ h
      have h' : fstep (fileSt σ) (.get name) = .ok (fileSt σ, .record rec) := h
      rw [hp, h']
      dsimp only
      unfold loadInto
      have e1 : readLocP (setFile (tickSt σ) (fileSt σ)) loc = .ok cur := hcur
      have e2 : codecDefsP (setFile (tickSt σ) (fileSt σ)) = .ok defs := hdefs
      rw [e1, e2]
      dsimp only
      rw [hl]
      obtain ⟨d, h1, h2, h3, _⟩ := errAt_spec (α := Val) (tickSt σ) t .recordRead
      exact ⟨d, h1, h2, h3⟩
  · intro m h
    have h' : fstep (fileSt σ) (.get name) = .error m := h
    cases hp : fpre (fileSt σ) (.get name) with
    | error m' =>
      have := fstep_of_fpre_err _ _ _ hp
      rw [this] at h'
      injection h' with h'
      subst h'
      obtain ⟨d, h1, h2, h3, _⟩ := errAt_spec (α := Val) (tickSt σ) t m'
      exact ⟨d, h1, h2, h3⟩
    | ok u =>
      dsimp only
      rw [h']
      obtain ⟨d, h1, h2, h3, _⟩ := errAt_spec (α := Val) (tickSt σ) t m
      exact ⟨d, h1, h2, h3⟩

/-! ### the same with literal arguments (no hypothesis on evaluation; fuel ≥ 3) -/

theorem C16_exec_openFile_lit (f : Nat) (t tn : Tok) (name : Str) (mode : FileMode) (σ : St) (hb : σ.steps + 1 ≤ σ.stepLimit) :
    StepRefines ((execStmt (f+3) (.openFile t (.strLit tn name) mode)).run.run σ) σ t (.open name mode) :=
  C16_exec_openFile (f+1) t _ mode σ name hb (evalsTo_strLit f tn name _)

theorem C16_exec_closeFile_lit (f : Nat) (t tn : Tok) (name : Str) (σ : St) (hb : σ.steps + 1 ≤ σ.stepLimit) :
    StepRefines ((execStmt (f+3) (.closeFile t (.strLit tn name))).run.run σ) σ t (.close name) :=
  C16_exec_closeFile (f+1) t _ σ name hb (evalsTo_strLit f tn name _)

/-- WRITEFILE of a STRING, INTEGER, BOOLEAN or CHAR literal writes the text `primToString` gives -/
theorem C16_exec_writeFile_lit (f : Nat) (t tn te : Tok) (name : Str) (σ : St) (hb : σ.steps + 1 ≤ σ.stepLimit) :
    (∀ txt, StepRefines ((execStmt (f+3) (.writeFile t (.strLit tn name) (.strLit te txt))).run.run σ) σ t (.write name txt)) ∧
    (∀ n, StepRefines ((execStmt (f+3) (.writeFile t (.strLit tn name) (.intLit te n))).run.run σ) σ t
      (.write name (intToStr n))) ∧
    (∀ b, StepRefines ((execStmt (f+3) (.writeFile t (.strLit tn name) (.boolLit te b))).run.run σ) σ t
      (.write name (if b then "TRUE".toList else "FALSE".toList))) ∧
    (∀ c, StepRefines ((execStmt (f+3) (.writeFile t (.strLit tn name) (.charLit te c))).run.run σ) σ t (.write name [c])) :=
  ⟨fun txt => C16_exec_writeFile (f+1) t _ _ σ name (.str txt) txt hb (evalsTo_strLit f tn name _) (evalsTo_strLit (f+1) te txt _) rfl,
   fun n => C16_exec_writeFile (f+1) t _ _ σ name (.int n) _ hb (evalsTo_strLit f tn name _) (evalsTo_intLit (f+1) te n _) rfl,
   fun b => C16_exec_writeFile (f+1) t _ _ σ name (.bool b) _ hb (evalsTo_strLit f tn name _) (evalsTo_boolLit (f+1) te b _) rfl,
   fun c => C16_exec_writeFile (f+1) t _ _ σ name (.chr c) _ hb (evalsTo_strLit f tn name _) (evalsTo_charLit (f+1) te c _) rfl⟩

theorem C16_exec_seek_lit (f : Nat) (t tn ta : Tok) (name : Str) (a : Int) (σ : St) (hb : σ.steps + 1 ≤ σ.stepLimit) (ha : 1 ≤ a) :
    StepRefines ((execStmt (f+3) (.seek t (.strLit tn name) (.intLit ta a))).run.run σ) σ t (.seek name a) :=
  (C16_exec_seek (f+1) t _ _ σ name a hb (evalsTo_intLit (f+1) ta a _) (evalsTo_strLit f tn name _)).1 ha

/-! ## 3. composition with the pure theorems -/

/-- **A block of literal OPENFILE / CLOSEFILE / WRITEFILE / SEEK statements is the history `fsteps` on the pure machine**: if the
    pure machine accepts the whole history `ops` from the file component of `σ` and ends in `s'`, the block `ops.map (litStmt t)`
    ends normally, and the final state is `σ` with file component `s'` and `steps` advanced by the number of statements. -/
theorem C16_exec_block_refines (f : Nat) (t : Tok) (ops : List FOp) (σ : St) (s' : FState)
    (hops : ∀ op ∈ ops, IsLitOp op) (hb : σ.steps + ops.length ≤ σ.stepLimit)
    (h : fsteps { fs := σ.fs, handles := σ.handles } ops = .ok s') :
    (runBlock (f + ops.length + 3) (ops.map (litStmt t))).run.run σ =
      (.ok ⟨⟩, { σ with steps := σ.steps + ops.length, fs := s'.fs, handles := s'.handles }) :=
  run_litBlock f t ops σ s' hops hb h

/-- **written, closed, read back** (C15 for programs): after the write session the file `n` holds exactly the lines
    (`joinLines lines`), the handle table is as before and nothing else but `steps` has changed; a following
    `OPENFILE n FOR READ` is accepted, and the loop `WHILE NOT EOF(n) … READFILE n, x` on the new handle (`readAll`, C15)
    delivers exactly `lines` — provided no line contains a line break. -/
theorem C16_exec_close_then_read_back (f : Nat) (t : Tok) (n : Str) (lines : List Str) (σ : St)
    (hclosed : FState.handle { fs := σ.fs, handles := σ.handles } n = none) (hlong : nameTooLong n = false)
    (hnode : FState.node { fs := σ.fs, handles := σ.handles } n = none ∨
      ∃ c, FState.node { fs := σ.fs, handles := σ.handles } n = some (.file c))
    (hpar : parentOk { fs := σ.fs, handles := σ.handles } n = true)
    (hb : σ.steps + (lines.length + 2) ≤ σ.stepLimit) :
    ∃ fs', (runBlock (f + (lines.length + 2) + 3) (writeSession t n lines)).run.run σ =
        (.ok ⟨⟩, { σ with steps := σ.steps + (lines.length + 2), fs := fs' }) ∧
      FState.node { fs := fs', handles := σ.handles } n = some (.file (joinLines lines)) ∧
      ∃ s'', fstep { fs := fs', handles := σ.handles } (.open n .read) = .ok (s'', .unit) ∧
        s''.handle n = some { name := n, mode := .read, rest := joinLines lines } ∧
        ((∀ l ∈ lines, NoNL l) → readAll (lines.length + 1) (joinLines lines) = lines) := by
  obtain ⟨s', hs', hn', hh'⟩ := fsteps_write_session { fs := σ.fs, handles := σ.handles } n lines hclosed hlong hnode hpar
  have hops : ∀ op ∈ (FOp.open n .write :: lines.map (FOp.write n) ++ [FOp.close n]), IsLitOp op := by
    intro op hop
    simp only [List.cons_append, List.mem_cons, List.mem_append, List.mem_map, List.mem_nil_iff, or_false] at hop
    rcases hop with rfl | ⟨l, _, rfl⟩ | rfl <;> exact trivial
  have hlen : (FOp.open n .write :: lines.map (FOp.write n) ++ [FOp.close n]).length = lines.length + 2 := by simp
  have hblock : (FOp.open n .write :: lines.map (FOp.write n) ++ [FOp.close n]).map (litStmt t) = writeSession t n lines := by
    simp [writeSession, litStmt, Function.comp_def]
  have hrun := C16_exec_block_refines f t _ σ s' hops (by rw [hlen]; exact hb) hs'
  rw [hlen, hblock] at hrun
  have hh'' : s'.handles = σ.handles := hh'
  rw [hh''] at hrun
  refine ⟨s'.fs, hrun, ?_, ?_⟩
  · exact hn'
  · have hcl : FState.handle { fs := s'.fs, handles := σ.handles } n = none := hclosed
    obtain ⟨⟨s'', h1, h2, _⟩, _, _⟩ := C15_open_modes { fs := s'.fs, handles := σ.handles } n (joinLines lines) hcl hn' hlong
    exact ⟨s'', h1, h2, fun hnl => C15_read_loop lines (lines.length + 1) hnl (Nat.lt_succ_self _)⟩

/-- **GETRECORD delivers what PUTRECORD stored** (C13 + C14 for programs), whatever the variable holds now: if the record under
    the cursor of the RANDOM handle `h'` is the text `Codec.dump v`, and that text decodes against the variable's current value
    `cur'` to `v` (the C13 round trip, e.g. `C13_get_put`), then GETRECORD ends normally, the variable reads `v`, and the file
    component is unchanged. -/
theorem C16_exec_get_reads_put (f : Nat) (t : Tok) (fn : Expr) (id : Tok) (σ : St) (name : Str) (v? a? : Option (Act × Slot))
    (loc : Loc) (ty : Ty) (cur' v : Val) (defs : Codec.Defs) (h' : Handle)
    (hb : σ.steps + 1 ≤ σ.stepLimit) (hfn : EvalsTo f fn (tickSt σ) (.str name))
    (hlv : lookupVarP σ id.val = .ok v?) (hla : lookupArrP σ id.val = .ok a?)
    (htgt : recTarget v? a? = some (loc, ty)) (hty : isPtrTy ty = false) (hc : locConstP σ loc = false)
    (hcur : readLocP σ loc = .ok cur') (hdefs : codecDefsP σ = .ok defs)
    (hh : FState.handle { fs := σ.fs, handles := σ.handles } name = some h') (hm : h'.mode = .random)
    (hrec : h'.records[h'.ptr]? = some (Codec.dump v))
    (hload : (Codec.load defs cur' (Codec.dump v)).map Prod.fst = some v) (hk : cur'.isArr = v.isArr) :
    ∃ root, (execStmt (f+2) (.getRecord t fn id)).run.run σ = (.ok .none, writeLocSt { σ with steps := σ.steps + 1 } loc root) ∧
      readLocP (writeLocSt { σ with steps := σ.steps + 1 } loc root) loc = .ok v ∧ (loc.path = [] → root = v) := by
  have hget := (C14_get { fs := σ.fs, handles := σ.handles } name h' hh hm).1 (Codec.dump v) hrec
  obtain ⟨_, rec, hr, hok, _⟩ :=
    (C16_exec_getRecord f t fn id σ name v? a? loc ty cur' defs hb hfn hlv hla htgt hty hc hcur hdefs).1 _ _ hget
  injection hr with hr
  subst hr
  cases hl : Codec.load defs cur' (Codec.dump v) with
  | none => rw [hl] at hload; cases hload
  | some p =>
    obtain ⟨nv, rest⟩ := p
    rw [hl] at hload
    injection hload with hload
    have : nv = v := hload
    subst this
    exact hok nv rest hl hk

/-- … in particular for every storable value (C13: numbers in range, finite REALs under the 17-digit reader law, strings,
    dates, enums, records, arrays) and a variable of the same shape -/
theorem C16_exec_get_restores_storable (Fin : Float → Prop) (L : Codec.ReaderLaws Fin)
    (f : Nat) (t : Tok) (fn : Expr) (id : Tok) (σ : St) (name : Str) (v? a? : Option (Act × Slot))
    (loc : Loc) (ty : Ty) (cur' v : Val) (defs : Codec.Defs) (h' : Handle)
    (hb : σ.steps + 1 ≤ σ.stepLimit) (hfn : EvalsTo f fn (tickSt σ) (.str name))
    (hlv : lookupVarP σ id.val = .ok v?) (hla : lookupArrP σ id.val = .ok a?)
    (htgt : recTarget v? a? = some (loc, ty)) (hty : isPtrTy ty = false) (hc : locConstP σ loc = false)
    (hcur : readLocP σ loc = .ok cur') (hdefs : codecDefsP σ = .ok defs)
    (hh : FState.handle { fs := σ.fs, handles := σ.handles } name = some h') (hm : h'.mode = .random)
    (hrec : h'.records[h'.ptr]? = some (Codec.dump v))
    (hv : Codec.Storable Fin defs v) (hshape : Codec.SameShape v cur') :
    ∃ root, (execStmt (f+2) (.getRecord t fn id)).run.run σ = (.ok .none, writeLocSt { σ with steps := σ.steps + 1 } loc root) ∧
      readLocP (writeLocSt { σ with steps := σ.steps + 1 } loc root) loc = .ok v ∧ (loc.path = [] → root = v) :=
  C16_exec_get_reads_put f t fn id σ name v? a? loc ty cur' v defs h' hb hfn hlv hla htgt hty hc hcur hdefs hh hm hrec
    (Codec.C13_get_put Fin L defs v cur' hv hshape) (Codec.sameShape_isArr v cur' hshape)

/-- **PUTRECORD n, x; SEEK n, k; GETRECORD n, x** with `k` the address PUTRECORD wrote to (cursor `h.ptr`, address `h.ptr + 1`):
    the block ends normally; the variable reads `v` again; the handle of `n` holds the text `Codec.dump v` at that address and is
    marked modified; the file system is untouched (the write-back happens at CLOSEFILE / exit, `C14_reopen`, `C16_exit_writes_back`);
    apart from that only `steps` (+3) and the root cell of the variable (`writeLocSt`) differ from the start state. -/
theorem C16_exec_random_put_get (f : Nat) (t tn : Tok) (n : Str) (id : Tok) (σ : St) (v? a? : Option (Act × Slot))
    (loc : Loc) (ty : Ty) (v : Val) (defs : Codec.Defs) (h : Handle)
    (hb : σ.steps + 3 ≤ σ.stepLimit)
    (hlv : lookupVarP σ id.val = .ok v?) (hla : lookupArrP σ id.val = .ok a?)
    (htgt : recTarget v? a? = some (loc, ty)) (hty : isPtrTy ty = false) (hc : locConstP σ loc = false)
    (hcur : readLocP σ loc = .ok v) (hdefs : codecDefsP σ = .ok defs)
    (hh : FState.handle { fs := σ.fs, handles := σ.handles } n = some h) (hm : h.mode = .random)
    (hptr : h.ptr ≤ h.records.length)
    (hload : (Codec.load defs v (Codec.dump v)).map Prod.fst = some v) :
    ∃ hs' root,
      (runBlock (f+6) [.putRecord t (.strLit tn n) id, .seek t (.strLit tn n) (.intLit tn (h.ptr + 1)),
          .getRecord t (.strLit tn n) id]).run.run σ =
        (.ok ⟨⟩, writeLocSt { σ with steps := σ.steps + 3, handles := hs' } loc root) ∧
      readLocP (writeLocSt { σ with steps := σ.steps + 3, handles := hs' } loc root) loc = .ok v ∧
      (loc.path = [] → root = v) ∧
      FState.handle { fs := σ.fs, handles := hs' } n = some (putH (Codec.dump v) h) ∧
      (putH (Codec.dump v) h).records[h.ptr]? = some (Codec.dump v) ∧ (putH (Codec.dump v) h).modified = true := by
  obtain ⟨s1, s2, h1, h2, h3, hfs, hh2, hrec⟩ := put_seek_get { fs := σ.fs, handles := σ.handles } n h (Codec.dump v) hh hm hptr
  -- PUTRECORD
  have e1 := (C16_exec_putRecord (f+3) t (.strLit tn n) id σ n v? a? loc ty v (by omega) (evalsTo_strLit (f+2) tn n _)
    hlv hla htgt hty hcur).1 s1 .unit h1
  -- SEEK
  let σ1 : St := { σ with steps := σ.steps + 1, fs := s1.fs, handles := s1.handles }
  have e2 := (C16_exec_seek_lit (f+1) t tn tn n (h.ptr + 1) σ1 (by show σ.steps + 1 + 1 ≤ σ.stepLimit; omega) (by omega)).1
    s2 .unit h2
  -- GETRECORD
  let σ2 : St := { σ1 with steps := σ1.steps + 1, fs := s2.fs, handles := s2.handles }
  have hh2' : FState.handle { fs := σ2.fs, handles := σ2.handles } n = some (putH (Codec.dump v) h) := hh2
  obtain ⟨root, e3, hread, hroot⟩ := C16_exec_get_reads_put (f+1) t (.strLit tn n) id σ2 n v? a? loc ty v v defs
    (putH (Codec.dump v) h) (by show σ.steps + 1 + 1 + 1 ≤ σ.stepLimit; omega) (evalsTo_strLit f tn n _)
    hlv hla htgt hty hc hcur hdefs hh2' hm hrec hload rfl
  have hfs' : s2.fs = σ.fs := hfs
  refine ⟨s2.handles, root, ?_, ?_, hroot, ?_, hrec, rfl⟩
  · rw [run_runBlock_cons (f+5) _ _ σ _ e1, run_runBlock_cons (f+4) _ _ _ _ e2, run_runBlock_cons (f+3) _ _ _ _ e3,
      run_runBlock_nil]
    show ((.ok ⟨⟩, writeLocSt { σ with steps := σ.steps + 1 + 1 + 1, fs := s2.fs, handles := s2.handles } loc root) :
      Except Stop Unit × St) = _
    rw [hfs']
  · have : writeLocSt { σ with steps := σ.steps + 3, handles := s2.handles } loc root =
        writeLocSt { σ2 with steps := σ2.steps + 1 } loc root := by
      show _ = writeLocSt { σ with steps := σ.steps + 1 + 1 + 1, fs := s2.fs, handles := s2.handles } loc root
      rw [hfs']
    rw [this]; exact hread
  · have : FState.handle { fs := σ.fs, handles := s2.handles } n = s2.handle n := rfl
    rw [this]; exact hh2

/-! ## exit -/

/-- **At the end of a run every handle is closed through `closeAll`.** `runOn` / `runMain` themselves leave the handle table as
    the program left it (a REPL entry must keep its files open); the exit routine `closeAllSt` — applied by `runFileOn` to the
    state the program reached, whatever the outcome, and by `repl` at the end of the session — empties the handle table and
    writes every modified RANDOM file back: the final `handles = []`, the final `fs` is `closeAllF` of the state reached, and
    nothing else changes. -/
theorem C16_exec_runMain_closes (fuel : Nat) (b : Block) (σ : St) :
    (runOn fuel b σ).2 = ((runMain fuel b).run.run σ).2 ∧
    closeAllSt (runOn fuel b σ).2 =
      { (runOn fuel b σ).2 with
        fs := (closeAllF { fs := (runOn fuel b σ).2.fs, handles := (runOn fuel b σ).2.handles }).fs, handles := [] } ∧
    (closeAllSt (runOn fuel b σ).2).handles = [] :=
  ⟨runOn_state fuel b σ, rfl, rfl⟩

/-- file mode: the state `runFileOn` returns is the exit routine applied to the state `runSource` (lex, parse, `runOn`) reached -/
theorem C16_exec_runFile_closes (cfg : Cfg) (content : Str) (fs : List (Str × FsNode)) (stdin : Str) (eof : Bool) :
    ∃ s : St,
      s = (runSource cfg (content ++ ['\n'])
        { St.init fs stdin cfg.pedantic false with stdinEof := eof, stepLimit := cfg.stepLimit, depthLimit := cfg.depthLimit }).2 ∧
      (runFileOn cfg content fs stdin eof).2 =
        { s with fs := (closeAllF { fs := s.fs, handles := s.handles }).fs, handles := [] } :=
  ⟨_, rfl, rfl⟩

/-- … and when the text lexes and parses to the block `b` (warnings `warns`), that state is the one `runOn` reached, up to the
    line break `runSource` prints after a diagnostic (`out` only) -/
theorem C16_exec_runSource_state (cfg : Cfg) (src : Str) (st : St) (toks : List Tok) (b : Block) (warns : List Tok)
    (hl : lex { pedantic := cfg.pedantic } src = .ok toks) (hp : parse { pedantic := cfg.pedantic } toks = .ok (b, warns)) :
    ∃ s : St, s = (runOn cfg.fuel b { st with out := (warns.map warningText).reverse ++ st.out }).2 ∧
      (runSource cfg src st).2.fs = s.fs ∧ (runSource cfg src st).2.handles = s.handles := by
  refine ⟨_, rfl, ?_⟩
  unfold runSource
  rw [hl]
  dsimp only
  rw [hp]
  dsimp only
  rcases runOn cfg.fuel b { st with out := (warns.map warningText).reverse ++ st.out } with ⟨o, s⟩
  cases o <;> exact ⟨rfl, rfl⟩

/-! ## non-vacuity: a concrete state with a file and an open handle, statements that really write / are really refused -/

namespace C16ExecEx

def tk (s : String) : Tok := { k := .IDENTIFIER, line := 3, col := 1, val := s.toList }
def nameA : Str := "a".toList

/-- the file "a" holds one line and is open for APPEND -/
def st0 : St :=
  { St.init [(nameA, .file "x\n".toList)] [] false false with handles := [{ name := nameA, mode := .append }] }

def writeHi : Stmt := .writeFile (tk "WRITEFILE") (.strLit (tk "a") nameA) (.strLit (tk "hi") "hi".toList)
def readA : Stmt := .readFile (tk "READFILE") (.strLit (tk "a") nameA) (tk "Line")

/-- the pure layer accepts the write … -/
theorem pure_ok : fstep { fs := st0.fs, handles := st0.handles } (.write nameA "hi".toList) =
    .ok ({ fs := [(nameA, .file "x\nhi\n".toList)], handles := st0.handles }, .unit) := by rfl

/-- … so, by the refinement theorem, the statement writes exactly that, advances `steps`, and changes nothing else -/
example : (execStmt 3 writeHi).run.run st0 =
    (.ok .none, { st0 with steps := 1, fs := [(nameA, .file "x\nhi\n".toList)], handles := st0.handles }) :=
  ((C16_exec_writeFile_lit 0 (tk "WRITEFILE") (tk "a") (tk "hi") nameA st0 (by decide)).1 "hi".toList).1 _ _ pure_ok

/-- the same computed by the model -/
example : ((execStmt 3 writeHi).run.run st0).2.fs = [(nameA, .file "x\nhi\n".toList)] := by decide

/-- READFILE on the APPEND handle: the pure layer says `wrongMode`, the statement is refused with that class, no variable is
    created and the file system is unchanged -/
example : fpre { fs := st0.fs, handles := st0.handles } (.readLine nameA) = .error .wrongMode := by rfl
example : ∃ d, (execStmt 3 readA).run.run st0 = (.error (.diag d), { st0 with steps := 1 }) ∧ d.kind = .runtime ∧
    (d.msg = .wrongMode ∨ d.msg = .typeMismatch) :=
  C16_exec_readFile_illegal 1 (tk "READFILE") _ (tk "Line") st0 nameA .wrongMode none (by decide)
    (evalsTo_strLit 0 (tk "a") nameA _) (lookupVarP_cons st0 mkGlobal [] rfl _) (by rfl)

/-- a write session as a block, by `C16_exec_close_then_read_back`: the file "b" is created with the two lines -/
example : ∃ fs', (runBlock 7 (writeSession (tk "W") "b".toList ["l1".toList, "l2".toList])).run.run st0 =
      (.ok ⟨⟩, { st0 with steps := 4, fs := fs' }) ∧
    FState.node { fs := fs', handles := st0.handles } "b".toList = some (.file "l1\nl2\n".toList) := by
  obtain ⟨fs', h1, h2, _⟩ := C16_exec_close_then_read_back 0 (tk "W") "b".toList ["l1".toList, "l2".toList] st0
    (by decide) (by decide) (Or.inl (by decide)) (by decide) (by decide)
  exact ⟨fs', h1, h2⟩

/-- the one place where the message class of a refused statement differs from the pure layer's: `SEEK "zz", 0` on a name that
    is not open — `fstep` says `notOpen` (legality first), the statement says `seekRange` (the address is checked before the
    file name is evaluated). Both refuse, neither has an effect. -/
example : fstep { fs := st0.fs, handles := st0.handles } (.seek "zz".toList 0) = .error .notOpen := by rfl
example : ∃ d, (execStmt 3 (.seek (tk "SEEK") (.strLit (tk "zz") "zz".toList) (.intLit (tk "0") 0))).run.run st0 =
      (.error (.diag d), { st0 with steps := 1 }) ∧ d.kind = .runtime ∧ d.msg = .seekRange :=
  ((C16_exec_seek 1 (tk "SEEK") _ _ st0 "zz".toList 0 (by decide) (evalsTo_intLit 1 (tk "0") 0 _)
    (evalsTo_strLit 0 (tk "zz") "zz".toList _)).2 (by decide)).2

end C16ExecEx

end Pseudo
