import PseudoProofs.ArrayFieldLemmasMixed
/-!
# C06 for arrays that are members of records, and for arrays of records

`Properties/C06Exec.lean` proves the evaluator-level array theorems for arrays that are *variables* (`a[i]`,
`Ref.index t (Ref.var a) es`, hypothesis `ArrayLemmas.HasArray`).  This file proves the same theorems for **any array
reference** — in particular an array that is a member of a record variable (`r.a[i]`), of a nested record
(`r.s.a[i]`), of an element of an array of records (`arr[i].a[j]`) — and for the fields of the elements of an array of
records (`arr[i].f`).

**The hypothesis on the array** is `ArrayFieldLemmas.ArrAt σ f₀ ar h e dims cells`: the reference `ar` resolves in `σ`
(`resolveRef`, every fuel `≥ f₀`, state unchanged) to the whole-array holder `h`; the location `h.loc` reads
`.arr e dims cells` with `cells.length = totalCells dims`; the root cell of `h.loc` is not a constant.  It is built from
`RefAt` (reference resolves to a holder that reads a given value) by `RefAt.of_hasVar`, `RefAt.of_hasArray`,
`RefAt.field` (one field step), `RefAt.index` (one index step), `ArrAt.of_member`, `ArrAt.of_hasArray`; iterating the
steps reaches any nesting depth.  Ready-made shapes: `ArrAt.of_var_member` (`r.a`), `ArrAt.of_var_member2` (`r.s.a`),
`RefAt.of_elem` (`arr[i]`), `ArrAt.of_elem_member` (`arr[i].a`).

**The hypothesis on index expressions and right-hand sides** is `ArrayLemmas.PureAt` / `PureAll`, as in C06Exec.

Locations: the holder of `r.a` for a record variable `r` of activation `id` has the location
`⟨id, false, r, [.field a]⟩`; the element `r.a[k₁,…]` the location `⟨id, false, r, [.field a, .idx (lin dims ks)]⟩`
(in general: the path of the array followed by `.idx (lin dims ks)`, `cellOf h (lin dims ks)`).

Sections: 1 resolution of `ar[…]` (in bounds; `indexOOB`; `badIndex` for a non-INTEGER index or a wrong count);
2 element assignment (write-then-read, frame, refused writes); 3 whole-array assignment between array references;
4 the shapes `r.a[…]`, `r.s.a[…]` for a record variable `r` (with the record value of `r` afterwards); 5 arrays of
records, `arr[…].f`; 6 `r.a <- s.b`, `r.a <- b` and independence afterwards; 7 the statement forms; 8 default
contents after `DECLARE r : T` (restricted forms: records made of array members, and records mixing primitive scalar
members and arrays of primitives, on a top-level state); then the concrete instances.
-/
namespace Pseudo

open ArrayLemmas C07Copy CallLemmas RecordLemmas ArrayFieldLemmas

/-! ## 1. resolving `ar[e₁,…,eₙ]` for any array reference `ar` -/

/-- **In bounds.**  `ar` resolves (fuel `≥ f₀`, state unchanged) to the whole-array holder `h`, which reads
    `.arr e dims cells`; the index expressions evaluate purely to the integers `ks`, inside the bounds.  Then
    `ar[e₁,…,eₙ]` resolves to the holder whose location is the location of the array with the path extended by
    `.idx (lin dims ks)`; its type is the element type; the state is unchanged.
    (`hr`, `harr`: the array reference — needed to know what is indexed; `hp`: purity of the indices — otherwise the
    state could change; `hb`: otherwise see `C06_fields_resolve_elem_oob`.) -/
theorem C06_fields_resolve_elem (σ : St) (t : Tok) (ar : Ref) (es : List Expr) (ks : List Int) (h : Holder) (e : Ty)
    (dims : List (Int × Int)) (cells : List Val) (f₀ f : Nat)
    (hr : RefAt σ f₀ ar h (.arr e dims cells)) (harr : h.isArr = true)
    (hp : PureAll σ f₀ es (ks.map .int)) (hb : InBoundsAll dims ks) (hf : f₀ + es.length + 2 ≤ f) :
    (resolveRef f (.index t ar es)).run.run σ =
      (.ok { loc := { h.loc with path := h.loc.path ++ [.idx (lin dims ks)] }, isArr := false, ty := e, name := h.name }, σ) := by
  obtain ⟨f', rfl⟩ : ∃ f', f = f' + 1 := ⟨f - 1, by omega⟩
  have hl : es.length = ks.length := by rw [hp.length_eq, List.length_map]
  have hlen : es.length = dims.length := by rw [hl, inBoundsAll_length dims ks hb]
  rw [run_resolveRef_index_of σ t ar es _ h e dims cells f₀ f' (hr.run f' (by omega)) harr hr.reads hp hlen (by omega),
    idxOutcome_ok dims es ks hl hb]
  rfl

/-- **Out of bounds.**  As many INTEGER indices as dimensions, not all inside the bounds: the runtime diagnostic
    `indexOOB`, positioned at one of the index expressions; the state is unchanged. -/
theorem C06_fields_resolve_elem_oob (σ : St) (t : Tok) (ar : Ref) (es : List Expr) (ks : List Int) (h : Holder) (e : Ty)
    (dims : List (Int × Int)) (cells : List Val) (f₀ f : Nat)
    (hr : RefAt σ f₀ ar h (.arr e dims cells)) (harr : h.isArr = true)
    (hp : PureAll σ f₀ es (ks.map .int)) (hlen : ks.length = dims.length) (hb : ¬ InBoundsAll dims ks)
    (hf : f₀ + es.length + 2 ≤ f) :
    ∃ d, (resolveRef f (.index t ar es)).run.run σ = (.error (.diag d), σ) ∧
      d.kind = .runtime ∧ d.msg = .indexOOB ∧ ∃ ex ∈ es, d.line = ex.tok.line ∧ d.col = ex.tok.col := by
  obtain ⟨f', rfl⟩ : ∃ f', f = f' + 1 := ⟨f - 1, by omega⟩
  have hl : es.length = ks.length := by rw [hp.length_eq, List.length_map]
  obtain ⟨ex, hex, ho⟩ := idxOutcome_oob dims es ks hl hlen hb
  refine ⟨rtDiag σ ex.tok.line ex.tok.col .indexOOB, ?_, by simp, by simp, ex, hex, by simp, by simp⟩
  rw [run_resolveRef_index_of σ t ar es _ h e dims cells f₀ f' (hr.run f' (by omega)) harr hr.reads hp (by omega)
    (by omega), ho]
  rfl

/-- **Not an INTEGER.**  The indices before `ex` are integers inside their bounds, `ex` evaluates to a value that is not
    an INTEGER (nothing is assumed about the later ones except their number): the runtime diagnostic `badIndex` at the
    token of `ex`; the state is unchanged. -/
theorem C06_fields_resolve_elem_nonint (σ : St) (t : Tok) (ar : Ref) (es₁ : List Expr) (ex : Expr) (es₂ : List Expr)
    (ks₁ : List Int) (v : Val) (vs₂ : List Val) (h : Holder) (e : Ty) (dims : List (Int × Int)) (cells : List Val)
    (f₀ f : Nat)
    (hr : RefAt σ f₀ ar h (.arr e dims cells)) (harr : h.isArr = true)
    (hp : PureAll σ f₀ (es₁ ++ ex :: es₂) (ks₁.map .int ++ v :: vs₂))
    (hlen : (es₁ ++ ex :: es₂).length = dims.length) (hl₁ : es₁.length = ks₁.length)
    (hb : InBoundsAll (dims.take ks₁.length) ks₁) (hv : ∀ k, v ≠ .int k)
    (hf : f₀ + (es₁ ++ ex :: es₂).length + 2 ≤ f) :
    ∃ d, (resolveRef f (.index t ar (es₁ ++ ex :: es₂))).run.run σ = (.error (.diag d), σ) ∧
      d.kind = .runtime ∧ d.msg = .badIndex ∧ d.line = ex.tok.line ∧ d.col = ex.tok.col := by
  obtain ⟨f', rfl⟩ : ∃ f', f = f' + 1 := ⟨f - 1, by omega⟩
  refine ⟨rtDiag σ ex.tok.line ex.tok.col .badIndex, ?_, by simp, by simp, by simp, by simp⟩
  rw [run_resolveRef_index_of σ t ar _ _ h e dims cells f₀ f' (hr.run f' (by omega)) harr hr.reads hp hlen (by omega),
    idxOutcome_nonint dims es₁ ex es₂ ks₁ v vs₂ hl₁ hv hb]
  rfl

/-- the same without looking at the position: as many (pure) indices as dimensions, one of them not an INTEGER — a
    runtime diagnostic, `badIndex` or (when an earlier index is an out-of-bounds INTEGER) `indexOOB`; state unchanged -/
theorem C06_fields_resolve_elem_some_nonint (σ : St) (t : Tok) (ar : Ref) (es : List Expr) (vs : List Val) (h : Holder)
    (e : Ty) (dims : List (Int × Int)) (cells : List Val) (f₀ f : Nat)
    (hr : RefAt σ f₀ ar h (.arr e dims cells)) (harr : h.isArr = true) (hp : PureAll σ f₀ es vs)
    (hlen : vs.length = dims.length) (hv : ∃ v ∈ vs, ∀ k, v ≠ .int k) (hf : f₀ + es.length + 2 ≤ f) :
    ∃ d, (resolveRef f (.index t ar es)).run.run σ = (.error (.diag d), σ) ∧
      d.kind = .runtime ∧ (d.msg = .badIndex ∨ d.msg = .indexOOB) := by
  obtain ⟨f', rfl⟩ : ∃ f', f = f' + 1 := ⟨f - 1, by omega⟩
  have hl : es.length = vs.length := hp.length_eq
  obtain ⟨ex, _, m, ho, hm⟩ := idxOutcome_some_nonint dims es vs hl hlen hv
  refine ⟨rtDiag σ ex.tok.line ex.tok.col m, ?_, by simp, by simpa using hm⟩
  rw [run_resolveRef_index_of σ t ar es vs h e dims cells f₀ f' (hr.run f' (by omega)) harr hr.reads hp (by omega)
    (by omega), ho]
  rfl

/-- **Wrong number of indices**: the runtime diagnostic `badIndex` at the token of the element reference; no index
    expression is evaluated (nothing is assumed about them), the state is unchanged. -/
theorem C06_fields_resolve_elem_arity (σ : St) (t : Tok) (ar : Ref) (es : List Expr) (h : Holder) (e : Ty)
    (dims : List (Int × Int)) (cells : List Val) (f₀ f : Nat)
    (hr : RefAt σ f₀ ar h (.arr e dims cells)) (harr : h.isArr = true) (hne : es.length ≠ dims.length)
    (hf : f₀ + 1 ≤ f) :
    ∃ d, (resolveRef f (.index t ar es)).run.run σ = (.error (.diag d), σ) ∧
      d.kind = .runtime ∧ d.msg = .badIndex ∧ d.line = t.line ∧ d.col = t.col := by
  obtain ⟨f', rfl⟩ : ∃ f', f = f' + 1 := ⟨f - 1, by omega⟩
  exact ⟨rtDiag σ t.line t.col .badIndex,
    run_resolveRef_index_arity σ t ar es h e dims cells f' (hr.run f' (by omega)) harr hr.reads hne,
    by simp, by simp, by simp, by simp⟩

/-- **`rr.a[e₁,…,eₙ]` for any record reference `rr`**: `rr` resolves to a non-array holder `h` that reads a record whose
    member `a` is an array (`memberKind … = some true`, current value `.arr e dims cells`); pure in-bounds indices.  The
    element's location is the location of the record with the path extended by `[.field a, .idx (lin dims ks)]`. -/
theorem C06_fields_resolve_member_elem (σ : St) (t₁ t₂ a : Tok) (rr : Ref) (es : List Expr) (ks : List Int) (h : Holder)
    (T : Str) (fs : List (Str × Val)) (e : Ty) (dims : List (Int × Int)) (cells : List Val) (f₀ f : Nat)
    (hr : RefAt σ f₀ rr h (.comp T fs)) (harr : h.isArr = false)
    (hm : memberKind fs a.val = some true) (hfv : findField fs a.val true = some (.arr e dims cells))
    (hp : PureAll σ f₀ es (ks.map .int)) (hb : InBoundsAll dims ks) (hf : f₀ + es.length + 3 ≤ f) :
    (resolveRef f (.index t₂ (.field t₁ rr a) es)).run.run σ =
      (.ok { loc := { h.loc with path := h.loc.path ++ [.field a.val, .idx (lin dims ks)] }, isArr := false, ty := e,
             name := a.val }, σ) := by
  have h1 := RefAt.field t₁ a hr harr hm hfv
  have hp' : PureAll σ (f₀+1) es (ks.map .int) := by
    have : ∀ (es : List Expr) (vs : List Val), PureAll σ f₀ es vs → PureAll σ (f₀+1) es vs := by
      intro es
      induction es with
      | nil => intro vs h; cases vs <;> first | trivial | cases h
      | cons x xs ih =>
        intro vs h
        cases vs with
        | nil => cases h
        | cons v vs => exact ⟨h.1.mono (by omega), ih vs h.2⟩
    exact this es _ hp
  rw [C06_fields_resolve_elem σ t₂ _ es ks _ e dims cells (f₀+1) f h1 rfl hp' hb (by omega)]
  simp only [fieldHolder, List.append_assoc, List.cons_append, List.nil_append]

/-! ## 2. `ar[e₁,…,eₙ] <- rhs`: exactly the addressed element changes -/

/-- **Write, then read.**  `ar` an array reference (`ArrAt`), the index expressions evaluate purely to the in-bounds
    integers `ks`, the right-hand side evaluates purely to `rv`, and `rv` — after the implicit cast to the element type
    `e` — has type `e`.  Then `ar[e₁,…,eₙ] <- rhs` succeeds, and for the final state `σ'`:
    1. `σ'` is `σ` with exactly one root cell (the variable or array slot the reference lives in) replaced by `root'`,
       the old root value with the new array at the path of `ar`;
    2. the location of `ar` reads the same array (element type, bounds) with exactly the cell `lin dims ks` replaced;
    3. the location of `ar[ks]` reads the stored value;
    4. the location of `ar[js]` for every other in-bounds tuple `js ≠ ks` reads what it read before;
    5. every location with another root (another variable, another array, another activation) reads as before;
    6. every location of the same root variable whose path leaves the path of the written element at some step (another
       member of the record, another member of an enclosing record, another element of an enclosing array of records)
       reads as before;
    7. no cell becomes or ceases to be a constant; step counter, output, files, handles, procedures, functions, ids
       are unchanged. -/
theorem C06_fields_write_read (σ : St) (t t' : Tok) (ar : Ref) (es : List Expr) (ks : List Int) (rhs : Expr) (rv : Val)
    (h : Holder) (e : Ty) (dims : List (Int × Int)) (cells : List Val) (f₀ f : Nat)
    (ha : ArrAt σ f₀ ar h e dims cells) (hp : PureAll σ f₀ es (ks.map .int)) (hb : InBoundsAll dims ks)
    (hrhs : PureAt σ f₀ rhs rv) (hty : (implicitCast e rv).ty = e) (hf : f₀ + es.length + 3 ≤ f) :
    ∃ σ', (execAssign f t (.index t' ar es) rhs).run.run σ = (.ok ⟨⟩, σ') ∧
      (∃ root root', readLocP σ (rootOf h.loc) = .ok root ∧
        setPath root h.loc.path (.arr e dims (cells.set (lin dims ks) (implicitCast e rv))) = some root' ∧
        σ' = updSt σ h.loc.act (writeF (rootOf h.loc) root')) ∧
      readLocP σ' h.loc = .ok (.arr e dims (cells.set (lin dims ks) (implicitCast e rv))) ∧
      readLocP σ' (cellOf h (lin dims ks)) = .ok (implicitCast e rv) ∧
      (∀ js, InBoundsAll dims js → js ≠ ks →
        readLocP σ' (cellOf h (lin dims js)) = readLocP σ (cellOf h (lin dims js))) ∧
      (∀ l', DiffRoot h.loc l' → readLocP σ' l' = readLocP σ l') ∧
      (∀ (l' : Loc) (r : List Step) (s₁ s₂ : Step) (p' q' : List Step), SameRoot h.loc l' →
        h.loc.path ++ [.idx (lin dims ks)] = r ++ s₁ :: p' → l'.path = r ++ s₂ :: q' → s₁ ≠ s₂ →
        readLocP σ' l' = readLocP σ l') ∧
      (∀ l', locConstP σ' l' = locConstP σ l') ∧
      (σ'.steps = σ.steps ∧ σ'.out = σ.out ∧ σ'.fs = σ.fs ∧ σ'.handles = σ.handles ∧ σ'.procs = σ.procs ∧
        σ'.funs = σ.funs ∧ σ'.nextId = σ.nextId ∧ σ'.acts.map (·.id) = σ.acts.map (·.id)) := by
  have hi : lin dims ks < cells.length := ha.lin_lt ks hb
  obtain ⟨root, root', h1, h2, h3, h4, hw, hrun⟩ :=
    run_execAssign_elem σ t t' ar es ks rhs rv h e dims cells f₀ f ha hp hb hrhs hty hf
  have harr' : readLocP (updSt σ h.loc.act (writeF (rootOf h.loc) root')) h.loc =
      .ok (.arr e dims (cells.set (lin dims ks) (implicitCast e rv))) := by
    have := readLocP_after σ h.loc root root' h.loc.path h1
    simp only [pathRead, h4] at this
    exact this
  refine ⟨_, hrun, ⟨root, root', h1, h3, rfl⟩, harr', ?_, ?_, ?_, ?_, ?_, ⟨rfl, rfl, rfl, rfl, rfl, rfl, rfl, ?_⟩⟩
  · rw [readLocP_sub _ h.loc _ [.idx (lin dims ks)] harr']
    simp only [pathRead, getPath, List.getElem?_set_self hi]
  · intro js hjs hne
    have hlin : lin dims ks ≠ lin dims js := fun h => hne (C06_lin_inj dims ks js hb hjs h).symm
    rw [readLocP_sub _ h.loc _ [.idx (lin dims js)] harr', readLocP_sub _ h.loc _ [.idx (lin dims js)] ha.ref.reads]
    simp only [pathRead, getPath, List.getElem?_set_ne hlin]
  · intro l' hd
    exact C07_write_other_location t (cellOf h (lin dims ks)) l' _ σ _ ⟨⟩ hw hd
  · intro l' r s₁ s₂ p' q' hroot hpth hq hne
    exact C07_write_disjoint_path t (cellOf h (lin dims ks)) l' _ σ _ ⟨⟩ r s₁ s₂ p' q' hne hroot hpth hq hw
  · intro l'
    exact locConstP_updSt_writeF σ (rootOf h.loc) l' root'
  · exact updSt_ids σ _ _ (writeF_id _ _)

/-- the same for a right-hand side whose value already has the element type: the stored value is that value -/
theorem C06_fields_write_read_same_type (σ : St) (t t' : Tok) (ar : Ref) (es : List Expr) (ks : List Int) (rhs : Expr)
    (rv : Val) (h : Holder) (e : Ty) (dims : List (Int × Int)) (cells : List Val) (f₀ f : Nat)
    (ha : ArrAt σ f₀ ar h e dims cells) (hp : PureAll σ f₀ es (ks.map .int)) (hb : InBoundsAll dims ks)
    (hrhs : PureAt σ f₀ rhs rv) (hty : rv.ty = e) (hf : f₀ + es.length + 3 ≤ f) :
    ∃ σ', (execAssign f t (.index t' ar es) rhs).run.run σ = (.ok ⟨⟩, σ') ∧
      readLocP σ' h.loc = .ok (.arr e dims (cells.set (lin dims ks) rv)) ∧
      readLocP σ' (cellOf h (lin dims ks)) = .ok rv ∧
      (∀ js, InBoundsAll dims js → js ≠ ks →
        readLocP σ' (cellOf h (lin dims js)) = readLocP σ (cellOf h (lin dims js))) ∧
      (∀ l', DiffRoot h.loc l' → readLocP σ' l' = readLocP σ l') := by
  have hc := implicitCast_of_ty e rv hty
  obtain ⟨σ', h1, _, h2, h3, h4, h5, _⟩ :=
    C06_fields_write_read σ t t' ar es ks rhs rv h e dims cells f₀ f ha hp hb hrhs (by rw [hc]; exact hty) hf
  rw [hc] at h2 h3
  exact ⟨σ', h1, h2, h3, h4, h5⟩

/-- **A refused element assignment changes nothing**: with an out-of-bounds index tuple (as many INTEGER indices as
    dimensions) the assignment `ar[…] <- rhs` ends in the runtime diagnostic `indexOOB`, and the final state is the
    start state. -/
theorem C06_fields_write_oob (σ : St) (t t' : Tok) (ar : Ref) (es : List Expr) (ks : List Int) (rhs : Expr) (rv : Val)
    (h : Holder) (e : Ty) (dims : List (Int × Int)) (cells : List Val) (f₀ f : Nat)
    (ha : ArrAt σ f₀ ar h e dims cells) (hp : PureAll σ f₀ es (ks.map .int))
    (hlen : ks.length = dims.length) (hb : ¬ InBoundsAll dims ks)
    (hrhs : PureAt σ f₀ rhs rv) (hf : f₀ + es.length + 3 ≤ f) :
    ∃ d, (execAssign f t (.index t' ar es) rhs).run.run σ = (.error (.diag d), σ) ∧
      d.kind = .runtime ∧ d.msg = .indexOOB := by
  obtain ⟨f', rfl⟩ : ∃ f', f = f' + 1 := ⟨f - 1, by omega⟩
  obtain ⟨d, hres, hk, hm, _⟩ :=
    C06_fields_resolve_elem_oob σ t' ar es ks h e dims cells f₀ f' ha.ref ha.isArr hp hlen hb (by omega)
  exact ⟨d, run_execAssign_resolve_error σ t _ rhs rv d f' ha.acts_ne (hrhs f' (by omega)) hres (by rw [hm]; decide), hk, hm⟩

/-- … with a wrong number of indices: `badIndex`, state unchanged -/
theorem C06_fields_write_arity (σ : St) (t t' : Tok) (ar : Ref) (es : List Expr) (rhs : Expr) (rv : Val)
    (h : Holder) (e : Ty) (dims : List (Int × Int)) (cells : List Val) (f₀ f : Nat)
    (ha : ArrAt σ f₀ ar h e dims cells) (hne : es.length ≠ dims.length)
    (hrhs : PureAt σ f₀ rhs rv) (hf : f₀ + 2 ≤ f) :
    ∃ d, (execAssign f t (.index t' ar es) rhs).run.run σ = (.error (.diag d), σ) ∧
      d.kind = .runtime ∧ d.msg = .badIndex := by
  obtain ⟨f', rfl⟩ : ∃ f', f = f' + 1 := ⟨f - 1, by omega⟩
  obtain ⟨d, hres, hk, hm, _⟩ :=
    C06_fields_resolve_elem_arity σ t' ar es h e dims cells f₀ f' ha.ref ha.isArr hne (by omega)
  exact ⟨d, run_execAssign_resolve_error σ t _ rhs rv d f' ha.acts_ne (hrhs f' (by omega)) hres (by rw [hm]; decide), hk, hm⟩

/-- … with an index that is not an INTEGER (as many pure indices as dimensions): `badIndex` (or `indexOOB` when an
    earlier index is an out-of-bounds INTEGER), state unchanged -/
theorem C06_fields_write_some_nonint (σ : St) (t t' : Tok) (ar : Ref) (es : List Expr) (vs : List Val) (rhs : Expr) (rv : Val)
    (h : Holder) (e : Ty) (dims : List (Int × Int)) (cells : List Val) (f₀ f : Nat)
    (ha : ArrAt σ f₀ ar h e dims cells) (hp : PureAll σ f₀ es vs)
    (hlen : vs.length = dims.length) (hv : ∃ v ∈ vs, ∀ k, v ≠ .int k)
    (hrhs : PureAt σ f₀ rhs rv) (hf : f₀ + es.length + 3 ≤ f) :
    ∃ d, (execAssign f t (.index t' ar es) rhs).run.run σ = (.error (.diag d), σ) ∧
      d.kind = .runtime ∧ (d.msg = .badIndex ∨ d.msg = .indexOOB) := by
  obtain ⟨f', rfl⟩ : ∃ f', f = f' + 1 := ⟨f - 1, by omega⟩
  obtain ⟨d, hres, hk, hm⟩ :=
    C06_fields_resolve_elem_some_nonint σ t' ar es vs h e dims cells f₀ f' ha.ref ha.isArr hp hlen hv (by omega)
  refine ⟨d, run_execAssign_resolve_error σ t _ rhs rv d f' ha.acts_ne (hrhs f' (by omega)) hres ?_, hk, hm⟩
  rcases hm with hm | hm <;> rw [hm] <;> decide

/-- **A value of the wrong type is refused**: if the right-hand side's value, after the implicit cast, does not have
    the element type, the assignment ends in `typeMismatch` and nothing is written. -/
theorem C06_fields_write_type_mismatch (σ : St) (t t' : Tok) (ar : Ref) (es : List Expr) (ks : List Int) (rhs : Expr)
    (rv : Val) (h : Holder) (e : Ty) (dims : List (Int × Int)) (cells : List Val) (f₀ f : Nat)
    (ha : ArrAt σ f₀ ar h e dims cells) (hp : PureAll σ f₀ es (ks.map .int)) (hb : InBoundsAll dims ks)
    (hrhs : PureAt σ f₀ rhs rv) (hty : (implicitCast e rv).ty ≠ e) (hf : f₀ + es.length + 3 ≤ f) :
    ∃ d, (execAssign f t (.index t' ar es) rhs).run.run σ = (.error (.diag d), σ) ∧
      d.kind = .runtime ∧ d.msg = .typeMismatch := by
  obtain ⟨f', rfl⟩ : ∃ f', f = f' + 1 := ⟨f - 1, by omega⟩
  have hres := C06_fields_resolve_elem σ t' ar es ks h e dims cells f₀ f' ha.ref ha.isArr hp hb (by omega)
  refine ⟨rtDiag σ t.line t.col .typeMismatch, ?_, by simp, by simp⟩
  rw [run_execAssign_resolved σ t _ rhs rv _ f' ha.acts_ne (hrhs f' (by omega)) hres rfl ha.notConst]
  have : ((implicitCast e rv).ty != e) = true := by simpa using hty
  simp only [this, if_true]
  exact run_rtErr t .typeMismatch σ

/-- the expression `ar[e₁,…,eₙ]` (pure in-bounds indices) evaluates to the cell `lin dims ks` of the array value and
    leaves the state unchanged -/
theorem C06_fields_read_elem (σ : St) (t t' : Tok) (ar : Ref) (es : List Expr) (ks : List Int) (h : Holder) (e : Ty)
    (dims : List (Int × Int)) (cells : List Val) (f₀ f : Nat)
    (ha : ArrAt σ f₀ ar h e dims cells) (hp : PureAll σ f₀ es (ks.map .int)) (hb : InBoundsAll dims ks)
    (hf : f₀ + es.length + 3 ≤ f) :
    ∃ v, cells[lin dims ks]? = some v ∧
      (evalExpr f (.access t (.index t' ar es))).run.run σ = (.ok v, σ) := by
  obtain ⟨f', rfl⟩ : ∃ f', f = f' + 1 := ⟨f - 1, by omega⟩
  have hi : lin dims ks < cells.length := ha.lin_lt ks hb
  refine ⟨cells[lin dims ks], List.getElem?_eq_getElem hi, ?_⟩
  rw [run_evalExpr_access_resolved σ t _ _ f'
    (C06_fields_resolve_elem σ t' ar es ks h e dims cells f₀ f' ha.ref ha.isArr hp hb (by omega)) rfl]
  have := readLocP_idx σ h.loc e dims cells (lin dims ks) _ ha.ref.reads (List.getElem?_eq_getElem hi)
  rw [this]


/-! ## 3. whole-array assignment `tr <- sr` between any two array references (`r.a <- s.a`, `r.a <- b`, `b <- r.a`) -/

/-- **`tr <- sr` copies every element, iff element types and bounds agree.**  `sr` and `tr` array references (`ArrAt`).
    * Element types and bounds equal: the assignment succeeds; the final state is the start state with exactly one root
      cell replaced (the root value with the array of the source at the path of the target); afterwards the target
      reads the array value of the source; cell by cell the target reads what the source read; every location with
      another root, and every location of the same root whose path leaves the path of the target array, reads as
      before; constants stay constants.
    * Otherwise: the runtime diagnostic `typeMismatch` at the assignment token, and the state is unchanged. -/
theorem C06_fields_array_assign (σ : St) (t at' : Tok) (tr sr : Ref) (th sh : Holder) (es et : Ty)
    (ds dt : List (Int × Int)) (cs ct : List Val) (f₀ f : Nat)
    (hs : ArrAt σ f₀ sr sh es ds cs) (ht : ArrAt σ f₀ tr th et dt ct) (hf : f₀ + 2 ≤ f) :
    (es = et ∧ ds = dt →
      ∃ σ', (execAssign f t tr (.access at' sr)).run.run σ = (.ok ⟨⟩, σ') ∧
        (∃ root root', readLocP σ (rootOf th.loc) = .ok root ∧ setPath root th.loc.path (.arr es ds cs) = some root' ∧
          σ' = updSt σ th.loc.act (writeF (rootOf th.loc) root')) ∧
        readLocP σ' th.loc = .ok (.arr es ds cs) ∧
        (∀ i, readLocP σ' (cellOf th i) = readLocP σ (cellOf sh i)) ∧
        (∀ l', DiffRoot th.loc l' → readLocP σ' l' = readLocP σ l') ∧
        (∀ (l' : Loc) (r : List Step) (s₁ s₂ : Step) (p' q' : List Step), SameRoot th.loc l' →
          th.loc.path = r ++ s₁ :: p' → l'.path = r ++ s₂ :: q' → s₁ ≠ s₂ → readLocP σ' l' = readLocP σ l') ∧
        (∀ l', locConstP σ' l' = locConstP σ l')) ∧
    (¬ (es = et ∧ ds = dt) →
      ∃ d, (execAssign f t tr (.access at' sr)).run.run σ = (.error (.diag d), σ) ∧
        d.kind = .runtime ∧ d.msg = .typeMismatch ∧ d.line = t.line ∧ d.col = t.col) := by
  have hstart := run_execAssign_arrRefs σ t at' tr sr th sh es et ds dt cs ct f₀ f hs ht hf
  constructor
  · rintro ⟨rfl, rfl⟩
    obtain ⟨root, root', h1, _, h3, h4, hw⟩ :=
      run_writeLoc_at σ t th.loc (.arr es ds ct) (.arr es ds cs) ht.ref.reads ht.notConst rfl
    have hrun : (execAssign f t tr (.access at' sr)).run.run σ =
        (.ok ⟨⟩, updSt σ th.loc.act (writeF (rootOf th.loc) root')) := by
      rw [hstart]
      simp only [bne_self_eq_false, Bool.false_eq_true, if_false]
      exact hw
    have harr' : readLocP (updSt σ th.loc.act (writeF (rootOf th.loc) root')) th.loc = .ok (.arr es ds cs) := by
      have := readLocP_after σ th.loc root root' th.loc.path h1
      simp only [pathRead, h4] at this
      exact this
    refine ⟨_, hrun, ⟨root, root', h1, h3, rfl⟩, harr', ?_, ?_, ?_, ?_⟩
    · intro i
      rw [readLocP_sub _ th.loc _ [.idx i] harr', readLocP_sub _ sh.loc _ [.idx i] hs.ref.reads]
    · intro l' hd
      exact C07_write_other_location t th.loc l' _ σ _ ⟨⟩ hw hd
    · intro l' r s₁ s₂ p' q' hroot hpth hq hne
      exact C07_write_disjoint_path t th.loc l' _ σ _ ⟨⟩ r s₁ s₂ p' q' hne hroot hpth hq hw
    · intro l'
      exact locConstP_updSt_writeF σ (rootOf th.loc) l' root'
  · intro hne
    refine ⟨rtDiag σ t.line t.col .typeMismatch, ?_, by simp, by simp, by simp, by simp⟩
    rw [hstart]
    by_cases he : es = et
    · have hd : ds ≠ dt := fun h => hne ⟨he, h⟩
      have h1 : (es != et) = false := by simp [he]
      have h2 : (ds != dt) = true := by simp [hd]
      simp only [h1, h2, Bool.false_eq_true, if_false, if_true]
      exact run_rtErr t .typeMismatch σ
    · have h1 : (es != et) = true := by simp [he]
      simp only [h1, if_true]
      exact run_rtErr t .typeMismatch σ

/-- the assignment `tr <- sr` ends normally exactly when element types and bounds are identical -/
theorem C06_fields_array_assign_iff (σ : St) (t at' : Tok) (tr sr : Ref) (th sh : Holder) (es et : Ty)
    (ds dt : List (Int × Int)) (cs ct : List Val) (f₀ f : Nat)
    (hs : ArrAt σ f₀ sr sh es ds cs) (ht : ArrAt σ f₀ tr th et dt ct) (hf : f₀ + 2 ≤ f) :
    (∃ σ', (execAssign f t tr (.access at' sr)).run.run σ = (.ok ⟨⟩, σ')) ↔ (es = et ∧ ds = dt) := by
  obtain ⟨hok, herr⟩ := C06_fields_array_assign σ t at' tr sr th sh es et ds dt cs ct f₀ f hs ht hf
  constructor
  · rintro ⟨σ', h⟩
    by_cases heq : es = et ∧ ds = dt
    · exact heq
    · obtain ⟨d, hd, _⟩ := herr heq
      rw [hd] at h
      cases h
  · intro heq
    obtain ⟨σ', h, _⟩ := hok heq
    exact ⟨σ', h⟩

/-- **the source is not changed by the copy** when it is the target itself, lies in another root variable, or lies in
    the same root variable on a path that leaves the path of the target (two different members of one record, the
    same member of two different elements of an array of records, …): it still reads its array value afterwards -/
theorem C06_fields_array_assign_source_kept (σ : St) (t at' : Tok) (tr sr : Ref) (th sh : Holder) (e : Ty)
    (d : List (Int × Int)) (cs ct : List Val) (f₀ f : Nat)
    (hs : ArrAt σ f₀ sr sh e d cs) (ht : ArrAt σ f₀ tr th e d ct) (hf : f₀ + 2 ≤ f)
    (hsep : sh.loc = th.loc ∨ DiffRoot th.loc sh.loc ∨
      ∃ (r : List Step) (s₁ s₂ : Step) (p' q' : List Step), SameRoot th.loc sh.loc ∧ th.loc.path = r ++ s₁ :: p' ∧
        sh.loc.path = r ++ s₂ :: q' ∧ s₁ ≠ s₂) :
    ∃ σ', (execAssign f t tr (.access at' sr)).run.run σ = (.ok ⟨⟩, σ') ∧
      readLocP σ' th.loc = .ok (.arr e d cs) ∧ readLocP σ' sh.loc = .ok (.arr e d cs) := by
  obtain ⟨σ', h1, _, h2, _, h4, h5, _⟩ :=
    (C06_fields_array_assign σ t at' tr sr th sh e e d d cs ct f₀ f hs ht hf).1 ⟨rfl, rfl⟩
  refine ⟨σ', h1, h2, ?_⟩
  rcases hsep with heq | hd | ⟨r, s₁, s₂, p', q', hroot, hp, hq, hne⟩
  · rw [heq]; exact h2
  · rw [h4 _ hd]; exact hs.ref.reads
  · rw [h5 _ r s₁ s₂ p' q' hroot hp hq hne]; exact hs.ref.reads


/-! ## 4. the array member `a` of a record variable `r`: `r.a[e₁,…,eₙ]` -/

/-- **`r.a[e₁,…,eₙ] <- rhs`, write then read, and what does not change.**  `r` a record variable (`HasVar`, value
    `.comp T fs`), `a` an array member of it (`.arr e dims cells`, well-formed), pure in-bounds indices `ks`, a pure
    right-hand side whose value has the element type after the implicit cast.  The assignment succeeds, and in the
    final state `σ'`:
    1. `r` is the same record variable, holding the record with exactly the member `a` replaced by the array with
       exactly the cell `lin dims ks` replaced by the stored value;
    2. the location `r.a[ks]` reads the stored value;
    3. the location `r.a[js]`, `js ≠ ks` in bounds, reads what it read before;
    4. every location under another member `r.b` (`b ≠ a`, any path below it) reads as before;
    5. every location with another root reads as before; every other plain variable is the same variable with the
       same value; every declared array is the same declared array;
    6. step counter, output, files, handles, procedures, functions, ids are unchanged. -/
theorem C06_fields_member_write_read (σ : St) (t t' tf rt a : Tok) (es : List Expr) (ks : List Int) (rhs : Expr) (rv : Val)
    (id : Nat) (ty : Ty) (T : Str) (fs : List (Str × Val)) (e : Ty) (dims : List (Int × Int)) (cells : List Val)
    (f₀ f : Nat)
    (hr : HasVar σ rt.val id ty (.comp T fs))
    (hm : memberKind fs a.val = some true) (hfv : findField fs a.val true = some (.arr e dims cells))
    (hwf : cells.length = totalCells dims)
    (hp : PureAll σ f₀ es (ks.map .int)) (hb : InBoundsAll dims ks)
    (hrhs : PureAt σ f₀ rhs rv) (hty : (implicitCast e rv).ty = e) (hf : f₀ + es.length + 5 ≤ f) :
    ∃ σ', (execAssign f t (.index t' (.field tf (.var rt) a) es) rhs).run.run σ = (.ok ⟨⟩, σ') ∧
      HasVar σ' rt.val id ty
        (.comp T (setField fs a.val true (.arr e dims (cells.set (lin dims ks) (implicitCast e rv))))) ∧
      readLocP σ' ⟨id, false, rt.val, [.field a.val, .idx (lin dims ks)]⟩ = .ok (implicitCast e rv) ∧
      (∀ js, InBoundsAll dims js → js ≠ ks →
        readLocP σ' ⟨id, false, rt.val, [.field a.val, .idx (lin dims js)]⟩ =
          readLocP σ ⟨id, false, rt.val, [.field a.val, .idx (lin dims js)]⟩) ∧
      (∀ b q, b ≠ a.val →
        readLocP σ' ⟨id, false, rt.val, .field b :: q⟩ = readLocP σ ⟨id, false, rt.val, .field b :: q⟩) ∧
      (∀ l', DiffRoot ⟨id, false, rt.val, []⟩ l' → readLocP σ' l' = readLocP σ l') ∧
      (∀ m id' ty' v', (id' ≠ id ∨ m ≠ rt.val) → HasVar σ m id' ty' v' → HasVar σ' m id' ty' v') ∧
      (∀ m id' e' d' c', HasArray σ m id' e' d' c' → HasArray σ' m id' e' d' c') ∧
      (σ'.steps = σ.steps ∧ σ'.out = σ.out ∧ σ'.fs = σ.fs ∧ σ'.handles = σ.handles ∧ σ'.procs = σ.procs ∧
        σ'.funs = σ.funs ∧ σ'.nextId = σ.nextId ∧ σ'.acts.map (·.id) = σ.acts.map (·.id)) := by
  have ha : ArrAt σ (f₀+2) (.field tf (.var rt) a) (memberHolder id rt.val a.val e) e dims cells :=
    (ArrAt.of_var_member tf rt a hr hm hfv hwf).mono (by omega)
  obtain ⟨σ', hrun, ⟨root, root', hroot, hset, rfl⟩, _, h3, h4, h5, h6, _, h8⟩ :=
    C06_fields_write_read σ t t' _ es ks rhs rv _ e dims cells (f₀+2) f ha (PureAll.mono (by omega) hp) hb
      (hrhs.mono (by omega)) hty (by omega)
  have hroot' : root = .comp T fs := by
    have h0 : readLocP σ (varLoc id rt.val) = .ok root := hroot
    rw [hr.reads] at h0
    injection h0 with h0
    exact h0.symm
  subst hroot'
  have hroot2 : root' = .comp T (setField fs a.val true (.arr e dims (cells.set (lin dims ks) (implicitCast e rv)))) := by
    have h0 : setPath (.comp T fs) [.field a.val] (.arr e dims (cells.set (lin dims ks) (implicitCast e rv))) = some root' :=
      hset
    rw [setPath_field T fs a.val true _ _ hm hfv] at h0
    injection h0 with h0
    exact h0.symm
  subst hroot2
  refine ⟨_, hrun, hr.write_same _, h3, h4, ?_, h5, ?_, ?_, h8⟩
  · intro b q hne
    refine h6 ⟨id, false, rt.val, .field b :: q⟩ [] (.field a.val) (.field b) [.idx (lin dims ks)] q ⟨rfl, rfl, rfl⟩ rfl rfl ?_
    intro heq
    injection heq with heq
    exact hne heq.symm
  · intro m id' ty' v' hne hm'
    refine hm'.write_other (varLoc id rt.val) _ ?_
    rcases hne with h | h
    · exact .inl h
    · exact .inr (.inr h)
  · intro m id' e' d' c' hm'
    exact hasArray_write_var hm' (varLoc id rt.val) _ rfl

/-- **`r.a[ks] <- rhs ; … r.a[js] …`: the evaluator reads back the last value written.**  After the assignment of
    `C06_fields_member_write_read`, the *expression* `r.a[e'₁,…,e'ₙ]` — any index expressions that are pure in the new
    state with in-bounds values `js` — evaluates, without changing the state, to the stored value when `js = ks` and to
    the old content of that cell otherwise. -/
theorem C06_fields_member_write_then_read (σ : St) (t t' tf rt a : Tok) (es : List Expr) (ks : List Int) (rhs : Expr)
    (rv : Val) (id : Nat) (ty : Ty) (T : Str) (fs : List (Str × Val)) (e : Ty) (dims : List (Int × Int)) (cells : List Val)
    (f₀ f : Nat)
    (hr : HasVar σ rt.val id ty (.comp T fs))
    (hm : memberKind fs a.val = some true) (hfv : findField fs a.val true = some (.arr e dims cells))
    (hwf : cells.length = totalCells dims)
    (hp : PureAll σ f₀ es (ks.map .int)) (hb : InBoundsAll dims ks)
    (hrhs : PureAt σ f₀ rhs rv) (hty : (implicitCast e rv).ty = e) (hf : f₀ + es.length + 5 ≤ f) :
    ∃ σ', (execAssign f t (.index t' (.field tf (.var rt) a) es) rhs).run.run σ = (.ok ⟨⟩, σ') ∧
      ∀ (tr tr' tf' : Tok) (es' : List Expr) (js : List Int) (f₁ f₂ : Nat),
        PureAll σ' f₁ es' (js.map .int) → InBoundsAll dims js → f₁ + es'.length + 5 ≤ f₂ →
        ∃ v, (evalExpr f₂ (.access tr (.index tr' (.field tf' (.var rt) a) es'))).run.run σ' = (.ok v, σ') ∧
          (js = ks → v = implicitCast e rv) ∧ (js ≠ ks → cells[lin dims js]? = some v) := by
  obtain ⟨σ', hrun, hr', _⟩ :=
    C06_fields_member_write_read σ t t' tf rt a es ks rhs rv id ty T fs e dims cells f₀ f hr hm hfv hwf hp hb hrhs hty hf
  refine ⟨σ', hrun, ?_⟩
  intro tr tr' tf' es' js f₁ f₂ hp' hjs hf₂
  have hi : lin dims ks < cells.length := by rw [hwf]; exact C06_lin_bound dims ks hb
  obtain ⟨hm', hfv'⟩ := member_after_set fs a.val _ (.arr e dims (cells.set (lin dims ks) (implicitCast e rv))) rfl hm hfv
  have ha' : ArrAt σ' (f₁+2) (.field tf' (.var rt) a) (memberHolder id rt.val a.val e) e dims
      (cells.set (lin dims ks) (implicitCast e rv)) :=
    (ArrAt.of_var_member tf' rt a hr' hm' hfv' (by rw [List.length_set]; exact hwf)).mono (by omega)
  obtain ⟨v, hv, hev⟩ := C06_fields_read_elem σ' tr tr' _ es' js _ e dims _ (f₁+2) f₂ ha' (PureAll.mono (by omega) hp') hjs
    (by omega)
  refine ⟨v, hev, ?_, ?_⟩
  · intro heq
    subst heq
    rw [List.getElem?_set_self hi] at hv
    injection hv with hv
    exact hv.symm
  · intro hne
    have hlin : lin dims ks ≠ lin dims js := fun h => hne (C06_lin_inj dims ks js hb hjs h).symm
    rw [List.getElem?_set_ne hlin] at hv
    exact hv

/-- **Errors on `r.a[…]` leave everything as it is**: an out-of-bounds tuple (as many INTEGER indices as dimensions) is
    `indexOOB`, a wrong number of indices is `badIndex`; in both cases the element assignment `r.a[…] <- rhs` ends in
    that runtime diagnostic and the final state is the start state. -/
theorem C06_fields_member_write_refused (σ : St) (t t' tf rt a : Tok) (es : List Expr) (rhs : Expr) (rv : Val)
    (id : Nat) (ty : Ty) (T : Str) (fs : List (Str × Val)) (e : Ty) (dims : List (Int × Int)) (cells : List Val)
    (f₀ f : Nat)
    (hr : HasVar σ rt.val id ty (.comp T fs))
    (hm : memberKind fs a.val = some true) (hfv : findField fs a.val true = some (.arr e dims cells))
    (hwf : cells.length = totalCells dims) (hrhs : PureAt σ f₀ rhs rv) (hf : f₀ + es.length + 5 ≤ f) :
    (∀ ks, PureAll σ f₀ es (ks.map .int) → ks.length = dims.length → ¬ InBoundsAll dims ks →
      ∃ d, (execAssign f t (.index t' (.field tf (.var rt) a) es) rhs).run.run σ = (.error (.diag d), σ) ∧
        d.kind = .runtime ∧ d.msg = .indexOOB) ∧
    (es.length ≠ dims.length →
      ∃ d, (execAssign f t (.index t' (.field tf (.var rt) a) es) rhs).run.run σ = (.error (.diag d), σ) ∧
        d.kind = .runtime ∧ d.msg = .badIndex) := by
  have ha : ArrAt σ (f₀+2) (.field tf (.var rt) a) (memberHolder id rt.val a.val e) e dims cells :=
    (ArrAt.of_var_member tf rt a hr hm hfv hwf).mono (by omega)
  constructor
  · intro ks hp hlen hb
    exact C06_fields_write_oob σ t t' _ es ks rhs rv _ e dims cells (f₀+2) f ha (PureAll.mono (by omega) hp) hlen hb
      (hrhs.mono (by omega)) (by omega)
  · intro hne
    exact C06_fields_write_arity σ t t' _ es rhs rv _ e dims cells (f₀+2) f ha hne (hrhs.mono (by omega)) (by omega)


/-- **`r.s.a[e₁,…,eₙ] <- rhs`** (one more level of nesting): `s` a record member of the record variable `r`, `a` an array
    member of `r.s`.  The assignment succeeds; afterwards `r` is the same record variable, holding the record with
    exactly the member `s` replaced by the record with exactly the member `a` replaced by the array with exactly the
    cell `lin dims ks` replaced; the location `r.s.a[ks]` reads the stored value; every location under another member
    of `r`, and under another member of `r.s`, reads as before; locations with another root read as before. -/
theorem C06_fields_nested_member_write_read (σ : St) (t t' tf₁ tf₂ rt s a : Tok) (es : List Expr) (ks : List Int)
    (rhs : Expr) (rv : Val) (id : Nat) (ty : Ty) (T T₂ : Str) (fs fs₂ : List (Str × Val)) (e : Ty)
    (dims : List (Int × Int)) (cells : List Val) (f₀ f : Nat)
    (hr : HasVar σ rt.val id ty (.comp T fs))
    (hm₁ : memberKind fs s.val = some false) (hf₁ : findField fs s.val false = some (.comp T₂ fs₂))
    (hm : memberKind fs₂ a.val = some true) (hfv : findField fs₂ a.val true = some (.arr e dims cells))
    (hwf : cells.length = totalCells dims)
    (hp : PureAll σ f₀ es (ks.map .int)) (hb : InBoundsAll dims ks)
    (hrhs : PureAt σ f₀ rhs rv) (hty : (implicitCast e rv).ty = e) (hf : f₀ + es.length + 6 ≤ f) :
    ∃ σ', (execAssign f t (.index t' (.field tf₂ (.field tf₁ (.var rt) s) a) es) rhs).run.run σ = (.ok ⟨⟩, σ') ∧
      HasVar σ' rt.val id ty (.comp T (setField fs s.val false
        (.comp T₂ (setField fs₂ a.val true (.arr e dims (cells.set (lin dims ks) (implicitCast e rv))))))) ∧
      readLocP σ' ⟨id, false, rt.val, [.field s.val, .field a.val, .idx (lin dims ks)]⟩ = .ok (implicitCast e rv) ∧
      (∀ js, InBoundsAll dims js → js ≠ ks →
        readLocP σ' ⟨id, false, rt.val, [.field s.val, .field a.val, .idx (lin dims js)]⟩ =
          readLocP σ ⟨id, false, rt.val, [.field s.val, .field a.val, .idx (lin dims js)]⟩) ∧
      (∀ b q, b ≠ s.val →
        readLocP σ' ⟨id, false, rt.val, .field b :: q⟩ = readLocP σ ⟨id, false, rt.val, .field b :: q⟩) ∧
      (∀ b q, b ≠ a.val →
        readLocP σ' ⟨id, false, rt.val, .field s.val :: .field b :: q⟩ =
          readLocP σ ⟨id, false, rt.val, .field s.val :: .field b :: q⟩) ∧
      (∀ l', DiffRoot ⟨id, false, rt.val, []⟩ l' → readLocP σ' l' = readLocP σ l') := by
  have ha : ArrAt σ (f₀+3) (.field tf₂ (.field tf₁ (.var rt) s) a) (memberHolder2 id rt.val s.val a.val e) e dims cells :=
    (ArrAt.of_var_member2 tf₁ tf₂ rt s a hr hm₁ hf₁ hm hfv hwf).mono (by omega)
  obtain ⟨σ', hrun, ⟨root, root', hroot, hset, rfl⟩, _, h3, h4, h5, h6, _⟩ :=
    C06_fields_write_read σ t t' _ es ks rhs rv _ e dims cells (f₀+3) f ha (PureAll.mono (by omega) hp) hb
      (hrhs.mono (by omega)) hty (by omega)
  have hroot' : root = .comp T fs := by
    have h0 : readLocP σ (varLoc id rt.val) = .ok root := hroot
    rw [hr.reads] at h0
    injection h0 with h0
    exact h0.symm
  subst hroot'
  have hroot2 : root' = .comp T (setField fs s.val false
      (.comp T₂ (setField fs₂ a.val true (.arr e dims (cells.set (lin dims ks) (implicitCast e rv)))))) := by
    have h0 : setPath (.comp T fs) [.field s.val, .field a.val]
        (.arr e dims (cells.set (lin dims ks) (implicitCast e rv))) = some root' := hset
    simp only [setPath, hm₁, hf₁, hm, hfv, Option.some.injEq] at h0
    exact h0.symm
  subst hroot2
  refine ⟨_, hrun, hr.write_same _, h3, h4, ?_, ?_, h5⟩
  · intro b q hne
    refine h6 ⟨id, false, rt.val, .field b :: q⟩ [] (.field s.val) (.field b) [.field a.val, .idx (lin dims ks)] q
      ⟨rfl, rfl, rfl⟩ rfl rfl ?_
    intro heq
    injection heq with heq
    exact hne heq.symm
  · intro b q hne
    refine h6 ⟨id, false, rt.val, .field s.val :: .field b :: q⟩ [.field s.val] (.field a.val) (.field b)
      [.idx (lin dims ks)] q ⟨rfl, rfl, rfl⟩ rfl rfl ?_
    intro heq
    injection heq with heq
    exact hne heq.symm

/-! ## 5. arrays of records: the field `f` of an element, `arr[e₁,…,eₙ].f` -/

/-- **`arr[e₁,…,eₙ].f`** for a declared array `arr` (`HasArray`) whose element at the pure in-bounds tuple `ks` is a
    record with the member `f` (kind `k`, current value `fv`): the holder's location is the array slot with the path
    `[.idx (lin dims ks), .field f]`; the state is unchanged. -/
theorem C06_fields_resolve_elem_field (σ : St) (t₁ t₂ at' m : Tok) (es : List Expr) (ks : List Int) (id : Nat) (e : Ty)
    (dims : List (Int × Int)) (cells : List Val) (T : Str) (fs : List (Str × Val)) (k : Bool) (fv : Val) (f₀ f : Nat)
    (ha : HasArray σ at'.val id e dims cells) (hp : PureAll σ f₀ es (ks.map .int)) (hb : InBoundsAll dims ks)
    (hc : cells[lin dims ks]? = some (.comp T fs))
    (hm : memberKind fs m.val = some k) (hfv : findField fs m.val k = some fv) (hf : f₀ + es.length + 4 ≤ f) :
    (resolveRef f (.field t₂ (.index t₁ (.var at') es) m)).run.run σ =
      (.ok { loc := ⟨id, true, at'.val, [.idx (lin dims ks), .field m.val]⟩, isArr := k, ty := fieldTy fv, name := m.val }, σ) :=
  (RefAt.field t₂ m (RefAt.of_elem t₁ at' ha hp hb hc) rfl hm hfv).run f hf

/-- … an index outside the bounds: `indexOOB`, state unchanged (the field step is not reached) -/
theorem C06_fields_resolve_elem_field_oob (σ : St) (t₁ t₂ at' m : Tok) (es : List Expr) (ks : List Int) (id : Nat) (e : Ty)
    (dims : List (Int × Int)) (cells : List Val) (f₀ f : Nat)
    (ha : HasArray σ at'.val id e dims cells) (hp : PureAll σ f₀ es (ks.map .int))
    (hlen : ks.length = dims.length) (hb : ¬ InBoundsAll dims ks) (hf : f₀ + es.length + 3 ≤ f) :
    ∃ d, (resolveRef f (.field t₂ (.index t₁ (.var at') es) m)).run.run σ = (.error (.diag d), σ) ∧
      d.kind = .runtime ∧ d.msg = .indexOOB := by
  obtain ⟨f', rfl⟩ : ∃ f', f = f' + 1 := ⟨f - 1, by omega⟩
  obtain ⟨d, h1, h2, h3, _⟩ := C06_exec_resolve_elem_oob σ t₁ at' es ks id e dims cells f₀ f' ha hp hlen hb (by omega)
  exact ⟨d, run_resolveRef_field_err σ σ t₂ _ m _ f' h1, h2, h3⟩

/-- **`arr[e₁,…,eₙ].f <- rhs` changes exactly that field of that element.**  `arr` a declared array of records, the
    element at the pure in-bounds tuple `ks` is the record `.comp T fs` with the scalar (or record) member `f` holding
    `fv`; `rhs` pure with a value `rv` (not a whole array) that has the type of `fv` after the implicit cast.  The
    assignment succeeds, and in the final state `σ'`:
    1. `arr` is the same declared array (owner, element type, bounds) whose cells are the old cells with exactly the
       cell `lin dims ks` replaced by the record with exactly the member `f` replaced;
    2. the location `arr[ks].f` reads the stored value;
    3. every location under another member of that element reads as before;
    4. every location under another element of the array reads as before;
    5. every location with another root reads as before; every other declared array is the same declared array;
       every plain variable is the same variable with the same value. -/
theorem C06_fields_elem_field_write_read (σ : St) (t t₁ t₂ at' m : Tok) (es : List Expr) (ks : List Int) (rhs : Expr)
    (rv : Val) (id : Nat) (e : Ty) (dims : List (Int × Int)) (cells : List Val) (T : Str) (fs : List (Str × Val))
    (fv : Val) (f₀ f : Nat)
    (ha : HasArray σ at'.val id e dims cells) (hp : PureAll σ f₀ es (ks.map .int)) (hb : InBoundsAll dims ks)
    (hc : cells[lin dims ks]? = some (.comp T fs))
    (hm : memberKind fs m.val = some false) (hfv : findField fs m.val false = some fv)
    (hrhs : PureAt σ f₀ rhs rv) (hrv : rv.isArr = false) (hty : (implicitCast fv.ty rv).ty = fv.ty)
    (hf : f₀ + es.length + 5 ≤ f) :
    ∃ σ', (execAssign f t (.field t₂ (.index t₁ (.var at') es) m) rhs).run.run σ = (.ok ⟨⟩, σ') ∧
      HasArray σ' at'.val id e dims
        (cells.set (lin dims ks) (.comp T (setField fs m.val false (implicitCast fv.ty rv)))) ∧
      readLocP σ' ⟨id, true, at'.val, [.idx (lin dims ks), .field m.val]⟩ = .ok (implicitCast fv.ty rv) ∧
      (∀ b q, b ≠ m.val →
        readLocP σ' ⟨id, true, at'.val, .idx (lin dims ks) :: .field b :: q⟩ =
          readLocP σ ⟨id, true, at'.val, .idx (lin dims ks) :: .field b :: q⟩) ∧
      (∀ j q, j ≠ lin dims ks →
        readLocP σ' ⟨id, true, at'.val, .idx j :: q⟩ = readLocP σ ⟨id, true, at'.val, .idx j :: q⟩) ∧
      (∀ l', DiffRoot ⟨id, true, at'.val, []⟩ l' → readLocP σ' l' = readLocP σ l') ∧
      (∀ m' id' e' d' c', (id' ≠ id ∨ m' ≠ at'.val) → HasArray σ m' id' e' d' c' → HasArray σ' m' id' e' d' c') ∧
      (∀ m' id' ty' v', HasVar σ m' id' ty' v' → HasVar σ' m' id' ty' v') := by
  obtain ⟨f', rfl⟩ : ∃ f', f = f' + 1 := ⟨f - 1, by omega⟩
  have hi : lin dims ks < cells.length := ha.lin_lt ks hb
  have hold : fv.isArr = false := findField_isArr fs m.val false fv hfv
  have hfty : fieldTy fv = fv.ty := fieldTy_nonarr fv hold
  have hk : (implicitCast fv.ty rv).isArr = false := by rw [implicitCast_isArr]; exact hrv
  have hres := C06_fields_resolve_elem_field σ t₁ t₂ at' m es ks id e dims cells T fs false fv f₀ f' ha hp hb hc hm hfv
    (by omega)
  have hcell : readLocP σ ⟨id, true, at'.val, [.idx (lin dims ks)]⟩ = .ok (.comp T fs) := by
    have := ha.read_cell (lin dims ks)
    rw [hc] at this
    exact this
  obtain ⟨root, root', h1, _, h3, _, hw⟩ := run_writeLoc_sub σ t ⟨id, true, at'.val, [.idx (lin dims ks)]⟩ [.field m.val]
    (.comp T fs) (.comp T (setField fs m.val false (implicitCast fv.ty rv))) (implicitCast fv.ty rv) hcell ha.notConst
    (setPath_field T fs m.val false fv _ hm hfv) rfl
  have hroot : root = .arr e dims cells := by
    have h0 : readLocP σ (arrLoc id at'.val) = .ok root := h1
    rw [ha.reads] at h0
    injection h0 with h0
    exact h0.symm
  subst hroot
  have hroot2 : root' = .arr e dims (cells.set (lin dims ks) (.comp T (setField fs m.val false (implicitCast fv.ty rv)))) := by
    have h0 : setPath (.arr e dims cells) [.idx (lin dims ks)]
        (.comp T (setField fs m.val false (implicitCast fv.ty rv))) = some root' := h3
    rw [setPath_cell e dims cells _ _ hi] at h0
    injection h0 with h0
    exact h0.symm
  subst hroot2
  have hrun : (execAssign (f'+1) t (.field t₂ (.index t₁ (.var at') es) m) rhs).run.run σ =
      (.ok ⟨⟩, updSt σ id (writeF (arrLoc id at'.val)
        (.arr e dims (cells.set (lin dims ks) (.comp T (setField fs m.val false (implicitCast fv.ty rv))))))) := by
    rw [run_execAssign_resolved σ t _ rhs rv _ f' ha.acts_ne (hrhs f' (by omega)) hres rfl ha.notConst]
    have hty' : ((implicitCast (fieldTy fv) rv).ty != fieldTy fv) = false := by rw [hfty]; simp [hty]
    simp only [hty', Bool.false_eq_true, if_false]
    rw [hfty]
    exact hw
  have ha' := ha.write_same e dims (cells.set (lin dims ks) (.comp T (setField fs m.val false (implicitCast fv.ty rv))))
    (by rw [List.length_set]; exact ha.wf)
  refine ⟨_, hrun, ha', ?_, ?_, ?_, ?_, ?_, ?_⟩
  · rw [readLocP_path _ id true at'.val _ _ ha'.reads]
    have := pathRead_setField_same T fs m.val false fv (implicitCast fv.ty rv) [] hm hfv hk
    simp only [pathRead, getPath, List.getElem?_set_self hi] at this ⊢
    exact this
  · intro b q hne
    rw [readLocP_path _ id true at'.val _ _ ha'.reads, readLocP_path σ id true at'.val _ _ ha.reads]
    have := pathRead_setField_ne T fs m.val b false (implicitCast fv.ty rv) q hne
    simp only [pathRead, getPath, List.getElem?_set_self hi, hc] at this ⊢
    exact this
  · intro j q hne
    rw [readLocP_path _ id true at'.val _ _ ha'.reads, readLocP_path σ id true at'.val _ _ ha.reads]
    simp only [pathRead, getPath, List.getElem?_set_ne (Ne.symm hne)]
  · intro l' hd
    exact readLocP_updSt_writeF_other σ (arrLoc id at'.val) l' _ hd
  · intro m' id' e' d' c' hne hm'
    refine hm'.write_other (arrLoc id at'.val) _ ?_
    rcases hne with h | h
    · exact .inl h
    · exact .inr (.inr h)
  · intro m' id' ty' v' hm'
    exact hm'.write_arr (arrLoc id at'.val) _ rfl


/-! ## 6. whole-array assignment between array members: `r.a <- s.b`, `r.a <- b` -/

/-- **`r.a <- s.b` copies, and the two members are independent afterwards.**  `r`, `s` two different record variables,
    `a` an array member of `r`, `b` an array member of `s`, with identical element type and bounds.  The assignment
    succeeds; in the state `σ₁` after it `r` holds its record with exactly the member `a` replaced by the array value of
    `s.b`, and `s` is unchanged.  A later element assignment `r.a[e₁,…] <- rhs` (pure in `σ₁`, in bounds, value of the
    element type after the implicit cast) leaves `s` — the whole record — as it is and changes exactly one cell of
    `r.a`; and the other way round for `s.b[e₁,…] <- rhs`.
    (For different element types or bounds the assignment is refused with `typeMismatch` and the state is unchanged:
    `C06_fields_array_assign`, second part, with `ArrAt.of_var_member`.) -/
theorem C06_fields_member_assign_independent (σ : St) (t at' tf₁ tf₂ rt st a b : Tok) (idr ids : Nat) (tyr tys : Ty)
    (T₁ T₂ : Str) (fs₁ fs₂ : List (Str × Val)) (e : Ty) (d : List (Int × Int)) (c₁ c₂ : List Val) (f : Nat)
    (hr : HasVar σ rt.val idr tyr (.comp T₁ fs₁)) (hs : HasVar σ st.val ids tys (.comp T₂ fs₂))
    (hdiff : idr ≠ ids ∨ rt.val ≠ st.val)
    (hm₁ : memberKind fs₁ a.val = some true) (hf₁ : findField fs₁ a.val true = some (.arr e d c₁))
    (hw₁ : c₁.length = totalCells d)
    (hm₂ : memberKind fs₂ b.val = some true) (hf₂ : findField fs₂ b.val true = some (.arr e d c₂))
    (hw₂ : c₂.length = totalCells d) (hf : 4 ≤ f) :
    ∃ σ₁, (execAssign f t (.field tf₁ (.var rt) a) (.access at' (.field tf₂ (.var st) b))).run.run σ = (.ok ⟨⟩, σ₁) ∧
      HasVar σ₁ rt.val idr tyr (.comp T₁ (setField fs₁ a.val true (.arr e d c₂))) ∧
      HasVar σ₁ st.val ids tys (.comp T₂ fs₂) ∧
      (∀ m id' ty' v', (id' ≠ idr ∨ m ≠ rt.val) → HasVar σ m id' ty' v' → HasVar σ₁ m id' ty' v') ∧
      (∀ m id' e' d' c', HasArray σ m id' e' d' c' → HasArray σ₁ m id' e' d' c') ∧
      (∀ (t₂ t₂' tf : Tok) (es : List Expr) (ks : List Int) (rhs : Expr) (rv : Val) (f₀ f₂ : Nat),
        PureAll σ₁ f₀ es (ks.map .int) → InBoundsAll d ks → PureAt σ₁ f₀ rhs rv → (implicitCast e rv).ty = e →
        f₀ + es.length + 5 ≤ f₂ →
        (∃ σ₂, (execAssign f₂ t₂ (.index t₂' (.field tf (.var rt) a) es) rhs).run.run σ₁ = (.ok ⟨⟩, σ₂) ∧
          HasVar σ₂ st.val ids tys (.comp T₂ fs₂) ∧
          HasVar σ₂ rt.val idr tyr (.comp T₁ (setField (setField fs₁ a.val true (.arr e d c₂)) a.val true
            (.arr e d (c₂.set (lin d ks) (implicitCast e rv)))))) ∧
        (∃ σ₂, (execAssign f₂ t₂ (.index t₂' (.field tf (.var st) b) es) rhs).run.run σ₁ = (.ok ⟨⟩, σ₂) ∧
          HasVar σ₂ rt.val idr tyr (.comp T₁ (setField fs₁ a.val true (.arr e d c₂))) ∧
          HasVar σ₂ st.val ids tys (.comp T₂ (setField fs₂ b.val true
            (.arr e d (c₂.set (lin d ks) (implicitCast e rv))))))) := by
  have har : ArrAt σ 2 (.field tf₁ (.var rt) a) (memberHolder idr rt.val a.val e) e d c₁ :=
    ArrAt.of_var_member tf₁ rt a hr hm₁ hf₁ hw₁
  have has : ArrAt σ 2 (.field tf₂ (.var st) b) (memberHolder ids st.val b.val e) e d c₂ :=
    ArrAt.of_var_member tf₂ st b hs hm₂ hf₂ hw₂
  obtain ⟨σ₁, hrun, ⟨root, root', hroot, hset, rfl⟩, _⟩ :=
    (C06_fields_array_assign σ t at' _ _ _ _ e e d d c₂ c₁ 2 f has har (by omega)).1 ⟨rfl, rfl⟩
  have hroot' : root = .comp T₁ fs₁ := by
    have h0 : readLocP σ (varLoc idr rt.val) = .ok root := hroot
    rw [hr.reads] at h0
    injection h0 with h0
    exact h0.symm
  subst hroot'
  have hroot2 : root' = .comp T₁ (setField fs₁ a.val true (.arr e d c₂)) := by
    have h0 : setPath (.comp T₁ fs₁) [.field a.val] (.arr e d c₂) = some root' := hset
    rw [setPath_field T₁ fs₁ a.val true _ _ hm₁ hf₁] at h0
    injection h0 with h0
    exact h0.symm
  subst hroot2
  have hdiff' : ids ≠ idr ∨ st.val ≠ rt.val := by
    rcases hdiff with h | h
    · exact .inl (Ne.symm h)
    · exact .inr (Ne.symm h)
  have hr₁ := hr.write_same (.comp T₁ (setField fs₁ a.val true (.arr e d c₂)))
  have hother : ∀ m id' ty' v', (id' ≠ idr ∨ m ≠ rt.val) → HasVar σ m id' ty' v' →
      HasVar (updSt σ idr (writeF (varLoc idr rt.val) (.comp T₁ (setField fs₁ a.val true (.arr e d c₂))))) m id' ty' v' := by
    intro m id' ty' v' hne hm'
    refine hm'.write_other (varLoc idr rt.val) _ ?_
    rcases hne with h | h
    · exact .inl h
    · exact .inr (.inr h)
  have hs₁ := hother _ _ _ _ hdiff' hs
  refine ⟨_, hrun, hr₁, hs₁, hother, ?_, ?_⟩
  · intro m id' e' d' c' hm'
    exact hasArray_write_var hm' (varLoc idr rt.val) _ rfl
  · intro t₂ t₂' tf es ks rhs rv f₀ f₂ hp hks hrhs hty hfuel
    obtain ⟨hm₁', hf₁'⟩ := member_after_set fs₁ a.val _ (.arr e d c₂) rfl hm₁ hf₁
    constructor
    · obtain ⟨σ₂, h1, h2, _, _, _, _, h7, _⟩ :=
        C06_fields_member_write_read _ t₂ t₂' tf rt a es ks rhs rv idr tyr T₁ _ e d c₂ f₀ f₂ hr₁ hm₁' hf₁' hw₂ hp hks hrhs
          hty hfuel
      exact ⟨σ₂, h1, h7 _ _ _ _ hdiff' hs₁, h2⟩
    · obtain ⟨σ₂, h1, h2, _, _, _, _, h7, _⟩ :=
        C06_fields_member_write_read _ t₂ t₂' tf st b es ks rhs rv ids tys T₂ _ e d c₂ f₀ f₂ hs₁ hm₂ hf₂ hw₂ hp hks hrhs
          hty hfuel
      exact ⟨σ₂, h1, h7 _ _ _ _ hdiff hr₁, h2⟩

/-- **`r.a <- b` copies a declared array into an array member, and the two are independent afterwards.**  `r` a record
    variable with the array member `a`, `b` a declared array (`HasArray`), identical element type and bounds.  The
    assignment succeeds; afterwards `r` holds its record with exactly the member `a` replaced by the array value of `b`,
    and `b` is the same declared array.  A later `r.a[e₁,…] <- rhs` leaves `b` as it is; a later `b[e₁,…] <- rhs` leaves
    `r` as it is. -/
theorem C06_fields_member_assign_from_var (σ : St) (t at' tf rt a bt : Tok) (idr idb : Nat) (tyr : Ty)
    (T : Str) (fs : List (Str × Val)) (e : Ty) (d : List (Int × Int)) (c₁ cb : List Val) (f : Nat)
    (hr : HasVar σ rt.val idr tyr (.comp T fs)) (hb : HasArray σ bt.val idb e d cb)
    (hm : memberKind fs a.val = some true) (hfv : findField fs a.val true = some (.arr e d c₁))
    (hw : c₁.length = totalCells d) (hf : 4 ≤ f) :
    ∃ σ₁, (execAssign f t (.field tf (.var rt) a) (.access at' (.var bt))).run.run σ = (.ok ⟨⟩, σ₁) ∧
      HasVar σ₁ rt.val idr tyr (.comp T (setField fs a.val true (.arr e d cb))) ∧
      HasArray σ₁ bt.val idb e d cb ∧
      (∀ (t₂ t₂' tf' : Tok) (es : List Expr) (ks : List Int) (rhs : Expr) (rv : Val) (f₀ f₂ : Nat),
        PureAll σ₁ f₀ es (ks.map .int) → InBoundsAll d ks → PureAt σ₁ f₀ rhs rv → (implicitCast e rv).ty = e →
        f₀ + es.length + 5 ≤ f₂ →
        (∃ σ₂, (execAssign f₂ t₂ (.index t₂' (.field tf' (.var rt) a) es) rhs).run.run σ₁ = (.ok ⟨⟩, σ₂) ∧
          HasArray σ₂ bt.val idb e d cb ∧
          readLocP σ₂ ⟨idr, false, rt.val, [.field a.val, .idx (lin d ks)]⟩ = .ok (implicitCast e rv)) ∧
        (∃ σ₂, (execAssign f₂ t₂ (.index t₂' (.var bt) es) rhs).run.run σ₁ = (.ok ⟨⟩, σ₂) ∧
          HasVar σ₂ rt.val idr tyr (.comp T (setField fs a.val true (.arr e d cb))) ∧
          readLocP σ₂ ⟨idb, true, bt.val, [.idx (lin d ks)]⟩ = .ok (implicitCast e rv))) := by
  have har : ArrAt σ 2 (.field tf (.var rt) a) (memberHolder idr rt.val a.val e) e d c₁ :=
    ArrAt.of_var_member tf rt a hr hm hfv hw
  obtain ⟨tyb, hab⟩ := ArrAt.of_hasArray bt hb
  obtain ⟨σ₁, hrun, ⟨root, root', hroot, hset, rfl⟩, _⟩ :=
    (C06_fields_array_assign σ t at' _ _ _ _ e e d d cb c₁ 2 f (hab.mono (by omega)) har (by omega)).1 ⟨rfl, rfl⟩
  have hroot' : root = .comp T fs := by
    have h0 : readLocP σ (varLoc idr rt.val) = .ok root := hroot
    rw [hr.reads] at h0
    injection h0 with h0
    exact h0.symm
  subst hroot'
  have hroot2 : root' = .comp T (setField fs a.val true (.arr e d cb)) := by
    have h0 : setPath (.comp T fs) [.field a.val] (.arr e d cb) = some root' := hset
    rw [setPath_field T fs a.val true _ _ hm hfv] at h0
    injection h0 with h0
    exact h0.symm
  subst hroot2
  have hr₁ := hr.write_same (.comp T (setField fs a.val true (.arr e d cb)))
  have hb₁ : HasArray (updSt σ idr (writeF (varLoc idr rt.val) (.comp T (setField fs a.val true (.arr e d cb)))))
      bt.val idb e d cb := hasArray_write_var hb (varLoc idr rt.val) _ rfl
  refine ⟨_, hrun, hr₁, hb₁, ?_⟩
  intro t₂ t₂' tf' es ks rhs rv f₀ f₂ hp hks hrhs hty hf₂
  obtain ⟨hm', hfv'⟩ := member_after_set fs a.val _ (.arr e d cb) rfl hm hfv
  constructor
  · obtain ⟨σ₂, h1, _, h3, _, _, _, _, h8, _⟩ :=
      C06_fields_member_write_read _ t₂ t₂' tf' rt a es ks rhs rv idr tyr T _ e d cb f₀ f₂ hr₁ hm' hfv' hb.wf hp hks hrhs
        hty hf₂
    exact ⟨σ₂, h1, h8 _ _ _ _ _ hb₁, h3⟩
  · obtain ⟨tyb', hab'⟩ := ArrAt.of_hasArray bt hb₁
    obtain ⟨σ₂, h1, ⟨root, root', _, _, rfl⟩, _, h3, _⟩ :=
      C06_fields_write_read _ t₂ t₂' (.var bt) es ks rhs rv _ e d cb (f₀+1) f₂ (hab'.mono (by omega))
        (PureAll.mono (by omega) hp) hks (hrhs.mono (by omega)) hty (by omega)
    exact ⟨_, h1, hr₁.write_arr (arrLoc idb bt.val) root' rfl, h3⟩


/-! ## 7. the same as statements: one tick of the step counter, then the assignment -/

/-- `C06_fields_write_read` for the statement `ar[e₁,…,eₙ] <- rhs` (`execStmt` on `Stmt.expr (Expr.assign …)`): the step
    counter advances by one (`tickSt`; the array reference and purity are assumed in that state), the value of the
    statement is NONE, and the final state relates to the ticked start state as in `C06_fields_write_read`. -/
theorem C06_fields_stmt_write_read (σ : St) (t t' : Tok) (ar : Ref) (es : List Expr) (ks : List Int) (rhs : Expr) (rv : Val)
    (h : Holder) (e : Ty) (dims : List (Int × Int)) (cells : List Val) (f₀ f : Nat)
    (hsteps : σ.steps + 1 ≤ σ.stepLimit)
    (ha : ArrAt (tickSt σ) f₀ ar h e dims cells) (hp : PureAll (tickSt σ) f₀ es (ks.map .int)) (hb : InBoundsAll dims ks)
    (hrhs : PureAt (tickSt σ) f₀ rhs rv) (hty : (implicitCast e rv).ty = e) (hf : f₀ + es.length + 5 ≤ f) :
    ∃ σ', (execStmt f (.expr (.assign t (.index t' ar es) rhs))).run.run σ = (.ok .none, σ') ∧
      readLocP σ' h.loc = .ok (.arr e dims (cells.set (lin dims ks) (implicitCast e rv))) ∧
      readLocP σ' (cellOf h (lin dims ks)) = .ok (implicitCast e rv) ∧
      (∀ js, InBoundsAll dims js → js ≠ ks →
        readLocP σ' (cellOf h (lin dims js)) = readLocP σ (cellOf h (lin dims js))) ∧
      (∀ l', DiffRoot h.loc l' → readLocP σ' l' = readLocP σ l') ∧
      (∀ (l' : Loc) (r : List Step) (s₁ s₂ : Step) (p' q' : List Step), SameRoot h.loc l' →
        h.loc.path ++ [.idx (lin dims ks)] = r ++ s₁ :: p' → l'.path = r ++ s₂ :: q' → s₁ ≠ s₂ →
        readLocP σ' l' = readLocP σ l') ∧
      σ'.steps = σ.steps + 1 := by
  obtain ⟨f', rfl⟩ : ∃ f', f = f' + 2 := ⟨f - 2, by omega⟩
  obtain ⟨σ', h1, _, h2, h3, h4, h5, h6, _, h8⟩ :=
    C06_fields_write_read (tickSt σ) t t' ar es ks rhs rv h e dims cells f₀ f' ha hp hb hrhs hty (by omega)
  refine ⟨σ', ?_, h2, h3, h4, h5, h6, h8.1⟩
  rw [run_execStmt_assign σ t _ rhs f' hsteps, h1]

/-- `C06_fields_write_oob` for the statement: the diagnostic `indexOOB`; the final state is the start state with the step
    counter advanced — no activation has changed. -/
theorem C06_fields_stmt_write_oob (σ : St) (t t' : Tok) (ar : Ref) (es : List Expr) (ks : List Int) (rhs : Expr) (rv : Val)
    (h : Holder) (e : Ty) (dims : List (Int × Int)) (cells : List Val) (f₀ f : Nat)
    (hsteps : σ.steps + 1 ≤ σ.stepLimit)
    (ha : ArrAt (tickSt σ) f₀ ar h e dims cells) (hp : PureAll (tickSt σ) f₀ es (ks.map .int))
    (hlen : ks.length = dims.length) (hb : ¬ InBoundsAll dims ks)
    (hrhs : PureAt (tickSt σ) f₀ rhs rv) (hf : f₀ + es.length + 5 ≤ f) :
    ∃ d, (execStmt f (.expr (.assign t (.index t' ar es) rhs))).run.run σ = (.error (.diag d), tickSt σ) ∧
      d.kind = .runtime ∧ d.msg = .indexOOB ∧ (tickSt σ).acts = σ.acts := by
  obtain ⟨f', rfl⟩ : ∃ f', f = f' + 2 := ⟨f - 2, by omega⟩
  obtain ⟨d, h1, h2, h3⟩ :=
    C06_fields_write_oob (tickSt σ) t t' ar es ks rhs rv h e dims cells f₀ f' ha hp hlen hb hrhs (by omega)
  refine ⟨d, ?_, h2, h3, rfl⟩
  rw [run_execStmt_assign σ t _ rhs f' hsteps, h1]

/-- `C06_fields_array_assign` for the statement `tr <- sr` -/
theorem C06_fields_stmt_array_assign (σ : St) (t at' : Tok) (tr sr : Ref) (th sh : Holder) (es et : Ty)
    (ds dt : List (Int × Int)) (cs ct : List Val) (f₀ f : Nat) (hsteps : σ.steps + 1 ≤ σ.stepLimit)
    (hs : ArrAt (tickSt σ) f₀ sr sh es ds cs) (ht : ArrAt (tickSt σ) f₀ tr th et dt ct) (hf : f₀ + 4 ≤ f) :
    (es = et ∧ ds = dt →
      ∃ σ', (execStmt f (.expr (.assign t tr (.access at' sr)))).run.run σ = (.ok .none, σ') ∧
        readLocP σ' th.loc = .ok (.arr es ds cs) ∧
        (∀ l', DiffRoot th.loc l' → readLocP σ' l' = readLocP σ l')) ∧
    (¬ (es = et ∧ ds = dt) →
      ∃ d, (execStmt f (.expr (.assign t tr (.access at' sr)))).run.run σ = (.error (.diag d), tickSt σ) ∧
        d.kind = .runtime ∧ d.msg = .typeMismatch ∧ (tickSt σ).acts = σ.acts) := by
  obtain ⟨f', rfl⟩ : ∃ f', f = f' + 2 := ⟨f - 2, by omega⟩
  obtain ⟨hok, herr⟩ := C06_fields_array_assign (tickSt σ) t at' tr sr th sh es et ds dt cs ct f₀ f' hs ht (by omega)
  constructor
  · intro heq
    obtain ⟨σ', h1, _, h2, _, h4, _⟩ := hok heq
    refine ⟨σ', ?_, h2, h4⟩
    rw [run_execStmt_assign σ t _ _ f' hsteps, h1]
  · intro hne
    obtain ⟨d, h1, h2, h3, _⟩ := herr hne
    refine ⟨d, ?_, h2, h3, rfl⟩
    rw [run_execStmt_assign σ t _ _ f' hsteps, h1]


/-! ## 8. default contents after `DECLARE r : T` -/

/-- **A new record variable holds, in every array member, the default value in every cell.**  (Restricted form, see
    below.)  The state is a top-level one (`σ.acts = [g]`, `g` not a record context); `tyTok` is not a primitive type
    keyword, not the name of an enumerated or pointer type, and names the record type `T` with the body `body`; the
    body declares array members only: statements `DECLARE a₁,… : ARRAY[l:u,…] OF <primitive type>` with integer
    literals as bounds, no name declared twice by different statements (`ArrBody [] body slots n`, `slots` = the array
    slots it creates); the name `r` is not yet a variable and is not the name of a type or of an enum element; the step
    budget allows one step for the statement and one per member declaration.  Then `DECLARE r : T` succeeds, and
    afterwards `r` is a record variable of the global activation holding the record whose members are exactly these
    arrays: for every member `a` (declared with element type `ty` and bounds `dims`) the record has the array member `a`
    with element type `ty`, bounds `dims` and `totalCells dims` cells, each `defaultPrim ty`, and every in-bounds
    location `r.a[ks]` reads `defaultPrim ty`.
    *Partial*: records with scalar members, record-typed members or arrays of records, and declarations inside
    procedures are not covered by this theorem (the mixed record of the example below is checked by evaluation). -/
theorem C06_fields_declare_record_default_partial (σ : St) (g : Act) (t rt tyTok : Tok) (T : Str) (body : Block)
    (slots : List Slot) (n f : Nat)
    (hacts : σ.acts = [g]) (hcomp : g.isComp = false)
    (hsteps : σ.steps + 1 + body.length ≤ σ.stepLimit)
    (hfresh : findSlot g.vars rt.val = none)
    (hrt : (isIdentifierType rt).run.run (tickSt σ) = (.ok false, tickSt σ))
    (hk : (tyTok.k == .DATA_TYPE) = false)
    (he : g.enums.find? (·.1 == tyTok.val) = none) (hp : g.ptrs.find? (·.1 == tyTok.val) = none)
    (hc : g.comps.find? (·.1 == tyTok.val) = some (T, body))
    (hbody : ArrBody [] body slots n) (hf : n + 4 ≤ f) :
    ∃ σ', (execStmt f (.declare t [rt] tyTok)).run.run σ = (.ok .none, σ') ∧
      HasVar σ' rt.val g.id (.comp T) (recOfSlots T slots) ∧
      (∀ a ty dims, findSlot slots a = some (newArrSlot ty dims a) →
        memberKind (slots.map fun s => (s.name, s.val)) a = some true ∧
        findField (slots.map fun s => (s.name, s.val)) a true =
          some (.arr ty dims (List.replicate (totalCells dims) (defaultPrim ty))) ∧
        ∀ ks, InBoundsAll dims ks →
          readLocP σ' ⟨g.id, false, rt.val, [.field a, .idx (lin dims ks)]⟩ = .ok (defaultPrim ty)) ∧
      σ'.steps = σ.steps + 1 + body.length := by
  have hrun := run_declare_record σ g t rt tyTok T body slots n f hacts hcomp hsteps hfresh hrt hk he hp hc hbody hf
  have hv : HasVar (declVarSt (afterDefaultSt (tickSt σ) body.length) g []
      { name := rt.val, ty := .comp T, val := recOfSlots T slots }) rt.val g.id (.comp T) (recOfSlots T slots) :=
    HasVar.of_current _ { g with vars := g.vars ++ [{ name := rt.val, ty := .comp T, val := recOfSlots T slots }] } []
      rt.val { name := rt.val, ty := .comp T, val := recOfSlots T slots } rfl
      (findSlot_append_fresh g.vars { name := rt.val, ty := .comp T, val := recOfSlots T slots } hfresh) rfl rfl
  refine ⟨_, hrun, hv, ?_, rfl⟩
  intro a ty dims ha
  have hall := hbody.all_arr
  have hm := memberKind_slots slots hall a _ ha
  have hfv : findField (slots.map fun s => (s.name, s.val)) a true =
      some (.arr ty dims (List.replicate (totalCells dims) (defaultPrim ty))) := by
    rw [findField_slots_true slots hall a, ha]
    rfl
  refine ⟨hm, hfv, ?_⟩
  intro ks hks
  have hi : lin dims ks < totalCells dims := C06_lin_bound dims ks hks
  rw [readLocP_path _ g.id false rt.val _ _ hv.reads]
  simp only [pathRead, recOfSlots, getPath, hm, hfv, List.getElem?_replicate, hi, if_true]


/-- **The same for records that mix scalar members of primitive type and array members of primitive element type.**
    Hypotheses as in `C06_fields_declare_record_default_partial`, the body now consisting of statements
    `DECLARE x₁,… : <primitive type>` and `DECLARE a₁,… : ARRAY[l:u,…] OF <primitive type>` (`MemBody g [] [] body vs as n`:
    `vs` the scalar slots, `as` the array slots; member names are not names of types or enum elements of the global
    activation, no scalar name declared twice, no array name declared by two different statements).  After
    `DECLARE r : T` the variable `r` holds the record made of these members: every array member `a` (not also the name of a
    scalar member, which would hide it) is an array with the declared element type and bounds whose cells all hold the
    default value, every in-bounds location `r.a[ks]` reads `defaultPrim ty`; every scalar member reads its default value.
    *Partial*: record-typed members, arrays of records, pointer / enum members, bounds that are not integer literals
    and declarations inside procedures are not covered. -/
theorem C06_fields_declare_record_default_mixed_partial (σ : St) (g : Act) (t rt tyTok : Tok) (T : Str) (body : Block)
    (vs as : List Slot) (n f : Nat)
    (hacts : σ.acts = [g]) (hcomp : g.isComp = false)
    (hsteps : σ.steps + 1 + body.length ≤ σ.stepLimit)
    (hfresh : findSlot g.vars rt.val = none)
    (hrt : (isIdentifierType rt).run.run (tickSt σ) = (.ok false, tickSt σ))
    (hk : (tyTok.k == .DATA_TYPE) = false)
    (he : g.enums.find? (·.1 == tyTok.val) = none) (hp : g.ptrs.find? (·.1 == tyTok.val) = none)
    (hc : g.comps.find? (·.1 == tyTok.val) = some (T, body))
    (hbody : MemBody g [] [] body vs as n) (hf : n + 4 ≤ f) :
    ∃ σ', (execStmt f (.declare t [rt] tyTok)).run.run σ = (.ok .none, σ') ∧
      HasVar σ' rt.val g.id (.comp T) (recOfMembers T vs as) ∧
      (∀ a ty dims, findSlot vs a = none → findSlot as a = some (newArrSlot ty dims a) →
        memberKind ((vs.map fun s => (s.name, s.val)) ++ (as.map fun s => (s.name, s.val))) a = some true ∧
        findField ((vs.map fun s => (s.name, s.val)) ++ (as.map fun s => (s.name, s.val))) a true =
          some (.arr ty dims (List.replicate (totalCells dims) (defaultPrim ty))) ∧
        ∀ ks, InBoundsAll dims ks →
          readLocP σ' ⟨g.id, false, rt.val, [.field a, .idx (lin dims ks)]⟩ = .ok (defaultPrim ty)) ∧
      (∀ x ty, findSlot vs x = some (newVarSlot ty x) →
        readLocP σ' ⟨g.id, false, rt.val, [.field x]⟩ = .ok (defaultPrim ty)) ∧
      σ'.steps = σ.steps + 1 + body.length := by
  have hrun := run_declare_record_mixed σ g t rt tyTok T body vs as n f hacts hcomp hsteps hfresh hrt hk he hp hc hbody hf
  have hv : HasVar (declVarSt (afterDefaultSt (tickSt σ) body.length) g []
      { name := rt.val, ty := .comp T, val := recOfMembers T vs as }) rt.val g.id (.comp T) (recOfMembers T vs as) :=
    HasVar.of_current _ { g with vars := g.vars ++ [{ name := rt.val, ty := .comp T, val := recOfMembers T vs as }] } []
      rt.val { name := rt.val, ty := .comp T, val := recOfMembers T vs as } rfl
      (findSlot_append_fresh g.vars { name := rt.val, ty := .comp T, val := recOfMembers T vs as } hfresh) rfl rfl
  refine ⟨_, hrun, hv, ?_, ?_, rfl⟩
  · intro a ty dims hnov ha
    obtain ⟨hm, hfv⟩ := member_mixed_arr vs as hbody.vars_spec hbody.arrs_spec a _ hnov ha
    have hfv' : findField ((vs.map fun s => (s.name, s.val)) ++ (as.map fun s => (s.name, s.val))) a true =
        some (.arr ty dims (List.replicate (totalCells dims) (defaultPrim ty))) := hfv
    refine ⟨hm, hfv', ?_⟩
    intro ks hks
    have hi : lin dims ks < totalCells dims := C06_lin_bound dims ks hks
    rw [readLocP_path _ g.id false rt.val _ _ hv.reads]
    simp only [pathRead, recOfMembers, getPath, hm, hfv', List.getElem?_replicate, hi, if_true]
  · intro x ty hx
    obtain ⟨hm, hfv⟩ := member_mixed_var vs as hbody.vars_spec x _ hx
    rw [readLocP_path _ g.id false rt.val _ _ hv.reads]
    simp only [pathRead, recOfMembers, getPath, hm, hfv]
    rfl


/-! ## non-vacuity: a record type with array members, declared by running the model's TYPE / DECLARE statements

The example state `exSt` is the result of running the evaluator (`runBlock`) on the statements `prog` from the initial
state; the hypotheses `HasVar` / `HasArray` about it are established by kernel evaluation (`hasVarB_sound`,
`hasArrayB_sound` with `by decide +kernel`).  Every theorem is instantiated on it, and the evaluator is run by the
kernel on the same inputs. -/
namespace C06FieldsEx

def tk (s : String) : Tok := { k := .IDENTIFIER, line := 2, col := 3, val := s.toList }
def dt (s : String) : Tok := { k := .DATA_TYPE, line := 2, col := 9, val := s.toList }
def lit (n : Int) : Expr := .intLit { k := .INTEGER, line := 2, col := 7 } n

/-- TYPE Inner : DECLARE xs : ARRAY[0:1] OF STRING
    TYPE R : DECLARE n : INTEGER ; DECLARE a : ARRAY[1:2,0:2] OF INTEGER ; DECLARE c : ARRAY[1:2,0:2] OF INTEGER ; DECLARE w : ARRAY[1:6] OF INTEGER; DECLARE inner : Inner
    DECLARE r, s : R ; DECLARE b : ARRAY[1:2,0:2] OF INTEGER ; DECLARE rs : ARRAY[1:3] OF R -/
def prog : Block :=
  [ .typeRec (tk "TYPE") (tk "Inner") [.declareArr (tk "DECLARE") [tk "xs"] (dt "STRING") [(lit 0, lit 1)]],
    .typeRec (tk "TYPE") (tk "R")
      [ .declare (tk "DECLARE") [tk "n"] (dt "INTEGER"),
        .declareArr (tk "DECLARE") [tk "a"] (dt "INTEGER") [(lit 1, lit 2), (lit 0, lit 2)],
        .declareArr (tk "DECLARE") [tk "c"] (dt "INTEGER") [(lit 1, lit 2), (lit 0, lit 2)],
        .declareArr (tk "DECLARE") [tk "w"] (dt "INTEGER") [(lit 1, lit 6)],
        .declare (tk "DECLARE") [tk "inner"] (tk "Inner") ],
    .declare (tk "DECLARE") [tk "r", tk "s"] (tk "R"),
    .declareArr (tk "DECLARE") [tk "b"] (dt "INTEGER") [(lit 1, lit 2), (lit 0, lit 2)],
    .declareArr (tk "DECLARE") [tk "rs"] (tk "R") [(lit 1, lit 3)] ]

def exSt : St := ((runBlock 60 prog).run.run (St.init [] [] false false)).2


def dims2 : List (Int × Int) := [(1, 2), (0, 2)]
def zeros6 : List Val := List.replicate 6 (.int 0)
def inner0 : Val := .comp "Inner".toList [("xs".toList, .arr .str [(0, 1)] [.str [], .str []])]
def fieldsR : List (Str × Val) :=
  [("n".toList, .int 0), ("inner".toList, inner0), ("a".toList, .arr .int dims2 zeros6),
   ("c".toList, .arr .int dims2 zeros6), ("w".toList, .arr .int [(1, 6)] zeros6)]
def recR0 : Val := .comp "R".toList fieldsR


theorem hasR : HasVar exSt (tk "r").val 0 (.comp "R".toList) recR0 := hasVarB_sound (by decide +kernel)
theorem hasS : HasVar exSt (tk "s").val 0 (.comp "R".toList) recR0 := hasVarB_sound (by decide +kernel)
theorem hasB : HasArray exSt (tk "b").val 0 .int dims2 zeros6 := hasArrayB_sound (by decide +kernel)
theorem hasRs : HasArray exSt (tk "rs").val 0 (.comp "R".toList) [(1, 3)] [recR0, recR0, recR0] :=
  hasArrayB_sound (by decide +kernel)

theorem pure21 (σ : St) : PureAll σ 1 [lit 2, lit 1] ([2, 1].map .int) :=
  ⟨pureAt_intLit σ _ 2, pureAt_intLit σ _ 1, trivial⟩
theorem in21 : InBoundsAll dims2 [2, 1] := ⟨⟨by decide, by decide⟩, ⟨by decide, by decide⟩, trivial⟩
example : lin dims2 [2, 1] = 3 := by decide

theorem memA : memberKind fieldsR (tk "a").val = some true ∧ findField fieldsR (tk "a").val true = some (.arr .int dims2 zeros6) :=
  ⟨by decide +kernel, rfl⟩
theorem memC : memberKind fieldsR (tk "c").val = some true ∧ findField fieldsR (tk "c").val true = some (.arr .int dims2 zeros6) :=
  ⟨by decide +kernel, rfl⟩
theorem memW : memberKind fieldsR (tk "w").val = some true ∧ findField fieldsR (tk "w").val true = some (.arr .int [(1, 6)] zeros6) :=
  ⟨by decide +kernel, rfl⟩
theorem memN : memberKind fieldsR (tk "n").val = some false ∧ findField fieldsR (tk "n").val false = some (.int 0) :=
  ⟨by decide +kernel, rfl⟩
theorem memInner : memberKind fieldsR (tk "inner").val = some false ∧ findField fieldsR (tk "inner").val false = some inner0 :=
  ⟨by decide +kernel, rfl⟩

/-- (1) `r.a[2,1]` resolves to the path `[.field a, .idx 3]` -/
example : (resolveRef 8 (.index (tk "[") (.field (tk ".") (.var (tk "r")) (tk "a")) [lit 2, lit 1])).run.run exSt =
    (.ok { loc := ⟨0, false, "r".toList, [.field "a".toList, .idx 3]⟩, isArr := false, ty := .int, name := "a".toList }, exSt) :=
  C06_fields_resolve_member_elem exSt (tk ".") (tk "[") (tk "a") (.var (tk "r")) [lit 2, lit 1] [2, 1] _ _ fieldsR .int dims2
    zeros6 1 8 (RefAt.of_hasVar (tk "r") hasR) rfl memA.1 memA.2 (pure21 _) in21 (by decide)

/-- the kernel runs the evaluator on the same reference: same location -/
example : (match (resolveRef 8 (.index (tk "[") (.field (tk ".") (.var (tk "r")) (tk "a")) [lit 2, lit 1])).run.run exSt with
    | (.ok h, _) => decide (h.loc = ⟨0, false, "r".toList, [.field "a".toList, .idx 3]⟩ ∧ h.isArr = false ∧ h.ty = .int)
    | _ => false) = true := by decide +kernel

def msgOf {α : Type} : Except Stop α × St → Option Msg
  | (.error (.diag d), _) => some d.msg
  | _ => none

/-- (2) `r.a[3,1]`: `indexOOB`; `r.a[TRUE,1]`, `r.a[1]`: `badIndex`; theorem and kernel -/
example : ∃ d, (resolveRef 8 (.index (tk "[") (.field (tk ".") (.var (tk "r")) (tk "a")) [lit 3, lit 1])).run.run exSt =
    (.error (.diag d), exSt) ∧ d.kind = .runtime ∧ d.msg = .indexOOB ∧
    ∃ ex ∈ [lit 3, lit 1], d.line = ex.tok.line ∧ d.col = ex.tok.col :=
  C06_fields_resolve_elem_oob exSt (tk "[") _ [lit 3, lit 1] [3, 1] _ .int dims2 zeros6 2 8
    (ArrAt.of_var_member (tk ".") (tk "r") (tk "a") hasR memA.1 memA.2 rfl).ref rfl
    ⟨(pureAt_intLit _ _ 3).mono (by decide), (pureAt_intLit _ _ 1).mono (by decide), trivial⟩ rfl
    (by simp [InBoundsAll, dims2]) (by decide)
example : ∃ d, (resolveRef 8 (.index (tk "[") (.field (tk ".") (.var (tk "r")) (tk "a")) [lit 1])).run.run exSt =
    (.error (.diag d), exSt) ∧ d.kind = .runtime ∧ d.msg = .badIndex ∧ d.line = (tk "[").line ∧ d.col = (tk "[").col :=
  C06_fields_resolve_elem_arity exSt (tk "[") _ [lit 1] _ .int dims2 zeros6 2 8
    (ArrAt.of_var_member (tk ".") (tk "r") (tk "a") hasR memA.1 memA.2 rfl).ref rfl (by decide) (by decide)
example : msgOf ((resolveRef 8 (.index (tk "[") (.field (tk ".") (.var (tk "r")) (tk "a")) [lit 3, lit 1])).run.run exSt) =
    some .indexOOB := by decide +kernel
example : msgOf ((resolveRef 8 (.index (tk "[") (.field (tk ".") (.var (tk "r")) (tk "a"))
    [.boolLit (tk "TRUE") true, lit 1])).run.run exSt) = some .badIndex := by decide +kernel
example : msgOf ((resolveRef 8 (.index (tk "[") (.field (tk ".") (.var (tk "r")) (tk "a")) [lit 1])).run.run exSt) =
    some .badIndex := by decide +kernel
example : msgOf ((resolveRef 8 (.index (tk "[") (.field (tk ".") (.var (tk "r")) (tk "a")) [lit 1, lit 1, lit 1])).run.run exSt) =
    some .badIndex := by decide +kernel

/-- (3), (4) `r.a[2,1] <- 42`: the theorem gives the final state's content … -/
def zeros42 : List Val := [.int 0, .int 0, .int 0, .int 42, .int 0, .int 0]
example : ∃ σ', (execAssign 10 (tk "<-") (.index (tk "[") (.field (tk ".") (.var (tk "r")) (tk "a")) [lit 2, lit 1]) (lit 42)).run.run exSt
      = (.ok ⟨⟩, σ') ∧
    HasVar σ' "r".toList 0 (.comp "R".toList) (.comp "R".toList (setField fieldsR "a".toList true (.arr .int dims2 zeros42))) ∧
    readLocP σ' ⟨0, false, "r".toList, [.field "a".toList, .idx 3]⟩ = .ok (.int 42) ∧
    readLocP σ' ⟨0, false, "r".toList, [.field "c".toList, .idx 3]⟩ = .ok (.int 0) ∧
    readLocP σ' ⟨0, false, "r".toList, [.field "n".toList]⟩ = .ok (.int 0) ∧
    HasVar σ' "s".toList 0 (.comp "R".toList) recR0 ∧ HasArray σ' "b".toList 0 .int dims2 zeros6 := by
  obtain ⟨σ', h1, h2, h3, _, h5, _, h7, h8, _⟩ := C06_fields_member_write_read exSt (tk "<-") (tk "[") (tk ".") (tk "r") (tk "a")
    [lit 2, lit 1] [2, 1] (lit 42) (.int 42) 0 _ _ fieldsR .int dims2 zeros6 1 10 hasR memA.1 memA.2 rfl (pure21 _) in21
    (pureAt_intLit _ _ 42) rfl (by decide)
  refine ⟨σ', h1, h2, h3, ?_, ?_, h7 _ _ _ _ (.inr (by decide)) hasS, h8 _ _ _ _ _ hasB⟩
  · exact (h5 "c".toList [.idx 3] (by decide)).trans (readsAs_sound (by decide +kernel))
  · exact (h5 "n".toList [] (by decide)).trans (readsAs_sound (by decide +kernel))

/-- … and so does the kernel: write `r.a[2,1] <- 42`, then read `r.a[2,1]`, `r.a[1,1]`, `r.c[2,1]`, `s.a[2,1]` as expressions -/
def afterWrite : St :=
  ((execAssign 10 (tk "<-") (.index (tk "[") (.field (tk ".") (.var (tk "r")) (tk "a")) [lit 2, lit 1]) (lit 42)).run.run exSt).2
def elemExpr (r a : String) (i j : Int) : Expr := .access (tk r) (.index (tk "[") (.field (tk ".") (.var (tk r)) (tk a)) [lit i, lit j])
def evalsToInt (σ : St) (e : Expr) (n : Int) : Bool :=
  match (evalExpr 10 e).run.run σ with
  | (.ok (.int k), _) => k == n
  | _ => false
example : evalsToInt afterWrite (elemExpr "r" "a" 2 1) 42 = true := by decide +kernel
example : evalsToInt afterWrite (elemExpr "r" "a" 1 1) 0 = true := by decide +kernel
example : evalsToInt afterWrite (elemExpr "r" "c" 2 1) 0 = true := by decide +kernel
example : evalsToInt afterWrite (elemExpr "s" "a" 2 1) 0 = true := by decide +kernel

/-- the evaluator-level read-back theorem, with literal indices (pure in every state) -/
example : ∃ σ', (execAssign 10 (tk "<-") (.index (tk "[") (.field (tk ".") (.var (tk "r")) (tk "a")) [lit 2, lit 1]) (lit 42)).run.run exSt
      = (.ok ⟨⟩, σ') ∧
    (evalExpr 10 (elemExpr "r" "a" 2 1)).run.run σ' = (.ok (.int 42), σ') ∧
    (evalExpr 10 (elemExpr "r" "a" 1 1)).run.run σ' = (.ok (.int 0), σ') := by
  obtain ⟨σ', h1, h2⟩ := C06_fields_member_write_then_read exSt (tk "<-") (tk "[") (tk ".") (tk "r") (tk "a")
    [lit 2, lit 1] [2, 1] (lit 42) (.int 42) 0 _ _ fieldsR .int dims2 zeros6 1 10 hasR memA.1 memA.2 rfl (pure21 _) in21
    (pureAt_intLit _ _ 42) rfl (by decide)
  refine ⟨σ', h1, ?_, ?_⟩
  · obtain ⟨v, hv, hv1, _⟩ := h2 (tk "r") (tk "[") (tk ".") [lit 2, lit 1] [2, 1] 1 10 (pure21 _) in21 (by decide)
    have := hv1 rfl
    subst this
    exact hv
  · obtain ⟨v, hv, _, hv2⟩ := h2 (tk "r") (tk "[") (tk ".") [lit 1, lit 1] [1, 1] 1 10
      ⟨pureAt_intLit _ _ 1, pureAt_intLit _ _ 1, trivial⟩ ⟨⟨by decide, by decide⟩, ⟨by decide, by decide⟩, trivial⟩ (by decide)
    have h0 := hv2 (by decide)
    rw [show lin dims2 [1, 1] = 2 from by decide] at h0
    have h1 : zeros6[2]? = some (Val.int 0) := rfl
    rw [h1] at h0
    have h3 : Val.int 0 = v := Option.some.inj h0
    rw [← h3] at hv
    exact hv

/-- a refused write changes nothing: `r.a[3,1] <- 42`, `r.a[1] <- 42` -/
example : ∃ d, (execAssign 10 (tk "<-") (.index (tk "[") (.field (tk ".") (.var (tk "r")) (tk "a")) [lit 3, lit 1]) (lit 42)).run.run exSt
    = (.error (.diag d), exSt) ∧ d.kind = .runtime ∧ d.msg = .indexOOB :=
  (C06_fields_member_write_refused exSt (tk "<-") (tk "[") (tk ".") (tk "r") (tk "a") [lit 3, lit 1] (lit 42) (.int 42) 0 _ _
    fieldsR .int dims2 zeros6 1 10 hasR memA.1 memA.2 rfl (pureAt_intLit _ _ 42) (by decide)).1 [3, 1]
    ⟨pureAt_intLit _ _ 3, pureAt_intLit _ _ 1, trivial⟩ rfl (by simp [InBoundsAll, dims2])
example : ∃ d, (execAssign 10 (tk "<-") (.index (tk "[") (.field (tk ".") (.var (tk "r")) (tk "a")) [lit 1]) (lit 42)).run.run exSt
    = (.error (.diag d), exSt) ∧ d.kind = .runtime ∧ d.msg = .badIndex :=
  (C06_fields_member_write_refused exSt (tk "<-") (tk "[") (tk ".") (tk "r") (tk "a") [lit 1] (lit 42) (.int 42) 0 _ _
    fieldsR .int dims2 zeros6 1 10 hasR memA.1 memA.2 rfl (pureAt_intLit _ _ 42) (by decide)).2 (by decide)

/-! nested records: `r.inner.xs[1] <- "x"` (`ArrAt.of_var_member2`, then the generic theorem) -/
theorem memXs : memberKind [("xs".toList, Val.arr .str [(0, 1)] [.str [], .str []])] (tk "xs").val = some true ∧
    findField [("xs".toList, Val.arr .str [(0, 1)] [.str [], .str []])] (tk "xs").val true =
      some (.arr .str [(0, 1)] [.str [], .str []]) := ⟨by decide +kernel, rfl⟩
theorem arrAtXs : ArrAt exSt 3 (.field (tk ".") (.field (tk ".") (.var (tk "r")) (tk "inner")) (tk "xs"))
    (memberHolder2 0 "r".toList "inner".toList "xs".toList .str) .str [(0, 1)] [.str [], .str []] :=
  ArrAt.of_var_member2 (tk ".") (tk ".") (tk "r") (tk "inner") (tk "xs") hasR memInner.1 memInner.2 memXs.1 memXs.2 rfl
example : ∃ σ', (execAssign 10 (tk "<-") (.index (tk "[") (.field (tk ".") (.field (tk ".") (.var (tk "r")) (tk "inner")) (tk "xs"))
      [lit 1]) (.strLit (tk "x") ['x'])).run.run exSt = (.ok ⟨⟩, σ') ∧
    readLocP σ' ⟨0, false, "r".toList, [.field "inner".toList, .field "xs".toList, .idx 1]⟩ = .ok (.str ['x']) ∧
    readLocP σ' ⟨0, false, "r".toList, [.field "inner".toList, .field "xs".toList, .idx 0]⟩ = .ok (.str []) ∧
    readLocP σ' ⟨0, false, "r".toList, [.field "a".toList, .idx 3]⟩ = .ok (.int 0) := by
  have hstr : PureAt exSt 3 (.strLit (tk "x") ['x']) (.str ['x']) := by
    intro f hf
    obtain ⟨f', rfl⟩ : ∃ f', f = f' + 1 := ⟨f - 1, by omega⟩
    rw [evalExpr.eq_def]; rfl
  obtain ⟨σ', h1, _, _, h3, h4, _, h6, _⟩ := C06_fields_write_read exSt (tk "<-") (tk "[") _ [lit 1] [1] (.strLit (tk "x") ['x'])
    (.str ['x']) _ .str [(0, 1)] [.str [], .str []] 3 10 arrAtXs ⟨(pureAt_intLit _ _ 1).mono (by decide), trivial⟩
    ⟨⟨by decide, by decide⟩, trivial⟩ hstr rfl (by decide)
  refine ⟨σ', h1, h3, ?_, ?_⟩
  · exact (h4 [0] ⟨⟨by decide, by decide⟩, trivial⟩ (by decide)).trans (readsAs_sound (by decide +kernel))
  · exact (h6 ⟨0, false, "r".toList, [.field "a".toList, .idx 3]⟩ [] (.field "inner".toList) (.field "a".toList)
      [.field "xs".toList, .idx 1] [.idx 3] ⟨rfl, rfl, rfl⟩ rfl rfl (by decide)).trans (readsAs_sound (by decide +kernel))

/-! arrays of records: `rs[2].n <- 7`, `rs[2].a[2,1] <- 5` -/
theorem pure2 (σ : St) : PureAll σ 1 [lit 2] ([2].map .int) := ⟨pureAt_intLit σ _ 2, trivial⟩
theorem in2 : InBoundsAll [(1, 3)] [2] := ⟨⟨by decide, by decide⟩, trivial⟩
example : lin [(1, 3)] [2] = 1 := by decide
example : (resolveRef 8 (.field (tk ".") (.index (tk "[") (.var (tk "rs")) [lit 2]) (tk "n"))).run.run exSt =
    (.ok { loc := ⟨0, true, "rs".toList, [.idx 1, .field "n".toList]⟩, isArr := false, ty := .int, name := "n".toList }, exSt) :=
  C06_fields_resolve_elem_field exSt (tk "[") (tk ".") (tk "rs") (tk "n") [lit 2] [2] 0 _ [(1, 3)] _ _ fieldsR false (.int 0) 1 8
    hasRs (pure2 _) in2 rfl memN.1 memN.2 (by decide)
example : ∃ σ', (execAssign 10 (tk "<-") (.field (tk ".") (.index (tk "[") (.var (tk "rs")) [lit 2]) (tk "n")) (lit 7)).run.run exSt
      = (.ok ⟨⟩, σ') ∧
    HasArray σ' "rs".toList 0 (.comp "R".toList) [(1, 3)]
      [recR0, .comp "R".toList (setField fieldsR "n".toList false (.int 7)), recR0] ∧
    readLocP σ' ⟨0, true, "rs".toList, [.idx 1, .field "n".toList]⟩ = .ok (.int 7) ∧
    readLocP σ' ⟨0, true, "rs".toList, [.idx 0, .field "n".toList]⟩ = .ok (.int 0) ∧
    HasVar σ' "r".toList 0 (.comp "R".toList) recR0 := by
  obtain ⟨σ', h1, h2, h3, _, h5, _, _, h8⟩ := C06_fields_elem_field_write_read exSt (tk "<-") (tk "[") (tk ".") (tk "rs") (tk "n")
    [lit 2] [2] (lit 7) (.int 7) 0 _ [(1, 3)] _ _ fieldsR (.int 0) 1 10 hasRs (pure2 _) in2 rfl memN.1 memN.2
    (pureAt_intLit _ _ 7) rfl rfl (by decide)
  exact ⟨σ', h1, h2, h3, (h5 0 [.field "n".toList] (by decide)).trans (readsAs_sound (by decide +kernel)), h8 _ _ _ _ hasR⟩
example : ∃ σ', (execAssign 12 (tk "<-") (.index (tk "[") (.field (tk ".") (.index (tk "[") (.var (tk "rs")) [lit 2]) (tk "a"))
      [lit 2, lit 1]) (lit 5)).run.run exSt = (.ok ⟨⟩, σ') ∧
    readLocP σ' ⟨0, true, "rs".toList, [.idx 1, .field "a".toList, .idx 3]⟩ = .ok (.int 5) ∧
    readLocP σ' ⟨0, true, "rs".toList, [.idx 2, .field "a".toList, .idx 3]⟩ = .ok (.int 0) := by
  have ha := ArrAt.of_elem_member (tk "[") (tk ".") (tk "rs") (tk "a") hasRs (pure2 _) in2 rfl memA.1 memA.2 rfl
  obtain ⟨σ', h1, _, _, h3, _, _, h6, _⟩ := C06_fields_write_read exSt (tk "<-") (tk "[") _ [lit 2, lit 1] [2, 1] (lit 5)
    (.int 5) _ .int dims2 zeros6 6 12 ha (PureAll.mono (by decide) (pure21 _)) in21 ((pureAt_intLit _ _ 5).mono (by decide)) rfl (by decide)
  refine ⟨σ', h1, h3, ?_⟩
  exact (h6 ⟨0, true, "rs".toList, [.idx 2, .field "a".toList, .idx 3]⟩ [] (.idx 1) (.idx 2)
    [.field "a".toList, .idx 3] [.field "a".toList, .idx 3] ⟨rfl, rfl, rfl⟩ rfl rfl (by decide)).trans
    (readsAs_sound (by decide +kernel))

/-! (6) whole-array assignment between members -/
def memRef (r a : String) : Ref := .field (tk ".") (.var (tk r)) (tk a)
theorem arrAtRA : ArrAt exSt 2 (memRef "r" "a") (memberHolder 0 "r".toList "a".toList .int) .int dims2 zeros6 :=
  ArrAt.of_var_member (tk ".") (tk "r") (tk "a") hasR memA.1 memA.2 rfl
theorem arrAtSC : ArrAt exSt 2 (memRef "s" "c") (memberHolder 0 "s".toList "c".toList .int) .int dims2 zeros6 :=
  ArrAt.of_var_member (tk ".") (tk "s") (tk "c") hasS memC.1 memC.2 rfl
theorem arrAtSW : ArrAt exSt 2 (memRef "s" "w") (memberHolder 0 "s".toList "w".toList .int) .int [(1, 6)] zeros6 :=
  ArrAt.of_var_member (tk ".") (tk "s") (tk "w") hasS memW.1 memW.2 rfl
theorem arrAtRC : ArrAt exSt 2 (memRef "r" "c") (memberHolder 0 "r".toList "c".toList .int) .int dims2 zeros6 :=
  ArrAt.of_var_member (tk ".") (tk "r") (tk "c") hasR memC.1 memC.2 rfl

/-- `r.a <- s.w` (same element type and number of cells, other bounds) is refused, state unchanged … -/
example : ∃ d, (execAssign 6 (tk "<-") (memRef "r" "a") (.access (tk "s") (memRef "s" "w"))).run.run exSt = (.error (.diag d), exSt) ∧
    d.kind = .runtime ∧ d.msg = .typeMismatch ∧ d.line = (tk "<-").line ∧ d.col = (tk "<-").col :=
  (C06_fields_array_assign exSt (tk "<-") (tk "s") _ _ _ _ .int .int [(1, 6)] dims2 zeros6 zeros6 2 6 arrAtSW arrAtRA
    (by decide)).2 (by decide)
/-- … `r.a <- s.c` succeeds (iff) … -/
example : ∃ σ', (execAssign 6 (tk "<-") (memRef "r" "a") (.access (tk "s") (memRef "s" "c"))).run.run exSt = (.ok ⟨⟩, σ') :=
  (C06_fields_array_assign_iff exSt (tk "<-") (tk "s") _ _ _ _ .int .int dims2 dims2 zeros6 zeros6 2 6 arrAtSC arrAtRA
    (by decide)).2 ⟨rfl, rfl⟩
/-- … also between two members of the same record, `r.a <- r.c`: the source keeps its value -/
example : ∃ σ', (execAssign 6 (tk "<-") (memRef "r" "a") (.access (tk "r") (memRef "r" "c"))).run.run exSt = (.ok ⟨⟩, σ') ∧
    readLocP σ' ⟨0, false, "r".toList, [.field "a".toList]⟩ = .ok (.arr .int dims2 zeros6) ∧
    readLocP σ' ⟨0, false, "r".toList, [.field "c".toList]⟩ = .ok (.arr .int dims2 zeros6) :=
  C06_fields_array_assign_source_kept exSt (tk "<-") (tk "r") _ _ _ _ .int dims2 zeros6 zeros6 2 6 arrAtRC arrAtRA (by decide)
    (.inr (.inr ⟨[], .field "a".toList, .field "c".toList, [], [], ⟨rfl, rfl, rfl⟩, rfl, rfl, by decide⟩))
/-- independence after `r.a <- s.c`: the theorem instantiated -/
example : ∃ σ₁, (execAssign 6 (tk "<-") (memRef "r" "a") (.access (tk "s") (memRef "s" "c"))).run.run exSt = (.ok ⟨⟩, σ₁) ∧
    ∃ σ₂, (execAssign 10 (tk "<-") (.index (tk "[") (memRef "r" "a") [lit 2, lit 1]) (lit 42)).run.run σ₁ = (.ok ⟨⟩, σ₂) ∧
      HasVar σ₂ "s".toList 0 (.comp "R".toList) recR0 := by
  obtain ⟨σ₁, h1, _, _, _, _, h6⟩ := C06_fields_member_assign_independent exSt (tk "<-") (tk "s") (tk ".") (tk ".") (tk "r") (tk "s")
    (tk "a") (tk "c") 0 0 _ _ _ _ fieldsR fieldsR .int dims2 zeros6 zeros6 6 hasR hasS (.inr (by decide)) memA.1 memA.2 rfl
    memC.1 memC.2 rfl (by decide)
  obtain ⟨⟨σ₂, h2, h3, _⟩, _⟩ := h6 (tk "<-") (tk "[") (tk ".") [lit 2, lit 1] [2, 1] (lit 42) (.int 42) 1 10 (pure21 _) in21
    (pureAt_intLit _ _ 42) rfl (by decide)
  exact ⟨σ₁, h1, σ₂, h2, h3⟩
/-- `r.a <- b` -/
example : ∃ σ₁, (execAssign 6 (tk "<-") (memRef "r" "a") (.access (tk "b") (.var (tk "b")))).run.run exSt = (.ok ⟨⟩, σ₁) ∧
    HasVar σ₁ "r".toList 0 (.comp "R".toList) (.comp "R".toList (setField fieldsR "a".toList true (.arr .int dims2 zeros6))) ∧
    HasArray σ₁ "b".toList 0 .int dims2 zeros6 := by
  obtain ⟨σ₁, h1, h2, h3, _⟩ := C06_fields_member_assign_from_var exSt (tk "<-") (tk "b") (tk ".") (tk "r") (tk "a") (tk "b") 0 0 _ _
    fieldsR .int dims2 zeros6 zeros6 6 hasR hasB memA.1 memA.2 rfl (by decide)
  exact ⟨σ₁, h1, h2, h3⟩

/-- the same as program text, through lexer, parser and evaluator (kernel evaluation of `runFile`):
    write, copy `s.a <- r.a`, overwrite the source, read both; an out-of-bounds read ends the run -/
def src : String := "TYPE R\nDECLARE a : ARRAY[1:2,0:2] OF INTEGER\nDECLARE n : INTEGER\nENDTYPE\nDECLARE r : R\nDECLARE s : R\nr.a[2,1] <- 42\ns.a <- r.a\nr.a[2,1] <- 7\nOUTPUT r.a[2,1]\nOUTPUT s.a[2,1]\nOUTPUT s.a[1,1]\nOUTPUT r.n\nOUTPUT r.a[3,1]"
example : (runFile {} src.toList [] []).out = "7\n42\n0\n0\n\n".toList := by decide +kernel
example : (runFile {} src.toList [] []).diags.map (·.msg) = [.indexOOB] := by decide +kernel

/-- arrays of records and nested records as program text -/
def src2 : String := "TYPE P\nDECLARE x : INTEGER\nDECLARE t : ARRAY[1:2] OF INTEGER\nENDTYPE\nDECLARE ps : ARRAY[1:3] OF P\nps[2].x <- 5\nps[2].t[1] <- 9\nOUTPUT ps[2].x\nOUTPUT ps[1].x\nOUTPUT ps[2].t[1]\nOUTPUT ps[3].t[1]\nOUTPUT ps[4].x"
example : (runFile {} src2.toList [] []).out = "5\n0\n9\n0\n\n".toList := by decide +kernel
example : (runFile {} src2.toList [] []).diags.map (·.msg) = [.indexOOB] := by decide +kernel
def src3 : String := "TYPE R\nDECLARE a : ARRAY[1:6] OF INTEGER\nDECLARE w : ARRAY[1:2,0:2] OF INTEGER\nENDTYPE\nDECLARE r : R\nr.a <- r.w"
example : (runFile {} src3.toList [] []).diags.map (·.msg) = [.typeMismatch] := by decide +kernel
def src4 : String := "TYPE I\nDECLARE xs : ARRAY[0:1] OF STRING\nENDTYPE\nTYPE R\nDECLARE inner : I\nENDTYPE\nDECLARE r : R\nr.inner.xs[1] <- \"x\"\nOUTPUT r.inner.xs[1]\nOUTPUT r.inner.xs[0]\nOUTPUT r.inner.xs[TRUE]"
example : (runFile {} src4.toList [] []).out = "x\n\n\n".toList := by decide +kernel
example : (runFile {} src4.toList [] []).diags.map (·.msg) = [.badIndex] := by decide +kernel

/-! (5) default contents: the mixed record `R` above (scalar, record and array members) is covered by evaluation — `hasR`,
    `hasRs` state that every cell of `r.a`, `r.c`, `r.w`, `r.inner.xs`, `rs[i].a` … holds the default value —; the theorem
    for records made of array members, on the state after `TYPE A2 … ENDTYPE`: -/
/-- `TYPE A2 : DECLARE a : ARRAY[1:2,0:2] OF INTEGER ; DECLARE v, w : ARRAY[1:3] OF STRING` -/
def bodyA2 : Block :=
  [ .declareArr (tk "DECLARE") [tk "a"] (dt "INTEGER") [(lit 1, lit 2), (lit 0, lit 2)],
    .declareArr (tk "DECLARE") [tk "v", tk "w"] (dt "STRING") [(lit 1, lit 3)] ]
def slotsA2 : List Slot :=
  [newArrSlot .int dims2 "a".toList, newArrSlot .str [(1, 3)] "v".toList, newArrSlot .str [(1, 3)] "w".toList]
/-- the state after `TYPE A2 … ENDTYPE` has run on the initial state -/
def stT : St := ((execStmt 3 (.typeRec (tk "TYPE") (tk "A2") bodyA2)).run.run (St.init [] [] false false)).2
def gT : Act := { mkGlobal with comps := [("A2".toList, bodyA2)] }
example : ((execStmt 3 (.typeRec (tk "TYPE") (tk "A2") bodyA2)).run.run (St.init [] [] false false)).1 = .ok .none := rfl
theorem stT_acts : stT.acts = [gT] := rfl

example : ∃ σ', (execStmt 20 (.declare (tk "DECLARE") [tk "q"] (tk "A2"))).run.run stT = (.ok .none, σ') ∧
    HasVar σ' "q".toList 0 (.comp "A2".toList) (recOfSlots "A2".toList slotsA2) ∧
    (∀ ks, InBoundsAll dims2 ks → readLocP σ' ⟨0, false, "q".toList, [.field "a".toList, .idx (lin dims2 ks)]⟩ = .ok (.int 0)) ∧
    (∀ ks, InBoundsAll [(1, 3)] ks → readLocP σ' ⟨0, false, "q".toList, [.field "w".toList, .idx (lin [(1, 3)] ks)]⟩ = .ok (.str [])) := by
  obtain ⟨σ', h1, h2, h3, _⟩ := C06_fields_declare_record_default_partial stT gT (tk "DECLARE") (tk "q") (tk "A2") "A2".toList bodyA2
    slotsA2 _ 20 stT_acts rfl (by decide) rfl rfl rfl rfl rfl rfl
    (.cons [] _ (dt "INTEGER") [tk "a"] _ dims2 _ _ _ rfl ⟨rfl, rfl, by decide, rfl, rfl, by decide, trivial⟩ (by decide)
      (by intro id _; rfl)
      (.cons _ _ (dt "STRING") [tk "v", tk "w"] _ [(1, 3)] _ _ _ rfl ⟨rfl, rfl, by decide, trivial⟩ (by decide)
        (by intro id hid; simp at hid; rcases hid with rfl | rfl <;> rfl) (.nil _)))
    (by decide)
  exact ⟨σ', h1, h2, (h3 "a".toList .int dims2 rfl).2.2, (h3 "w".toList .str [(1, 3)] rfl).2.2⟩

/-- `TYPE M : DECLARE n : INTEGER ; DECLARE a : ARRAY[1:2,0:2] OF INTEGER ; DECLARE nm, tag : STRING ;
    DECLARE w : ARRAY[1:6] OF INTEGER` — scalar and array members mixed -/
def bodyM : Block :=
  [ .declare (tk "DECLARE") [tk "n"] (dt "INTEGER"),
    .declareArr (tk "DECLARE") [tk "a"] (dt "INTEGER") [(lit 1, lit 2), (lit 0, lit 2)],
    .declare (tk "DECLARE") [tk "nm", tk "tag"] (dt "STRING"),
    .declareArr (tk "DECLARE") [tk "w"] (dt "INTEGER") [(lit 1, lit 6)] ]
def varsM : List Slot := [newVarSlot .int "n".toList, newVarSlot .str "nm".toList, newVarSlot .str "tag".toList]
def arrsM : List Slot := [newArrSlot .int dims2 "a".toList, newArrSlot .int [(1, 6)] "w".toList]
def stM : St := ((execStmt 3 (.typeRec (tk "TYPE") (tk "M") bodyM)).run.run (St.init [] [] false false)).2
def gM : Act := { mkGlobal with comps := [("M".toList, bodyM)] }
theorem stM_acts : stM.acts = [gM] := rfl

example : ∃ σ', (execStmt 40 (.declare (tk "DECLARE") [tk "q"] (tk "M"))).run.run stM = (.ok .none, σ') ∧
    HasVar σ' "q".toList 0 (.comp "M".toList) (recOfMembers "M".toList varsM arrsM) ∧
    (∀ ks, InBoundsAll dims2 ks → readLocP σ' ⟨0, false, "q".toList, [.field "a".toList, .idx (lin dims2 ks)]⟩ = .ok (.int 0)) ∧
    (∀ ks, InBoundsAll [(1, 6)] ks → readLocP σ' ⟨0, false, "q".toList, [.field "w".toList, .idx (lin [(1, 6)] ks)]⟩ = .ok (.int 0)) ∧
    readLocP σ' ⟨0, false, "q".toList, [.field "tag".toList]⟩ = .ok (.str []) := by
  obtain ⟨σ', h1, h2, h3, h4, _⟩ := C06_fields_declare_record_default_mixed_partial stM gM (tk "DECLARE") (tk "q") (tk "M")
    "M".toList bodyM varsM arrsM _ 40 stM_acts rfl (by decide) rfl rfl rfl rfl rfl rfl
    (.var [] [] _ (dt "INTEGER") [tk "n"] _ _ _ _ rfl (by intro id hid; simp at hid; subst hid; rfl) ⟨rfl, trivial⟩
      (.arr _ _ _ (dt "INTEGER") [tk "a"] _ dims2 _ _ _ _ rfl ⟨rfl, rfl, by decide, rfl, rfl, by decide, trivial⟩ (by decide)
        (by intro id _; rfl)
        (.var _ _ _ (dt "STRING") [tk "nm", tk "tag"] _ _ _ _ rfl
          (by intro id hid; simp at hid; rcases hid with rfl | rfl <;> rfl) ⟨rfl, rfl, trivial⟩
          (.arr _ _ _ (dt "INTEGER") [tk "w"] _ [(1, 6)] _ _ _ _ rfl ⟨rfl, rfl, by decide, trivial⟩ (by decide)
            (by intro id hid; simp at hid; subst hid; rfl) (.nil _ _)))))
    (by decide)
  exact ⟨σ', h1, h2, (h3 "a".toList .int dims2 rfl rfl).2.2, (h3 "w".toList .int [(1, 6)] rfl rfl).2.2,
    h4 "tag".toList .str rfl⟩

/-! further instances: non-INTEGER indices, wrong types, nested records with the record value afterwards, statements -/

/-- the run of the declarations ends normally -/
example : (match (runBlock 60 prog).run.run (St.init [] [] false false) with | (.ok _, _) => true | _ => false) = true := by
  decide +kernel

theorem pureAt_boolLit (σ : St) (t : Tok) (b : Bool) : PureAt σ 1 (.boolLit t b) (.bool b) := by
  intro f hf
  obtain ⟨f', rfl⟩ : ∃ f', f = f' + 1 := ⟨f - 1, by omega⟩
  rw [evalExpr.eq_def]; rfl
theorem pureAt_strLit (σ : St) (t : Tok) (s : Str) : PureAt σ 1 (.strLit t s) (.str s) := by
  intro f hf
  obtain ⟨f', rfl⟩ : ∃ f', f = f' + 1 := ⟨f - 1, by omega⟩
  rw [evalExpr.eq_def]; rfl

/-- `r.a[TRUE,1]`: `badIndex` at the token of `TRUE` (theorem) -/
example : ∃ d, (resolveRef 8 (.index (tk "[") (memRef "r" "a") ([] ++ .boolLit (tk "TRUE") true :: [lit 1]))).run.run exSt =
    (.error (.diag d), exSt) ∧ d.kind = .runtime ∧ d.msg = .badIndex ∧ d.line = (tk "TRUE").line ∧ d.col = (tk "TRUE").col :=
  C06_fields_resolve_elem_nonint exSt (tk "[") _ [] (.boolLit (tk "TRUE") true) [lit 1] [] (.bool true) [.int 1] _ .int dims2
    zeros6 2 8 arrAtRA.ref rfl
    ⟨(pureAt_boolLit _ _ true).mono (by decide), (pureAt_intLit _ _ 1).mono (by decide), trivial⟩ rfl rfl trivial
    (by intro k h; cases h) (by decide)
example : ∃ d, (resolveRef 8 (.index (tk "[") (memRef "r" "a") [lit 1, .boolLit (tk "TRUE") true])).run.run exSt =
    (.error (.diag d), exSt) ∧ d.kind = .runtime ∧ (d.msg = .badIndex ∨ d.msg = .indexOOB) :=
  C06_fields_resolve_elem_some_nonint exSt (tk "[") _ _ [.int 1, .bool true] _ .int dims2 zeros6 2 8 arrAtRA.ref rfl
    ⟨(pureAt_intLit _ _ 1).mono (by decide), (pureAt_boolLit _ _ true).mono (by decide), trivial⟩ rfl
    ⟨.bool true, by simp, by intro k h; cases h⟩ (by decide)
/-- `r.a[2,TRUE] <- 42`, `r.a[2,1] <- "x"`: refused, state unchanged -/
example : ∃ d, (execAssign 10 (tk "<-") (.index (tk "[") (memRef "r" "a") [lit 2, .boolLit (tk "TRUE") true]) (lit 42)).run.run exSt =
    (.error (.diag d), exSt) ∧ d.kind = .runtime ∧ (d.msg = .badIndex ∨ d.msg = .indexOOB) :=
  C06_fields_write_some_nonint exSt (tk "<-") (tk "[") _ _ [.int 2, .bool true] (lit 42) (.int 42) _ .int dims2 zeros6 2 10 arrAtRA
    ⟨(pureAt_intLit _ _ 2).mono (by decide), (pureAt_boolLit _ _ true).mono (by decide), trivial⟩ rfl
    ⟨.bool true, by simp, by intro k h; cases h⟩ ((pureAt_intLit _ _ 42).mono (by decide)) (by decide)
example : ∃ d, (execAssign 10 (tk "<-") (.index (tk "[") (memRef "r" "a") [lit 2, lit 1]) (.strLit (tk "x") ['x'])).run.run exSt =
    (.error (.diag d), exSt) ∧ d.kind = .runtime ∧ d.msg = .typeMismatch :=
  C06_fields_write_type_mismatch exSt (tk "<-") (tk "[") _ _ [2, 1] _ (.str ['x']) _ .int dims2 zeros6 2 10 arrAtRA
    (PureAll.mono (by decide) (pure21 _)) in21 ((pureAt_strLit _ _ ['x']).mono (by decide)) (by decide) (by decide)
example : ∃ σ', (execAssign 10 (tk "<-") (.index (tk "[") (memRef "r" "a") [lit 2, lit 1]) (lit 42)).run.run exSt = (.ok ⟨⟩, σ') ∧
    readLocP σ' ⟨0, false, "r".toList, [.field "a".toList]⟩ = .ok (.arr .int dims2 zeros42) := by
  obtain ⟨σ', h1, h2, _⟩ := C06_fields_write_read_same_type exSt (tk "<-") (tk "[") _ _ [2, 1] (lit 42) (.int 42) _ .int dims2 zeros6
    2 10 arrAtRA (PureAll.mono (by decide) (pure21 _)) in21 ((pureAt_intLit _ _ 42).mono (by decide)) rfl (by decide)
  exact ⟨σ', h1, h2⟩

/-- `rs[4].n`: `indexOOB` -/
example : ∃ d, (resolveRef 8 (.field (tk ".") (.index (tk "[") (.var (tk "rs")) [lit 4]) (tk "n"))).run.run exSt =
    (.error (.diag d), exSt) ∧ d.kind = .runtime ∧ d.msg = .indexOOB :=
  C06_fields_resolve_elem_field_oob exSt (tk "[") (tk ".") (tk "rs") (tk "n") [lit 4] [4] 0 _ [(1, 3)] _ 1 8 hasRs
    ⟨pureAt_intLit _ _ 4, trivial⟩ rfl (by simp [InBoundsAll]) (by decide)

/-- nested: `r.inner.xs[1] <- "x"` with the record value of `r` afterwards -/
example : ∃ σ', (execAssign 12 (tk "<-") (.index (tk "[") (.field (tk ".") (.field (tk ".") (.var (tk "r")) (tk "inner")) (tk "xs"))
      [lit 1]) (.strLit (tk "x") ['x'])).run.run exSt = (.ok ⟨⟩, σ') ∧
    HasVar σ' "r".toList 0 (.comp "R".toList) (.comp "R".toList (setField fieldsR "inner".toList false
      (.comp "Inner".toList (setField [("xs".toList, Val.arr .str [(0, 1)] [.str [], .str []])] "xs".toList true
        (.arr .str [(0, 1)] [.str [], .str ['x']]))))) ∧
    readLocP σ' ⟨0, false, "r".toList, [.field "n".toList]⟩ = .ok (.int 0) := by
  obtain ⟨σ', h1, h2, _, _, h5, _⟩ := C06_fields_nested_member_write_read exSt (tk "<-") (tk "[") (tk ".") (tk ".") (tk "r")
    (tk "inner") (tk "xs") [lit 1] [1] (.strLit (tk "x") ['x']) (.str ['x']) 0 _ _ _ fieldsR _ .str [(0, 1)] [.str [], .str []]
    1 12 hasR memInner.1 memInner.2 memXs.1 memXs.2 rfl ⟨pureAt_intLit _ _ 1, trivial⟩ ⟨⟨by decide, by decide⟩, trivial⟩
    (pureAt_strLit _ _ ['x']) rfl (by decide)
  exact ⟨σ', h1, h2, (h5 "n".toList [] (by decide)).trans (readsAs_sound (by decide +kernel))⟩

/-- the statement `r.a[2,1] <- 42` (one tick first) -/
example : ∃ σ', (execStmt 12 (.expr (.assign (tk "<-") (.index (tk "[") (memRef "r" "a") [lit 2, lit 1]) (lit 42)))).run.run exSt
      = (.ok .none, σ') ∧
    readLocP σ' ⟨0, false, "r".toList, [.field "a".toList, .idx 3]⟩ = .ok (.int 42) ∧ σ'.steps = exSt.steps + 1 := by
  have ha : ArrAt (tickSt exSt) 2 (memRef "r" "a") (memberHolder 0 "r".toList "a".toList .int) .int dims2 zeros6 :=
    ArrAt.of_var_member (tk ".") (tk "r") (tk "a") hasR.tick memA.1 memA.2 rfl
  obtain ⟨σ', h1, _, h3, _, _, _, h7⟩ := C06_fields_stmt_write_read exSt (tk "<-") (tk "[") _ [lit 2, lit 1] [2, 1] (lit 42) (.int 42)
    _ .int dims2 zeros6 2 12 (by decide +kernel) ha (PureAll.mono (by decide) (pure21 _)) in21
    ((pureAt_intLit _ _ 42).mono (by decide)) rfl (by decide)
  exact ⟨σ', h1, h3, h7⟩
/-- the statement `r.a <- s.w` is refused -/
example : ∃ d, (execStmt 8 (.expr (.assign (tk "<-") (memRef "r" "a") (.access (tk "s") (memRef "s" "w"))))).run.run exSt =
    (.error (.diag d), tickSt exSt) ∧ d.kind = .runtime ∧ d.msg = .typeMismatch ∧ (tickSt exSt).acts = exSt.acts :=
  (C06_fields_stmt_array_assign exSt (tk "<-") (tk "s") _ _ _ _ .int .int [(1, 6)] dims2 zeros6 zeros6 2 8 (by decide +kernel)
    (ArrAt.of_var_member (tk ".") (tk "s") (tk "w") hasS.tick memW.1 memW.2 rfl)
    (ArrAt.of_var_member (tk ".") (tk "r") (tk "a") hasR.tick memA.1 memA.2 rfl) (by decide)).2 (by decide)
example : ∃ d, (execStmt 12 (.expr (.assign (tk "<-") (.index (tk "[") (memRef "r" "a") [lit 3, lit 1]) (lit 42)))).run.run exSt
      = (.error (.diag d), tickSt exSt) ∧ d.kind = .runtime ∧ d.msg = .indexOOB ∧ (tickSt exSt).acts = exSt.acts :=
  C06_fields_stmt_write_oob exSt (tk "<-") (tk "[") _ [lit 3, lit 1] [3, 1] (lit 42) (.int 42) _ .int dims2 zeros6 2 12
    (by decide +kernel) (ArrAt.of_var_member (tk ".") (tk "r") (tk "a") hasR.tick memA.1 memA.2 rfl)
    ⟨(pureAt_intLit _ _ 3).mono (by decide), (pureAt_intLit _ _ 1).mono (by decide), trivial⟩ rfl
    (by simp [InBoundsAll, dims2]) ((pureAt_intLit _ _ 42).mono (by decide)) (by decide)

end C06FieldsEx

end Pseudo
