import PseudoProofs.CallLemmas
/-!
# C04 at the level of the evaluator

`Properties/C04.lean` proves the stack discipline (`C04_stack_discipline`, `C04_fresh_ids`), `Properties/C04Core.lean`
the shape of the parameter slots and of `lookupVarIn`, `Properties/C04Params.lean` the parser side (sticky passing
mode).  This file states the clauses of C04 about *runs* of the evaluator (`PseudoModel/Eval.lean`): every theorem is
a statement about `(bindParams …).run.run σ`, `(callProc …).run.run σ`, `(callFun …).run.run σ`,
`(execStmt …).run.run σ` or `(lookupVar …).run.run σ`.

**Hypotheses on expressions** (arguments, right-hand sides, RETURN expressions): `ArrayLemmas.PureAt σ f₀ e v` —
with every fuel `≥ f₀` the expression evaluates in `σ` to `v` and leaves `σ` as it is (as in `C06Exec` / `C16Exec`);
integer literals: `ArrayLemmas.pureAt_intLit`, variables: `CallLemmas.pureAt_var`.

**Restrictions** (said again at each theorem): the isolation / visibility theorems (3) are about procedures with ONE
parameter whose body is the ONE statement `p <- e`; the BYREF argument there is a plain variable `x` (of the caller or
global; it may itself be a BYREF formal of the caller).  The decomposition theorems `CallLemmas.run_callProc` /
`run_callFun_user`, the binding theorems (1), the error theorems (2), `C04_exec_function_result` /
`_missing_return` (4) and the theorems of (5) hold for every parameter list and every body.

**Messages** (`Msg`, `PseudoModel/Basic.lean`): wrong number of arguments and wrong type of an argument are both
`invalidArgs`; an undefined procedure / function is `notDefined`; a BYREF argument that is not a reference is
`byrefArg`, a whole array `arrayDirect`; RETURN outside a function `returnOutside`; no RETURN `missingReturn`.

**Model observation (not a defect of the property, recorded for the reader).** The parser drops parentheses
(`parseAtom`, case `LPAREN`): `(x)` is the same tree as `x`, so `CALL P((x))` binds a BYREF parameter to `x` itself —
see `C04Ex.paren_is_access`.  The C++ parser does the same (`Parser::parseAtom` returns the inner node).
-/
namespace Pseudo

open ArrayLemmas C07Copy CallLemmas

/-! ## 1. binding -/

/-- **BYVAL binding.**  A BYVAL parameter `pn : pty` given the argument value `v`: a new cell holding the implicitly
    cast copy of `v` (INTEGER → REAL, one-character STRING ↔ CHAR, otherwise `v`), no alias — provided the cast
    value has the parameter's type; otherwise the runtime diagnostic `invalidArgs` at the call token.  The argument
    expression `e` plays no role, the state is unchanged. -/
theorem C04_exec_bind_byval (f : Nat) (t : Tok) (pn : Str) (pty : Ty) (e : Expr) (v : Val) (σ : St) :
    (bindParams (f+2) t [(pn, pty, false)] [e] [v] []).run.run σ =
      if (implicitCast pty v).ty = pty then
        (.ok [{ name := pn, ty := pty, val := implicitCast pty v, ref := none }], σ)
      else (.error (.diag (rtDiag σ t.line t.col .invalidArgs)), σ) := by
  rw [run_bindParams_byval, run_bindParams_done]
  rfl

/-- all parameters BYVAL, one value per parameter, every cast value of the parameter's type -/
def C04.CastsOK : List (Str × Ty × Bool) → List Val → Prop
  | [], [] => True
  | (_, pty, byRef) :: ps, v :: vs => byRef = false ∧ (implicitCast pty v).ty = pty ∧ C04.CastsOK ps vs
  | _, _ => False

/-- the cells of BYVAL parameters -/
def C04.byvalSlots : List (Str × Ty × Bool) → List Val → List Slot
  | (pn, pty, _) :: ps, v :: vs => byvalSlot pn pty v :: C04.byvalSlots ps vs
  | _, _ => []

/-- **BYVAL binding, any number of parameters**: one new cell per parameter, in order; the state is unchanged -/
theorem C04_exec_bind_byval_all (t : Tok) : ∀ (ps : List (Str × Ty × Bool)) (es : List Expr) (vs : List Val)
    (acc : List Slot) (f : Nat) (σ : St), C04.CastsOK ps vs → es.length = vs.length → ps.length + 1 ≤ f →
    (bindParams f t ps es vs acc).run.run σ = (.ok (acc.reverse ++ C04.byvalSlots ps vs), σ) := by
  intro ps
  induction ps with
  | nil =>
    intro es vs acc f σ hc _ hf
    obtain ⟨f', rfl⟩ : ∃ f', f = f' + 1 := ⟨f - 1, by omega⟩
    cases vs with
    | nil => rw [run_bindParams_done]; simp [C04.byvalSlots]
    | cons _ _ => cases hc
  | cons p ps ih =>
    intro es vs acc f σ hc hlen hf
    obtain ⟨pn, pty, byRef⟩ := p
    obtain ⟨f', rfl⟩ : ∃ f', f = f' + 1 := ⟨f - 1, by omega⟩
    simp only [List.length_cons] at hf
    cases vs with
    | nil => cases hc
    | cons v vs =>
      cases es with
      | nil => cases hlen
      | cons e es =>
        obtain ⟨rfl, hty, hrest⟩ := hc
        rw [run_bindParams_byval, if_pos hty, ih es vs _ f' σ hrest (by simpa using hlen) (by omega)]
        simp [C04.byvalSlots]

/-- **BYREF binding to a variable.**  A BYREF parameter `pn : pty`, the argument expression is the name `x`, which
    denotes (in the current activation, else globally) the variable slot `s` of activation `a`; the argument value `v`
    has exactly the type `pty` (no implicit cast for BYREF), and so has the variable `x` itself (`s.ty = pty`: the
    reference is resolved a second time for the alias, and the variable actually bound is checked as well —
    `C04_exec_bind_byref_retyped`).  Then the parameter slot has no value of its own and is an
    alias of the location of `x` (`holderOf`: the cell of `x`; the caller's location again if `x` is itself a BYREF
    formal); its type is the type of `x`, it is a constant iff the root of that location is.  State unchanged. -/
theorem C04_exec_bind_byref (f : Nat) (t at' x : Tok) (pn : Str) (pty : Ty) (v : Val) (σ : St) (cur g : Act)
    (rest : List Act) (a : Act) (s : Slot)
    (hacts : σ.acts = cur :: rest) (hg : σ.acts.getLast? = some g) (hx : lookupVarIn cur g x.val = some (a, s))
    (hty : v.ty = pty) (hsty : s.ty = pty) :
    (bindParams (f+2) t [(pn, pty, true)] [.access at' (.var x)] [v] []).run.run σ =
      (.ok [{ name := pn, ty := s.ty, isConst := locConstP σ (holderOf a s).loc, val := .none,
              ref := some (holderOf a s).loc }], σ) := by
  rw [run_bindParams_byref (f+1) t pn pty [] at' (.var x) [] v [] [] σ σ (holderOf a s) hty
    (run_resolveRef_var σ cur g rest x f a s hacts hg hx)]
  simp only [holderOf_isArr, Bool.false_eq_true, if_false]
  rw [if_pos (by rw [holderOf_ty]; exact hsty), run_bindParams_done]
  simp only [byrefSlot, holderOf_ty, List.reverse_cons, List.reverse_nil, List.nil_append]

/-- **BYREF binding to any reference** (array element `a[i]`, record field `r.f`, dereference `p^`): if the reference
    resolves to the non-array holder `h` (in state `σ'`: an index expression may have an effect) of the parameter's
    type (`h.ty = pty`), the parameter is an alias of `h.loc` of type `h.ty`. -/
theorem C04_exec_bind_byref_ref (f : Nat) (t at' : Tok) (r : Ref) (pn : Str) (pty : Ty) (v : Val) (σ σ' : St) (h : Holder)
    (hr : (resolveRef (f+1) r).run.run σ = (.ok h, σ')) (harr : h.isArr = false) (hty : v.ty = pty) (hhty : h.ty = pty) :
    (bindParams (f+2) t [(pn, pty, true)] [.access at' r] [v] []).run.run σ =
      (.ok [{ name := pn, ty := h.ty, isConst := locConstP σ' h.loc, val := .none, ref := some h.loc }], σ') := by
  rw [run_bindParams_byref (f+1) t pn pty [] at' r [] v [] [] σ σ' h hty hr]
  simp only [harr, Bool.false_eq_true, if_false]
  rw [if_pos hhty, run_bindParams_done]
  rfl

/-- **BYREF, the variable actually bound has another type.**  The argument value `v` (from the evaluation of the
    argument expression) has the parameter's type, but the reference — resolved a second time to make the alias —
    yields a non-array holder `h` of another type (`h.ty ≠ pty`: possible only when an index expression has a side
    effect, so that the second resolution selects another variable than the evaluation did): the runtime diagnostic
    `invalidArgs` at the call token; nothing is bound, the state is the one after resolving.  (The repaired C++
    re-checks `original.type != parameter.type` after re-resolving; before the repair this was a crash.) -/
theorem C04_exec_bind_byref_retyped (f : Nat) (t at' : Tok) (r : Ref) (pn : Str) (pty : Ty) (v : Val) (σ σ' : St)
    (h : Holder) (hr : (resolveRef (f+1) r).run.run σ = (.ok h, σ')) (harr : h.isArr = false) (hty : v.ty = pty)
    (hhty : h.ty ≠ pty) :
    (bindParams (f+2) t [(pn, pty, true)] [.access at' r] [v] []).run.run σ =
      (.error (.diag (rtDiag σ' t.line t.col .invalidArgs)), σ') := by
  rw [run_bindParams_byref (f+1) t pn pty [] at' r [] v [] [] σ σ' h hty hr]
  simp only [harr, Bool.false_eq_true, if_false]
  rw [if_neg hhty]

/-- **BYREF, the argument is not a variable**: an argument expression that is not a reference (a literal, an
    arithmetic / comparison / logical expression, a concatenation, a cast, a function call, an assignment — everything
    but `Expr.access`) ends in the runtime diagnostic `byrefArg` at the call token; state unchanged.  (When the value's
    type differs from the parameter's type, `invalidArgs` comes first: `C04_exec_bind_byref_type`.) -/
theorem C04_exec_bind_byref_nonref (f : Nat) (t : Tok) (pn : Str) (pty : Ty) (e : Expr) (v : Val) (σ : St)
    (hty : v.ty = pty) (he : ∀ at' r, e ≠ .access at' r) :
    (bindParams (f+2) t [(pn, pty, true)] [e] [v] []).run.run σ =
      (.error (.diag (rtDiag σ t.line t.col .byrefArg)), σ) :=
  run_bindParams_byref_nonref (f+1) t pn pty [] e [] v [] [] σ hty he

/-- the expressions that are not references, spelled out -/
theorem C04_exec_nonref_exprs (t : Tok) :
    (∀ k at' r, Expr.intLit t k ≠ .access at' r) ∧ (∀ op l r' at' r, Expr.arith t op l r' ≠ .access at' r) ∧
    (∀ args at' r, Expr.call t args ≠ .access at' r) ∧ (∀ s at' r, Expr.strLit t s ≠ .access at' r) ∧
    (∀ e at' r, Expr.neg t e ≠ .access at' r) ∧ (∀ l r' at' r, Expr.concat t l r' ≠ .access at' r) :=
  ⟨fun _ _ _ h => Expr.noConfusion h, fun _ _ _ _ _ h => Expr.noConfusion h, fun _ _ _ h => Expr.noConfusion h,
   fun _ _ _ h => Expr.noConfusion h, fun _ _ _ h => Expr.noConfusion h, fun _ _ _ _ h => Expr.noConfusion h⟩

/-- **BYREF, wrong type**: the type of the argument value differs from the parameter type — `invalidArgs`
    (BYREF arguments are not cast: an INTEGER variable cannot be passed to a BYREF REAL parameter) -/
theorem C04_exec_bind_byref_type (f : Nat) (t : Tok) (pn : Str) (pty : Ty) (e : Expr) (v : Val) (σ : St)
    (hty : v.ty ≠ pty) :
    (bindParams (f+2) t [(pn, pty, true)] [e] [v] []).run.run σ =
      (.error (.diag (rtDiag σ t.line t.col .invalidArgs)), σ) :=
  run_bindParams_byref_type (f+1) t pn pty [] e [] v [] [] σ hty

/-- **BYREF, a whole array**: a reference that resolves to an array holder ends in `arrayDirect`.  (In a complete call
    this branch is not reached: evaluating the argument expression `a` already raises `arrayDirect`, at the token of the
    argument — `ArrayLemmas.run_evalExpr_access_arr`.) -/
theorem C04_exec_bind_byref_array (f : Nat) (t at' : Tok) (r : Ref) (pn : Str) (pty : Ty) (v : Val) (σ σ' : St) (h : Holder)
    (hr : (resolveRef (f+1) r).run.run σ = (.ok h, σ')) (harr : h.isArr = true) (hty : v.ty = pty) :
    (bindParams (f+2) t [(pn, pty, true)] [.access at' r] [v] []).run.run σ =
      (.error (.diag (rtDiag σ' t.line t.col .arrayDirect)), σ') := by
  rw [run_bindParams_byref (f+1) t pn pty [] at' r [] v [] [] σ σ' h hty hr]
  simp only [harr, if_true]

/-! ## 2. wrong number of arguments, unknown names -/

/-- **Unknown procedure**: `notDefined` at the call token; nothing is evaluated, the state is unchanged. -/
theorem C04_exec_unknown_proc (f : Nat) (t : Tok) (name : Str) (args : List Expr) (σ : St)
    (h : σ.procs.find? (·.name == name) = none) :
    (callProc (f+1) t name args).run.run σ = (.error (.diag (rtDiag σ t.line t.col .notDefined)), σ) := by
  rw [callProc_succ, run_bind_ok _ _ _ _ _ (run_get σ), h]
  exact run_rtErr t .notDefined σ

/-- **Unknown function** (neither built-in nor defined by the program): `notDefined` at the call token. -/
theorem C04_exec_unknown_fun (f : Nat) (t : Tok) (args : List Expr) (σ : St) (h : funLookup σ t.val = none) :
    (callFun (f+1) t args).run.run σ = (.error (.diag (rtDiag σ t.line t.col .notDefined)), σ) := by
  rw [callFun_succ, run_bind_ok _ _ _ _ _ (run_get σ), h]
  exact run_rtErr t .notDefined σ

/-- **Wrong number of arguments (procedure).**  The arguments are evaluated first (left to right, in the caller);
    if that succeeds — leaving state `σ1` — the call ends in `invalidArgs` at the call token, and no activation has
    been created (the state is `σ1`; for arguments without effect, `σ1 = σ`). -/
theorem C04_exec_arity_proc (f : Nat) (t : Tok) (name : Str) (args : List Expr) (σ σ1 : St) (pd : ProcDef) (vals : List Val)
    (hpd : σ.procs.find? (·.name == name) = some pd) (hlen : args.length ≠ pd.params.length)
    (hargs : (evalArgs f args []).run.run σ = (.ok vals, σ1)) :
    (callProc (f+1) t name args).run.run σ = (.error (.diag (rtDiag σ1 t.line t.col .invalidArgs)), σ1) := by
  have hv : vals.length = args.length := by simpa using evalArgs_length args f [] vals σ σ1 hargs
  rw [callProc_succ, run_bind_ok _ _ _ _ _ (run_get σ), hpd]
  dsimp only
  rw [run_bind_ok _ _ _ _ _ hargs]
  have : (vals.length != pd.params.length) = true := by rw [hv]; simpa using hlen
  simp only [this, if_true]
  exact run_rtErr t .invalidArgs σ1

/-- **Wrong number of arguments (function, user-defined or built-in).** -/
theorem C04_exec_arity_fun (f : Nat) (t : Tok) (args : List Expr) (σ σ1 : St) (fd : FunDef) (vals : List Val)
    (hfd : funLookup σ t.val = some fd) (hlen : args.length ≠ fd.params.length)
    (hargs : (evalArgs f args []).run.run σ = (.ok vals, σ1)) :
    (callFun (f+1) t args).run.run σ = (.error (.diag (rtDiag σ1 t.line t.col .invalidArgs)), σ1) := by
  have hv : vals.length = args.length := by simpa using evalArgs_length args f [] vals σ σ1 hargs
  rw [callFun_succ, run_bind_ok _ _ _ _ _ (run_get σ), hfd]
  dsimp only
  rw [run_bind_ok _ _ _ _ _ hargs]
  have : (vals.length != fd.params.length) = true := by rw [hv]; simpa using hlen
  simp only [this, if_true]
  exact run_rtErr t .invalidArgs σ1

/-- **C04 (wrong argument count is a runtime error, the stack is untouched).**  Whatever the arguments do: a call with
    the wrong number of arguments never ends normally, what it ends with is not a control signal of a loop, and the
    live activations afterwards are those before (same ids, same order). -/
theorem C04_exec_arity (fuel : Nat) (t : Tok) (name : Str) (args : List Expr) (σ : St) (pd : ProcDef) (fd : FunDef)
    (hlenp : args.length ≠ pd.params.length) (hlenf : args.length ≠ fd.params.length) :
    (σ.procs.find? (·.name == name) = some pd →
      (∃ e, ((callProc fuel t name args).run.run σ).1 = .error e) ∧
      ((callProc fuel t name args).run.run σ).2.acts.map (·.id) = σ.acts.map (·.id)) ∧
    (funLookup σ t.val = some fd →
      (∃ e, ((callFun fuel t args).run.run σ).1 = .error e) ∧
      ((callFun fuel t args).run.run σ).2.acts.map (·.id) = σ.acts.map (·.id)) := by
  refine ⟨fun hpd => ⟨?_, ((C04_stack_discipline fuel σ).2.2.2.1 t name args).1⟩,
    fun hfd => ⟨?_, ((C04_stack_discipline fuel σ).2.2.2.2 t args).1⟩⟩
  · cases fuel with
    | zero => rw [callProc.eq_def]; exact ⟨_, rfl⟩
    | succ f =>
      rcases h : (evalArgs f args []).run.run σ with ⟨e | vals, σ1⟩
      · refine ⟨e, ?_⟩
        rw [callProc_succ, run_bind_ok _ _ _ _ _ (run_get σ), hpd]
        dsimp only
        rw [run_bind_err _ _ _ _ _ h]
      · rw [C04_exec_arity_proc f t name args σ σ1 pd vals hpd hlenp h]; exact ⟨_, rfl⟩
  · cases fuel with
    | zero => rw [callFun.eq_def]; exact ⟨_, rfl⟩
    | succ f =>
      rcases h : (evalArgs f args []).run.run σ with ⟨e | vals, σ1⟩
      · refine ⟨e, ?_⟩
        rw [callFun_succ, run_bind_ok _ _ _ _ _ (run_get σ), hfd]
        dsimp only
        rw [run_bind_err _ _ _ _ _ h]
      · rw [C04_exec_arity_fun f t args σ σ1 fd vals hfd hlenf h]; exact ⟨_, rfl⟩

/-- unknown names, both kinds, as one statement -/
theorem C04_exec_unknown (f : Nat) (t : Tok) (name : Str) (args : List Expr) (σ : St) :
    (σ.procs.find? (·.name == name) = none →
      (callProc (f+1) t name args).run.run σ = (.error (.diag (rtDiag σ t.line t.col .notDefined)), σ)) ∧
    (funLookup σ t.val = none →
      (callFun (f+1) t args).run.run σ = (.error (.diag (rtDiag σ t.line t.col .notDefined)), σ)) :=
  ⟨C04_exec_unknown_proc f t name args σ, C04_exec_unknown_fun f t args σ⟩

/-! ## 3. BYVAL writes are invisible to the caller, BYREF writes are immediately visible -/

/-- the state in which the body of a call starts: the call is made in `σ` by the activation `callerId` at token `t`;
    `mk` builds the new activation from its (fresh) id -/
def C04.bodySt (σ : St) (callerId : Nat) (t : Tok) (mk : Nat → Act) : St := calleeSt mk (setSwitch σ callerId t)

/-- **Frame property of the new activation, step 1**: while the body runs, a successful write into the callee's
    activation (its parameter cells and locals: `l.act` is the callee's id) leaves every location of every other
    activation — found or not, whatever its path — as it was.  (`C07_write_other_location`.) -/
theorem C04_exec_callee_write_frame (t : Tok) (l l' : Loc) (v : Val) (σ σ' : St) (u : Unit)
    (h : (writeLoc t l v).run.run σ = (.ok u, σ')) (hl : l'.act ≠ l.act) : readLocP σ' l' = readLocP σ l' :=
  C07_write_other_location t l l' v σ σ' u h (.inl hl)

/-- **Frame property, step 2**: entering the call (the caller's note of the call position, the depth counter, the
    new activation with the fresh id `σ.nextId`) and leaving it (`popAct`) change no location of the caller's
    activations: if the body leaves them as they were, they read after the call as before it. -/
theorem C04_exec_call_frame (σ σ4 : St) (callerId : Nat) (t : Tok) (mk : Nat → Act) (new : Act) (rest4 : List Act)
    (hmk : (mk σ.nextId).id = σ.nextId) (hhead : σ4.acts = new :: rest4) (hnew : new.id = σ.nextId)
    (hbody : ∀ l, l.act ≠ σ.nextId → readLocP σ4 l = readLocP (C04.bodySt σ callerId t mk) l) :
    ∀ l, l.act ≠ σ.nextId →
      readLocP (clearSwitch (decDepth (popSt σ4)) callerId) l = readLocP σ l ∧ readLocP (popSt σ4) l = readLocP σ l := by
  intro l hl
  have h1 : readLocP (C04.bodySt σ callerId t mk) l = readLocP σ l := by
    unfold C04.bodySt calleeSt
    rw [readLocP_pushSt (incDepth (setSwitch σ callerId t)) mk l hmk hl, readLocP_congr (setSwitch σ callerId t) (incDepth _) l rfl, readLocP_setSwitch]
  have h2 : readLocP (popSt σ4) l = readLocP σ l := by
    rw [readLocP_popSt σ4 new rest4 l hhead (by rw [hnew]; exact hl), hbody l hl, h1]
  refine ⟨?_, h2⟩
  rw [readLocP_clearSwitch, readLocP_congr (popSt σ4) (decDepth _) l rfl, h2]

/-- **Frame property, step 0: the parameter cells live in a fresh activation.**  With all live ids below the counter
    (`IdsBelow`), the id of the callee's activation is the counter value, which no live activation has
    (`C04_fresh_ids`); the cell of a BYVAL parameter is a root variable of that activation, so it has a root
    different (`DiffRoot`) from every location of every activation that is live at the call. -/
theorem C04_exec_byval_cell_is_fresh (σ : St) (pd : ProcDef) (slots : List Slot) (pn : Str) (pty : Ty) (v : Val)
    (hids : IdsBelow σ) :
    (pushAct (procAct pd slots)).run.run σ = (.ok σ.nextId, pushSt (procAct pd slots) σ) ∧
    (holderOf (procAct pd slots σ.nextId) (byvalSlot pn pty v)).loc = ⟨σ.nextId, false, pn, []⟩ ∧
    σ.nextId ∉ C04.ids σ ∧
    ∀ l', l'.act ∈ C04.ids σ → DiffRoot (holderOf (procAct pd slots σ.nextId) (byvalSlot pn pty v)).loc l' := by
  obtain ⟨h1, h2, _, _⟩ := C04_fresh_ids (procAct pd slots) σ (fun _ => rfl) hids
  refine ⟨h1, rfl, h2, fun l' hl' => .inl ?_⟩
  intro h
  apply h2
  have : (holderOf (procAct pd slots σ.nextId) (byvalSlot pn pty v)).loc.act = σ.nextId := rfl
  rw [← this, ← h]
  exact hl'

/-- **C04 (BYVAL writes are invisible to the caller).**  Restricted to: a procedure with ONE parameter, BYVAL,
    whose body is the ONE statement `p <- rhs` (`pt.val = pn`: the assigned name is the parameter).
    The call `CALL name(arg)` is made in `σ` (current activation `cur`); `arg` evaluates purely to `v` (any expression:
    a variable `x` of the caller — `CallLemmas.pureAt_var` —, a literal, …), `rhs` evaluates purely to `rv` in the
    callee's state; both values fit the parameter type.  Then the call ends normally and the final state is `σ` except
    for the bookkeeping: one statement counted, one id used up, the caller's call-position note cleared.  In
    particular every activation has exactly the variables, arrays and values it had: the assignment to `p` went to the
    callee's own cell, which is gone. -/
theorem C04_exec_byval_isolated (σ : St) (cur : Act) (rest : List Act) (t at' pt : Tok) (name : Str) (pd : ProcDef)
    (pn : Str) (pty : Ty) (arg rhs : Expr) (v rv : Val) (f₀ f : Nat)
    (hacts : σ.acts = cur :: rest)
    (hpd : σ.procs.find? (·.name == name) = some pd)
    (hparams : pd.params = [(pn, pty, false)]) (hbody : pd.body = [.expr (.assign at' (.var pt) rhs)]) (hpt : pt.val = pn)
    (harg : PureAt σ f₀ arg v) (hcast : (implicitCast pty v).ty = pty)
    (hdepth : σ.depth + 1 ≤ σ.depthLimit) (hsteps : σ.steps + 1 ≤ σ.stepLimit)
    (hrhs : PureAt (tickSt (C04.bodySt σ cur.id t (procAct pd [byvalSlot pn pty v]))) f₀ rhs rv)
    (hcast2 : (implicitCast pty rv).ty = pty)
    (hf : f₀ + 6 ≤ f) :
    (callProc f t name [arg]).run.run σ =
      (.ok ⟨⟩, { σ with acts := { cur with switchTok := none } :: rest, steps := σ.steps + 1, nextId := σ.nextId + 1 }) := by
  obtain ⟨f', rfl⟩ : ∃ f', f = f' + 3 := ⟨f - 3, by omega⟩
  have hargs : (evalArgs (f'+2) [arg] []).run.run σ = (.ok [v], σ) := by
    have := run_evalArgs_pure σ f₀ [arg] [v] [] (f'+2) ⟨harg, trivial⟩ (by simp only [List.length_cons, List.length_nil]; omega)
    simpa using this
  have hbind : (bindParams (f'+2) t pd.params [arg] [v] []).run.run σ = (.ok [byvalSlot pn pty v], σ) := by
    rw [hparams, run_bindParams_byval, if_pos hcast, run_bindParams_done]; rfl
  rw [run_callProc (f'+2) t name [arg] σ σ σ pd [v] cur rest [byvalSlot pn pty v] hpd hargs
    (by rw [hparams]; rfl) hdepth hacts hbind, hbody]
  -- the body
  have hσb : calleeSt (procAct pd [byvalSlot pn pty v]) (setSwitch σ cur.id t) =
      C04.bodySt σ cur.id t (procAct pd [byvalSlot pn pty v]) := rfl
  rw [hσb]
  generalize hσb' : C04.bodySt σ cur.id t (procAct pd [byvalSlot pn pty v]) = σb at hrhs
  have hbacts : σb.acts = procAct pd [byvalSlot pn pty v] σ.nextId :: (setSwitch σ cur.id t).acts := by
    rw [← hσb']; rfl
  have hbsteps : σb.steps + 1 ≤ σb.stepLimit := by rw [← hσb']; exact hsteps
  have hslot : findSlot (procAct pd [byvalSlot pn pty v] σ.nextId).vars pt.val = some (byvalSlot pn pty v) := by
    simp [procAct, findSlot, byvalSlot, hpt]
  have hfind := find_head σb _ _ hbacts
  have hloc : (holderOf (procAct pd [byvalSlot pn pty v] σ.nextId) (byvalSlot pn pty v)).loc =
      ⟨σ.nextId, false, pn, []⟩ := rfl
  have hso : slotOf (procAct pd [byvalSlot pn pty v] σ.nextId) ⟨σ.nextId, false, pn, []⟩ = some (byvalSlot pn pty v) := by
    simp [slotOf, procAct, findSlot, byvalSlot]
  have hconst : locConstP σb (holderOf (procAct pd [byvalSlot pn pty v] σ.nextId) (byvalSlot pn pty v)).loc = false := by
    rw [hloc]
    unfold locConstP
    have : σb.acts.find? (·.id == σ.nextId) = some (procAct pd [byvalSlot pn pty v] σ.nextId) := hfind
    simp only [this, hso]
    rfl
  rw [run_block_assign_own σb _ _ at' pt rhs rv (byvalSlot pn pty v) f₀ (f'+2) hbacts hbsteps hslot hrhs hconst hcast2
    (by omega)]
  rw [hloc]
  have hw := run_writeLoc_root at' ⟨σ.nextId, false, pn, []⟩ (implicitCast (byvalSlot pn pty v).ty rv) (tickSt σb)
    (procAct pd [byvalSlot pn pty v] σ.nextId) (byvalSlot pn pty v) hfind hso rfl rfl
  rw [hw]
  simp only [procResult]
  -- the final state
  subst hσb'
  simp only [clearSwitch, decDepth, popSt, updSt, tickSt, C04.bodySt, calleeSt, pushSt, incDepth, setSwitch, hacts, updActs,
    beq_self_eq_true, if_true, procAct, List.drop_succ_cons, List.drop_zero, Nat.add_sub_cancel]

/-- … so every location reads after the call exactly what it read before -/
theorem C04_exec_byval_isolated_reads (σ : St) (cur : Act) (rest : List Act) (t at' pt : Tok) (name : Str) (pd : ProcDef)
    (pn : Str) (pty : Ty) (arg rhs : Expr) (v rv : Val) (f₀ f : Nat)
    (hacts : σ.acts = cur :: rest)
    (hpd : σ.procs.find? (·.name == name) = some pd)
    (hparams : pd.params = [(pn, pty, false)]) (hbody : pd.body = [.expr (.assign at' (.var pt) rhs)]) (hpt : pt.val = pn)
    (harg : PureAt σ f₀ arg v) (hcast : (implicitCast pty v).ty = pty)
    (hdepth : σ.depth + 1 ≤ σ.depthLimit) (hsteps : σ.steps + 1 ≤ σ.stepLimit)
    (hrhs : PureAt (tickSt (C04.bodySt σ cur.id t (procAct pd [byvalSlot pn pty v]))) f₀ rhs rv)
    (hcast2 : (implicitCast pty rv).ty = pty)
    (hf : f₀ + 6 ≤ f) (l : Loc) :
    ((callProc f t name [arg]).run.run σ).1 = .ok ⟨⟩ ∧
    readLocP ((callProc f t name [arg]).run.run σ).2 l = readLocP σ l := by
  rw [C04_exec_byval_isolated σ cur rest t at' pt name pd pn pty arg rhs v rv f₀ f hacts hpd hparams hbody hpt harg hcast
    hdepth hsteps hrhs hcast2 hf]
  refine ⟨rfl, ?_⟩
  have : readLocP { σ with acts := { cur with switchTok := none } :: rest, steps := σ.steps + 1, nextId := σ.nextId + 1 } l =
      readLocP (clearSwitch σ cur.id) l :=
    readLocP_congr _ _ l (by simp only [clearSwitch, updSt, hacts, updActs, beq_self_eq_true, if_true])
  rw [this, readLocP_clearSwitch]

/-- entering a call changes no location of the existing activations -/
theorem C04.readLocP_bodySt (σ : St) (callerId : Nat) (t : Tok) (mk : Nat → Act) (l : Loc)
    (hmk : (mk σ.nextId).id = σ.nextId) (hl : l.act ≠ σ.nextId) :
    readLocP (C04.bodySt σ callerId t mk) l = readLocP σ l := by
  unfold C04.bodySt calleeSt
  rw [readLocP_pushSt (incDepth (setSwitch σ callerId t)) mk l hmk hl,
    readLocP_congr (setSwitch σ callerId t) (incDepth _) l rfl, readLocP_setSwitch]

theorem C04.locConstP_bodySt (σ : St) (callerId : Nat) (t : Tok) (mk : Nat → Act) (l : Loc)
    (hmk : (mk σ.nextId).id = σ.nextId) (hl : l.act ≠ σ.nextId) :
    locConstP (C04.bodySt σ callerId t mk) l = locConstP σ l := by
  unfold C04.bodySt calleeSt
  rw [locConstP_pushSt (incDepth (setSwitch σ callerId t)) mk l hmk hl,
    locConstP_congr (setSwitch σ callerId t) (incDepth _) l rfl, locConstP_setSwitch]

/-- a live activation's id differs from the next fresh id -/
theorem C04.ne_nextId_of_read (σ : St) (l : Loc) (v : Val) (hids : IdsBelow σ) (h : readLocP σ l = .ok v) :
    l.act ≠ σ.nextId := by
  have := hids _ (act_mem_ids_of_read σ l v h)
  omega

/-- **C04 (inside the body, a BYREF parameter IS the caller's variable).**  In a state whose innermost activation
    has the alias slot `s` for the name `p` (`s.ref = some l`), the expression `p` reads the location `l` — the
    caller's cell — and nothing else; in particular, in the state in which the body of a call starts, it reads what the
    caller's variable holds at that moment. -/
theorem C04_exec_byref_param_reads_caller (σ : St) (new : Act) (restA : List Act) (pt at' : Tok) (s : Slot) (l : Loc) (f : Nat)
    (hacts : σ.acts = new :: restA) (hs : findSlot new.vars pt.val = some s) (href : s.ref = some l) :
    (evalExpr (f+2) (.access at' (.var pt))).run.run σ = (readLocP σ l, σ) := by
  obtain ⟨g, hg⟩ := exists_getLast new restA
  have hr := run_resolveRef_var σ new g restA pt f new s hacts (by rw [hacts]; exact hg) (lookupVarIn_own new g pt.val s hs)
  rw [run_evalExpr_access_resolved σ at' (.var pt) (holderOf new s) (f+1) hr (holderOf_isArr new s)]
  unfold holderOf
  rw [href]

/-- **C04 (BYREF writes are immediately visible to the caller).**  Restricted to: a procedure with ONE parameter,
    BYREF, whose body is the ONE statement `p <- rhs`, called with a plain variable `x` as argument.
    `x` denotes the variable slot `sx` of activation `a` (the caller's own or the global one); its location
    `(holderOf a sx).loc` (the cell of `x`, or — if `x` is itself a BYREF formal of the caller — the location `x`
    aliases) reads `v`, of exactly the parameter type — which is also the declared type of `x` (`sx.ty = pty`; for a
    typed store this follows from `v.ty = pty`) —, and is not a constant; `rhs` evaluates purely to `rv` in the
    callee's state and fits the type of `x`; all live ids are below the id counter (`IdsBelow`, true initially and
    preserved: `C04_idsBelow_preserved`).  Then the call ends normally and afterwards
    1. `x` reads the assigned value (cast to the type of `x`);
    2. every location with another root variable reads as before;
    3. the live activations are the same. -/
theorem C04_exec_byref_visible (σ : St) (cur g : Act) (rest : List Act) (t xt x at' pt : Tok) (name : Str) (pd : ProcDef)
    (pn : Str) (pty : Ty) (rhs : Expr) (v rv : Val) (a : Act) (sx : Slot) (f₀ f : Nat)
    (hacts : σ.acts = cur :: rest) (hg : σ.acts.getLast? = some g) (hids : IdsBelow σ)
    (hpd : σ.procs.find? (·.name == name) = some pd)
    (hparams : pd.params = [(pn, pty, true)]) (hbody : pd.body = [.expr (.assign at' (.var pt) rhs)]) (hpt : pt.val = pn)
    (hx : lookupVarIn cur g x.val = some (a, sx))
    (hxv : readLocP σ (holderOf a sx).loc = .ok v) (hty : v.ty = pty) (hsty : sx.ty = pty)
    (hnc : locConstP σ (holderOf a sx).loc = false)
    (hdepth : σ.depth + 1 ≤ σ.depthLimit) (hsteps : σ.steps + 1 ≤ σ.stepLimit)
    (hrhs : PureAt (tickSt (C04.bodySt σ cur.id t (procAct pd [byrefSlot pn (holderOf a sx) false]))) f₀ rhs rv)
    (hcast2 : (implicitCast sx.ty rv).ty = sx.ty) (hk : v.isArr = (implicitCast sx.ty rv).isArr)
    (hf : f₀ + 6 ≤ f) :
    ∃ σ', (callProc f t name [.access xt (.var x)]).run.run σ = (.ok ⟨⟩, σ') ∧
      readLocP σ' (holderOf a sx).loc = .ok (implicitCast sx.ty rv) ∧
      (∀ l', DiffRoot (holderOf a sx).loc l' → readLocP σ' l' = readLocP σ l') ∧
      σ'.acts.map (·.id) = σ.acts.map (·.id) := by
  obtain ⟨f', rfl⟩ : ∃ f', f = f' + 3 := ⟨f - 3, by omega⟩
  have hne : (holderOf a sx).loc.act ≠ σ.nextId := C04.ne_nextId_of_read σ _ v hids hxv
  have hargs : (evalArgs (f'+2) [.access xt (.var x)] []).run.run σ = (.ok [v], σ) := by
    have := run_evalArgs_pure σ 2 [.access xt (.var x)] [v] [] (f'+2)
      ⟨pureAt_var σ cur g rest xt x a sx v hacts hg hx hxv, trivial⟩
      (by simp only [List.length_cons, List.length_nil]; omega)
    simpa using this
  have hbind : (bindParams (f'+2) t pd.params [.access xt (.var x)] [v] []).run.run σ =
      (.ok [byrefSlot pn (holderOf a sx) false], σ) := by
    have hr : (resolveRef (f'+1) (.var x)).run.run σ = (.ok (holderOf a sx), σ) :=
      run_resolveRef_var σ cur g rest x f' a sx hacts hg hx
    rw [hparams, run_bindParams_byref (f'+1) t pn pty [] xt (.var x) [] v [] [] _ _ (holderOf a sx) hty hr]
    simp only [holderOf_isArr, Bool.false_eq_true, if_false]
    rw [if_pos (by rw [holderOf_ty]; exact hsty), run_bindParams_done, hnc]
    rfl
  have hrun := run_callProc (f'+2) t name [.access xt (.var x)] σ σ σ pd [v] cur rest
    [byrefSlot pn (holderOf a sx) false] hpd hargs (by rw [hparams]; rfl) hdepth hacts hbind
  rw [hbody] at hrun
  -- the body
  have hσb : calleeSt (procAct pd [byrefSlot pn (holderOf a sx) false]) (setSwitch σ cur.id t) =
      C04.bodySt σ cur.id t (procAct pd [byrefSlot pn (holderOf a sx) false]) := rfl
  rw [hσb] at hrun
  have hmk : (procAct pd [byrefSlot pn (holderOf a sx) false] σ.nextId).id = σ.nextId := rfl
  have hread_b : ∀ l, l.act ≠ σ.nextId →
      readLocP (C04.bodySt σ cur.id t (procAct pd [byrefSlot pn (holderOf a sx) false])) l = readLocP σ l :=
    fun l hl => C04.readLocP_bodySt σ cur.id t _ l hmk hl
  have hconst_b : locConstP (C04.bodySt σ cur.id t (procAct pd [byrefSlot pn (holderOf a sx) false])) (holderOf a sx).loc = false := by
    rw [C04.locConstP_bodySt σ cur.id t _ _ hmk hne, hnc]
  generalize hσb' : C04.bodySt σ cur.id t (procAct pd [byrefSlot pn (holderOf a sx) false]) = σb at hrhs hrun hread_b hconst_b
  have hbacts : σb.acts = procAct pd [byrefSlot pn (holderOf a sx) false] σ.nextId :: (setSwitch σ cur.id t).acts := by
    rw [← hσb']; rfl
  have hbsteps : σb.steps + 1 ≤ σb.stepLimit := by rw [← hσb']; exact hsteps
  have hslot : findSlot (procAct pd [byrefSlot pn (holderOf a sx) false] σ.nextId).vars pt.val =
      some (byrefSlot pn (holderOf a sx) false) := by
    simp [procAct, findSlot, byrefSlot, hpt]
  have hloc : (holderOf (procAct pd [byrefSlot pn (holderOf a sx) false] σ.nextId) (byrefSlot pn (holderOf a sx) false)).loc =
      (holderOf a sx).loc := rfl
  have hsty : (byrefSlot pn (holderOf a sx) false).ty = sx.ty := holderOf_ty a sx
  have hblock := run_block_assign_own σb _ _ at' pt rhs rv (byrefSlot pn (holderOf a sx) false) f₀ (f'+2) hbacts hbsteps hslot
    hrhs (by rw [hloc]; exact hconst_b) (by rw [hsty]; exact hcast2) (by omega)
  rw [hloc, hsty] at hblock
  -- the write goes to the caller's cell
  have hold : readLocP (tickSt σb) (holderOf a sx).loc = .ok v := by
    rw [readLocP_tickSt, hread_b _ hne, hxv]
  obtain ⟨F, hFid, hw, hrd, _⟩ := run_writeLoc_ok at' (holderOf a sx).loc (implicitCast sx.ty rv) v (tickSt σb) hold
    (by rw [locConstP_congr σb (tickSt σb) _ rfl]; exact hconst_b) hk
  rw [hw] at hblock
  simp only at hblock
  rw [hblock] at hrun
  simp only [procResult] at hrun
  refine ⟨_, hrun, ?_⟩
  -- the activation list after the write
  have hwacts : (updSt (tickSt σb) (holderOf a sx).loc.act F).acts =
      procAct pd [byrefSlot pn (holderOf a sx) false] σ.nextId :: updActs (setSwitch σ cur.id t).acts (holderOf a sx).loc.act F := by
    have hb : ((procAct pd [byrefSlot pn (holderOf a sx) false] σ.nextId).id == (holderOf a sx).loc.act) = false := by
      rw [hmk]
      cases hq : σ.nextId == (holderOf a sx).loc.act with
      | false => rfl
      | true => exact absurd (by simpa using hq : σ.nextId = (holderOf a sx).loc.act).symm hne
    show updActs (tickSt σb).acts _ F = _
    have : (tickSt σb).acts = σb.acts := rfl
    rw [this, hbacts]
    simp only [updActs, hb, Bool.false_eq_true, if_false]
  have hpop : ∀ l, l.act ≠ σ.nextId →
      readLocP (clearSwitch (decDepth (popSt (updSt (tickSt σb) (holderOf a sx).loc.act F))) cur.id) l =
        readLocP (updSt (tickSt σb) (holderOf a sx).loc.act F) l := by
    intro l hl
    rw [readLocP_clearSwitch, readLocP_congr (popSt _) (decDepth _) l rfl,
      readLocP_popSt _ _ _ l hwacts (by rw [hmk]; exact hl)]
  have hids' : (clearSwitch (decDepth (popSt (updSt (tickSt σb) (holderOf a sx).loc.act F))) cur.id).acts.map (·.id) =
      σ.acts.map (·.id) := by
    have := ((C04_stack_discipline (f'+3) σ).2.2.2.1 t name [.access xt (.var x)]).1
    rw [hrun] at this
    exact this
  refine ⟨?_, ?_, hids'⟩
  · rw [hpop _ hne, hrd]
  · intro l' hd
    by_cases hl' : l'.act = σ.nextId
    · have hnot : σ.nextId ∉ C04.ids σ := fun hm => Nat.lt_irrefl _ (hids _ hm)
      rw [readLocP_dangling σ l' (by rw [hl']; exact hnot),
        readLocP_dangling _ l' (by unfold C04.ids; rw [hids', hl']; exact hnot)]
    · rw [hpop _ hl', C07_write_other_location at' _ l' _ (tickSt σb) _ ⟨⟩ hw hd, readLocP_tickSt, hread_b _ hl']

/-! ## 4. function results, RETURN -/

/-- **C04 (what RETURN does).**  `RETURN e` executed while the current activation `a` is a function call: the value
    of `e`, implicitly cast to the declared return type, is recorded in `a` (`retVal`), then the statement ends with the
    signal `Stop.ret` — or, if the cast value is not of the return type, with the runtime diagnostic `typeMismatch`. -/
theorem C04_exec_return_signal (f : Nat) (t : Tok) (e : Expr) (σ σ1 : St) (a : Act) (rest : List Act) (v : Val)
    (hsteps : σ.steps + 1 ≤ σ.stepLimit) (hacts : σ.acts = a :: rest) (hfn : a.isFn = true)
    (he : (evalExpr f e).run.run (tickSt σ) = (.ok v, σ1)) :
    (execStmt (f+1) (.ret t e)).run.run σ =
      if (implicitCast a.retTy v).ty = a.retTy then (.error .ret, retSt σ1 a.id (implicitCast a.retTy v))
      else (.error (.diag (rtDiag (retSt σ1 a.id (implicitCast a.retTy v)) t.line t.col .typeMismatch)),
            retSt σ1 a.id (implicitCast a.retTy v)) :=
  run_execStmt_ret f t e σ σ1 a rest v hsteps hacts hfn he

/-- the activation that executed RETURN holds the value -/
theorem C04.retSt_head (σ : St) (a : Act) (rest : List Act) (v : Val) (h : σ.acts = a :: rest) :
    (retSt σ a.id v).acts = { a with retVal := some v } :: rest := by
  simp only [retSt, updSt, h, updActs, beq_self_eq_true, if_true]

/-- **C04 (a function call yields exactly the value of the RETURN it executed).**  Any user-defined function, any
    parameters, any body: the arguments evaluate to `vals` (state `σ1`), they bind to `slots` (state `σ2`), and the run
    of the body in the new activation ends with the RETURN signal `Stop.ret` in a state `σ4` whose innermost
    activation — the function's — holds the recorded value `v` (`retVal = some v`, put there by the RETURN statement:
    `C04_exec_return_signal`).  Then the call yields exactly `v`; the activation is removed, the depth counter and
    the caller's call-position note are reset. -/
theorem C04_exec_function_result (f : Nat) (t : Tok) (args : List Expr) (σ σ1 σ2 σ4 : St) (fd : FunDef) (body : Block)
    (defTok : Tok) (vals : List Val) (cur : Act) (rest : List Act) (slots : List Slot) (a : Act) (rest4 : List Act) (v : Val)
    (hfd : funLookup σ t.val = some fd) (hbody : fd.body = .user body defTok)
    (hargs : (evalArgs f args []).run.run σ = (.ok vals, σ1))
    (hlen : vals.length = fd.params.length)
    (hdepth : σ1.depth + 1 ≤ σ1.depthLimit)
    (hcur : σ1.acts = cur :: rest)
    (hbind : (bindParams f t fd.params args vals []).run.run σ1 = (.ok slots, σ2))
    (hrun : (runBlock f body).run.run (calleeSt (funAct fd slots) (setSwitch σ2 cur.id t)) = (.error .ret, σ4))
    (hhead : σ4.acts = a :: rest4) (hret : a.retVal = some v) :
    (callFun (f+1) t args).run.run σ = (.ok v, clearSwitch (decDepth (popSt σ4)) cur.id) := by
  rw [run_callFun_user f t args σ σ1 σ2 fd body defTok vals cur rest slots hfd hbody hargs hlen hdepth hcur hbind, hrun]
  simp only [funResult, hhead, hret]

/-- **C04 (a function that ends without RETURN is a runtime error).**  The body ends normally and no value has been
    recorded in the function's activation: `missingReturn`, at the token of the function's definition. -/
theorem C04_exec_missing_return (f : Nat) (t : Tok) (args : List Expr) (σ σ1 σ2 σ4 : St) (fd : FunDef) (body : Block)
    (defTok : Tok) (vals : List Val) (cur : Act) (rest : List Act) (slots : List Slot) (a : Act) (rest4 : List Act)
    (hfd : funLookup σ t.val = some fd) (hbody : fd.body = .user body defTok)
    (hargs : (evalArgs f args []).run.run σ = (.ok vals, σ1))
    (hlen : vals.length = fd.params.length)
    (hdepth : σ1.depth + 1 ≤ σ1.depthLimit)
    (hcur : σ1.acts = cur :: rest)
    (hbind : (bindParams f t fd.params args vals []).run.run σ1 = (.ok slots, σ2))
    (hrun : (runBlock f body).run.run (calleeSt (funAct fd slots) (setSwitch σ2 cur.id t)) = (.ok ⟨⟩, σ4))
    (hhead : σ4.acts = a :: rest4) (hret : a.retVal = none) :
    (callFun (f+1) t args).run.run σ =
      (.error (.diag (rtDiag σ4 defTok.line defTok.col .missingReturn)), popSt σ4) := by
  rw [run_callFun_user f t args σ σ1 σ2 fd body defTok vals cur rest slots hfd hbody hargs hlen hdepth hcur hbind, hrun]
  simp only [funResult, hhead, hret]

/-- … for instance a function with an empty body -/
theorem C04_exec_missing_return_empty (f : Nat) (t : Tok) (args : List Expr) (σ σ1 σ2 : St) (fd : FunDef)
    (defTok : Tok) (vals : List Val) (cur : Act) (rest : List Act) (slots : List Slot)
    (hfd : funLookup σ t.val = some fd) (hbody : fd.body = .user [] defTok)
    (hargs : (evalArgs (f+1) args []).run.run σ = (.ok vals, σ1))
    (hlen : vals.length = fd.params.length)
    (hdepth : σ1.depth + 1 ≤ σ1.depthLimit)
    (hcur : σ1.acts = cur :: rest)
    (hbind : (bindParams (f+1) t fd.params args vals []).run.run σ1 = (.ok slots, σ2)) :
    (callFun (f+2) t args).run.run σ =
      (.error (.diag (rtDiag (calleeSt (funAct fd slots) (setSwitch σ2 cur.id t)) defTok.line defTok.col .missingReturn)),
       popSt (calleeSt (funAct fd slots) (setSwitch σ2 cur.id t))) :=
  C04_exec_missing_return (f+1) t args σ σ1 σ2 _ fd [] defTok vals cur rest slots _ _ hfd hbody hargs hlen hdepth hcur hbind
    (run_runBlock_nil f _) rfl rfl

/-- **C04, function result, the body is one RETURN statement.**  Any parameters (bound to `slots`, state `σ2`); the
    body is `RETURN e`, and `e` evaluates purely to `v` in the callee's state; `v`, cast to the declared return type
    `fd.ret`, has that type.  Then the call yields exactly the cast of `v`, and the final state is the state after
    binding (`σ2`; the call position is noted in the caller after the binding and cleared again at the end) except for
    the bookkeeping (one statement counted, one id used up). -/
theorem C04_exec_function_return_stmt (f₀ f : Nat) (t rt : Tok) (e : Expr) (args : List Expr) (σ σ1 σ2 : St) (fd : FunDef)
    (defTok : Tok) (vals : List Val) (cur : Act) (rest : List Act) (slots : List Slot) (v : Val)
    (hfd : funLookup σ t.val = some fd) (hbody : fd.body = .user [.ret rt e] defTok)
    (hargs : (evalArgs f args []).run.run σ = (.ok vals, σ1))
    (hlen : vals.length = fd.params.length)
    (hdepth : σ1.depth + 1 ≤ σ1.depthLimit)
    (hcur : σ1.acts = cur :: rest)
    (hbind : (bindParams f t fd.params args vals []).run.run σ1 = (.ok slots, σ2))
    (hsteps : σ2.steps + 1 ≤ σ2.stepLimit)
    (he : PureAt (tickSt (calleeSt (funAct fd slots) (setSwitch σ2 cur.id t))) f₀ e v)
    (hcast : (implicitCast fd.ret v).ty = fd.ret) (hf : f₀ + 2 ≤ f) :
    (callFun (f+1) t args).run.run σ =
      (.ok (implicitCast fd.ret v),
       clearSwitch { (setSwitch σ2 cur.id t) with steps := σ2.steps + 1, nextId := σ2.nextId + 1 } cur.id) := by
  obtain ⟨f', rfl⟩ : ∃ f', f = f' + 2 := ⟨f - 2, by omega⟩
  have hacts : (calleeSt (funAct fd slots) (setSwitch σ2 cur.id t)).acts = funAct fd slots σ2.nextId :: (setSwitch σ2 cur.id t).acts := rfl
  have hret := run_execStmt_ret f' rt e (calleeSt (funAct fd slots) (setSwitch σ2 cur.id t)) _ (funAct fd slots σ2.nextId) (setSwitch σ2 cur.id t).acts v hsteps hacts rfl
    (he f' (by omega))
  have hty : (funAct fd slots σ2.nextId).retTy = fd.ret := rfl
  rw [hty, if_pos hcast] at hret
  have hblock := run_runBlock_cons_err (f'+1) (.ret rt e) [] _ _ _ hret
  have hid : (funAct fd slots σ2.nextId).id = σ2.nextId := rfl
  rw [hid] at hblock
  have hhead : (retSt (tickSt (calleeSt (funAct fd slots) (setSwitch σ2 cur.id t))) σ2.nextId (implicitCast fd.ret v)).acts =
      { funAct fd slots σ2.nextId with retVal := some (implicitCast fd.ret v) } :: (setSwitch σ2 cur.id t).acts :=
    C04.retSt_head (tickSt (calleeSt (funAct fd slots) (setSwitch σ2 cur.id t))) (funAct fd slots σ2.nextId) (setSwitch σ2 cur.id t).acts _ hacts
  rw [C04_exec_function_result (f'+2) t args σ σ1 σ2 _ fd [.ret rt e] defTok vals cur rest slots _ _ (implicitCast fd.ret v)
    hfd hbody hargs hlen hdepth hcur hbind hblock hhead rfl]
  have aux : ∀ σ3 : St, decDepth (popSt (retSt (tickSt (calleeSt (funAct fd slots) σ3)) σ3.nextId (implicitCast fd.ret v))) =
      { σ3 with steps := σ3.steps + 1, nextId := σ3.nextId + 1 } := by
    intro σ3
    simp only [decDepth, popSt, retSt, updSt, tickSt, calleeSt, pushSt, incDepth, updActs, funAct, beq_self_eq_true, if_true,
      List.drop_succ_cons, List.drop_zero, Nat.add_sub_cancel]
  have : decDepth (popSt (retSt (tickSt (calleeSt (funAct fd slots) (setSwitch σ2 cur.id t))) σ2.nextId (implicitCast fd.ret v))) =
      { (setSwitch σ2 cur.id t) with steps := σ2.steps + 1, nextId := σ2.nextId + 1 } := aux (setSwitch σ2 cur.id t)
  rw [this]

/-- **C04 (RETURN outside a function is a runtime error).**  `RETURN e` executed while the current activation is not
    a function call — the main program (the global activation), a procedure, a TYPE body —: the runtime diagnostic
    `returnOutside` at the RETURN token; the expression is not evaluated, nothing but the statement counter changes. -/
theorem C04_exec_return_outside (f : Nat) (t : Tok) (e : Expr) (σ : St) (a : Act) (rest : List Act)
    (hsteps : σ.steps + 1 ≤ σ.stepLimit) (hacts : σ.acts = a :: rest) (hfn : a.isFn = false) :
    (execStmt (f+1) (.ret t e)).run.run σ =
      (.error (.diag (rtDiag (tickSt σ) t.line t.col .returnOutside)), tickSt σ) :=
  run_execStmt_ret_outside f t e σ a rest hsteps hacts hfn

/-- … at top level: in the initial state of a program run the current activation is the global one -/
theorem C04_exec_return_top_level (f : Nat) (t : Tok) (e : Expr) (fs : List (Str × FsNode)) (stdin : Str) (p r : Bool) :
    ∃ d, ((execStmt (f+1) (.ret t e)).run.run (St.init fs stdin p r)).1 = .error (.diag d) ∧
      d.kind = .runtime ∧ d.msg = .returnOutside ∧ d.line = t.line ∧ d.col = t.col := by
  refine ⟨_, congrArg Prod.fst (C04_exec_return_outside f t e (St.init fs stdin p r) mkGlobal []
    (by show 0 + 1 ≤ 2000000; omega) rfl rfl), ?_⟩
  simp

/-- … in a procedure: a procedure (any parameters) whose body starts with `RETURN e` ends in `returnOutside`,
    raised inside the procedure's activation, which is then removed. -/
theorem C04_exec_return_in_procedure (f : Nat) (t rt : Tok) (e : Expr) (more : Block) (name : Str) (args : List Expr)
    (σ σ1 σ2 : St) (pd : ProcDef) (vals : List Val) (cur : Act) (rest : List Act) (slots : List Slot)
    (hpd : σ.procs.find? (·.name == name) = some pd) (hbody : pd.body = .ret rt e :: more)
    (hargs : (evalArgs (f+2) args []).run.run σ = (.ok vals, σ1))
    (hlen : vals.length = pd.params.length)
    (hdepth : σ1.depth + 1 ≤ σ1.depthLimit)
    (hcur : σ1.acts = cur :: rest)
    (hbind : (bindParams (f+2) t pd.params args vals []).run.run σ1 = (.ok slots, σ2))
    (hsteps : σ2.steps + 1 ≤ σ2.stepLimit) :
    (callProc (f+3) t name args).run.run σ =
      (.error (.diag (rtDiag (tickSt (calleeSt (procAct pd slots) (setSwitch σ2 cur.id t))) rt.line rt.col .returnOutside)),
       { (setSwitch σ2 cur.id t) with depth := σ2.depth + 1, steps := σ2.steps + 1, nextId := σ2.nextId + 1 }) := by
  have hacts : (calleeSt (procAct pd slots) (setSwitch σ2 cur.id t)).acts = procAct pd slots σ2.nextId :: (setSwitch σ2 cur.id t).acts := rfl
  have hret := run_execStmt_ret_outside f rt e (calleeSt (procAct pd slots) (setSwitch σ2 cur.id t)) _ _ hsteps hacts rfl
  rw [run_callProc (f+2) t name args σ σ1 σ2 pd vals cur rest slots hpd hargs hlen hdepth hcur hbind, hbody,
    run_runBlock_cons_err (f+1) (.ret rt e) more _ _ _ hret]
  rfl

/-! ## 5. locals are gone after the call; name lookup -/

/-- **C04 (the callee's activation is gone, the caller's callers are untouched)** — any procedure, any arguments, any
    body, however the call ends (normally, runtime error, crash point, out of fuel): the live activations afterwards
    are those before, in the same order (`C04_stack_discipline`), and every activation below the caller's has the
    variable and array names it had. -/
theorem C04_exec_locals_gone (fuel : Nat) (t : Tok) (name : Str) (args : List Expr) (σ : St) :
    ((callProc fuel t name args).run.run σ).2.acts.map (·.id) = σ.acts.map (·.id) ∧
    (((callProc fuel t name args).run.run σ).2.acts.drop 1).map shape = (σ.acts.drop 1).map shape :=
  ⟨((C04_stack_discipline fuel σ).2.2.2.1 t name args).1, (((shape_all fuel).callProc t name args).run σ).1.1⟩

/-- the same for a function call -/
theorem C04_exec_locals_gone_fun (fuel : Nat) (t : Tok) (args : List Expr) (σ : St) :
    ((callFun fuel t args).run.run σ).2.acts.map (·.id) = σ.acts.map (·.id) ∧
    (((callFun fuel t args).run.run σ).2.acts.drop 1).map shape = (σ.acts.drop 1).map shape :=
  ⟨((C04_stack_discipline fuel σ).2.2.2.2 t args).1, (((shape_all fuel).callFun t args).run σ).1.1⟩

/-- **C04 (whatever the body declares is gone after the call)** — any procedure, any body, however the body ends.
    When evaluating the arguments and binding them has no effect on the state (pure arguments, plain variables), then
    after the call EVERY activation — the caller's included — has exactly the variable and array names it had before:
    what the body declared (DECLARE, CONSTANT, first assignment, FOR iterator, INPUT) lived in the callee's
    activation only. -/
theorem C04_exec_locals_gone_names (f : Nat) (t : Tok) (name : Str) (args : List Expr) (σ : St) (pd : ProcDef)
    (vals : List Val) (cur : Act) (rest : List Act) (slots : List Slot)
    (hpd : σ.procs.find? (·.name == name) = some pd)
    (hargs : (evalArgs f args []).run.run σ = (.ok vals, σ))
    (hlen : vals.length = pd.params.length)
    (hdepth : σ.depth + 1 ≤ σ.depthLimit)
    (hcur : σ.acts = cur :: rest)
    (hbind : (bindParams f t pd.params args vals []).run.run σ = (.ok slots, σ)) :
    ((callProc (f+1) t name args).run.run σ).2.acts.map shape = σ.acts.map shape := by
  rw [run_callProc f t name args σ σ σ pd vals cur rest slots hpd hargs hlen hdepth hcur hbind]
  have hb := (((shape_all f).runBlock pd.body).run (calleeSt (procAct pd slots) (setSwitch σ cur.id t))).1
  have h0 : (setSwitch σ cur.id t).acts.map shape = σ.acts.map shape :=
    updActs_shapes cur.id (fun a => { a with switchTok := some (t.line, t.col) }) (fun _ => rfl) σ.acts
  have h1 := RShape_bracket (procAct pd slots) (incDepth (setSwitch σ cur.id t)) _ hb
  generalize (runBlock f pd.body).run.run (calleeSt (procAct pd slots) (setSwitch σ cur.id t)) = r at h1
  rcases r with ⟨e | u, σ4⟩
  · simp only [procResult]
    exact h1.trans h0
  · simp only [procResult, clearSwitch, updSt]
    rw [updActs_shapes cur.id (fun a => { a with switchTok := none }) (fun _ => rfl) _]
    exact h1.trans h0

/-- **C04 (a variable declared in the body is not found afterwards).**  Under the hypotheses of
    `C04_exec_locals_gone_names`: a name that denoted no variable before the call (neither in the caller's activation
    nor globally) denotes none after it — `lookupVar` answers `none` — whatever the body declared under that name;
    more generally the call changes the visibility of no name. -/
theorem C04_exec_local_not_found (f : Nat) (t : Tok) (name : Str) (args : List Expr) (σ : St) (pd : ProcDef)
    (vals : List Val) (cur g : Act) (rest : List Act) (slots : List Slot)
    (hpd : σ.procs.find? (·.name == name) = some pd)
    (hargs : (evalArgs f args []).run.run σ = (.ok vals, σ))
    (hlen : vals.length = pd.params.length)
    (hdepth : σ.depth + 1 ≤ σ.depthLimit)
    (hcur : σ.acts = cur :: rest) (hg : σ.acts.getLast? = some g)
    (hbind : (bindParams f t pd.params args vals []).run.run σ = (.ok slots, σ))
    (n : Str) :
    (∃ p, (lookupVar n).run.run ((callProc (f+1) t name args).run.run σ).2 = (.ok p, ((callProc (f+1) t name args).run.run σ).2) ∧
      p.isSome = (lookupVarIn cur g n).isSome) ∧
    (lookupVarIn cur g n = none →
      (lookupVar n).run.run ((callProc (f+1) t name args).run.run σ).2 = (.ok none, ((callProc (f+1) t name args).run.run σ).2)) := by
  have hs := C04_exec_locals_gone_names f t name args σ pd vals cur rest slots hpd hargs hlen hdepth hcur hbind
  generalize ((callProc (f+1) t name args).run.run σ).2 = σ' at hs
  cases hacts' : σ'.acts with
  | nil => rw [hacts', hcur] at hs; cases hs
  | cons cur' rest' =>
    obtain ⟨g', hg'⟩ := exists_getLast cur' rest'
    rw [← hacts'] at hg'
    have hvis := visible_of_shapes σ.acts σ'.acts cur cur' g g' rest rest' n hs hcur hacts' hg hg'
    have hrun := run_lookupVar σ' cur' g' rest' n hacts' hg'
    refine ⟨⟨_, hrun, hvis⟩, fun hn => ?_⟩
    rw [hrun]
    rw [hn] at hvis
    cases hl : lookupVarIn cur' g' n with
    | none => rfl
    | some p => rw [hl] at hvis; cases hvis

/-- **C04 (a name resolves to the activation's own locals first and to global variables otherwise).**
    `lookupVar n`, run in a state with current activation `cur` and global activation `g` (the last of the stack),
    has no effect and answers:
    1. the slot of `cur` named `n`, if there is one;
    2. otherwise — when `cur` is not the global activation — the global slot named `n`, if there is one;
    3. otherwise nothing.
    The activation it returns is `cur` or `g`, never one in between (a caller's locals are invisible to the callee). -/
theorem C04_exec_lookup_order (σ : St) (cur g : Act) (rest : List Act) (n : Str)
    (hacts : σ.acts = cur :: rest) (hg : σ.acts.getLast? = some g) :
    (lookupVar n).run.run σ = (.ok (lookupVarIn cur g n), σ) ∧
    (∀ s, findSlot cur.vars n = some s → lookupVarIn cur g n = some (cur, s)) ∧
    (findSlot cur.vars n = none → (cur.id == g.id) = false →
      lookupVarIn cur g n = (findSlot g.vars n).map fun s => (g, s)) ∧
    (findSlot cur.vars n = none → (cur.id == g.id) = true → lookupVarIn cur g n = none) ∧
    (∀ a s, lookupVarIn cur g n = some (a, s) →
      (a = cur ∧ findSlot cur.vars n = some s) ∨ (a = g ∧ findSlot cur.vars n = none ∧ findSlot g.vars n = some s)) := by
  refine ⟨run_lookupVar σ cur g rest n hacts hg, ?_, ?_, ?_, ?_⟩
  · intro s hs; rw [C04_lookup, hs]
  · intro hs hid; rw [C04_lookup, hs]; simp only [hid, Bool.false_eq_true, if_false]
  · intro hs hid; rw [C04_lookup, hs]; simp only [hid, if_true]
  · intro a s h
    rw [C04_lookup] at h
    cases hs : findSlot cur.vars n with
    | some s' =>
      rw [hs] at h
      simp only [Option.some.injEq, Prod.mk.injEq] at h
      obtain ⟨rfl, rfl⟩ := h
      exact .inl ⟨rfl, rfl⟩
    | none =>
      rw [hs] at h
      simp only at h
      cases hid : cur.id == g.id with
      | true => rw [hid] at h; cases h
      | false =>
        rw [hid] at h
        simp only [Bool.false_eq_true, if_false] at h
        cases hgs : findSlot g.vars n with
        | none => rw [hgs] at h; cases h
        | some s' =>
          rw [hgs] at h
          simp only [Option.map_some, Option.some.injEq, Prod.mk.injEq] at h
          obtain ⟨rfl, rfl⟩ := h
          exact .inr ⟨rfl, rfl, rfl⟩

/-- **C04 (no other procedure can see an activation's locals), lifted to the state in which a callee's body runs.**
    The call is made in `σ` (current activation `cur`, global activation `g`, all live ids below the counter); `new` is
    the callee's activation.  In the callee's state `lookupVar n` answers the callee's own slot `n` (a parameter) if there
    is one, else the global variable `n` if there is one, else nothing: the variables of the caller `cur` — and of
    every activation between it and the global one — do not occur in the answer. -/
theorem C04_exec_callee_scope (σ : St) (cur g : Act) (rest : List Act) (t : Tok) (mk : Nat → Act) (n : Str)
    (hacts : σ.acts = cur :: rest) (hg : σ.acts.getLast? = some g) (hids : IdsBelow σ)
    (hmk : (mk σ.nextId).id = σ.nextId) :
    ∃ r, (lookupVar n).run.run (C04.bodySt σ cur.id t mk) = (.ok r, C04.bodySt σ cur.id t mk) ∧
      r.map (fun p => (p.1.id, p.2.name, p.2.ty, p.2.ref)) =
        match findSlot (mk σ.nextId).vars n with
        | some s => some (σ.nextId, s.name, s.ty, s.ref)
        | none => (findSlot g.vars n).map fun s => (g.id, s.name, s.ty, s.ref) := by
  have hgid : g.id ≠ σ.nextId := by
    have hmem : g.id ∈ C04.ids σ := by
      unfold C04.ids
      exact List.mem_map_of_mem (List.mem_of_getLast? hg)
    have := hids _ hmem
    omega
  rw [hacts] at hg
  obtain ⟨cur', rest', g', hu, hg', _, hgg⟩ :=
    updActs_head_last cur.id (fun a => { a with switchTok := some (t.line, t.col) }) cur g rest hg
  have hbacts : (C04.bodySt σ cur.id t mk).acts = mk σ.nextId :: cur' :: rest' := by
    show mk σ.nextId :: updActs σ.acts cur.id _ = _
    rw [hacts, hu]
  have hblast : (C04.bodySt σ cur.id t mk).acts.getLast? = some g' := by
    rw [hbacts, List.getLast?_cons_cons]; exact hg'
  have hgv : g'.id = g.id ∧ g'.vars = g.vars := by
    rcases hgg with rfl | rfl <;> exact ⟨rfl, rfl⟩
  refine ⟨_, run_lookupVar _ _ g' _ n hbacts hblast, ?_⟩
  rw [C04_lookup]
  cases findSlot (mk σ.nextId).vars n with
  | some s => simp only [Option.map_some, hmk]
  | none =>
    have : ((mk σ.nextId).id == g'.id) = false := by
      rw [hmk, hgv.1]
      cases hq : σ.nextId == g.id with
      | false => rfl
      | true => exact absurd (by simpa using hq : σ.nextId = g.id).symm hgid
    simp only [this, Bool.false_eq_true, if_false, hgv.2]
    cases findSlot g.vars n with
    | none => rfl
    | some s => simp only [Option.map_some, hgv.1]

/-! ## non-vacuity: a concrete state with a BYVAL procedure, a BYREF procedure, a procedure with a local, two functions -/
namespace C04Ex

def tk (s : String) (l : Nat := 1) (c : Nat := 1) : Tok := { k := .IDENTIFIER, line := l, col := c, val := s.toList }
def lit (k : Int) : Expr := .intLit (tk "lit") k
def var (s : String) : Expr := .access (tk s) (.var (tk s))
def intTok : Tok := { k := .DATA_TYPE, line := 1, col := 1, val := "INTEGER".toList }

/-- `p <- 5` -/
def assignP : Stmt := .expr (.assign (tk "<-" 2 3) (.var (tk "p" 2 1)) (lit 5))

def procPV : ProcDef := { name := "PV".toList, params := [("p".toList, .int, false)], body := [assignP] }
def procPR : ProcDef := { name := "PR".toList, params := [("p".toList, .int, true)], body := [assignP] }
/-- `PROCEDURE PD()  DECLARE z : INTEGER  ENDPROCEDURE` -/
def procPD : ProcDef := { name := "PD".toList, params := [], body := [.declare (tk "DECLARE" 2 1) [tk "z" 2 9] intTok] }
/-- `PROCEDURE PX()  RETURN 1  ENDPROCEDURE` -/
def procPX : ProcDef := { name := "PX".toList, params := [], body := [.ret (tk "RETURN" 2 1) (lit 1)] }
/-- `FUNCTION F(n : INTEGER) RETURNS REAL  RETURN 42  ENDFUNCTION` (the INTEGER 42 is cast to the REAL return type) -/
def funF : FunDef := { name := "F".toList, params := [("n".toList, .int, false)], ret := .real,
                       body := .user [.ret (tk "RETURN" 2 1) (lit 42)] (tk "FUNCTION" 1 1) }
/-- `FUNCTION G() RETURNS INTEGER  ENDFUNCTION` -/
def funG : FunDef := { name := "G".toList, params := [], ret := .int, body := .user [] (tk "FUNCTION" 5 1) }

def slotX : Slot := { name := "x".toList, ty := .int, val := .int 1 }
def slotY : Slot := { name := "y".toList, ty := .int, val := .int 7 }
def glob : Act := { id := 0, name := "Program".toList, vars := [slotX, slotY] }

def exSt : St :=
  { acts := [glob], procs := [procPV, procPR, procPD, procPX], funs := [funF, funG] }

def locX : Loc := ⟨0, false, "x".toList, []⟩
def locY : Loc := ⟨0, false, "y".toList, []⟩
def callT : Tok := tk "CALL" 9 1

theorem idsBelow : IdsBelow exSt := by
  intro i hi
  have : i = 0 := by simpa [C04.ids, exSt, glob] using hi
  subst this
  exact Nat.zero_lt_one

theorem pureX : PureAt exSt 2 (var "x") (.int 1) := pureAt_var exSt glob glob [] (tk "x") (tk "x") glob slotX (.int 1) rfl rfl rfl rfl

/-! ### binding -/
example : (bindParams 5 callT [("p".toList, .real, false)] [var "x"] [.int 1] []).run.run exSt =
    (.ok [{ name := "p".toList, ty := .real, val := .real (FloatFmt.floatOfInt 1), ref := none }], exSt) := by
  rw [C04_exec_bind_byval 3 callT "p".toList .real (var "x") (.int 1) exSt,
    if_pos (show (implicitCast .real (.int 1)).ty = .real from rfl)]; rfl
example : (bindParams 5 callT [("p".toList, .bool, false)] [var "x"] [.int 1] []).run.run exSt =
    (.error (.diag (rtDiag exSt 9 1 .invalidArgs)), exSt) := by
  rw [C04_exec_bind_byval 3 callT "p".toList .bool (var "x") (.int 1) exSt, if_neg (by decide)]; rfl
example : (bindParams 5 callT [("p".toList, .int, true)] [var "x"] [.int 1] []).run.run exSt =
    (.ok [{ name := "p".toList, ty := .int, isConst := false, val := .none, ref := some locX }], exSt) :=
  C04_exec_bind_byref 3 callT (tk "x") (tk "x") "p".toList .int (.int 1) exSt glob glob [] glob slotX rfl rfl rfl rfl rfl
example : (bindParams 5 callT [("p".toList, .int, true)] [lit 1] [.int 1] []).run.run exSt =
    (.error (.diag (rtDiag exSt 9 1 .byrefArg)), exSt) :=
  C04_exec_bind_byref_nonref 3 callT "p".toList .int (lit 1) (.int 1) exSt rfl ((C04_exec_nonref_exprs _).1 1)
example : (bindParams 5 callT [("p".toList, .int, true)] [.arith (tk "+") .add (var "x") (lit 1)] [.int 2] []).run.run exSt =
    (.error (.diag (rtDiag exSt 9 1 .byrefArg)), exSt) :=
  C04_exec_bind_byref_nonref 3 callT "p".toList .int _ (.int 2) exSt rfl ((C04_exec_nonref_exprs _).2.1 _ _ _)
example : (bindParams 5 callT [("p".toList, .real, true)] [var "x"] [.int 1] []).run.run exSt =
    (.error (.diag (rtDiag exSt 9 1 .invalidArgs)), exSt) :=
  C04_exec_bind_byref_type 3 callT "p".toList .real (var "x") (.int 1) exSt (by decide)

/-- the re-check of the variable actually bound: in a (hand-made, ill-typed) state in which `z` is declared REAL but
    holds an INTEGER, the argument value passes the first check and the re-resolved variable is refused -/
example : (bindParams 5 callT [("p".toList, .int, true)] [var "z"] [.int 1] []).run.run
      { exSt with acts := [{ glob with vars := [{ name := "z".toList, ty := .real, val := .int 1 }] }] } =
    (.error (.diag (rtDiag { exSt with acts := [{ glob with vars := [{ name := "z".toList, ty := .real, val := .int 1 }] }] }
      9 1 .invalidArgs)), { exSt with acts := [{ glob with vars := [{ name := "z".toList, ty := .real, val := .int 1 }] }] }) :=
  C04_exec_bind_byref_retyped 3 callT (tk "z") (.var (tk "z")) "p".toList .int (.int 1) _ _
    (holderOf { glob with vars := [{ name := "z".toList, ty := .real, val := .int 1 }] } { name := "z".toList, ty := .real, val := .int 1 })
    (run_resolveRef_var _ { glob with vars := [{ name := "z".toList, ty := .real, val := .int 1 }] }
      { glob with vars := [{ name := "z".toList, ty := .real, val := .int 1 }] } [] (tk "z") 3 _ _ rfl rfl rfl) rfl rfl (by decide)

/-- the parser drops parentheses: the argument `(x)` is the reference `x` (so it may be passed BYREF) -/
def argIsVarAccess (src : String) : Bool :=
  match lex {} src.toList with
  | .ok toks =>
    match parse {} toks with
    | .ok ([.call _ _ [.access _ (.var v)]], _) => v.val == "x".toList
    | _ => false
  | .error _ => false
theorem paren_is_access : argIsVarAccess "CALL P((x))\n" = true ∧ argIsVarAccess "CALL P(x)\n" = true ∧
    argIsVarAccess "CALL P(x + 0)\n" = false := by decide +kernel

/-! ### arity, unknown names -/
example : (callProc 9 callT "PV".toList []).run.run exSt = (.error (.diag (rtDiag exSt 9 1 .invalidArgs)), exSt) :=
  C04_exec_arity_proc 8 callT "PV".toList [] exSt exSt procPV [] rfl (by decide) rfl
example : (callProc 9 callT "PV".toList [var "x", var "y"]).run.run exSt = (.error (.diag (rtDiag exSt 9 1 .invalidArgs)), exSt) :=
  C04_exec_arity_proc 8 callT "PV".toList _ exSt exSt procPV [.int 1, .int 7] rfl (by decide) rfl
example : (callFun 9 (tk "F" 9 1) []).run.run exSt = (.error (.diag (rtDiag exSt 9 1 .invalidArgs)), exSt) :=
  C04_exec_arity_fun 8 (tk "F" 9 1) [] exSt exSt funF [] rfl (by decide) rfl
/-- a built-in function with the wrong number of arguments -/
example : ∃ fd, funLookup exSt "LENGTH".toList = some fd ∧
    (callFun 9 (tk "LENGTH" 9 1) []).run.run exSt = (.error (.diag (rtDiag exSt 9 1 .invalidArgs)), exSt) := by
  cases h : funLookup exSt "LENGTH".toList with
  | none => exact absurd h (by decide)
  | some fd =>
    refine ⟨fd, rfl, C04_exec_arity_fun 8 (tk "LENGTH" 9 1) [] exSt exSt fd [] h ?_ rfl⟩
    have : fd.params.length = 1 := by
      have h2 : (funLookup exSt "LENGTH".toList).map (·.params.length) = some 1 := by decide
      rw [h] at h2; simpa using h2
    rw [this]; decide
example : (callProc 9 callT "NOPE".toList []).run.run exSt = (.error (.diag (rtDiag exSt 9 1 .notDefined)), exSt) :=
  C04_exec_unknown_proc 8 callT "NOPE".toList [] exSt rfl
example : (callFun 9 (tk "NOPE" 9 1) []).run.run exSt = (.error (.diag (rtDiag exSt 9 1 .notDefined)), exSt) :=
  C04_exec_unknown_fun 8 (tk "NOPE" 9 1) [] exSt (by decide)

/-! ### BYVAL: `CALL PV(x)` leaves `x` at 1 -/
theorem byval_run : (callProc 20 callT "PV".toList [var "x"]).run.run exSt =
    (.ok ⟨⟩, { exSt with acts := [{ glob with switchTok := none }], steps := 1, nextId := 2 }) :=
  C04_exec_byval_isolated exSt glob [] callT (tk "<-" 2 3) (tk "p" 2 1) "PV".toList procPV "p".toList .int (var "x") (lit 5)
    (.int 1) (.int 5) 2 20 rfl rfl rfl rfl rfl pureX rfl (by decide) (by decide)
    ((pureAt_intLit _ _ 5).mono (by decide)) rfl (by decide)
example : readLocP ((callProc 20 callT "PV".toList [var "x"]).run.run exSt).2 locX = .ok (.int 1) :=
  (C04_exec_byval_isolated_reads exSt glob [] callT (tk "<-" 2 3) (tk "p" 2 1) "PV".toList procPV "p".toList .int (var "x")
    (lit 5) (.int 1) (.int 5) 2 20 rfl rfl rfl rfl rfl pureX rfl (by decide) (by decide)
    ((pureAt_intLit _ _ 5).mono (by decide)) rfl (by decide) locX).2
/-- the same by running the model -/
example : ((callProc 20 callT "PV".toList [var "x"]).run.run exSt).1 = .ok ⟨⟩ ∧
    readLocP ((callProc 20 callT "PV".toList [var "x"]).run.run exSt).2 locX = .ok (.int 1) := ⟨rfl, rfl⟩
/-- inside the body the parameter did get the value 5: the state just after the body's assignment -/
example : readLocP ((runBlock 19 procPV.body).run.run
      (C04.bodySt exSt 0 callT (procAct procPV [byvalSlot "p".toList .int (.int 1)]))).2 ⟨1, false, "p".toList, []⟩ = .ok (.int 5) ∧
    readLocP ((runBlock 19 procPV.body).run.run
      (C04.bodySt exSt 0 callT (procAct procPV [byvalSlot "p".toList .int (.int 1)]))).2 locX = .ok (.int 1) := ⟨rfl, rfl⟩

/-! ### BYREF: `CALL PR(x)` sets `x` to 5, `y` keeps 7 -/
theorem byref_run : ∃ σ', (callProc 20 callT "PR".toList [var "x"]).run.run exSt = (.ok ⟨⟩, σ') ∧
    readLocP σ' locX = .ok (.int 5) ∧ readLocP σ' locY = .ok (.int 7) ∧ σ'.acts.map (·.id) = [0] := by
  obtain ⟨σ', h1, h2, h3, h4⟩ := C04_exec_byref_visible exSt glob glob [] callT (tk "x") (tk "x") (tk "<-" 2 3) (tk "p" 2 1)
    "PR".toList procPR "p".toList .int (lit 5) (.int 1) (.int 5) glob slotX 2 20 rfl rfl idsBelow rfl rfl rfl rfl rfl rfl rfl rfl rfl
    (by decide) (by decide) ((pureAt_intLit _ _ 5).mono (by decide)) rfl rfl (by decide)
  exact ⟨σ', h1, h2, by rw [h3 locY (.inr (.inr (by decide)))]; rfl, h4⟩
/-- the same by running the model -/
example : ((callProc 20 callT "PR".toList [var "x"]).run.run exSt).1 = .ok ⟨⟩ ∧
    readLocP ((callProc 20 callT "PR".toList [var "x"]).run.run exSt).2 locX = .ok (.int 5) ∧
    readLocP ((callProc 20 callT "PR".toList [var "x"]).run.run exSt).2 locY = .ok (.int 7) := ⟨rfl, rfl, rfl⟩
/-- inside the body, `p` reads the caller's `x` -/
example : (evalExpr 5 (.access (tk "p") (.var (tk "p")))).run.run
      (C04.bodySt exSt 0 callT (procAct procPR [byrefSlot "p".toList (holderOf glob slotX) false])) =
    (.ok (.int 1), C04.bodySt exSt 0 callT (procAct procPR [byrefSlot "p".toList (holderOf glob slotX) false])) := by
  rw [C04_exec_byref_param_reads_caller _ _ _ (tk "p") (tk "p") (byrefSlot "p".toList (holderOf glob slotX) false) locX 3
    rfl rfl rfl]
  rfl

/-! ### functions -/
theorem fun_run : (callFun 20 (tk "F" 9 1) [var "x"]).run.run exSt =
    (.ok (.real (FloatFmt.floatOfInt 42)), clearSwitch { setSwitch exSt 0 (tk "F" 9 1) with steps := 1, nextId := 2 } 0) :=
  C04_exec_function_return_stmt 1 19 (tk "F" 9 1) (tk "RETURN" 2 1) (lit 42) [var "x"] exSt exSt exSt
    funF (tk "FUNCTION" 1 1) [.int 1] glob [] [byvalSlot "n".toList .int (.int 1)] (.int 42) rfl rfl rfl rfl (by decide) rfl
    rfl (by decide) (pureAt_intLit _ _ 42) rfl (by decide)
example : ((callFun 20 (tk "F" 9 1) [var "x"]).run.run exSt).1 = .ok (.real (FloatFmt.floatOfInt 42)) := rfl
/-- no RETURN: `missingReturn` at the FUNCTION token (line 5) -/
example : ∃ σc σ', (callFun 20 (tk "G" 9 1) []).run.run exSt = (.error (.diag (rtDiag σc 5 1 .missingReturn)), σ') :=
  ⟨_, _, C04_exec_missing_return_empty 18 (tk "G" 9 1) [] exSt exSt exSt funG (tk "FUNCTION" 5 1) []
    glob [] [] rfl rfl rfl rfl (by decide) rfl rfl⟩
/-- RETURN in a procedure: `returnOutside` at the RETURN token, raised with two live activations -/
example : ∃ d σ', (callProc 20 callT "PX".toList []).run.run exSt = (.error (.diag d), σ') ∧
    d.msg = .returnOutside ∧ d.line = 2 ∧ d.trace.length = 2 ∧ σ'.acts.map (·.id) = [0] :=
  ⟨_, _, C04_exec_return_in_procedure 17 callT (tk "RETURN" 2 1) (lit 1) [] "PX".toList [] exSt exSt exSt
    procPX [] glob [] [] rfl rfl rfl rfl (by decide) rfl rfl (by decide), rfl, rfl, rfl, rfl⟩
/-- RETURN at top level -/
example : ∃ d, ((execStmt 5 (.ret (tk "RETURN" 3 1) (lit 1))).run.run exSt).1 = .error (.diag d) ∧ d.msg = .returnOutside :=
  ⟨_, congrArg Prod.fst (C04_exec_return_outside 4 (tk "RETURN" 3 1) (lit 1) exSt glob [] (by decide) rfl rfl), by simp⟩

/-! ### locals are gone: `CALL PD()` declares `z` in the callee only -/
example : (lookupVar "z".toList).run.run ((callProc 20 callT "PD".toList []).run.run exSt).2 =
    (.ok none, ((callProc 20 callT "PD".toList []).run.run exSt).2) :=
  (C04_exec_local_not_found 19 callT "PD".toList [] exSt procPD [] glob glob [] [] rfl rfl rfl (by decide) rfl rfl rfl
    "z".toList).2 rfl
/-- … while the body ran, `z` was there (state after the body, before the activation is removed) -/
example : (((runBlock 19 procPD.body).run.run (C04.bodySt exSt 0 callT (procAct procPD []))).2.acts.head?.bind
      fun a => (findSlot a.vars "z".toList).map (·.ty)) = some .int := rfl
example : ((callProc 20 callT "PD".toList []).run.run exSt).1 = .ok ⟨⟩ := rfl
/-- the callee sees its parameter and the globals, in that order -/
example : ∃ r, (lookupVar "x".toList).run.run (C04.bodySt exSt 0 callT (procAct procPV [byvalSlot "x".toList .int (.int 9)])) =
      (.ok r, C04.bodySt exSt 0 callT (procAct procPV [byvalSlot "x".toList .int (.int 9)])) ∧
    r.map (fun p => (p.1.id, p.2.name, p.2.ty, p.2.ref)) = some (1, "x".toList, .int, none) := by
  obtain ⟨r, h1, h2⟩ := C04_exec_callee_scope exSt glob glob [] callT
    (procAct procPV [byvalSlot "x".toList .int (.int 9)]) "x".toList rfl rfl idsBelow rfl
  exact ⟨r, h1, h2⟩

/-! ### whole programs through lexer, parser and evaluator -/
def prog : String :=
  "PROCEDURE PV(BYVAL p : INTEGER)\n    p <- 5\nENDPROCEDURE\n" ++
  "PROCEDURE PR(BYREF p : INTEGER)\n    p <- 5\nENDPROCEDURE\n" ++
  "FUNCTION F(n : INTEGER) RETURNS INTEGER\n    RETURN n + 1\nENDFUNCTION\n" ++
  "x <- 1\nCALL PV(x)\nOUTPUT x\nCALL PR((x))\nOUTPUT x\nOUTPUT F(x)\n"
example : (runFile {} prog.toList [] []).out = "1\n5\n6\n".toList := by decide +kernel
def progQ : String := "PROCEDURE Q(BYREF a : INTEGER)\n    a <- 2\nENDPROCEDURE\nx <- 1\n"
example : (runFile {} (progQ ++ "CALL Q(x + 1)\n").toList [] []).diags.map (·.msg) = [.byrefArg] := by decide +kernel
example : (runFile {} (progQ ++ "CALL Q(x, x)\n").toList [] []).diags.map (·.msg) = [.invalidArgs] := by decide +kernel
example : (runFile {} (progQ ++ "CALL Q(TRUE)\n").toList [] []).diags.map (·.msg) = [.invalidArgs] := by decide +kernel
example : (runFile {} (progQ ++ "CALL NOPE(x)\n").toList [] []).diags.map (·.msg) = [.notDefined] := by decide +kernel
example : (runFile {} "x <- 1\nRETURN x\n".toList [] []).diags.map (·.msg) = [.returnOutside] := by decide +kernel
example : (runFile {} "FUNCTION G() RETURNS INTEGER\n    x <- 1\nENDFUNCTION\nOUTPUT G()\n".toList [] []).diags.map (·.msg)
    = [.missingReturn] := by decide +kernel
example : (runFile {} "PROCEDURE PD()\n    DECLARE z : INTEGER\n    z <- 3\nENDPROCEDURE\nCALL PD()\nOUTPUT z\n".toList [] []).diags.map (·.msg)
    = [.notDefined] := by decide +kernel

end C04Ex

end Pseudo
