import Properties.C01
import Properties.C10Fuel
/-!
# C01 (parse stage, continued) — a parse error of a real source text is never the nesting budget

`Properties/C01.lean`, `C01_parse_stage`: "whatever the token sequence, a syntax error is a diagnostic (or
the nesting budget) — never a crash".  The alternative "or the nesting budget" (the model's out-of-fuel
diagnostic `Msg.budget`, on which a run is reported as `inconclusive`) cannot occur: `parse` is only ever
applied to lexer output, lexer output ends in the end marker, and on such token lists the fuel that
`parse` supplies is sufficient (`Properties/C10Fuel.lean`, `C10_parse_fuel_sufficient_lex`).

* `C01_parse_total`: if the source lexes and `parse` returns an error, the error is a proper diagnostic
  (`isBudget d = false`).
* `C01_parse_total_stage`: the run then reports exactly that diagnostic with exit status 1, no crash, and
  is not `inconclusive`.
* `C01_parse_total_verdict`: lexing and parsing of every source text end in a lexical diagnostic, a
  syntax diagnostic other than the budget, or a block.
-/
namespace Pseudo

/-- **A parse error of lexer output is never the out-of-fuel diagnostic.** -/
theorem C01_parse_total (lcfg : LexCfg) (pcfg : PCfg) (src : Str) (toks : List Tok) (d : Diag) (w : List Tok)
    (hl : lex lcfg src = .ok toks) (hp : parse pcfg toks = .error (d, w)) : isBudget d = false := by
  have h := C10_parse_fuel_sufficient_lex lcfg pcfg src toks hl
  rw [hp] at h
  cases hb : isBudget d with
  | false => rfl
  | true =>
    exfalso; apply h
    unfold isBudget at hb
    exact eq_of_beq hb

/-- **The parse stage of `runFile` is total**: whatever the bytes of the program, if it lexes and does
    not parse, the run reports the syntax diagnostic (exit status 1), does not crash, and is conclusive —
    `C01_parse_stage` without the alternative "or the nesting budget". -/
theorem C01_parse_total_stage (cfg : Cfg) (content : Str) (fs : List (Str × FsNode)) (stdin : Str)
    (toks : List Tok) (d : Diag) (w : List Tok)
    (hl : lex { pedantic := cfg.pedantic } (content ++ ['\n']) = .ok toks)
    (hp : parse { pedantic := cfg.pedantic } toks = .error (d, w)) :
    (runFile cfg content fs stdin).crash = none ∧ (runFile cfg content fs stdin).diags = [d]
    ∧ (runFile cfg content fs stdin).exitCode = 1 ∧ (runFile cfg content fs stdin).inconclusive = false := by
  have hb := C01_parse_total _ _ _ toks d w hl hp
  unfold runFile runFileOn runSource
  simp [hl, hp, hb, resultOf]

/-- lexing and parsing of every source text end in a verdict: a lexical diagnostic, a syntax diagnostic
    that is not the budget, or a block -/
theorem C01_parse_total_verdict (lcfg : LexCfg) (pcfg : PCfg) (src : Str) :
    (∃ d, lex lcfg src = .error d) ∨
    (∃ toks d w, lex lcfg src = .ok toks ∧ parse pcfg toks = .error (d, w) ∧ isBudget d = false) ∨
    (∃ toks b w, lex lcfg src = .ok toks ∧ parse pcfg toks = .ok (b, w)) := by
  cases hl : lex lcfg src with
  | error d => exact Or.inl ⟨d, rfl⟩
  | ok toks =>
    cases hp : parse pcfg toks with
    | error e =>
      obtain ⟨d, w⟩ := e
      exact Or.inr (Or.inl ⟨toks, d, w, rfl, hp, C01_parse_total lcfg pcfg src toks d w hl hp⟩)
    | ok r =>
      obtain ⟨b, w⟩ := r
      exact Or.inr (Or.inr ⟨toks, b, w, rfl, hp⟩)

/-! non-vacuity: a program that lexes and does not parse -/
example : (runFile {} "OUTPUT (((".toList [] []).exitCode = 1 ∧ (runFile {} "OUTPUT (((".toList [] []).inconclusive = false := by
  constructor <;> decide +kernel

end Pseudo
