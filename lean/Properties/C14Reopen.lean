import Properties.C13
import Properties.C14
/-!
# C14 — CLOSEFILE / OPENFILE … FOR RANDOM and a process restart are the identity on the record sequence

Model: `fstep` (`.close`, `.open _ .random`), `flushNode`, `closeAllF` of `PseudoModel/FilesPure.lean`.
Rests on `C13_file_roundtrip` (`loadFile (renderFile rs) = rs` for framed records).

Hypotheses (shared by both theorems), for the handle `h` found under the name `n`:
* `h.mode = .random`, every record of `h` is `Codec.Framed` (what `dump` produces, `C13_dump_framed`);
* `nameTooLong n = false`;
* `DiskOK s n h`: when the handle was modified (a PUTRECORD happened) the node of `n` is absent or a regular
  file (then CLOSEFILE rewrites it from the records); when it was not modified the file is still there and
  loads to the records of the handle (that is how OPENFILE produced them).
`C14_restart` additionally needs: every handle in the table with the name `n` *is* `h`
(the table has no second, different handle for that name — OPENFILE guarantees it through `alreadyOpen`).
`C14_reopen` does not need it: CLOSEFILE drops every handle named `n`.
-/
namespace Pseudo

/-- what is on disk under the name `n`, relative to the handle `h` -/
def DiskOK (s : FState) (n : Str) (h : Handle) : Prop :=
  if h.modified then s.node n = none ∨ ∃ c, s.node n = some (.file c)
  else ∃ c, s.node n = some (.file c) ∧ Codec.loadFile c = h.records

/-- the file of `n` exists and loads to the records `rs` -/
def DiskHas (fs : List (Str × FsNode)) (n : Str) (rs : List Str) : Prop :=
  ∃ c, (FState.node { fs := fs } n) = some (.file c) ∧ Codec.loadFile c = rs

theorem node_fs (s : FState) (fs : List (Str × FsNode)) (hs : List Handle) (n : Str) :
    FState.node { s with fs := fs, handles := hs } n = FState.node { fs := fs } n := rfl

theorem find_map_same (fs : List (Str × FsNode)) (n : Str) (x : FsNode) (hany : fs.any (·.1 == n) = true) :
    (fs.map fun p => if p.1 == n then (n, x) else p).find? (·.1 == n) = some (n, x) := by
  induction fs with
  | nil => simp at hany
  | cons p fs ih =>
    by_cases hp : (p.1 == n) = true
    · simp only [List.map_cons, hp, if_true, List.find?_cons, beq_self_eq_true]
    · have hany' : fs.any (·.1 == n) = true := by
        simp only [List.any_cons, hp, Bool.false_or] at hany
        exact hany
      simp only [List.map_cons, hp, Bool.false_eq_true, if_false, List.find?_cons]
      exact ih hany'

theorem find_setNode_same (fs : List (Str × FsNode)) (n : Str) (x : FsNode) :
    (setNode fs n x).find? (·.1 == n) = some (n, x) := by
  unfold setNode
  split
  · rename_i hany
    exact find_map_same fs n x hany
  · rename_i hany
    have hnone : fs.find? (·.1 == n) = none := by
      rw [List.find?_eq_none]
      intro p hp hpn
      apply hany
      rw [List.any_eq_true]
      exact ⟨p, hp, hpn⟩
    rw [List.find?_append, hnone]
    simp

theorem find_map_other (fs : List (Str × FsNode)) (m n : Str) (x : FsNode) (hmn : m ≠ n) :
    (fs.map fun p => if p.1 == m then (m, x) else p).find? (·.1 == n) = fs.find? (·.1 == n) := by
  have hmn' : (m == n) = false := by simpa using hmn
  induction fs with
  | nil => rfl
  | cons p fs ih =>
    by_cases hpm : (p.1 == m) = true
    · have hpm' : p.1 = m := by simpa using hpm
      have hpn : (p.1 == n) = false := by rw [hpm']; exact hmn'
      simp only [List.map_cons, hpm, if_true, List.find?_cons, hmn', hpn]
      exact ih
    · simp only [List.map_cons, hpm, Bool.false_eq_true, if_false, List.find?_cons]
      rw [ih]

theorem find_setNode_other (fs : List (Str × FsNode)) (m n : Str) (x : FsNode) (hmn : m ≠ n) :
    (setNode fs m x).find? (·.1 == n) = fs.find? (·.1 == n) := by
  have hmn' : (m == n) = false := by simpa using hmn
  unfold setNode
  split
  · exact find_map_other fs m n x hmn
  · rw [List.find?_append]
    simp [hmn']

theorem node_setNode_same (fs : List (Str × FsNode)) (n : Str) (x : FsNode) :
    FState.node { fs := setNode fs n x } n = some x := by
  simp [FState.node, find_setNode_same]

theorem node_setNode_other (fs : List (Str × FsNode)) (m n : Str) (x : FsNode) (hmn : m ≠ n) :
    FState.node { fs := setNode fs m x } n = FState.node { fs := fs } n := by
  simp [FState.node, find_setNode_other _ _ _ _ hmn]

/-- write-back of a handle with another name leaves the node of `n` alone -/
theorem node_flush_other (s : FState) (h' : Handle) (n : Str) (hne : h'.name ≠ n) :
    FState.node { fs := flushNode s h' } n = FState.node { fs := s.fs } n := by
  unfold flushNode
  split
  · split
    · rfl
    · rfl
    · exact node_setNode_other _ _ _ _ hne
  · rfl

/-- write-back of `h` itself establishes "the file holds the records of `h`" -/
theorem flush_self (s : FState) (n : Str) (h : Handle) (hname : h.name = n) (hm : h.mode = .random)
    (hfr : ∀ r ∈ h.records, Codec.Framed r)
    (hd : DiskOK s n h ∨ DiskHas s.fs n h.records) :
    DiskHas (flushNode s h) n h.records := by
  unfold flushNode
  by_cases hmod : h.modified = true
  · simp only [hm, hmod, beq_self_eq_true, Bool.and_self, if_true, hname]
    have hnode : s.node n = none ∨ ∃ c, s.node n = some (.file c) := by
      rcases hd with hd | ⟨c, hc, _⟩
      · simpa [DiskOK, hmod] using hd
      · exact Or.inr ⟨c, hc⟩
    have hgoal : DiskHas (setNode s.fs n (.file (Codec.renderFile h.records))) n h.records :=
      ⟨_, node_setNode_same _ _ _, Codec.C13_file_roundtrip _ hfr⟩
    rcases hnode with hn | ⟨c, hc⟩
    · simp only [hn]; exact hgoal
    · simp only [hc]; exact hgoal
  · have hmod' : h.modified = false := by simpa using hmod
    simp only [hmod', Bool.and_false, Bool.false_eq_true, if_false]
    rcases hd with hd | hd
    · have hd' : ∃ c, s.node n = some (.file c) ∧ Codec.loadFile c = h.records := by
        simpa [DiskOK, hmod'] using hd
      exact hd'
    · exact hd

theorem find_filter_other (hs : List Handle) (m n : Str) (hmn : m ≠ n) :
    (hs.filter (·.name != n)).find? (·.name == m) = hs.find? (·.name == m) := by
  induction hs with
  | nil => rfl
  | cons x xs ih =>
    by_cases hx : (x.name == m) = true
    · have hxm : x.name = m := by simpa using hx
      have hxn : (x.name != n) = true := by simpa [hxm] using hmn
      rw [List.filter_cons, if_pos hxn, List.find?_cons, List.find?_cons]
      simp only [hx]
    · by_cases hxn : (x.name != n) = true
      · rw [List.filter_cons, if_pos hxn, List.find?_cons, List.find?_cons, ih]
      · rw [List.filter_cons, if_neg hxn, List.find?_cons, ih]
        simp only [hx]

theorem handle_name (s : FState) (n : Str) (h : Handle) (hh : s.handle n = some h) : h.name = n := by
  have := List.find?_some hh
  simpa using this

theorem handle_append_new (hs : List Handle) (n : Str) (x : Handle) (hx : x.name = n)
    (hnone : hs.find? (·.name == n) = none) : (hs ++ [x]).find? (·.name == n) = some x := by
  rw [List.find?_append, hnone]
  simp [hx]

/-- OPENFILE … FOR RANDOM of a closed name whose file loads to `rs`: a fresh handle with those records, cursor 0 -/
theorem open_random_of_diskHas (s : FState) (n : Str) (rs : List Str)
    (hclosed : s.handle n = none) (hlong : nameTooLong n = false) (hd : DiskHas s.fs n rs) :
    ∃ s2, fstep s (.open n .random) = .ok (s2, .unit) ∧
      s2.handle n = some { name := n, mode := .random, records := rs } ∧ s2.fs = s.fs := by
  obtain ⟨c, hc, hl⟩ := hd
  have hc' : s.node n = some (.file c) := hc
  have hp : fpre s (.open n .random) = .ok () := by simp [fpre, hclosed]
  refine ⟨{ s with handles := s.handles ++ [{ name := n, mode := .random, records := Codec.loadFile c }] }, ?_, ?_, rfl⟩
  · simp only [fstep, hp, hlong, Bool.false_eq_true, if_false, hc']
  · rw [← hl]
    exact handle_append_new _ _ _ rfl hclosed

/-- **CLOSEFILE then OPENFILE … FOR RANDOM is the identity on the record sequence**; the cursor is back at
    record 1 (`ptr = 0`), the new handle is unmodified, and every other handle is untouched. -/
theorem C14_reopen (s : FState) (n : Str) (h : Handle)
    (hh : s.handle n = some h) (hm : h.mode = .random)
    (hfr : ∀ r ∈ h.records, Codec.Framed r)
    (hlong : nameTooLong n = false)
    (hdisk : DiskOK s n h) :
    ∃ s1 s2, fstep s (.close n) = .ok (s1, .unit) ∧ s1.handle n = none ∧
      fstep s1 (.open n .random) = .ok (s2, .unit) ∧
      (s2.handle n).map (·.records) = some h.records ∧
      (s2.handle n).map (·.ptr) = some 0 ∧
      (s2.handle n).map (·.modified) = some false ∧
      (s2.handle n).map absH = some ⟨h.records, 0⟩ ∧
      (∀ m, m ≠ n → s2.handle m = s.handle m) := by
  have hname := handle_name s n h hh
  have hp : fpre s (.close n) = .ok () := by simp [fpre, hh]
  let s1 : FState := { fs := flushNode s h, handles := s.handles.filter (·.name != n) }
  have hclose : fstep s (.close n) = .ok (s1, .unit) := by
    simp only [fstep, hp, hh, s1]
  have hclosed : s1.handle n = none := by
    simp only [FState.handle, s1]
    rw [List.find?_eq_none]
    intro x hx
    have := (List.mem_filter.mp hx).2
    simpa using this
  have hd : DiskHas s1.fs n h.records := flush_self s n h hname hm hfr (Or.inl hdisk)
  obtain ⟨s2, hopen, hh2, _⟩ := open_random_of_diskHas s1 n h.records hclosed hlong hd
  refine ⟨s1, s2, hclose, hclosed, hopen, ?_, ?_, ?_, ?_, ?_⟩
  · rw [hh2]; rfl
  · rw [hh2]; rfl
  · rw [hh2]; rfl
  · rw [hh2]; rfl
  · intro m hmn
    -- recompute the handle table of `s2` from the `open` step
    obtain ⟨c, hc, hl⟩ := hd
    have hc' : s1.node n = some (.file c) := hc
    have hp2 : fpre s1 (.open n .random) = .ok () := by simp [fpre, hclosed]
    have : fstep s1 (.open n .random) =
        .ok ({ s1 with handles := s1.handles ++ [{ name := n, mode := .random, records := Codec.loadFile c }] }, .unit) := by
      simp only [fstep, hp2, hlong, Bool.false_eq_true, if_false, hc']
    rw [this] at hopen
    injection hopen with hopen
    injection hopen with hopen _
    subst hopen
    simp only [FState.handle, s1]
    rw [List.find?_append]
    have hnm : (n == m) = false := by simpa using (Ne.symm hmn)
    have hfilt := find_filter_other s.handles m n hmn
    rw [hfilt]
    simp [hnm]

/-- the fold of `closeAllF`, with the state threaded explicitly -/
theorem closeAll_fold_inv (s : FState) (n : Str) (h : Handle) (hname : h.name = n) (hm : h.mode = .random)
    (hfr : ∀ r ∈ h.records, Codec.Framed r) :
    ∀ (hs : List Handle) (fs : List (Str × FsNode)),
      (∀ x ∈ hs, x.name = n → x = h) →
      (DiskOK { s with fs := fs } n h ∨ DiskHas fs n h.records) →
      (h ∈ hs ∨ DiskHas fs n h.records) →
      DiskHas (hs.foldl (fun fs x => flushNode { s with fs := fs } x) fs) n h.records := by
  intro hs
  induction hs with
  | nil =>
    intro fs _ _ hfin
    rcases hfin with hmem | hg
    · cases hmem
    · exact hg
  | cons x xs ih =>
    intro fs huniq hpre hfin
    simp only [List.foldl_cons]
    by_cases hx : x.name = n
    · have hxh : x = h := huniq x (List.mem_cons_self) hx
      subst hxh
      have hg : DiskHas (flushNode { s with fs := fs } x) n x.records :=
        flush_self { s with fs := fs } n x hname hm hfr hpre
      exact ih _ (fun y hy => huniq y (List.mem_cons_of_mem _ hy)) (Or.inr hg) (Or.inr hg)
    · have hnode : FState.node { fs := flushNode { s with fs := fs } x } n = FState.node { fs := fs } n :=
        node_flush_other { s with fs := fs } x n hx
      have hG : DiskHas fs n h.records → DiskHas (flushNode { s with fs := fs } x) n h.records := by
        rintro ⟨c, hc, hl⟩
        exact ⟨c, by rw [hnode]; exact hc, hl⟩
      apply ih _ (fun y hy => huniq y (List.mem_cons_of_mem _ hy))
      · rcases hpre with hpre | hpre
        · left
          unfold DiskOK at hpre ⊢
          have e : FState.node { s with fs := flushNode { s with fs := fs } x } n = FState.node { s with fs := fs } n := hnode
          rw [e]; exact hpre
        · exact Or.inr (hG hpre)
      · rcases hfin with hmem | hg
        · rcases List.mem_cons.mp hmem with rfl | hmem
          · exact absurd hname hx
          · exact Or.inl hmem
        · exact Or.inr (hG hg)

/-- **A process restart is the identity on the record sequence**: the interpreter exits (every handle written
    back and closed, `closeAllF`), a later run opens the file for RANDOM and finds the same records, cursor at
    record 1. -/
theorem C14_restart (s : FState) (n : Str) (h : Handle)
    (hh : s.handle n = some h) (hm : h.mode = .random)
    (hfr : ∀ r ∈ h.records, Codec.Framed r)
    (hlong : nameTooLong n = false)
    (hdisk : DiskOK s n h)
    (huniq : ∀ x ∈ s.handles, x.name = n → x = h) :
    (closeAllF s).handles = [] ∧
    ∃ s2, fstep (closeAllF s) (.open n .random) = .ok (s2, .unit) ∧
      (s2.handle n).map (·.records) = some h.records ∧
      (s2.handle n).map (·.ptr) = some 0 ∧
      (s2.handle n).map absH = some ⟨h.records, 0⟩ ∧
      s2.handles = [{ name := n, mode := .random, records := h.records }] := by
  have hname := handle_name s n h hh
  have hmem : h ∈ s.handles := List.mem_of_find?_eq_some hh
  refine ⟨rfl, ?_⟩
  have hd : DiskHas (closeAllF s).fs n h.records :=
    closeAll_fold_inv s n h hname hm hfr s.handles s.fs huniq (Or.inl hdisk) (Or.inl hmem)
  have hclosed : (closeAllF s).handle n = none := rfl
  obtain ⟨c, hc, hl⟩ := hd
  have hc' : (closeAllF s).node n = some (.file c) := hc
  have hp2 : fpre (closeAllF s) (.open n .random) = .ok () := by simp [fpre, hclosed]
  have hopen : fstep (closeAllF s) (.open n .random) =
      .ok ({ (closeAllF s) with handles := (closeAllF s).handles ++ [{ name := n, mode := .random, records := Codec.loadFile c }] }, .unit) := by
    simp only [fstep, hp2, hlong, Bool.false_eq_true, if_false, hc']
  refine ⟨_, hopen, ?_, ?_, ?_, ?_⟩
  · simp [FState.handle, closeAllF, hl]
  · simp [FState.handle, closeAllF]
  · simp [FState.handle, closeAllF, hl, absH]
  · simp [closeAllF, hl]

/-! ## non-vacuity: a modified handle over a stale file, next to a handle of another file -/
namespace C14ReopenEx

def exH : Handle := { name := "f".toList, mode := .random, records := [['a', '\n', '#', 'b'], ['c']], ptr := 1, modified := true }
def exS : FState :=
  { fs := [("g".toList, .file []), ("f".toList, .file ['o', 'l', 'd', '\n'])],
    handles := [{ name := "g".toList, mode := .write }, exH] }

example : exS.handle "f".toList = some exH := by decide
example : exH.mode = .random := rfl
example : nameTooLong "f".toList = false := by decide
example : DiskOK exS "f".toList exH := by
  unfold DiskOK
  simp only [exH, if_true]
  exact Or.inr ⟨['o', 'l', 'd', '\n'], by decide⟩
example : ∀ r ∈ exH.records, Codec.Framed r := by
  intro r hr
  simp only [exH, List.mem_cons, List.mem_nil_iff, or_false] at hr
  rcases hr with rfl | rfl
  · exact ⟨by simp, by simp, by simp [Codec.FramedTail]⟩
  · exact ⟨by simp, by simp, by simp [Codec.FramedTail]⟩
example : ∀ x ∈ exS.handles, x.name = "f".toList → x = exH := by
  intro x hx hn
  simp only [exS, List.mem_cons, List.mem_nil_iff, or_false] at hx
  rcases hx with rfl | rfl
  · exact absurd hn (by decide)
  · rfl
/-- the conclusion computed on the example: the stale file is replaced and re-read -/
example : (fstep exS (.close "f".toList)).toOption.bind (fun p => (fstep p.1 (.open "f".toList .random)).toOption.bind
    fun q => (q.1.handle "f".toList).map (·.records)) = some exH.records := by decide
/-- an unmodified handle: the hypothesis is that the file loads to the records -/
example : DiskOK { fs := [("f".toList, .file ['x', '\n'])], handles := [{ name := "f".toList, mode := .random, records := [['x']] }] }
    "f".toList { name := "f".toList, mode := .random, records := [['x']] } := by
  unfold DiskOK
  simp only [Bool.false_eq_true, if_false]
  exact ⟨['x', '\n'], by decide, by decide⟩

end C14ReopenEx

end Pseudo
