import Properties.C16Exec
import Properties.C12Atomic
import PseudoProofs.ReadLoop
/-!
# C16 — every illegal use of a file statement is a runtime error that changes nothing (table theorem on runs)

* `HState`, `hstate σ n`: the handle state of the name `n` in the run state `σ` — `closedExists`, `closedMissing`, `openAs mode`.
* `FKind`: the file statements (OPENFILE FOR mode, READFILE, EOF, WRITEFILE, SEEK, GETRECORD, PUTRECORD, CLOSEFILE).
* `illegalClass k hs`: `some m` exactly for the pairs the property calls illegal, with the message class `m`.
* `C16_illegal_fstep`: an illegal pair is rejected by the pure layer with that class.
* `C16_illegal_table`: the statement of every illegal pair, executed by `execStmt` with a literal file name, ends with a runtime
  diagnostic and the start state with `steps + 1` (hence the same `fs`, `handles`, `acts`: `C16_illegal_table_noEffect`).
* `C16_legal_table`: the legal pairs do not fail for legality reasons.
-/
namespace Pseudo
open FileStmt

/-- the handle state of a file name in a run state -/
inductive HState
  | closedExists
  | closedMissing
  | openAs (m : FileMode)
deriving DecidableEq, Repr

/-- handle state of `n` in `σ`: the mode of its handle if it has one; otherwise whether the file system has a node `n` -/
def hstate (σ : St) (n : Str) : HState :=
  match (fileSt σ).handle n with
  | some h => .openAs h.mode
  | none =>
    match (fileSt σ).node n with
    | some _ => .closedExists
    | none => .closedMissing

/-- the file statements -/
inductive FKind
  | openFor (m : FileMode)
  | readFile
  | eof
  | writeFile
  | seek
  | getRecord
  | putRecord
  | closeFile
deriving DecidableEq, Repr

/-- the illegal pairs of the property, with the message class of the diagnostic; `none` = the pair is legal -/
def illegalClass : FKind → HState → Option Msg
  | .openFor _, .openAs _ => some .alreadyOpen
  | .openFor .read, .closedMissing => some .openFailed
  | .openFor .append, .closedMissing => some .openFailed
  | .openFor _, _ => none
  | .readFile, .openAs .read => none
  | .readFile, .openAs _ => some .wrongMode
  | .readFile, _ => some .notOpen
  | .eof, .openAs .read => none
  | .eof, .openAs _ => some .wrongMode
  | .eof, _ => some .notOpen
  | .writeFile, .openAs .write => none
  | .writeFile, .openAs .append => none
  | .writeFile, .openAs _ => some .wrongMode
  | .writeFile, _ => some .notOpen
  | .seek, .openAs .random => none
  | .seek, .openAs _ => some .wrongMode
  | .seek, _ => some .notOpen
  | .getRecord, .openAs .random => none
  | .getRecord, .openAs _ => some .wrongMode
  | .getRecord, _ => some .notOpen
  | .putRecord, .openAs .random => none
  | .putRecord, .openAs _ => some .wrongMode
  | .putRecord, _ => some .notOpen
  | .closeFile, .openAs _ => none
  | .closeFile, _ => some .notOpen

/-- the step of the pure file layer a statement kind performs (`txt`: text written / record dumped, `a`: SEEK address) -/
def opOf (k : FKind) (n txt : Str) (a : Int) : FOp :=
  match k with
  | .openFor m => .open n m
  | .readFile => .readLine n
  | .eof => .eof n
  | .writeFile => .write n txt
  | .seek => .seek n a
  | .getRecord => .get n
  | .putRecord => .put n txt
  | .closeFile => .close n

theorem hstate_open (σ : St) (n : Str) (hd : Handle) (hh : FState.handle { fs := σ.fs, handles := σ.handles } n = some hd) :
    hstate σ n = .openAs hd.mode := by
  unfold hstate fileSt; rw [hh]

theorem hstate_exists (σ : St) (n : Str) (nd : FsNode) (hh : FState.handle { fs := σ.fs, handles := σ.handles } n = none)
    (hn : FState.node { fs := σ.fs, handles := σ.handles } n = some nd) : hstate σ n = .closedExists := by
  unfold hstate fileSt; rw [hh, hn]

theorem hstate_missing (σ : St) (n : Str) (hh : FState.handle { fs := σ.fs, handles := σ.handles } n = none)
    (hn : FState.node { fs := σ.fs, handles := σ.handles } n = none) : hstate σ n = .closedMissing := by
  unfold hstate fileSt; rw [hh, hn]

/-- every illegal pair except OPENFILE of a missing file is refused by the legality check `fpre` -/
theorem C16_illegal_fpre (σ : St) (k : FKind) (n txt : Str) (a : Int) (m : Msg)
    (h : illegalClass k (hstate σ n) = some m) (hm : m ≠ .openFailed) :
    fpre { fs := σ.fs, handles := σ.handles } (opOf k n txt a) = .error m := by
  unfold fpre opOf
  cases hh : FState.handle { fs := σ.fs, handles := σ.handles } n with
  | none =>
    cases hn : FState.node { fs := σ.fs, handles := σ.handles } n with
    | none =>
      rw [hstate_missing σ n hh hn] at h
      cases k <;> (try rename_i md; cases md) <;> simp_all [illegalClass]
    | some nd =>
      rw [hstate_exists σ n nd hh hn] at h
      cases k <;> (try rename_i md; cases md) <;> simp_all [illegalClass]
  | some hd =>
    rw [hstate_open σ n hd hh] at h
    cases hmd : hd.mode <;> rw [hmd] at h <;> cases k <;> (try rename_i md; cases md) <;> simp_all [illegalClass]

/-- **every illegal pair is an error of the pure layer, of the class the table gives** -/
theorem C16_illegal_fstep (σ : St) (k : FKind) (n txt : Str) (a : Int) (m : Msg)
    (h : illegalClass k (hstate σ n) = some m) :
    fstep { fs := σ.fs, handles := σ.handles } (opOf k n txt a) = .error m := by
  by_cases hm : m = .openFailed
  · subst hm
    cases hh : FState.handle { fs := σ.fs, handles := σ.handles } n with
    | some hd =>
      rw [hstate_open σ n hd hh] at h
      cases hmd : hd.mode <;> rw [hmd] at h <;> cases k <;> (try rename_i md; cases md) <;> simp_all [illegalClass]
    | none =>
      cases hn : FState.node { fs := σ.fs, handles := σ.handles } n with
      | some nd =>
        rw [hstate_exists σ n nd hh hn] at h
        cases k <;> (try rename_i md; cases md) <;> simp_all [illegalClass]
      | none =>
        rw [hstate_missing σ n hh hn] at h
        cases k <;> (try rename_i md; cases md) <;> simp [illegalClass] at h <;>
          (unfold fstep fpre opOf; simp only [hh, hn]; simp)
  · exact C16_illegal_is_error _ _ _ (C16_illegal_fpre σ k n txt a m h hm)

/-! ## the table on runs -/

/-- "ends with a runtime diagnostic whose class is one of `ms`; the final state is the start state with one more step counted" -/
def IllegalRun (run : Except Stop Val × St) (σ : St) (ms : List Msg) : Prop :=
  ∃ d, run = (.error (.diag d), { σ with steps := σ.steps + 1 }) ∧ d.kind = .runtime ∧ d.msg ∈ ms

/-- such a run leaves files, handles and activations (and everything else a later statement can observe) as they were -/
theorem IllegalRun.noEffect {run : Except Stop Val × St} {σ : St} {ms : List Msg} (h : IllegalRun run σ ms) :
    run.2.fs = σ.fs ∧ run.2.handles = σ.handles ∧ run.2.acts = σ.acts ∧ NoEffect σ run.2 := by
  obtain ⟨d, h1, _, _⟩ := h
  rw [h1]
  exact ⟨rfl, rfl, rfl, ⟨rfl, rfl, rfl, rfl, rfl, rfl, rfl, rfl, rfl, rfl, rfl, rfl⟩⟩

theorem illegalRun_of_refines {run : Except Stop Val × St} {σ : St} {t : Tok} {op : FOp} {m : Msg}
    (h : StepRefines run σ t op) (he : fstep { fs := σ.fs, handles := σ.handles } op = .error m) : IllegalRun run σ [m] := by
  obtain ⟨d, h1, h2, h3, _⟩ := h.2 m he
  exact ⟨d, h1, h2, by rw [h3]; exact List.mem_singleton.2 rfl⟩

/-- WRITEFILE on a name without WRITE / APPEND handle: refused before the payload expression `e` (arbitrary) is evaluated -/
theorem exec_writeFile_illegal (f : Nat) (t : Tok) (fn e : Expr) (σ : St) (name : Str) (m : Msg)
    (hb : σ.steps + 1 ≤ σ.stepLimit) (hfn : EvalsTo f fn (tickSt σ) (.str name))
    (h : fpre (fileSt σ) (.write name []) = .error m) :
    (execStmt (f+2) (.writeFile t fn e)).run.run σ = errAt (tickSt σ) t m := by
  rw [execStmt_writeFile, run_bind_ok _ _ _ _ _ (run_tick_ok t σ hb),
    run_bind_ok _ _ _ _ _ (run_fileName f t fn _ name hfn), run_bind, run_filePre, fileSt_tickSt, h]
  rfl

/-- what the table theorem says about the statement of kind `k` with the literal file name `n` (token `tn`), statement token `t`,
    fuel `f+3`, in state `σ`, for the message class `m` of the table:
    * OPENFILE, CLOSEFILE: the run is an `IllegalRun` with exactly class `m`;
    * WRITEFILE: the same for every payload expression (it is not evaluated);
    * GETRECORD / PUTRECORD: the same for every variable name (it is not looked up);
    * SEEK with a literal address: class `m`, or `seekRange` when the address is below 1 (that check comes first);
    * READFILE into `id`, when the look-up of `id` is defined (non-empty activation stack): class `m`, or `typeMismatch`
      when `id` is an existing non-STRING variable (that check comes first);
    * EOF: the body of the built-in (`runBuiltin "EOF"` on the name) ends with a runtime diagnostic of class `m` and the
      state unchanged. -/
def IllegalSpec (f : Nat) (σ : St) (t tn : Tok) (n : Str) (m : Msg) : FKind → Prop
  | .openFor md => IllegalRun ((execStmt (f+3) (.openFile t (.strLit tn n) md)).run.run σ) σ [m]
  | .closeFile => IllegalRun ((execStmt (f+3) (.closeFile t (.strLit tn n))).run.run σ) σ [m]
  | .writeFile => ∀ e, IllegalRun ((execStmt (f+3) (.writeFile t (.strLit tn n) e)).run.run σ) σ [m]
  | .getRecord => ∀ id, IllegalRun ((execStmt (f+3) (.getRecord t (.strLit tn n) id)).run.run σ) σ [m]
  | .putRecord => ∀ id, IllegalRun ((execStmt (f+3) (.putRecord t (.strLit tn n) id)).run.run σ) σ [m]
  | .seek => ∀ ta a, IllegalRun ((execStmt (f+3) (.seek t (.strLit tn n) (.intLit ta a))).run.run σ) σ
      [if a < 1 then .seekRange else m]
  | .readFile => ∀ id ex, lookupVarP σ id.val = .ok ex →
      IllegalRun ((execStmt (f+3) (.readFile t (.strLit tn n) id)).run.run σ) σ [m, .typeMismatch]
  | .eof => ∃ d, (runBuiltin "EOF".toList [.str n]).run.run σ = (.error (.diag d), σ) ∧ d.kind = .runtime ∧ d.msg = m

theorem run_eof_illegal (n : Str) (σ : St) (m : Msg) (h : fstep (fileSt σ) (.eof n) = .error m) :
    (runBuiltin "EOF".toList [.str n]).run.run σ = (.error (.diag (rtDiag σ 0 0 m)), σ) := by
  rw [ReadLoop.runBuiltin_eof]
  have h0 : (doFile0 (.eof n)).run.run σ = (.error (.diag (rtDiag σ 0 0 m)), σ) := by
    unfold doFile0
    rw [run_bind_ok _ _ _ _ _ (run_get σ)]
    show (match fstep (fileSt σ) (.eof n) with
        | .ok (fs', r) => (do set { σ with fs := fs'.fs, handles := fs'.handles }; pure r : M FRes)
        | .error m => rtErr0 m).run.run σ = _
    rw [h]
    show (rtErr0 m : M FRes).run.run σ = _
    unfold rtErr0
    rw [run_bind_ok _ _ _ _ _ (run_mkRuntime _ _ _ σ)]
    rfl
  rw [run_bind_err _ _ _ _ _ h0]

/-- **C16, the illegal table on runs.** For EVERY pair (file statement `k`, handle state of the name `n` in `σ`) that the property
    calls illegal (`illegalClass k (hstate σ n) = some m`: OPENFILE on an open name in any mode, OPENFILE FOR READ / APPEND on a
    missing file, READFILE / EOF on a closed or non-READ name, WRITEFILE on closed / READ / RANDOM, SEEK / GETRECORD / PUTRECORD on
    closed or non-RANDOM, CLOSEFILE on closed) the statement with a literal file name, run by `execStmt` with any fuel ≥ 3, ends
    with a runtime diagnostic of the class `m` the table gives (`alreadyOpen`, `openFailed`, `notOpen`, `wrongMode`; see
    `IllegalSpec` for the two statements where an earlier check can answer with another class) and the final state is the start
    state with `steps + 1` — same `fs`, same `handles`, same activations (`C16_illegal_table_noEffect`).
    Hypothesis `hb`: the step budget is not exhausted (otherwise the diagnostic is `budget`, `C16_exec_budget`). -/
theorem C16_illegal_table (f : Nat) (σ : St) (t tn : Tok) (n : Str) (k : FKind) (m : Msg)
    (hb : σ.steps + 1 ≤ σ.stepLimit) (h : illegalClass k (hstate σ n) = some m) :
    IllegalSpec f σ t tn n m k := by
  have hfn : EvalsTo (f+1) (.strLit tn n) (tickSt σ) (.str n) := evalsTo_strLit f tn n _
  cases k with
  | openFor md =>
    exact illegalRun_of_refines (C16_exec_openFile_lit f t tn n md σ hb) (C16_illegal_fstep σ (.openFor md) n [] 0 m h)
  | closeFile =>
    exact illegalRun_of_refines (C16_exec_closeFile_lit f t tn n σ hb) (C16_illegal_fstep σ .closeFile n [] 0 m h)
  | writeFile =>
    intro e
    have hm : m ≠ .openFailed := by
      intro hm; subst hm
      generalize hstate σ n = hs at h
      cases hs <;> (try rename_i md; cases md) <;> simp [illegalClass] at h
    have hp := C16_illegal_fpre σ .writeFile n [] 0 m h hm
    show IllegalRun ((execStmt (f+1+2) _).run.run σ) σ [m]
    rw [exec_writeFile_illegal (f+1) t _ e σ n m hb hfn hp]
    obtain ⟨d, h1, h2, h3, _⟩ := errAt_spec (α := Val) (tickSt σ) t m
    exact ⟨d, h1, h2, by rw [h3]; exact List.mem_singleton.2 rfl⟩
  | getRecord =>
    intro id
    have hm : m ≠ .openFailed := by
      intro hm; subst hm
      generalize hstate σ n = hs at h
      cases hs <;> (try rename_i md; cases md) <;> simp [illegalClass] at h
    have hp := C16_illegal_fpre σ .getRecord n [] 0 m h hm
    obtain ⟨d, h1, h2, h3⟩ := (C16_exec_record_illegal (f+1) t _ id σ n m hb hfn hp).2
    exact ⟨d, h1, h2, by rw [h3]; exact List.mem_singleton.2 rfl⟩
  | putRecord =>
    intro id
    have hm : m ≠ .openFailed := by
      intro hm; subst hm
      generalize hstate σ n = hs at h
      cases hs <;> (try rename_i md; cases md) <;> simp [illegalClass] at h
    have hp : fpre { fs := σ.fs, handles := σ.handles } (.get n) = .error m :=
      C16_illegal_fpre σ .putRecord n [] 0 m h hm
    obtain ⟨d, h1, h2, h3⟩ := (C16_exec_record_illegal (f+1) t _ id σ n m hb hfn hp).1
    exact ⟨d, h1, h2, by rw [h3]; exact List.mem_singleton.2 rfl⟩
  | seek =>
    intro ta a
    have hs := C16_exec_seek (f+1) t (.strLit tn n) (.intLit ta a) σ n a hb (evalsTo_intLit (f+1) ta a _) hfn
    by_cases ha : a < 1
    · obtain ⟨_, d, h1, h2, h3⟩ := hs.2 ha
      exact ⟨d, h1, h2, by rw [h3, if_pos ha]; exact List.mem_singleton.2 rfl⟩
    · rw [if_neg ha]
      exact illegalRun_of_refines (hs.1 (by omega)) (C16_illegal_fstep σ .seek n [] a m h)
  | readFile =>
    intro id ex hlv
    have hm : m ≠ .openFailed := by
      intro hm; subst hm
      generalize hstate σ n = hs at h
      cases hs <;> (try rename_i md; cases md) <;> simp [illegalClass] at h
    have hp := C16_illegal_fpre σ .readFile n [] 0 m h hm
    obtain ⟨d, h1, h2, h3⟩ := C16_exec_readFile_illegal (f+1) t _ id σ n m ex hb hfn hlv hp
    refine ⟨d, h1, h2, ?_⟩
    rcases h3 with h3 | h3 <;> rw [h3] <;> simp
  | eof =>
    have he := C16_illegal_fstep σ .eof n [] 0 m h
    exact ⟨_, run_eof_illegal n σ m he, rtDiag_kind _ _ _ _, rtDiag_msg _ _ _ _⟩

/-- the final state of every run of the illegal table (for EOF: of the built-in's body) has the same `fs`, `handles` and
    activations as the start state; same hypotheses as `C16_illegal_table`, instantiated with the payload / address / variable
    of the statement (READFILE: `hlv`, the look-up of the variable is defined, i.e. the activation stack is not empty) -/
theorem C16_illegal_table_noEffect (f : Nat) (σ : St) (t tn ta : Tok) (n : Str) (e : Expr) (a : Int) (id : Tok)
    (ex : Option (Act × Slot)) (m : Msg) (hb : σ.steps + 1 ≤ σ.stepLimit) (hlv : lookupVarP σ id.val = .ok ex) :
    ∀ p ∈ [(FKind.openFor .read, Stmt.openFile t (.strLit tn n) .read), (.openFor .write, .openFile t (.strLit tn n) .write),
            (.openFor .append, .openFile t (.strLit tn n) .append), (.openFor .random, .openFile t (.strLit tn n) .random),
            (.closeFile, .closeFile t (.strLit tn n)), (.writeFile, .writeFile t (.strLit tn n) e),
            (.seek, .seek t (.strLit tn n) (.intLit ta a)), (.getRecord, .getRecord t (.strLit tn n) id),
            (.putRecord, .putRecord t (.strLit tn n) id), (.readFile, .readFile t (.strLit tn n) id)],
      illegalClass p.1 (hstate σ n) = some m →
      ∃ d, ((execStmt (f+3) p.2).run.run σ).1 = .error (.diag d) ∧ d.kind = .runtime ∧
        ((execStmt (f+3) p.2).run.run σ).2.fs = σ.fs ∧ ((execStmt (f+3) p.2).run.run σ).2.handles = σ.handles ∧
        ((execStmt (f+3) p.2).run.run σ).2.acts = σ.acts ∧ NoEffect σ ((execStmt (f+3) p.2).run.run σ).2 := by
  have key : ∀ (run : Except Stop Val × St) ms, IllegalRun run σ ms →
      ∃ d, run.1 = .error (.diag d) ∧ d.kind = .runtime ∧ run.2.fs = σ.fs ∧ run.2.handles = σ.handles ∧
        run.2.acts = σ.acts ∧ NoEffect σ run.2 := by
    intro run ms h
    obtain ⟨h1, h2, h3, h4⟩ := h.noEffect
    obtain ⟨d, hd, hk, _⟩ := h
    exact ⟨d, by rw [hd], hk, h1, h2, h3, h4⟩
  intro p hp h
  simp only [List.mem_cons, List.mem_nil_iff, or_false] at hp
  rcases hp with rfl | rfl | rfl | rfl | rfl | rfl | rfl | rfl | rfl | rfl
  · exact key _ _ (C16_illegal_table f σ t tn n _ m hb h)
  · exact key _ _ (C16_illegal_table f σ t tn n _ m hb h)
  · exact key _ _ (C16_illegal_table f σ t tn n _ m hb h)
  · exact key _ _ (C16_illegal_table f σ t tn n _ m hb h)
  · exact key _ _ (C16_illegal_table f σ t tn n _ m hb h)
  · exact key _ _ (C16_illegal_table f σ t tn n _ m hb h e)
  · exact key _ _ (C16_illegal_table f σ t tn n _ m hb h ta a)
  · exact key _ _ (C16_illegal_table f σ t tn n _ m hb h id)
  · exact key _ _ (C16_illegal_table f σ t tn n _ m hb h id)
  · exact key _ _ (C16_illegal_table f σ t tn n _ m hb h id ex hlv)

/-! ## the legal pairs -/

/-- **C16, the legal table**: every pair the table does not call illegal passes the legality check of the file layer — a legal
    statement never fails with `alreadyOpen` / `notOpen` / `wrongMode`. (What can still go wrong is listed in
    `C16_legal_runs_partial` and in the success theorems of `Properties/C16Exec.lean`.) -/
theorem C16_legal_table (σ : St) (k : FKind) (n txt : Str) (a : Int) (h : illegalClass k (hstate σ n) = none) :
    fpre { fs := σ.fs, handles := σ.handles } (opOf k n txt a) = .ok () := by
  unfold fpre opOf
  cases hh : FState.handle { fs := σ.fs, handles := σ.handles } n with
  | none =>
    cases hn : FState.node { fs := σ.fs, handles := σ.handles } n with
    | none =>
      rw [hstate_missing σ n hh hn] at h
      cases k <;> (try rename_i md; cases md) <;> simp_all [illegalClass]
    | some nd =>
      rw [hstate_exists σ n nd hh hn] at h
      cases k <;> (try rename_i md; cases md) <;> simp_all [illegalClass]
  | some hd =>
    rw [hstate_open σ n hd hh] at h
    cases hmd : hd.mode <;> rw [hmd] at h <;> cases k <;> (try rename_i md; cases md) <;> simp_all [illegalClass]

theorem hstate_openAs (σ : St) (n : Str) (md : FileMode) (h : hstate σ n = .openAs md) :
    ∃ hd, FState.handle { fs := σ.fs, handles := σ.handles } n = some hd ∧ hd.mode = md := by
  cases hh : FState.handle { fs := σ.fs, handles := σ.handles } n with
  | some hd => rw [hstate_open σ n hd hh] at h; injection h with h; exact ⟨hd, rfl, h⟩
  | none =>
    cases hn : FState.node { fs := σ.fs, handles := σ.handles } n with
    | none => rw [hstate_missing σ n hh hn] at h; cases h
    | some nd => rw [hstate_exists σ n nd hh hn] at h; cases h

/-- Legal pairs end normally (restricted form: CLOSEFILE, SEEK, EOF and READFILE; for OPENFILE, WRITEFILE, GETRECORD, PUTRECORD
    use `C16_legal_table` with `C16_exec_openFile_lit`, `C16_exec_writeFile_lit`, `C16_exec_getRecord`, `C16_exec_putRecord`,
    whose remaining failure causes are not legality: directory / device nodes, an unprintable payload, the cursor at the end,
    an undeclared or constant target). With a literal file name, fuel ≥ 3 and budget left:
    * CLOSEFILE on an open name (any mode) ends normally;
    * SEEK on a RANDOM handle with an address between 1 and the number of records + 1 ends normally;
    * the step `eof` of the pure layer on a READ handle succeeds;
    * READFILE on a READ handle into a declared, assignable STRING variable ends normally. -/
theorem C16_legal_runs_partial (f : Nat) (σ : St) (t tn : Tok) (n : Str) (hb : σ.steps + 1 ≤ σ.stepLimit) :
    (∀ md, hstate σ n = .openAs md → ∃ σ', (execStmt (f+3) (.closeFile t (.strLit tn n))).run.run σ = (.ok .none, σ')) ∧
    (∀ ta a hd, FState.handle { fs := σ.fs, handles := σ.handles } n = some hd → hd.mode = .random → 1 ≤ a →
      a.toNat ≤ hd.records.length + 1 →
      ∃ σ', (execStmt (f+3) (.seek t (.strLit tn n) (.intLit ta a))).run.run σ = (.ok .none, σ')) ∧
    (hstate σ n = .openAs .read → ∃ r, fstep { fs := σ.fs, handles := σ.handles } (.eof n) = .ok r) ∧
    (∀ id a s old, hstate σ n = .openAs .read → lookupVarP σ id.val = .ok (some (a, s)) → s.ty = .str →
      locConstP σ (varLoc a s) = false → readLocP σ (varLoc a s) = .ok old → old.isArr = false →
      ∃ σ', (execStmt (f+3) (.readFile t (.strLit tn n) id)).run.run σ = (.ok .none, σ')) := by
  have hfn : EvalsTo (f+1) (.strLit tn n) (tickSt σ) (.str n) := evalsTo_strLit f tn n _
  refine ⟨?_, ?_, ?_, ?_⟩
  · intro md h
    obtain ⟨hd, hh, _⟩ := hstate_openAs σ n md h
    have hs : fstep { fs := σ.fs, handles := σ.handles } (.close n) =
        .ok ({ fs := flushNode { fs := σ.fs, handles := σ.handles } hd,
               handles := σ.handles.filter (·.name != n) }, .unit) := by
      unfold fstep fpre; simp only [hh]; rfl
    exact ⟨_, (C16_exec_closeFile_lit f t tn n σ hb).1 _ _ hs⟩
  · intro ta a hd hh hm h1 h2
    have hs : ∃ s', fstep { fs := σ.fs, handles := σ.handles } (.seek n a) = .ok (s', .unit) := by
      unfold fstep fpre; simp only [hh, hm]
      have h1' : ¬ a < 1 := by omega
      have h2' : ¬ a.toNat > hd.records.length + 1 := by omega
      simp [h1', h2']
    obtain ⟨s', hs⟩ := hs
    exact ⟨_, (C16_exec_seek_lit f t tn ta n a σ hb h1).1 _ _ hs⟩
  · intro h
    obtain ⟨hd, hh, hm⟩ := hstate_openAs σ n .read h
    refine ⟨(({ fs := σ.fs, handles := σ.handles } : FState), .bool hd.rest.isEmpty), ?_⟩
    unfold fstep fpre; simp only [hh, hm]; rfl
  · intro id a s old h hlv hty hc hold hk
    obtain ⟨hd, hh, hm⟩ := hstate_openAs σ n .read h
    have hs : ∃ s' r, fstep { fs := σ.fs, handles := σ.handles } (.readLine n) = .ok (s', r) := by
      unfold fstep fpre; simp only [hh, hm]; exact ⟨_, _, rfl⟩
    obtain ⟨s', r, hs⟩ := hs
    obtain ⟨line, root, _, hrun, _⟩ := (C16_exec_readFile (f+1) t _ id σ n a s old hb hfn hlv hty hc hold hk).1 s' r hs
    exact ⟨_, hrun⟩

/-! ## non-vacuity: a state with one handle of each mode, one closed existing and one missing name -/
namespace C16IllegalEx

def tk (s : String) : Tok := { k := .IDENTIFIER, line := 1, col := 1, val := s.toList }

/-- "r" open for READ, "w" for WRITE, "a" for APPEND, "x" for RANDOM; "c" exists and is closed; "z" does not exist -/
def demoSt : St :=
  { St.init [("r".toList, .file "l1\n".toList), ("w".toList, .file []), ("a".toList, .file "x\n".toList),
             ("x".toList, .file []), ("c".toList, .file "c\n".toList)] [] false false with
    handles := [{ name := "r".toList, mode := .read, rest := "l1\n".toList }, { name := "w".toList, mode := .write },
                { name := "a".toList, mode := .append }, { name := "x".toList, mode := .random }] }

def names : List Str := ["r".toList, "w".toList, "a".toList, "x".toList, "c".toList, "z".toList]

def kinds : List FKind := [.openFor .read, .openFor .write, .openFor .append, .openFor .random, .readFile, .writeFile, .seek,
  .getRecord, .putRecord, .closeFile]

/-- the statement of each kind on the name `n` (variable `v` undeclared, SEEK address 1, payload "hi") -/
def stmtFor (k : FKind) (n : Str) : Stmt :=
  match k with
  | .openFor md => .openFile (tk "OPENFILE") (.strLit (tk "n") n) md
  | .readFile | .eof => .readFile (tk "READFILE") (.strLit (tk "n") n) (tk "v")
  | .writeFile => .writeFile (tk "WRITEFILE") (.strLit (tk "n") n) (.strLit (tk "hi") "hi".toList)
  | .seek => .seek (tk "SEEK") (.strLit (tk "n") n) (.intLit (tk "1") 1)
  | .getRecord => .getRecord (tk "GETRECORD") (.strLit (tk "n") n) (tk "v")
  | .putRecord => .putRecord (tk "PUTRECORD") (.strLit (tk "n") n) (tk "v")
  | .closeFile => .closeFile (tk "CLOSEFILE") (.strLit (tk "n") n)

/-- class of the runtime diagnostic a run ends with, provided files and handles are still those of `demoSt` -/
def runMsg (r : Except Stop Val × St) : Option Msg :=
  match r.1 with
  | .error (.diag d) => if d.kind == .runtime && r.2.fs == demoSt.fs && r.2.handles == demoSt.handles then some d.msg else none
  | _ => none

/-- the six names are in the six handle states -/
theorem demo_states : names.map (hstate demoSt) =
    [.openAs .read, .openAs .write, .openAs .append, .openAs .random, .closedExists, .closedMissing] := by decide

/-- the whole table on the demo state (rows: the ten statement kinds of `kinds`, then EOF; columns: `names`): 44 + 5 illegal pairs -/
theorem demo_table : (kinds ++ [FKind.eof]).map (fun k => names.map (fun n => illegalClass k (hstate demoSt n))) =
    [[some .alreadyOpen, some .alreadyOpen, some .alreadyOpen, some .alreadyOpen, none, some .openFailed],
     [some .alreadyOpen, some .alreadyOpen, some .alreadyOpen, some .alreadyOpen, none, none],
     [some .alreadyOpen, some .alreadyOpen, some .alreadyOpen, some .alreadyOpen, none, some .openFailed],
     [some .alreadyOpen, some .alreadyOpen, some .alreadyOpen, some .alreadyOpen, none, none],
     [none, some .wrongMode, some .wrongMode, some .wrongMode, some .notOpen, some .notOpen],
     [some .wrongMode, none, none, some .wrongMode, some .notOpen, some .notOpen],
     [some .wrongMode, some .wrongMode, some .wrongMode, none, some .notOpen, some .notOpen],
     [some .wrongMode, some .wrongMode, some .wrongMode, none, some .notOpen, some .notOpen],
     [some .wrongMode, some .wrongMode, some .wrongMode, none, some .notOpen, some .notOpen],
     [none, none, none, none, some .notOpen, some .notOpen],
     [none, some .wrongMode, some .wrongMode, some .wrongMode, some .notOpen, some .notOpen]] := by decide

/-- the illegal table evaluated by the model: every statement of an illegal pair ends with a runtime diagnostic of exactly the
    class of the table, with files and handles unchanged -/
theorem demo_computed : kinds.all (fun k => names.all (fun n =>
    match illegalClass k (hstate demoSt n) with
    | some m => runMsg ((execStmt 3 (stmtFor k n)).run.run demoSt) == some m
    | none => true)) = true := by decide +kernel

/-- EOF through the built-in's body, evaluated -/
theorem demo_computed_eof :
    names.map (fun n => match ((runBuiltin "EOF".toList [.str n]).run.run demoSt).1 with
      | .error (.diag d) => some d.msg
      | _ => none) =
    [none, some .wrongMode, some .wrongMode, some .wrongMode, some .notOpen, some .notOpen] := by decide +kernel

/-- the same table obtained from the theorem: all hypotheses of `C16_illegal_table` hold on the demo state, for every kind
    (EOF included), every name and every token -/
theorem demo_from_theorem (t : Tok) (k : FKind) (n : Str) (m : Msg) (h : illegalClass k (hstate demoSt n) = some m) :
    IllegalSpec 0 demoSt t (tk "n") n m k :=
  C16_illegal_table 0 demoSt t (tk "n") n k m (by decide) h

/-- one row spelled out: READFILE "w", v on the WRITE handle is refused with `wrongMode` or `typeMismatch`, the state is
    `demoSt` with one more step -/
example : IllegalRun ((execStmt 3 (stmtFor .readFile "w".toList)).run.run demoSt) demoSt [.wrongMode, .typeMismatch] :=
  demo_from_theorem (tk "READFILE") .readFile "w".toList .wrongMode (by decide) (tk "v") none
    (lookupVarP_cons demoSt mkGlobal [] rfl _)

/-- … and OPENFILE "z" FOR READ on the missing name with `openFailed` -/
example : IllegalRun ((execStmt 3 (stmtFor (.openFor .read) "z".toList)).run.run demoSt) demoSt [.openFailed] :=
  demo_from_theorem (tk "OPENFILE") (.openFor .read) "z".toList .openFailed (by decide)

/-- the legal pairs of the demo state pass the legality check (`C16_legal_table`), e.g. CLOSEFILE "a" ends normally -/
example : ∃ σ', (execStmt 3 (stmtFor .closeFile "a".toList)).run.run demoSt = (.ok .none, σ') :=
  (C16_legal_runs_partial 0 demoSt (tk "CLOSEFILE") (tk "n") "a".toList (by decide)).1 .append (by decide)

end C16IllegalEx

end Pseudo
