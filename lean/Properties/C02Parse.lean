import PseudoProofs.ParseLemmas
/-!
# C02 (grouping half) — the parser builds the documented expression tree

Property C02: "`* / DIV MOD` bind tighter than `+ -`, then `&`, then the comparisons, then the logical
operators, each level left-associative; parentheses; unary minus".

Specification side: `PseudoModel/Printer.lean` (`PExpr`, `denote`, `render`, `renderFull`), written from
the documented grammar.  Implementation side: `parseLevel` of `PseudoModel/Parser.lean`.
Main theorem `C02_parse_render`: *parse ∘ render = denote* for trees of any depth, in every context
level `k`, for every continuation `rest` with `StopsAt k rest`; `C02_parse_renderFull`: the same with
redundant parentheses.  The corollaries `C02_prec_mul_over_add`, `C02_left_assoc`, … are instances with
arbitrary operand subtrees.

Hypotheses, and why they are there:
* `e.InRange`: integer literals ≥ 2^63 are rejected by the parser (`overflow`).
* `StopsAt k rest`: `rest ≠ []` (`P.adv` never moves past the last token; real inputs end in
  EXPRESSION_END), its first token is not an operator of a level ≥ `k`, and it does not continue an
  identifier expression (`(`, `.`, `^`, `[`, `<-`): `a (`… is a call and `x <- 1` is an assignment
  *expression* in this parser.
* fuel: `∃ f₀, ∀ f ≥ f₀` — no fuel monotonicity lemma is needed, every step lemma is stated for all
  sufficiently large fuel.
-/
namespace Pseudo

/-! ## facts about the rendering -/

theorem parenIf_true (ts : List Tok) : parenIf true ts = lparenT :: ts ++ [rparenT] := rfl
theorem parenIf_false (ts : List Tok) : parenIf false ts = ts := rfl

theorem renderG_ne_nil (full : Bool) (k : Nat) (e : PExpr) : renderG full k e ≠ [] := by
  cases e <;> simp only [renderG, parenIf] <;> (try split) <;> simp

theorem headK_append_of_ne_nil {a : List Tok} (b : List Tok) (h : a ≠ []) : headK (a ++ b) = headK a := by
  obtain ⟨t, ts, rfl⟩ := List.exists_cons_of_ne_nil h
  rfl

theorem headK_parenIf_true (ts rest : List Tok) : headK (parenIf true ts ++ rest) = .LPAREN := rfl

/-- in a context above the comparison level nothing starts with NOT -/
theorem head_ne_not (full : Bool) (e : PExpr) : ∀ (k : Nat) (rest : List Tok), 2 < k →
    headK (renderG full k e ++ rest) ≠ .NOT := by
  induction e with
  | int n => intro k rest _; simp [renderG, intT, mkT]
  | bool b => intro k rest _; cases b <;> simp [renderG, boolT, mkT]
  | str s => intro k rest _; simp [renderG, strT, mkT]
  | var x => intro k rest _; simp [renderG, varT, mkT]
  | neg e _ =>
    intro k rest _
    simp only [renderG, parenIf]; split <;> simp [lparenT, minusT, mkT]
  | not e _ =>
    intro k rest hk
    simp only [renderG, hk, decide_true, parenIf_true]; simp [lparenT, mkT]
  | bin op l r ihl _ =>
    intro k rest hk
    simp only [renderG, parenIf]; split
    · simp [lparenT, mkT]
    · rename_i hc
      simp only [Bool.or_eq_true, decide_eq_true_eq, not_or, Nat.not_lt] at hc
      rw [List.append_assoc]
      apply ihl
      simp only [leftCtx]; split <;> omega

/-- in the atom context nothing starts with a minus -/
theorem head7_ne_minus (full : Bool) (e : PExpr) (rest : List Tok) :
    headK (renderG full 7 e ++ rest) ≠ .MINUS := by
  cases e with
  | int n => simp [renderG, intT, mkT]
  | bool b => cases b <;> simp [renderG, boolT, mkT]
  | str s => simp [renderG, strT, mkT]
  | var x => simp [renderG, varT, mkT]
  | neg e => simp [renderG, parenIf, lparenT, mkT]
  | not e => simp [renderG, parenIf, lparenT, mkT]
  | bin op l r =>
    have := (op_level_le op).2
    have h : (full || decide (op.level < 7)) = true := by simp; omega
    simp only [renderG, h, parenIf_true]; simp [lparenT, mkT]


/-! ## the induction -/

local macro "hd" : tactic => `(tactic| simp [renderG, lparenT, intT, boolT, strT, varT, mkT])


/-- in every context the rendering parses back to `denote e` -/
def GoodP (full : Bool) (cfg : PCfg) (e : PExpr) : Prop :=
  ∀ j rest, StopsAt j rest →
    Parses (fun f => parseLevel cfg f j) (renderG full j e ++ rest) (denote e) rest

/-- as the left end of a level-`L` chain: whatever the operator loop of level `L` makes of `denote e`
    and the rest of the input is the result of `parseLevel L` -/
def GoodS (full : Bool) (cfg : PCfg) (e : PExpr) : Prop :=
  ∀ L rest r fin, L < 6 → StopsAt (L + 1) rest →
    Parses (fun f => loopLevel cfg f L (denote e)) rest r fin →
    Parses (fun f => parseLevel cfg f L) (renderG full (leftCtx L e) e ++ rest) r fin

theorem S_of_P {full : Bool} {cfg : PCfg} {e : PExpr} (hP : GoodP full cfg e)
    {L : Nat} {rest : List Tok} {r : Expr} {fin : List Tok} (hL : L < 6)
    (heq : renderG full (leftCtx L e) e = renderG full (L + 1) e)
    (hs : StopsAt (L + 1) rest) (hl : Parses (fun f => loopLevel cfg f L (denote e)) rest r fin) :
    Parses (fun f => parseLevel cfg f L) (renderG full (leftCtx L e) e ++ rest) r fin := by
  rw [heq]
  exact level_of_succ cfg hL (fun h => head_ne_not full e (L + 1) rest (by omega)) (hP (L + 1) rest hs) hl

/-- a compound node with unparenthesised body `b` and own level `Le` -/
theorem P_of_own {full : Bool} {cfg : PCfg} {e : PExpr} (b : List Tok) (Le : Nat) (hLe : Le ≤ 6)
    (hb : b ≠ [])
    (hr : ∀ j, (renderG full j e = b ∧ j ≤ Le) ∨ renderG full j e = lparenT :: b ++ [rparenT])
    (hnot : 2 < Le → ∀ rest, headK (b ++ rest) ≠ .NOT)
    (own : ∀ rest, StopsAt Le rest →
      Parses (fun f => parseLevel cfg f Le) (b ++ rest) (denote e) rest) :
    GoodP full cfg e := by
  have B : ∀ j rest, j ≤ Le → StopsAt j rest →
      Parses (fun f => parseLevel cfg f j) (b ++ rest) (denote e) rest := fun j rest hj hs =>
    level_from cfg hj hLe (fun _ h => hnot h rest) hs (own rest (hs.mono hj))
  intro j rest hs
  rcases hr j with ⟨h, hj⟩ | h
  · rw [h]; exact B j rest hj hs
  · rw [h]
    have : (lparenT :: b ++ [rparenT]) ++ rest = lparenT :: (b ++ rparenT :: rest) := by simp
    rw [this]
    refine level_of_atom cfg j hs (by hd) (by hd) ?_
    exact atom_paren cfg (by simp [hb]) hs.ne_nil (B 0 _ (Nat.zero_le _) (StopsAt.rparen 0 rest))

theorem good (full : Bool) (cfg : PCfg) (e : PExpr) (hr : e.InRange) :
    GoodP full cfg e ∧ GoodS full cfg e := by
  induction e with
  | int n =>
    have hP : GoodP full cfg (.int n) := by
      intro j rest hs
      exact level_of_atom cfg j hs (by hd) (by hd) (atom_lit cfg (parseLiteral_int n hr) hs.ne_nil)
    exact ⟨hP, fun L rest r fin hL hs hl => S_of_P hP hL rfl hs hl⟩
  | bool b =>
    have hP : GoodP full cfg (.bool b) := by
      intro j rest hs
      exact level_of_atom cfg j hs (by cases b <;> hd) (by cases b <;> hd)
        (atom_lit cfg (parseLiteral_bool b) hs.ne_nil)
    exact ⟨hP, fun L rest r fin hL hs hl => S_of_P hP hL rfl hs hl⟩
  | str s =>
    have hP : GoodP full cfg (.str s) := by
      intro j rest hs
      exact level_of_atom cfg j hs (by hd) (by hd) (atom_lit cfg (parseLiteral_str s) hs.ne_nil)
    exact ⟨hP, fun L rest r fin hL hs hl => S_of_P hP hL rfl hs hl⟩
  | var x =>
    have hP : GoodP full cfg (.var x) := by
      intro j rest hs
      obtain ⟨t', ts, rfl, h1, h2⟩ := hs
      exact level_of_atom cfg j ⟨t', ts, rfl, h1, h2⟩ (by hd) (by hd) (atom_var cfg h2)
    exact ⟨hP, fun L rest r fin hL hs hl => S_of_P hP hL rfl hs hl⟩
  | neg e ih =>
    have ih := (ih hr).1
    have hP : GoodP full cfg (.neg e) := by
      refine P_of_own (minusT :: renderG full 7 e) 6 (Nat.le_refl _) (by simp) ?_ ?_ ?_
      · intro j
        by_cases hj : 6 < j
        · right; simp [renderG, hj, parenIf]
        · left; exact ⟨by simp [renderG, hj, parenIf], by omega⟩
      · intro _ rest; simp [minusT, mkT]
      · intro rest hs
        refine level_ge6 cfg (Nat.le_refl _) ?_
        exact factor_neg cfg (by simp [renderG_ne_nil])
          (atom_of_level_ge6 cfg (by decide : 6 ≤ 7) (head7_ne_minus full e rest) (ih 7 rest (hs.mono (by omega))))
    refine ⟨hP, fun L rest r fin hL hs hl => S_of_P hP hL ?_ hs hl⟩
    simp [renderG, leftCtx, PExpr.isNot, show ¬ (6 < L) by omega, show ¬ (6 < L + 1) by omega]
  | not e ih =>
    have ih := (ih hr).1
    have hP : GoodP full cfg (.not e) := by
      refine P_of_own (notT :: renderG full 2 e) 2 (by omega) (by simp) ?_ ?_ ?_
      · intro j
        by_cases hj : 2 < j
        · right; simp [renderG, hj, parenIf]
        · left; exact ⟨by simp [renderG, hj, parenIf], by omega⟩
      · intro h; omega
      · intro rest hs
        exact level_not cfg (ih 2 rest hs) (by simp [renderG_ne_nil])
    refine ⟨hP, fun L rest r fin hL hs hl => S_of_P hP hL ?_ hs hl⟩
    by_cases h2 : L = 2
    · subst h2; rfl
    · have : leftCtx L (.not e) = L := by simp [leftCtx, h2]
      rw [this]
      by_cases h3 : 2 < L
      · simp [renderG, h3, show 2 < L + 1 by omega]
      · simp [renderG, h3, show ¬ (2 < L + 1) by omega]
  | bin op l r ihl ihr =>
    obtain ⟨ihlP, ihlS⟩ := ihl hr.1
    obtain ⟨ihrP, _⟩ := ihr hr.2
    have hop := op_level_le op
    -- the chain step
    have A : ∀ rest r' fin, StopsAt (op.level + 1) rest →
        Parses (fun f => loopLevel cfg f op.level (denote (.bin op l r))) rest r' fin →
        Parses (fun f => parseLevel cfg f op.level)
          ((renderG full (leftCtx op.level l) l ++ op.tok :: renderG full (op.level + 1) r) ++ rest) r' fin := by
      intro rest r' fin hs hl
      rw [List.append_assoc]
      refine ihlS op.level _ r' fin (by omega) (op_StopsAt op _) ?_
      exact loop_step cfg (op_levelOp op) (by simp [renderG_ne_nil]) (ihrP (op.level + 1) rest hs) hl
    have hP : GoodP full cfg (.bin op l r) := by
      refine P_of_own (renderG full (leftCtx op.level l) l ++ op.tok :: renderG full (op.level + 1) r)
        op.level (by omega) (by simp) ?_ ?_ ?_
      · intro j
        by_cases hc : (full || decide (op.level < j)) = true
        · right; simp only [renderG, hc, parenIf_true]
        · left
          simp only [Bool.or_eq_true, decide_eq_true_eq, not_or, Nat.not_lt] at hc
          refine ⟨?_, hc.2⟩
          have : (full || decide (op.level < j)) = false := by simp [hc.1]; exact hc.2
          simp only [renderG, this, parenIf_false]
      · intro h rest
        rw [List.append_assoc]
        apply head_ne_not
        simp only [leftCtx]; split <;> omega
      · intro rest hs
        exact A rest _ rest (hs.mono (by omega)) (loop_stop cfg (hs.head (Nat.le_refl _)))
    refine ⟨hP, fun L rest r' fin hL hs hl => ?_⟩
    have hctx : leftCtx L (.bin op l r) = L := by simp [leftCtx, PExpr.isNot]
    by_cases hc : full = false ∧ L = op.level
    · obtain ⟨hf, rfl⟩ := hc
      rw [hctx]
      have : (full || decide (op.level < op.level)) = false := by simp [hf]
      simp only [renderG, this, parenIf_false]
      exact A rest r' fin hs hl
    · refine S_of_P hP hL ?_ hs hl
      rw [hctx]
      have : (full || decide (op.level < L)) = (full || decide (op.level < L + 1)) := by
        cases full
        · have : L ≠ op.level := fun h => hc ⟨rfl, h⟩
          simp only [Bool.false_or, decide_eq_decide]; omega
        · rfl
      simp only [renderG, this]


/-! ## C02: parse ∘ render = id -/

/-- **C02 (grouping)**: for every expression tree `e` (of any depth), every context level `k` and every
    continuation `rest` at which the operator loops of the levels ≥ `k` stop, parsing the minimally
    parenthesised rendering of `e` at level `k` with enough fuel yields exactly `denote e` and leaves
    `rest` (and the warnings) untouched.  `f₀` does not depend on the warnings. -/
theorem C02_parse_render_uniform (cfg : PCfg) (e : PExpr) (he : e.InRange) (k : Nat) (rest : List Tok)
    (hrest : StopsAt k rest) :
    ∃ f₀, ∀ f, f₀ ≤ f → ∀ w,
      (parseLevel cfg f k).run.run ⟨render k e ++ rest, w⟩ = (.ok (denote e), ⟨rest, w⟩) :=
  (good false cfg e he).1 k rest hrest

theorem C02_parse_render (cfg : PCfg) (e : PExpr) (he : e.InRange) (k : Nat) (rest : List Tok)
    (hrest : StopsAt k rest) (w : List Tok) :
    ∃ f₀, ∀ f ≥ f₀,
      (parseLevel cfg f k).run.run ⟨render k e ++ rest, w⟩ = (.ok (denote e), ⟨rest, w⟩) := by
  obtain ⟨f₀, h⟩ := C02_parse_render_uniform cfg e he k rest hrest
  exact ⟨f₀, fun f hf => h f hf w⟩

/-- the same with every binary node parenthesised: redundant parentheses change nothing -/
theorem C02_parse_renderFull (cfg : PCfg) (e : PExpr) (he : e.InRange) (k : Nat) (rest : List Tok)
    (hrest : StopsAt k rest) (w : List Tok) :
    ∃ f₀, ∀ f ≥ f₀,
      (parseLevel cfg f k).run.run ⟨renderFull k e ++ rest, w⟩ = (.ok (denote e), ⟨rest, w⟩) := by
  obtain ⟨f₀, h⟩ := (good true cfg e he).1 k rest hrest
  exact ⟨f₀, fun f hf => h f hf w⟩

/-- minimal and full parenthesisation denote the same tree -/
theorem C02_parens_irrelevant (cfg : PCfg) (e : PExpr) (he : e.InRange) (k : Nat) (rest : List Tok)
    (hrest : StopsAt k rest) (w : List Tok) :
    ∃ f₀, ∀ f ≥ f₀,
      (parseLevel cfg f k).run.run ⟨render k e ++ rest, w⟩
        = (parseLevel cfg f k).run.run ⟨renderFull k e ++ rest, w⟩ := by
  obtain ⟨f1, h1⟩ := C02_parse_render cfg e he k rest hrest w
  obtain ⟨f2, h2⟩ := C02_parse_renderFull cfg e he k rest hrest w
  exact ⟨max f1 f2, fun f hf => by rw [h1 f (by omega), h2 f (by omega)]⟩

/-- `parseEval` (what statements call) on a whole expression followed by a token that ends it -/
theorem C02_parseEval_render (cfg : PCfg) (e : PExpr) (he : e.InRange) (rest : List Tok)
    (hrest : StopsAt 0 rest) (w : List Tok) :
    ∃ f₀, ∀ f ≥ f₀,
      (parseEval cfg f).run.run ⟨render 0 e ++ rest, w⟩ = (.ok (denote e), ⟨rest, w⟩) :=
  C02_parse_render cfg e he 0 rest hrest w

/-! ### corollaries: the documented grouping, for arbitrary operand subtrees `a b c`
Each operand is rendered in the context its position requires (so it is parenthesised exactly when
it has to be); the token lists are written out so that the statements can be read without `render`. -/

section corollaries
variable (cfg : PCfg) (a b c : PExpr) (ha : a.InRange) (hb : b.InRange) (hc : c.InRange)
  (rest : List Tok) (w : List Tok)

/-- the shape of all corollaries -/
abbrev ParsesTo (cfg : PCfg) (k : Nat) (inp : List Tok) (rest w : List Tok) (r : Expr) : Prop :=
  ∃ f₀, ∀ f ≥ f₀, (parseLevel cfg f k).run.run ⟨inp ++ rest, w⟩ = (.ok r, ⟨rest, w⟩)

def tPLUS := BinOpTok.add.tok
def tMINUS := BinOpTok.sub.tok
def tSTAR := BinOpTok.mul.tok
def tSLASH := BinOpTok.div.tok
def tDIV := BinOpTok.idiv.tok
def tMOD := BinOpTok.mod.tok
def tAMP := BinOpTok.concat.tok
def tEQ := BinOpTok.eq.tok
def tLT := BinOpTok.lt.tok
def tAND := BinOpTok.and.tok
def tOR := BinOpTok.or.tok

include ha hb hc in
/-- `a + b * c` is `a + (b * c)` and `a * b + c` is `(a * b) + c` -/
theorem C02_prec_mul_over_add (hrest : StopsAt 0 rest) :
    ParsesTo cfg 0 (render 4 a ++ tPLUS :: (render 5 b ++ tSTAR :: render 6 c)) rest w
      (.arith tPLUS .add (denote a) (.arith tSTAR .mul (denote b) (denote c))) ∧
    ParsesTo cfg 0 ((render 5 a ++ tSTAR :: render 6 b) ++ tPLUS :: render 5 c) rest w
      (.arith tPLUS .add (.arith tSTAR .mul (denote a) (denote b)) (denote c)) :=
  ⟨C02_parse_render cfg (.bin .add a (.bin .mul b c)) ⟨ha, hb, hc⟩ 0 rest hrest w,
   C02_parse_render cfg (.bin .add (.bin .mul a b) c) ⟨⟨ha, hb⟩, hc⟩ 0 rest hrest w⟩

include ha hb hc in
/-- `a - b - c` is `(a - b) - c`, `a / b / c` is `(a / b) / c`, and the other way round needs its
    parentheses: `a - (b - c)` -/
theorem C02_left_assoc (hrest : StopsAt 0 rest) :
    ParsesTo cfg 0 ((render 4 a ++ tMINUS :: render 5 b) ++ tMINUS :: render 5 c) rest w
      (.arith tMINUS .sub (.arith tMINUS .sub (denote a) (denote b)) (denote c)) ∧
    ParsesTo cfg 0 ((render 5 a ++ tSLASH :: render 6 b) ++ tSLASH :: render 6 c) rest w
      (.arith tSLASH .div (.arith tSLASH .div (denote a) (denote b)) (denote c)) ∧
    ParsesTo cfg 0 (render 4 a ++ tMINUS :: (lparenT :: (render 4 b ++ tMINUS :: render 5 c) ++ [rparenT])) rest w
      (.arith tMINUS .sub (denote a) (.arith tMINUS .sub (denote b) (denote c))) :=
  ⟨C02_parse_render cfg (.bin .sub (.bin .sub a b) c) ⟨⟨ha, hb⟩, hc⟩ 0 rest hrest w,
   C02_parse_render cfg (.bin .div (.bin .div a b) c) ⟨⟨ha, hb⟩, hc⟩ 0 rest hrest w,
   C02_parse_render cfg (.bin .sub a (.bin .sub b c)) ⟨ha, hb, hc⟩ 0 rest hrest w⟩

include ha hb hc in
/-- `a & b + c` is `a & (b + c)` and `a + b & c` is `(a + b) & c` -/
theorem C02_concat_below_arith (hrest : StopsAt 0 rest) :
    ParsesTo cfg 0 (render 3 a ++ tAMP :: (render 4 b ++ tPLUS :: render 5 c)) rest w
      (.concat tAMP (denote a) (.arith tPLUS .add (denote b) (denote c))) ∧
    ParsesTo cfg 0 ((render 4 a ++ tPLUS :: render 5 b) ++ tAMP :: render 4 c) rest w
      (.concat tAMP (.arith tPLUS .add (denote a) (denote b)) (denote c)) :=
  ⟨C02_parse_render cfg (.bin .concat a (.bin .add b c)) ⟨ha, hb, hc⟩ 0 rest hrest w,
   C02_parse_render cfg (.bin .concat (.bin .add a b) c) ⟨⟨ha, hb⟩, hc⟩ 0 rest hrest w⟩

include ha hb hc in
/-- `a < b & c` is `a < (b & c)` and `a & b < c` is `(a & b) < c` -/
theorem C02_cmp_below_concat (hrest : StopsAt 0 rest) :
    ParsesTo cfg 0 (render (leftCtx 2 a) a ++ tLT :: (render 3 b ++ tAMP :: render 4 c)) rest w
      (.cmp tLT .lt (denote a) (.concat tAMP (denote b) (denote c))) ∧
    ParsesTo cfg 0 ((render 3 a ++ tAMP :: render 4 b) ++ tLT :: render 3 c) rest w
      (.cmp tLT .lt (.concat tAMP (denote a) (denote b)) (denote c)) :=
  ⟨C02_parse_render cfg (.bin .lt a (.bin .concat b c)) ⟨ha, hb, hc⟩ 0 rest hrest w,
   C02_parse_render cfg (.bin .lt (.bin .concat a b) c) ⟨⟨ha, hb⟩, hc⟩ 0 rest hrest w⟩

include ha hb hc in
/-- `a AND b = c` is `a AND (b = c)` and `a = b OR c` is `(a = b) OR c` -/
theorem C02_logic_below_cmp (hrest : StopsAt 0 rest) :
    ParsesTo cfg 0 (render 1 a ++ tAND :: (render (leftCtx 2 b) b ++ tEQ :: render 3 c)) rest w
      (.logic tAND .and (denote a) (.cmp tEQ .eq (denote b) (denote c))) ∧
    ParsesTo cfg 0 ((render (leftCtx 2 a) a ++ tEQ :: render 3 b) ++ tOR :: render 2 c) rest w
      (.logic tOR .or (.cmp tEQ .eq (denote a) (denote b)) (denote c)) :=
  ⟨C02_parse_render cfg (.bin .and a (.bin .eq b c)) ⟨ha, hb, hc⟩ 0 rest hrest w,
   C02_parse_render cfg (.bin .or (.bin .eq a b) c) ⟨⟨ha, hb⟩, hc⟩ 0 rest hrest w⟩

include ha hb hc in
/-- AND and OR share one level and associate to the left: `a OR b AND c` is `(a OR b) AND c` -/
theorem C02_and_or_same_level (hrest : StopsAt 0 rest) :
    ParsesTo cfg 0 ((render 1 a ++ tOR :: render 2 b) ++ tAND :: render 2 c) rest w
      (.logic tAND .and (.logic tOR .or (denote a) (denote b)) (denote c)) :=
  C02_parse_render cfg (.bin .and (.bin .or a b) c) ⟨⟨ha, hb⟩, hc⟩ 0 rest hrest w

include ha hb hc in
/-- parentheses override precedence: `(a + b) * c` -/
theorem C02_parens (hrest : StopsAt 0 rest) :
    ParsesTo cfg 0 ((lparenT :: (render 4 a ++ tPLUS :: render 5 b) ++ [rparenT]) ++ tSTAR :: render 6 c) rest w
      (.arith tSTAR .mul (.arith tPLUS .add (denote a) (denote b)) (denote c)) :=
  C02_parse_render cfg (.bin .mul (.bin .add a b) c) ⟨⟨ha, hb⟩, hc⟩ 0 rest hrest w

include ha hb in
/-- unary minus applies to the following atom only: `- a * b` is `(-a) * b`, and `a - - b` is `a - (-b)` -/
theorem C02_unary_minus (hrest : StopsAt 0 rest) :
    ParsesTo cfg 0 ((minusT :: render 7 a) ++ tSTAR :: render 6 b) rest w
      (.arith tSTAR .mul (.neg minusT (denote a)) (denote b)) ∧
    ParsesTo cfg 0 (render 4 a ++ tMINUS :: (minusT :: render 7 b)) rest w
      (.arith tMINUS .sub (denote a) (.neg minusT (denote b))) :=
  ⟨C02_parse_render cfg (.bin .mul (.neg a) b) ⟨ha, hb⟩ 0 rest hrest w,
   C02_parse_render cfg (.bin .sub a (.neg b)) ⟨ha, hb⟩ 0 rest hrest w⟩

include ha hb in
/-- NOT is a prefix of a whole comparison: `NOT a = b` is `NOT (a = b)`, `NOT a AND b` is `(NOT a) AND b`,
    and `(NOT a) = b` needs its parentheses -/
theorem C02_not (hrest : StopsAt 0 rest) :
    ParsesTo cfg 0 (notT :: (render (leftCtx 2 a) a ++ tEQ :: render 3 b)) rest w
      (.not notT (.cmp tEQ .eq (denote a) (denote b))) ∧
    ParsesTo cfg 0 ((notT :: render 2 a) ++ tAND :: render 2 b) rest w
      (.logic tAND .and (.not notT (denote a)) (denote b)) ∧
    ParsesTo cfg 0 ((lparenT :: (notT :: render 2 a) ++ [rparenT]) ++ tEQ :: render 3 b) rest w
      (.cmp tEQ .eq (.not notT (denote a)) (denote b)) :=
  ⟨C02_parse_render cfg (.not (.bin .eq a b)) ⟨ha, hb⟩ 0 rest hrest w,
   C02_parse_render cfg (.bin .and (.not a) b) ⟨ha, hb⟩ 0 rest hrest w,
   C02_parse_render cfg (.bin .eq (.not a) b) ⟨ha, hb⟩ 0 rest hrest w⟩

end corollaries

/-! ## non-vacuity: concrete trees, their token lists, and the parser run on them -/

section examples
private def va := PExpr.var "a".toList
private def vb := PExpr.var "b".toList
private def vc := PExpr.var "c".toList
private def ta := varT "a".toList
private def tb := varT "b".toList
private def tc := varT "c".toList

-- `(a + b) * 12` keeps its parentheses, `a + b * 12` gets none
example : render 0 (.bin .mul (.bin .add va vb) (.int 12)) =
    [lparenT, ta, tPLUS, tb, rparenT, tSTAR, mkT .INTEGER "12".toList] := by decide
example : render 0 (.bin .add va (.bin .mul vb (.int 12))) =
    [ta, tPLUS, tb, tSTAR, mkT .INTEGER "12".toList] := by decide
-- right-nested subtraction keeps its parentheses, left-nested does not
example : render 0 (.bin .sub va (.bin .sub vb vc)) = [ta, tMINUS, lparenT, tb, tMINUS, tc, rparenT] := by decide
example : render 0 (.bin .sub (.bin .sub va vb) vc) = [ta, tMINUS, tb, tMINUS, tc] := by decide
-- NOT: prefix of a comparison; parenthesised as a left operand of a comparison and in tighter contexts
example : render 0 (.not (.bin .eq va vb)) = [notT, ta, tEQ, tb] := by decide
example : render 0 (.bin .eq (.not va) vb) = [lparenT, notT, ta, rparenT, tEQ, tb] := by decide
example : render 0 (.bin .and va (.not vb)) = [ta, tAND, notT, tb] := by decide
example : render 0 (.bin .eq va (.not vb)) = [ta, tEQ, lparenT, notT, tb, rparenT] := by decide
-- unary minus: operand as an atom
example : render 0 (.neg (.neg va)) = [minusT, lparenT, minusT, ta, rparenT] := by decide
example : render 0 (.bin .mul va (.neg (.bin .add vb vc))) =
    [ta, tSTAR, minusT, lparenT, tb, tPLUS, tc, rparenT] := by decide
-- every binary node parenthesised
example : renderFull 0 (.bin .add va (.bin .mul vb vc)) =
    [lparenT, ta, tPLUS, lparenT, tb, tSTAR, tc, rparenT, rparenT] := by decide
-- the digits are those of `natToStr`
example : natDigits 9223372036854775807 = natToStr 9223372036854775807 := by decide
-- the hypotheses are satisfiable: EXPRESSION_END, `)` stop every level
example : StopsAt 0 [eofTok] := StopsAt.eof 0 []
example : (PExpr.bin .add va (.bin .mul vb (.int 12))).InRange := ⟨trivial, trivial, (by decide : ((12 : Nat) : Int) < two63)⟩

-- the parser actually run (kernel evaluation), fuel 40
example : (parseLevel {} 40 0).run.run ⟨[ta, tPLUS, tb, tSTAR, tc, eofTok], []⟩
    = (.ok (denote (.bin .add va (.bin .mul vb vc))), ⟨[eofTok], []⟩) := by rfl
example : (parseLevel {} 40 0).run.run ⟨[ta, tMINUS, tb, tMINUS, tc, eofTok], []⟩
    = (.ok (denote (.bin .sub (.bin .sub va vb) vc)), ⟨[eofTok], []⟩) := by rfl

/-! ### tests: behaviours of the parser (model = C++ `evalExprParser.cpp`) outside the documented grammar -/

-- TEST: `NOT` is only recognised at the start of a comparison-level parse: `a = NOT b` is a syntax error
example : ((parseLevel {} 40 0).run.run ⟨[ta, tEQ, notT, tb, eofTok], []⟩).1
    = .error { kind := .syntax, line := 0, col := 0, msg := .other } := by rfl
-- TEST: a second unary minus is not accepted: `- - a` is a syntax error
example : ((parseLevel {} 40 0).run.run ⟨[minusT, minusT, ta, eofTok], []⟩).1
    = .error { kind := .syntax, line := 0, col := 0, msg := .other } := by rfl
-- TEST: `<-` after an identifier is part of the atom: `1 + a <- 2` is `1 + (a <- 2)`
example : (parseLevel {} 40 0).run.run ⟨[intT 1, tPLUS, ta, mkT .ASSIGNMENT, intT 2, eofTok], []⟩
    = (.ok (.arith tPLUS .add (.intLit (intT 1) 1)
              (.assign (mkT .ASSIGNMENT) (.var ta) (.intLit (intT 2) 2))), ⟨[eofTok], []⟩) := by rfl
end examples

end Pseudo
