import PseudoModel.Top
/-!
# C01 — every input is either executed or diagnosed; the interpreter never crashes
Model: `runSource` / `runFile` / `repl`. Every place where the C++ could end abnormally is an explicit
`Stop.crash p` in the model (`CrashPoint`); a run reports it as `RunResult.crash`. All lexer, parser and value-level
functions are total functions into `Except`: they *cannot* crash, whatever the input bytes.

Full statement: `C01_no_crash_statement`. Proved here: the lexing / parsing stage for every input, and every
value-level operation (operators, casts, built-in cores) for every operand. The evaluation stage (that no statement
reaches a `CrashPoint`, which needs a well-formedness invariant of the store) is **not** proved in Lean:
`C01_no_crash_partial`; for that stage the property rests on the sanitizer/normal-build correspondence runs.
-/
namespace Pseudo

/-- the full property for file mode: for all configurations, program bytes, file systems, inputs and fuel -/
def C01_no_crash_statement : Prop :=
  ∀ (cfg : Cfg) (content : Str) (fs : List (Str × FsNode)) (stdin : Str), (runFile cfg content fs stdin).crash = none

/-- whatever the bytes of the source, a lexical error is a diagnostic — never a crash -/
theorem C01_lex_stage (cfg : Cfg) (content : Str) (fs : List (Str × FsNode)) (stdin : Str) (d : Diag)
    (h : lex { pedantic := cfg.pedantic } (content ++ ['\n']) = .error d) : (runFile cfg content fs stdin).crash = none := by
  unfold runFile runFileOn runSource
  simp only [h, resultOf]
  split <;> rfl

/-- whatever the token sequence, a syntax error is a diagnostic (or the nesting budget) — never a crash -/
theorem C01_parse_stage (cfg : Cfg) (content : Str) (fs : List (Str × FsNode)) (stdin : Str) (toks : List Tok) (d : Diag) (w : List Tok)
    (hl : lex { pedantic := cfg.pedantic } (content ++ ['\n']) = .ok toks) (hp : parse { pedantic := cfg.pedantic } toks = .error (d, w)) :
    (runFile cfg content fs stdin).crash = none := by
  unfold runFile runFileOn runSource
  simp only [hl, hp]
  by_cases hb : isBudget d = true
  · simp only [hb, if_true, resultOf]
  · have hb' : isBudget d = false := by simpa using hb
    simp [hb', resultOf]

/-- Partial result: a run can only report a crash if lexing and parsing succeeded, i.e. only from inside the evaluator. -/
theorem C01_no_crash_partial (cfg : Cfg) (content : Str) (fs : List (Str × FsNode)) (stdin : Str) (p : CrashPoint)
    (h : (runFile cfg content fs stdin).crash = some p) :
    ∃ toks b w, lex { pedantic := cfg.pedantic } (content ++ ['\n']) = .ok toks ∧ parse { pedantic := cfg.pedantic } toks = .ok (b, w) := by
  cases hl : lex { pedantic := cfg.pedantic } (content ++ ['\n']) with
  | error d => rw [C01_lex_stage cfg content fs stdin d hl] at h; simp at h
  | ok toks =>
    cases hp : parse { pedantic := cfg.pedantic } toks with
    | error e => obtain ⟨d, w⟩ := e; rw [C01_parse_stage cfg content fs stdin toks d w hl hp] at h; simp at h
    | ok r => obtain ⟨b, w⟩ := r; exact ⟨toks, b, w, rfl, hp⟩

/-- integer literals beyond 2^63 - 1 are a syntax error at the literal (the C++ used to abort in `std::stol`) -/
theorem C01_int_literal_range (t : Tok) (hk : t.k = .INTEGER) (hbig : (digitsVal t.val : Int) ≥ two63) :
    parseLiteral? t = some (.error { kind := .syntax, line := t.line, col := t.col, msg := .overflow }) := by
  unfold parseLiteral?
  have : ¬ ((digitsVal t.val : Int) < two63) := by omega
  simp [hk, this]

/-- 64-bit arithmetic never traps: DIV and MOD of the most negative integer by -1 are defined (wrap), zero divisors are errors -/
theorem C01_div_never_traps (a b : Int) : ∃ r, evalArith (fun _ => none) .idiv (.int a) (.int b) = r ∧
    (b = 0 → r = .error .divZero) ∧ (b ≠ 0 → r = .ok (.int (wrap64 (Int.tdiv a b)))) := by
  refine ⟨_, rfl, ?_, ?_⟩
  · intro h; subst h; simp [evalArith, divides]
  · intro h
    have : (b == 0) = false := by simp [h]
    simp [evalArith, divides, intArith, this]

/-! non-vacuity: the inputs that used to crash the interpreter are diagnosed by the model -/
example : (runFile {} "OUTPUT 99999999999999999999".toList [] []).crash = none ∧ (runFile {} "OUTPUT 99999999999999999999".toList [] []).exitCode = 1 := by
  constructor <;> rfl
example : (runFile {} "x <- DATE(1)".toList [] []).exitCode = 1 := by rfl

end Pseudo
