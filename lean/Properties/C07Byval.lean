import Properties.C07Return
import Properties.C04Frame
import PseudoProofs.ByvalWritesStmts
import PseudoProofs.ByvalWritesFor
import PseudoProofs.ByvalWritesArr
import PseudoProofs.ByvalWritesRef
import PseudoProofs.ByvalWritesCaller
/-!
# C07: the BYVAL channel — ANY body, EVERY statement form that writes

Property C07: "… passing a record BYVAL … copies every field, including nested records and array fields, and afterwards a
change to either copy never shows in the other."

`Properties/C07Return.lean` (`C07_byval_any_body_partial`) proved: when the body of ANY procedure / function starts, a BYVAL
parameter `p` is a plain variable of the NEW activation (id `σ2.nextId`) holding the argument value, it stays that variable in
every state the body reaches (`RecordReturn.ActsSk`), and an ASSIGNMENT rooted at `p` changes no location outside the callee's
activation.  This file removes the `_partial`:

* every statement form of the language that stores through a reference / name is covered, one theorem each
  (`C07_byval_write_assign`, `…_input`, `…_readfile`, `…_getrecord`, `…_array`, `…_for`, `…_byref_bind` + `C07_byval_byref_writes_stay`),
  combined in `C07_byval_param_writes_stay`.  The conclusion is everywhere the stronger "no location with a root other than
  the variable `p` of activation `N` changes" (`DiffRoot (varLoc N p) l'`), which contains "no location of another
  activation changes" (`DiffRoot` holds as soon as `l'.act ≠ N`) and also says that the callee's OTHER variables are untouched;
* the converse direction `C07_byval_source_writes_invisible`: writes to the source (or anything else) never show in `p`;
* `C07_byval_local_caller_unchanged`: the caller's state after the WHOLE call, for a non-global caller in a pointer-free state
  (corollary of the general frame theorem `C04_frame_byval_call_vars`);
* `C07_byval_any_body`: the combination; `C07_byval_any_body_call`: the same tied to a real `callProc` run.

**The syntax decides which forms exist.**  In the model (and in the interpreter's grammar) the target of `INPUT` and of an
assignment is a reference (`p.f`, `p.xs[i]`, …), but the target of `READFILE file, x`, of `GETRECORD file, x` and the iterator
of `FOR x <- …` are plain NAMES (`Stmt.readFile t fn id`, `Stmt.getRecord t fn id`, `Stmt.for t it …` carry a token): `READFILE
n, p.f` or `FOR p.f <- …` do not parse.  These three forms can therefore write a BYVAL parameter only when the name IS the
parameter (a BYVAL STRING / record / INTEGER parameter); the theorems are stated for that.

**Purity hypotheses.**  As in `C07Exec.lean`: index expressions inside the target reference are pure (`Rooted`), the right-hand
side of an assignment, the file-name expression and the FOR bounds are pure (`PureAt`): an impure one (a function call) may of
course itself write anything, which is not a write "through the parameter".
-/
namespace Pseudo

open ArrayLemmas C07Copy CallLemmas RecordLemmas RecordReturn ByvalWrites

/-! ## 1. one theorem per statement form: `p` is a plain variable of activation `N` -/

/-- **assignment `r <- rhs`, `r` rooted at `p`** (`p.f`, `p.g.h`, `p.xs[i]`, … any depth; index expressions and `rhs` pure).
    `hp`: in the state `σm` the name `p` denotes a plain (non-alias, non-constant) variable of activation `N` — needed: this is
    what makes the root of every location reached from `p` the cell `p` of `N`.  However the statement ends (normally, or with
    any diagnostic), every location with another root reads in the final state what it read before.
    (`C07_exec_write_under_root_frame`, restated.) -/
theorem C07_byval_write_assign (σm σm' : St) (t pt : Tok) (r : Ref) (rhs : Expr) (rv : Val) (N : Nat) (ty : Ty) (v : Val)
    (f₀ n f : Nat) (res : Except Stop Val)
    (hp : HasVar σm pt.val N ty v)
    (hroot : Rooted (tickSt σm) f₀ pt r n) (hrhs : PureAt (tickSt σm) f₀ rhs rv) (hf : max f₀ n + 3 ≤ f)
    (hrun : (execStmt f (.expr (.assign t r rhs))).run.run σm = (res, σm')) :
    ∀ l', DiffRoot (varLoc N pt.val) l' → readLocP σm' l' = readLocP σm l' :=
  (C07_exec_write_under_root_frame σm σm' t pt r rhs rv (varLoc N pt.val) f₀ n f res hp.acts_ne (hp.tick.base pt) hroot hrhs hf
    hrun).1

/-- **`INPUT r`, `r` rooted at `p`** (`INPUT p`, `INPUT p.f`, `INPUT p.xs[i]`, …).  Hypotheses: `hp` as above; `hroot`: the index
    expressions in `r` are pure; `hf`: enough fuel to resolve `r`.  However the statement ends — step budget, unknown member,
    index out of bounds, whole array, constant, a type that cannot be input, or normally after storing the converted line —
    every location with a root other than `p` reads what it read before (the input stream is consumed, no variable but `p`
    changes). -/
theorem C07_byval_write_input (σm σm' : St) (t pt : Tok) (r : Ref) (N : Nat) (ty : Ty) (v : Val) (f₀ n f : Nat)
    (res : Except Stop Val)
    (hp : HasVar σm pt.val N ty v) (hroot : Rooted (tickSt σm) f₀ pt r n) (hf : n + 1 ≤ f)
    (hrun : (execStmt f (.input t r)).run.run σm = (res, σm')) :
    ∀ l', DiffRoot (varLoc N pt.val) l' → readLocP σm' l' = readLocP σm l' :=
  input_rooted_keeps σm σm' t pt r (varLoc N pt.val) f₀ n f res (hp.tick.base pt) hroot hf hrun

/-- **`READFILE fn, p`** (the target of READFILE is a name: here the parameter itself, e.g. a BYVAL STRING parameter).
    `hfn`: the file-name expression is pure.  However the statement ends (file not open, wrong mode, end of file, `p` not a
    STRING, … or normally after storing the line), every location with a root other than `p` reads what it read before. -/
theorem C07_byval_write_readfile (σm σm' : St) (t : Tok) (fn : Expr) (pt : Tok) (N : Nat) (ty : Ty) (v fv : Val) (f₀ f : Nat)
    (res : Except Stop Val)
    (hp : HasVar σm pt.val N ty v) (hfn : PureAt (tickSt σm) f₀ fn fv) (hf : f₀ + 2 ≤ f)
    (hrun : (execStmt f (.readFile t fn pt)).run.run σm = (res, σm')) :
    ∀ l', DiffRoot (varLoc N pt.val) l' → readLocP σm' l' = readLocP σm l' :=
  readFile_var_keeps σm σm' t fn pt N ty v fv f₀ f res hp hfn hf hrun

/-- **`GETRECORD fn, p`** (the target is a name: the BYVAL record parameter itself; the record text read from the random file
    is decoded into a copy of `p`'s current value and stored in `p`).  `hfn`: the file-name expression is pure.  However the
    statement ends, every location with a root other than `p` reads what it read before. -/
theorem C07_byval_write_getrecord (σm σm' : St) (t : Tok) (fn : Expr) (pt : Tok) (N : Nat) (ty : Ty) (v fv : Val) (f₀ f : Nat)
    (res : Except Stop Val)
    (hp : HasVar σm pt.val N ty v) (hfn : PureAt (tickSt σm) f₀ fn fv) (hf : f₀ + 2 ≤ f)
    (hrun : (execStmt f (.getRecord t fn pt)).run.run σm = (res, σm')) :
    ∀ l', DiffRoot (varLoc N pt.val) l' → readLocP σm' l' = readLocP σm l' :=
  getRecord_var_keeps σm σm' t fn pt N ty v fv f₀ f res hp hfn hf hrun

/-- **`r <- sr` with a reference on the right: whole-array assignment `p.xs <- q.ys` / `p.xs <- arr`** (and `p.f <- q.g`).
    `r` is rooted at `p`; the source `sr` is rooted at a name `st` that resolves, state unchanged, to a holder at `sroot`
    (`hsbase`: `HasVar.base` gives this for a plain variable, `hasArray_base` for an array).  When `sr` denotes a whole array
    the evaluator takes the array-copy path of `execAssign` (diagnostic `arrayDirect` caught, both sides resolved again, the
    two array values compared, one `writeLoc` of the whole array value).  However the statement ends, every location with a
    root other than `p` — the source array included — reads what it read before. -/
theorem C07_byval_write_array (σm σm' : St) (t pt st at' : Tok) (r sr : Ref) (sroot : Loc) (N : Nat) (ty : Ty) (v : Val)
    (f₀ n m f : Nat) (res : Except Stop Val)
    (hp : HasVar σm pt.val N ty v)
    (hsbase : ∀ f, 1 ≤ f → ∃ h0, (resolveRef f (.var st)).run.run (tickSt σm) = (.ok h0, tickSt σm) ∧ h0.loc = sroot)
    (hroot : Rooted (tickSt σm) f₀ pt r n) (hsroot : Rooted (tickSt σm) f₀ st sr m) (hf : max n (m + 1) + 3 ≤ f)
    (hrun : (execStmt f (.expr (.assign t r (.access at' sr)))).run.run σm = (res, σm')) :
    ∀ l', DiffRoot (varLoc N pt.val) l' → readLocP σm' l' = readLocP σm l' :=
  assign_access_rooted_keeps σm σm' t pt st at' r sr (varLoc N pt.val) sroot f₀ n m f res hp.acts_ne (hp.tick.base pt) hsbase hroot
    hsroot hf hrun

/-- **`FOR p <- start TO stop [STEP step] … NEXT p`, the iterator being the parameter** (the iterator of FOR is a name; e.g. a
    BYVAL INTEGER parameter).  `start`, `stop`, `step` pure.  A FOR statement runs its body, which may do anything; what the
    statement ITSELF does is exactly: ticks, writes to the iterator's own cell, and runs of the loop body
    (`ByvalWrites.ForRun`: the final state is reached from the start state by these three kinds of steps, nothing else; every
    state on the way is `ActsSk`-related to the start, `ForRun.sk`, so `p` is still the same plain variable there).  Hence
    (second part): if every run of the loop body from every state the statement reaches leaves the locations outside
    activation `N` as they are — which the other theorems of this file give for bodies that write through `p` —, so does the
    whole FOR statement. -/
theorem C07_byval_write_for (σm σm' : St) (t pt : Tok) (start stop : Expr) (step : Option Expr) (b : Block) (N : Nat) (ty : Ty)
    (v sv ev : Val) (f₀ f : Nat) (res : Except Stop Val)
    (hp : HasVar σm pt.val N ty v)
    (hstart : PureAt (tickSt σm) f₀ start sv) (hstop : PureAt (tickSt σm) f₀ stop ev)
    (hstep : ∀ se, step = some se → ∃ kv, PureAt (tickSt σm) f₀ se kv) (hf : f₀ + 1 ≤ f)
    (hrun : (execStmt f (.for t pt start stop step b)).run.run σm = (res, σm')) :
    ForRun (varLoc N pt.val) f b σm σm' ∧ ActsSk σm.acts σm'.acts ∧
    ((∀ σ1 f' res σ2, ForRun (varLoc N pt.val) f b σm σ1 → f' ≤ f → (loopBody f' b).run.run σ1 = (res, σ2) →
        ∀ l : Loc, l.act ≠ N → readLocP σ2 l = readLocP σ1 l) →
      ∀ l : Loc, l.act ≠ N → readLocP σm' l = readLocP σm l) := by
  have h := for_run σm σm' t pt start stop step b N ty v sv ev f₀ f res hp hstart hstop hstep hf hrun
  exact ⟨h, h.sk, fun hbody => h.out hbody⟩

/-- **passing a part of `p` on BYREF, the binding**: `bindParams` reaches a BYREF parameter `(q, qty, BYREF)` whose argument is
    the reference `r` rooted at `p` (`CALL Q(p.f)`, `CALL Q(p.xs[i])`; index expressions pure).  Then either the binding fails
    and leaves the state as it is (type of the argument ≠ `qty`, unknown member, whole array, …), or `q` becomes an ALIAS
    (`byrefSlot`) of a location `h.loc` under the root of `p` — so in activation `N`, the callee's own, NOT a location of the
    caller's record whose value `p` got —, the state is unchanged, and the remaining parameters are bound. -/
theorem C07_byval_byref_bind (σm : St) (t pt at' : Tok) (qn : Str) (qty : Ty) (ps : List (Str × Ty × Bool)) (r : Ref)
    (es : List Expr) (av : Val) (vs : List Val) (acc : List Slot) (N : Nat) (ty : Ty) (v : Val) (f₀ n f : Nat)
    (hp : HasVar σm pt.val N ty v) (hroot : Rooted σm f₀ pt r n) (hf : n ≤ f) :
    (∃ e, (bindParams (f+1) t ((qn, qty, true) :: ps) (.access at' r :: es) (av :: vs) acc).run.run σm = (.error e, σm)) ∨
    (∃ h, SameRoot (varLoc N pt.val) h.loc ∧ h.loc.act = N ∧ h.isArr = false ∧ h.ty = qty ∧
      (bindParams (f+1) t ((qn, qty, true) :: ps) (.access at' r :: es) (av :: vs) acc).run.run σm =
        (bindParams f t ps es vs (byrefSlot qn h (locConstP σm h.loc) :: acc)).run.run σm) := by
  rcases bind_byref_rooted σm t pt at' qn qty ps r es av vs acc (varLoc N pt.val) f₀ n f (hp.base pt) hroot hf with
    h | ⟨h, h1, h2, h3, _, h5⟩
  · exact .inl h
  · exact .inr ⟨h, h1, h1.1, h2, h3, h5⟩

/-- the alias skeleton relation composes along runs: a statement, a block, an expression run from a related state ends
    (however it ends) in a related state (instance `ByvalRefSk.sk_all` of `eval_all`: no function of the evaluator changes the
    alias target, the declared type or the constness of an existing variable) -/
theorem C07_byval_alias_reachable_step (σ0 σq : St) (h : ByvalRefSk.ActsSk σ0.acts σq.acts) (f : Nat) :
    (∀ s res σ', (execStmt f s).run.run σq = (res, σ') → ByvalRefSk.ActsSk σ0.acts σ'.acts) ∧
    (∀ b res σ', (runBlock f b).run.run σq = (res, σ') → ByvalRefSk.ActsSk σ0.acts σ'.acts) ∧
    (∀ e res σ', (evalExpr f e).run.run σq = (res, σ') → ByvalRefSk.ActsSk σ0.acts σ'.acts) := by
  refine ⟨fun s res σ' hrun => ?_, fun b res σ' hrun => ?_, fun e res σ' hrun => ?_⟩
  · have h2 := ByvalRefSk.stmt_run_sk f s σq
    rw [hrun] at h2
    exact h.trans h2
  · have h2 := ByvalRefSk.block_run_sk f b σq
    rw [hrun] at h2
    exact h.trans h2
  · have h2 := (((ByvalRefSk.sk_all f).evalExpr e).run σq).1
    rw [hrun] at h2
    exact h.trans h2

/-- **passing a part of `p` on BYREF, the writes of the procedure that got the alias.**  `mk` builds the activation of ANY
    procedure / function call whose parameter list bound the name `q` to an alias of the location `h.loc` (`hslot`: the slot
    `C07_byval_byref_bind` produces), where `h.loc` lies under the variable `pn` of activation `N` (`hsr`; `N` is the activation
    of the procedure that owns the BYVAL parameter `pn` and made the call).  In EVERY state `σq` the inner body reaches at its
    own level (`ByvalRefSk.ActsSk`-related to the inner body's start: after any statements, inside loops — the relation every
    run respects, `C07_byval_alias_reachable_step`; part 3: after any block `pre`), the name `q` still resolves to that
    location, and
    1. any assignment `r <- rhs` whose target is rooted at `q` (`q <- …`, `q.f <- …` when the aliased part is itself a record, …),
    2. any `INPUT r` with `r` rooted at `q`,
    however it ends, changes no location with a root other than the variable `pn` of `N`: nothing in any other activation —
    the caller's record whose value was passed BYVAL, the globals — changes. -/
theorem C07_byval_byref_writes_stay (σ2 : St) (callerId : Nat) (t : Tok) (mk : Nat → Act) (slots : List Slot) (qt : Tok)
    (h : Holder) (c : Bool) (N : Nat) (pn : Str)
    (hvars : (mk σ2.nextId).vars = slots)
    (hslot : findSlot slots qt.val = some (byrefSlot qt.val h c))
    (hsr : SameRoot (varLoc N pn) h.loc) :
    (∀ σq : St, ByvalRefSk.ActsSk (C04.bodySt σ2 callerId t mk).acts σq.acts →
      (∀ f, 1 ≤ f → ∃ h0, (resolveRef f (.var qt)).run.run σq = (.ok h0, σq) ∧ h0.loc = h.loc) ∧
      (∀ (t₂ : Tok) (r : Ref) (rhs : Expr) (rv : Val) (f₀ n f₂ : Nat) (res : Except Stop Val) (σq' : St),
        Rooted (tickSt σq) f₀ qt r n → PureAt (tickSt σq) f₀ rhs rv → max f₀ n + 3 ≤ f₂ →
        (execStmt f₂ (.expr (.assign t₂ r rhs))).run.run σq = (res, σq') →
        ∀ l', DiffRoot (varLoc N pn) l' → readLocP σq' l' = readLocP σq l') ∧
      (∀ (t₂ : Tok) (r : Ref) (f₀ n f₂ : Nat) (res : Except Stop Val) (σq' : St),
        Rooted (tickSt σq) f₀ qt r n → n + 1 ≤ f₂ →
        (execStmt f₂ (.input t₂ r)).run.run σq = (res, σq') →
        ∀ l', DiffRoot (varLoc N pn) l' → readLocP σq' l' = readLocP σq l')) ∧
    (∀ (f₁ : Nat) (pre : Block) (res : Except Stop Unit) (σq : St),
      (runBlock f₁ pre).run.run (C04.bodySt σ2 callerId t mk) = (res, σq) →
      ByvalRefSk.ActsSk (C04.bodySt σ2 callerId t mk).acts σq.acts) := by
  have hacts : (C04.bodySt σ2 callerId t mk).acts = mk σ2.nextId :: (setSwitch σ2 callerId t).acts := rfl
  have hslot' : findSlot (mk σ2.nextId).vars qt.val = some (byrefSlot qt.val h c) := by rw [hvars]; exact hslot
  refine ⟨fun σq hsk => ?_, fun f₁ pre res σq hrun => ?_⟩
  rotate_left
  · have h2 := ByvalRefSk.block_run_sk f₁ pre (C04.bodySt σ2 callerId t mk)
    rw [hrun] at h2
    exact h2
  obtain ⟨cur', rest', s', hq, _, hs', href, _, _⟩ :=
    ByvalRefSk.alias_of_actsSk (mk σ2.nextId) (setSwitch σ2 callerId t).acts qt.val _ h.loc hacts hsk hslot' rfl
  have hne : σq.acts ≠ [] := by rw [hq]; exact List.cons_ne_nil _ _
  have hbase := alias_base σq cur' rest' qt s' h.loc hq hs' href
  have hbaseT := alias_base (tickSt σq) cur' rest' qt s' h.loc hq hs' href
  refine ⟨hbase, ?_, ?_⟩
  · intro t₂ r rhs rv f₀ n f₂ res σq' hroot hrhs hf₂ hrun l' hd
    exact (C07_exec_write_under_root_frame σq σq' t₂ qt r rhs rv h.loc f₀ n f₂ res hne hbaseT hroot hrhs hf₂ hrun).1 l'
      (hd.of_sameRoot hsr)
  · intro t₂ r f₀ n f₂ res σq' hroot hf₂ hrun l' hd
    exact input_rooted_keeps σq σq' t₂ qt r h.loc f₀ n f₂ res hbaseT hroot hf₂ hrun l' (hd.of_sameRoot hsr)

/-! ## 2. the BYVAL parameter in the callee: every writing statement, any body -/

/-- the parameter cell at body start and in every state the body reaches -/
theorem C07.byval_param_var (σ2 : St) (callerId : Nat) (t : Tok) (mk : Nat → Act) (slots : List Slot) (pt : Tok) (pty : Ty)
    (av : Val)
    (hid : (mk σ2.nextId).id = σ2.nextId) (hvars : (mk σ2.nextId).vars = slots)
    (hslot : findSlot slots pt.val = some (byvalSlot pt.val pty av)) :
    HasVar (C04.bodySt σ2 callerId t mk) pt.val σ2.nextId pty (implicitCast pty av) ∧
    ∀ σm : St, ActsSk (C04.bodySt σ2 callerId t mk).acts σm.acts → ∃ v', HasVar σm pt.val σ2.nextId pty v' := by
  have hacts : (C04.bodySt σ2 callerId t mk).acts = mk σ2.nextId :: (setSwitch σ2 callerId t).acts := rfl
  have hslot' : findSlot (mk σ2.nextId).vars pt.val = some (byvalSlot pt.val pty av) := by rw [hvars]; exact hslot
  have h1 : HasVar (C04.bodySt σ2 callerId t mk) pt.val σ2.nextId pty (implicitCast pty av) := by
    have := HasVar.of_current (C04.bodySt σ2 callerId t mk) (mk σ2.nextId) (setSwitch σ2 callerId t).acts pt.val _ hacts
      hslot' rfl rfl
    rw [hid] at this
    exact this
  refine ⟨h1, fun σm hsk => ?_⟩
  have h1' : HasVar (C04.bodySt σ2 callerId t mk) pt.val (mk σ2.nextId).id pty (implicitCast pty av) := by
    rw [hid]; exact h1
  obtain ⟨v', hm⟩ := hasVar_of_actsSk_cur (mk σ2.nextId) (setSwitch σ2 callerId t).acts hacts hsk (by rw [hslot']; rfl) h1'
  rw [hid] at hm
  exact ⟨v', hm⟩

/-- **C07 (BYVAL: writes through the parameter stay in the callee) — every statement form, any body, any parameter list.**

    Setting as in `C07_byval_any_body_partial`: `mk` builds the activation of ANY procedure / function call (`procAct pd slots`,
    `funAct fd slots`; fresh id `σ2.nextId`, `hid`; variables = the bound parameters `slots`, `hvars`); `C04.bodySt σ2 callerId t mk`
    is the state in which the body starts (`run_callProc` / `run_callFun_user`).  `hslot`: the name `p` finds the cell of a BYVAL
    parameter of ANY type `pty` (a record type `.comp T`, INTEGER, STRING, …) bound to the argument value `av`
    (`run_bindParams_byval`).  Let `σm` be ANY state whose activation stack is `ActsSk`-related to the body's start — the relation
    every run of every evaluator function respects (`C07_byval_reachable_step`): every state the body reaches at its own
    level.  Then `p` is in `σm` a plain variable of the new activation, and for EVERY statement form that stores through a
    reference or name, executed in `σm`, however it ends, every location with a root other than `p` — every location of the
    caller (in particular the record whose value was passed), of the globals, of any other activation, and the callee's other
    variables — reads afterwards what it read before:

    1. assignment `r <- rhs`, `r` rooted at `p`, `rhs` pure;
    2. `INPUT r`, `r` rooted at `p`;
    3. `READFILE fn, p`;
    4. `GETRECORD fn, p`;
    5. `r <- sr` with a reference `sr` on the right (whole-array assignment into `p.xs`), `sr` rooted at any name `st`;
    6. `FOR p <- …`: the statement's own steps are ticks, writes to `p` and runs of its body; if the body runs keep the
       locations outside the callee's activation, so does the FOR statement;
    7. `CALL Q(…, r, …)` with `r` rooted at `p` bound to a BYREF parameter: the alias points into the callee's activation (what
       `Q` then writes through it: `C07_byval_byref_writes_stay`).

    Hypotheses: `hid`/`hvars`/`hslot` say what the new activation is; the purity hypotheses inside each item exclude impure
    index / right-hand-side / file-name / bound expressions (a function call there may write anything by itself). -/
theorem C07_byval_param_writes_stay (σ2 : St) (callerId : Nat) (t : Tok) (mk : Nat → Act) (slots : List Slot) (pt : Tok)
    (pty : Ty) (av : Val)
    (hid : (mk σ2.nextId).id = σ2.nextId) (hvars : (mk σ2.nextId).vars = slots)
    (hslot : findSlot slots pt.val = some (byvalSlot pt.val pty av)) :
    ∀ σm : St, ActsSk (C04.bodySt σ2 callerId t mk).acts σm.acts →
      ∃ v', HasVar σm pt.val σ2.nextId pty v' ∧
        (∀ (t₂ : Tok) (r : Ref) (rhs : Expr) (rv : Val) (f₀ n f : Nat) (res : Except Stop Val) (σm' : St),
          Rooted (tickSt σm) f₀ pt r n → PureAt (tickSt σm) f₀ rhs rv → max f₀ n + 3 ≤ f →
          (execStmt f (.expr (.assign t₂ r rhs))).run.run σm = (res, σm') →
          ∀ l', DiffRoot (varLoc σ2.nextId pt.val) l' → readLocP σm' l' = readLocP σm l') ∧
        (∀ (t₂ : Tok) (r : Ref) (f₀ n f : Nat) (res : Except Stop Val) (σm' : St),
          Rooted (tickSt σm) f₀ pt r n → n + 1 ≤ f →
          (execStmt f (.input t₂ r)).run.run σm = (res, σm') →
          ∀ l', DiffRoot (varLoc σ2.nextId pt.val) l' → readLocP σm' l' = readLocP σm l') ∧
        (∀ (t₂ : Tok) (fn : Expr) (fv : Val) (f₀ f : Nat) (res : Except Stop Val) (σm' : St),
          PureAt (tickSt σm) f₀ fn fv → f₀ + 2 ≤ f →
          (execStmt f (.readFile t₂ fn pt)).run.run σm = (res, σm') →
          ∀ l', DiffRoot (varLoc σ2.nextId pt.val) l' → readLocP σm' l' = readLocP σm l') ∧
        (∀ (t₂ : Tok) (fn : Expr) (fv : Val) (f₀ f : Nat) (res : Except Stop Val) (σm' : St),
          PureAt (tickSt σm) f₀ fn fv → f₀ + 2 ≤ f →
          (execStmt f (.getRecord t₂ fn pt)).run.run σm = (res, σm') →
          ∀ l', DiffRoot (varLoc σ2.nextId pt.val) l' → readLocP σm' l' = readLocP σm l') ∧
        (∀ (t₂ st at' : Tok) (r sr : Ref) (sroot : Loc) (f₀ n m f : Nat) (res : Except Stop Val) (σm' : St),
          (∀ f, 1 ≤ f → ∃ h0, (resolveRef f (.var st)).run.run (tickSt σm) = (.ok h0, tickSt σm) ∧ h0.loc = sroot) →
          Rooted (tickSt σm) f₀ pt r n → Rooted (tickSt σm) f₀ st sr m → max n (m + 1) + 3 ≤ f →
          (execStmt f (.expr (.assign t₂ r (.access at' sr)))).run.run σm = (res, σm') →
          ∀ l', DiffRoot (varLoc σ2.nextId pt.val) l' → readLocP σm' l' = readLocP σm l') ∧
        (∀ (t₂ : Tok) (start stop : Expr) (step : Option Expr) (b : Block) (sv ev : Val) (f₀ f : Nat) (res : Except Stop Val)
            (σm' : St),
          PureAt (tickSt σm) f₀ start sv → PureAt (tickSt σm) f₀ stop ev →
          (∀ se, step = some se → ∃ kv, PureAt (tickSt σm) f₀ se kv) → f₀ + 1 ≤ f →
          (execStmt f (.for t₂ pt start stop step b)).run.run σm = (res, σm') →
          ForRun (varLoc σ2.nextId pt.val) f b σm σm' ∧ ActsSk σm.acts σm'.acts ∧
          ((∀ σ1 f' res σ2', ForRun (varLoc σ2.nextId pt.val) f b σm σ1 → f' ≤ f → (loopBody f' b).run.run σ1 = (res, σ2') →
              ∀ l : Loc, l.act ≠ σ2.nextId → readLocP σ2' l = readLocP σ1 l) →
            ∀ l : Loc, l.act ≠ σ2.nextId → readLocP σm' l = readLocP σm l)) ∧
        (∀ (t₂ at' : Tok) (qn : Str) (qty : Ty) (ps : List (Str × Ty × Bool)) (r : Ref) (es : List Expr) (qv : Val)
            (vs : List Val) (acc : List Slot) (f₀ n f : Nat),
          Rooted σm f₀ pt r n → n ≤ f →
          (∃ e, (bindParams (f+1) t₂ ((qn, qty, true) :: ps) (.access at' r :: es) (qv :: vs) acc).run.run σm = (.error e, σm)) ∨
          (∃ h, SameRoot (varLoc σ2.nextId pt.val) h.loc ∧ h.loc.act = σ2.nextId ∧ h.isArr = false ∧ h.ty = qty ∧
            (bindParams (f+1) t₂ ((qn, qty, true) :: ps) (.access at' r :: es) (qv :: vs) acc).run.run σm =
              (bindParams f t₂ ps es vs (byrefSlot qn h (locConstP σm h.loc) :: acc)).run.run σm)) := by
  intro σm hsk
  obtain ⟨v', hp⟩ := (C07.byval_param_var σ2 callerId t mk slots pt pty av hid hvars hslot).2 σm hsk
  refine ⟨v', hp, ?_, ?_, ?_, ?_, ?_, ?_, ?_⟩
  · intro t₂ r rhs rv f₀ n f res σm' hroot hrhs hf hrun
    exact C07_byval_write_assign σm σm' t₂ pt r rhs rv _ pty v' f₀ n f res hp hroot hrhs hf hrun
  · intro t₂ r f₀ n f res σm' hroot hf hrun
    exact C07_byval_write_input σm σm' t₂ pt r _ pty v' f₀ n f res hp hroot hf hrun
  · intro t₂ fn fv f₀ f res σm' hfn hf hrun
    exact C07_byval_write_readfile σm σm' t₂ fn pt _ pty v' fv f₀ f res hp hfn hf hrun
  · intro t₂ fn fv f₀ f res σm' hfn hf hrun
    exact C07_byval_write_getrecord σm σm' t₂ fn pt _ pty v' fv f₀ f res hp hfn hf hrun
  · intro t₂ st at' r sr sroot f₀ n m f res σm' hsbase hroot hsroot hf hrun
    exact C07_byval_write_array σm σm' t₂ pt st at' r sr sroot _ pty v' f₀ n m f res hp hsbase hroot hsroot hf hrun
  · intro t₂ start stop step b sv ev f₀ f res σm' hstart hstop hstep hf hrun
    exact C07_byval_write_for σm σm' t₂ pt start stop step b _ pty v' sv ev f₀ f res hp hstart hstop hstep hf hrun
  · intro t₂ at' qn qty ps r es qv vs acc f₀ n f hroot hf
    exact C07_byval_byref_bind σm t₂ pt at' qn qty ps r es qv vs acc _ pty v' f₀ n f hp hroot hf

/-! ## 3. the converse: writes to the source never show in the parameter -/

/-- **C07 (BYVAL: a write to the source — or to anything else — never shows in the parameter).**  `hp`: in the state `σm` (any
    state of the callee's run) `p` is a plain variable of activation `N` holding `w` (at the body's start `w` is the argument
    value, `C07_byval_any_body` (1)).  Then
    (a) any successful `writeLoc` (the only operation that changes a stored value) at a location with a root other than `p` —
        anywhere in the source record, when the callee names it as a global, or reaches it through a BYREF alias or a pointer —
        leaves `p` the variable it was, holding `w`: every path of `p` reads its part of `w`;
    (b) at the level of statements: for any OTHER plain variable `st` of activation `ids` (`hne`: another activation, or another
        name; e.g. the global record `a` whose value was passed, named in the callee), each statement that stores through a
        reference rooted at `st` — assignment, `INPUT`, `GETRECORD fn, st`, `READFILE fn, st`, whole-array assignment —,
        however it ends, leaves every path of `p` reading its part of `w`. -/
theorem C07_byval_source_writes_invisible (σm : St) (pt : Tok) (N : Nat) (pty : Ty) (w : Val)
    (hp : HasVar σm pt.val N pty w) :
    (∀ (t₂ : Tok) (l : Loc) (x : Val) (σm' : St), DiffRoot (varLoc N pt.val) l →
      (writeLoc t₂ l x).run.run σm = (.ok ⟨⟩, σm') →
      HasVar σm' pt.val N pty w ∧ ∀ path, readLocP σm' ⟨N, false, pt.val, path⟩ = pathRead w path) ∧
    (∀ (st : Tok) (ids : Nat) (tys : Ty) (vs : Val), HasVar σm st.val ids tys vs → (N ≠ ids ∨ pt.val ≠ st.val) →
      (∀ (t₂ : Tok) (r : Ref) (rhs : Expr) (rv : Val) (f₀ n f : Nat) (res : Except Stop Val) (σm' : St),
        Rooted (tickSt σm) f₀ st r n → PureAt (tickSt σm) f₀ rhs rv → max f₀ n + 3 ≤ f →
        (execStmt f (.expr (.assign t₂ r rhs))).run.run σm = (res, σm') →
        ∀ path, readLocP σm' ⟨N, false, pt.val, path⟩ = pathRead w path) ∧
      (∀ (t₂ : Tok) (r : Ref) (f₀ n f : Nat) (res : Except Stop Val) (σm' : St),
        Rooted (tickSt σm) f₀ st r n → n + 1 ≤ f →
        (execStmt f (.input t₂ r)).run.run σm = (res, σm') →
        ∀ path, readLocP σm' ⟨N, false, pt.val, path⟩ = pathRead w path) ∧
      (∀ (t₂ : Tok) (fn : Expr) (fv : Val) (f₀ f : Nat) (res : Except Stop Val) (σm' : St),
        PureAt (tickSt σm) f₀ fn fv → f₀ + 2 ≤ f →
        (execStmt f (.getRecord t₂ fn st)).run.run σm = (res, σm') →
        ∀ path, readLocP σm' ⟨N, false, pt.val, path⟩ = pathRead w path) ∧
      (∀ (t₂ : Tok) (fn : Expr) (fv : Val) (f₀ f : Nat) (res : Except Stop Val) (σm' : St),
        PureAt (tickSt σm) f₀ fn fv → f₀ + 2 ≤ f →
        (execStmt f (.readFile t₂ fn st)).run.run σm = (res, σm') →
        ∀ path, readLocP σm' ⟨N, false, pt.val, path⟩ = pathRead w path) ∧
      (∀ (t₂ st₂ at' : Tok) (r sr : Ref) (sroot : Loc) (f₀ n m f : Nat) (res : Except Stop Val) (σm' : St),
        (∀ f, 1 ≤ f → ∃ h0, (resolveRef f (.var st₂)).run.run (tickSt σm) = (.ok h0, tickSt σm) ∧ h0.loc = sroot) →
        Rooted (tickSt σm) f₀ st r n → Rooted (tickSt σm) f₀ st₂ sr m → max n (m + 1) + 3 ≤ f →
        (execStmt f (.expr (.assign t₂ r (.access at' sr)))).run.run σm = (res, σm') →
        ∀ path, readLocP σm' ⟨N, false, pt.val, path⟩ = pathRead w path)) := by
  have hread : ∀ path, readLocP σm ⟨N, false, pt.val, path⟩ = pathRead w path :=
    fun path => readLocP_path σm N false pt.val w path hp.reads
  refine ⟨?_, ?_⟩
  · intro t₂ l x σm' hd hw
    rcases run_writeLoc_cases t₂ l x σm with ⟨e, he⟩ | ⟨nv, hnv⟩
    · rw [he] at hw
      cases hw
    · rw [hnv] at hw
      injection hw with _ h2
      subst h2
      have hp' := hp.write_other l nv hd.symm
      exact ⟨hp', fun path => readLocP_path _ N false pt.val w path hp'.reads⟩
  · intro st ids tys vs hs hne
    have hd : ∀ path, DiffRoot (varLoc ids st.val) ⟨N, false, pt.val, path⟩ :=
      fun path => C07_exec_diffRoot_vars N ids pt.val st.val hne path
    refine ⟨?_, ?_, ?_, ?_, ?_⟩
    · intro t₂ r rhs rv f₀ n f res σm' hroot hrhs hf hrun path
      rw [C07_byval_write_assign σm σm' t₂ st r rhs rv ids tys vs f₀ n f res hs hroot hrhs hf hrun _ (hd path)]
      exact hread path
    · intro t₂ r f₀ n f res σm' hroot hf hrun path
      rw [C07_byval_write_input σm σm' t₂ st r ids tys vs f₀ n f res hs hroot hf hrun _ (hd path)]
      exact hread path
    · intro t₂ fn fv f₀ f res σm' hfn hf hrun path
      rw [C07_byval_write_getrecord σm σm' t₂ fn st ids tys vs fv f₀ f res hs hfn hf hrun _ (hd path)]
      exact hread path
    · intro t₂ fn fv f₀ f res σm' hfn hf hrun path
      rw [C07_byval_write_readfile σm σm' t₂ fn st ids tys vs fv f₀ f res hs hfn hf hrun _ (hd path)]
      exact hread path
    · intro t₂ st₂ at' r sr sroot f₀ n m f res σm' hsbase hroot hsroot hf hrun path
      rw [C07_byval_write_array σm σm' t₂ st st₂ at' r sr sroot ids tys vs f₀ n m f res hs hsbase hroot hsroot hf hrun _ (hd path)]
      exact hread path

/-! ## 4. the caller after the whole call -/

/-- **C07 / C04 (BYVAL from a non-global caller: after the call — ANY body — the caller's record reads exactly what it read
    before).**  `CALL name(args)` of a procedure `pd` (`hpd`) ALL of whose parameters are BYVAL (`hbyval`; needed: a BYREF
    parameter is a legitimate way to change the caller).  The arguments are evaluated in the caller (`hargs`: values `vals`,
    state `σ1` — for variable arguments `σ1 = σ`).  In `σ1` the caller `cur` is the innermost activation (`hcur`) and is NOT the
    global one (`hne`, `hglob`: there are activations below it and the last one has another id; needed: the callee sees the
    global variables, `C07_byval_source_writes_invisible` is the statement for that case); `hbelow`: its id is below the id
    counter.  The state is POINTER-FREE where it matters (this discharges the no-pointer / no-alias hypotheses of
    `C04_frame_byval_call_vars`): the argument values contain no pointer (`hvals`, executable check `ByvalWrites.ptrFree`), and in
    the activations below the caller no variable is a BYREF alias or holds a pointer, no pending RETURN value holds one
    (`hrest`, `ByvalWrites.actPtrFree`; needed: an alias of or pointer into the caller held elsewhere is the other legitimate way
    to reach its cells).  Then, whatever the body does — writes through its parameters by any statement form, same-named
    locals, nested and recursive calls, errors — and however the call ends:
    1. the caller is again the innermost activation, with the same variables and arrays (names, types, values);
    2. EVERY location of the caller's activation reads what it read before the call, and is constant or not as before;
    3. in particular for a record variable `x` of the caller that held `vx` (`HasVar`: e.g. the record that was passed): every
       path under `x` — nested records, array members, their elements — reads the corresponding part of `vx`. -/
theorem C07_byval_local_caller_unchanged (f : Nat) (t : Tok) (name : Str) (args : List Expr) (σ σ1 : St) (pd : ProcDef)
    (vals : List Val) (cur : Act) (rest : List Act)
    (hpd : σ.procs.find? (·.name == name) = some pd)
    (hbyval : ∀ p ∈ pd.params, p.2.2 = false)
    (hargs : (evalArgs f args []).run.run σ = (.ok vals, σ1))
    (hcur : σ1.acts = cur :: rest)
    (hne : rest ≠ [])
    (hglob : ∀ g, rest.getLast? = some g → g.id ≠ cur.id)
    (hbelow : cur.id < σ1.nextId)
    (hvals : ∀ v ∈ vals, ptrFree v = true)
    (hrest : ∀ a ∈ rest, actPtrFree a = true) :
    (∃ c' rest', ((callProc (f+1) t name args).run.run σ).2.acts = c' :: rest' ∧ c'.id = cur.id ∧ c'.vars = cur.vars ∧
      c'.arrs = cur.arrs) ∧
    (∀ l : Loc, l.act = cur.id →
      readLocP ((callProc (f+1) t name args).run.run σ).2 l = readLocP σ1 l ∧
      locConstP ((callProc (f+1) t name args).run.run σ).2 l = locConstP σ1 l) ∧
    (∀ (x : Str) (tx : Ty) (vx : Val), HasVar σ1 x cur.id tx vx →
      ∀ path, readLocP ((callProc (f+1) t name args).run.run σ).2 ⟨cur.id, false, x, path⟩ = pathRead vx path) := by
  obtain ⟨h1, h2⟩ := call_byval_caller_reads f t name args σ σ1 pd vals cur rest hpd hbyval hargs hcur hne hglob hbelow hvals hrest
  refine ⟨h1, h2, fun x tx vx hx path => ?_⟩
  rw [(h2 ⟨cur.id, false, x, path⟩ rfl).1]
  exact readLocP_path σ1 cur.id false x vx path hx.reads

/-! ## 5. the combination -/

/-- **C07 (BYVAL: the parameter is a private copy) — any body, any parameter list, every statement form.**

    Setting: `mk` builds the activation of ANY procedure or function call (fresh id `σ2.nextId`, variables = the slots
    `bindParams` produced from ANY parameter list); `C04.bodySt σ2 callerId t mk` is the state in which the body starts.  `hslot`:
    `p` is a BYVAL parameter of the record type `T` bound to the argument value `.comp T fsa`.  Then
    1. when the body starts, `p` is a plain record variable of the NEW activation holding the argument's value: every path
       under `p` reads the corresponding part of the argument; it is not an alias of the caller's record;
    2. in ANY state `σm` the body reaches (`ActsSk`; 5. says which: after any block run from the body's start, and then after any
       further statement, block or expression — `C07_byval_reachable_step`), `p` is still that variable (holding some `v'`), and
       - every statement form that stores through `p` leaves every location with another root as it is
         (`C07_byval_param_writes_stay`: assignment, INPUT, READFILE, GETRECORD, whole-array assignment, FOR iterator, BYREF
         binding — stated there item by item; here for all seven at once);
    3. conversely in such a state any successful write anywhere else, and any storing statement rooted at another variable (the
       source record named as a global), leaves every path of `p` reading its part of the value `v'` it held
       (`C07_byval_source_writes_invisible`);
    4. in particular at the body's start that value is the argument value;
    5. the states after any block `pre` run from the body's start, however that run ends, are among the states of 2. and 3.

    The caller's state after the whole call: `C07_byval_local_caller_unchanged` (non-global caller) — for a GLOBAL caller the
    callee can name the source record and change it (3. then says the copy does not notice). -/
theorem C07_byval_any_body (σ2 : St) (callerId : Nat) (t : Tok) (mk : Nat → Act) (slots : List Slot) (pt : Tok)
    (T : Str) (fsa : List (Str × Val))
    (hid : (mk σ2.nextId).id = σ2.nextId) (hvars : (mk σ2.nextId).vars = slots)
    (hslot : findSlot slots pt.val = some (byvalSlot pt.val (.comp T) (.comp T fsa))) :
    HasVar (C04.bodySt σ2 callerId t mk) pt.val σ2.nextId (.comp T) (.comp T fsa) ∧
    (∀ p, readLocP (C04.bodySt σ2 callerId t mk) ⟨σ2.nextId, false, pt.val, p⟩ = pathRead (.comp T fsa) p) ∧
    (∀ σm : St, ActsSk (C04.bodySt σ2 callerId t mk).acts σm.acts →
      ∃ v', HasVar σm pt.val σ2.nextId (.comp T) v' ∧
        (∀ path, readLocP σm ⟨σ2.nextId, false, pt.val, path⟩ = pathRead v' path) ∧
        -- writes through `p`: assignment, INPUT, GETRECORD, whole-array assignment
        (∀ (s : Stmt) (f : Nat) (res : Except Stop Val) (σm' : St),
          ((∃ (t₂ : Tok) (r : Ref) (rhs : Expr) (rv : Val) (f₀ n : Nat), s = .expr (.assign t₂ r rhs) ∧
              Rooted (tickSt σm) f₀ pt r n ∧ PureAt (tickSt σm) f₀ rhs rv ∧ max f₀ n + 3 ≤ f) ∨
           (∃ (t₂ : Tok) (r : Ref) (f₀ n : Nat), s = .input t₂ r ∧ Rooted (tickSt σm) f₀ pt r n ∧ n + 1 ≤ f) ∨
           (∃ (t₂ : Tok) (fn : Expr) (fv : Val) (f₀ : Nat), s = .getRecord t₂ fn pt ∧ PureAt (tickSt σm) f₀ fn fv ∧ f₀ + 2 ≤ f) ∨
           (∃ (t₂ : Tok) (fn : Expr) (fv : Val) (f₀ : Nat), s = .readFile t₂ fn pt ∧ PureAt (tickSt σm) f₀ fn fv ∧ f₀ + 2 ≤ f) ∨
           (∃ (t₂ st at' : Tok) (r sr : Ref) (sroot : Loc) (f₀ n m : Nat), s = .expr (.assign t₂ r (.access at' sr)) ∧
              (∀ f, 1 ≤ f → ∃ h0, (resolveRef f (.var st)).run.run (tickSt σm) = (.ok h0, tickSt σm) ∧ h0.loc = sroot) ∧
              Rooted (tickSt σm) f₀ pt r n ∧ Rooted (tickSt σm) f₀ st sr m ∧ max n (m + 1) + 3 ≤ f)) →
          (execStmt f s).run.run σm = (res, σm') →
          ∀ l', DiffRoot (varLoc σ2.nextId pt.val) l' → readLocP σm' l' = readLocP σm l') ∧
        -- writes elsewhere
        (∀ (t₂ : Tok) (l : Loc) (x : Val) (σm' : St), DiffRoot (varLoc σ2.nextId pt.val) l →
          (writeLoc t₂ l x).run.run σm = (.ok ⟨⟩, σm') →
          HasVar σm' pt.val σ2.nextId (.comp T) v' ∧ ∀ path, readLocP σm' ⟨σ2.nextId, false, pt.val, path⟩ = pathRead v' path)) ∧
    (∀ (f₁ : Nat) (pre : Block) (res : Except Stop Unit) (σm : St),
      (runBlock f₁ pre).run.run (C04.bodySt σ2 callerId t mk) = (res, σm) →
      ActsSk (C04.bodySt σ2 callerId t mk).acts σm.acts) := by
  obtain ⟨h1, h2⟩ := C07.byval_param_var σ2 callerId t mk slots pt (.comp T) (.comp T fsa) hid hvars hslot
  rw [implicitCast_comp] at h1
  refine ⟨h1, fun p => readLocP_path _ σ2.nextId false pt.val _ p h1.reads, fun σm hsk => ?_, fun f₁ pre res σm hrun => ?_⟩
  rotate_left
  · have h := block_run_sk f₁ pre (C04.bodySt σ2 callerId t mk)
    rw [hrun] at h
    exact h
  obtain ⟨v', hp⟩ := h2 σm hsk
  refine ⟨v', hp, fun path => readLocP_path σm σ2.nextId false pt.val v' path hp.reads, ?_,
    (C07_byval_source_writes_invisible σm pt σ2.nextId (.comp T) v' hp).1⟩
  intro s f res σm' hs hrun
  rcases hs with ⟨t₂, r, rhs, rv, f₀, n, rfl, hroot, hrhs, hf⟩ | ⟨t₂, r, f₀, n, rfl, hroot, hf⟩ |
    ⟨t₂, fn, fv, f₀, rfl, hfn, hf⟩ | ⟨t₂, fn, fv, f₀, rfl, hfn, hf⟩ | ⟨t₂, st, at', r, sr, sroot, f₀, n, m, rfl, hsbase, hroot, hsroot, hf⟩
  · exact C07_byval_write_assign σm σm' t₂ pt r rhs rv _ _ v' f₀ n f res hp hroot hrhs hf hrun
  · exact C07_byval_write_input σm σm' t₂ pt r _ _ v' f₀ n f res hp hroot hf hrun
  · exact C07_byval_write_getrecord σm σm' t₂ fn pt _ _ v' fv f₀ f res hp hfn hf hrun
  · exact C07_byval_write_readfile σm σm' t₂ fn pt _ _ v' fv f₀ f res hp hfn hf hrun
  · exact C07_byval_write_array σm σm' t₂ pt st at' r sr sroot _ _ v' f₀ n m f res hp hsbase hroot hsroot hf hrun

/-- **… tied to a real call.**  `CALL name(args)` of the procedure `pd` (`hpd`) in state `σ`; the call prefix as in
    `CallLemmas.run_callProc` (`hargs` … `hbind`: the arguments evaluate to `vals` leaving `σ1`, they bind to `slots` leaving
    `σ2`; for variable arguments and BYVAL parameters `σ1 = σ2 = σ`, `C04_exec_bind_byval_all`); `hslot`: among the bound cells
    the name `p` is a BYVAL record parameter holding the argument value.  Then the call IS the run of the body `pd.body` in
    the state `C04.bodySt σ2 cur.id t (procAct pd slots)` (followed by the removal of the new activation, `procResult`), so
    everything `C07_byval_any_body` / `C07_byval_param_writes_stay` / `C07_byval_source_writes_invisible` say about that state
    and the states reached from it is about this call; in particular `p` starts as a plain variable of the new activation
    reading the argument value at every path, and in the state in which the body's run ends — however it ends — `p` is still
    that plain variable. -/
theorem C07_byval_any_body_call (f : Nat) (t : Tok) (name : Str) (args : List Expr) (σ σ1 σ2 : St) (pd : ProcDef)
    (vals : List Val) (cur : Act) (rest : List Act) (slots : List Slot) (pt : Tok) (T : Str) (fsa : List (Str × Val))
    (hpd : σ.procs.find? (·.name == name) = some pd)
    (hargs : (evalArgs f args []).run.run σ = (.ok vals, σ1))
    (hlen : vals.length = pd.params.length)
    (hdepth : σ1.depth + 1 ≤ σ1.depthLimit)
    (hcur : σ1.acts = cur :: rest)
    (hbind : (bindParams f t pd.params args vals []).run.run σ1 = (.ok slots, σ2))
    (hslot : findSlot slots pt.val = some (byvalSlot pt.val (.comp T) (.comp T fsa))) :
    (callProc (f+1) t name args).run.run σ =
      procResult cur.id ((runBlock f pd.body).run.run (C04.bodySt σ2 cur.id t (procAct pd slots))) ∧
    HasVar (C04.bodySt σ2 cur.id t (procAct pd slots)) pt.val σ2.nextId (.comp T) (.comp T fsa) ∧
    (∀ p, readLocP (C04.bodySt σ2 cur.id t (procAct pd slots)) ⟨σ2.nextId, false, pt.val, p⟩ = pathRead (.comp T fsa) p) ∧
    (∃ v', HasVar ((runBlock f pd.body).run.run (C04.bodySt σ2 cur.id t (procAct pd slots))).2 pt.val σ2.nextId (.comp T) v') := by
  obtain ⟨h1, h2, h3, h4⟩ := C07_byval_any_body σ2 cur.id t (procAct pd slots) slots pt T fsa rfl rfl hslot
  refine ⟨run_callProc f t name args σ σ1 σ2 pd vals cur rest slots hpd hargs hlen hdepth hcur hbind, h1, h2, ?_⟩
  obtain ⟨v', hv, _⟩ := h3 _ (h4 f pd.body _ _ rfl)
  exact ⟨v', hv⟩


/-! ## non-vacuity

The state of `C07ReturnEx.exSt2` (record type `R` = `{f : INTEGER, g : Inner, xs : ARRAY[1:3] OF INTEGER}`; globals
`a = {f: 1, g: {h: 2}, xs: [10, 20, 30]}`, `b` at its default value, `x = 5`) with the two procedures
```
PROCEDURE Bump(BYREF q : INTEGER)            PROCEDURE P3(p : R, k : INTEGER, p2 : R)      // all BYVAL
    q <- q + 100                                 INPUT p.f
ENDPROCEDURE                                     FOR k <- 1 TO 3
                                                     p.xs[k] <- k * 7
                                                 NEXT k
                                                 CALL Bump(p.g.h)
                                                 a.f <- 77                                 // the global source record
                                                 p2.xs <- p.xs                             // whole-array assignment
                                             ENDPROCEDURE
```
and the input line `42`.  `P3` has two BYVAL record parameters and one BYVAL INTEGER; its body INPUTs into a field, runs a FOR
whose iterator is the INTEGER parameter (the iterator of FOR is a name), passes a field BYREF to `Bump`, assigns to the global
source record and copies an array member.  `B3` is the state in which the body of `CALL P3(a, x, b)` starts. -/
namespace C07ByvalEx
open C07ExecEx C07ReturnEx

def fld (r : Ref) (m : String) : Ref := .field (tk ".") r (tk m)
def pv (s : String) : Ref := .var (tk s)
def acc (r : Ref) : Expr := .access (tk "acc") r

def inputSt : Stmt := .input (tk "INPUT" 2 1) (fld (pv "p") "f")
def forBody : Block :=
  [.expr (.assign (tk "<-" 4 9) (.index (tk "[") (fld (pv "p") "xs") [var "k"]) (.arith (tk "*") .mul (var "k") (lit 7)))]
def forSt : Stmt := .for (tk "FOR" 3 1) (tk "k") (lit 1) (lit 3) none forBody
def callSt : Stmt := .call (tk "CALL" 6 1) "Bump".toList [acc (fld (fld (pv "p") "g") "h")]
def srcSt : Stmt := .expr (.assign (tk "<-" 7 5) (fld (pv "a") "f") (lit 77))
def arrSt : Stmt := .expr (.assign (tk "<-" 8 7) (fld (pv "p2") "xs") (acc (fld (pv "p") "xs")))
def p3Body : Block := [inputSt, forSt, callSt, srcSt, arrSt]

def procBump : ProcDef :=
  { name := "Bump".toList, params := [("q".toList, .int, true)],
    body := [.expr (.assign (tk "<-" 2 3) (pv "q") (.arith (tk "+") .add (var "q") (lit 100)))] }
def procP3 : ProcDef :=
  { name := "P3".toList, params := [("p".toList, .comp "R".toList, false), ("k".toList, .int, false), ("p2".toList, .comp "R".toList, false)],
    body := p3Body }
def exSt3 : St := { exSt2 with procs := [procBump, procP3], stdin := "42\n".toList }
def slotsP3 : List Slot :=
  [byvalSlot "p".toList (.comp "R".toList) recA, byvalSlot "k".toList .int (.int 5), byvalSlot "p2".toList (.comp "R".toList) rec0]
def B3 : St := C04.bodySt exSt3 0 callT (procAct procP3 slotsP3)
def afterP3 : St := ((runBlock 40 p3Body).run.run B3).2
def locP (p : List Step) : Loc := ⟨1, false, "p".toList, p⟩
def locP2 (p : List Step) : Loc := ⟨1, false, "p2".toList, p⟩

/-- the model, checked by the kernel: the body of `P3` run from its start state ends normally; in the callee `p.f = 42` (INPUT),
    `p.xs = [7, 14, 21]` (FOR over the parameter `k`, which ends at 4), `p.g.h = 102` (written by `Bump` through the BYREF alias),
    `p2.xs = [7, 14, 21]` (whole-array assignment); the global `a` — whose value `p` got — shows only the body's own assignment
    `a.f <- 77` (`g.h = 2`, `xs[1] = 10` as before), and `b` — whose value `p2` got — nothing -/
example : isOk ((runBlock 40 p3Body).run.run B3).1 = true := by decide +kernel
example : (readsInt afterP3 (locP [F "f"]) 42 && readsInt afterP3 (locP [F "xs", .idx 0]) 7 && readsInt afterP3 (locP [F "xs", .idx 2]) 21 &&
  readsInt afterP3 (locP [F "g", F "h"]) 102 && readsInt afterP3 (locP2 [F "xs", .idx 1]) 14 && readsInt afterP3 (locA [F "f"]) 77 &&
  readsInt afterP3 (locA [F "g", F "h"]) 2 && readsInt afterP3 (locA [F "xs", .idx 0]) 10 && readsInt afterP3 (locB [F "xs", .idx 1]) 0 &&
  readsInt afterP3 ⟨1, false, "k".toList, []⟩ 4) = true := by decide +kernel

/-- … and the whole call `CALL P3(a, x, b)` from the global activation: afterwards `a.f = 77` (the body assigned the global),
    everything else of `a` and all of `b` as before, one activation left -/
def afterCall : St := ((callProc 50 callT "P3".toList [var "a", var "x", var "b"]).run.run exSt3).2
example : isOk ((callProc 50 callT "P3".toList [var "a", var "x", var "b"]).run.run exSt3).1 = true := by decide +kernel
example : (readsInt afterCall (locA [F "f"]) 77 && readsInt afterCall (locA [F "g", F "h"]) 2 && readsInt afterCall (locA [F "xs", .idx 0]) 10 &&
  readsInt afterCall (locB [F "xs", .idx 1]) 0 && readsInt afterCall (locB [F "f"]) 0 && afterCall.acts.length == 1) = true := by
  decide +kernel

/-! ### from the theorems -/

/-- the hypotheses of `C07_byval_any_body` hold for BOTH record parameters of `P3` (first and third of three); at the body's
    start `INPUT p.f`, however it ends, leaves every path of the global `a` (the source of `p`) and of the other parameter `p2`
    as it is -/
example : ∀ (res : Except Stop Val) (σ' : St), (execStmt 9 inputSt).run.run B3 = (res, σ') →
    ∀ path, readLocP σ' (locA path) = readLocP B3 (locA path) ∧ readLocP σ' (locP2 path) = readLocP B3 (locP2 path) := by
  intro res σ' hrun path
  obtain ⟨_, _, h3, _⟩ := C07_byval_any_body exSt3 0 callT (procAct procP3 slotsP3) slotsP3 (tk "p") "R".toList fieldsA rfl rfl rfl
  obtain ⟨v', _, _, hw, _⟩ := h3 B3 (ActsSk.refl _)
  have hk := hw inputSt 9 res σ' (.inr (.inl ⟨_, _, 1, 2, rfl, .field _ _ .var, by decide⟩)) hrun
  exact ⟨hk _ (.inl (show (0 : Nat) ≠ 1 by decide)), hk _ (.inr (.inr (show "p2".toList ≠ "p".toList by decide)))⟩

example : HasVar B3 (tk "p2").val 1 (.comp "R".toList) rec0 ∧ (∀ p, readLocP B3 (locP2 p) = pathRead rec0 p) := by
  obtain ⟨h1, h2, _, _⟩ := C07_byval_any_body exSt3 0 callT (procAct procP3 slotsP3) slotsP3 (tk "p2") "R".toList fields0 rfl rfl rfl
  exact ⟨h1, h2⟩

theorem hpre3 : ∃ u σm, (runBlock 30 [inputSt]).run.run B3 = (.ok u, σm) := run_of_isOk _ (by decide +kernel)

/-- after `INPUT p.f` the statement `FOR k <- 1 TO 3 …` (iterator = the BYVAL INTEGER parameter `k`): all hypotheses of item 6 of
    `C07_byval_param_writes_stay` hold; the statement's own steps are ticks, writes to `k` and runs of its body, and `p`, `k`
    are afterwards still the plain variables of activation 1 they were -/
example : ∃ σm, (runBlock 30 [inputSt]).run.run B3 = (.ok ⟨⟩, σm) ∧
    ∀ (res : Except Stop Val) (σm' : St), (execStmt 20 forSt).run.run σm = (res, σm') →
      ForRun (varLoc 1 "k".toList) 20 forBody σm σm' ∧ ∃ v', HasVar σm' (tk "p").val 1 (.comp "R".toList) v' := by
  obtain ⟨u, σm, hrun⟩ := hpre3
  have hsk : ActsSk B3.acts σm.acts := by
    have h := block_run_sk 30 [inputSt] B3
    rw [hrun] at h
    exact h
  obtain ⟨_, _, _, _, _, _, _, hfor, _⟩ :=
    C07_byval_param_writes_stay exSt3 0 callT (procAct procP3 slotsP3) slotsP3 (tk "k") .int (.int 5) rfl rfl rfl σm hsk
  refine ⟨σm, hrun, fun res σm' hst => ?_⟩
  obtain ⟨h1, h2, _⟩ := hfor (tk "FOR" 3 1) (lit 1) (lit 3) none forBody (.int 1) (.int 3) 1 20 res σm' (pureAt_intLit _ _ 1)
    (pureAt_intLit _ _ 3) (fun se hse => by cases hse) (by decide) hst
  exact ⟨h1, (C07.byval_param_var exSt3 0 callT (procAct procP3 slotsP3) slotsP3 (tk "p") (.comp "R".toList) recA rfl rfl rfl).2 σm'
    (hsk.trans h2)⟩

/-- `CALL Bump(p.g.h)`: the binding of the BYREF parameter `q` to the argument `p.g.h` (item 7); in the model (kernel) it
    succeeds and the alias is the location `p.g.h` of activation 1 — the callee's, not a location of the global `a` -/
example : (∃ e, (bindParams 6 callT [("q".toList, .int, true)] [acc (fld (fld (pv "p") "g") "h")] [.int 2] []).run.run B3 = (.error e, B3)) ∨
    (∃ h, SameRoot (varLoc 1 "p".toList) h.loc ∧ h.loc.act = 1 ∧ h.isArr = false ∧ h.ty = .int ∧
      (bindParams 6 callT [("q".toList, .int, true)] [acc (fld (fld (pv "p") "g") "h")] [.int 2] []).run.run B3 =
        (bindParams 5 callT [] [] [] [byrefSlot "q".toList h (locConstP B3 h.loc)]).run.run B3) := by
  obtain ⟨_, _, _, _, _, _, _, _, hb⟩ :=
    C07_byval_param_writes_stay exSt3 0 callT (procAct procP3 slotsP3) slotsP3 (tk "p") (.comp "R".toList) recA rfl rfl rfl B3 (ActsSk.refl _)
  exact hb callT (tk "acc") "q".toList .int [] _ [] (.int 2) [] [] 1 3 5 (.field _ _ (.field _ _ .var)) (by decide)
example : (match ((bindParams 6 callT [("q".toList, .int, true)] [acc (fld (fld (pv "p") "g") "h")] [.int 2] []).run.run B3).1 with
    | .ok [s] => decide (s.ref = some (locP [F "g", F "h"]))
    | _ => false) = true := by decide +kernel

/-- inside `Bump`: its activation (id 2) has `q` as an alias of `p.g.h` of activation 1; the hypotheses of
    `C07_byval_byref_writes_stay` hold; an assignment to `q` leaves every path of the global `a` as it is -/
def hq : Holder := { loc := locP [F "g", F "h"], isArr := false, ty := .int, name := "h".toList }
def BQ : St := C04.bodySt B3 1 (tk "CALL" 6 1) (procAct procBump [byrefSlot "q".toList hq false])
example : ∀ (res : Except Stop Val) (σ' : St),
    (execStmt 9 (.expr (.assign (tk "<-") (pv "q") (lit 100)))).run.run BQ = (res, σ') →
    ∀ path, readLocP σ' (locA path) = readLocP BQ (locA path) := by
  intro res σ' hrun path
  obtain ⟨h1, _⟩ := C07_byval_byref_writes_stay B3 1 (tk "CALL" 6 1) (procAct procBump [byrefSlot "q".toList hq false]) _ (tk "q") hq false
    1 "p".toList rfl rfl ⟨rfl, rfl, rfl⟩
  obtain ⟨_, hw, _⟩ := h1 BQ (ByvalRefSk.ActsSk.refl _)
  exact hw (tk "<-") _ (lit 100) (.int 100) 1 1 9 res σ' .var (pureAt_intLit _ _ 100) (by decide) hrun _
    (.inl (show (0 : Nat) ≠ 1 by decide))
/-- the model: `Bump`'s real body `q <- q + 100` run in that state changes `p.g.h` of activation 1 to 102, `a.g.h` stays 2 -/
example : (let σ' := ((runBlock 20 procBump.body).run.run BQ).2
    readsInt σ' (locP [F "g", F "h"]) 102 && readsInt σ' (locA [F "g", F "h"]) 2) = true := by decide +kernel

/-- the converse (`C07_byval_source_writes_invisible`): at the body's start the callee's assignment `a.f <- 77` to the global
    source record, however it ends, leaves every path of `p` reading its part of the argument value -/
example : ∀ (res : Except Stop Val) (σ' : St), (execStmt 9 srcSt).run.run B3 = (res, σ') →
    ∀ path, readLocP σ' (locP path) = pathRead recA path := by
  intro res σ' hrun path
  obtain ⟨h1, _, _, _⟩ := C07_byval_any_body exSt3 0 callT (procAct procP3 slotsP3) slotsP3 (tk "p") "R".toList fieldsA rfl rfl rfl
  have ha : HasVar B3 (tk "a").val 0 (.comp "R".toList) recA := ⟨rfl, rfl, rfl⟩
  obtain ⟨hs, _⟩ := (C07_byval_source_writes_invisible B3 (tk "p") 1 (.comp "R".toList) recA h1).2 (tk "a") 0 _ _ ha
    (.inl (show (1 : Nat) ≠ 0 by decide))
  exact hs (tk "<-" 7 5) _ (lit 77) (.int 77) 1 2 9 res σ' (.field _ _ .var) (pureAt_intLit _ _ 77) (by decide) hrun path

/-! ### a non-global caller: `Main` (activation 1) with the local record `r` calls `P3(r, n, r)` -/

def mainA : Act :=
  { id := 1, name := "Main".toList,
    vars := [{ name := "r".toList, ty := .comp "R".toList, val := recA }, { name := "n".toList, ty := .int, val := .int 3 }] }
def exSt4 : St := { exSt3 with acts := [mainA, glob2], nextId := 2 }
def args4 : List Expr := [var "r", var "n", var "r"]

theorem hargs4 : (evalArgs 49 args4 []).run.run exSt4 = (.ok [recA, .int 3, recA], exSt4) := by
  have h := run_evalArgs_pure exSt4 2 args4 [recA, .int 3, recA] [] 49
    ⟨pureAt_var exSt4 mainA glob2 [glob2] (tk "r") (tk "r") mainA _ recA rfl rfl rfl rfl,
     pureAt_var exSt4 mainA glob2 [glob2] (tk "n") (tk "n") mainA _ (.int 3) rfl rfl rfl rfl,
     pureAt_var exSt4 mainA glob2 [glob2] (tk "r") (tk "r") mainA _ recA rfl rfl rfl rfl, trivial⟩ (by decide)
  exact h

/-- all hypotheses of `C07_byval_local_caller_unchanged` hold: after `CALL P3(r, n, r)` (the body INPUTs into `p.f`, loops over `k`,
    passes `p.g.h` BYREF, assigns a global, copies an array) every path of the caller's record `r` reads its part of the value it
    had, and `n` is still 3 -/
example : (∀ path, readLocP ((callProc 50 callT "P3".toList args4).run.run exSt4).2 ⟨1, false, "r".toList, path⟩ = pathRead recA path) ∧
    readLocP ((callProc 50 callT "P3".toList args4).run.run exSt4).2 ⟨1, false, "n".toList, []⟩ = .ok (.int 3) := by
  obtain ⟨_, h2, h3⟩ := C07_byval_local_caller_unchanged 49 callT "P3".toList args4 exSt4 exSt4 procP3 [recA, .int 3, recA] mainA [glob2]
    rfl (by decide) hargs4 rfl (List.cons_ne_nil _ _) (by intro g hg; cases hg; decide) (by decide)
    (by decide +kernel) (by decide +kernel)
  exact ⟨h3 "r".toList _ recA ⟨rfl, rfl, rfl⟩, (h2 ⟨1, false, "n".toList, []⟩ rfl).1⟩
/-- the model: that call ends normally (so the body did run: the global `a.f` is 77 afterwards) -/
example : (isOk ((callProc 50 callT "P3".toList args4).run.run exSt4).1 &&
    readsInt ((callProc 50 callT "P3".toList args4).run.run exSt4).2 (locA [F "f"]) 77 &&
    readsInt ((callProc 50 callT "P3".toList args4).run.run exSt4).2 ⟨1, false, "r".toList, [F "f"]⟩ 1) = true := by decide +kernel

/-! ### the whole program through lexer, parser and evaluator -/

example : (runFile {} ("TYPE Inner\nDECLARE h : INTEGER\nENDTYPE\nTYPE R\nDECLARE f : INTEGER\nDECLARE g : Inner\n" ++
    "DECLARE xs : ARRAY[1:3] OF INTEGER\nENDTYPE\nDECLARE a, b : R\na.f <- 1\na.g.h <- 2\na.xs[3] <- 30\n" ++
    "PROCEDURE Bump(BYREF q : INTEGER)\nq <- q + 100\nENDPROCEDURE\n" ++
    "PROCEDURE P3(p : R, k : INTEGER, p2 : R)\nINPUT p.f\nFOR k <- 1 TO 3\np.xs[k] <- k * 7\nNEXT k\nCALL Bump(p.g.h)\n" ++
    "a.f <- 77\np2.xs <- p.xs\nOUTPUT p.f, \" \", p.xs[3], \" \", p.g.h, \" \", p2.xs[2], \" \", k\nENDPROCEDURE\n" ++
    "CALL P3(a, 5, b)\nOUTPUT a.f, \" \", a.xs[3], \" \", a.g.h, \" \", b.xs[2]\n").toList [] "42\n".toList).out
    = "42 21 102 14 4\n77 30 2 0\n".toList := by decide +kernel

/-! ### the call `CALL P3(a, x, b)` itself, READFILE / GETRECORD -/

theorem hargs3 : (evalArgs 49 [var "a", var "x", var "b"] []).run.run exSt3 = (.ok [recA, .int 5, rec0], exSt3) := by
  have ha : HasVar exSt3 (tk "a").val 0 (.comp "R".toList) recA := ⟨rfl, rfl, rfl⟩
  have hb : HasVar exSt3 (tk "b").val 0 (.comp "R".toList) rec0 := ⟨rfl, rfl, rfl⟩
  have hx : HasVar exSt3 (tk "x").val 0 .int (.int 5) := ⟨rfl, rfl, rfl⟩
  have h := run_evalArgs_pure exSt3 2 [var "a", var "x", var "b"] [recA, .int 5, rec0] [] 49
    ⟨pureAt_hasVar (tk "a") (tk "a") ha, pureAt_hasVar (tk "x") (tk "x") hx, pureAt_hasVar (tk "b") (tk "b") hb, trivial⟩ (by decide)
  exact h
theorem hbind3 : (bindParams 49 callT procP3.params [var "a", var "x", var "b"] [recA, .int 5, rec0] []).run.run exSt3 =
    (.ok slotsP3, exSt3) :=
  C04_exec_bind_byval_all callT procP3.params [var "a", var "x", var "b"] [recA, .int 5, rec0] [] 49 exSt3
    ⟨rfl, rfl, rfl, rfl, rfl, rfl, trivial⟩ rfl (by decide)

/-- all hypotheses of `C07_byval_any_body_call` hold for `CALL P3(a, x, b)`: the call is the run of `p3Body` from `B3` -/
example : (callProc 50 callT "P3".toList [var "a", var "x", var "b"]).run.run exSt3 = procResult 0 ((runBlock 49 p3Body).run.run B3) ∧
    ∃ v', HasVar ((runBlock 49 p3Body).run.run B3).2 (tk "p").val 1 (.comp "R".toList) v' := by
  obtain ⟨h1, _, _, h4⟩ := C07_byval_any_body_call 49 callT "P3".toList [var "a", var "x", var "b"] exSt3 exSt3 exSt3 procP3
    [recA, .int 5, rec0] glob2 [] slotsP3 (tk "p") "R".toList fieldsA rfl hargs3 rfl (by decide) rfl hbind3 rfl
  exact ⟨h1, h4⟩

/-- `GETRECORD "d.bin", p` and `READFILE "t.txt", p` at the body's start: the hypotheses of items 3 and 4 hold (the file-name
    literal is pure); however the statements end (here: the files are not open), `a` is untouched -/
example : ∀ (s : Stmt), s = .getRecord (tk "GETRECORD") (.strLit (tk "s") "d.bin".toList) (tk "p") ∨
      s = .readFile (tk "READFILE") (.strLit (tk "s") "t.txt".toList) (tk "p") →
    ∀ (res : Except Stop Val) (σ' : St), (execStmt 9 s).run.run B3 = (res, σ') →
    ∀ path, readLocP σ' (locA path) = readLocP B3 (locA path) := by
  intro s hs res σ' hrun path
  obtain ⟨_, _, h3, _⟩ := C07_byval_any_body exSt3 0 callT (procAct procP3 slotsP3) slotsP3 (tk "p") "R".toList fieldsA rfl rfl rfl
  obtain ⟨v', _, _, hw, _⟩ := h3 B3 (ActsSk.refl _)
  refine hw s 9 res σ' ?_ hrun _ (.inl (show (0 : Nat) ≠ 1 by decide))
  rcases hs with rfl | rfl
  · exact .inr (.inr (.inl ⟨_, _, _, 1, rfl, RejectLemmas.pureAt_strLit _ _ _, by decide⟩))
  · exact .inr (.inr (.inr (.inl ⟨_, _, _, 1, rfl, RejectLemmas.pureAt_strLit _ _ _, by decide⟩)))

/-- whole programs (lexer, parser, evaluator; kernel): `GETRECORD` into a BYVAL record parameter replaces the callee's copy by the
    stored record (`1 8`) and leaves the caller's record (`9 3`) alone; `READFILE` into a BYVAL STRING parameter likewise -/
example : (runFile {} ("TYPE R\nDECLARE f : INTEGER\nDECLARE xs : ARRAY[1:2] OF INTEGER\nENDTYPE\nDECLARE a : R\na.f <- 1\na.xs[2] <- 8\n" ++
    "OPENFILE \"d.bin\" FOR RANDOM\nSEEK \"d.bin\", 1\nPUTRECORD \"d.bin\", a\n" ++
    "PROCEDURE G(p : R)\np.f <- 5\np.xs[2] <- 6\nSEEK \"d.bin\", 1\nGETRECORD \"d.bin\", p\n" ++
    "OUTPUT p.f, \" \", p.xs[2], \" \", a.f, \" \", a.xs[2]\nENDPROCEDURE\n" ++
    "a.f <- 9\na.xs[2] <- 3\nCALL G(a)\nOUTPUT a.f, \" \", a.xs[2]\nCLOSEFILE \"d.bin\"\n").toList [] []).out
    = "1 8 9 3\n9 3\n".toList := by decide +kernel
example : (runFile {} ("OPENFILE \"t.txt\" FOR WRITE\nWRITEFILE \"t.txt\", \"hello\"\nCLOSEFILE \"t.txt\"\nOPENFILE \"t.txt\" FOR READ\n" ++
    "DECLARE s : STRING\ns <- \"orig\"\nPROCEDURE Rd(q : STRING)\nREADFILE \"t.txt\", q\nOUTPUT q, \" \", s\nENDPROCEDURE\n" ++
    "CALL Rd(s)\nOUTPUT s\nCLOSEFILE \"t.txt\"\n").toList [] []).out = "hello orig\norig\n".toList := by decide +kernel

end C07ByvalEx

end Pseudo
