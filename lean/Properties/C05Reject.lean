import PseudoProofs.RejectLemmas
/-!
# C05 — the rejection clause on runs of the evaluator, for every store channel

`Properties/C05.lean` has the compatibility table on the pure layer, `Properties/C05Store.lean` the typed-store invariant.
This file states, for each store channel, what a run of the evaluator (`PseudoModel/Eval.lean`) does when the value to
be stored is NOT compatible with the type of the target (`storeCompatible ty v = false`, i.e. the implicit cast of `v`
to `ty` does not have the type `ty`): the run ends with a runtime diagnostic and nothing is stored.

Channels: 1. assignment (`C05_reject_assign…`, positive half `C05_accept_assign`), target a variable / array element /
record field / dereferenced pointer; 2. BYVAL argument (`C05_reject_byval…`); 3. BYREF argument (`C05_reject_byref…`);
4. RETURN (`C05_reject_return…`); 5. INPUT (`C05_input_…`, `C05_reject_input`); 6. the table `C05_reject_table`.

Conventions: `ArrayLemmas.PureAt σ f₀ e v` — with every fuel `≥ f₀` the expression `e` evaluates in `σ` to `v` and
leaves `σ` as it is; `RejectLemmas.ResolvesAt σ f₀ r h` — the same for a reference `r` and the holder `h` it resolves
to.  `rtDiag σ line col msg` is the runtime diagnostic raised in state `σ` at that position (it carries the traceback
of `σ`).  `tickSt σ` is `σ` with the statement counter `steps` increased by one — no other field differs.
"The type of the target" is `h.ty`: the declared type of a variable or array (element), the type of the current value
of a record member or of the target of a pointer (these coincide under the typed-store invariant of `C05Store`).
-/
namespace Pseudo

open ArrayLemmas C07Copy CallLemmas RecordLemmas RejectLemmas

/-! ## 1. assignment -/

/-- **C05, rejected assignment (most general form).**  `r <- rhs` where the right-hand side evaluates to `v` — leaving
    the state `σ1` (it may have an effect, e.g. a function call; for a pure right-hand side `σ1 = σ`) —, the target
    then resolves without effect to the non-array holder `h` whose root is not a constant, and `v` is not compatible
    with the type of the target.  Then the assignment ends with the runtime diagnostic `typeMismatch` at the
    assignment token and the final state is exactly `σ1`: nothing is written.
    Hypotheses: `hacts` — there is a current activation (always so in a run); `harr` — the target is not a whole array
    (that is `arrayDirect`); `hconst` — the target is not a constant (that is `constAssign`, `C05_reject_assign_const`). -/
theorem C05_reject_assign_eval (σ σ1 : St) (t : Tok) (r : Ref) (rhs : Expr) (v : Val) (h : Holder) (f : Nat)
    (hacts : σ.acts ≠ []) (hrhs : (evalExpr f rhs).run.run σ = (.ok v, σ1))
    (hr : (resolveRef f r).run.run σ1 = (.ok h, σ1)) (harr : h.isArr = false)
    (hconst : locConstP σ1 h.loc = false) (hbad : storeCompatible h.ty v = false) :
    (execAssign (f+1) t r rhs).run.run σ = (.error (.diag (rtDiag σ1 t.line t.col .typeMismatch)), σ1) := by
  rw [run_execAssign_checked σ σ1 t r rhs v h f hacts hrhs hr harr]
  have hne : ((implicitCast h.ty v).ty != h.ty) = true := by
    have := (storeCompatible_false_iff h.ty v).1 hbad
    simpa using this
  simp only [hconst, Bool.false_eq_true, if_false, hne, if_true]
  exact run_rtErr t .typeMismatch σ1

/-- a constant target: `constAssign`, whatever the value; nothing is written -/
theorem C05_reject_assign_const (σ σ1 : St) (t : Tok) (r : Ref) (rhs : Expr) (v : Val) (h : Holder) (f : Nat)
    (hacts : σ.acts ≠ []) (hrhs : (evalExpr f rhs).run.run σ = (.ok v, σ1))
    (hr : (resolveRef f r).run.run σ1 = (.ok h, σ1)) (harr : h.isArr = false)
    (hconst : locConstP σ1 h.loc = true) :
    (execAssign (f+1) t r rhs).run.run σ = (.error (.diag (rtDiag σ1 t.line t.col .constAssign)), σ1) := by
  rw [run_execAssign_checked σ σ1 t r rhs v h f hacts hrhs hr harr]
  simp only [hconst, if_true]
  exact run_rtErr t .constAssign σ1

/-- **C05, rejected assignment, as an expression** (`execAssign`; pure right-hand side, target resolving without
    effect): `typeMismatch` at the assignment token, the final state IS the start state. -/
theorem C05_reject_assign_expr (σ : St) (t : Tok) (r : Ref) (rhs : Expr) (v : Val) (h : Holder) (f₀ f : Nat)
    (hacts : σ.acts ≠ []) (hrhs : PureAt σ f₀ rhs v) (hr : ResolvesAt σ f₀ r h) (harr : h.isArr = false)
    (hconst : locConstP σ h.loc = false) (hbad : storeCompatible h.ty v = false) (hf : f₀ + 1 ≤ f) :
    (execAssign f t r rhs).run.run σ = (.error (.diag (rtDiag σ t.line t.col .typeMismatch)), σ) := by
  obtain ⟨f', rfl⟩ : ∃ f', f = f' + 1 := ⟨f - 1, by omega⟩
  exact C05_reject_assign_eval σ σ t r rhs v h f' hacts (hrhs f' (by omega)) (hr f' (by omega)) harr hconst hbad

/-- **C05, rejected assignment (the statement `r <- e`).**  `r` resolves — state unchanged — to a non-array,
    non-constant holder of type `h.ty`; `e` evaluates purely to `v`; `storeCompatible h.ty v = false`.  Then the
    statement ends with the runtime diagnostic `typeMismatch` at the assignment token, and the final state is
    `tickSt σ`: the start state with the statement counter `steps` increased by one and NO other field changed
    (spelled out: activations — hence every variable, array, constant —, `nextId`, procedures, functions, files,
    handles, input, output, modes, limits, depth).  In particular `readLocP` of the target and of every other location
    is what it was, and so is which locations are constants.
    Hypotheses: `hsteps` — the step budget is not exhausted (otherwise the statement ends with `budget` before anything
    else); `hacts` — there is a current activation; the purity hypotheses are about the state after the tick (literals
    and variables: `pureAt_intLit`, `pureAt_hasVar` with `HasVar.tick`); `harr`, `hconst` as in `C05_reject_assign_eval`. -/
theorem C05_reject_assign (σ : St) (t : Tok) (r : Ref) (rhs : Expr) (v : Val) (h : Holder) (f₀ f : Nat)
    (hsteps : σ.steps + 1 ≤ σ.stepLimit) (hacts : σ.acts ≠ [])
    (hrhs : PureAt (tickSt σ) f₀ rhs v) (hr : ResolvesAt (tickSt σ) f₀ r h) (harr : h.isArr = false)
    (hconst : locConstP σ h.loc = false) (hbad : storeCompatible h.ty v = false) (hf : f₀ + 3 ≤ f) :
    (execStmt f (.expr (.assign t r rhs))).run.run σ =
      (.error (.diag (rtDiag σ t.line t.col .typeMismatch)), tickSt σ) ∧
    tickSt σ = { σ with steps := σ.steps + 1 } ∧
    (∀ l, readLocP (tickSt σ) l = readLocP σ l) ∧ (∀ l, locConstP (tickSt σ) l = locConstP σ l) := by
  refine ⟨?_, rfl, fun _ => rfl, fun _ => rfl⟩
  obtain ⟨f', rfl⟩ : ∃ f', f = f' + 2 := ⟨f - 2, by omega⟩
  rw [run_execStmt_assign σ t r rhs f' hsteps,
    C05_reject_assign_expr (tickSt σ) t r rhs v h f₀ f' hacts hrhs hr harr hconst hbad (by omega)]
  rfl

/-! ### the four kinds of target -/

/-- **`x <- e`, `x` a plain variable** of declared type `ty` (`HasVar`: current or global activation, not a BYREF
    formal, not a constant) and `e` pure with a value not compatible with `ty`: `typeMismatch`, only the statement
    counter changes; `x` still holds `xv`. -/
theorem C05_reject_assign_var (σ : St) (t xt : Tok) (rhs : Expr) (v : Val) (id : Nat) (ty : Ty) (xv : Val) (f₀ f : Nat)
    (hsteps : σ.steps + 1 ≤ σ.stepLimit) (hx : HasVar σ xt.val id ty xv) (hrhs : PureAt (tickSt σ) f₀ rhs v)
    (hbad : storeCompatible ty v = false) (hf : max f₀ 1 + 3 ≤ f) :
    (execStmt f (.expr (.assign t (.var xt) rhs))).run.run σ =
      (.error (.diag (rtDiag σ t.line t.col .typeMismatch)), tickSt σ) ∧
    HasVar (tickSt σ) xt.val id ty xv :=
  ⟨(C05_reject_assign σ t (.var xt) rhs v (varHolder id xt.val ty) (max f₀ 1) f hsteps hx.acts_ne
      (hrhs.mono (Nat.le_max_left _ _)) ((resolvesAt_var xt hx.tick).mono (Nat.le_max_right _ _)) rfl hx.notConst hbad hf).1,
   hx.tick⟩

/-- **`a[e₁,…,eₙ] <- e`**, `a` a declared array with element type `ety`, pure in-bounds indices: `typeMismatch`, only
    the statement counter changes; the array holds the same cells. -/
theorem C05_reject_assign_elem (σ : St) (t ti at' : Tok) (es : List Expr) (ks : List Int) (rhs : Expr) (v : Val)
    (id : Nat) (ety : Ty) (dims : List (Int × Int)) (cells : List Val) (f₀ f : Nat)
    (hsteps : σ.steps + 1 ≤ σ.stepLimit) (ha : HasArray σ at'.val id ety dims cells)
    (hes : PureAll (tickSt σ) f₀ es (ks.map .int)) (hb : InBoundsAll dims ks) (hrhs : PureAt (tickSt σ) f₀ rhs v)
    (hbad : storeCompatible ety v = false) (hf : f₀ + es.length + 5 ≤ f) :
    (execStmt f (.expr (.assign t (.index ti (.var at') es) rhs))).run.run σ =
      (.error (.diag (rtDiag σ t.line t.col .typeMismatch)), tickSt σ) ∧
    HasArray (tickSt σ) at'.val id ety dims cells :=
  ⟨(C05_reject_assign σ t _ rhs v _ (f₀ + es.length + 2) f hsteps ha.acts_ne (hrhs.mono (by omega))
      (resolvesAt_elem (tickSt σ) ti at' es ks id ety dims cells f₀ ha.tick hes hb) rfl ha.notConst hbad (by omega)).1,
   ha.tick⟩

/-- **`r.m <- e`**, `r` a record variable, `m` a non-array member currently holding `fv` (whose type is the member's
    type): `typeMismatch`, only the statement counter changes; the record is what it was. -/
theorem C05_reject_assign_field (σ : St) (t tf rt m : Tok) (rhs : Expr) (v : Val) (id : Nat) (ty : Ty) (T : Str)
    (fs : List (Str × Val)) (fv : Val) (f₀ f : Nat)
    (hsteps : σ.steps + 1 ≤ σ.stepLimit) (hr : HasVar σ rt.val id ty (.comp T fs))
    (hm : memberKind fs m.val = some false) (hfv : findField fs m.val false = some fv)
    (hrhs : PureAt (tickSt σ) f₀ rhs v) (hbad : storeCompatible fv.ty v = false) (hf : max f₀ 2 + 3 ≤ f) :
    (execStmt f (.expr (.assign t (.field tf (.var rt) m) rhs))).run.run σ =
      (.error (.diag (rtDiag σ t.line t.col .typeMismatch)), tickSt σ) ∧
    HasVar (tickSt σ) rt.val id ty (.comp T fs) := by
  refine ⟨?_, hr.tick⟩
  have hres := resolvesAt_field (tickSt σ) tf rt m id ty T fs false fv hr.tick hm hfv
  have hty : (fieldHolder (varHolder id rt.val ty) m.val false fv).ty = fv.ty :=
    fieldTy_nonarr fv (findField_isArr fs m.val false fv hfv)
  exact (C05_reject_assign σ t _ rhs v _ (max f₀ 2) f hsteps hr.acts_ne (hrhs.mono (Nat.le_max_left _ _))
    (hres.mono (Nat.le_max_right _ _)) rfl hr.notConst (by rw [hty]; exact hbad) hf).1

/-- **`p^ <- e`**, `p` a plain pointer variable holding the location `l`, which reads `tv` and is not a constant: the
    check is against the type of the target's current value; `typeMismatch`, only the statement counter changes; the
    target still reads `tv`. -/
theorem C05_reject_assign_deref (σ : St) (t td pt : Tok) (rhs : Expr) (v : Val) (idp : Nat) (pn : Str) (l : Loc)
    (tv : Val) (f₀ f : Nat)
    (hsteps : σ.steps + 1 ≤ σ.stepLimit) (hp : HasVar σ pt.val idp (.ptr pn) (.ptr pn (some l)))
    (hv : readLocP σ l = .ok tv) (hc : locConstP σ l = false)
    (hrhs : PureAt (tickSt σ) f₀ rhs v) (hbad : storeCompatible tv.ty v = false) (hf : max f₀ 2 + 3 ≤ f) :
    (execStmt f (.expr (.assign t (.deref td (.var pt)) rhs))).run.run σ =
      (.error (.diag (rtDiag σ t.line t.col .typeMismatch)), tickSt σ) ∧
    readLocP (tickSt σ) l = .ok tv :=
  ⟨(C05_reject_assign σ t _ rhs v _ (max f₀ 2) f hsteps hp.acts_ne (hrhs.mono (Nat.le_max_left _ _))
      ((resolvesAt_deref (tickSt σ) td pt idp pn l tv hp.tick hv).mono (Nat.le_max_right _ _)) rfl hc hbad hf).1, hv⟩

/-! ### the positive half -/

/-- **C05, accepted assignment** (for contrast).  Same situation as `C05_reject_assign_eval`, but the value IS
    compatible with the type of the target (`h.ty`, a proper type), and the target currently reads a non-array value
    `old`.  Then the assignment ends normally; afterwards the target reads `implicitCast h.ty v` — which has the type
    `h.ty` —, the target's root is still not a constant, and every location with another root reads what it read in
    `σ1`. -/
theorem C05_accept_assign (σ σ1 : St) (t : Tok) (r : Ref) (rhs : Expr) (v old : Val) (h : Holder) (f : Nat)
    (hacts : σ.acts ≠ []) (hrhs : (evalExpr f rhs).run.run σ = (.ok v, σ1))
    (hr : (resolveRef f r).run.run σ1 = (.ok h, σ1)) (harr : h.isArr = false)
    (hconst : locConstP σ1 h.loc = false) (hold : readLocP σ1 h.loc = .ok old) (hk : old.isArr = false)
    (hty : h.ty ≠ .none) (hok : storeCompatible h.ty v = true) :
    ∃ σ', (execAssign (f+1) t r rhs).run.run σ = (.ok ⟨⟩, σ') ∧
      readLocP σ' h.loc = .ok (implicitCast h.ty v) ∧ (implicitCast h.ty v).ty = h.ty ∧
      locConstP σ' h.loc = false ∧
      (∀ l', DiffRoot h.loc l' → readLocP σ' l' = readLocP σ1 l') := by
  have hcast : (implicitCast h.ty v).ty = h.ty := (storeCompatible_true_iff h.ty v).1 hok
  have hnarr : (implicitCast h.ty v).isArr = false := not_isArr_of_ty _ (by rw [hcast]; exact hty)
  obtain ⟨F, _, hw, hread, hc'⟩ := run_writeLoc_ok t h.loc (implicitCast h.ty v) old σ1 hold hconst (by rw [hk, hnarr])
  refine ⟨updSt σ1 h.loc.act F, ?_, hread, hcast, hc', fun l' hd => C07_write_other_location t h.loc l' _ σ1 _ ⟨⟩ hw hd⟩
  rw [run_execAssign_checked σ σ1 t r rhs v h f hacts hrhs hr harr]
  have hne : ((implicitCast h.ty v).ty != h.ty) = false := by simp [hcast]
  simp only [hconst, Bool.false_eq_true, if_false, hne]
  exact hw

/-! ## 2. BYVAL arguments -/

/-- **C05, rejected BYVAL argument (procedure call, any parameter list, any position).**  The procedure `name` has the
    parameters `ps₁ ++ (pn : pty, BYVAL) :: ps₂`; the arguments `es₁ ++ e :: es₂` evaluate (in the caller, possibly with
    effects: state `σ1`) to `vs₁ ++ v :: vs₂`; the parameters before `pn` bind (state `σ2`; for BYVAL parameters and
    pure arguments `σ2 = σ1 = σ`, see `C05_reject_byval_pure`); the value `v` is not compatible with `pty`.  Then the
    call ends with the runtime diagnostic `invalidArgs` at the call token and the final state is exactly `σ2`: no
    activation has been created, no cell has been made or written, the call-position note and the depth counter are
    untouched.  Hypotheses: `hl1`–`hl3` align the three lists (same number of arguments as parameters); `hdepth` — the
    call-depth budget is not exhausted (otherwise `budget`); `hcur` — there is a current activation. -/
theorem C05_reject_byval (f : Nat) (t : Tok) (name : Str) (σ σ1 σ2 : St) (pd : ProcDef) (cur : Act) (rest : List Act)
    (ps₁ ps₂ : List (Str × Ty × Bool)) (pn : Str) (pty : Ty) (es₁ es₂ : List Expr) (e : Expr) (vs₁ vs₂ : List Val) (v : Val)
    (sl : List Slot)
    (hpd : σ.procs.find? (·.name == name) = some pd) (hparams : pd.params = ps₁ ++ (pn, pty, false) :: ps₂)
    (hargs : (evalArgs (f + 1 + ps₁.length) (es₁ ++ e :: es₂) []).run.run σ = (.ok (vs₁ ++ v :: vs₂), σ1))
    (hl1 : es₁.length = ps₁.length) (hl2 : vs₁.length = ps₁.length) (hl3 : vs₂.length = ps₂.length)
    (hdepth : σ1.depth + 1 ≤ σ1.depthLimit) (hcur : σ1.acts = cur :: rest)
    (hpre : (bindParams (f + 1 + ps₁.length) t ps₁ es₁ vs₁ []).run.run σ1 = (.ok sl, σ2))
    (hbad : storeCompatible pty v = false) :
    (callProc (f + 1 + ps₁.length + 1) t name (es₁ ++ e :: es₂)).run.run σ =
      (.error (.diag (rtDiag σ2 t.line t.col .invalidArgs)), σ2) := by
  refine run_callProc_bind_err _ t name _ σ σ1 σ2 pd _ cur rest _ hpd hargs ?_ hdepth hcur ?_
  · rw [hparams]; simp [hl2, hl3]
  · rw [hparams, run_bindParams_split t ps₁ es₁ vs₁ _ _ _ [] f σ1 hl1 hl2, hpre]
    exact run_bindParams_byval_reject f t pn pty ps₂ e es₂ v vs₂ _ σ2 hbad

/-- the same for a function call (user-defined or built-in: the parameters of the built-in functions are BYVAL) -/
theorem C05_reject_byval_fun (f : Nat) (t : Tok) (σ σ1 σ2 : St) (fd : FunDef) (cur : Act) (rest : List Act)
    (ps₁ ps₂ : List (Str × Ty × Bool)) (pn : Str) (pty : Ty) (es₁ es₂ : List Expr) (e : Expr) (vs₁ vs₂ : List Val) (v : Val)
    (sl : List Slot)
    (hfd : funLookup σ t.val = some fd) (hparams : fd.params = ps₁ ++ (pn, pty, false) :: ps₂)
    (hargs : (evalArgs (f + 1 + ps₁.length) (es₁ ++ e :: es₂) []).run.run σ = (.ok (vs₁ ++ v :: vs₂), σ1))
    (hl1 : es₁.length = ps₁.length) (hl2 : vs₁.length = ps₁.length) (hl3 : vs₂.length = ps₂.length)
    (hdepth : σ1.depth + 1 ≤ σ1.depthLimit) (hcur : σ1.acts = cur :: rest)
    (hpre : (bindParams (f + 1 + ps₁.length) t ps₁ es₁ vs₁ []).run.run σ1 = (.ok sl, σ2))
    (hbad : storeCompatible pty v = false) :
    (callFun (f + 1 + ps₁.length + 1) t (es₁ ++ e :: es₂)).run.run σ =
      (.error (.diag (rtDiag σ2 t.line t.col .invalidArgs)), σ2) := by
  refine run_callFun_bind_err _ t _ σ σ1 σ2 fd _ cur rest _ hfd hargs ?_ hdepth hcur ?_
  · rw [hparams]; simp [hl2, hl3]
  · rw [hparams, run_bindParams_split t ps₁ es₁ vs₁ _ _ _ [] f σ1 hl1 hl2, hpre]
    exact run_bindParams_byval_reject f t pn pty ps₂ e es₂ v vs₂ _ σ2 hbad

/-- **C05, rejected BYVAL argument, the statement `CALL name(args)` with pure arguments.**  The parameters before the
    rejected one are BYVAL and their argument values are accepted (`C04.CastsOK`); all arguments are pure.  Then the
    statement ends with `invalidArgs` at the call token and the final state is `tickSt σ` — the start state except
    for the statement counter: every location (of the caller's activations and of all others) reads what it read
    before, the activation stack is the one before (no activation is left on the stack), no id has been used up. -/
theorem C05_reject_byval_pure (f₀ f : Nat) (t : Tok) (name : Str) (σ : St) (pd : ProcDef)
    (ps₁ ps₂ : List (Str × Ty × Bool)) (pn : Str) (pty : Ty) (es₁ es₂ : List Expr) (e : Expr) (vs₁ vs₂ : List Val) (v : Val)
    (hsteps : σ.steps + 1 ≤ σ.stepLimit) (hacts : σ.acts ≠ [])
    (hpd : σ.procs.find? (·.name == name) = some pd) (hparams : pd.params = ps₁ ++ (pn, pty, false) :: ps₂)
    (hpure : PureAll (tickSt σ) f₀ (es₁ ++ e :: es₂) (vs₁ ++ v :: vs₂))
    (hl1 : es₁.length = ps₁.length) (hl2 : vs₁.length = ps₁.length) (hl3 : vs₂.length = ps₂.length)
    (hdepth : σ.depth + 1 ≤ σ.depthLimit) (hok : C04.CastsOK ps₁ vs₁)
    (hbad : storeCompatible pty v = false) (hf : f₀ + (es₁ ++ e :: es₂).length + ps₁.length + 3 ≤ f) :
    (execStmt f (.call t name (es₁ ++ e :: es₂))).run.run σ =
      (.error (.diag (rtDiag σ t.line t.col .invalidArgs)), tickSt σ) ∧
    (tickSt σ).acts = σ.acts ∧ (tickSt σ).nextId = σ.nextId ∧ (tickSt σ).depth = σ.depth ∧
    (∀ l, readLocP (tickSt σ) l = readLocP σ l) := by
  refine ⟨?_, rfl, rfl, rfl, fun _ => rfl⟩
  obtain ⟨g, rfl⟩ : ∃ g, f = (g + 1 + ps₁.length + 1) + 1 := ⟨f - ps₁.length - 3, by omega⟩
  obtain ⟨cur, rest, hcur⟩ : ∃ cur rest, (tickSt σ).acts = cur :: rest := by
    cases h : σ.acts with
    | nil => exact absurd h hacts
    | cons a r => exact ⟨a, r, h⟩
  have hargs := run_evalArgs_pure (tickSt σ) f₀ _ _ [] (g + 1 + ps₁.length) hpure (by
    simp only [List.length_append, List.length_cons] at hf ⊢; omega)
  simp only [List.reverse_nil, List.nil_append] at hargs
  have hpre := C04_exec_bind_byval_all t ps₁ es₁ vs₁ [] (g + 1 + ps₁.length) (tickSt σ) hok (by rw [hl1, hl2]) (by omega)
  rw [execStmt_call, run_bind_ok _ _ _ _ _ (run_tick_ok t σ hsteps)]
  apply run_bind_err
  exact C05_reject_byval g t name (tickSt σ) (tickSt σ) (tickSt σ) pd cur rest ps₁ ps₂ pn pty es₁ es₂ e vs₁ vs₂ v _
    hpd hparams hargs hl1 hl2 hl3 hdepth hcur hpre hbad

/-! ## 3. BYREF arguments -/

/-- **C05, rejected BYREF argument (procedure call, any parameter list, any position).**  As `C05_reject_byval`, but
    the parameter `pn : pty` is BYREF and its argument is the reference `r`, which resolves — in the state `σ2` the
    binding of the earlier parameters left, without effect — to a non-array holder `h` of ANOTHER type than `pty`
    (no implicit conversion for BYREF: an INTEGER variable is not accepted for a BYREF REAL parameter).  Whatever the
    argument value `v` is: `invalidArgs` at the call token, final state `σ2`, no activation created, no alias made. -/
theorem C05_reject_byref (f : Nat) (t at' : Tok) (name : Str) (σ σ1 σ2 : St) (pd : ProcDef) (cur : Act) (rest : List Act)
    (ps₁ ps₂ : List (Str × Ty × Bool)) (pn : Str) (pty : Ty) (es₁ es₂ : List Expr) (r : Ref) (vs₁ vs₂ : List Val) (v : Val)
    (sl : List Slot) (h : Holder)
    (hpd : σ.procs.find? (·.name == name) = some pd) (hparams : pd.params = ps₁ ++ (pn, pty, true) :: ps₂)
    (hargs : (evalArgs (f + 1 + ps₁.length) (es₁ ++ .access at' r :: es₂) []).run.run σ = (.ok (vs₁ ++ v :: vs₂), σ1))
    (hl1 : es₁.length = ps₁.length) (hl2 : vs₁.length = ps₁.length) (hl3 : vs₂.length = ps₂.length)
    (hdepth : σ1.depth + 1 ≤ σ1.depthLimit) (hcur : σ1.acts = cur :: rest)
    (hpre : (bindParams (f + 1 + ps₁.length) t ps₁ es₁ vs₁ []).run.run σ1 = (.ok sl, σ2))
    (hr : (resolveRef f r).run.run σ2 = (.ok h, σ2)) (harr : h.isArr = false) (hty : h.ty ≠ pty) :
    (callProc (f + 1 + ps₁.length + 1) t name (es₁ ++ .access at' r :: es₂)).run.run σ =
      (.error (.diag (rtDiag σ2 t.line t.col .invalidArgs)), σ2) := by
  refine run_callProc_bind_err _ t name _ σ σ1 σ2 pd _ cur rest _ hpd hargs ?_ hdepth hcur ?_
  · rw [hparams]; simp [hl2, hl3]
  · rw [hparams, run_bindParams_split t ps₁ es₁ vs₁ _ _ _ [] f σ1 hl1 hl2, hpre]
    exact run_bindParams_byref_reject f t pn pty ps₂ at' r es₂ v vs₂ _ σ2 h hr harr hty

/-- the same for a call of a user-defined function -/
theorem C05_reject_byref_fun (f : Nat) (t at' : Tok) (σ σ1 σ2 : St) (fd : FunDef) (cur : Act) (rest : List Act)
    (ps₁ ps₂ : List (Str × Ty × Bool)) (pn : Str) (pty : Ty) (es₁ es₂ : List Expr) (r : Ref) (vs₁ vs₂ : List Val) (v : Val)
    (sl : List Slot) (h : Holder)
    (hfd : funLookup σ t.val = some fd) (hparams : fd.params = ps₁ ++ (pn, pty, true) :: ps₂)
    (hargs : (evalArgs (f + 1 + ps₁.length) (es₁ ++ .access at' r :: es₂) []).run.run σ = (.ok (vs₁ ++ v :: vs₂), σ1))
    (hl1 : es₁.length = ps₁.length) (hl2 : vs₁.length = ps₁.length) (hl3 : vs₂.length = ps₂.length)
    (hdepth : σ1.depth + 1 ≤ σ1.depthLimit) (hcur : σ1.acts = cur :: rest)
    (hpre : (bindParams (f + 1 + ps₁.length) t ps₁ es₁ vs₁ []).run.run σ1 = (.ok sl, σ2))
    (hr : (resolveRef f r).run.run σ2 = (.ok h, σ2)) (harr : h.isArr = false) (hty : h.ty ≠ pty) :
    (callFun (f + 1 + ps₁.length + 1) t (es₁ ++ .access at' r :: es₂)).run.run σ =
      (.error (.diag (rtDiag σ2 t.line t.col .invalidArgs)), σ2) := by
  refine run_callFun_bind_err _ t _ σ σ1 σ2 fd _ cur rest _ hfd hargs ?_ hdepth hcur ?_
  · rw [hparams]; simp [hl2, hl3]
  · rw [hparams, run_bindParams_split t ps₁ es₁ vs₁ _ _ _ [] f σ1 hl1 hl2, hpre]
    exact run_bindParams_byref_reject f t pn pty ps₂ at' r es₂ v vs₂ _ σ2 h hr harr hty

/-- **C05, rejected BYREF argument, the statement `CALL name(…, x, …)`**: the BYREF argument is the plain variable `x`
    of declared type `ty ≠ pty`; the parameters before are BYVAL with accepted values; all arguments are pure.  The
    statement ends with `invalidArgs` at the call token, the final state is the start state except for the statement
    counter; `x` is what it was and no activation is left on the stack. -/
theorem C05_reject_byref_var (f₀ f : Nat) (t at' xt : Tok) (name : Str) (σ : St) (pd : ProcDef)
    (ps₁ ps₂ : List (Str × Ty × Bool)) (pn : Str) (pty : Ty) (es₁ es₂ : List Expr) (vs₁ vs₂ : List Val) (v : Val)
    (id : Nat) (ty : Ty) (xv : Val)
    (hsteps : σ.steps + 1 ≤ σ.stepLimit)
    (hpd : σ.procs.find? (·.name == name) = some pd) (hparams : pd.params = ps₁ ++ (pn, pty, true) :: ps₂)
    (hpure : PureAll (tickSt σ) f₀ (es₁ ++ .access at' (.var xt) :: es₂) (vs₁ ++ v :: vs₂))
    (hl1 : es₁.length = ps₁.length) (hl2 : vs₁.length = ps₁.length) (hl3 : vs₂.length = ps₂.length)
    (hdepth : σ.depth + 1 ≤ σ.depthLimit) (hok : C04.CastsOK ps₁ vs₁)
    (hx : HasVar σ xt.val id ty xv) (hty : ty ≠ pty)
    (hf : f₀ + (es₁ ++ Expr.access at' (.var xt) :: es₂).length + ps₁.length + 4 ≤ f) :
    (execStmt f (.call t name (es₁ ++ .access at' (.var xt) :: es₂))).run.run σ =
      (.error (.diag (rtDiag σ t.line t.col .invalidArgs)), tickSt σ) ∧
    HasVar (tickSt σ) xt.val id ty xv ∧ (tickSt σ).acts = σ.acts ∧ (∀ l, readLocP (tickSt σ) l = readLocP σ l) := by
  refine ⟨?_, hx.tick, rfl, fun _ => rfl⟩
  obtain ⟨g, rfl⟩ : ∃ g, f = ((g + 1) + 1 + ps₁.length + 1) + 1 := ⟨f - ps₁.length - 4, by omega⟩
  obtain ⟨cur, rest, hcur⟩ : ∃ cur rest, (tickSt σ).acts = cur :: rest := by
    cases h : σ.acts with
    | nil => exact absurd h hx.acts_ne
    | cons a r => exact ⟨a, r, h⟩
  have hargs := run_evalArgs_pure (tickSt σ) f₀ _ _ [] ((g + 1) + 1 + ps₁.length) hpure (by
    simp only [List.length_append, List.length_cons] at hf ⊢; omega)
  simp only [List.reverse_nil, List.nil_append] at hargs
  have hpre := C04_exec_bind_byval_all t ps₁ es₁ vs₁ [] ((g + 1) + 1 + ps₁.length) (tickSt σ) hok (by rw [hl1, hl2]) (by omega)
  rw [execStmt_call, run_bind_ok _ _ _ _ _ (run_tick_ok t σ hsteps)]
  apply run_bind_err
  exact C05_reject_byref (g + 1) t at' name (tickSt σ) (tickSt σ) (tickSt σ) pd cur rest ps₁ ps₂ pn pty es₁ es₂ (.var xt)
    vs₁ vs₂ v _ (varHolder id xt.val ty) hpd hparams hargs hl1 hl2 hl3 hdepth hcur hpre
    (run_resolveRef_hasVar (tickSt σ) xt id ty g hx.tick.resolves) rfl hty

/-! ## 4. RETURN -/

/-- **C05, rejected RETURN (the statement).**  `RETURN e` executed while the current activation `a` is a function
    call; `e` evaluates to `v` (state `σ1`); `v` is not compatible with the declared return type `a.retTy`.  The
    statement ends with the runtime diagnostic `typeMismatch` at the RETURN token — not with the RETURN signal, so no
    value is handed to the caller.  (The state is `σ1` with the uncast value noted in the `retVal` field of the
    function's own activation `a`; that activation is discarded by the call: `C05_reject_return_call`.) -/
theorem C05_reject_return_stmt (f : Nat) (t : Tok) (e : Expr) (σ σ1 : St) (a : Act) (rest : List Act) (v : Val)
    (hsteps : σ.steps + 1 ≤ σ.stepLimit) (hacts : σ.acts = a :: rest) (hfn : a.isFn = true)
    (he : (evalExpr f e).run.run (tickSt σ) = (.ok v, σ1)) (hbad : storeCompatible a.retTy v = false) :
    (execStmt (f+1) (.ret t e)).run.run σ =
      (.error (.diag (rtDiag (retSt σ1 a.id (implicitCast a.retTy v)) t.line t.col .typeMismatch)),
       retSt σ1 a.id (implicitCast a.retTy v)) := by
  rw [run_execStmt_ret f t e σ σ1 a rest v hsteps hacts hfn he, if_neg ((storeCompatible_false_iff _ _).1 hbad)]

/-- **C05, a call whose body ends with a diagnostic, as the right-hand side of an assignment** (any user function, any
    body).  The call prefix is as in `CallLemmas.run_callFun_user`; the body's run ends with the diagnostic `d` in state
    `σ4` (for instance the `typeMismatch` of a rejected RETURN).  Then the call ends with `d`, the function's activation
    is removed (`popSt σ4`), and the assignment `r <- F(args)` ends with `d` in that same state: the target reference
    is not even resolved, nothing is written after the body stopped. -/
theorem C05_reject_return_call (f : Nat) (t at' : Tok) (r : Ref) (args : List Expr) (σ σ1 σ2 σ4 : St) (fd : FunDef)
    (body : Block) (defTok : Tok) (vals : List Val) (cur : Act) (rest : List Act) (slots : List Slot) (d : Diag)
    (hacts : σ.acts ≠ [])
    (hfd : funLookup σ t.val = some fd) (hbody : fd.body = .user body defTok)
    (hargs : (evalArgs f args []).run.run σ = (.ok vals, σ1))
    (hlen : vals.length = fd.params.length)
    (hdepth : σ1.depth + 1 ≤ σ1.depthLimit)
    (hcur : σ1.acts = cur :: rest)
    (hbind : (bindParams f t fd.params args vals []).run.run σ1 = (.ok slots, σ2))
    (hrun : (runBlock f body).run.run (calleeSt (funAct fd slots) (setSwitch σ2 cur.id t)) = (.error (.diag d), σ4)) :
    (callFun (f+1) t args).run.run σ = (.error (.diag d), popSt σ4) ∧
    (execAssign (f+3) at' r (.call t args)).run.run σ = (.error (.diag d), popSt σ4) := by
  have hcall := run_callFun_body_err f t args σ σ1 σ2 σ4 fd body defTok vals cur rest slots d hfd hbody hargs hlen hdepth
    hcur hbind hrun
  refine ⟨hcall, ?_⟩
  apply run_execAssign_rhs_err σ _ at' r (.call t args) _ (f+2) hacts (fun _ _ h => Expr.noConfusion h)
  rw [evalExpr_call]
  exact hcall

/-- **C05, rejected RETURN, the whole scenario `r <- F(args)`.**  `F` is a user-defined function whose body is the one
    statement `RETURN e`; the arguments evaluate to `vals` (state `σ1`) and bind to `slots` (state `σ2`; for pure
    arguments and BYVAL parameters `σ2 = σ`); `e` evaluates purely, in the function's activation, to a value `v` that is
    not compatible with the declared return type `fd.ret`.  Then the call — and with it the assignment, whatever the
    target `r` is — ends with the runtime diagnostic `typeMismatch` at the RETURN token (raised inside the function: the
    traceback is that of the callee's state `σr`), and the final state is `σ2` with the bookkeeping of an aborted call:
    statement counter `+1` (the RETURN), one activation id used up, depth counter `+1` and the caller's call-position
    note set (they are reset only when a call ends normally).  No activation is left on the stack, and every location
    reads what it read in `σ2`: in particular the target of the assignment is unchanged. -/
theorem C05_reject_return (f₀ f : Nat) (t rt at' : Tok) (r : Ref) (e : Expr) (args : List Expr) (σ σ1 σ2 : St) (fd : FunDef)
    (defTok : Tok) (vals : List Val) (cur : Act) (rest : List Act) (slots : List Slot) (v : Val)
    (hacts : σ.acts ≠ [])
    (hfd : funLookup σ t.val = some fd) (hbody : fd.body = .user [.ret rt e] defTok)
    (hargs : (evalArgs f args []).run.run σ = (.ok vals, σ1))
    (hlen : vals.length = fd.params.length)
    (hdepth : σ1.depth + 1 ≤ σ1.depthLimit)
    (hcur : σ1.acts = cur :: rest)
    (hbind : (bindParams f t fd.params args vals []).run.run σ1 = (.ok slots, σ2))
    (hsteps : σ2.steps + 1 ≤ σ2.stepLimit)
    (he : PureAt (tickSt (calleeSt (funAct fd slots) (setSwitch σ2 cur.id t))) f₀ e v)
    (hbad : storeCompatible fd.ret v = false) (hf : f₀ + 2 ≤ f) :
    ∃ σr σF, σr = retSt (tickSt (calleeSt (funAct fd slots) (setSwitch σ2 cur.id t))) σ2.nextId (implicitCast fd.ret v) ∧
      σF = { (setSwitch σ2 cur.id t) with depth := σ2.depth + 1, steps := σ2.steps + 1, nextId := σ2.nextId + 1 } ∧
      (callFun (f+1) t args).run.run σ = (.error (.diag (rtDiag σr rt.line rt.col .typeMismatch)), σF) ∧
      (execAssign (f+3) at' r (.call t args)).run.run σ = (.error (.diag (rtDiag σr rt.line rt.col .typeMismatch)), σF) ∧
      σF.acts.map (·.id) = σ2.acts.map (·.id) ∧
      (∀ l, readLocP σF l = readLocP σ2 l) ∧ (∀ l, locConstP σF l = locConstP σ2 l) := by
  obtain ⟨f', rfl⟩ : ∃ f', f = f' + 2 := ⟨f - 2, by omega⟩
  have hacts' : (calleeSt (funAct fd slots) (setSwitch σ2 cur.id t)).acts =
      funAct fd slots σ2.nextId :: (setSwitch σ2 cur.id t).acts := rfl
  have hret := C05_reject_return_stmt f' rt e (calleeSt (funAct fd slots) (setSwitch σ2 cur.id t)) _
    (funAct fd slots σ2.nextId) (setSwitch σ2 cur.id t).acts v hsteps hacts' rfl (he f' (by omega)) hbad
  have hblock := run_runBlock_cons_err (f'+1) (.ret rt e) [] _ _ _ hret
  have hpop : ∀ σ3 : St, popSt (retSt (tickSt (calleeSt (funAct fd slots) σ3)) σ3.nextId (implicitCast fd.ret v)) =
      { σ3 with depth := σ3.depth + 1, steps := σ3.steps + 1, nextId := σ3.nextId + 1 } := by
    intro σ3
    simp only [popSt, retSt, updSt, tickSt, calleeSt, pushSt, incDepth, updActs, funAct, beq_self_eq_true, if_true,
      List.drop_succ_cons, List.drop_zero]
  obtain ⟨h1, h2⟩ := C05_reject_return_call (f'+2) t at' r args σ σ1 σ2 _ fd [.ret rt e] defTok vals cur rest slots _
    hacts hfd hbody hargs hlen hdepth hcur hbind hblock
  have hpop2 := hpop (setSwitch σ2 cur.id t)
  refine ⟨_, _, rfl, rfl, ?_, ?_, ?_, ?_, ?_⟩
  · rw [h1]; exact congrArg _ hpop2
  · rw [h2]; exact congrArg _ hpop2
  · show (setSwitch σ2 cur.id t).acts.map (·.id) = _
    simp only [setSwitch, updSt]
    exact (C04.updActs_ids _ _ _ (fun _ => rfl))
  · intro l
    exact (readLocP_congr (setSwitch σ2 cur.id t) _ l rfl).trans (readLocP_setSwitch σ2 cur.id t l)
  · intro l
    exact (locConstP_congr (setSwitch σ2 cur.id t) _ l rfl).trans (locConstP_setSwitch σ2 cur.id t l)

/-! ## 5. INPUT -/

/-- **C05, what INPUT stores.**  `INPUT r`, the reference resolves (state unchanged) to a non-array, non-constant
    holder `h` that currently reads a non-array value; the type of the target is one of INTEGER, REAL, BOOLEAN, CHAR,
    STRING, i.e. `inputConvert h.ty line = some w` for the line `lineOf σ` taken from the input.  Then the statement
    ends normally, the target afterwards reads `w`, and `w` has the type of the target; every location with another
    root reads as before.  **The typed line is never rejected for these types**: a line that is not a numeral is
    stored as `0` in an INTEGER / REAL variable, a line other than `TRUE` as `FALSE` in a BOOLEAN variable, an empty
    line as the character with code 0 and a longer line as its first character in a CHAR variable
    (`C05_input_fallbacks`; the C++ does exactly this: `String::toInteger` … in `InputNode::evaluate`). -/
theorem C05_input_store (σ : St) (t : Tok) (r : Ref) (h : Holder) (old w : Val) (f : Nat)
    (hsteps : σ.steps + 1 ≤ σ.stepLimit)
    (hr : (resolveRef f r).run.run (tickSt σ) = (.ok h, tickSt σ)) (harr : h.isArr = false)
    (hconst : locConstP σ h.loc = false) (hold : readLocP σ h.loc = .ok old) (hk : old.isArr = false)
    (hw : inputConvert h.ty (lineOf σ) = some w) :
    ∃ σ', (execStmt (f+1) (.input t r)).run.run σ = (.ok .none, σ') ∧
      readLocP σ' h.loc = .ok w ∧ w.ty = h.ty ∧
      (∀ l', DiffRoot h.loc l' → readLocP σ' l' = readLocP σ l') := by
  have hwty : w.ty = h.ty := (C05_input_conversion (lineOf σ)).2.2.2.2.2 h.ty w hw
  have hwarr : w.isArr = false := by
    cases hty : h.ty <;> rw [hty] at hw <;> simp [inputConvert] at hw <;> subst hw <;> rfl
  have hacts : (afterLine (tickSt σ)).acts = σ.acts := afterLine_acts (tickSt σ)
  have hold' : readLocP (afterLine (tickSt σ)) h.loc = .ok old := by rw [readLocP_congr σ _ _ hacts]; exact hold
  have hc' : locConstP (afterLine (tickSt σ)) h.loc = false := by rw [locConstP_congr σ _ _ hacts]; exact hconst
  obtain ⟨F, _, hwr, hread, _⟩ := run_writeLoc_ok t h.loc w old (afterLine (tickSt σ)) hold' hc' (by rw [hk, hwarr])
  refine ⟨updSt (afterLine (tickSt σ)) h.loc.act F, ?_, hread, hwty, fun l' hd => ?_⟩
  · rw [run_execStmt_input_resolved σ t r h f hsteps hr harr hconst, hw]
    simp only [hwr]
  · rw [C07_write_other_location t h.loc l' w _ _ ⟨⟩ hwr hd, readLocP_congr σ _ _ hacts]

/-- **C05, rejected INPUT.**  `INPUT r` where the type of the target is not one of the five types that can be typed
    in (DATE, an enumerated type, a pointer type, a record type): the runtime diagnostic `nonPrimitive` at the INPUT
    token.  The target — and every other location — reads what it read before; the final state differs from the start
    state in the statement counter and in the input only: the line HAS been consumed (`afterLine`), as in the C++,
    which reads the line before it looks at the type. -/
theorem C05_reject_input (σ : St) (t : Tok) (r : Ref) (h : Holder) (f : Nat)
    (hsteps : σ.steps + 1 ≤ σ.stepLimit)
    (hr : (resolveRef f r).run.run (tickSt σ) = (.ok h, tickSt σ)) (harr : h.isArr = false)
    (hconst : locConstP σ h.loc = false)
    (hty : h.ty ≠ .int ∧ h.ty ≠ .real ∧ h.ty ≠ .bool ∧ h.ty ≠ .chr ∧ h.ty ≠ .str) :
    (execStmt (f+1) (.input t r)).run.run σ =
      (.error (.diag (rtDiag σ t.line t.col .nonPrimitive)), afterLine (tickSt σ)) ∧
    (afterLine (tickSt σ)).acts = σ.acts ∧ (afterLine (tickSt σ)).steps = σ.steps + 1 ∧
    (afterLine (tickSt σ)).out = σ.out ∧ (afterLine (tickSt σ)).fs = σ.fs ∧
    (∀ l, readLocP (afterLine (tickSt σ)) l = readLocP σ l) := by
  have hnone : inputConvert h.ty (lineOf σ) = none := by
    obtain ⟨h1, h2, h3, h4, h5⟩ := hty
    cases hh : h.ty <;> first | rfl | (exfalso; first | exact h1 hh | exact h2 hh | exact h3 hh | exact h4 hh | exact h5 hh)
  have hacts : (afterLine (tickSt σ)).acts = σ.acts := afterLine_acts (tickSt σ)
  have haux : ∀ τ : St, (afterLine τ).steps = τ.steps ∧ (afterLine τ).out = τ.out ∧ (afterLine τ).fs = τ.fs := by
    intro τ
    unfold afterLine
    split
    · exact ⟨rfl, rfl, rfl⟩
    · split <;> exact ⟨rfl, rfl, rfl⟩
  refine ⟨?_, hacts, (haux _).1, (haux _).2.1, (haux _).2.2, fun l => readLocP_congr σ _ l hacts⟩
  rw [run_execStmt_input_resolved σ t r h f hsteps hr harr hconst, hnone]

/-- the fallbacks of INPUT, on concrete lines: nothing is rejected, text that is not a numeral becomes 0 -/
theorem C05_input_fallbacks :
    inputConvert .int "abc".toList = some (.int 0) ∧ inputConvert .int "12x".toList = some (.int 0) ∧
    inputConvert .int "".toList = some (.int 0) ∧ inputConvert .int "42".toList = some (.int 42) ∧
    inputConvert .bool "yes".toList = some (.bool false) ∧ inputConvert .bool "TRUE".toList = some (.bool true) ∧
    inputConvert .chr "".toList = some (.chr (Char.ofNat 0)) ∧ inputConvert .chr "xyz".toList = some (.chr 'x') ∧
    inputConvert .str "xyz".toList = some (.str "xyz".toList) := by
  have e1 : strToInteger "abc".toList = 0 := by decide
  have e2 : strToInteger "12x".toList = 0 := by decide
  have e3 : strToInteger "".toList = 0 := by decide
  have e4 : strToInteger "42".toList = 42 := by decide
  have e5 : ("yes".toList == "TRUE".toList) = false := by decide
  have e6 : ("TRUE".toList == "TRUE".toList) = true := by decide
  refine ⟨?_, ?_, ?_, ?_, ?_, ?_, rfl, rfl, rfl⟩
  · show some (Val.int (strToInteger _)) = _; rw [e1]
  · show some (Val.int (strToInteger _)) = _; rw [e2]
  · show some (Val.int (strToInteger _)) = _; rw [e3]
  · show some (Val.int (strToInteger _)) = _; rw [e4]
  · show some (Val.bool (_ == _)) = _; rw [e5]
  · show some (Val.bool (_ == _)) = _; rw [e6]

/-! ## 6. the table -/

/-- **C05, which stores are rejected** (`C05_compat_table` read from the other side): for every target type and every
    value that is not a whole array, the store is rejected iff the value neither has the target type nor falls under one
    of the three implicit conversions INTEGER → REAL, one-character STRING → CHAR, CHAR → STRING.  This is the test
    `storeCompatible ty v = false` under which the run theorems above (assignment, BYVAL, RETURN) report the
    diagnostic; for BYREF the test is plain inequality of the types (`C05_reject_byref`). -/
theorem C05_reject_table (ty : Ty) (v : Val) (hv : v.isArr = false) :
    storeCompatible ty v = false ↔
      ¬ (v.ty = ty ∨ (ty = .real ∧ v.ty = .int) ∨ (ty = .chr ∧ ∃ c, v = .str [c]) ∨ (ty = .str ∧ v.ty = .chr)) := by
  rw [← C05_compat_table ty v hv]
  cases storeCompatible ty v <;> simp

/-- whole-array values (they never reach a scalar store: `arrayDirect` comes first) are rejected by every type except
    the non-type `none` -/
theorem C05_reject_table_arr (ty : Ty) (e : Ty) (d : List (Int × Int)) (c : List Val) (hty : ty ≠ .none) :
    storeCompatible ty (.arr e d c) = false := by
  cases ty <;> first | rfl | exact absurd rfl hty

/-! ## non-vacuity -/
namespace C05RejectEx

def tk (s : String) (l : Nat := 1) (c : Nat := 1) : Tok := { k := .IDENTIFIER, line := l, col := c, val := s.toList }
def ilit (k : Int) : Expr := .intLit (tk "lit") k
def slit (s : String) : Expr := .strLit (tk "str") s.toList
def blit (b : Bool) : Expr := .boolLit (tk "bool") b
def var (s : String) : Expr := .access (tk s) (.var (tk s))

def fieldsR : List (Str × Val) := [("f".toList, .int 7), ("g".toList, .str "hi".toList)]
def recR : Val := .comp "R".toList fieldsR
def locX : Loc := ⟨0, false, "x".toList, []⟩
def cellsA : List Val := [.int 0, .int 0, .int 0]

def procPV : ProcDef := { name := "PV".toList, params := [("n".toList, .int, false)], body := [] }
def procP2 : ProcDef := { name := "P2".toList, params := [("m".toList, .real, false), ("n".toList, .int, false)], body := [] }
def procPR : ProcDef := { name := "PR".toList, params := [("n".toList, .real, true)], body := [] }
/-- `FUNCTION F() RETURNS INTEGER / RETURN "no"` -/
def funF : FunDef :=
  { name := "F".toList, params := [], ret := .int, body := .user [.ret (tk "RETURN" 2 5) (slit "no")] (tk "FUNCTION" 1 1) }

/-- the main program with variables of eight types, a constant, an array, a pointer to `x` -/
def glob : Act :=
  { id := 0, name := "Program".toList,
    vars := [{ name := "x".toList, ty := .int, val := .int 1 },
             { name := "y".toList, ty := .real, val := .real 2.5 },
             { name := "s".toList, ty := .str, val := .str "abc".toList },
             { name := "c".toList, ty := .chr, val := .chr 'q' },
             { name := "b".toList, ty := .bool, val := .bool true },
             { name := "d".toList, ty := .date, val := .date ⟨2020, 1, 2⟩ },
             { name := "rec".toList, ty := .comp "R".toList, val := recR },
             { name := "p".toList, ty := .ptr "IntPtr".toList, val := .ptr "IntPtr".toList (some locX) },
             { name := "k".toList, ty := .int, isConst := true, val := .int 9 }],
    arrs := [{ name := "a".toList, ty := .int, val := .arr .int [(1, 3)] cellsA }],
    ptrs := [("IntPtr".toList, .int)],
    comps := [("R".toList, [])] }

def exSt : St := { acts := [glob], procs := [procPV, procP2, procPR], funs := [funF], stdin := "hello\nrest".toList }

theorem hasX : HasVar exSt (tk "x").val 0 .int (.int 1) := ⟨rfl, rfl, rfl⟩
theorem hasY : HasVar exSt (tk "y").val 0 .real (.real 2.5) := ⟨rfl, rfl, rfl⟩
theorem hasD : HasVar exSt (tk "d").val 0 .date (.date ⟨2020, 1, 2⟩) := ⟨rfl, rfl, rfl⟩
theorem hasRec : HasVar exSt (tk "rec").val 0 (.comp "R".toList) recR := ⟨rfl, rfl, rfl⟩
theorem hasP : HasVar exSt (tk "p").val 0 (.ptr "IntPtr".toList) (.ptr "IntPtr".toList (some locX)) := ⟨rfl, rfl, rfl⟩
theorem hasA : HasArray exSt (tk "a").val 0 .int [(1, 3)] cellsA := ⟨rfl, rfl, rfl, rfl⟩
theorem actsNe : exSt.acts ≠ [] := fun h => by cases h

/-- what a run reports: message and position of a runtime diagnostic -/
def diagOf {α : Type} : Except Stop α → Option (Msg × Nat × Nat)
  | .error (.diag d) => some (d.msg, d.line, d.col)
  | _ => none
def intAt (σ : St) (l : Loc) : Option Int :=
  match readLocP σ l with
  | .ok (.int k) => some k
  | _ => none
def strAt (σ : St) (l : Loc) : Option Str :=
  match readLocP σ l with
  | .ok (.str k) => some k
  | _ => none

def asgT : Tok := tk "<-" 3 4
def asg (r : Ref) (e : Expr) : Stmt := .expr (.assign asgT r e)
def callT : Tok := tk "CALL" 5 1
def inT : Tok := tk "INPUT" 6 1

/-! ### 1. assignment: `x <- "no"`, `a[2] <- TRUE`, `rec.f <- "zz"`, `p^ <- "zz"`, `k <- 3` (constant) -/

example : (execStmt 10 (asg (.var (tk "x")) (slit "no"))).run.run exSt =
    (.error (.diag (rtDiag exSt 3 4 .typeMismatch)), tickSt exSt) :=
  (C05_reject_assign_var exSt asgT (tk "x") (slit "no") (.str "no".toList) 0 .int (.int 1) 1 10
    (by decide) hasX (pureAt_strLit _ _ _) (by decide) (by decide)).1

example : (execStmt 10 (asg (.index (tk "[") (.var (tk "a")) [ilit 2]) (blit true))).run.run exSt =
    (.error (.diag (rtDiag exSt 3 4 .typeMismatch)), tickSt exSt) :=
  (C05_reject_assign_elem exSt asgT (tk "[") (tk "a") [ilit 2] [2] (blit true) (.bool true) 0 .int [(1, 3)] cellsA 1 10
    (by decide) hasA ⟨pureAt_intLit _ _ 2, trivial⟩ ⟨⟨by decide, by decide⟩, trivial⟩ (pureAt_boolLit _ _ _)
    (by decide) (by decide)).1

example : (execStmt 10 (asg (.field (tk ".") (.var (tk "rec")) (tk "f")) (slit "zz"))).run.run exSt =
    (.error (.diag (rtDiag exSt 3 4 .typeMismatch)), tickSt exSt) :=
  (C05_reject_assign_field exSt asgT (tk ".") (tk "rec") (tk "f") (slit "zz") (.str "zz".toList) 0 (.comp "R".toList)
    "R".toList fieldsR (.int 7) 1 10 (by decide) hasRec rfl rfl (pureAt_strLit _ _ _) (by decide) (by decide)).1

example : (execStmt 10 (asg (.deref (tk "^") (.var (tk "p"))) (slit "zz"))).run.run exSt =
    (.error (.diag (rtDiag exSt 3 4 .typeMismatch)), tickSt exSt) :=
  (C05_reject_assign_deref exSt asgT (tk "^") (tk "p") (slit "zz") (.str "zz".toList) 0 "IntPtr".toList locX (.int 1) 1 10
    (by decide) hasP rfl rfl (pureAt_strLit _ _ _) (by decide) (by decide)).1

/-- a constant target: `constAssign`, state unchanged -/
example : (execAssign 5 asgT (.var (tk "k")) (ilit 3)).run.run exSt =
    (.error (.diag (rtDiag exSt 3 4 .constAssign)), exSt) :=
  C05_reject_assign_const exSt exSt asgT (.var (tk "k")) (ilit 3) (.int 3) (holderOf glob (glob.vars.getLast!)) 4 actsNe
    (pureAt_intLit _ _ _ 4 (by decide)) (run_resolveRef_var exSt glob glob [] (tk "k") 3 glob _ rfl rfl rfl) rfl rfl

/-- the positive half: `y <- 3` stores `3.0` -/
example : ∃ σ', (execAssign 5 asgT (.var (tk "y")) (ilit 3)).run.run exSt = (.ok ⟨⟩, σ') ∧
    readLocP σ' ⟨0, false, "y".toList, []⟩ = .ok (.real (FloatFmt.floatOfInt 3)) ∧ readLocP σ' locX = readLocP exSt locX := by
  obtain ⟨σ', h1, h2, _, _, h3⟩ := C05_accept_assign exSt exSt asgT (.var (tk "y")) (ilit 3) (.int 3) (.real 2.5)
    (varHolder 0 "y".toList .real) 4 actsNe (pureAt_intLit _ _ _ 4 (by decide))
    (run_resolveRef_hasVar exSt (tk "y") 0 .real 3 hasY.resolves) rfl hasY.notConst hasY.reads rfl (by decide) rfl
  exact ⟨σ', h1, h2, h3 locX (.inr (.inr (by decide)))⟩

/-- the model, evaluated: message and position, the targets keep their values, only `steps` is counted -/
example :
    diagOf ((execStmt 10 (asg (.var (tk "x")) (slit "no"))).run.run exSt).1 = some (.typeMismatch, 3, 4) ∧
    intAt ((execStmt 10 (asg (.var (tk "x")) (slit "no"))).run.run exSt).2 locX = some 1 ∧
    ((execStmt 10 (asg (.var (tk "x")) (slit "no"))).run.run exSt).2.steps = 1 ∧
    diagOf ((execStmt 10 (asg (.index (tk "[") (.var (tk "a")) [ilit 2]) (blit true))).run.run exSt).1 = some (.typeMismatch, 3, 4) ∧
    diagOf ((execStmt 10 (asg (.field (tk ".") (.var (tk "rec")) (tk "f")) (slit "zz"))).run.run exSt).1 = some (.typeMismatch, 3, 4) ∧
    diagOf ((execStmt 10 (asg (.deref (tk "^") (.var (tk "p"))) (slit "zz"))).run.run exSt).1 = some (.typeMismatch, 3, 4) ∧
    intAt ((execStmt 10 (asg (.deref (tk "^") (.var (tk "p"))) (slit "zz"))).run.run exSt).2 locX = some 1 ∧
    diagOf ((execStmt 10 (asg (.var (tk "k")) (ilit 3))).run.run exSt).1 = some (.constAssign, 3, 4) := by decide +kernel

/-! ### 2./3. arguments: `CALL PV("no")`, `CALL P2(1, TRUE)` (second parameter), `CALL PR(x)` (INTEGER variable, BYREF REAL) -/

example : (execStmt 10 (.call callT "PV".toList [slit "no"])).run.run exSt =
    (.error (.diag (rtDiag exSt 5 1 .invalidArgs)), tickSt exSt) :=
  (C05_reject_byval_pure 1 10 callT "PV".toList exSt procPV [] [] "n".toList .int [] [] (slit "no") [] [] (.str "no".toList)
    (by decide) actsNe rfl rfl ⟨pureAt_strLit _ _ _, trivial⟩ rfl rfl rfl (by decide) trivial (by decide) (by decide)).1

example : (execStmt 10 (.call callT "P2".toList [ilit 1, blit true])).run.run exSt =
    (.error (.diag (rtDiag exSt 5 1 .invalidArgs)), tickSt exSt) :=
  (C05_reject_byval_pure 1 10 callT "P2".toList exSt procP2 [("m".toList, .real, false)] [] "n".toList .int [ilit 1] []
    (blit true) [.int 1] [] (.bool true) (by decide) actsNe rfl rfl ⟨pureAt_intLit _ _ _, pureAt_boolLit _ _ _, trivial⟩
    rfl rfl rfl (by decide) ⟨rfl, rfl, trivial⟩ (by decide) (by decide)).1

example : (execStmt 10 (.call callT "PR".toList [var "x"])).run.run exSt =
    (.error (.diag (rtDiag exSt 5 1 .invalidArgs)), tickSt exSt) :=
  (C05_reject_byref_var 2 10 callT (tk "x") (tk "x") "PR".toList exSt procPR [] [] "n".toList .real [] [] [] [] (.int 1)
    0 .int (.int 1) (by decide) rfl rfl ⟨pureAt_hasVar (tk "x") (tk "x") hasX.tick, trivial⟩ rfl rfl rfl (by decide) trivial
    hasX (by decide) (by decide)).1

example :
    diagOf ((execStmt 10 (.call callT "PV".toList [slit "no"])).run.run exSt).1 = some (.invalidArgs, 5, 1) ∧
    ((execStmt 10 (.call callT "PV".toList [slit "no"])).run.run exSt).2.acts.length = 1 ∧
    diagOf ((execStmt 10 (.call callT "P2".toList [ilit 1, blit true])).run.run exSt).1 = some (.invalidArgs, 5, 1) ∧
    diagOf ((execStmt 10 (.call callT "PR".toList [var "x"])).run.run exSt).1 = some (.invalidArgs, 5, 1) ∧
    intAt ((execStmt 10 (.call callT "PR".toList [var "x"])).run.run exSt).2 locX = some 1 := by decide +kernel

/-! ### 4. RETURN: `x <- F()` where `F` returns a STRING for INTEGER -/

example : ∃ σr σF, (execAssign 8 asgT (.var (tk "x")) (.call (tk "F" 3 6) [])).run.run exSt =
      (.error (.diag (rtDiag σr 2 5 .typeMismatch)), σF) ∧
    σF.acts.map (·.id) = [0] ∧ readLocP σF locX = .ok (.int 1) := by
  obtain ⟨σr, σF, _, _, _, h, hids, hread, _⟩ := C05_reject_return 1 5 (tk "F" 3 6) (tk "RETURN" 2 5) asgT (.var (tk "x"))
    (slit "no") [] exSt exSt exSt funF (tk "FUNCTION" 1 1) [] glob [] [] (.str "no".toList) actsNe rfl rfl rfl rfl
    (by decide) rfl rfl (by decide) (pureAt_strLit _ _ _) (by decide) (by decide)
  exact ⟨σr, σF, h, hids, (hread locX).trans hasX.reads⟩

example :
    diagOf ((execStmt 10 (asg (.var (tk "x")) (.call (tk "F" 3 6) []))).run.run exSt).1 = some (.typeMismatch, 2, 5) ∧
    intAt ((execStmt 10 (asg (.var (tk "x")) (.call (tk "F" 3 6) []))).run.run exSt).2 locX = some 1 ∧
    ((execStmt 10 (asg (.var (tk "x")) (.call (tk "F" 3 6) []))).run.run exSt).2.acts.length = 1 := by decide +kernel

/-! ### 5. INPUT: `INPUT d` (DATE: rejected, the line is consumed), `INPUT x` (INTEGER, the line `hello`: stored as 0) -/

example : (execStmt 4 (.input inT (.var (tk "d")))).run.run exSt =
    (.error (.diag (rtDiag exSt 6 1 .nonPrimitive)), afterLine (tickSt exSt)) :=
  (C05_reject_input exSt inT (.var (tk "d")) (varHolder 0 "d".toList .date) 3 (by decide)
    (run_resolveRef_hasVar (tickSt exSt) (tk "d") 0 .date 2 hasD.tick.resolves) rfl hasD.notConst
    ⟨by decide, by decide, by decide, by decide, by decide⟩).1

example : ∃ σ', (execStmt 4 (.input inT (.var (tk "x")))).run.run exSt = (.ok .none, σ') ∧ readLocP σ' locX = .ok (.int 0) := by
  have hw : inputConvert .int (lineOf exSt) = some (.int 0) := by
    show some (Val.int (strToInteger (lineOf exSt))) = _
    rw [show strToInteger (lineOf exSt) = 0 by decide]
  obtain ⟨σ', h1, h2, _⟩ := C05_input_store exSt inT (.var (tk "x")) (varHolder 0 "x".toList .int) (.int 1) (.int 0) 3
    (by decide) (run_resolveRef_hasVar (tickSt exSt) (tk "x") 0 .int 2 hasX.tick.resolves) rfl hasX.notConst hasX.reads rfl hw
  exact ⟨σ', h1, h2⟩

example :
    diagOf ((execStmt 10 (.input inT (.var (tk "d")))).run.run exSt).1 = some (.nonPrimitive, 6, 1) ∧
    ((execStmt 10 (.input inT (.var (tk "d")))).run.run exSt).2.stdin = "rest".toList ∧
    intAt ((execStmt 10 (.input inT (.var (tk "x")))).run.run exSt).2 locX = some 0 ∧
    strAt ((execStmt 10 (.input inT (.var (tk "s")))).run.run exSt).2 ⟨0, false, "s".toList, []⟩ = some "hello".toList := by
  decide +kernel

/-! ### whole sessions (lexer, parser, evaluator): every channel, each rejected store followed by an OUTPUT of the target -/

def sess : String :=
  "DECLARE x : INTEGER\nx <- 1\nx <- \"no\"\nOUTPUT x\nDECLARE s : STRING\ns <- 'c'\ns <- 5\nOUTPUT s\n" ++
  "DECLARE a : ARRAY[1:3] OF INTEGER\na[2] <- 5\na[2] <- TRUE\nOUTPUT a[2]\n" ++
  "PROCEDURE PV(BYVAL n : INTEGER)\n    x <- n\nENDPROCEDURE\n\nCALL PV(\"no\")\nOUTPUT x\n" ++
  "PROCEDURE PR(BYREF n : REAL)\n    n <- 9.5\nENDPROCEDURE\n\nCALL PR(x)\nOUTPUT x\n" ++
  "FUNCTION F() RETURNS INTEGER\n    RETURN \"no\"\nENDFUNCTION\n\nx <- F()\nOUTPUT x\n" ++
  "DECLARE d : DATE\nINPUT d\nzzz\nINPUT x\nabc\nOUTPUT x\n"

/-- seven rejected stores (assignment to a variable, to a STRING variable after an accepted CHAR → STRING conversion, to an
    array element; BYVAL; BYREF; RETURN; INPUT into a DATE), each reported; after each one the target still prints its old
    value (`1`, `c`, `5`, `1`, `1`, `1`); the last `INPUT x` with the line `abc` is NOT rejected: `x` becomes `0`.
    (No REAL values in this session: the kernel cannot evaluate `Float` operations.) -/
example :
    (repl {} [] sess.toList).diags.map (fun d => (d.msg, d.line, d.col)) =
      [(.typeMismatch, 1, 4), (.typeMismatch, 1, 4), (.typeMismatch, 1, 7), (.invalidArgs, 1, 1), (.invalidArgs, 1, 1),
       (.typeMismatch, 2, 5), (.nonPrimitive, 1, 1)] ∧
    (repl {} [] sess.toList).out =
      "> \x1e> \x1e> \n\x1e> 1\n\x1e> \x1e> \x1e> \n\x1e> c\n\x1e> \x1e> \x1e> \n\x1e> 5\n\x1e> . . . \x1e> \n\x1e> 1\n\x1e> . . . \x1e> \n\x1e> 1\n\x1e> . . . \x1e> \n\x1e> 1\n\x1e> \x1e> \n\x1e> \x1e> 0\n\x1e> ".toList ∧
    (repl {} [] sess.toList).crash = none := by decide +kernel

/-- file mode: the rejected assignment ends the run with the diagnostic at the assignment token -/
example : (runFile {} "DECLARE x : INTEGER\nx <- 1\nOUTPUT x\nx <- \"no\"\nOUTPUT 99\n".toList [] []).out = "1\n\n".toList ∧
    (runFile {} "DECLARE x : INTEGER\nx <- 1\nOUTPUT x\nx <- \"no\"\nOUTPUT 99\n".toList [] []).diags.map (fun d => (d.msg, d.line, d.col))
      = [(.typeMismatch, 4, 4)] := by decide +kernel

/-! ### 6. the table, on the pairs of `C05_rejects` -/
example : storeCompatible .int (.real 2.5) = false ∧ storeCompatible .bool (.int 1) = false ∧
    storeCompatible .chr (.str "ab".toList) = false ∧ storeCompatible .real (.int 1) = true :=
  ⟨(C05_reject_table .int (.real 2.5) rfl).2 (by simp [Val.ty]), (C05_reject_table .bool (.int 1) rfl).2 (by simp [Val.ty]),
   (C05_reject_table .chr (.str "ab".toList) rfl).2 (by simp [Val.ty]), rfl⟩

end C05RejectEx
end Pseudo
